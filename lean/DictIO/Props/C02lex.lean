/-
  C02 — layout tolerance of the native reader, from the *text* of a source document with quoted strings.

  `Props/C02.lean` proves layout tolerance for token trees (tokenize → levels → scanner).  This file adds the two
  text stages in front of it — literal extraction and expression extraction — and composes:

    1  `lex_literals`          on any admissible layout of admissible source tokens the literal stage replaces the quoted
                               strings, left to right, by the placeholder words `labelToks` draws and copies the rest
    2  `lex_expressions_id`    a text without `$` passes the expression stage unchanged
    3  `label_toks`            the labelled token stream is the token stream of the labelled tree
    4  `labelled_wf`           the labelled tree is a well-formed token tree
    5  `srcToks_ok`, `gaps_bridge`
                               source tokens are admissible; an admissible source layout is an admissible token layout
    6  `parse_block_spread`    `parseBlock` on *any* admissible layout (line feeds, leading and trailing white space
                               included) = denotation of the labelled tree with the literals re-inserted;
                               `parse_block'_spread` is the same for the stages after newline removal / `strip`
    7  `exSrc…`, `ex_lex`, `ex_parse`, `ex_parse_loose`     a concrete instance

  Hypotheses beyond the ones asked for: none.  `lex_literals` needs `prev ≠ some '\\'` (part of its statement;
  `lex_literals_needs_prev` shows the lexer model answers `unsupported` otherwise) and holds for every fuel ≥ the text
  length.  `label_toks` needs the well-formedness of the keys (`label_toks_needs_wf`).
-/
import DictIO.Props.C02

namespace DictIO.C02
open DictIO

/-- an admissible source token -/
def TokOK : STok → Prop
  | .word w => isSrcWord w = true ∨ isDelimTok w = true
  | .quoted q b => isSrcQuoted q b = true

/-- the labelling state inside the lexer state -/
def labOf (st : LexSt) : LabelSt := { counter := st.counter, lits := st.lits }

/-- the lexer state with the labelling part replaced -/
def withLab (st : LexSt) (l : LabelSt) : LexSt := { st with counter := l.counter, lits := l.lits }

/-- labelling of a single source token -/
def labelTok (st : LabelSt) : STok → LabelSt × Str
  | .word w => (st, w)
  | .quoted _ b => ((st.fresh b).2, litPh (st.fresh b).1)

def asciiDigits : List Char := ['0', '1', '2', '3', '4', '5', '6', '7', '8', '9']

/-- `parseBlock` after its first line (newline removal and `strip`) -/
def parseBlock' (c : Counter) (block : Str) : Except ParseErr (Entries × Counter) := do
  let (st, block) ← lexLiteralsFuel (block.length + 1) { counter := c } none block
  let (st, block) := lexExpressions st block
  let es ← parseDictToks true [] (levels 0 (tokenize block)) []
  let es ← insertLiterals st.lits es
  pure (es, st.counter)

/-! ## helper lemmas -/

/-! ### character facts -/

theorem isWs_squote : isWs '\'' = false := by decide
theorem isWs_dquote : isWs '"' = false := by decide
theorem isWs_backslash : isWs '\\' = false := by decide
theorem isWs_dollar : isWs '$' = false := by decide
theorem isWs_nl : isWs '\n' = true := by decide

theorem ws_not_quote {c : Char} (h : isWs c = true) : isQuote c = false := by
  cases hq : isQuote c with
  | false => rfl
  | true =>
    simp only [isQuote, Bool.or_eq_true, beq_iff_eq] at hq
    rcases hq with rfl | rfl
    · rw [isWs_squote] at h; cases h
    · rw [isWs_dquote] at h; cases h

theorem ws_ne_backslash {c : Char} (h : isWs c = true) : c ≠ '\\' := by
  rintro rfl; rw [isWs_backslash] at h; cases h

theorem ws_ne_dollar {c : Char} (h : isWs c = true) : c ≠ '$' := by
  rintro rfl; rw [isWs_dollar] at h; cases h

theorem delim_chars : ∀ c ∈ Gen.delimiters, isQuote c = false ∧ c ≠ '$' ∧ c ≠ '\\' ∧ isWs c = false := by decide

theorem delimTok_inv {w : Str} (h : isDelimTok w = true) : ∃ c, w = [c] ∧ c ∈ Gen.delimiters := by
  match w, h with
  | [c], h => exact ⟨c, rfl, by simpa [isDelimTok] using h⟩

theorem srcWord_facts {w : Str} (h : isSrcWord w = true) :
    isWordTok w = true ∧ isPhTok w = false ∧ ∀ c ∈ w, isQuote c = false ∧ c ≠ '$' ∧ c ≠ '\\' := by
  simp only [isSrcWord, Bool.and_eq_true, Bool.not_eq_true', List.all_eq_true, bne_iff_ne, ne_eq] at h
  obtain ⟨⟨⟨⟨⟨⟨⟨h1, h2⟩, _⟩, _⟩, h5⟩, _⟩, _⟩, _⟩ := h
  exact ⟨h1, h2, fun c hc => ⟨(h5 c hc).1.1, (h5 c hc).1.2, (h5 c hc).2⟩⟩

theorem srcQuoted_facts {q : Char} {b : Str} (h : isSrcQuoted q b = true) :
    isQuote q = true ∧ q ∉ b ∧ ∀ c ∈ b, isLineBreak c = false ∧ c ≠ '$' := by
  simp only [isSrcQuoted, Bool.and_eq_true, Bool.not_eq_true', List.all_eq_true, bne_iff_ne, ne_eq,
    List.contains_eq_mem, decide_eq_false_iff_not] at h
  obtain ⟨⟨⟨⟨⟨⟨⟨⟨h1, h2⟩, h3⟩, _⟩, _⟩, _⟩, _⟩, _⟩, _⟩ := h
  exact ⟨h1, h2, fun c hc => h3 c hc⟩

/-- the characters of an admissible word token -/
theorem okWord_chars {w : Str} (h : isSrcWord w = true ∨ isDelimTok w = true) :
    ∀ c ∈ w, isQuote c = false ∧ c ≠ '$' ∧ c ≠ '\\' ∧ isWs c = false := by
  intro c hc
  rcases h with h | h
  · obtain ⟨hw, _, hch⟩ := srcWord_facts h
    exact ⟨(hch c hc).1, (hch c hc).2.1, (hch c hc).2.2, (wordTok_chars hw).2.1 c hc⟩
  · obtain ⟨d, rfl, hd⟩ := delimTok_inv h
    simp only [List.mem_singleton] at hc
    subst hc
    exact delim_chars c hd

/-! ### the labelling state inside the lexer state -/

theorem withLab_labOf (st : LexSt) : withLab st (labOf st) = st := rfl
theorem labOf_withLab (st : LexSt) (l : LabelSt) : labOf (withLab st l) = l := rfl
theorem withLab_withLab (st : LexSt) (l l' : LabelSt) : withLab (withLab st l) l' = withLab st l' := rfl

theorem labelToks_cons (st : LabelSt) (t : STok) (ts : List STok) :
    labelToks st (t :: ts) =
      ((labelToks (labelTok st t).1 ts).1, (labelTok st t).2 :: (labelToks (labelTok st t).1 ts).2) := by
  cases t <;> rfl

theorem labelToks_nil (st : LabelSt) : labelToks st [] = (st, []) := rfl

theorem labelToks_append (a b : List STok) : ∀ (st : LabelSt),
    labelToks st (a ++ b) =
      ((labelToks (labelToks st a).1 b).1, (labelToks st a).2 ++ (labelToks (labelToks st a).1 b).2) := by
  induction a with
  | nil => intro st; rfl
  | cons t a ih => intro st; simp only [List.cons_append, labelToks_cons, ih]

/-! ### the literal scanner -/

theorem lex_nil (fuel : Nat) (st : LexSt) (prev : Option Char) : lexLiteralsFuel fuel st prev [] = .ok (st, []) := by
  cases fuel <;> rfl

/-- a run of characters that are neither quotes nor backslashes is copied -/
theorem lex_copy (run rest : Str) (st st' : LexSt) (t : Str)
    (hq : ∀ c ∈ run, isQuote c = false) (hb : ∀ c ∈ run, c ≠ '\\')
    (hrest : ∀ fuel prev, rest.length ≤ fuel → prev ≠ some '\\' → lexLiteralsFuel fuel st prev rest = .ok (st', t)) :
    ∀ fuel prev, (run ++ rest).length ≤ fuel → prev ≠ some '\\' →
      lexLiteralsFuel fuel st prev (run ++ rest) = .ok (st', run ++ t) := by
  induction run with
  | nil => exact hrest
  | cons a run ih =>
    intro fuel prev hf hp
    cases fuel with
    | zero => simp at hf
    | succ f =>
      have ha : isQuote a = false := hq a (by simp)
      have hab : (some a : Option Char) ≠ some '\\' := by
        intro h; exact hb a (by simp) (Option.some.inj h)
      have := ih (fun c hc => hq c (by simp [hc])) (fun c hc => hb c (by simp [hc])) f (some a)
        (by simp at hf ⊢; omega) hab
      simp only [List.cons_append, lexLiteralsFuel, ha, Bool.false_eq_true, if_false, this]
      rfl

theorem splitAtChar_skip (q : Char) (b rest : Str) (h : q ∉ b) : splitAtChar q (b ++ q :: rest) = some (b, rest) := by
  induction b with
  | nil => simp [splitAtChar]
  | cons a b ih =>
    have ha : (a == q) = false := by
      simp only [beq_eq_false_iff_ne, ne_eq]; rintro rfl; exact h (by simp)
    simp [splitAtChar, ha, ih (fun hq => h (by simp [hq]))]

/-- a quoted string is lifted out and replaced by the next placeholder word -/
theorem lex_quoted (q : Char) (b rest : Str) (st st' : LexSt) (t : Str) (hq : isSrcQuoted q b = true)
    (hrest : ∀ fuel prev, rest.length ≤ fuel → prev ≠ some '\\' →
      lexLiteralsFuel fuel (withLab st (labelTok (labOf st) (.quoted q b)).1) prev rest = .ok (st', t)) :
    ∀ fuel prev, ((STok.quoted q b).text ++ rest).length ≤ fuel → prev ≠ some '\\' →
      lexLiteralsFuel fuel st prev ((STok.quoted q b).text ++ rest) =
        .ok (st', (labelTok (labOf st) (.quoted q b)).2 ++ t) := by
  intro fuel prev hf hp
  obtain ⟨h1, h2, h3⟩ := srcQuoted_facts hq
  cases fuel with
  | zero => simp [STok.text] at hf
  | succ f =>
    have hpe : (prev == some '\\') = false := by simpa using hp
    have hd : b.contains '$' = false := by
      simp only [List.contains_eq_mem, decide_eq_false_iff_not]
      intro hm; exact (h3 _ hm).2 rfl
    have hs : splitAtChar q (b ++ [q] ++ rest) = some (b, rest) := by
      simpa using splitAtChar_skip q b rest h2
    have hr := hrest f (some q) (by simp [STok.text] at hf ⊢; omega)
      (by intro h; have := Option.some.inj h; subst this; simp [isQuote] at h1)
    simp only [STok.text, List.cons_append, lexLiteralsFuel, h1, if_true, hpe, Bool.false_eq_true, if_false, hs, hd,
      Bool.and_false]
    simp only [labelTok, withLab, labOf, LabelSt.fresh, LexSt.fresh] at hr ⊢
    rw [hr]
    rfl

/-- one source token, whatever follows -/
theorem lex_tok (t : STok) (ht : TokOK t) (rest : Str) (st st' : LexSt) (out : Str)
    (hrest : ∀ fuel prev, rest.length ≤ fuel → prev ≠ some '\\' →
      lexLiteralsFuel fuel (withLab st (labelTok (labOf st) t).1) prev rest = .ok (st', out)) :
    ∀ fuel prev, (t.text ++ rest).length ≤ fuel → prev ≠ some '\\' →
      lexLiteralsFuel fuel st prev (t.text ++ rest) = .ok (st', (labelTok (labOf st) t).2 ++ out) := by
  cases t with
  | word w =>
    have hc := okWord_chars ht
    exact lex_copy w rest st st' out (fun c hc' => (hc c hc').1) (fun c hc' => (hc c hc').2.2.1) hrest
  | quoted q b => exact lex_quoted q b rest st st' out ht hrest

theorem gapsOKS_cons {t : STok} {ts : List STok} {g : Str} {gs : List Str}
    (h : GapsOKS (t :: ts) (g :: gs) = true) : g.all isWs = true ∧ GapsOKS ts gs = true := by
  match ts, gs, h with
  | [], _, h => exact ⟨by simpa [GapsOKS] using h, rfl⟩
  | u :: ts, [], h => simp [GapsOKS] at h
  | u :: ts, g' :: gs, h =>
    simp only [GapsOKS, Bool.and_eq_true] at h
    exact ⟨h.1.1, h.2⟩

theorem gapsOKS_nogaps {t : STok} {ts : List STok} (h : GapsOKS (t :: ts) [] = true) : ts = [] := by
  cases ts with
  | nil => rfl
  | cons u ts => simp [GapsOKS] at h

/-- the literal stage on any admissible layout, for every start state, previous character and sufficient fuel -/
theorem lex_spread : ∀ (ts : List STok) (gaps : List Str) (tail : Str), (∀ t ∈ ts, TokOK t) →
    GapsOKS ts gaps = true → tail.all isWs = true →
    ∀ (st : LexSt) (fuel : Nat) (prev : Option Char), (spreadS ts gaps tail).length ≤ fuel → prev ≠ some '\\' →
      lexLiteralsFuel fuel st prev (spreadS ts gaps tail) =
        .ok (withLab st (labelToks (labOf st) ts).1, spread (labelToks (labOf st) ts).2 gaps tail)
  | [], gaps, tail, _, _, htail, st, fuel, prev, hf, hp => by
    have htl := List.all_eq_true.mp htail
    have := lex_copy tail [] st st [] (fun c hc => ws_not_quote (htl c hc)) (fun c hc => ws_ne_backslash (htl c hc))
      (fun fuel prev _ _ => lex_nil fuel st prev) fuel prev (by simpa [spreadS, spread] using hf) hp
    simpa [spreadS, spread, labelToks_nil, withLab_labOf] using this
  | t :: ts, [], tail, hts, hg, htail, st, fuel, prev, hf, hp => by
    have := gapsOKS_nogaps hg; subst this
    have htl := List.all_eq_true.mp htail
    have e : spreadS [t] [] tail = t.text ++ (tail ++ []) := by simp [spreadS, spread]
    rw [e] at hf ⊢
    rw [lex_tok t (hts t (by simp)) (tail ++ []) st _ (tail ++ []) (fun fuel prev hf hp =>
      lex_copy tail [] _ _ [] (fun c hc => ws_not_quote (htl c hc)) (fun c hc => ws_ne_backslash (htl c hc))
        (fun fuel prev _ _ => lex_nil fuel _ prev) fuel prev hf hp) fuel prev hf hp]
    simp [labelToks_cons, labelToks_nil, spread]
  | t :: ts, g :: gs, tail, hts, hg, htail, st, fuel, prev, hf, hp => by
    obtain ⟨hgws, hrest⟩ := gapsOKS_cons hg
    have hgl := List.all_eq_true.mp hgws
    have e : spreadS (t :: ts) (g :: gs) tail = g ++ (t.text ++ spreadS ts gs tail) := by
      simp [spreadS, spread]
    rw [e] at hf ⊢
    rw [lex_copy g _ st _ _ (fun c hc => ws_not_quote (hgl c hc)) (fun c hc => ws_ne_backslash (hgl c hc))
      (lex_tok t (hts t (by simp)) _ st _ _ (fun fuel prev hf hp =>
        lex_spread ts gs tail (fun u hu => hts u (by simp [hu])) hrest htail _ fuel prev hf hp)) fuel prev hf hp]
    simp [labelToks_cons, spread, labOf_withLab, withLab_withLab]

/-! ### the expression stage on a text without `$` -/

theorem splitAtChar_mem (q : Char) : ∀ (s a b : Str), splitAtChar q s = some (a, b) → ∀ c ∈ a, c ∈ s
  | [], a, b, h => by simp [splitAtChar] at h
  | x :: s, a, b, h => by
    simp only [splitAtChar] at h
    split at h
    · simp at h; obtain ⟨rfl, _⟩ := h; simp
    · simp only [Option.map_eq_some_iff] at h
      obtain ⟨⟨a', b'⟩, h1, h2⟩ := h
      simp at h2; obtain ⟨rfl, rfl⟩ := h2
      intro c hc
      simp only [List.mem_cons] at hc ⊢
      rcases hc with rfl | hc
      · exact Or.inl rfl
      · exact Or.inr (splitAtChar_mem q s a' b' h1 c hc)

theorem matchExprAt_none (s : Str) (h : ∀ c ∈ s, c ≠ '$') : matchExprAt s = none := by
  unfold matchExprAt
  split
  · rename_i r
    split
    · rename_i body rest hs
      have : ¬ '$' ∈ body := by
        intro hm
        exact h '$' (by simp [splitAtChar_mem '"' r body rest hs '$' hm]) rfl
      simp [this]
    · rfl
  · rfl

theorem findExprsFuel_nil : ∀ (fuel : Nat) (s : Str), (∀ c ∈ s, c ≠ '$') → findExprsFuel fuel s = []
  | 0, _, _ => rfl
  | _ + 1, [], _ => rfl
  | fuel + 1, c :: r, h => by
    simp only [findExprsFuel, matchExprAt_none (c :: r) h]
    exact findExprsFuel_nil fuel r (fun x hx => h x (by simp [hx]))

theorem findRef_none : ∀ (s : Str), (∀ c ∈ s, c ≠ '$') → findRef s = none
  | [], _ => rfl
  | c :: r, h => by
    have hc : c ≠ '$' := h c (by simp)
    have ih := findRef_none r (fun x hx => h x (by simp [hx]))
    unfold findRef
    split
    · rename_i heq; cases heq; exact absurd rfl hc
    · rename_i heq; cases heq; simp [ih]
    · rename_i heq; cases heq

theorem lexRefsFuel_id (fuel : Nat) (st : LexSt) (s : Str) (h : ∀ c ∈ s, c ≠ '$') : lexRefsFuel fuel st s = (st, s) := by
  cases fuel with
  | zero => rfl
  | succ f => simp [lexRefsFuel, findRef_none s h]

/-! ### placeholder words -/

theorem ofNat_digit : ∀ k, k < 10 → Char.ofNat (48 + k) ∈ asciiDigits := by decide

theorem natDigits_digits (n : Nat) : ∀ c ∈ natDigits n, c ∈ asciiDigits := by
  induction n using Nat.strongRecOn with
  | _ n ih =>
    intro c hc
    rw [natDigits] at hc
    split at hc
    · rename_i h
      simp only [List.mem_singleton] at hc; subst hc; exact ofNat_digit n h
    · simp only [List.mem_append, List.mem_singleton] at hc
      rcases hc with hc | rfl
      · exact ih (n / 10) (by omega) c hc
      · exact ofNat_digit _ (Nat.mod_lt _ (by decide))

theorem padSix_ascii (i : Nat) : ∀ c ∈ padSix i, c ∈ asciiDigits := by
  intro c hc
  simp only [padSix, List.mem_append, List.mem_replicate] at hc
  rcases hc with ⟨_, rfl⟩ | hc
  · decide
  · exact natDigits_digits i c hc

theorem asciiDigits_facts : ∀ c ∈ asciiDigits, ('0' ≤ c ∧ c ≤ '9') ∧ isWs c = false ∧
    Gen.delimiters.contains c = false ∧ c ≠ '$' ∧ c ≠ 'C' ∧ c ≠ 'I' := by decide

theorem padSix_digits (i : Nat) : ∀ c ∈ padSix i, '0' ≤ c ∧ c ≤ '9' :=
  fun c hc => (asciiDigits_facts c (padSix_ascii i c hc)).1

theorem isInfix_cons (p : Str) (c : Char) (s : Str) : isInfix p (c :: s) = (p.isPrefixOf (c :: s) || isInfix p s) := by
  simp [isInfix, tails]

theorem isPrefixOf_cc (a b : Char) (p s : Str) : (a :: p).isPrefixOf (b :: s) = (a == b && p.isPrefixOf s) := rfl

theorem isInfix_head_notin (a : Char) (p : Str) : ∀ (s : Str), a ∉ s → isInfix (a :: p) s = false
  | [], _ => by simp [isInfix, tails]
  | c :: s, h => by
    have hc : (a == c) = false := by
      simp only [beq_eq_false_iff_ne, ne_eq]; rintro rfl; exact h (by simp)
    rw [isInfix_cons, isInfix_head_notin a p s (fun hm => h (by simp [hm]))]
    simp [isPrefixOf_cc, hc]

theorem litPh_not_ph (i : Nat) : isPhTok (litPh i) = false := by
  have hC : 'C' ∉ padSix i := fun h => (asciiDigits_facts _ (padSix_ascii i _ h)).2.2.2.2.1 rfl
  have hI : 'I' ∉ padSix i := fun h => (asciiDigits_facts _ (padSix_ascii i _ h)).2.2.2.2.2 rfl
  have e1 : "COMMENT".toList = ['C', 'O', 'M', 'M', 'E', 'N', 'T'] := rfl
  have e2 : "INCLUDE".toList = ['I', 'N', 'C', 'L', 'U', 'D', 'E'] := rfl
  have e3 : kwLit = ['S', 'T', 'R', 'I', 'N', 'G', 'L', 'I', 'T', 'E', 'R', 'A', 'L'] := rfl
  simp only [isPhTok, isCommentTok, isIncludeTok, litPh, e1, e2, e3, List.cons_append, List.nil_append, isInfix_cons,
    isInfix_head_notin _ _ _ hC, isInfix_head_notin _ _ _ hI]
  simp [isPrefixOf_cc]

theorem kwLit_chars : ∀ c ∈ kwLit, isWs c = false ∧ Gen.delimiters.contains c = false ∧ c ≠ '$' := by decide

theorem litPh_chars (i : Nat) : ∀ c ∈ litPh i, isWs c = false ∧ Gen.delimiters.contains c = false ∧ c ≠ '$' := by
  intro c hc
  simp only [litPh, List.mem_append] at hc
  rcases hc with hc | hc
  · exact kwLit_chars c hc
  · have := asciiDigits_facts c (padSix_ascii i c hc)
    exact ⟨this.2.1, this.2.2.1, this.2.2.2.1⟩

theorem litPh_shape (i : Nat) : litPh i = 'S' :: 'T' :: (['R', 'I', 'N', 'G', 'L', 'I', 'T', 'E', 'R', 'A', 'L'] ++ padSix i) := rfl

theorem litPh_word (i : Nat) : isWordTok (litPh i) = true := by
  have h := litPh_chars i
  rw [litPh_shape] at h ⊢
  simp only [isWordTok, List.isEmpty_cons, Bool.not_false, Bool.true_and, Bool.and_true, List.all_eq_true,
    Bool.and_eq_true, Bool.not_eq_true']
  exact fun c hc => ⟨(h c hc).1, (h c hc).2.1⟩

theorem litPh_not_delim (i : Nat) : isDelimTok (litPh i) = false := by
  rw [litPh_shape]; rfl

/-! ### labelled token streams -/

mutual
  theorem label_toksV : ∀ (v : Src) (d : Nat) (st : LabelSt), SrcWFV d v = true →
      labelToks st (srcToksV v) = ((labelV st v).1, toksV (labelV st v).2)
    | .lit (.bare w), d, st, h => rfl
    | .lit (.quoted q b), d, st, h => rfl
    | .dict es, d, st, h => by
      simp only [SrcWFV] at h
      simp only [srcToksV, labelV, toksV, labelToks_cons, labelTok, labelToks_append, labelToks_nil,
        label_toksEs es (d + 1) _ h]
    | .list xs, d, st, h => by
      simp only [SrcWFV] at h
      simp only [srcToksV, labelV, toksV, labelToks_cons, labelTok, labelToks_append, labelToks_nil,
        label_toksXs xs (d + 1) _ h]
  theorem label_toksEs : ∀ (es : SrcEntries) (d : Nat) (st : LabelSt), SrcWFEs d es = true →
      labelToks st (srcToksEs es) = ((labelEs st es).1, toksEs (labelEs st es).2)
    | [], d, st, h => rfl
    | (k, .lit l) :: es, d, st, h => by
      simp only [SrcWFEs, Bool.and_eq_true] at h
      obtain ⟨⟨⟨hk, _⟩, _⟩, hes⟩ := h
      have hp := (srcWord_facts hk).2.1
      cases l with
      | bare w =>
        simp only [srcToksEs, Lit.tok, labelToks_cons, labelTok, labelEs, labelV, toksEs, hp, Bool.false_eq_true,
          if_false, label_toksEs es d _ hes, List.cons_append, List.nil_append]
      | quoted q b =>
        simp only [srcToksEs, Lit.tok, labelToks_cons, labelTok, labelEs, labelV, toksEs, hp, Bool.false_eq_true,
          if_false, label_toksEs es d _ hes, List.cons_append, List.nil_append]
    | (k, .dict dd) :: es, d, st, h => by
      simp only [SrcWFEs, SrcWFV, Bool.and_eq_true] at h
      obtain ⟨⟨⟨hk, _⟩, hd⟩, hes⟩ := h
      simp only [srcToksEs, labelToks_cons, labelTok, labelToks_append, labelEs, labelV, toksEs,
        label_toksEs dd (d + 1) _ hd, label_toksEs es d _ hes, List.cons_append, List.nil_append, List.append_assoc]
    | (k, .list l) :: es, d, st, h => by
      simp only [SrcWFEs, SrcWFV, Bool.and_eq_true] at h
      obtain ⟨⟨⟨hk, _⟩, hd⟩, hes⟩ := h
      simp only [srcToksEs, labelToks_cons, labelTok, labelToks_append, labelEs, labelV, toksEs,
        label_toksXs l (d + 1) _ hd, label_toksEs es d _ hes, List.cons_append, List.nil_append, List.append_assoc]
  theorem label_toksXs : ∀ (xs : List Src) (d : Nat) (st : LabelSt), SrcWFXs d xs = true →
      labelToks st (srcToksXs xs) = ((labelXs st xs).1, toksXs (labelXs st xs).2)
    | [], d, st, h => rfl
    | v :: xs, d, st, h => by
      simp only [SrcWFXs, Bool.and_eq_true] at h
      simp only [srcToksXs, labelToks_append, labelXs, toksXs, label_toksV v d _ h.1, label_toksXs xs d _ h.2]
end

/-! ### the labelled tree is a well-formed token tree -/

mutual
  theorem labelled_wfV : ∀ (v : Src) (d : Nat) (st : LabelSt), SrcWFV d v = true → TokWFV (labelV st v).2 = true
    | .lit (.bare w), d, st, h => by
      simp only [SrcWFV, Lit.ok, Bool.and_eq_true] at h
      obtain ⟨hw, hp, _⟩ := srcWord_facts h.1
      simp [labelV, TokWFV, hw, hp]
    | .lit (.quoted q b), d, st, h => by simp [labelV, TokWFV, litPh_word, litPh_not_ph]
    | .dict es, d, st, h => by
      simp only [SrcWFV] at h
      simp only [labelV, TokWFV]
      exact labelled_wfEs es (d + 1) st h
    | .list xs, d, st, h => by
      simp only [SrcWFV] at h
      simp only [labelV, TokWFV]
      exact labelled_wfXs xs (d + 1) st h
  theorem labelled_wfEs : ∀ (es : SrcEntries) (d : Nat) (st : LabelSt), SrcWFEs d es = true →
      TokWFEs (labelEs st es).2 = true
    | [], _, _, _ => rfl
    | (k, .lit l) :: es, d, st, h => by
      simp only [SrcWFEs, Bool.and_eq_true] at h
      obtain ⟨⟨⟨hk, hkey⟩, hv⟩, hes⟩ := h
      obtain ⟨hkw, hkp, _⟩ := srcWord_facts hk
      have hv' := labelled_wfV (.lit l) d st hv
      cases l with
      | bare w =>
        simp only [labelV, TokWFV, Bool.and_eq_true] at hv'
        simp only [labelEs, labelV, TokWFEs, hkp, Bool.false_eq_true, if_false, hkw, hkey, hv'.1, hv'.2,
          labelled_wfEs es d _ hes, Bool.and_self]
      | quoted q b =>
        simp only [labelV, TokWFV, Bool.and_eq_true] at hv'
        simp only [labelEs, labelV, TokWFEs, hkp, Bool.false_eq_true, if_false, hkw, hkey, hv'.1, hv'.2,
          labelled_wfEs es d _ hes, Bool.and_self]
    | (k, .dict dd) :: es, d, st, h => by
      simp only [SrcWFEs, Bool.and_eq_true] at h
      obtain ⟨⟨⟨hk, hkey⟩, hv⟩, hes⟩ := h
      obtain ⟨hkw, hkp, _⟩ := srcWord_facts hk
      have hv' := labelled_wfV (.dict dd) d st hv
      simp only [labelV] at hv'
      simp only [labelEs, labelV, TokWFEs, hkp, hkw, hkey, hv', labelled_wfEs es d _ hes, Bool.not_false,
        Bool.and_self]
    | (k, .list l) :: es, d, st, h => by
      simp only [SrcWFEs, Bool.and_eq_true] at h
      obtain ⟨⟨⟨hk, hkey⟩, hv⟩, hes⟩ := h
      obtain ⟨hkw, hkp, _⟩ := srcWord_facts hk
      have hv' := labelled_wfV (.list l) d st hv
      simp only [labelV] at hv'
      simp only [labelEs, labelV, TokWFEs, hkp, hkw, hkey, hv', labelled_wfEs es d _ hes, Bool.not_false,
        Bool.and_self]
  theorem labelled_wfXs : ∀ (xs : List Src) (d : Nat) (st : LabelSt), SrcWFXs d xs = true →
      TokWFXs (labelXs st xs).2 = true
    | [], _, _, _ => rfl
    | v :: xs, d, st, h => by
      simp only [SrcWFXs, Bool.and_eq_true] at h
      simp only [labelXs, TokWFXs, labelled_wfV v d st h.1, labelled_wfXs xs d _ h.2, Bool.and_self]
end

/-! ### source tokens are admissible; admissible layouts stay admissible -/

theorem tokOK_delim {c : Char} (h : Gen.delimiters.contains c = true) : TokOK (.word [c]) := Or.inr h

mutual
  theorem srcToksV_ok : ∀ (v : Src) (d : Nat), SrcWFV d v = true → ∀ t ∈ srcToksV v, TokOK t
    | .lit l, d, h, t, ht => by
      simp only [SrcWFV, Bool.and_eq_true] at h
      simp only [srcToksV, List.mem_singleton] at ht
      subst ht
      cases l with
      | bare w => exact Or.inl h.1
      | quoted q b => exact h.1
    | .dict es, d, h, t, ht => by
      simp only [SrcWFV] at h
      simp only [srcToksV, List.mem_cons, List.mem_append, List.not_mem_nil, or_false, or_assoc] at ht
      rcases ht with rfl | ht | rfl
      · exact tokOK_delim (by decide)
      · exact srcToksEs_ok es (d + 1) h t ht
      · exact tokOK_delim (by decide)
    | .list xs, d, h, t, ht => by
      simp only [SrcWFV] at h
      simp only [srcToksV, List.mem_cons, List.mem_append, List.not_mem_nil, or_false, or_assoc] at ht
      rcases ht with rfl | ht | rfl
      · exact tokOK_delim (by decide)
      · exact srcToksXs_ok xs (d + 1) h t ht
      · exact tokOK_delim (by decide)
  theorem srcToksEs_ok : ∀ (es : SrcEntries) (d : Nat), SrcWFEs d es = true → ∀ t ∈ srcToksEs es, TokOK t
    | [], _, _, t, ht => by simp [srcToksEs] at ht
    | (k, .lit l) :: es, d, h, t, ht => by
      simp only [SrcWFEs, Bool.and_eq_true] at h
      obtain ⟨⟨⟨hk, _⟩, hv⟩, hes⟩ := h
      simp only [srcToksEs, List.mem_cons] at ht
      rcases ht with rfl | rfl | rfl | ht
      · exact Or.inl hk
      · exact srcToksV_ok (.lit l) d hv _ (by simp [srcToksV])
      · exact tokOK_delim (by decide)
      · exact srcToksEs_ok es d hes t ht
    | (k, .dict dd) :: es, d, h, t, ht => by
      simp only [SrcWFEs, SrcWFV, Bool.and_eq_true] at h
      obtain ⟨⟨⟨hk, _⟩, hv⟩, hes⟩ := h
      simp only [srcToksEs, List.mem_cons, List.mem_append, List.not_mem_nil, or_false, or_assoc] at ht
      rcases ht with rfl | rfl | ht | rfl | ht
      · exact Or.inl hk
      · exact tokOK_delim (by decide)
      · exact srcToksEs_ok dd (d + 1) hv t ht
      · exact tokOK_delim (by decide)
      · exact srcToksEs_ok es d hes t ht
    | (k, .list l) :: es, d, h, t, ht => by
      simp only [SrcWFEs, SrcWFV, Bool.and_eq_true] at h
      obtain ⟨⟨⟨hk, _⟩, hv⟩, hes⟩ := h
      simp only [srcToksEs, List.mem_cons, List.mem_append, List.not_mem_nil, or_false, or_assoc] at ht
      rcases ht with rfl | rfl | ht | rfl | rfl | ht
      · exact Or.inl hk
      · exact tokOK_delim (by decide)
      · exact srcToksXs_ok l (d + 1) hv t ht
      · exact tokOK_delim (by decide)
      · exact tokOK_delim (by decide)
      · exact srcToksEs_ok es d hes t ht
  theorem srcToksXs_ok : ∀ (xs : List Src) (d : Nat), SrcWFXs d xs = true → ∀ t ∈ srcToksXs xs, TokOK t
    | [], _, _, t, ht => by simp [srcToksXs] at ht
    | v :: xs, d, h, t, ht => by
      simp only [SrcWFXs, Bool.and_eq_true] at h
      simp only [srcToksXs, List.mem_append] at ht
      rcases ht with ht | ht
      · exact srcToksV_ok v d h.1 t ht
      · exact srcToksXs_ok xs d h.2 t ht
end

theorem labelTok_delim (st : LabelSt) (t : STok) : isDelimTok (labelTok st t).2 = isDelimSTok t := by
  cases t with
  | word w => rfl
  | quoted q b => exact litPh_not_delim _

theorem gaps_bridge_aux : ∀ (ts : List STok) (gaps : List Str) (st : LabelSt), GapsOKS ts gaps = true →
    GapsOK (labelToks st ts).2 gaps = true
  | [], _, _, _ => rfl
  | [t], [], st, _ => by simp [labelToks_cons, labelToks_nil, GapsOK]
  | [t], g :: gs, st, h => by simpa [labelToks_cons, labelToks_nil, GapsOK, GapsOKS] using h
  | t :: u :: ts, [], _, h => by simp [GapsOKS] at h
  | t :: u :: ts, [g], _, h => by simp [GapsOKS] at h
  | t :: u :: ts, g :: g' :: gs, st, h => by
    simp only [GapsOKS, Bool.and_eq_true] at h
    have ih := gaps_bridge_aux (u :: ts) (g' :: gs) (labelTok st t).1 h.2
    rw [labelToks_cons] at ih
    rw [labelToks_cons, labelToks_cons]
    simp only [GapsOK, labelTok_delim, Bool.and_eq_true]
    exact ⟨h.1, ih⟩

/-! ### characters of a layout -/

theorem gapsOK_cons' {t : Str} {ts : List Str} {g : Str} {gs : List Str}
    (h : GapsOK (t :: ts) (g :: gs) = true) : g.all isWs = true ∧ GapsOK ts gs = true := by
  match ts, gs, h with
  | [], _, h => exact ⟨by simpa [GapsOK] using h, rfl⟩
  | u :: ts, [], h => simp [GapsOK] at h
  | u :: ts, g' :: gs, h =>
    simp only [GapsOK, Bool.and_eq_true] at h
    exact ⟨h.1.1, h.2⟩

theorem gapsOK_nogaps {t : Str} {ts : List Str} (h : GapsOK (t :: ts) [] = true) : ts = [] := by
  cases ts with
  | nil => rfl
  | cons u ts => simp [GapsOK] at h

/-- a property of all token characters and all white space holds for every character of an admissible layout -/
theorem spread_forall (P : Char → Prop) (hws : ∀ c, isWs c = true → P c) : ∀ (toks gaps : List Str) (tail : Str),
    (∀ t ∈ toks, ∀ c ∈ t, P c) → GapsOK toks gaps = true → tail.all isWs = true →
    ∀ c ∈ spread toks gaps tail, P c
  | [], _, tail, _, _, htail, c, hc => hws c (List.all_eq_true.mp htail c (by simpa [spread] using hc))
  | t :: ts, [], tail, htoks, hg, htail, c, hc => by
    have := gapsOK_nogaps hg; subst this
    simp only [spread, List.mem_append] at hc
    rcases hc with hc | hc
    · exact htoks t (by simp) c hc
    · exact hws c (List.all_eq_true.mp htail c hc)
  | t :: ts, g :: gs, tail, htoks, hg, htail, c, hc => by
    obtain ⟨hgws, hrest⟩ := gapsOK_cons' hg
    simp only [spread, List.mem_append] at hc
    rcases hc with (hc | hc) | hc
    · exact hws c (List.all_eq_true.mp hgws c hc)
    · exact htoks t (by simp) c hc
    · exact spread_forall P hws ts gs tail (fun u hu => htoks u (by simp [hu])) hrest htail c hc

theorem labelled_no_dollar : ∀ (ts : List STok) (st : LabelSt), (∀ t ∈ ts, TokOK t) →
    ∀ w ∈ (labelToks st ts).2, ∀ c ∈ w, c ≠ '$'
  | [], _, _, w, hw => by simp [labelToks_nil] at hw
  | t :: ts, st, hts, w, hw => by
    rw [labelToks_cons] at hw
    simp only [List.mem_cons] at hw
    rcases hw with rfl | hw
    · intro c hc
      cases t with
      | word x => exact (okWord_chars (hts (.word x) (by simp)) c hc).2.1
      | quoted q b => exact (litPh_chars _ c hc).2.2
    · exact labelled_no_dollar ts _ (fun u hu => hts u (by simp [hu])) w hw

/-! ### first and last character of a layout; line feeds -/

theorem spread_cons (t : Str) (ts gaps : List Str) (tail : Str) :
    spread (t :: ts) gaps tail = gaps.headD [] ++ t ++ spread ts gaps.tail tail := by
  cases gaps <;> simp [spread]

theorem spread_snoc : ∀ (pre gaps : List Str) (t : Str), ∃ x, spread (pre ++ [t]) gaps [] = x ++ t
  | [], gaps, t => ⟨gaps.headD [], by simp [spread_cons, spread]⟩
  | p :: pre, gaps, t => by
    obtain ⟨x, hx⟩ := spread_snoc pre gaps.tail t
    exact ⟨gaps.headD [] ++ p ++ x, by simp [spread_cons, hx]⟩

theorem isLineBreak_nl : isLineBreak '\n' = true := by decide

/-- no admissible source token contains a line feed -/
theorem tokOK_no_nl {t : STok} (ht : TokOK t) : ∀ c ∈ t.text, c ≠ '\n' := by
  intro c hc
  cases t with
  | word w =>
    have := (okWord_chars ht c hc).2.2.2
    rintro rfl; rw [isWs_nl] at this; cases this
  | quoted q b =>
    obtain ⟨h1, _, h3⟩ := srcQuoted_facts ht
    simp only [STok.text, List.mem_cons, List.mem_append, List.not_mem_nil, or_false, or_assoc] at hc
    rcases hc with rfl | hc | rfl
    · rintro rfl; simp [isQuote] at h1
    · rintro rfl; have := (h3 _ hc).1; rw [isLineBreak_nl] at this; cases this
    · rintro rfl; simp [isQuote] at h1

theorem map_nl_id (s : Str) (h : ∀ c ∈ s, c ≠ '\n') : (s.map fun ch => if ch == '\n' then ' ' else ch) = s := by
  induction s with
  | nil => rfl
  | cons a s ih =>
    have ha : (a == '\n') = false := by simpa using h a (by simp)
    simp only [List.map_cons, ha, Bool.false_eq_true, if_false, ih (fun c hc => h c (by simp [hc]))]

theorem srcToksEs_cons_shape (k : Str) (v : Src) (es : SrcEntries) :
    ∃ pre c, srcToksEs ((k, v) :: es) = (.word k :: pre ++ [.word [c]]) ++ srcToksEs es ∧ isWs c = false := by
  cases v with
  | lit l => exact ⟨[l.tok], ';', by simp [srcToksEs], by decide⟩
  | dict d => exact ⟨.word ['{'] :: srcToksEs d, '}', by simp [srcToksEs], by decide⟩
  | list l => exact ⟨.word ['('] :: srcToksXs l ++ [.word [')']], ';', by simp [srcToksEs], by decide⟩

theorem srcToksEs_last : ∀ (es : SrcEntries), es ≠ [] → ∃ pre c, srcToksEs es = pre ++ [.word [c]] ∧ isWs c = false
  | [], h => absurd rfl h
  | (k, v) :: es, _ => by
    obtain ⟨pre, c, e, hc⟩ := srcToksEs_cons_shape k v es
    cases es with
    | nil => exact ⟨.word k :: pre, c, by simpa [srcToksEs] using e, hc⟩
    | cons e' es' =>
      obtain ⟨pre', c', e'', hc'⟩ := srcToksEs_last (e' :: es') (by simp)
      exact ⟨(.word k :: pre ++ [.word [c]]) ++ pre', c', by rw [e, e'']; simp, hc'⟩

/-! ### general layouts: newline removal and `strip` only touch the white space -/

/-- the shape of a layout without leading gap and tail: it starts and ends with a non-blank character -/
theorem core_shape (d : Nat) (es : SrcEntries) (gaps : List Str) (h : SrcWFEs d es = true) (hne : es ≠ [])
    (hhead : gaps.headD [] = []) :
    ∃ a x y b, spreadS (srcToksEs es) gaps [] = a :: x ∧ spreadS (srcToksEs es) gaps [] = y ++ [b] ∧
      isWs a = false ∧ isWs b = false := by
  cases es with
  | nil => exact absurd rfl hne
  | cons e es =>
    obtain ⟨k, v⟩ := e
    obtain ⟨pre, c, e1, hc⟩ := srcToksEs_cons_shape k v es
    obtain ⟨pre', c', e2, hc'⟩ := srcToksEs_last ((k, v) :: es) (by simp)
    have hk : isSrcWord k = true := by
      simp only [SrcWFEs, Bool.and_eq_true] at h; exact h.1.1.1
    obtain ⟨hne, hkws, _⟩ := wordTok_chars (srcWord_facts hk).1
    obtain ⟨x, hx⟩ := spread_snoc (pre'.map STok.text) gaps [c']
    cases k with
    | nil => exact absurd rfl hne
    | cons a k' =>
      refine ⟨a, k' ++ spread ((pre ++ [STok.word [c]] ++ srcToksEs es).map STok.text) gaps.tail [], x, c', ?_, ?_,
        hkws a (by simp), hc'⟩
      · rw [e1]
        simp only [spreadS, List.map_cons, List.cons_append, spread_cons, hhead, STok.text]
        rfl
      · rw [e2, ← hx]; simp [spreadS, STok.text]

theorem spread_tail : ∀ (toks gaps : List Str) (tail : Str), spread toks gaps tail = spread toks gaps [] ++ tail
  | [], _, _ => by simp [spread]
  | t :: ts, [], tail => by simp [spread, spread_tail ts [] tail]
  | t :: ts, g :: gs, tail => by simp [spread, spread_tail ts gs tail]

theorem map_spread (f : Char → Char) : ∀ (toks gaps : List Str) (tail : Str),
    (spread toks gaps tail).map f = spread (toks.map (·.map f)) (gaps.map (·.map f)) (tail.map f)
  | [], _, _ => by simp [spread]
  | t :: ts, [], tail => by simp [spread, map_spread f ts [] tail]
  | t :: ts, g :: gs, tail => by simp [spread, map_spread f ts gs tail]

theorem nl_ws {c : Char} (h : isWs c = true) : isWs (if c == '\n' then ' ' else c) = true := by
  split
  · exact isWs_space
  · exact h

theorem nl_ws_all (g : Str) (h : g.all isWs = true) :
    (g.map fun ch => if ch == '\n' then ' ' else ch).all isWs = true := by
  simp only [List.all_eq_true, List.mem_map] at h ⊢
  rintro c ⟨x, hx, rfl⟩
  exact nl_ws (h x hx)

theorem gapsOKS_map : ∀ (ts : List STok) (gaps : List Str), GapsOKS ts gaps = true →
    GapsOKS ts (gaps.map (·.map fun ch => if ch == '\n' then ' ' else ch)) = true
  | [], _, _ => rfl
  | [t], [], _ => rfl
  | [t], g :: gs, h => by
    simp only [GapsOKS, List.map_cons] at h ⊢
    exact nl_ws_all g h
  | t :: u :: ts, [], h => by simp [GapsOKS] at h
  | t :: u :: ts, [g], h => by simp [GapsOKS] at h
  | t :: u :: ts, g :: g' :: gs, h => by
    have ih := gapsOKS_map (u :: ts) (g' :: gs)
    simp only [GapsOKS, List.map_cons, Bool.and_eq_true, Bool.or_eq_true, Bool.not_eq_true', List.isEmpty_eq_false_iff,
      ne_eq, List.map_eq_nil_iff] at h ih ⊢
    exact ⟨⟨nl_ws_all g h.1.1, h.1.2⟩, ih h.2⟩

theorem dropWhile_ws_append (g s : Str) (hg : g.all isWs = true) : (g ++ s).dropWhile isWs = s.dropWhile isWs := by
  induction g with
  | nil => rfl
  | cons a g ih =>
    simp only [List.all_cons, Bool.and_eq_true] at hg
    simp [hg.1, ih hg.2]

theorem strip_ws (s : Str) (h : s.all isWs = true) : strip s = [] := by
  have := dropWhile_ws_append s [] h
  simp only [List.append_nil, List.dropWhile_nil] at this
  simp [strip, this]

theorem strip_core (g core tail x y : Str) (a b : Char) (hg : g.all isWs = true) (ht : tail.all isWs = true)
    (h1 : core = a :: x) (h2 : core = y ++ [b]) (ha : isWs a = false) (hb : isWs b = false) :
    strip (g ++ core ++ tail) = core := by
  unfold strip
  have e1 : (g ++ core ++ tail).dropWhile isWs = core ++ tail := by
    rw [List.append_assoc, dropWhile_ws_append g _ hg, h1]
    simp [ha]
  have e2 : ((core ++ tail).reverse).dropWhile isWs = b :: y.reverse := by
    rw [List.reverse_append, dropWhile_ws_append _ _ (by simpa using ht), h2]
    simp [hb]
  rw [e1, e2, h2]
  simp

theorem srcToksEs_two (es : SrcEntries) (hne : es ≠ []) : ∃ t u r, srcToksEs es = t :: u :: r := by
  cases es with
  | nil => exact absurd rfl hne
  | cons e es =>
    obtain ⟨k, v⟩ := e
    obtain ⟨pre, c, e1, _⟩ := srcToksEs_cons_shape k v es
    cases pre with
    | nil => exact ⟨_, _, _, e1⟩
    | cons p pre => exact ⟨_, _, _, e1⟩

/-- newline removal and `strip` turn an admissible layout into an admissible layout of the same tokens without
    line feeds, leading gap and tail -/
theorem normalise_spread (d : Nat) (es : SrcEntries) (gaps : List Str) (tail : Str) (h : SrcWFEs d es = true)
    (hg : GapsOKS (srcToksEs es) gaps = true) (ht : tail.all isWs = true) :
    ∃ gaps', GapsOKS (srcToksEs es) gaps' = true ∧
      strip ((spreadS (srcToksEs es) gaps tail).map fun ch => if ch == '\n' then ' ' else ch) =
        spreadS (srcToksEs es) gaps' [] := by
  have hok := srcToksEs_ok es d h
  have htoks : (List.map STok.text (srcToksEs es)).map (·.map fun ch => if ch == '\n' then ' ' else ch) =
      List.map STok.text (srcToksEs es) := by
    rw [List.map_map]
    apply List.map_congr_left
    intro t ht'
    exact map_nl_id _ (tokOK_no_nl (hok t ht'))
  have hmap : (spreadS (srcToksEs es) gaps tail).map (fun ch => if ch == '\n' then ' ' else ch) =
      spreadS (srcToksEs es) (gaps.map (·.map fun ch => if ch == '\n' then ' ' else ch))
        (tail.map fun ch => if ch == '\n' then ' ' else ch) := by
    simp only [spreadS, map_spread, htoks]
  rw [hmap]
  have hg' := gapsOKS_map _ _ hg
  have ht' := nl_ws_all tail ht
  generalize gaps.map (·.map fun ch => if ch == '\n' then ' ' else ch) = gm at hg' ⊢
  generalize (tail.map fun ch => if ch == '\n' then ' ' else ch) = tm at ht' ⊢
  by_cases hne : es = []
  · subst hne
    refine ⟨[], rfl, ?_⟩
    simp only [srcToksEs, spreadS, List.map_nil, spread]
    exact strip_ws tm ht'
  · obtain ⟨t, u, r, e⟩ := srcToksEs_two es hne
    match gm, hg' with
    | [], hg' => rw [e] at hg'; simp [GapsOKS] at hg'
    | [g], hg' => rw [e] at hg'; simp [GapsOKS] at hg'
    | g :: g' :: gs, hg' =>
      have hg0 : GapsOKS (srcToksEs es) ([] :: g' :: gs) = true := by
        rw [e] at hg' ⊢
        simp only [GapsOKS, Bool.and_eq_true] at hg' ⊢
        exact ⟨⟨rfl, hg'.1.2⟩, hg'.2⟩
      have hgws : g.all isWs = true := by
        rw [e] at hg'
        simp only [GapsOKS, Bool.and_eq_true] at hg'
        exact hg'.1.1
      refine ⟨[] :: g' :: gs, hg0, ?_⟩
      obtain ⟨a, x, y, b, h1, h2, ha, hb⟩ := core_shape d es ([] :: g' :: gs) h hne rfl
      have esplit : spreadS (srcToksEs es) (g :: g' :: gs) tm =
          g ++ spreadS (srcToksEs es) ([] :: g' :: gs) [] ++ tm := by
        simp only [spreadS, e, List.map_cons]
        rw [spread_tail]
        simp [spread]
      rw [esplit]
      exact strip_core g _ tm x y a b hgws ht' h1 h2 ha hb

/-! ### small tools -/

theorem parseBlock_eq (c : Counter) (block : Str) :
    parseBlock c block = parseBlock' c (strip (block.map fun ch => if ch == '\n' then ' ' else ch)) := rfl

theorem except_ok_of_check {ε α : Type} [DecidableEq α] (x : Except ε α) (a : α)
    (h : (match x with | .ok r => decide (r = a) | .error _ => false) = true) : x = .ok a := by
  cases x with
  | error e => simp at h
  | ok r => simp at h; rw [h]

/-! ## theorems -/

/-- **1.** The literal stage on any admissible layout of admissible source tokens: the quoted strings are replaced,
    left to right, by the placeholder words `labelToks` draws, their bodies are recorded under those ids, and
    everything else (words, delimiters, white space) is copied.  Holds for every start state, every previous
    character except a backslash (see `lex_literals_needs_prev`), and every fuel not below the text length
    (in particular for `length + 1`, which is what the reader passes). -/
theorem lex_literals (ts : List STok) (gaps : List Str) (tail : Str) (hts : ∀ t ∈ ts, TokOK t)
    (hg : GapsOKS ts gaps = true) (htail : tail.all isWs = true)
    (st : LexSt) (prev : Option Char) (hp : prev ≠ some '\\') (fuel : Nat)
    (hf : (spreadS ts gaps tail).length ≤ fuel) :
    lexLiteralsFuel fuel st prev (spreadS ts gaps tail) =
      .ok ({ st with counter := (labelToks { counter := st.counter, lits := st.lits } ts).1.counter,
                     lits := (labelToks { counter := st.counter, lits := st.lits } ts).1.lits },
           spread (labelToks { counter := st.counter, lits := st.lits } ts).2 gaps tail) :=
  lex_spread ts gaps tail hts hg htail st fuel prev hf hp

/-- the hypothesis on the previous character is needed: directly after a backslash an opening quote leaves the
    fidelity domain of the model (the reader's regular expression refuses `\\'` as the start of a literal) -/
theorem lex_literals_needs_prev (st : LexSt) :
    lexLiteralsFuel 3 st (some '\\') (spreadS [.quoted '\'' []] [[]] []) = .error .unsupported := rfl

/-- **2.** without a `$` in the text the expression stage finds neither an expression nor a reference -/
theorem lex_expressions_id (st : LexSt) (s : Str) (h : ∀ c ∈ s, c ≠ '$') : lexExpressions st s = (st, s) := by
  simp [lexExpressions, findExprsFuel_nil _ s h, lexRefsFuel_id _ st s h]

/-- **3.** The labelled token stream is the token stream of the labelled tree: labelling the flat source tokens and
    flattening the labelled tree give the same words and the same final state. -/
theorem label_toks (d : Nat) (st : LabelSt) (es : SrcEntries) (h : SrcWFEs d es = true) :
    labelToks st (srcToksEs es) = ((labelEs st es).1, toksEs (labelEs st es).2) := label_toksEs es d st h

/-- well-formedness is needed in **3**: a key that looks like a comment placeholder is flattened to a single token -/
theorem label_toks_needs_wf :
    (labelToks { counter := none } (srcToksEs [("COMMENT".toList, .lit (.bare ['x']))])).2 ≠
      toksEs (labelEs { counter := none } [("COMMENT".toList, .lit (.bare ['x']))]).2 := by decide

/-- **4.** The labelled tree is a well-formed token tree. -/
theorem labelled_wf (d : Nat) (st : LabelSt) (es : SrcEntries) (h : SrcWFEs d es = true) :
    TokWFEs (labelEs st es).2 = true := labelled_wfEs es d st h

/-- **5a.** Every source token of a well-formed source document is admissible. -/
theorem srcToks_ok (d : Nat) (es : SrcEntries) (h : SrcWFEs d es = true) : ∀ t ∈ srcToksEs es, TokOK t :=
  srcToksEs_ok es d h

/-- **5b.** An admissible layout of source tokens is an admissible layout of the labelled tokens (a quoted string
    becomes a word, delimiters stay delimiters).  No hypothesis on the tokens is needed. -/
theorem gaps_bridge (ts : List STok) (gaps : List Str) (st : LabelSt) (h : GapsOKS ts gaps = true) :
    GapsOK (labelToks st ts).2 gaps = true := gaps_bridge_aux ts gaps st h

theorem parse_block'_spread (c : Counter) (d : Nat) (es : SrcEntries) (gaps : List Str) (tail : Str)
    (h : SrcWFEs d es = true) (hg : GapsOKS (srcToksEs es) gaps = true) (ht : tail.all isWs = true) :
    parseBlock' c (spreadS (srcToksEs es) gaps tail) =
      (insertLiterals (labelEs { counter := c } es).1.lits (denEs (labelEs { counter := c } es).2 [])).map
        (fun r => (r, (labelEs { counter := c } es).1.counter)) := by
  have hok := srcToksEs_ok es d h
  have hl := label_toksEs es d { counter := c } h
  have hlex := lex_spread (srcToksEs es) gaps tail hok hg ht { counter := c } _ none (Nat.le_succ _) (by simp)
  have hgl := gaps_bridge_aux (srcToksEs es) gaps { counter := c } hg
  have hlab : labOf { counter := c } = ({ counter := c } : LabelSt) := rfl
  rw [hlab, hl] at hlex
  rw [hl] at hgl
  have hnd := labelled_no_dollar (srcToksEs es) { counter := c } hok
  rw [hl] at hnd
  have hdollar : ∀ x ∈ spread (toksEs (labelEs { counter := c } es).2) gaps tail, x ≠ '$' :=
    spread_forall (· ≠ '$') (fun _ => ws_ne_dollar) _ _ _ hnd hgl ht
  have hwf := labelled_wfEs es d { counter := c } h
  have hscan := C02_layout_tolerant_tokens _ gaps tail hwf hgl ht
  unfold parseBlock'
  rw [hlex]
  simp only [bind, Except.bind, lex_expressions_id _ _ hdollar, hscan]
  have e1 : (withLab { counter := c } (labelEs { counter := c } es).1).lits = (labelEs { counter := c } es).1.lits := rfl
  have e2 : (withLab { counter := c } (labelEs { counter := c } es).1).counter =
      (labelEs { counter := c } es).1.counter := rfl
  rw [e1, e2]
  cases insertLiterals (labelEs { counter := c } es).1.lits (denEs (labelEs { counter := c } es).2 []) <;> rfl

/-- **6 = C02 (text level).** Whatever white space (blanks, tabs, line feeds, any `\\s` character) separates the tokens
    of a well-formed source document, leads it or trails it, the reader's stages after the comment/include stages
    return the documented denotation of the labelled tree with the literals re-inserted, and the counter has
    advanced by the number of quoted strings. -/
theorem parse_block_spread (c : Counter) (d : Nat) (es : SrcEntries) (gaps : List Str) (tail : Str)
    (h : SrcWFEs d es = true) (hg : GapsOKS (srcToksEs es) gaps = true) (ht : tail.all isWs = true) :
    parseBlock c (spreadS (srcToksEs es) gaps tail) =
      (insertLiterals (labelEs { counter := c } es).1.lits (denEs (labelEs { counter := c } es).2 [])).map
        (fun r => (r, (labelEs { counter := c } es).1.counter)) := by
  obtain ⟨gaps', hg', e⟩ := normalise_spread d es gaps tail h hg ht
  rw [parseBlock_eq, e]
  exact parse_block'_spread c d es gaps' [] h hg' rfl

/-- two admissible layouts of the same source document are read alike -/
theorem C02_layout_independent_text (c : Counter) (d : Nat) (es : SrcEntries) (gaps₁ gaps₂ : List Str)
    (tail₁ tail₂ : Str) (h : SrcWFEs d es = true)
    (hg₁ : GapsOKS (srcToksEs es) gaps₁ = true) (ht₁ : tail₁.all isWs = true)
    (hg₂ : GapsOKS (srcToksEs es) gaps₂ = true) (ht₂ : tail₂.all isWs = true) :
    parseBlock c (spreadS (srcToksEs es) gaps₁ tail₁) = parseBlock c (spreadS (srcToksEs es) gaps₂ tail₂) := by
  rw [parse_block_spread c d es gaps₁ tail₁ h hg₁ ht₁, parse_block_spread c d es gaps₂ tail₂ h hg₂ ht₂]

/-! ### 7. a concrete instance (non-vacuity) -/

/-- `k 'a; {b}'; l ( "it's" 1 ); sub { p 'x y'; }` -/
def exSrc : SrcEntries :=
  [ (['k'], .lit (.quoted '\'' "a; {b}".toList)),
    (['l'], .list [.lit (.quoted '"' "it's".toList), .lit (.bare ['1'])]),
    ("sub".toList, .dict [(['p'], .lit (.quoted '\'' "x y".toList))]) ]

theorem exSrc_wf : SrcWFEs 1 exSrc = true := by decide

theorem exSrc_toks : srcToksEs exSrc =
    [.word ['k'], .quoted '\'' "a; {b}".toList, .word [';'], .word ['l'], .word ['('], .quoted '"' "it's".toList,
     .word ['1'], .word [')'], .word [';'], .word "sub".toList, .word ['{'], .word ['p'], .quoted '\'' "x y".toList,
     .word [';'], .word ['}']] := by decide

/-- everything glued where the grammar allows it -/
def exSGapsGlued : List Str := [[], [' '], [], [], [], [], [' '], [], [], [], [], [], [' '], [], []]

/-- tabs, CRLF, a no-break space, runs of blanks -/
def exSGapsLoose : List Str :=
  [['\t'], [' ', ' '], [' '], ['\r', '\n'], [' '], ['\t'], ['\u00a0'], [' '], [], ['\r', '\n', '\r', '\n'], ['\n'],
   ['\n', ' ', ' '], ['\t', '\t'], [], ['\n']]

theorem exSGapsGlued_ok : GapsOKS (srcToksEs exSrc) exSGapsGlued = true := by decide
theorem exSGapsLoose_ok : GapsOKS (srcToksEs exSrc) exSGapsLoose = true := by decide

theorem exSGlued_text :
    spreadS (srcToksEs exSrc) exSGapsGlued [] = "k 'a; {b}';l(\"it's\" 1);sub{p 'x y';}".toList := by decide

theorem exSLoose_text : spreadS (srcToksEs exSrc) exSGapsLoose ['\r', '\n'] =
    "\tk  'a; {b}' ;\r\nl (\t\"it's\"\u00a01 );\r\n\r\nsub\n{\n  p\t\t'x y';\n}\r\n".toList := by decide

theorem exSrc_label : (labelEs { counter := none } exSrc).2 = 
    [ (.str ['k'], .leaf (.str "STRINGLITERAL000000".toList)),
      (.str ['l'], .list [.leaf (.str "STRINGLITERAL000001".toList), .leaf (.str ['1'])]),
      (.str "sub".toList, .dict [(.str ['p'], .leaf (.str "STRINGLITERAL000002".toList))]) ] := by decide +kernel

theorem exSrc_label_st : (labelEs { counter := none } exSrc).1.counter = some 2 ∧
    (labelEs { counter := none } exSrc).1.lits = [(0, "a; {b}".toList), (1, "it's".toList), (2, "x y".toList)] := by
  decide +kernel

/-- the literal stage on the loose layout: the three strings are lifted out, the layout is kept -/
theorem ex_lex (st : LexSt) (hc : st.counter = none) (hl : st.lits = []) :
    lexLiteralsFuel 100 st none
        "\tk  'a; {b}' ;\r\nl (\t\"it's\"\u00a01 );\r\n\r\nsub\n{\n  p\t\t'x y';\n}\r\n".toList =
      .ok ({ st with counter := some 2, lits := [(0, "a; {b}".toList), (1, "it's".toList), (2, "x y".toList)] },
        "\tk  STRINGLITERAL000000 ;\r\nl (\tSTRINGLITERAL000001\u00a01 );\r\n\r\nsub\n{\n  p\t\tSTRINGLITERAL000002;\n}\r\n".toList) := by
  have h := lex_literals (srcToksEs exSrc) exSGapsLoose ['\r', '\n'] (srcToksEs_ok exSrc 1 exSrc_wf) exSGapsLoose_ok
    (by decide) st none (by simp) 100 (by rw [exSLoose_text]; decide)
  rw [exSLoose_text, hc, hl, label_toksEs exSrc 1 _ exSrc_wf, exSrc_label_st.1, exSrc_label_st.2, exSrc_label] at h
  rw [h]
  rfl

/-- from the text to the tree: quoted strings with blanks, delimiters and the other quote character come back as
    the strings they spell -/
theorem ex_parse : parseBlock none "k 'a; {b}';l(\"it's\" 1);sub{p 'x y';}".toList =
    .ok ([ (.str ['k'], .leaf (.str "a; {b}".toList)),
           (.str ['l'], .list [.leaf (.str "it's".toList), .leaf (.int 1)]),
           (.str "sub".toList, .dict [(.str ['p'], .leaf (.str "x y".toList))]) ], some 2) := by
  rw [← exSGlued_text, parse_block_spread none 1 exSrc exSGapsGlued [] exSrc_wf exSGapsGlued_ok rfl]
  exact except_ok_of_check _ _ (by decide +kernel)

/-- the same document with tabs, CRLF, a no-break space, a leading tab and a trailing CRLF -/
theorem ex_parse_loose : parseBlock none
      "\tk  'a; {b}' ;\r\nl (\t\"it's\"\u00a01 );\r\n\r\nsub\n{\n  p\t\t'x y';\n}\r\n".toList =
    .ok ([ (.str ['k'], .leaf (.str "a; {b}".toList)),
           (.str ['l'], .list [.leaf (.str "it's".toList), .leaf (.int 1)]),
           (.str "sub".toList, .dict [(.str ['p'], .leaf (.str "x y".toList))]) ], some 2) := by
  rw [← exSLoose_text, parse_block_spread none 1 exSrc exSGapsLoose _ exSrc_wf exSGapsLoose_ok (by decide)]
  exact except_ok_of_check _ _ (by decide +kernel)

end DictIO.C02
