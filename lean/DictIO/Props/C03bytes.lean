/-
  C03, the bytes -- `C03_bytes_stable_statement` of Props/C03.lean for sources without includes whose only comment is
  (at most) the header the library writes.

  The source is `nativeHeader ++ layout` (`hdr = true`) or `layout` (`hdr = false`), `layout` any admissible layout of a
  well-formed source document whose meaning `D` lies in the value domain.  `DictReader.read` returns `D` — with the
  header placeholder entry and the header comment if there is a header —; the real writer (`fmtSD`) writes
  `T = nativeHeader ++ fmtPlain D` in the first cycle; reading `T` gives `hdrSD D`; writing that gives `T` again
  (`C12.header_fixpoint`); and so on for every later cycle.

    `srcText`, `firstRead`, `cycleText`, `SrcOK`   the source text, what the first read returns, the text every cycle
                                     writes, the hypotheses (those of `C03_cycles` and `C01_roundtrip_file`)
    `read_source`                    the first read
    `write_either`, `read_cycleText` one write–read cycle from either state: text `T`, SDict `hdrSD D`
    `C03_bytes_stable`               the statement of `C03_bytes_stable_statement`, on these sources
    `sdCycles`, `C03_bytes_all_cycles`   every cycle writes the same bytes and reads the same SDict; the data after every
                                     cycle is the data of the first read up to the header placeholder entry
  The full statement (arbitrary comments, include directives, expressions) stays `C03_bytes_stable_statement`; it is
  false in general (known findings D27 adjacent comments, D32) and is decided by the correspondence check.
-/
import DictIO.Props.C01dump
import DictIO.Props.C03

namespace DictIO.C03
open DictIO

attribute [local irreducible] nativeHeader
set_option linter.unusedSimpArgs false

/-- the source: an admissible layout, with or without the library's header in front -/
def srcText (hdr : Bool) (es : SrcEntries) (gaps : List Str) (tail : Str) : Str :=
  (if hdr then nativeHeader else []) ++ spreadS (srcToksEs es) gaps tail

/-- what `DictReader.read` returns for the source -/
def firstRead (hdr : Bool) (D : Entries) : SD := if hdr then C12.hdrSD D else { data := D }

/-- the text every cycle writes -/
def cycleText (D : Entries) : Str := nativeHeader ++ fmtPlain .native D

/-- `n` cycles "write the SDict with the real writer, read the file": the text written and the SDict read in each -/
def sdCycles (ev : Str → EvalResult) (p : Comps) : Nat → SD → Counter → List (Str × SD)
  | 0, _, _ => []
  | n + 1, sd, c =>
    match fmtSD .native sd with
    | none => []
    | some t =>
      match readFile ev [(p, .native t)] {} c p with
      | .ok (.ok sd' c') => (t, sd') :: sdCycles ev p n sd' c'
      | _ => []

/-- the hypotheses on the source document (those of `C03_cycles`) and on the path (those of `C01_roundtrip_file`) -/
structure SrcOK (es : SrcEntries) (gaps : List Str) (tail : Str) (p : Comps) : Prop where
  hwf : SrcWFEs 1 es = true
  hg : GapsOKS (srcToksEs es) gaps = true
  ht : tail.all isWs = true
  hn : C02.countQuotedEs es ≤ Gen.counterLimit + 1
  hd : C02.DocKeysAbsent es
  hdom : DomC01 .native (denSrcEs es []) = true
  hn₂ : C02.countQuotedEs (srcOfEs .native (denSrcEs es [])) ≤ Gen.counterLimit + 1
  hj : isJsonPath p = false
  hx : isXmlPath p = false
  hr : resolveSpelled p = p

section
variable {es : SrcEntries} {gaps : List Str} {tail : Str} {p : Comps} (H : SrcOK es gaps tail p) (ev : Str → EvalResult)
include H

/-- the first read of the source, counter valid afterwards -/
theorem read_source (hdr : Bool) {c : Counter} (hc : C13.ValidCounter Gen.counterLimit c) :
    ∃ c', C13.ValidCounter Gen.counterLimit c' ∧
      readFile ev [(p, .native (srcText hdr es gaps tail))] {} c p = .ok (.ok (firstRead hdr (denSrcEs es [])) c') := by
  cases hdr with
  | false =>
    obtain ⟨c', hv, h1⟩ := read_layout true (pathStr p.dropLast) H.hwf H.hg H.ht hc H.hn H.hd
    refine ⟨c', hv, ?_⟩
    simp only [srcText, firstRead, Bool.false_eq_true, if_false, List.nil_append]
    exact readFile_of_parse ev p _ h1 (C02.den_noPh H.hwf) (C02.den_nodup es) H.hj H.hx H.hr
  | true =>
    have h1 := C12.read_header_gen (c := c) (pathStr p.dropLast) H.hwf H.hg H.ht hc H.hn
      (C02.den_docKeys H.hwf H.hd).1 (C02.den_docKeys H.hwf H.hd).2
    refine ⟨_, C12.valid_after_label es hc, ?_⟩
    simp only [srcText, firstRead, if_true]
    exact C01.readFile_of_parse_hdr ev p _ h1 (C02.den_noPh H.hwf) (C02.den_nodup es) H.hj H.hx H.hr

/-- what the real writer writes for either SDict: the header, then the plain text of `D` -/
theorem write_either (hdr : Bool) : fmtSD .native (firstRead hdr (denSrcEs es [])) = some (cycleText (denSrcEs es [])) := by
  cases hdr with
  | false => exact C12.fmtSD_text _
  | true => exact (C12.write_header H.hdom).trans (C12.fmtSD_text _)

/-- reading the text a cycle writes -/
theorem read_cycleText {c : Counter} (hc : C13.ValidCounter Gen.counterLimit c) :
    ∃ c', C13.ValidCounter Gen.counterLimit c' ∧
      readFile ev [(p, .native (cycleText (denSrcEs es [])))] {} c p = .ok (.ok (C12.hdrSD (denSrcEs es [])) c') :=
  C01.readFile_dumped ev p H.hdom (norm_den H.hwf) (den_docKeys' H.hwf H.hd) H.hn₂ hc H.hj H.hx H.hr

/-- **C03, bytes** — the statement of `C03_bytes_stable_statement` for a source without includes whose only comment
    is (at most) the library's header: the text written in the second cycle is, byte for byte, the text written in the
    first, and reading it again returns the same data.  (The counter states are those of an actual run: `c` is one
    that can occur, and so is `c₃`.) -/
theorem C03_bytes_stable (hdr : Bool) (c c₁ c₂ : Counter) (sd₀ sd₁ sd₂ : SD) (t₁ t₂ : Str)
    (hc : C13.ValidCounter Gen.counterLimit c) :
    readFile ev [(p, .native (srcText hdr es gaps tail))] {} c p = .ok (.ok sd₀ c₁) →
    fmtSD .native sd₀ = some t₁ →
    readFile ev [(p, .native t₁)] {} c₁ p = .ok (.ok sd₁ c₂) →
    fmtSD .native sd₁ = some t₂ →
    sd₀.incl = [] ∧ t₂ = t₁ ∧
      (∀ c₃ c₄, C13.ValidCounter Gen.counterLimit c₃ →
        readFile ev [(p, .native t₂)] {} c₃ p = .ok (.ok sd₂ c₄) → sd₂.data = sd₁.data) := by
  intro h0 hw1 h1 hw2
  obtain ⟨c₁', hv₁, e0⟩ := read_source H ev hdr hc
  rw [e0] at h0
  injection h0 with h0; injection h0 with hs0 hc0
  subst hs0 hc0
  rw [write_either H hdr] at hw1
  injection hw1 with hw1; subst hw1
  obtain ⟨c₂', hv₂, e1⟩ := read_cycleText H ev hv₁
  rw [e1] at h1
  injection h1 with h1; injection h1 with hs1 hc1
  subst hs1 hc1
  have hw := write_either H true
  simp only [firstRead, if_true] at hw
  rw [hw] at hw2
  injection hw2 with hw2; subst hw2
  refine ⟨by cases hdr <;> rfl, rfl, ?_⟩
  intro c₃ c₄ hv₃ h2
  obtain ⟨c₄', _, e2⟩ := read_cycleText H ev hv₃
  rw [e2] at h2
  injection h2 with h2; injection h2 with hs2 _
  rw [← hs2]

/-! ### every cycle -/

/-- from either state every cycle writes `cycleText D` and reads `hdrSD D` -/
theorem sdCycles_fix (hdr : Bool) : ∀ (n : Nat) (c : Counter), C13.ValidCounter Gen.counterLimit c →
    sdCycles ev p n (firstRead hdr (denSrcEs es [])) c =
      List.replicate n (cycleText (denSrcEs es []), C12.hdrSD (denSrcEs es []))
  | 0, _, _ => rfl
  | n + 1, c, hc => by
    obtain ⟨c', hv, e⟩ := read_cycleText H ev hc
    have ih := sdCycles_fix true n c' hv
    simp only [firstRead, if_true] at ih
    simp only [sdCycles, write_either H hdr, e, ih, List.replicate_succ]

/-- **C03, bytes, every cycle.**  After the first read of the source, `n` write–read cycles with the real writer all
    write the same bytes `nativeHeader ++ fmtPlain D` and all read the same SDict; its data is the data of the first
    read (`D`) with the header placeholder entry in front — exactly the data of the first read when the source had the
    header already. -/
theorem C03_bytes_all_cycles (hdr : Bool) {c : Counter} (hc : C13.ValidCounter Gen.counterLimit c) (n : Nat) :
    ∃ c₁, readFile ev [(p, .native (srcText hdr es gaps tail))] {} c p =
        .ok (.ok (firstRead hdr (denSrcEs es [])) c₁) ∧
      sdCycles ev p n (firstRead hdr (denSrcEs es [])) c₁ =
        List.replicate n (cycleText (denSrcEs es []), C12.hdrSD (denSrcEs es [])) ∧
      C01.dropPhEntries (firstRead hdr (denSrcEs es [])).data = denSrcEs es [] ∧
      C01.dropPhEntries (C12.hdrSD (denSrcEs es [])).data = denSrcEs es [] ∧
      (hdr = true → (C12.hdrSD (denSrcEs es [])).data = (firstRead hdr (denSrcEs es [])).data) := by
  obtain ⟨c₁, hv₁, e0⟩ := read_source H ev hdr hc
  refine ⟨c₁, e0, sdCycles_fix H ev hdr n c₁ hv₁, ?_,
    C01.dropPh_hdr (C02.den_noPh H.hwf), ?_⟩
  · cases hdr with
    | true => exact C01.dropPh_hdr (C02.den_noPh H.hwf)
    | false =>
      show List.filter _ (denSrcEs es []) = _
      exact List.filter_eq_self.mpr fun e he => by
        rw [C12.noPh_keys (C02.den_noPh H.hwf) e.1 (List.mem_map_of_mem he)]; rfl
  · intro h; subst h; rfl

end

/-! ## non-vacuity: the example document of `C02lex`, with the header in front, three cycles -/

theorem ex_bytes (ev : Str → EvalResult) :
    ∃ c₁, readFile ev [(["f".toList], .native (srcText true C02.exSrc C02.exSGapsLoose ['\r', '\n']))] {} none ["f".toList] =
        .ok (.ok (C12.hdrSD C02.exData) c₁) ∧
      sdCycles ev ["f".toList] 3 (C12.hdrSD C02.exData) c₁ =
        List.replicate 3 (nativeHeader ++ fmtPlain .native C02.exData, C12.hdrSD C02.exData) := by
  have H : SrcOK C02.exSrc C02.exSGapsLoose ['\r', '\n'] ["f".toList] :=
    ⟨C02.exSrc_wf, C02.exSGapsLoose_ok, by decide, by rw [C02.exSrc_count]; decide, C02.exSrc_docKeys,
      by rw [C02.exSrc_den]; exact exData_dom, by rw [C02.exSrc_den]; decide +kernel, by decide, by decide, by decide⟩
  obtain ⟨c₁, h1, h2, _⟩ := C03_bytes_all_cycles H ev true (c := none) (Or.inl rfl) 3
  simp only [firstRead, if_true, C02.exSrc_den, cycleText] at h1 h2
  exact ⟨c₁, h1, h2⟩

end DictIO.C03
