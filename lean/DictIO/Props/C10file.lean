/-
  C10, through files -- `DictWriter.write(d, x.foam, mode)` then `DictReader.read(x.foam)`: the analogue of
  `C01.C01_roundtrip_file` for the OpenFOAM flavour, built from `C10.C10_roundtrip_string_dropped`.

  Model: `writeStep ev .foam target none mode false d c` (Model/Writer.lean) = `fmtPlain .foam (normEs d)`: for a plain
  dict the Foam writer writes NO banner and NO `FoamFile` block (`fmtPlain` has no header; only `fmtSD`, the `SDict`
  route, has one: `C10.C10_banner`), so there is no header entry to account for on this route.
  `readFile` → `parseFile` (Model/Reader.lean): the suffix dispatch of the model knows `.json` (`isJsonPath`) and
  `.xml`/`.ssd` (`isXmlPath`); every other path — `.foam` included — goes to `parseNative`: the Foam reader *is* the
  native reader (`FoamParser(NativeParser)` overrides nothing that matters).  The path hypothesis is therefore
  "not a JSON path, not an XML path"; `foamPath_dispatch` shows that a path with suffix `.foam` satisfies it.

    `normV_drop`, `normEs_drop`, `normXs_drop`   `_retype_values` commutes with the removal of private keys
    `docKeys_dropped`                            `_variables` / `_includes` are private keys: after the removal they are
                                                 absent — the Foam route needs no `DocKeysAbsent'` hypothesis
    `norm_invariants_foam`                       no placeholder key, unique keys at every level (Foam domain)
    `read_written_foam`                          `DictReader.read` of a file that holds the Foam writer's text
    `C10_roundtrip_file`                         the statement
    `C10_roundtrip_file_never_fails`, `C10_roundtrip_foam_suffix`   corollaries
    `exF…`                                       `{'_variables': {'x': 1}, 'a': [{'_z': 1, 'y': "it's"}], 's': {'_p': 'q', 't': "2"}, 'k': 'x y'}`

  Left open: the `SDict` route (`fmtSD .foam`: banner + `FoamFile` block in front, read back as a block-comment
  placeholder entry plus a `FoamFile` dict entry).  It needs the comment stage of the reader on the Foam banner, i.e. the
  Foam counterpart of Props/C12hdr.lean + Props/C01dump.lean; nothing of it is claimed here.
-/
import DictIO.Props.C01
import DictIO.Props.C10

namespace DictIO.C10
open DictIO

/-! ## `_retype_values` and the removal of private keys commute -/

mutual
  theorem normV_drop (fl : Flavor) : ∀ v : Val, normV (dropUnderscoreV fl v) = dropUnderscoreV fl (normV v)
    | .leaf _ => rfl
    | .dict es => by simp only [dropUnderscoreV, normV, normEs_drop fl es]
    | .list xs => by simp only [dropUnderscoreV, normV, normXs_drop fl xs]
  /-- the removal looks at keys only, `normEs` at leaves only -/
  theorem normEs_drop (fl : Flavor) : ∀ es : Entries, normEs (dropUnderscoreEs fl es) = dropUnderscoreEs fl (normEs es)
    | [] => rfl
    | (k, v) :: es => by
      simp only [dropUnderscoreEs, normEs]
      split
      · exact normEs_drop fl es
      · simp only [normEs, normV_drop fl v, normEs_drop fl es]
  theorem normXs_drop (fl : Flavor) : ∀ xs : List Val, normXs (dropUnderscoreXs fl xs) = dropUnderscoreXs fl (normXs xs)
    | [] => rfl
    | v :: xs => by simp only [dropUnderscoreXs, normXs, normV_drop fl v, normXs_drop fl xs]
end

/-- what the reader returns for the text of `normEs d`: normalising once more changes nothing -/
theorem norm_drop_norm (d : Entries) :
    normEs (dropUnderscoreEs .foam (normEs d)) = normEs (dropUnderscoreEs .foam d) := by
  rw [← normEs_drop, C01.normEs_idem]

/-! ## the documentation keys are private keys -/

theorem mem_noUnderscore : ∀ {es : Entries}, NoUnderscoreEs es → ∀ e ∈ es, (formatKey .foam e.1).head? ≠ some '_'
  | [], _, e, he => by simp at he
  | (k, v) :: es, h, e, he => by
    rcases List.mem_cons.mp he with rfl | hm
    · exact h.1
    · exact mem_noUnderscore h.2.2 e hm

/-- `_variables` and `_includes` start with `_`: the Foam writer never writes them, so the reader never deletes them -/
theorem docKeys_dropped (es : Entries) : C01.DocKeysAbsent' (dropUnderscoreEs .foam es) := by
  intro e he
  have h := mem_noUnderscore (C10_underscore es) e he
  refine ⟨fun hk => h ?_, fun hk => h ?_⟩
  · rw [hk]; decide +kernel
  · rw [hk]; decide +kernel

/-! ## the reader stages above the parser -/

/-- a dict of the Foam value domain, normalised, has no placeholder key and unique keys at every level -/
theorem norm_invariants_foam {es : Entries} (h : DomC01 .foam es = true) :
    C07.NoPhEs (normEs es) ∧ NodupKeysV (.dict (normEs es)) := by
  have hdom : domEs .foam 1 es = true := by
    simp only [DomC01, Bool.and_eq_true] at h; exact h.1
  have hwf := Foam.srcOf_wf_f 1 es hdom
  rw [← Foam.den_written_f h]
  exact ⟨C02.den_noPh hwf, C02.den_nodup _⟩

/-- `DictReader.read` of a file that holds the Foam writer's text for a dict `e` whose private-key-free copy lies in
    the Foam value domain: the normalised copy comes back, all side tables empty -/
theorem read_written_foam {e : Entries} {c : Counter} (ev : Str → EvalResult) (target : Comps)
    (hdom : DomC01 .foam (dropUnderscoreEs .foam e) = true)
    (hn : C02.countQuotedEs (srcOfEs .foam (dropUnderscoreEs .foam e)) ≤ Gen.counterLimit + 1)
    (hc : C13.ValidCounter Gen.counterLimit c)
    (hj : isJsonPath target = false) (hx : isXmlPath target = false) (hr : resolveSpelled target = target) :
    ∃ c', readFile ev [(target, .native (fmtPlain .foam e))] {} c target =
      .ok (.ok { data := normEs (dropUnderscoreEs .foam e) } c') := by
  obtain ⟨c', hparse⟩ := C10_roundtrip_string_dropped (c := c) true (pathStr target.dropLast) hdom (docKeys_dropped e)
    hn hc
  have hinv := norm_invariants_foam hdom
  obtain ⟨hmi, hev⟩ := C01.read_stages_plain ev [(target, .native (fmtPlain .foam e))] true
    (normEs (dropUnderscoreEs .foam e)) target.dropLast c' hinv.1 hinv.2
  refine ⟨c', ?_⟩
  have hpf : parseFile [(target, .native (fmtPlain .foam e))] true c target =
      .ok ({ data := normEs (dropUnderscoreEs .foam e) }, c') := by
    simp only [parseFile, hx, hr, C01.fs_get_single, hj, hparse]
    rfl
  simp only [readFile, hpf, bind, Except.bind, pure, Except.pure]
  simp only [if_true, hmi, hev]
  rfl

/-! ## the property -/

/-- **C10, through files** (DictWriter + DictReader, OpenFOAM flavour, plain dict).  For a dict `d` — private `_` keys
    allowed at every level, also inside lists — whose normalised private-key-free copy
    `normEs (dropUnderscoreEs .foam d)` lies in the Foam value domain (`DomC01 .foam`: in particular no string leaf
    contains `"`), writing it in Foam flavour with any `mode` to a target that does not exist yet writes the plain Foam
    text of `normEs d` (no banner, no `FoamFile` block: `d` is a plain dict), and reading that file with the default
    options returns exactly `normEs d` without its private keys, all side tables empty; no key with a leading `_` is
    left at any level.

    Hypotheses as in `C01.C01_roundtrip_file`, except that `DocKeysAbsent'` is not needed (`docKeys_dropped`).  The path
    must not be a `.json` / `.xml` / `.ssd` path (`.foam` is fine: `foamPath_dispatch`) and must be normalised. -/
theorem C10_roundtrip_file {d : Entries} {c : Counter} (ev : Str → EvalResult) (target : Comps) (mode : Str) :
    DomC01 .foam (normEs (dropUnderscoreEs .foam d)) = true →
    C02.countQuotedEs (srcOfEs .foam (normEs (dropUnderscoreEs .foam d))) ≤ Gen.counterLimit + 1 →
    C13.ValidCounter Gen.counterLimit c →
    isJsonPath target = false → isXmlPath target = false → resolveSpelled target = target →
    writeStep ev .foam target none mode false d c = .ok (fmtPlain .foam (normEs d), c) ∧
    (∃ c', readFile ev [(target, .native (fmtPlain .foam (normEs d)))] {} c target =
      .ok (.ok { data := normEs (dropUnderscoreEs .foam d) } c')) ∧
    NoUnderscoreEs (normEs (dropUnderscoreEs .foam d)) := by
  intro hdom hn hc hj hx hr
  refine ⟨rfl, ?_, ?_⟩
  · rw [normEs_drop] at hdom hn
    have h := read_written_foam (e := normEs d) ev target hdom hn hc hj hx hr
    rwa [norm_drop_norm] at h
  · rw [normEs_drop]; exact C10_underscore _

/-- the Foam file route never fails on the domain -/
theorem C10_roundtrip_file_never_fails {d : Entries} {c : Counter} (ev : Str → EvalResult) (target : Comps) (mode : Str)
    (hdom : DomC01 .foam (normEs (dropUnderscoreEs .foam d)) = true)
    (hn : C02.countQuotedEs (srcOfEs .foam (normEs (dropUnderscoreEs .foam d))) ≤ Gen.counterLimit + 1)
    (hc : C13.ValidCounter Gen.counterLimit c)
    (hj : isJsonPath target = false) (hx : isXmlPath target = false) (hr : resolveSpelled target = target) :
    ∃ t c₁ r, writeStep ev .foam target none mode false d c = .ok (t, c₁) ∧
      readFile ev [(target, .native t)] {} c₁ target = .ok r := by
  obtain ⟨hw, ⟨c', hrd⟩, _⟩ := C10_roundtrip_file ev target mode hdom hn hc hj hx hr
  exact ⟨_, _, _, hw, hrd⟩

/-- without private keys the Foam file route returns `normEs d` itself, as the native route does -/
theorem C10_roundtrip_file_no_private {d : Entries} {c : Counter} (ev : Str → EvalResult) (target : Comps) (mode : Str)
    (hu : NoUnderscoreEs d) (hdom : DomC01 .foam (normEs d) = true)
    (hn : C02.countQuotedEs (srcOfEs .foam (normEs d)) ≤ Gen.counterLimit + 1)
    (hc : C13.ValidCounter Gen.counterLimit c)
    (hj : isJsonPath target = false) (hx : isXmlPath target = false) (hr : resolveSpelled target = target) :
    ∃ c', readFile ev [(target, .native (fmtPlain .foam (normEs d)))] {} c target = .ok (.ok { data := normEs d } c') := by
  have e := C10_drop_id d hu
  have h := (C10_roundtrip_file (d := d) (c := c) ev target mode (by rw [e]; exact hdom) (by rw [e]; exact hn) hc hj hx hr).2.1
  rwa [e] at h

/-! ## the suffix dispatch -/

/-- the target is a `.foam` file -/
def isFoamPath (p : Comps) : Bool :=
  match p.getLast? with
  | some n => suffixOf n == ".foam".toList
  | none => false

/-- a `.foam` path is neither a JSON nor an XML path: `parseFile` hands it to `parseNative` (= the Foam reader) -/
theorem foamPath_dispatch {p : Comps} (h : isFoamPath p = true) : isJsonPath p = false ∧ isXmlPath p = false := by
  unfold isFoamPath at h
  unfold isJsonPath isXmlPath
  cases hl : p.getLast? with
  | none => rw [hl] at h; cases h
  | some n =>
    rw [hl] at h
    simp only [beq_iff_eq] at h
    simp only [h]
    decide

/-- `C10_roundtrip_file` for a target with suffix `.foam` -/
theorem C10_roundtrip_foam_suffix {d : Entries} {c : Counter} (ev : Str → EvalResult) (target : Comps) (mode : Str)
    (hdom : DomC01 .foam (normEs (dropUnderscoreEs .foam d)) = true)
    (hn : C02.countQuotedEs (srcOfEs .foam (normEs (dropUnderscoreEs .foam d))) ≤ Gen.counterLimit + 1)
    (hc : C13.ValidCounter Gen.counterLimit c)
    (hf : isFoamPath target = true) (hr : resolveSpelled target = target) :
    writeStep ev .foam target none mode false d c = .ok (fmtPlain .foam (normEs d), c) ∧
    ∃ c', readFile ev [(target, .native (fmtPlain .foam (normEs d)))] {} c target =
      .ok (.ok { data := normEs (dropUnderscoreEs .foam d) } c') := by
  obtain ⟨hj, hx⟩ := foamPath_dispatch hf
  obtain ⟨hw, hrd, _⟩ := C10_roundtrip_file ev target mode hdom hn hc hj hx hr
  exact ⟨hw, hrd⟩

/-! ## non-vacuity -/

/-- `{'_variables': {'x': 1}, 'a': [{'_z': 1, 'y': "it's"}], 's': {'_p': 'q', 't': "2"}, 'k': 'x y'}`: a
    documentation key, private keys on the top level, in a nested dict and in a dict inside a list, a string leaf that
    spells a number -/
def exF : Entries :=
  [(.str "_variables".toList, .dict [(.str "x".toList, .leaf (.int 1))]),
   (.str "a".toList, .list [.dict [(.str "_z".toList, .leaf (.int 1)), (.str "y".toList, .leaf (.str "it's".toList))]]),
   (.str "s".toList, .dict [(.str "_p".toList, .leaf (.str "q".toList)), (.str "t".toList, .leaf (.str "2".toList))]),
   (.str "k".toList, .leaf (.str "x y".toList))]

/-- what comes back: `{'a': [{'y': "it's"}], 's': {'t': 2}, 'k': 'x y'}` -/
def exFBack : Entries :=
  [(.str "a".toList, .list [.dict [(.str "y".toList, .leaf (.str "it's".toList))]]),
   (.str "s".toList, .dict [(.str "t".toList, .leaf (.int 2))]),
   (.str "k".toList, .leaf (.str "x y".toList))]

theorem exF_back : normEs (dropUnderscoreEs .foam exF) = exFBack := by decide +kernel
theorem exFBack_dom : DomC01 .foam exFBack = true := by decide +kernel
theorem exFBack_count : C02.countQuotedEs (srcOfEs .foam exFBack) = 2 := by decide +kernel
theorem exF_docKey : ¬ C01.DocKeysAbsent' exF := by decide

theorem intRepr_2 : intRepr 2 = ['2'] := by
  show intRepr (Int.ofNat 2) = _
  simp [intRepr, natDigits]

/-- the raw text of the private-key-free copy (before trailing-space removal) -/
theorem exFBack_raw : fmtEntries .foam 0 exFBack = C01.unlines
    ["a",
     "(",
     "    ",
     "    {",
     "        y                     \"it's\";",
     "    }",
     ");",
     "s",
     "{",
     "    t                         2;",
     "}",
     "k                             \"x y\";"] := by
  simp only [exFBack, fmtEntries, fmtList, fmtItems, formatKey, keyStr, formatScalar, intRepr_2]
  decide +kernel

/-- the text of the file: no banner, no `FoamFile` block, no private key, double quotes only -/
theorem exF_text : fmtPlain .foam (normEs exF) = C01.unlines
    ["a",
     "(",
     "",
     "    {",
     "        y                     \"it's\";",
     "    }",
     ");",
     "s",
     "{",
     "    t                         2;",
     "}",
     "k                             \"x y\";"] := by
  have hu : NoUnderscoreEs exFBack := by rw [← exF_back, normEs_drop]; exact C10_underscore _
  rw [← C10_fmtPlain_drop, ← normEs_drop, exF_back, C10_input_unchanged, C10_drop_id _ hu, Foam.hoist_id_f exFBack_dom,
    exFBack_raw]
  decide +kernel

def exTarget : Comps := ["w".toList, "dict.foam".toList]

theorem exTarget_foam : isFoamPath exTarget = true ∧ resolveSpelled exTarget = exTarget := by decide +kernel

/-- the example written to `/w/dict.foam` and read back -/
theorem exF_file (ev : Str → EvalResult) (mode : Str) :
    writeStep ev .foam exTarget none mode false exF none = .ok (fmtPlain .foam (normEs exF), none) ∧
    ∃ c', readFile ev [(exTarget, .native (fmtPlain .foam (normEs exF)))] {} none exTarget =
      .ok (.ok { data := exFBack } c') := by
  have h := C10_roundtrip_foam_suffix (d := exF) (c := none) ev exTarget mode
    (by rw [exF_back]; exact exFBack_dom) (by rw [exF_back, exFBack_count]; decide) (Or.inl rfl)
    exTarget_foam.1 exTarget_foam.2
  rwa [exF_back] at h

end DictIO.C10
