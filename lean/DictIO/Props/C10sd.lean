/-
  C10, the `SDict` route in OpenFOAM flavour -- `DictWriter.write(SDict(d), 'x.foam')` / `SDict(d).dump('x.foam')`, then
  `DictReader.read('x.foam')`: what is written, what comes back, and that a second write does not add a second header.

  What is proved (model: `fmtSD .foam`, `insertBlockComments`, `parseNative`, `readFile`, `writeStep`, `writeText`, `apiRun`):

    `C10_sd_text`                 for EVERY dict `d`: `fmtSD .foam { data := d } = some (foamHeaderText ++ fmtPlain .foam d)`;
                                  `foamHeaderText` = `banner ++ "\n" ++ foamFileText ++ sepLine ++ "\n"`, the three parts spelled
                                  out as string literals (`banner_str`, `foamFileText_str`, `sepLine_str`) and equal to the
                                  generated header of the model (`foamHeaderText_eq`)
    `C10_sd_starts_with_banner`   EVERY SDict none of whose block comments has its placeholder entry in the data (in
                                  particular `blockC = []`: `C10_sd_starts_with_banner'`), any line comments / includes / data:
                                  if `fmtSD .foam` succeeds the text is `foamHeaderText ++ r` (banner first, then the
                                  `FoamFile` block, then the separator line); `insertBlock_none`
    `C10_roundtrip_sd`            hypotheses `Hyp d c target` = those of `C10.C10_roundtrip_file` + `NoFoamFileKey d`:
                                  the text written is `sdText d`; `readFile` on it succeeds and returns EXACTLY `foamSD i D'`
                                  (`D' = normEs (dropUnderscoreEs .foam d)`, `i` = first id the counter hands out):
                                    data   = `BLOCKCOMMENT000000 ↦ BLOCKCOMMENT000000`,
                                             `FoamFile ↦ {version: 2.0 (float), format: 'ascii', class: 'dictionary', object: 'foamDict'}`,
                                             `LINECOMMENT<i> ↦ LINECOMMENT<i>`, then the entries of `D'` in order
                                    blockC = `[(0, banner)]`, lineC = `[(i, sepLine)]`, no includes, no expressions;
                                  `dropHeaderEntries` (placeholder entries and `FoamFile` out) gives `D'`; `D'` has no `_` key
    `C10_sd_header_once`          writing the SDict read gives the same bytes (fixed point); `C10_sd_header_once'`:
                                  `fmtSD .foam (foamSD i D) = fmtSD .foam { data := D }` on the Foam domain (`write_foamSD`)
    `C10_sd_writeStep_append`     the same through `writeStep` (append mode, nothing merged): the file keeps its bytes
    `C10_sd_writeText`, `C10_sd_api`   through Model/Api.lean: `writeText` on a fresh `.foam` target; `apiRun [dump, read]`
    `read_foam_parse`             the reader (`parseNative`, comments on) on `foamHeader ++ fmtPlain .foam D`

  Deviations from the statement as asked for (both with machine-checked witnesses, replayed on the real code):
    * `C10_roundtrip_sd_statement_false`: removing "the block-comment placeholder entry and the `FoamFile` entry" does NOT
      leave the data: the separator line `// * * * … //` of the header is a line comment, read back as a THIRD entry
      `LINECOMMENT%06d` (it draws an id from the global counter).  Witness `SDict({})`.
    * `NoFoamFileKey d` is needed for the statement in this form: `exFF_text`, `exFF_read`, `exFF_lost` — for
      `SDict({'FoamFile': {'x': 'y'}})` the file holds two `FoamFile` blocks, the reader keeps the later one at the place of
      the first; taking the header entries out leaves `{}` although the dict was not empty.  (Not a defect: C10 itself excepts
      "the FoamFile header entry".)
    * the write is `fmtSD .foam { data := normEs d }` (= `writeText` / `SDict.dump` on a fresh target: `_retype_values`, then
      `to_string`); `writeStep` with a fresh target models builtin-dict sources only (`fmtPlain`), its SDict route is the
      append mode, covered by `C10_sd_writeStep_append`.

  Assumed: `DomC01 .foam D'` (no `"` in strings, …), at most `counterLimit + 1` quoted strings, a counter state that can
  occur, a target that is no `.json`/`.xml`/`.ssd` path and is normalised (`C10.foamPath_dispatch`: `.foam` is fine).
  NOT covered: SDicts with own block/line comments or includes beyond `C10_sd_starts_with_banner` (a first block comment
  without ` C++ ` marker gets the header put in front of the comment, wherever its placeholder stands: `C10.C10_banner_first_comment`,
  finding D28); a file system with other files (single-file `FS`, as in `C10.C10_roundtrip_file`); `order = true`.

  Route: the written text is an admissible layout (`foam_layout`, `GapsOKC`) of the commented document `foamDoc es`
  (`.blockC bannerBody`, entry `FoamFile`, `.lineC sepBody`, then the lifted plain document `liftEs es`), so
  `C12.C12_read_commented` applies (with `C12W.parseNative_nl` for the missing gap in front of the banner);
  `denC_foamDoc` computes its meaning, `foamSD_clean` (via `C12W.clean_fix`) shows `_clean` does nothing.
  Technical: the kernel must never be made to evaluate `foamHeader` (`String.toList` on a long literal): `sd_text_aux`.

  Non-vacuity: `exD` = `{'a': 1, 's': {'_x': 2, 'y': '2'}, '_top': 'q', 'k': 'x y'}` (`exHyp`, `exD_text`, `exD_roundtrip`).
-/
import DictIO.Props.C10file
import DictIO.Props.C01dump
import DictIO.Props.C12write
import DictIO.Props.C09equiv
import DictIO.Model.Api

namespace DictIO.C10sd
open DictIO

set_option linter.unusedSimpArgs false
set_option linter.unusedVariables false
set_option linter.unnecessarySimpa false

/-! ## helper lemmas -/

/-! ### the Foam header, piece by piece -/

/-- the OpenFOAM banner: the block comment `/*-----…*- C++ -*…  …*/` (seven lines, no final line feed) -/
def banner : Str := C10.foamHeaderChars.take 559

/-- what stands between `/*` and `*/` in the banner -/
def bannerBody : Str := ((banner.drop 2).dropLast).dropLast

/-- the `FoamFile { … }` block as the header spells it (seven lines, with the final line feed) -/
def foamFileText : Str := (C10.foamHeaderChars.drop 560).take 167

/-- the separator line `// * * * … * //` (no final line feed) -/
def sepLine : Str := (C10.foamHeaderChars.drop 727).take 79

/-- the separator line without its leading `//` -/
def sepBody : Str := sepLine.drop 2

/-- **the Foam header text**: banner, line feed, `FoamFile` block, separator line, line feed -/
def foamHeaderText : Str := banner ++ ['\n'] ++ foamFileText ++ sepLine ++ ['\n']

set_option maxRecDepth 100000 in
theorem banner_str : banner =
    "/*--------------------------------*- C++ -*----------------------------------*\\\n| =========                 |                                                 |\n| \\\\      /  F ield         | OpenFOAM: The Open Source CFD Toolbox           |\n|  \\\\    /   O peration     | Version:  dev                                   |\n|   \\\\  /    A nd           | Web:      www.OpenFOAM.com                      |\n|    \\\\/     M anipulation  |                                                 |\n\\*---------------------------------------------------------------------------*/".toList :=
  (String.toList_ofList (l := banner)).symm.trans (congrArg String.toList (by rfl : String.ofList banner = _))

set_option maxRecDepth 100000 in
theorem foamFileText_str : foamFileText =
    "FoamFile\n{\n    version                   2.0;\n    format                    ascii;\n    class                     dictionary;\n    object                    foamDict;\n}\n".toList :=
  (String.toList_ofList (l := foamFileText)).symm.trans (congrArg String.toList (by rfl : String.ofList foamFileText = _))

set_option maxRecDepth 100000 in
theorem sepLine_str : sepLine =
    "// * * * * * * * * * * * * * * * * * * * * * * * * * * * * * * * * * * * * * //".toList :=
  (String.toList_ofList (l := sepLine)).symm.trans (congrArg String.toList (by rfl : String.ofList sepLine = _))

theorem foamHeaderText_chars : foamHeaderText = C10.foamHeaderChars := by decide +kernel

/-- the explicit header text is the header of the model (`Gen.foamHeader`, generated from formatter.py) -/
theorem foamHeaderText_eq : foamHeaderText = foamHeader := by
  rw [C10.foamHeader_eq]; exact foamHeaderText_chars

theorem banner_shape : banner = '/' :: '*' :: (bannerBody ++ ['*', '/']) := by decide +kernel
theorem sepLine_shape : sepLine = '/' :: '/' :: sepBody := by decide +kernel


attribute [local irreducible] foamHeader

/-! ### trailing-space removal leaves the header alone -/

def hdrLines : List Str := (splitNl C10.foamHeaderChars).dropLast

theorem hdrLines_join : hdrLines.flatMap (· ++ ['\n']) = C10.foamHeaderChars := by decide +kernel
theorem hdrLines_good : ∀ l ∈ hdrLines, C12.goodLineB l = true := by decide +kernel
theorem hdrChars_noCr : ∀ c ∈ C10.foamHeaderChars, c ≠ '\r' := by decide +kernel

/-- `remove_trailing_spaces` leaves the Foam header as it is -/
theorem rts_header (t : Str) : removeTrailingSpaces (foamHeader ++ t) = foamHeader ++ removeTrailingSpaces t := by
  rw [C01.removeTrailingSpaces_eq, C01.removeTrailingSpaces_eq, C10.foamHeader_eq,
    C01.universalNl_solid _ _ hdrChars_noCr, ← hdrLines_join, C12.rts_lines _ _ hdrLines_good]

theorem rts_nil : removeTrailingSpaces [] = [] := by decide

/-! ### a comment-free document as a commented document -/

mutual
  def liftV : Src → CSrc
    | .lit l => .lit l
    | .dict es => .dict (liftEs es)
    | .list xs => .list xs
  def liftEs : SrcEntries → List CItem
    | [] => []
    | (k, v) :: es => .entry k (liftV v) :: liftEs es
end

theorem ctoks_lift : ∀ es : SrcEntries, ctoksItems (liftEs es) = (srcToksEs es).map .tok
  | [] => by simp only [liftEs, ctoksItems, srcToksEs, List.map_nil]
  | (k, .lit l) :: es => by
    simp only [liftEs, liftV, ctoksItems, srcToksEs, List.map_cons, ctoks_lift es]
  | (k, .dict d) :: es => by
    simp only [liftEs, liftV, ctoksItems, srcToksEs, List.map_cons, List.map_append, List.map_nil, ctoks_lift es,
      ctoks_lift d, List.cons_append, List.nil_append, List.append_assoc]
  | (k, .list xs) :: es => by
    simp only [liftEs, liftV, ctoksItems, srcToksEs, List.map_cons, List.map_append, List.map_nil, ctoks_lift es,
      List.cons_append, List.nil_append, List.append_assoc]

theorem wf_lift : ∀ (es : SrcEntries) (d : Nat), CSrcWFItems d (liftEs es) = SrcWFEs d es
  | [], _ => by simp only [liftEs, CSrcWFItems, SrcWFEs]
  | (k, .lit l) :: es, d => by simp only [liftEs, liftV, CSrcWFItems, CSrcWFV, SrcWFEs, SrcWFV, wf_lift es d]
  | (k, .dict dd) :: es, d => by
    simp only [liftEs, liftV, CSrcWFItems, CSrcWFV, SrcWFEs, SrcWFV, wf_lift es d, wf_lift dd (d + 1)]
  | (k, .list xs) :: es, d => by simp only [liftEs, liftV, CSrcWFItems, CSrcWFV, SrcWFEs, SrcWFV, wf_lift es d]

theorem plain_lift : ∀ es : SrcEntries, plainItems (liftEs es) = es
  | [] => by simp only [liftEs, plainItems]
  | (k, .lit l) :: es => by simp only [liftEs, liftV, plainItems, plainV, plain_lift es]
  | (k, .dict d) :: es => by simp only [liftEs, liftV, plainItems, plainV, plain_lift es, plain_lift d]
  | (k, .list xs) :: es => by simp only [liftEs, liftV, plainItems, plainV, plain_lift es]

theorem label_lift : ∀ (es : SrcEntries) (st : CLabelSt), labelCItems st (liftEs es) = (st, es)
  | [], _ => by simp only [liftEs, labelCItems]
  | (k, .lit l) :: es, st => by simp only [liftEs, liftV, labelCItems, labelCV, label_lift es]
  | (k, .dict d) :: es, st => by simp only [liftEs, liftV, labelCItems, labelCV, label_lift es, label_lift d]
  | (k, .list xs) :: es, st => by simp only [liftEs, liftV, labelCItems, labelCV, label_lift es]


/-! ### the written file as a commented document -/

/-- the `FoamFile` sub-dict as the header spells it -/
def foamFileSrc : SrcEntries :=
  [("version".toList, .lit (.bare "2.0".toList)), ("format".toList, .lit (.bare "ascii".toList)),
   ("class".toList, .lit (.bare "dictionary".toList)), ("object".toList, .lit (.bare "foamDict".toList))]

/-- the file `fmtSD .foam` writes, as a commented document: banner, `FoamFile` block, separator line, the entries -/
def foamDoc (es : SrcEntries) : List CItem :=
  .blockC bannerBody :: .entry "FoamFile".toList (.dict (liftEs foamFileSrc)) :: .lineC sepBody :: liftEs es

/-- the tokens of the header up to the closing brace of the `FoamFile` block -/
def hdrToksA : List CTok :=
  .blockC bannerBody :: .tok (.word "FoamFile".toList) :: .tok (.word ['{']) ::
    ((srcToksEs foamFileSrc).map .tok ++ [.tok (.word ['}'])])

/-- the gaps in front of these tokens (a line feed is put in front of the whole text) -/
def hdrGapsA : List Str :=
  [['\n'], ['\n'], ['\n'],
   "\n    ".toList, spaces 19, [], "\n    ".toList, spaces 20, [], "\n    ".toList, spaces 21, [],
   "\n    ".toList, spaces 20, [], ['\n']]

theorem ctoks_foamDoc (es : SrcEntries) :
    ctoksItems (foamDoc es) = hdrToksA ++ .lineC sepBody :: (srcToksEs es).map .tok := by
  simp only [foamDoc, ctoksItems, ctoks_lift, hdrToksA, List.cons_append, List.append_assoc, List.nil_append]

theorem hdr_spread : spread (hdrToksA.map CTok.text) hdrGapsA [] ++ '\n' :: sepLine = '\n' :: C10.foamHeaderChars.dropLast := by
  decide +kernel

theorem hdrA_len : hdrGapsA.length = hdrToksA.length := by decide +kernel

theorem hdrA_ok : GapsOKC (hdrToksA ++ [.lineC sepBody]) (hdrGapsA ++ [['\n']]) [] = true := by decide +kernel

theorem spread_append : ∀ (a ga : List Str) (b gb : List Str) (tail : Str), ga.length = a.length →
    spread (a ++ b) (ga ++ gb) tail = spread a ga [] ++ spread b gb tail
  | [], [], _, _, _, _ => by simp [spread]
  | [], _ :: _, _, _, _, h => by simp at h
  | _ :: _, [], _, _, _, h => by simp at h
  | x :: a, g :: ga, b, gb, tail, h => by
    simp only [List.length_cons, Nat.add_right_cancel_iff] at h
    simp only [List.cons_append, spread, spread_append a ga b gb tail h, List.append_assoc]

/-- an admissible layout of `a ++ [t]` and one of `t :: rest` that agree on the gap in front of `t` glue together -/
theorem gapsOKC_glue (t : CTok) (g : Str) (rest : List CTok) (grest : List Str) (tail : Str) :
    ∀ (a : List CTok) (ga : List Str), ga.length = a.length →
    GapsOKC (a ++ [t]) (ga ++ [g]) [] = true → GapsOKC (t :: rest) (g :: grest) tail = true →
    GapsOKC (a ++ t :: rest) (ga ++ g :: grest) tail = true
  | [], [], _, _, h2 => h2
  | [], _ :: _, h, _, _ => by simp at h
  | _ :: _, [], h, _, _ => by simp at h
  | [x], [gx], _, h1, h2 => by
    simp only [List.cons_append, List.nil_append, GapsOKC, Bool.and_eq_true] at h1 ⊢
    exact ⟨⟨h1.1.1, h1.1.2⟩, h2⟩
  | [x], _ :: _ :: _, h, _, _ => by simp at h
  | x :: y :: a, [_], h, _, _ => by simp at h
  | x :: y :: a, gx :: gy :: ga, h, h1, h2 => by
    simp only [List.length_cons, Nat.add_right_cancel_iff] at h
    simp only [List.cons_append, GapsOKC, Bool.and_eq_true] at h1 ⊢
    exact ⟨⟨h1.1.1, h1.1.2⟩, gapsOKC_glue t g rest grest tail (y :: a) (gy :: ga) (by simpa using h) h1.2 h2⟩

/-- **the written file is an admissible layout of `foamDoc`** (with one line feed in front) -/
theorem foam_layout (X : List STok) (gaps : List Str) (tail : Str) (hg : GapsOKS X gaps = true)
    (ht : tail.all isWs = true) :
    ∃ G T, '\n' :: (foamHeader ++ spreadS X gaps tail) = spreadC (hdrToksA ++ .lineC sepBody :: X.map .tok) G T ∧
      GapsOKC (hdrToksA ++ .lineC sepBody :: X.map .tok) G T = true := by
  have hsplit : foamHeader = C10.foamHeaderChars.dropLast ++ ['\n'] := by
    rw [← C10.foamHeader_eq]; exact C10.foamHeader_chars.2.2.2
  have hnl : isWs '\n' = true := by decide
  have hspread : ∀ (rest : List CTok) (grest : List Str) (T : Str),
      spreadC (hdrToksA ++ .lineC sepBody :: rest) (hdrGapsA ++ ['\n'] :: grest) T =
        '\n' :: (C10.foamHeaderChars.dropLast ++ spreadC rest grest T) := by
    intro rest grest T
    unfold spreadC
    rw [List.map_append, spread_append _ _ _ _ _ (by rw [List.length_map]; exact hdrA_len)]
    simp only [List.map_cons, spread, CTok.text, ← sepLine_shape]
    have := hdr_spread
    rw [← List.cons_append, ← this]
    simp only [List.append_assoc, List.cons_append, List.nil_append, List.singleton_append]
  cases X with
  | nil =>
    refine ⟨hdrGapsA ++ [['\n']], '\n' :: tail, ?_, ?_⟩
    · rw [List.map_nil, hspread [] [] ('\n' :: tail), hsplit]
      simp [spreadS, spreadC, spread]
    · refine gapsOKC_glue _ _ [] [] _ hdrToksA hdrGapsA hdrA_len hdrA_ok ?_
      simp [GapsOKC, ht, hnl]
  | cons t ts =>
    have hpad := C09.gapsOKC_padG tail ht (t :: ts) gaps hg
    have hsp := C09.spreadC_padG (t :: ts) gaps tail
    cases hp : C09.padG (t :: ts) gaps with
    | nil => cases gaps <;> simp [C09.padG] at hp
    | cons g0 gs =>
      rw [hp] at hpad hsp
      refine ⟨hdrGapsA ++ ['\n'] :: ('\n' :: g0) :: gs, tail, ?_, ?_⟩
      · rw [hspread, hsplit, ← hsp]
        simp only [List.map_cons, C12.Stages.spreadC_cons, List.append_assoc, List.cons_append, List.nil_append,
          List.singleton_append]
      · refine gapsOKC_glue _ _ _ _ _ hdrToksA hdrGapsA hdrA_len hdrA_ok ?_
        have h2 := C12.Incl.gapsOKC_nl hpad
        simp only [List.map_cons] at h2 ⊢
        simp only [GapsOKC, Bool.and_eq_true]
        exact ⟨⟨by decide, by simp⟩, h2⟩


/-! ### what the reader returns for the written file -/

/-- the sub-dict of the `FoamFile` entry: `{version: 2.0, format: 'ascii', class: 'dictionary', object: 'foamDict'}` -/
def foamFileDict : Entries :=
  [(.str "version".toList, .leaf (.float "2.0".toList)), (.str "format".toList, .leaf (.str "ascii".toList)),
   (.str "class".toList, .leaf (.str "dictionary".toList)), (.str "object".toList, .leaf (.str "foamDict".toList))]

/-- the `FoamFile` entry -/
def foamFileEntry : Key × Val := (.str "FoamFile".toList, .dict foamFileDict)

/-- the placeholder entry of line comment number `i` -/
def lineEntry (i : Nat) : Key × Val := (.str (linePh i), .leaf (.str (linePh i)))

/-- the SDict the reader returns for a written file: placeholder entry of the banner (`BLOCKCOMMENT000000`), the
    `FoamFile` entry, the placeholder entry of the separator line (`LINECOMMENT%06d`, id `i` drawn from the counter),
    then the data; the banner under id 0 in the block-comment table, the separator line under id `i` in the
    line-comment table -/
def foamSD (i : Nat) (D : Entries) : SD :=
  { data := C12.hdrEntry :: foamFileEntry :: lineEntry i :: D, lineC := [(i, sepLine)], blockC := [(0, banner)] }

/-- an entry in front whose key no entry of the document types to is left alone by the document's meaning -/
theorem denSrc_cons_ne (k0 : Key) (v0 : Val) : ∀ (es : SrcEntries) (acc : Entries),
    (∀ e ∈ es, keyOfScalar (parseKey e.1) ≠ some k0) →
    denSrcEs es ((k0, v0) :: acc) = (k0, v0) :: denSrcEs es acc
  | [], _, _ => by simp only [denSrcEs]
  | (k, v) :: es, acc, h => by
    have hk := h (k, v) List.mem_cons_self
    have hes : ∀ e ∈ es, keyOfScalar (parseKey e.1) ≠ some k0 := fun e he => h e (List.mem_cons_of_mem _ he)
    simp only [denSrcEs]
    cases hkey : keyOfScalar (parseKey k) with
    | none => simp only []; exact denSrc_cons_ne k0 v0 es acc hes
    | some key =>
      have hne : k0 ≠ key := fun e => hk (by rw [hkey, e])
      simp only []
      rw [C12.setKey_cons_ne hne]
      exact denSrc_cons_ne k0 v0 es _ hes

theorem wf_mem_word {d : Nat} : ∀ {es : SrcEntries}, SrcWFEs d es = true → ∀ e ∈ es, isSrcWord e.1 = true
  | [], _, e, he => by cases he
  | (k, v) :: es, h, e, he => by
    obtain ⟨hk, _, _, _, hes⟩ := C12.wf_cons h
    rcases List.mem_cons.mp he with rfl | he
    · exact hk
    · exact wf_mem_word hes e he

/-- no key of a well-formed document types to a placeholder word -/
theorem wf_ne_ph {d : Nat} {es : SrcEntries} (h : SrcWFEs d es = true) {w : Str} (hw : isPhTok w = true) :
    ∀ e ∈ es, keyOfScalar (parseKey e.1) ≠ some (.str w) := by
  intro e he hkey
  have hk := wf_mem_word h e he
  rcases C02.Main.typedKey_cases hk hkey with ⟨z, hz⟩ | hz
  · cases hz
  · have e' : w = e.1 := by injection hz
    have := (C02.srcWord_facts hk).2.1
    rw [← e', hw] at this
    cases this

theorem sel_noPh {k : Key} (h : C07.isPhKey k = false) :
    C12W.selB k = false ∧ C12W.selI k = false ∧ C12W.selL k = false := by
  cases k with
  | int z => exact ⟨rfl, rfl, rfl⟩
  | str x =>
    simp only [C07.isPhKey, Bool.or_eq_false_iff] at h
    simp only [C12W.selB, C12W.selI, C12W.selL, h.1.1, h.1.2, h.2, Bool.not_false, Bool.and_false, Bool.and_self]
    exact ⟨trivial, trivial, trivial⟩

/-- a level without placeholder keys and without repeated keys: `_clean_data` has nothing to do -/
theorem levelFix_noPh (s : SD) (D : Entries) (hp : C07.NoPhEs D) (hn : (keys D).Nodup) : C12W.levelFix s D := by
  have hk := C12.noPh_keys hp
  have hB : (keys D).filter C12W.selB = [] := List.filter_eq_nil_iff.mpr fun k hk' => by rw [(sel_noPh (hk k hk')).1]; simp
  have hI : (keys D).filter C12W.selI = [] := List.filter_eq_nil_iff.mpr fun k hk' => by rw [(sel_noPh (hk k hk')).2.1]; simp
  have hL : (keys D).filter C12W.selL = [] := List.filter_eq_nil_iff.mpr fun k hk' => by rw [(sel_noPh (hk k hk')).2.2]; simp
  refine ⟨?_, hI, ?_, hn⟩
  · rw [hB]; exact List.nodup_nil
  · rw [hL]; exact List.nodup_nil

theorem levels_noPh (s : SD) : ∀ D : Entries, C07.NoPhEs D → NodupKeysEs D → C12W.allLevels (C12W.levelFix s) D
  | [], _, _ => by simp only [C12W.allLevels]
  | (k, .leaf x) :: r, hp, hn => by
    simp only [C07.NoPhEs, NodupKeysEs] at hp hn
    simp only [C12W.allLevels]
    exact levels_noPh s r hp.2.2 hn.2
  | (k, .list xs) :: r, hp, hn => by
    simp only [C07.NoPhEs, NodupKeysEs] at hp hn
    simp only [C12W.allLevels]
    exact levels_noPh s r hp.2.2 hn.2
  | (k, .dict sub) :: r, hp, hn => by
    simp only [C07.NoPhEs, C07.NoPhV, NodupKeysEs, NodupKeysV] at hp hn
    simp only [C12W.allLevels]
    exact ⟨⟨levelFix_noPh s sub hp.2.1 hn.1.1, levels_noPh s sub hp.2.1 hn.1.2⟩, levels_noPh s r hp.2.2 hn.2⟩

theorem linePh_isPh {i : Nat} (hi : i ≤ 999999) : C07.isPhKey (.str (linePh i)) = true := by
  have := C12W.containsPh_own true hi
  simp only [C07.isPhKey, Bool.or_eq_true]
  exact Or.inr this

theorem foamFile_facts :
    isPhTok "FoamFile".toList = false ∧
    keyOfScalar (parseKey "FoamFile".toList) = some (.str "FoamFile".toList) ∧
    denPV (.dict foamFileSrc) = .dict foamFileDict ∧
    C07.isPhKey (.str "FoamFile".toList) = false ∧
    Key.str "FoamFile".toList ≠ .str C12.hdrPh := by
  refine ⟨by decide +kernel, by decide +kernel, by decide +kernel, by decide +kernel, ?_⟩
  rw [C12.hdrPh_eq]; decide

theorem hdrPh_isPhTok : isPhTok C12.hdrPh = true := C12W.isPhTok_ph false 0

theorem linePh_ne (i : Nat) : Key.str (linePh i) ≠ .str C12.hdrPh ∧ Key.str (linePh i) ≠ .str "FoamFile".toList := by
  have e : linePh i = 'L' :: ("INECOMMENT".toList ++ padSix i) := rfl
  rw [e, C12.hdrPh_eq]
  constructor <;> (intro h; injection h with h; injection h with h _; cases h)

theorem foamFileDict_ok : C07.NoPhEs foamFileDict ∧ (keys foamFileDict).Nodup ∧ NodupKeysEs foamFileDict := by
  refine ⟨?_, by decide, ?_⟩
  · simp only [foamFileDict, C07.NoPhEs, C07.NoPhV, and_true]
    decide +kernel
  · simp only [foamFileDict, NodupKeysEs, NodupKeysV, and_true]

/-- `_clean` leaves the SDict of a written file alone -/
theorem foamSD_clean {i : Nat} (hi : i ≤ 999999) {D : Entries} (hp : C07.NoPhEs D) (hn : NodupKeysV (.dict D))
    (hff : Key.str "FoamFile".toList ∉ keys D) : (foamSD i D).clean = foamSD i D := by
  have hk := C12.noPh_keys hp
  have hblk : C12.hdrEntry.1 = .str (C12W.phWord false 0) := rfl
  have hln : (lineEntry i).1 = .str (C12W.phWord true i) := rfl
  have hselD : ∀ sel : Key → Bool, (∀ k, C07.isPhKey k = false → sel k = false) → (keys D).filter sel = [] :=
    fun sel h => List.filter_eq_nil_iff.mpr fun k hk' => by rw [h k (hk k hk')]; simp
  have hkeys : keys (foamSD i D).data =
      .str (C12W.phWord false 0) :: .str "FoamFile".toList :: .str (C12W.phWord true i) :: keys D := rfl
  have cBb : containsPh kwBlock (C12W.phWord false 0) = true := C12W.containsPh_own false (by omega)
  have cLl : containsPh kwLine (C12W.phWord true i) = true := C12W.containsPh_own true hi
  have cBl : containsPh kwBlock (C12W.phWord true i) = false := C12W.containsPh_block_line i
  have cIl : containsPh kwIncl (C12W.phWord true i) = false := C12W.containsPh_incl_ph true i
  have cff : C07.isPhKey (.str "FoamFile".toList) = false := foamFile_facts.2.2.2.1
  obtain ⟨fB, fI, fL⟩ := sel_noPh cff
  have sBb : C12W.selB (.str (C12W.phWord false 0)) = true := cBb
  have sBl : C12W.selB (.str (C12W.phWord true i)) = false := cBl
  have sIb : C12W.selI (.str (C12W.phWord false 0)) = false := by
    show (!containsPh kwBlock _ && containsPh kwIncl _) = false
    rw [cBb]; rfl
  have sIl : C12W.selI (.str (C12W.phWord true i)) = false := by
    show (!containsPh kwBlock _ && containsPh kwIncl _) = false
    rw [cBl, cIl]; rfl
  have sLb : C12W.selL (.str (C12W.phWord false 0)) = false := by
    show (!containsPh kwBlock _ && !containsPh kwIncl _ && containsPh kwLine _) = false
    rw [cBb]; rfl
  have sLl : C12W.selL (.str (C12W.phWord true i)) = true := by
    show (!containsPh kwBlock _ && !containsPh kwIncl _ && containsPh kwLine _) = true
    rw [cBl, cIl, cLl]; rfl
  have single : ∀ (f : Key → Option Str) (a : Key), (List.filterMap f [a]).Nodup := by
    intro f a
    cases h : f a <;> simp [List.filterMap, h]
  apply C12W.clean_fix
  · refine ⟨?_, ?_, ?_, ?_⟩
    · rw [hkeys]
      simp only [List.filter_cons, sBb, sBl, fB, if_true, Bool.false_eq_true, if_false,
        hselD C12W.selB fun k h => (sel_noPh h).1]
      exact single _ _
    · rw [hkeys]
      simp only [List.filter_cons, sIb, sIl, fI, Bool.false_eq_true, if_false,
        hselD C12W.selI fun k h => (sel_noPh h).2.1]
    · rw [hkeys]
      simp only [List.filter_cons, sLb, sLl, fL, if_true, Bool.false_eq_true, if_false,
        hselD C12W.selL fun k h => (sel_noPh h).2.2]
      exact single _ _
    · rw [hkeys]
      have h1 : Key.str (C12W.phWord false 0) ∉ keys D := C12.hdr_not_mem hp
      have h3 : Key.str (C12W.phWord true i) ∉ keys D := fun hm => by
        have := hk _ hm
        rw [show C12W.phWord true i = linePh i from rfl, linePh_isPh hi] at this
        cases this
      have n1 := (linePh_ne i).1
      have n2 := (linePh_ne i).2
      have n3 := foamFile_facts.2.2.2.2
      refine List.nodup_cons.mpr ⟨?_, List.nodup_cons.mpr ⟨?_, List.nodup_cons.mpr ⟨h3, hn.1⟩⟩⟩
      · simp only [List.mem_cons, not_or]
        exact ⟨fun e => n3 e.symm, fun e => n1 e.symm, h1⟩
      · simp only [List.mem_cons, not_or]
        exact ⟨fun e => n2 e.symm, hff⟩
  · show C12W.allLevels (C12W.levelFix (foamSD i D)) (C12.hdrEntry :: foamFileEntry :: lineEntry i :: D)
    simp only [C12.hdrEntry, foamFileEntry, lineEntry, C12W.allLevels]
    exact ⟨⟨levelFix_noPh _ _ foamFileDict_ok.1 foamFileDict_ok.2.1, levels_noPh _ _ foamFileDict_ok.1 foamFileDict_ok.2.2⟩,
      levels_noPh _ _ hp hn.2⟩


/-- **the meaning of `foamDoc es`**: the three header entries in front of the meaning of `es`, the two comments in
    the tables -/
theorem denC_foamDoc {c : Counter} {es : SrcEntries} {Dn : Entries} (hc : C13.ValidCounter Gen.counterLimit c)
    (hwf : SrcWFEs 1 es = true) (hden : denSrcEs es [] = Dn)
    (hffs : ∀ e ∈ es, keyOfScalar (parseKey e.1) ≠ some (.str "FoamFile".toList))
    (hp : C07.NoPhEs Dn) (hn : NodupKeysV (.dict Dn)) (hff : Key.str "FoamFile".toList ∉ keys Dn) :
    denC c (foamDoc es) = foamSD (Counter.next Gen.counterLimit c).1 Dn := by
  have hi : (Counter.next Gen.counterLimit c).1 ≤ 999999 := C13.next_le hc
  simp only [denC, foamDoc, labelCItems, labelCV, label_lift]
  generalize (Counter.next Gen.counterLimit c).1 = i at hi ⊢
  obtain ⟨f1, f2, f3, _, f5⟩ := foamFile_facts
  have hb : isPhTok (blockPh ([] : Tbl Str).length) = true := C12W.isPhTok_ph false 0
  have hl : isPhTok (linePh i) = true := C12W.isPhTok_ph true i
  have hdata : denPEs ((blockPh ([] : Tbl Str).length, Src.lit (Lit.bare (blockPh ([] : Tbl Str).length))) ::
      ("FoamFile".toList, Src.dict foamFileSrc) :: (linePh i, Src.lit (Lit.bare (linePh i))) :: es) [] =
      C12.hdrEntry :: foamFileEntry :: lineEntry i :: Dn := by
    rw [C12.denPEs_cons_ph hb, C12.denPEs_cons f1 f2, C12.denPEs_cons_ph hl, C12.denPEs_plain es 1 _ hwf, f3]
    have e : setKey (Key.str (linePh i)) (Val.leaf (Scalar.str (linePh i)))
        (setKey (Key.str "FoamFile".toList) (Val.dict foamFileDict)
          (setKey (Key.str (blockPh ([] : Tbl Str).length)) (Val.leaf (Scalar.str (blockPh ([] : Tbl Str).length))) [])) =
        [C12.hdrEntry, foamFileEntry, lineEntry i] := by
      have e0 : blockPh ([] : Tbl Str).length = C12.hdrPh := rfl
      rw [e0]
      simp only [setKey, (linePh_ne i).1.symm, (linePh_ne i).2.symm, f5.symm, if_false]
      rfl
    rw [e]
    simp only [C12.hdrEntry, foamFileEntry, lineEntry]
    rw [denSrc_cons_ne _ _ es _ (wf_ne_ph hwf hdrPh_isPhTok), denSrc_cons_ne _ _ es _ hffs,
      denSrc_cons_ne _ _ es _ (wf_ne_ph hwf hl), hden]
  rw [hdata]
  have htab : (SD.mk (C12.hdrEntry :: foamFileEntry :: lineEntry i :: Dn) []
      (Tbl.set i ('/' :: '/' :: sepBody) []) ([] ++ [(([] : Tbl Str).length, '/' :: '*' :: bannerBody ++ ['*', '/'])]) []) =
      foamSD i Dn := by
    simp only [foamSD, Tbl.set, List.nil_append, List.length_nil, ← sepLine_shape]
    rw [banner_shape]
    rfl
  rw [htab]
  exact foamSD_clean hi hp hn hff


theorem wf_foamDoc {es : SrcEntries} (h : SrcWFEs 1 es = true) : CSrcWFItems 1 (foamDoc es) = true := by
  simp only [foamDoc, CSrcWFItems, CSrcWFV, wf_lift, h, Bool.and_true]
  decide +kernel

theorem plain_foamDoc (es : SrcEntries) :
    plainItems (foamDoc es) = ("FoamFile".toList, .dict foamFileSrc) :: es := by
  simp only [foamDoc, plainItems, plainV, plain_lift]

theorem count_foamDoc (es : SrcEntries) :
    C02.countQuotedEs (plainItems (foamDoc es)) = C02.countQuotedEs es := by
  rw [plain_foamDoc]
  simp only [C02.countQuotedEs, C02.countQuotedV, foamFileSrc, Nat.zero_add, Nat.add_zero]

/-- the dict has no top-level key `FoamFile` (the writer's own `FoamFile` block would be overwritten by it on reading) -/
def NoFoamFileKey (d : Entries) : Prop := ∀ e ∈ d, e.1 ≠ .str "FoamFile".toList

instance (d : Entries) : Decidable (NoFoamFileKey d) := by unfold NoFoamFileKey; infer_instance

theorem mem_srcOfEs (fl : Flavor) : ∀ {D : Entries} {e : Str × Src}, e ∈ srcOfEs fl D → ∃ p ∈ D, e.1 = keyStr p.1
  | [], _, h => by simp [srcOfEs] at h
  | (k, v) :: D, e, h => by
    simp only [srcOfEs, List.mem_cons] at h
    rcases h with rfl | h
    · exact ⟨(k, v), List.mem_cons_self, rfl⟩
    · obtain ⟨p, hp, he⟩ := mem_srcOfEs fl h
      exact ⟨p, List.mem_cons_of_mem _ hp, he⟩

/-- the facts about a dict of the Foam value domain the reader theorem needs -/
theorem dom_facts {D : Entries} (hdom : DomC01 .foam D = true) (hu : C10.NoUnderscoreEs D) (hff : NoFoamFileKey D) :
    SrcWFEs 1 (srcOfEs .foam D) = true ∧ denSrcEs (srcOfEs .foam D) [] = normEs D ∧
    (∀ e ∈ srcOfEs .foam D, keyOfScalar (parseKey e.1) ≠ some (.str "FoamFile".toList)) ∧
    C07.NoPhEs (normEs D) ∧ NodupKeysV (.dict (normEs D)) ∧ Key.str "FoamFile".toList ∉ keys (normEs D) ∧
    C02.DocKeysAbsent (plainItems (foamDoc (srcOfEs .foam D))) := by
  have hd : domEs .foam 1 D = true := by
    simp only [DomC01, Bool.and_eq_true] at hdom; exact hdom.1
  have hk := C01.domEs_keys hd
  obtain ⟨hp, hn⟩ := C10.norm_invariants_foam hdom
  refine ⟨C10.Foam.srcOf_wf_f 1 D hd, C10.Foam.den_written_f hdom, ?_, hp, hn, ?_, ?_⟩
  · intro e he hkey
    obtain ⟨p, hpD, hek⟩ := mem_srcOfEs .foam he
    rw [hek, C01.domKey_types_back (hk p hpD)] at hkey
    exact hff p hpD (by injection hkey)
  · rw [C01.keys_normEs]
    intro hm
    obtain ⟨p, hpD, hpk⟩ := List.mem_map.mp hm
    exact hff p hpD hpk
  · rw [plain_foamDoc]
    intro e he
    rcases List.mem_cons.mp he with rfl | he
    · exact ⟨by decide, by decide⟩
    · obtain ⟨p, hpD, hek⟩ := mem_srcOfEs .foam he
      have h1 := C10.mem_noUnderscore hu p hpD
      rw [C10.Foam.formatKey_eq_keyStr_f (hk p hpD), ← hek] at h1
      exact ⟨fun e' => h1 (by rw [e']; rfl), fun e' => h1 (by rw [e']; rfl)⟩

/-- **the reader on the written text.**  For a dict `D` of the Foam value domain without private keys and without a
    top-level key `FoamFile`: the text `foamHeader ++ fmtPlain .foam D` is read (comments on) as `foamSD i (normEs D)`,
    `i` the id the counter hands out first (it goes to the separator line; the string literals of `D` follow). -/
theorem read_foam_parse {D : Entries} {c : Counter} (dir : Str)
    (hdom : DomC01 .foam D = true) (hu : C10.NoUnderscoreEs D) (hff : NoFoamFileKey D)
    (hn : C02.countQuotedEs (srcOfEs .foam D) ≤ Gen.counterLimit + 1) (hc : C13.ValidCounter Gen.counterLimit c) :
    ∃ c', C13.ValidCounter Gen.counterLimit c' ∧
      parseNative true dir c (foamHeader ++ fmtPlain .foam D) =
        .ok (foamSD (Counter.next Gen.counterLimit c).1 (normEs D), c') := by
  obtain ⟨hwf, hden, hffs, hp, hnd, hffk, hdk⟩ := dom_facts hdom hu hff
  obtain ⟨gaps, tail, e, hg, ht⟩ := C10.Foam.fmtPlain_is_layout_f hdom hu
  obtain ⟨G, T, etext, hG⟩ := foam_layout _ gaps tail hg ht
  rw [← ctoks_foamDoc] at etext hG
  have hread := C12.C12_read_commented (items := foamDoc (srcOfEs .foam D)) dir c (wf_foamDoc hwf) hG
    (fun h => by simp [foamDoc] at h) hc (by rw [count_foamDoc]; exact hn) hdk
  rw [← etext, C12W.parseNative_nl, ← e, denC_foamDoc hc hwf hden hffs hp hnd hffk] at hread
  refine ⟨_, ?_, hread⟩
  apply C02.adv_valid
  simp only [foamDoc, labelCItems, labelCV, label_lift]
  exact C13.next_valid hc


/-! ### the writer on the SDict the reader returns -/

theorem phWord_format_f (l : Bool) (i : Nat) : formatString .foam (C12W.phWord l i) = C12W.phWord l i := by
  refine C04.formatString_of_bare ⟨C12W.phWord_ne l i, ?_, ?_, ?_⟩
  · cases hc : (C12W.phWord l i).contains '$' with
    | false => rfl
    | true => exact absurd rfl (C12W.phWord_chars l i _ (List.contains_iff_mem.mp hc)).2.2.2.1
  · simp only [List.all_eq_true, Bool.and_eq_true, Bool.not_eq_true']
    exact fun c hc => ⟨(C12W.phWord_chars l i c hc).2.2.1, (C12W.phWord_chars l i c hc).2.2.2.2.1⟩
  · apply C01.startsInclude_of_head
    intro h
    exact (C12W.phWord_chars l i '#' (List.mem_of_mem_head? h)).2.2.2.2.2.1 rfl

/-- a placeholder entry is written as one line -/
theorem fmt_ph_line (l : Bool) {i : Nat} (hi : i ≤ 999999) (rest : Entries) :
    fmtEntries .foam 0 ((.str (C12W.phWord l i), .leaf (.str (C12W.phWord l i))) :: rest) =
      [] ++ (C12W.kwOf l ++ padSix i) ++ spaces (if l then 13 else 12) ++ (C12W.kwOf l ++ padSix i) ++ [';'] ++
        ('\n' :: fmtEntries .foam 0 rest) := by
  have e : C12W.kwOf l ++ padSix i = C12W.phWord l i := rfl
  rw [e]
  simp only [fmtEntries, fline, formatKey, formatScalar, phWord_format_f, C12W.phWord_length l hi]
  cases l <;> simp [spaces, List.replicate]

/-- the `FoamFile` entry is written as the `FoamFile` block of the header -/
theorem fmt_foamFile (rest : Entries) :
    fmtEntries .foam 0 (foamFileEntry :: rest) = foamFileText ++ fmtEntries .foam 0 rest := by
  have e : fline 0 (keyStr (.str "FoamFile".toList)) ++ fline 0 ['{'] ++ fmtEntries .foam 1 foamFileDict ++ fline 0 ['}'] =
      foamFileText := by
    simp only [foamFileDict, fmtEntries, formatKey, keyStr, formatScalar]
    decide +kernel
  simp only [foamFileEntry, fmtEntries]
  rw [e]

theorem noInfix_append_of_notMem {c : Char} {p' : Str} : ∀ {x y : Str}, c ∉ x → isInfix (c :: p') y = false →
    isInfix (c :: p') (x ++ y) = false
  | [], _, _, hy => hy
  | a :: x, y, hx, hy => by
    have ha : c ≠ a := fun e => hx (by rw [e]; exact List.mem_cons_self)
    have hx' : c ∉ x := fun h => hx (List.mem_cons_of_mem _ h)
    rw [List.cons_append, C02.isInfix_cons, C02.isPrefixOf_cc, noInfix_append_of_notMem hx' hy]
    simp [ha]

theorem banner_facts : containsCpp banner = true ∧ isInfix "OpenFOAM".toList banner = true ∧ banner ≠ [] ∧
    'L' ∉ banner ++ '\n' :: foamFileText ∧ 'B' ∉ '\n' :: foamFileText := by decide +kernel

theorem makeDefault_banner : makeDefaultBlockComment .foam banner = banner := by
  rw [C10.makeDefault_foam_of_cpp banner_facts.1, banner_facts.2.1]; rfl

/-- the raw text of a dict of the Foam domain contains no `COMMENT` -/
theorem dom_noComment {D : Entries} (h : DomC01 .foam D = true) :
    isInfix C12.kwComment (fmtEntries .foam 0 D) = false := by
  obtain ⟨gaps, tail, e, hg, ht⟩ := C10.Foam.fmt_is_layout_f h
  have hd : domEs .foam 1 D = true := by
    simp only [DomC01, Bool.and_eq_true] at h; exact h.1
  rw [e]
  exact C12.noComment_spread _ gaps tail (C02.srcToks_ok 1 _ (C10.Foam.srcOf_wf_f 1 D hd)) hg ht

/-- the SDict the reader returns has no private key -/
theorem foamSD_noUnderscore {i : Nat} {D : Entries} (hu : C10.NoUnderscoreEs D) :
    C10.NoUnderscoreEs (foamSD i D).data := by
  have hph : ∀ l j, (formatKey .foam (.str (C12W.phWord l j))).head? ≠ some '_' := by
    intro l j
    show (formatString .foam (C12W.phWord l j)).head? ≠ some '_'
    rw [phWord_format_f]
    cases l
    · show (('B' :: ("LOCKCOMMENT".toList ++ padSix j)) : Str).head? ≠ some '_'
      simp
    · show (('L' :: ("INECOMMENT".toList ++ padSix j)) : Str).head? ≠ some '_'
      simp
  show C10.NoUnderscoreEs (C12.hdrEntry :: foamFileEntry :: lineEntry i :: D)
  simp only [C12.hdrEntry, foamFileEntry, foamFileDict, lineEntry, C10.NoUnderscoreEs, C10.NoUnderscoreV]
  exact ⟨hph false 0, trivial, by decide +kernel,
    ⟨by decide +kernel, trivial, by decide +kernel, trivial, by decide +kernel, trivial, by decide +kernel, trivial, trivial⟩,
    hph true i, trivial, hu⟩

theorem foamSD_hoist {i : Nat} {D : Entries} (hk : ∀ k ∈ keys D, C07.isPhKey k = false) :
    hoistPlaceholders (foamSD i D).data = (foamSD i D).data := by
  have hR : ∀ e ∈ foamFileEntry :: lineEntry i :: D,
      (match e.1 with | .str k => containsPh kwBlock k | _ => false) = false ∧
      (match e.1 with | .str k => containsPh kwIncl k | _ => false) = false := by
    intro e he
    rcases List.mem_cons.mp he with rfl | he
    · exact ⟨by decide +kernel, by decide +kernel⟩
    · rcases List.mem_cons.mp he with rfl | he
      · exact ⟨C12W.containsPh_block_line i, C12W.containsPh_incl_ph true i⟩
      · have := hk e.1 (List.mem_map_of_mem he)
        cases hk1 : e.1 with
        | int z => exact ⟨rfl, rfl⟩
        | str x =>
          rw [hk1] at this
          simp only [C07.isPhKey, Bool.or_eq_false_iff] at this
          exact ⟨this.1.1, this.1.2⟩
  have h : hoistPlaceholders (foamFileEntry :: lineEntry i :: D) = foamFileEntry :: lineEntry i :: D := by
    unfold hoistPlaceholders
    exact C01.filter3_id _ _ _ (fun e he => (hR e he).1) (fun e he => (hR e he).2)
  show hoistPlaceholders (C12.hdrEntry :: foamFileEntry :: lineEntry i :: D) = C12.hdrEntry :: foamFileEntry :: lineEntry i :: D
  generalize foamFileEntry :: lineEntry i :: D = R at h ⊢
  unfold hoistPlaceholders at h ⊢
  simp only [List.filter_cons, C12.hdrEntry, C12.hdrPh_block, if_true, Bool.not_true, Bool.false_and,
    Bool.false_eq_true, if_false, List.cons_append]
  rw [h]

/-- **the second write**: the SDict read from a written file is written as the header followed by the plain text of
    its data — the banner comment is an own ` C++ ` header that names OpenFOAM, so nothing is put in front; the
    `FoamFile` entry is written as the `FoamFile` block; the separator comment goes back to its line -/
theorem write_foamSD {i : Nat} (hi : i ≤ 999999) {D : Entries} (hdom : DomC01 .foam D = true)
    (hu : C10.NoUnderscoreEs D) (hk : ∀ k ∈ keys D, C07.isPhKey k = false) :
    fmtSD .foam (foamSD i D) = some (foamHeader ++ fmtPlain .foam D) := by
  have hnc := dom_noComment hdom
  have hnoPh := C12W.noPh_of_noComment hnc
  obtain ⟨bcpp, bof, bne, bL, bB⟩ := banner_facts
  -- the raw text
  have hraw : fmtEntries .foam 0 (foamSD i D).data =
      [] ++ (kwBlock ++ padSix 0) ++ spaces 12 ++ (kwBlock ++ padSix 0) ++ [';'] ++
        (('\n' :: foamFileText) ++ ((kwLine ++ padSix i) ++ spaces 13 ++ (kwLine ++ padSix i) ++ [';'] ++
          ('\n' :: fmtEntries .foam 0 D))) := by
    show fmtEntries .foam 0 ((.str (C12W.phWord false 0), .leaf (.str (C12W.phWord false 0))) :: foamFileEntry ::
      (.str (C12W.phWord true i), .leaf (.str (C12W.phWord true i))) :: D) = _
    rw [fmt_ph_line false (by omega), fmt_foamFile, fmt_ph_line true hi]
    simp [C12W.kwOf]
  -- block comments
  have hpostB : isInfix (kwBlock ++ padSix 0) (('\n' :: foamFileText) ++ ((kwLine ++ padSix i) ++ spaces 13 ++
      (kwLine ++ padSix i) ++ [';'] ++ ('\n' :: fmtEntries .foam 0 D))) = false := by
    have e : kwBlock ++ padSix 0 = 'B' :: ("LOCKCOMMENT".toList ++ padSix 0) := rfl
    have hB1 : 'B' ∉ ('\n' :: foamFileText) ++ ((kwLine ++ padSix i) ++ spaces 13 ++ (kwLine ++ padSix i) ++ [';'] ++ ['\n']) := by
      have hl := C12W.linePh_no_B i
      have hs : 'B' ∉ spaces 13 := by decide
      rw [show kwLine ++ padSix i = C12W.phWord true i from rfl]
      generalize C12W.phWord true i = P at hl
      intro hm
      simp only [List.mem_append, List.mem_cons, List.mem_singleton, List.not_mem_nil, or_false] at hm
      rcases hm with hm | ((((hm | hm) | hm) | hm) | hm)
      · exact bB (by simpa using hm)
      · exact hl hm
      · exact hs hm
      · exact hl hm
      · cases hm
      · cases hm
    have := noInfix_append_of_notMem (p' := "LOCKCOMMENT".toList ++ padSix 0) hB1
      (by rw [← e]; exact hnoPh false 0 (by omega))
    rw [e]
    simpa [List.append_assoc] using this
  have hsubB : ∀ repl, substPh kwBlock 0 repl (fmtEntries .foam 0 (foamSD i D).data) =
      (repl ++ (('\n' :: foamFileText) ++ ((kwLine ++ padSix i) ++ spaces 13 ++ (kwLine ++ padSix i) ++ [';'] ++
          ('\n' :: fmtEntries .foam 0 D))), true) := by
    intro repl
    rw [hraw, C12.C12_substPh_literal (kw := kwBlock) (c := 'B') (kw' := "LOCKCOMMENT".toList) (by decide) (by decide) 0
      repl [] (spaces 12) _ (by simp) (by decide) (C01.spaces_ws 12), C12.substPh_noInfix kwBlock 0 repl _ hpostB]
    rfl
  have hblock : insertBlockComments .foam [(0, banner)] (fmtEntries .foam 0 (foamSD i D).data) =
      (banner ++ '\n' :: foamFileText) ++ (kwLine ++ padSix i) ++ spaces 13 ++ (kwLine ++ padSix i) ++ [';'] ++
          ('\n' :: fmtEntries .foam 0 D) := by
    rw [C10.insertBlock_single .foam 0 banner _ (by rw [hsubB]) (by rw [makeDefault_banner]; exact bne),
      makeDefault_banner, hsubB]
    simp [List.append_assoc]
  -- line comments
  have hpostL : isInfix (kwLine ++ padSix i) ('\n' :: fmtEntries .foam 0 D) = false := by
    rw [C02.isInfix_cons, show kwLine ++ padSix i = C12W.phWord true i from rfl, hnoPh true i hi]
    rfl
  have hline : insertLineComments [(i, sepLine)] ((banner ++ '\n' :: foamFileText) ++ (kwLine ++ padSix i) ++ spaces 13 ++
      (kwLine ++ padSix i) ++ [';'] ++ ('\n' :: fmtEntries .foam 0 D)) = foamHeader ++ fmtEntries .foam 0 D := by
    simp only [insertLineComments, List.foldl_cons, List.foldl_nil]
    rw [C12.C12_substPh_literal (kw := kwLine) (c := 'L') (kw' := "INECOMMENT".toList) (by decide) (by decide) i
      sepLine _ (spaces 13) _ bL (by decide) (C01.spaces_ws 13), C12.substPh_noInfix kwLine i sepLine _ hpostL,
      ← foamHeaderText_eq]
    simp [foamHeaderText, List.append_assoc]
  have hdrop : dropUnderscoreEs .foam (foamSD i D).data = (foamSD i D).data :=
    C10.C10_drop_id _ (foamSD_noUnderscore hu)
  have hplain : fmtPlain .foam D = removeTrailingSpaces (fmtEntries .foam 0 D) := by
    rw [C10.C10_input_unchanged, C10.C10_drop_id D hu, C10.Foam.hoist_id_f hdom]
  have e1 : (foamSD i D).blockC = [(0, banner)] := rfl
  have e2 : (foamSD i D).incl = [] := rfl
  have e3 : (foamSD i D).lineC = [(i, sepLine)] := rfl
  simp only [fmtSD, hdrop, foamSD_hoist hk, e1, e2, e3, hblock, insertIncludes, List.foldl_nil, hline, rts_header, hplain]


/-- the SDict of a written file has unique keys at every level -/
theorem foamSD_nodup {i : Nat} (hi : i ≤ 999999) {D : Entries} (hp : C07.NoPhEs D) (hn : NodupKeysV (.dict D))
    (hff : Key.str "FoamFile".toList ∉ keys D) : NodupKeysV (.dict (foamSD i D).data) := by
  have hk := C12.noPh_keys hp
  have h1 : Key.str C12.hdrPh ∉ keys D := C12.hdr_not_mem hp
  have h3 : Key.str (linePh i) ∉ keys D := fun hm => by
    have := hk _ hm
    rw [linePh_isPh hi] at this
    cases this
  have n1 := (linePh_ne i).1
  have n2 := (linePh_ne i).2
  have n3 := foamFile_facts.2.2.2.2
  refine ⟨?_, ?_⟩
  · show (Key.str C12.hdrPh :: Key.str "FoamFile".toList :: Key.str (linePh i) :: keys D).Nodup
    refine List.nodup_cons.mpr ⟨?_, List.nodup_cons.mpr ⟨?_, List.nodup_cons.mpr ⟨h3, hn.1⟩⟩⟩
    · simp only [List.mem_cons, not_or]
      exact ⟨fun e => n3 e.symm, fun e => n1 e.symm, h1⟩
    · simp only [List.mem_cons, not_or]
      exact ⟨fun e => n2 e.symm, hff⟩
  · show NodupKeysEs (C12.hdrEntry :: foamFileEntry :: lineEntry i :: D)
    simp only [C12.hdrEntry, foamFileEntry, lineEntry, NodupKeysEs, NodupKeysV, true_and]
    exact ⟨⟨foamFileDict_ok.2.1, foamFileDict_ok.2.2⟩, hn.2⟩

/-- `DictReader.read` (default options) of a file whose text parses to the SDict of a written file: the stages above
    the parser change nothing -/
theorem readFile_of_parse_foam {i : Nat} {D : Entries} {c c' : Counter} (ev : Str → EvalResult) (p : Comps) (text : Str)
    (hi : i ≤ 999999) (hparse : parseNative true (pathStr p.dropLast) c text = .ok (foamSD i D, c'))
    (hp : C07.NoPhEs D) (hn : NodupKeysV (.dict D)) (hff : Key.str "FoamFile".toList ∉ keys D)
    (hj : isJsonPath p = false) (hx : isXmlPath p = false) (hr : resolveSpelled p = p) :
    readFile ev [(p, .native text)] {} c p = .ok (.ok (foamSD i D) c') := by
  have hcl := foamSD_clean hi hp hn hff
  have hmi := C01.mergeIncludes_clean [(p, .native text)] true (foamSD i D) p.dropLast c' rfl hcl
    (foamSD_nodup hi hp hn hff)
  have hev := C01.evalExpressions_noexpr ev (foamSD i D) rfl
  have hpf : parseFile [(p, .native text)] true c p = .ok (foamSD i D, c') := by
    simp only [parseFile, hx, hr, C01.fs_get_single, hj, hparse]
    rfl
  simp only [readFile, hpf, bind, Except.bind, pure, Except.pure]
  simp only [if_true, hmi, hev]
  rfl

/-- what is left of the data read when the entries the header accounts for are taken out: the two comment
    placeholder entries and the `FoamFile` entry -/
def dropHeaderEntries (es : Entries) : Entries :=
  es.filter fun e => !C07.isPhKey e.1 && !decide (e.1 = .str "FoamFile".toList)

theorem dropHeader_foamSD {i : Nat} (hi : i ≤ 999999) {D : Entries} (hp : C07.NoPhEs D)
    (hff : Key.str "FoamFile".toList ∉ keys D) : dropHeaderEntries (foamSD i D).data = D := by
  have hk := C12.noPh_keys hp
  have e1 : C07.isPhKey C12.hdrEntry.1 = true := C12.hdrPh_isPh
  have e3 : C07.isPhKey (lineEntry i).1 = true := linePh_isPh hi
  have e2 : decide (foamFileEntry.1 = Key.str "FoamFile".toList) = true := decide_eq_true rfl
  unfold dropHeaderEntries
  show List.filter _ (C12.hdrEntry :: foamFileEntry :: lineEntry i :: D) = D
  rw [List.filter_cons_of_neg (by rw [e1]; simp), List.filter_cons_of_neg (by rw [e2]; simp),
    List.filter_cons_of_neg (by rw [e3]; simp)]
  refine List.filter_eq_self.mpr fun e he => ?_
  have h1 := hk e.1 (List.mem_map_of_mem he)
  have h2 : e.1 ≠ Key.str "FoamFile".toList := fun h => hff (by rw [← h]; exact List.mem_map_of_mem he)
  rw [h1, decide_eq_false h2]
  rfl

/-- the keys of the private-key-free normalised copy are keys of the dict -/
theorem keys_dropped_sub (d : Entries) : ∀ k ∈ keys (normEs (dropUnderscoreEs .foam d)), k ∈ keys d := by
  intro k hk
  rw [C01.keys_normEs, C10.C10_drop_only_underscore] at hk
  simp only [keys, List.map_map, List.mem_map, Function.comp] at hk
  obtain ⟨e, he, rfl⟩ := hk
  exact List.mem_map_of_mem (List.mem_filter.mp he).1

theorem noFoamFile_keys {d : Entries} (h : NoFoamFileKey d) : Key.str "FoamFile".toList ∉ keys d := by
  intro hm
  obtain ⟨e, he, hk⟩ := List.mem_map.mp hm
  exact h e he hk

theorem noFoamFile_dropped {d : Entries} (h : NoFoamFileKey d) : NoFoamFileKey (normEs (dropUnderscoreEs .foam d)) := by
  intro e he hk
  exact noFoamFile_keys h (keys_dropped_sub d _ (by rw [← hk]; exact List.mem_map_of_mem he))

theorem rts_foamHeader : removeTrailingSpaces foamHeader = foamHeader := by
  have := rts_header []
  rwa [List.append_nil, rts_nil, List.append_nil] at this

/-- no block comment of the table has its placeholder entry in the text: the text gets the Foam header in front -/
theorem insertBlock_none (txt : Str) : ∀ (tbl : Tbl Str), (∀ e ∈ tbl, (substPh kwBlock e.1 [] txt).2 = false) →
    insertBlockComments .foam tbl txt = foamHeader ++ txt := by
  intro tbl h
  have key : ∀ (tbl : Tbl Str) (first : Bool), (∀ e ∈ tbl, (substPh kwBlock e.1 [] txt).2 = false) →
      ∃ f', tbl.foldl (fun (acc : Str × Str × Bool) e =>
        let (s, sofar, first) := acc
        let bc := if first then makeDefaultBlockComment .foam e.2 else e.2
        let bc := if isInfix bc sofar then [] else bc
        let (s', found) := substPh kwBlock e.1 bc s
        if found then (s', sofar ++ bc, false) else (s, sofar, false)) (txt, [], first) = (txt, [], f') := by
    intro tbl
    induction tbl with
    | nil => intro first _; exact ⟨first, rfl⟩
    | cons e tbl ih =>
      intro first hh
      have he := hh e List.mem_cons_self
      simp only [List.foldl_cons]
      have hf : ∀ r, (substPh kwBlock e.1 r txt).2 = false := fun r => by rw [C10.substPh_flag kwBlock e.1 r [] txt]; exact he
      rcases hs : substPh kwBlock e.1 (if isInfix (if first then makeDefaultBlockComment .foam e.2 else e.2) [] then []
        else (if first then makeDefaultBlockComment .foam e.2 else e.2)) txt with ⟨s', found⟩
      have := hf (if isInfix (if first then makeDefaultBlockComment .foam e.2 else e.2) [] then []
        else (if first then makeDefaultBlockComment .foam e.2 else e.2))
      rw [hs] at this
      simp only [] at this
      subst this
      simp only [hs, Bool.false_eq_true, if_false]
      exact ih false fun e' he' => hh e' (List.mem_cons_of_mem _ he')
  obtain ⟨f', hf'⟩ := key tbl true h
  simp only [insertBlockComments]
  rw [hf']
  simp [C10.makeDefault_foam_nil]


/-- `C10_sd_text` with the header abstract (the kernel must never be asked to evaluate `foamHeader`: `String.toList`
    on a long literal is slow) -/
theorem sd_text_aux (H : Str) (d : Entries) (hraw : ∀ txt, insertBlockComments .foam [] txt = H ++ txt)
    (hrts : ∀ t, removeTrailingSpaces (H ++ t) = H ++ removeTrailingSpaces t) :
    fmtSD .foam { data := d } = some (H ++ fmtPlain .foam d) := by
  simp only [fmtSD, hraw, insertIncludes, insertLineComments, List.foldl_nil, hrts]
  rfl

/-! ## property theorems -/

/-- **C10_sd_text.**  The text the Foam writer produces for an `SDict` without own comments / includes — for EVERY
    data `d`, no domain hypothesis — is the Foam header (banner, `FoamFile` block, separator line; `foamHeaderText`,
    spelled out in `banner_str`, `foamFileText_str`, `sepLine_str`) followed by the text the plain-dict writer
    produces for `d` (private keys dropped at every level: `C10.C10_underscore`). -/
theorem C10_sd_text (d : Entries) : fmtSD .foam { data := d } = some (foamHeaderText ++ fmtPlain .foam d) := by
  rw [foamHeaderText_eq]
  exact sd_text_aux foamHeader d C10.C10_banner_raw rts_header

/-- the raw text of the data of an SDict, before the comment / include insertion passes -/
def rawText (s : SD) : Str := fmtEntries .foam 0 (hoistPlaceholders (dropUnderscoreEs .foam s.data))

/-- **C10_sd_starts_with_banner.**  Whenever `fmtSD .foam` succeeds on an SDict none of whose block comments has its
    placeholder entry in the data (in particular: an SDict without block comments), the text starts with the Foam
    header: the banner, then the `FoamFile` block, then the separator line. -/
theorem C10_sd_starts_with_banner (s : SD) (t : Str)
    (hno : ∀ e ∈ s.blockC, (substPh kwBlock e.1 [] (rawText s)).2 = false) (h : fmtSD .foam s = some t) :
    ∃ r, t = foamHeaderText ++ r := by
  obtain ⟨hI, hL, hr, hlast⟩ := C10.foamHeader_chars
  rw [foamHeaderText_eq]
  have hb := insertBlock_none (rawText s) s.blockC hno
  simp only [fmtSD] at h
  rw [show fmtEntries .foam 0 (hoistPlaceholders (dropUnderscoreEs .foam s.data)) = rawText s from rfl, hb] at h
  split at h
  · cases h
  · next t1 h1 =>
    obtain ⟨r1, rfl⟩ := C10.insertIncludes_skip foamHeader hI _ _ _ h1
    obtain ⟨r2, e2⟩ := C10.insertLineComments_skip foamHeader hL s.lineC r1
    simp only [Option.some.injEq] at h
    rw [e2, rts_header] at h
    exact ⟨_, h.symm⟩

/-- the special case "no block comment at all", with the three parts of the header named -/
theorem C10_sd_starts_with_banner' (s : SD) (t : Str) (hb : s.blockC = []) (h : fmtSD .foam s = some t) :
    ∃ r, t = banner ++ ['\n'] ++ foamFileText ++ sepLine ++ ['\n'] ++ r :=
  C10_sd_starts_with_banner s t (by rw [hb]; intro e he; cases he) h

/-- the hypotheses of the round trip on a dict `d` (those of `C10.C10_roundtrip_file`, plus: no top-level key
    `FoamFile`) -/
structure Hyp (d : Entries) (c : Counter) (target : Comps) : Prop where
  dom : DomC01 .foam (normEs (dropUnderscoreEs .foam d)) = true
  cnt : C02.countQuotedEs (srcOfEs .foam (normEs (dropUnderscoreEs .foam d))) ≤ Gen.counterLimit + 1
  noFF : NoFoamFileKey d
  hc : C13.ValidCounter Gen.counterLimit c
  hj : isJsonPath target = false
  hx : isXmlPath target = false
  hr : resolveSpelled target = target

/-- the text written for `SDict(d)` -/
def sdText (d : Entries) : Str := foamHeaderText ++ fmtPlain .foam (normEs d)

theorem sdText_dropped (d : Entries) :
    sdText d = foamHeader ++ fmtPlain .foam (normEs (dropUnderscoreEs .foam d)) := by
  rw [sdText, foamHeaderText_eq, C10.normEs_drop, C10.C10_fmtPlain_drop]

/-- reading the written file -/
theorem readFile_sd {d : Entries} {c : Counter} {target : Comps} (ev : Str → EvalResult) (H : Hyp d c target) :
    ∃ c', C13.ValidCounter Gen.counterLimit c' ∧
      readFile ev [(target, .native (sdText d))] {} c target =
        .ok (.ok (foamSD (Counter.next Gen.counterLimit c).1 (normEs (dropUnderscoreEs .foam d))) c') := by
  have hu : C10.NoUnderscoreEs (normEs (dropUnderscoreEs .foam d)) := by rw [C10.normEs_drop]; exact C10.C10_underscore _
  have hff := noFoamFile_dropped H.noFF
  obtain ⟨c', hv, hparse⟩ := read_foam_parse (c := c) (pathStr target.dropLast) H.dom hu hff H.cnt H.hc
  rw [C01.normEs_idem, ← sdText_dropped] at hparse
  obtain ⟨hp, hn⟩ := C10.norm_invariants_foam H.dom
  rw [C01.normEs_idem] at hp hn
  exact ⟨c', hv, readFile_of_parse_foam ev target _ (C13.next_le H.hc) hparse hp hn (noFoamFile_keys hff) H.hj H.hx H.hr⟩

/-- **C10_roundtrip_sd** (DictWriter + DictReader, OpenFOAM flavour, `SDict` source).  For a dict `d` — private `_`
    keys allowed at every level — whose normalised private-key-free copy `D' = normEs (dropUnderscoreEs .foam d)` lies
    in the Foam value domain and that has no top-level key `FoamFile`:

    * writing `SDict(d)` (`_retype_values` first: `normEs`) gives the Foam header followed by the plain Foam text;
    * reading that file with the default options succeeds and returns exactly `foamSD i D'`: the data is
      `BLOCKCOMMENT000000 ↦ BLOCKCOMMENT000000`, `FoamFile ↦ {version: 2.0, format: 'ascii', class: 'dictionary',
      object: 'foamDict'}`, `LINECOMMENT<i> ↦ LINECOMMENT<i>` (`i` = the id the counter hands out first), then the
      entries of `D'` in order; the banner is block comment 0, the separator line is line comment `i`;
    * taking out the two placeholder entries and the `FoamFile` entry leaves `D'`; no key with a leading `_` is left. -/
theorem C10_roundtrip_sd {d : Entries} {c : Counter} {target : Comps} (ev : Str → EvalResult) (H : Hyp d c target) :
    fmtSD .foam { data := normEs d } = some (sdText d) ∧
    (∃ c', C13.ValidCounter Gen.counterLimit c' ∧
      readFile ev [(target, .native (sdText d))] {} c target =
        .ok (.ok { data := (.str C12.hdrPh, .leaf (.str C12.hdrPh)) ::
                            (.str "FoamFile".toList, .dict foamFileDict) ::
                            (.str (linePh (Counter.next Gen.counterLimit c).1),
                              .leaf (.str (linePh (Counter.next Gen.counterLimit c).1))) ::
                            normEs (dropUnderscoreEs .foam d),
                   lineC := [((Counter.next Gen.counterLimit c).1, sepLine)],
                   blockC := [(0, banner)] } c')) ∧
    dropHeaderEntries (foamSD (Counter.next Gen.counterLimit c).1 (normEs (dropUnderscoreEs .foam d))).data =
      normEs (dropUnderscoreEs .foam d) ∧
    C10.NoUnderscoreEs (normEs (dropUnderscoreEs .foam d)) := by
  obtain ⟨hp, hn⟩ := C10.norm_invariants_foam H.dom
  rw [C01.normEs_idem] at hp
  refine ⟨C10_sd_text _, readFile_sd ev H, dropHeader_foamSD (C13.next_le H.hc) hp
    (noFoamFile_keys (noFoamFile_dropped H.noFF)), ?_⟩
  rw [C10.normEs_drop]; exact C10.C10_underscore _

/-- **C10_sd_header_once.**  Writing the SDict that was read from a written file gives the same text, byte for byte:
    the banner it carries as block comment 0 is an own ` C++ ` header naming OpenFOAM, so no second header is put in
    front; the `FoamFile` entry is written where the header's `FoamFile` block stood. -/
theorem C10_sd_header_once {d : Entries} {c : Counter} {target : Comps} (ev : Str → EvalResult) (H : Hyp d c target) :
    ∃ sd c', fmtSD .foam { data := normEs d } = some (sdText d) ∧
      readFile ev [(target, .native (sdText d))] {} c target = .ok (.ok sd c') ∧
      fmtSD .foam sd = some (sdText d) := by
  obtain ⟨c', _, hread⟩ := readFile_sd ev H
  have hu : C10.NoUnderscoreEs (normEs (dropUnderscoreEs .foam d)) := by rw [C10.normEs_drop]; exact C10.C10_underscore _
  obtain ⟨hp, _⟩ := C10.norm_invariants_foam H.dom
  rw [C01.normEs_idem] at hp
  refine ⟨_, c', C10_sd_text _, hread, ?_⟩
  exact (write_foamSD (C13.next_le H.hc) H.dom hu (C12.noPh_keys hp)).trans (by rw [sdText_dropped])

/-- the fixed point without the file system: on the Foam domain the SDict with the three header entries and the two
    comments is written exactly as the SDict with the bare data -/
theorem C10_sd_header_once' {i : Nat} (hi : i ≤ 999999) {D : Entries} (hdom : DomC01 .foam D = true)
    (hu : C10.NoUnderscoreEs D) : fmtSD .foam (foamSD i D) = fmtSD .foam { data := D } := by
  have hk : ∀ k ∈ keys D, C07.isPhKey k = false := by
    have := C12.noPh_keys (C10.norm_invariants_foam hdom).1
    rwa [C01.keys_normEs] at this
  rw [write_foamSD hi hdom hu hk, C10_sd_text, foamHeaderText_eq]

/-- **through `writeStep`** (Model/Writer.lean; its `SDict` route is the append mode): `DictWriter.write({}, target,
    mode='a')` on a file that holds the text written for `SDict(d)` re-reads the file, merges nothing into it and
    writes the SDict read — the file keeps its bytes (one banner, one `FoamFile` block). -/
theorem C10_sd_writeStep_append {d : Entries} {c : Counter} {target : Comps} (ev : Str → EvalResult)
    (H : Hyp d c target) :
    ∃ c', writeStep ev .foam target (some (sdText d)) ['a'] false [] c = .ok (sdText d, c') := by
  obtain ⟨c', _, hread⟩ := readFile_sd ev H
  have hu : C10.NoUnderscoreEs (normEs (dropUnderscoreEs .foam d)) := by rw [C10.normEs_drop]; exact C10.C10_underscore _
  obtain ⟨hp, hn⟩ := C10.norm_invariants_foam H.dom
  rw [C01.normEs_idem] at hp hn
  have hff := noFoamFile_keys (noFoamFile_dropped H.noFF)
  have hi := C13.next_le H.hc
  have hmerge : (foamSD (Counter.next Gen.counterLimit c).1 (normEs (dropUnderscoreEs .foam d))).merge (.plain (normEs [])) =
      foamSD (Counter.next Gen.counterLimit c).1 (normEs (dropUnderscoreEs .foam d)) := by
    have e : normEs [] = [] := by simp only [normEs]
    rw [e]
    unfold SD.merge
    simp only [Arg.data, C07.mergeD_nil, SD.postMerge]
    exact foamSD_clean hi hp hn hff
  have hwrite : fmtSD .foam (foamSD (Counter.next Gen.counterLimit c).1 (normEs (dropUnderscoreEs .foam d))) =
      some (sdText d) := (write_foamSD hi H.dom hu (C12.noPh_keys hp)).trans (by rw [sdText_dropped])
  refine ⟨c', ?_⟩
  have hread' : readFile ev [(target, .native (sdText d))] { order := false } c target =
      .ok (.ok (foamSD (Counter.next Gen.counterLimit c).1 (normEs (dropUnderscoreEs .foam d))) c') := hread
  simp only [writeStep, beq_self_eq_true, if_true, hread', hmerge, Bool.false_eq_true, if_false, hwrite]

/-! ### the same through the API model (`writeText`, `apiRun`: Model/Api.lean) -/

theorem flavor_foam {p : Comps} (h : C10.isFoamPath p = true) : flavorOfPath p = some .foam := by
  obtain ⟨hj, hx⟩ := C10.foamPath_dispatch h
  unfold C10.isFoamPath at h
  unfold flavorOfPath
  simp only [hj, hx, Bool.or_self, Bool.false_eq_true, if_false]
  cases hl : p.getLast? with
  | none => rw [hl] at h; cases h
  | some n => rw [hl] at h; simp only [h, if_true]

/-- `DictWriter.write(SDict(d), 'x.foam')` on a target that does not exist: the text of `C10_sd_text` -/
theorem C10_sd_writeText (ev : Str → EvalResult) (fs : FS) (target : Comps) (mode : Str) (d : Entries) (c : Counter)
    (hf : C10.isFoamPath target = true) (hnew : fs.get (resolveSpelled target) = none) :
    writeText ev fs target mode false (.sd { data := d }) c = .ok (sdText d, c) := by
  simp only [writeText, flavor_foam hf, hnew, Arg.retype, Bool.false_eq_true, if_false, fmtArg, C10_sd_text, sdText]

/-- `SDict(d).dump('x.foam')` into an empty file system, then `DictReader.read('x.foam')`: the file holds the text
    of `C10_sd_text`, the caller sees `None` and then the SDict of `C10_roundtrip_sd` -/
theorem C10_sd_api {d : Entries} {c : Counter} {target : Comps} (ev : Str → EvalResult) (H : Hyp d c target)
    (hf : C10.isFoamPath target = true) :
    ∃ c', C13.ValidCounter Gen.counterLimit c' ∧
      apiRun ev { fs := [], c := c } [.dump { data := d } target, .read target {}] =
        ({ fs := [(target, .native (sdText d))], c := c' },
         [.done, .data (foamSD (Counter.next Gen.counterLimit c).1 (normEs (dropUnderscoreEs .foam d)))]) := by
  obtain ⟨c', hv, hread⟩ := readFile_sd ev H
  have hw := C10_sd_writeText ev [] target ['a'] d c hf (by rfl)
  refine ⟨c', hv, ?_⟩
  simp [apiRun, apiStep, writeTo, hw, FS.set, H.hr, C01.fs_get_single, hread]


/-! ## non-vacuity -/

/-- `{'a': 1, 's': {'_x': 2, 'y': '2'}, '_top': 'q', 'k': 'x y'}`: a private key nested in a sub-dict, one on the top
    level, a string leaf that spells a number, a string that needs quotes -/
def exD : Entries :=
  [(.str "a".toList, .leaf (.int 1)),
   (.str "s".toList, .dict [(.str "_x".toList, .leaf (.int 2)), (.str "y".toList, .leaf (.str "2".toList))]),
   (.str "_top".toList, .leaf (.str "q".toList)),
   (.str "k".toList, .leaf (.str "x y".toList))]

/-- what comes back: `{'a': 1, 's': {'y': 2}, 'k': 'x y'}` -/
def exBack : Entries :=
  [(.str "a".toList, .leaf (.int 1)), (.str "s".toList, .dict [(.str "y".toList, .leaf (.int 2))]),
   (.str "k".toList, .leaf (.str "x y".toList))]

theorem exD_back : normEs (dropUnderscoreEs .foam exD) = exBack := by decide +kernel
theorem exBack_dom : DomC01 .foam exBack = true := by decide +kernel
theorem exBack_count : C02.countQuotedEs (srcOfEs .foam exBack) = 1 := by decide +kernel
theorem exD_private : ¬ C10.NoUnderscoreEs exD := by
  simp only [exD, C10.NoUnderscoreEs, C10.NoUnderscoreV]
  intro h
  exact h.2.2.2.1.1 (by decide +kernel)

theorem exHyp : Hyp exD none C10.exTarget where
  dom := by rw [exD_back]; exact exBack_dom
  cnt := by rw [exD_back, exBack_count]; decide
  noFF := by decide
  hc := Or.inl rfl
  hj := (C10.foamPath_dispatch C10.exTarget_foam.1).1
  hx := (C10.foamPath_dispatch C10.exTarget_foam.1).2
  hr := C10.exTarget_foam.2

theorem intRepr_1 : intRepr 1 = ['1'] := by
  show intRepr (Int.ofNat 1) = _
  simp [intRepr, natDigits]

theorem exBack_raw : fmtEntries .foam 0 exBack = C01.unlines
    ["a                             1;",
     "s",
     "{",
     "    y                         2;",
     "}",
     "k                             \"x y\";"] := by
  simp only [exBack, fmtEntries, formatKey, keyStr, formatScalar, intRepr_1, C10.intRepr_2]
  decide +kernel

/-- the file written for the example: banner, `FoamFile` block, separator line, then the data without the private
    keys, `'2'` re-typed to `2`, double quotes only -/
theorem exD_text : sdText exD = foamHeaderText ++ C01.unlines
    ["a                             1;",
     "s",
     "{",
     "    y                         2;",
     "}",
     "k                             \"x y\";"] := by
  have hu : C10.NoUnderscoreEs exBack := by rw [← exD_back, C10.normEs_drop]; exact C10.C10_underscore _
  rw [sdText, ← C10.C10_fmtPlain_drop, ← C10.normEs_drop, exD_back, C10.C10_input_unchanged, C10.C10_drop_id _ hu,
    C10.Foam.hoist_id_f exBack_dom, exBack_raw]
  exact congrArg (foamHeaderText ++ ·) (by decide +kernel)

/-- the example written to `/w/dict.foam` and read back -/
theorem exD_roundtrip (ev : Str → EvalResult) :
    fmtSD .foam { data := normEs exD } = some (sdText exD) ∧
    ∃ c', readFile ev [(C10.exTarget, .native (sdText exD))] {} none C10.exTarget = .ok (.ok (foamSD 0 exBack) c') ∧
      fmtSD .foam (foamSD 0 exBack) = some (sdText exD) ∧ dropHeaderEntries (foamSD 0 exBack).data = exBack := by
  obtain ⟨h1, ⟨c', _, h2⟩, h3, _⟩ := C10_roundtrip_sd ev exHyp
  rw [exD_back] at h2 h3
  have hu : C10.NoUnderscoreEs exBack := by rw [← exD_back, C10.normEs_drop]; exact C10.C10_underscore _
  refine ⟨h1, c', h2, ?_, h3⟩
  rw [C10_sd_header_once' (by decide) exBack_dom hu, C10_sd_text, sdText_dropped, exD_back, foamHeaderText_eq]

/-! ### the statement as first asked for is false: there is a third header entry -/

/-- remove the block-comment placeholder entries and the `FoamFile` entry only -/
def dropBlockAndFoamFile (es : Entries) : Entries :=
  es.filter fun e => !(match e.1 with | .str k => containsPh kwBlock k | _ => false) &&
    !decide (e.1 = .str "FoamFile".toList)

/-- "after removing the block-comment placeholder entry and the `FoamFile` entry the data read equals the normalised
    private-key-free dict" is FALSE: the separator line `// * * * … //` of the header is a line comment; the reader
    (comments on) turns it into a third entry `LINECOMMENTnnnnnn`.  Witness: the empty dict, `SDict({})` written to
    `/w/dict.foam` — the data read is `{BLOCKCOMMENT000000: …, FoamFile: {…}, LINECOMMENT000000: …}`. -/
theorem C10_roundtrip_sd_statement_false :
    ¬ ∀ (ev : Str → EvalResult) (d : Entries) (c : Counter) (target : Comps), Hyp d c target →
      ∃ sd c', readFile ev [(target, .native (sdText d))] {} c target = .ok (.ok sd c') ∧
        dropBlockAndFoamFile sd.data = normEs (dropUnderscoreEs .foam d) := by
  intro h
  have H : Hyp [] none C10.exTarget :=
    { dom := (by decide +kernel), cnt := (by decide +kernel), noFF := (by intro e he; cases he), hc := Or.inl rfl,
      hj := (C10.foamPath_dispatch C10.exTarget_foam.1).1, hx := (C10.foamPath_dispatch C10.exTarget_foam.1).2,
      hr := C10.exTarget_foam.2 }
  obtain ⟨sd, c', h1, h2⟩ := h (fun _ => .unsupported) [] none C10.exTarget H
  obtain ⟨c'', _, h3⟩ := readFile_sd (fun _ => .unsupported) H
  rw [h3] at h1
  have h1' := (ReadOut.ok.inj (Except.ok.inj h1)).1
  rw [← h1'] at h2
  have e : dropBlockAndFoamFile (foamSD 0 []).data = [lineEntry 0] := by
    show List.filter _ (C12.hdrEntry :: foamFileEntry :: lineEntry 0 :: []) = _
    have b1 : containsPh kwBlock C12.hdrPh = true := C12.hdrPh_block
    have b3 : containsPh kwBlock (linePh 0) = false := C12W.containsPh_block_line 0
    simp only [List.filter_cons, C12.hdrEntry, foamFileEntry, lineEntry, b1, b3, List.filter_nil]
    decide +kernel
  have e2 : foamSD (Counter.next Gen.counterLimit none).1 (normEs (dropUnderscoreEs .foam [])) = foamSD 0 [] := rfl
  rw [e2, e] at h2
  cases h2

/-! ### the hypothesis `NoFoamFileKey` cannot be dropped -/

/-- `{'FoamFile': {'x': 'y'}}` -/
def exFF : Entries := [(.str "FoamFile".toList, .dict [(.str "x".toList, .leaf (.str "y".toList))])]

/-- the text written for `SDict({'FoamFile': {'x': 'y'}})`: the header, then a second `FoamFile` block -/
def exFFText : Str :=
  foamHeaderText ++ (['F', 'o', 'a', 'm', 'F', 'i', 'l', 'e', '\n', '{', '\n', ' ', ' ', ' ', ' ', 'x'] ++ spaces 25 ++
    ['y', ';', '\n', '}', '\n'])

theorem exFF_text : fmtSD .foam { data := normEs exFF } = some exFFText := by
  have e1 : hoistPlaceholders (dropUnderscoreEs .foam (normEs exFF)) = exFF := by decide +kernel
  have e2 : fmtEntries .foam 0 exFF = ['F', 'o', 'a', 'm', 'F', 'i', 'l', 'e', '\n', '{', '\n', ' ', ' ', ' ', ' ', 'x'] ++
      spaces 25 ++ ['y', ';', '\n', '}', '\n'] := by
    simp only [exFF, fmtEntries, formatKey, keyStr, formatScalar]
    decide +kernel
  rw [C10_sd_text, C10.C10_input_unchanged, e1, e2]
  exact congrArg (fun t => some (foamHeaderText ++ t)) (by decide +kernel)

/-- reading it: the dict's own `FoamFile` entry has overwritten the header's (same key, written later), at the
    header's place — nothing is left when the header entries are taken out, although the dict was not empty -/
theorem exFF_read : (parseNative true [] none exFFText).toOption.map (fun r => r.1.data) =
    some [C12.hdrEntry, (.str "FoamFile".toList, .dict [(.str "x".toList, .leaf (.str "y".toList))]), lineEntry 0] := by
  decide +kernel

theorem exFF_lost : dropHeaderEntries [C12.hdrEntry,
    (.str "FoamFile".toList, .dict [(.str "x".toList, .leaf (.str "y".toList))]), lineEntry 0] = [] ∧
    normEs (dropUnderscoreEs .foam exFF) = exFF ∧ ¬ NoFoamFileKey exFF := by
  refine ⟨by decide +kernel, by decide +kernel, by decide⟩

/-
#print axioms C10_sd_text                        -- [propext, Classical.choice, Quot.sound]
#print axioms C10_sd_starts_with_banner          -- [propext, Classical.choice, Quot.sound]
#print axioms C10_roundtrip_sd                   -- [propext, Classical.choice, Quot.sound]
#print axioms C10_sd_header_once                 -- [propext, Classical.choice, Quot.sound]
#print axioms C10_sd_header_once'                -- [propext, Classical.choice, Quot.sound]
#print axioms C10_sd_writeStep_append            -- [propext, Classical.choice, Quot.sound]
#print axioms C10_sd_writeText                   -- [propext, Classical.choice, Quot.sound]
#print axioms C10_sd_api                         -- [propext, Classical.choice, Quot.sound]
#print axioms read_foam_parse                    -- [propext, Classical.choice, Quot.sound]
#print axioms exD_roundtrip                      -- [propext, Classical.choice, Quot.sound]
#print axioms exD_text                           -- [propext, Classical.choice, Quot.sound]
#print axioms C10_roundtrip_sd_statement_false   -- [propext, Classical.choice, Quot.sound]
#print axioms exFF_text                          -- [propext, Classical.choice, Quot.sound]
#print axioms exFF_read                          -- [propext, Classical.choice, Quot.sound]
#print axioms exFF_lost                          -- [propext, Classical.choice, Quot.sound]
-/

end DictIO.C10sd
