import DictIO.Props.C10file
import DictIO.Props.C01dump
import DictIO.Props.C12write
import DictIO.Props.C09equiv
import DictIO.Model.Api

namespace DictIO.C10sd
open DictIO

set_option linter.unusedSimpArgs false
set_option linter.unusedVariables false
set_option linter.unnecessarySimpa false

/-! ## helper lemmas -/

/-! ### the Foam header, piece by piece -/

/-- the OpenFOAM banner: the block comment `/*-----…*- C++ -*…  …*/` (seven lines, no final line feed) -/
def banner : Str := C10.foamHeaderChars.take 559

/-- what stands between `/*` and `*/` in the banner -/
def bannerBody : Str := ((banner.drop 2).dropLast).dropLast

/-- the `FoamFile { … }` block as the header spells it (seven lines, with the final line feed) -/
def foamFileText : Str := (C10.foamHeaderChars.drop 560).take 167

/-- the separator line `// * * * … * //` (no final line feed) -/
def sepLine : Str := (C10.foamHeaderChars.drop 727).take 79

/-- the separator line without its leading `//` -/
def sepBody : Str := sepLine.drop 2

/-- **the Foam header text**: banner, line feed, `FoamFile` block, separator line, line feed -/
def foamHeaderText : Str := banner ++ ['\n'] ++ foamFileText ++ sepLine ++ ['\n']

set_option maxRecDepth 100000 in
theorem banner_str : banner =
    "/*--------------------------------*- C++ -*----------------------------------*\\\n| =========                 |                                                 |\n| \\\\      /  F ield         | OpenFOAM: The Open Source CFD Toolbox           |\n|  \\\\    /   O peration     | Version:  dev                                   |\n|   \\\\  /    A nd           | Web:      www.OpenFOAM.com                      |\n|    \\\\/     M anipulation  |                                                 |\n\\*---------------------------------------------------------------------------*/".toList :=
  (String.toList_ofList (l := banner)).symm.trans (congrArg String.toList (by rfl : String.ofList banner = _))

set_option maxRecDepth 100000 in
theorem foamFileText_str : foamFileText =
    "FoamFile\n{\n    version                   2.0;\n    format                    ascii;\n    class                     dictionary;\n    object                    foamDict;\n}\n".toList :=
  (String.toList_ofList (l := foamFileText)).symm.trans (congrArg String.toList (by rfl : String.ofList foamFileText = _))

set_option maxRecDepth 100000 in
theorem sepLine_str : sepLine =
    "// * * * * * * * * * * * * * * * * * * * * * * * * * * * * * * * * * * * * * //".toList :=
  (String.toList_ofList (l := sepLine)).symm.trans (congrArg String.toList (by rfl : String.ofList sepLine = _))

theorem foamHeaderText_chars : foamHeaderText = C10.foamHeaderChars := by decide +kernel

/-- the explicit header text is the header of the model (`Gen.foamHeader`, generated from formatter.py) -/
theorem foamHeaderText_eq : foamHeaderText = foamHeader := by
  rw [C10.foamHeader_eq]; exact foamHeaderText_chars

theorem banner_shape : banner = '/' :: '*' :: (bannerBody ++ ['*', '/']) := by decide +kernel
theorem sepLine_shape : sepLine = '/' :: '/' :: sepBody := by decide +kernel

end DictIO.C10sd
