/-
  C03 -- the fixed point for sources WITH `$`-references and expressions:
  "reading a well-formed dict file, writing the result, and reading the written file yields the same data as the first
   read; this includes the documented workflow where the parsed.<name> file produced from a source with $-expressions is
   read again; the written text itself stabilises after one cycle", for every number n ≥ 1 of read–write cycles.

  Setting: flat documents in the domain of `C05R.C05_read_layout` (`Doc`: top-level `key value;`, the value a literal,
  a bare reference `$x`, or a double-quoted expression text such as `"$a + $b"`; `DocWF`), ANY admissible layout of the
  source (`renderG doc lay tail`, `LayOK`), the reader `readFile` (= `DictReader.read`, default options), the writer
  `fmtSD .native` (what `DictParser.parse` / `DictWriter.write` call for an SDict: default header block comment, then the
  entries), cycles `C03.sdCycles` (write the SDict read, read the file written).  Data are compared up to the header
  placeholder entry `BLOCKCOMMENT000000` that re-reading a written file adds (`C01.dropPhEntries`, as in `C16fold`).

  A. RESOLVABLE reference graphs (`SrcOK`: `docRefsOK`, `docAcyclic` of C05read, literals in the writer's domain
     `litsInDom`; `docResolvable c doc`: the topological specification `C05.topoVal evalInt` gives every name a value).
     Evaluator: `evalInt` (integer expressions `+ - * ( )`).  Hypothesis "the first read succeeds" as in
     `C05_read_layout` (the model gives up outside the integer language).
       `first_read`            the first read returns exactly `{ data := evalData c doc }`: every name with its `topoVal`
       `topoVal_good`, `evalData_good`   these values are the literals' values or integers (all `evalInt` can return):
                               plain scalars of `DomC01`, normalised, no `$` left  ⇒  `C16.Good (evalData c doc)`
       **`C03_expr_reread`**   one cycle: written text = `nativeHeader ++ fmtPlain data`; re-read data = first data
       **`C03_expr_cycles`**, `C03_expr_cycles_last`   every `n`: all cycles write the same bytes and read the same
                               data (bytes of cycle 2 = bytes of cycle 1; data after `n ≥ 1` cycles = data of the first read)
       **`C03_expr_parse_api`** the same through `apiStep … (.parse p {} mode none)` and `.read (parseTarget p [] none)`
                               in the two-file world (`parse` returns the dict after the writer's in-place re-typing:
                               `normEs` is the identity here)
  B. UNRESOLVED references (dangling `$nope`, `"$p + 1"`; cyclic).
       `C03_expr_unresolved_statement`        the full statement (any `DocWF` document) -- **FALSE**:
       **`C03_expr_unresolved_statement_false`**   witness `exW`: an unresolved expression whose text, after the
                               resolvable references were substituted, begins with `;` (`s ';'; a "$s b…$c; d…";
                               x "$y + 1"; b $c; d "$z + 1";`): in the written file the text `"; b…$c; d…"` also stands
                               between two other quoted expressions, `_extract_expressions` replaces every occurrence,
                               and the second read loses the entries `x`, `b`, `d`.
       what holds (for EVERY evaluator): documents all of whose references are dangling (`SrcOKU`: `docDangling`, and the
       document in the writer's spelling `respell doc` is again `DocWF`):
       `evalExpressions_dangling`, `eval_dangling_doc`   `_eval_expressions` resolves nothing, one pass changes nothing,
                               every placeholder is replaced by its text (`meanD doc`: `$nope`, `$p + 1` kept as text)
       `fmtSD_meanD`           the writer: a text that is exactly one reference is written bare, any other text with `$`
                               in double quotes, literals in the writer's spelling; explicit layout (`wLay`)
       `parse_hdr_exprs`       the native parser on `nativeHeader ++ document with references/expressions`
                               (`parse_flat_exprs_layout` with the library's header in front)
       **`C03_expr_unresolved_partial`**, **`C03_expr_unresolved_cycles_partial`**   one cycle / every `n`
       **`C03_expr_residual_cycles`**   mixed documents GIVEN the first read: if the first read returned `meanD r` for a
                               residual document `r` (evaluated entries as literals, unresolved ones as text, dangling),
                               every cycle writes the same bytes and reads that data (`exM_cycles`: the example
                               `a 2; b $a; c "$a * $b + 1"; d $nope; e "$p + 1";`)
       `C03_expr_unresolved_corrected`   the corrected full statement, kept as `Prop`, NOT proved: missing are the first
                               read of a mixed / cyclic source in general and the re-read of cyclic references
  Non-vacuity: `exR_*` (resolvable, loose layout, three cycles, API), `exU_*` (dangling), `exM_*` (mixed), `exW_*`.

  NOT covered: nested dicts / lists, indexed references, includes, comments in the source (see C03cycles / C03incl),
  evaluators other than `evalInt` in part A, cyclic references in part B, JSON / Foam targets.
-/
import DictIO.Props.C05read
import DictIO.Props.C03bytes
import DictIO.Props.C16fold
import DictIO.Model.Api

namespace DictIO.C03expr
open DictIO DictIO.C05R

set_option linter.unusedSimpArgs false
set_option linter.unusedVariables false

attribute [local irreducible] nativeHeader

/-! ## helper lemmas -/

/-! ### 1. the values the specification evaluator gives -/

/-- the literals of the document are values of the writer's domain (as `hdom` in `C03_plain_fixpoint`; e.g. the float
    lexemes `1.`, `.5`, `1e5` are outside) -/
def litsInDom (doc : Doc) : Bool :=
  doc.all fun e => match e.2 with
    | .lit l => isDomScalar .native l.den
    | _ => true

/-- every name of the document is given a value by the topological specification `C05.topoVal` with the integer
    evaluator: the reference graph is fully resolvable and every expression text lies in the integer language -/
def docResolvable (c : Counter) (doc : Doc) : Bool :=
  doc.all fun e => (C05.topoVal evalInt (exprSD c doc) (doc.length + 1) e.1).isSome

/-- the data the first read returns: every name with the value of the specification, in file order -/
def evalData (c : Counter) (doc : Doc) : Entries :=
  doc.map fun e => (.str e.1, (C05.topoVal evalInt (exprSD c doc) (doc.length + 1) e.1).getD (.leaf .none))

/-- a scalar the writer writes and the reader reads back unchanged -/
def goodSc (x : Scalar) : Prop := isDomScalar .native x = true ∧ normScalar x = x

theorem goodSc_int (z : Int) : goodSc (.int z) := ⟨rfl, rfl⟩

theorem topoVal_good {c : Counter} {doc : Doc} {D : List (Nat × Str × Str)} (S : Shape c doc D)
    (hwf : DocWF doc = true) (hlit : litsInDom doc = true) :
    ∀ (fuel : Nat) (name : Str) (v : Val), C05.topoVal evalInt (exprSD c doc) fuel name = some v →
      ∃ x, v = .leaf x ∧ goodSc x
  | 0, _, _, h => by simp [C05.topoVal] at h
  | fuel + 1, name, v, h => by
    rw [C05.topoVal_succ] at h
    cases hl : lookup (.str name) (exprSD c doc).data with
    | none => rw [hl] at h; cases h
    | some v0 =>
      rw [hl] at h
      simp only at h
      have hmem := C05.lookup_mem hl
      have hmem' : (Key.str name, v0) ∈ ldata (labelAll c doc).2 := hmem
      rw [mem_ldata] at hmem'
      obtain ⟨e, he, heq⟩ := hmem'
      obtain ⟨dv, hm, hv⟩ := S.fwd e he
      have hv0 : v0 = .leaf e.2.val := (Prod.mk.inj heq).2
      rcases hv with ⟨l, w, rfl, e2⟩ | ⟨i, t, ht, hD, e2⟩
      · -- a literal
        have hok : l.ok = true := ((docWF_iff.mp hwf).1 _ hm).2
        have hnone : C05.exprOf (exprSD c doc) v0 = none := by
          rw [hv0, e2]; exact S.exprOf_lit (lit_okScalar hok)
        rw [hnone] at h
        simp only [Option.some.injEq] at h
        subst h
        refine ⟨l.den, by rw [hv0, e2]; rfl, ?_, C03.normScalar_den hok⟩
        have := List.all_eq_true.mp hlit _ hm
        simpa using this
      · -- a reference or an expression
        have hsome : C05.exprOf (exprSD c doc) v0 = some t := by
          rw [hv0, e2]; exact S.exprOf_ph hD
        rw [hsome] at h
        simp only at h
        split at h
        · exact topoVal_good S hwf hlit fuel _ _ h
        · cases hf : (findRefs t).foldlM (C05.topoStep (C05.topoVal evalInt (exprSD c doc) fuel)) t with
          | none => rw [hf] at h; cases h
          | some tx =>
            rw [hf] at h
            simp only at h
            rcases C05.evalInt_cases tx with ⟨z, hz⟩ | hu
            · rw [hz] at h
              simp only [Option.some.injEq] at h
              exact ⟨.int z, h.symm, goodSc_int z⟩
            · rw [hu] at h; cases h

/-! ### 2. the data of the first read, explicitly -/

/-- a dict is determined by its keys (without repetition) and the values found under them -/
theorem entries_of_lookups : ∀ (es : Entries) (f : Key → Val), (keys es).Nodup →
    (∀ k ∈ keys es, lookup k es = some (f k)) → es = (keys es).map fun k => (k, f k)
  | [], _, _, _ => rfl
  | (k, v) :: es, f, hn, hl => by
    have hn' : k ∉ keys es ∧ (keys es).Nodup := by simpa [keys] using hn
    have h0 := hl k (by simp [keys])
    have hv : v = f k := by simpa [lookup] using h0
    have ih := entries_of_lookups es f hn'.2 (fun k' hk' => by
      have := hl k' (by simp [keys]; exact Or.inr (by simpa [keys] using hk'))
      have hne : k ≠ k' := fun h => hn'.1 (h ▸ hk')
      simpa [lookup, hne] using this)
    simp only [keys, List.map_cons] at ih ⊢
    rw [← ih, hv]

theorem isComplex_of_word {c : Char} (h : isWordChar c = true) : isComplexChar c = false := by
  have hws := C05.word_not_ws c h
  have ne : ∀ x : Char, isWordChar x = false → (c == x) = false := fun x hx => by
    rw [beq_eq_false_iff_ne]; rintro rfl; rw [hx] at h; cases h
  simp only [isComplexChar, hws, ne ':' (by decide +kernel), ne '/' (by decide +kernel), ne '\\' (by decide +kernel),
    ne ';' (by decide +kernel), ne ',' (by decide +kernel), ne '{' (by decide +kernel), ne '}' (by decide +kernel),
    ne '(' (by decide +kernel), ne ')' (by decide +kernel), ne '<' (by decide +kernel), ne '>' (by decide +kernel),
    ne '[' (by decide +kernel), ne ']' (by decide +kernel), Bool.or_self]

theorem isDomKey_of_keyOK {k : Str} (h : keyOK k = true) : isDomKey (.str k) = true := by
  obtain ⟨h1, h2, h3, _⟩ := keyOK_iff.mp h
  simp only [isDomKey, h1, h3, beq_self_eq_true, Bool.true_and, Bool.not_eq_true', List.any_eq_false]
  intro c hc
  rw [isComplex_of_word (List.all_eq_true.mp h2 c hc)]
  simp

/-- a flat dict of good scalars under good names -/
def FlatGood (D : Entries) : Prop :=
  ∀ e ∈ D, (∃ k, e.1 = .str k ∧ keyOK k = true) ∧ ∃ x, e.2 = .leaf x ∧ goodSc x

theorem flat_dom : ∀ (D : Entries), FlatGood D → domEs .native 1 D = true
  | [], _ => rfl
  | (k, v) :: D, h => by
    obtain ⟨⟨k', hk, hok⟩, x, hv, hx⟩ := h (k, v) (by simp)
    simp only at hk hv
    subst hk hv
    simp only [domEs, domV, isDomKey_of_keyOK hok, hx.1, Bool.true_and, Bool.and_eq_true, decide_eq_true_eq]
    exact ⟨by omega, flat_dom D fun e he => h e (by simp [he])⟩

theorem flat_norm : ∀ (D : Entries), FlatGood D → normEs D = D
  | [], _ => rfl
  | (k, v) :: D, h => by
    obtain ⟨_, x, hv, hx⟩ := h (k, v) (by simp)
    simp only at hv
    subst hv
    simp only [normEs, normV, hx.2, flat_norm D fun e he => h e (by simp [he])]

theorem flat_docKeys (D : Entries) (h : FlatGood D) : C01.DocKeysAbsent' D := by
  intro e he
  obtain ⟨⟨k, hk, hok⟩, _⟩ := h e he
  obtain ⟨_, _, _, h4, h5⟩ := keyOK_iff.mp hok
  rw [hk]
  exact ⟨fun h => h4 (Key.str.inj h), fun h => h5 (Key.str.inj h)⟩

theorem flat_count : ∀ (D : Entries), FlatGood D → C02.countQuotedEs (srcOfEs .native D) ≤ D.length
  | [], _ => by simp [srcOfEs, C02.countQuotedEs]
  | (k, v) :: D, h => by
    obtain ⟨_, x, hv, _⟩ := h (k, v) (by simp)
    simp only at hv
    subst hv
    have ih := flat_count D fun e he => h e (by simp [he])
    simp only [srcOfEs, srcOfV, C02.countQuotedEs, List.length_cons]
    have : C02.countQuotedV (.lit (writtenLit .native x)) ≤ 1 := by
      cases writtenLit .native x <;> simp [C02.countQuotedV]
    omega

/-- a flat dict of good scalars under distinct good names is a state a written file can hold (`C16fold.Good`) -/
theorem flat_good {D : Entries} (h : FlatGood D) (hn : (keys D).Nodup) (hlen : D.length ≤ Gen.counterLimit + 1) :
    C16.Good D :=
  ⟨by simp only [DomC01, flat_dom D h, hn, decide_true, Bool.and_self], flat_norm D h, flat_docKeys D h,
    Nat.le_trans (flat_count D h) hlen⟩

/-! ### 3. the first read -/

/-- `_eval_expressions` touches the data and the expression table only -/
theorem evalExpressions_tables (ev : Str → EvalResult) (s s' : SD) (h : evalExpressions ev s = .ok s') :
    s' = { s with data := s'.data, exprs := [] } := by
  unfold evalExpressions at h
  simp only [bind, Except.bind, pure, Except.pure] at h
  split at h
  · cases h
  · split at h
    · cases h
    · split at h
      · cases h
      · cases h; rfl

/-- the hypotheses on the source: a well-formed flat document (the domain of `C05R.C05_read_layout`) in an admissible
    layout, references name entries, the reference graph is acyclic, the literals are values of the writer's domain,
    and a path as in `C01_roundtrip_file` -/
structure SrcOK (doc : Doc) (lay : Lay) (tail : Str) (p : Comps) : Prop where
  wf : DocWF doc = true
  lay : LayOK lay doc.length = true
  tail : tail.all isWs = true
  cnt : countIds doc ≤ Gen.counterLimit + 1
  len : doc.length ≤ Gen.counterLimit + 1
  refs : docRefsOK doc = true
  acyc : docAcyclic doc = true
  lits : litsInDom doc = true
  hj : isJsonPath p = false
  hx : isXmlPath p = false
  hr : resolveSpelled p = p

section resolvable
variable {doc : Doc} {lay : Lay} {tail : Str} {p : Comps} (H : SrcOK doc lay tail p)
include H

theorem pathOK : C16.PathOK p := ⟨H.hj, H.hx, H.hr⟩

/-- the evaluated data: flat, good scalars (ints from the evaluator, the literals, copies of them) under the names -/
theorem evalData_flat {c : Counter} (hc : C13.ValidCounter Gen.counterLimit c) (hres : docResolvable c doc = true) :
    FlatGood (evalData c doc) := by
  obtain ⟨D, S⟩ := exprSD_shape c H.wf hc H.cnt
  intro e he
  simp only [evalData, List.mem_map] at he
  obtain ⟨a, ha, rfl⟩ := he
  refine ⟨⟨a.1, rfl, ((docWF_iff.mp H.wf).1 a ha).1⟩, ?_⟩
  have hs := List.all_eq_true.mp hres a ha
  cases ht : C05.topoVal evalInt (exprSD c doc) (doc.length + 1) a.1 with
  | none => rw [ht] at hs; cases hs
  | some v =>
    obtain ⟨x, hv, hx⟩ := topoVal_good S H.wf H.lits _ _ _ ht
    exact ⟨x, by simp only [Option.getD_some]; exact hv, hx⟩

omit H in
theorem evalData_keys (c : Counter) : keys (evalData c doc) = (doc.map (·.1)).map Key.str := by
  simp [evalData, keys]

theorem evalData_good {c : Counter} (hc : C13.ValidCounter Gen.counterLimit c) (hres : docResolvable c doc = true) :
    C16.Good (evalData c doc) := by
  refine flat_good (evalData_flat H hc hres) ?_ (by simp only [evalData, List.length_map]; exact H.len)
  rw [evalData_keys]
  exact nodup_map_inj (fun a b h => by cases h; rfl) (docWF_iff.mp H.wf).2.1

/-- **the first read**: whenever `DictReader.read` succeeds on the source it returns exactly `evalData c doc` -- every
    name with the value of the specification, no `$` left, all side tables empty -/
theorem first_read {c : Counter} (hc : C13.ValidCounter Gen.counterLimit c) (hres : docResolvable c doc = true)
    {out : ReadOut} (hread : readFile evalInt [(p, .native (renderG doc lay tail))] {} c p = .ok out) :
    out = .ok { data := evalData c doc } (labelAll c doc).1.counter := by
  obtain ⟨s', rfl, h1, h2, h3⟩ := C05_read_layout_evalInt p c H.wf H.lay H.tail hc H.cnt H.refs H.acyc H.hj H.hx H.hr hread
  rw [readFile_layout evalInt p c H.wf H.lay H.tail hc H.cnt H.hj H.hx H.hr] at hread
  cases hev : evalExpressions evalInt (exprSD c doc) with
  | error e => rw [hev] at hread; cases hread
  | ok s'' =>
    rw [hev] at hread
    simp only [Except.map, Except.ok.injEq, ReadOut.ok.injEq] at hread
    have e' : s'' = s' := hread.1
    subst e'
    have htab := evalExpressions_tables evalInt _ _ hev
    have hn : (keys s''.data).Nodup := by
      rw [h2]; exact nodup_map_inj (fun a b h => by cases h; rfl) (docWF_iff.mp H.wf).2.1
    have hdata : s''.data = evalData c doc := by
      have hl : ∀ k ∈ keys s''.data, lookup k s''.data = some
          ((fun k => match k with
            | .str n => (C05.topoVal evalInt (exprSD c doc) (doc.length + 1) n).getD (.leaf .none)
            | .int _ => .leaf .none) k) := by
        intro k hk
        rw [h2] at hk
        simp only [List.mem_map] at hk
        obtain ⟨n, ⟨a, ha, rfl⟩, rfl⟩ := hk
        have hs := List.all_eq_true.mp hres a ha
        cases ht : C05.topoVal evalInt (exprSD c doc) (doc.length + 1) a.1 with
        | none => rw [ht] at hs; cases hs
        | some v =>
          have := h3 _ _ ht
          simp only [ht, Option.getD_some]; exact this
      rw [entries_of_lookups _ _ hn hl, h2]
      simp [evalData]
    rw [htab, hdata]
    rfl

omit H in
/-- the counter after the first read is one that can occur -/
theorem counter_valid {c : Counter} (hc : C13.ValidCounter Gen.counterLimit c) :
    C13.ValidCounter Gen.counterLimit (labelAll c doc).1.counter := by
  rw [labelAll_counter]; exact C02.adv_valid _ hc

end resolvable

/-! ### 4. write–read cycles from a good state -/

/-- what the real writer writes for either SDict holding `D`: the header, then the plain text of `D` -/
theorem write_good {D : Entries} (G : C16.Good D) {sd : SD} (h : sd = { data := D } ∨ sd = C12.hdrSD D) :
    fmtSD .native sd = some (C03.cycleText D) := by
  rcases h with rfl | rfl
  · exact C12.fmtSD_text _
  · exact (C12.write_header G.dom).trans (C12.fmtSD_text _)

/-- reading the text a cycle writes -/
theorem read_good {D : Entries} (G : C16.Good D) (ev : Str → EvalResult) {q : Comps} (Q : C16.PathOK q) {c : Counter}
    (hc : C13.ValidCounter Gen.counterLimit c) :
    ∃ c', C13.ValidCounter Gen.counterLimit c' ∧
      readFile ev [(q, .native (C03.cycleText D))] {} c q = .ok (.ok (C12.hdrSD D) c') :=
  C01.readFile_dumped ev q G.dom G.norm G.doc G.cnt hc Q.hj Q.hx Q.hr

/-- from either state every cycle writes `cycleText D` and reads `hdrSD D` -/
theorem sdCycles_good {D : Entries} (G : C16.Good D) (ev : Str → EvalResult) {q : Comps} (Q : C16.PathOK q) :
    ∀ (n : Nat) (sd : SD) (c : Counter), (sd = { data := D } ∨ sd = C12.hdrSD D) → C13.ValidCounter Gen.counterLimit c →
      C03.sdCycles ev q n sd c = List.replicate n (C03.cycleText D, C12.hdrSD D)
  | 0, _, _, _, _ => rfl
  | n + 1, sd, c, hsd, hc => by
    obtain ⟨c', hv, e⟩ := read_good G ev Q hc
    have ih := sdCycles_good G ev Q n (C12.hdrSD D) c' (Or.inr rfl) hv
    simp only [C03.sdCycles, write_good G hsd, e, ih, List.replicate_succ]

/-! ### 5. `_eval_expressions` when every reference is dangling -/

/-- every reference of every pending expression is `$w`, `w` without bracket, and `w` names no entry -/
def AllDangling (s : SD) : Prop :=
  ∀ e ∈ s.exprs, '$' ∈ e.2.expression ∧
    ∀ r ∈ findRefs e.2.expression, ∃ w, r = '$' :: w ∧ '[' ∉ w ∧ lookup (.str w) s.data = none

def FlatSD (s : SD) : Prop :=
  (∀ d ∈ s.data, C05.isStrKey d.1 = true ∧ d.2.isLeaf = true) ∧ (keys s.data).Nodup ∧ (s.exprs.map (·.1)).Nodup

theorem mapM_none (vars : List (Str × Val)) : ∀ (l : List Str),
    (∀ r ∈ l, resolveRef vars (vars.length + 1) [] r = .none) →
    l.mapM (fun r => match resolveRef vars (vars.length + 1) [] r with
      | .unsupported => Except.error ParseErr.unsupported
      | .none => Except.ok (r, (none : Option Val))
      | .val v => Except.ok (r, some v)) = .ok (l.map fun r => (r, none))
  | [], _ => rfl
  | r :: l, h => by
    rw [List.mapM_cons]
    simp only [h r (by simp), mapM_none vars l (fun r' hr' => h r' (by simp [hr'])), bind, Except.bind, pure, Except.pure,
      List.map_cons]

theorem resolveAll_dangling {s : SD} (F : FlatSD s) (A : AllDangling s) :
    resolveAll s.exprs s.data = .ok ([], (C05.pendRefs s.exprs).length) := by
  have hall : ∀ r ∈ C05.pendRefs s.exprs,
      resolveRef (varsEs s.exprs s.data []) ((varsEs s.exprs s.data []).length + 1) [] r = .none := by
    intro r hr
    obtain ⟨e, he, hre⟩ := C05.mem_pendRefs.mp hr
    obtain ⟨w, rfl, hb, hl⟩ := (A e he).2 r hre
    apply C05.C05_dangling _ _ _ _ hb
    rw [C05.getVar_varsEs s.exprs w s.data [] F.1 F.2.1, hl]
    rfl
  unfold resolveAll
  have := mapM_none (varsEs s.exprs s.data []) (C05.pendRefs s.exprs) hall
  simp only [C05.pendRefs] at this
  simp only [bind, Except.bind, pure, Except.pure]
  have hfm : ∀ (f : Str × Option Val → Option (Str × Val)), (∀ r, f (r, none) = none) → ∀ l : List Str,
      List.filterMap f (l.map fun r => (r, none)) = [] := by
    intro f hf l; induction l with
    | nil => rfl
    | cons a l ih => simp [hf, ih]
  split
  · rename_i err herr
    have h2 := herr.symm.trans this
    cases h2
  · rename_i rs hrs
    have h2 := hrs.symm.trans this
    simp only [Except.ok.injEq] at h2
    subst h2
    rw [hfm _ (fun r => rfl)]
    simp only [List.length_map, List.length_nil, Nat.sub_zero, C05.pendRefs]

theorem tbl_set_self {α} {i : Nat} {a : α} : ∀ {t : Tbl α}, (t.map (·.1)).Nodup → (i, a) ∈ t → Tbl.set i a t = t
  | [], _, h => by cases h
  | (j, b) :: t, hn, h => by
    simp only [List.map_cons, List.nodup_cons] at hn
    by_cases hj : j = i
    · subst hj
      rcases List.mem_cons.mp h with h | h
      · cases h; simp [Tbl.set]
      · exact absurd (List.mem_map_of_mem (f := (·.1)) h) hn.1
    · rcases List.mem_cons.mp h with h | h
      · cases h; exact absurd rfl hj
      · simp only [Tbl.set, hj, if_false, tbl_set_self hn.2 h]

theorem substAll_nil : ∀ (rs : List Str) (x : Str), C05.substAll (C05.rhoOf []) rs x = x
  | [], _ => rfl
  | r :: rs, x => by
    simp only [C05.substAll, List.foldl_cons, C05.rhoOf, List.find?_nil]
    exact substAll_nil rs x

theorem plainOf_nil (T : Str) : C05.plainOf [] T = none := by
  unfold C05.plainOf
  split
  · split <;> rfl
  · rfl

/-- one step of the pass with nothing resolved: the entry keeps its text -/
theorem passStep_nil (ev : Str → EvalResult) (st : ExprSt) (e : Nat × ExprEntry) (hn : (st.exprs.map (·.1)).Nodup)
    (he : e ∈ st.exprs) (hd : '$' ∈ e.2.expression) : C05.passStep ev [] st e = .ok st := by
  have hc : e.2.expression.contains '$' = true := by simpa using hd
  have hset : st.exprs.set e.1 { e.2 with expression := e.2.expression } = st.exprs := tbl_set_self hn he
  unfold C05.passStep
  simp only [plainOf_nil, C05.refFold_eq [] (fun r p h => by cases h), substAll_nil, bind, Except.bind, hc, if_true, hset,
    pure, Except.pure]

theorem foldlM_fix {α β : Type} (f : β → α → Except ParseErr β) (b : β) : ∀ (l : List α), (∀ a ∈ l, f b a = .ok b) →
    l.foldlM f b = .ok b
  | [], _ => rfl
  | a :: l, h => by
    rw [List.foldlM_cons, h a (by simp)]
    exact foldlM_fix f b l (fun a' ha' => h a' (by simp [ha']))

theorem evalPass_nil (ev : Str → EvalResult) (st : ExprSt) (hn : (st.exprs.map (·.1)).Nodup)
    (hd : ∀ e ∈ st.exprs, '$' ∈ e.2.expression) : evalPass ev [] st = .ok st := by
  rw [C05.evalPass_eq]
  exact foldlM_fix _ st st.exprs fun e he => passStep_nil ev st e hn he (hd e he)

/-- **`_eval_expressions` when every reference is dangling**: nothing is resolved, one pass changes nothing, the loop
    stops, and every placeholder is replaced by its expression text -/
theorem evalExpressions_dangling (ev : Str → EvalResult) {s : SD} (F : FlatSD s) (A : AllDangling s) :
    evalExpressions ev s =
      (s.exprs.foldlM (fun d e => substLeafEs e.2.name (.str e.2.expression) 1 d) s.data).map
        fun d => { s with data := d, exprs := [] } := by
  have hres := resolveAll_dangling F A
  have hpass := evalPass_nil ev ⟨s.data, s.exprs⟩ F.2.2 (fun e he => (A e he).1)
  have hloop : evalExpressions.loop ev (s.exprs.length + 2) ⟨s.data, s.exprs⟩ [] (C05.pendRefs s.exprs).length =
      .ok ⟨s.data, s.exprs⟩ := by
    rw [evalExpressions.loop.eq_2]
    simp only [bind, Except.bind, hpass, hres, Nat.lt_irrefl, if_false, pure, Except.pure]
  rw [evalExpressions.eq_1]
  simp only [bind, Except.bind, hres, hloop]
  cases s.exprs.foldlM (fun d e => substLeafEs e.2.name (.str e.2.expression) 1 d) s.data <;> rfl

/-! ### 6. the final substitution, value by value -/

/-- every placeholder replaced by its text -/
def finalV (exprs : Tbl ExprEntry) (v : Val) : Val :=
  exprs.foldl (fun v e => C05.updV e.2.name (.leaf (.str e.2.expression)) v) v

theorem finalV_leaf (exprs : Tbl ExprEntry) : ∀ {v : Val}, v.isLeaf = true → (finalV exprs v).isLeaf = true := by
  induction exprs with
  | nil => intro v h; exact h
  | cons e exprs ih => intro v h; exact ih (C05.updV_leaf _ h rfl)

theorem final_flat : ∀ (exprs : Tbl ExprEntry) (d : Entries), (∀ x ∈ d, x.2.isLeaf = true) →
    exprs.foldlM (fun d e => substLeafEs e.2.name (.str e.2.expression) 1 d) d =
      .ok (d.map fun x => (x.1, finalV exprs x.2))
  | [], d, _ => by
    have : (d.map fun x => (x.1, finalV [] x.2)) = d := by simp [finalV]
    rw [this]; rfl
  | e :: exprs, d, h => by
    rw [List.foldlM_cons, C05.substLeafEs_flat _ _ _ h]
    simp only [bind, Except.bind]
    rw [final_flat exprs _ (fun x hx => by
      obtain ⟨v, hv, hx2⟩ := C05.mem_updEs hx
      rw [hx2]; exact C05.updV_leaf _ (h _ hv) rfl)]
    simp [C05.updEs, finalV, List.map_map, Function.comp_def]

theorem finalV_nonstr (exprs : Tbl ExprEntry) {x : Scalar} (hx : ∀ t, x ≠ .str t) : finalV exprs (.leaf x) = .leaf x := by
  induction exprs with
  | nil => rfl
  | cons e exprs ih =>
    have : C05.updV e.2.name (.leaf (.str e.2.expression)) (.leaf x) = .leaf x := by
      cases x <;> first | rfl | exact absurd rfl (hx _)
    simp only [finalV, List.foldl_cons, this] at ih ⊢
    exact ih

theorem finalV_str (exprs : Tbl ExprEntry) {y : Str} (h : ∀ e ∈ exprs, isInfix e.2.name y = false) :
    finalV exprs (.leaf (.str y)) = .leaf (.str y) := by
  induction exprs with
  | nil => rfl
  | cons e exprs ih =>
    have : C05.updV e.2.name (.leaf (.str e.2.expression)) (.leaf (.str y)) = .leaf (.str y) := by
      simp [C05.updV, h e (by simp)]
    simp only [finalV, List.foldl_cons, this] at ih ⊢
    exact ih (fun e' he' => h e' (by simp [he']))

theorem finalV_ph : ∀ (D : List (Nat × Str × Str)) (i : Nat) (k t : Str), (D.map (·.1)).Nodup →
    (∀ p ∈ D, p.1 ≤ 999999) → (∀ p ∈ D, isInfix kwExpr p.2.2 = false) → (i, k, t) ∈ D →
    finalV (toTbl D) (.leaf (.str (C05.phOf i))) = .leaf (.str t)
  | [], _, _, _, _, _, _, h => by cases h
  | p :: D, i, k, t, hn, hle, hkw, h => by
    simp only [List.map_cons, List.nodup_cons] at hn
    have hi : i < 1000000 := by have := hle _ h; omega
    have hp : p.1 < 1000000 := by have := hle p (by simp); omega
    by_cases hpi : p.1 = i
    · have hpe : p = (i, k, t) := by
        rcases List.mem_cons.mp h with h | h
        · exact h.symm
        · exact absurd (hpi ▸ List.mem_map_of_mem (f := (·.1)) h) hn.1
      subst hpe
      have hself : isInfix (C05.phOf i) (C05.phOf i) = true := C05.isInfix_iff.mpr ⟨[], [], by simp⟩
      have h1 : C05.updV (C05.phOf i) (.leaf (.str t)) (.leaf (.str (C05.phOf i))) = .leaf (.str t) := by
        simp [C05.updV, hself]
      have h2 := finalV_str (toTbl D) (y := t) (fun e he => by
        simp only [toTbl, List.mem_map] at he
        obtain ⟨q, hq, rfl⟩ := he
        exact C05.phOf_not_infix _ (hkw (i, k, t) (by simp)))
      simp only [finalV, toTbl, List.map_cons, List.foldl_cons, h1] at h2 ⊢
      exact h2
    · have hm : (i, k, t) ∈ D := by
        rcases List.mem_cons.mp h with h | h
        · exact absurd (by rw [← h]) hpi
        · exact h
      have h1 : C05.updV (C05.phOf p.1) (.leaf (.str p.2.2)) (.leaf (.str (C05.phOf i))) = .leaf (.str (C05.phOf i)) := by
        have : isInfix (C05.phOf p.1) (C05.phOf i) = false := by
          cases hx : isInfix (C05.phOf p.1) (C05.phOf i) with
          | false => rfl
          | true => exact absurd (C05.phOf_infix hp hi hx) hpi
        simp [C05.updV, this]
      have ih := finalV_ph D i k t hn.2 (fun q hq => hle q (by simp [hq])) (fun q hq => hkw q (by simp [hq])) hm
      simp only [finalV, toTbl, List.map_cons, List.foldl_cons, h1] at ih ⊢
      exact ih

/-! ### 7. a flat document whose references are all dangling -/

/-- what an entry means when its references stay unresolved: the literal's value, the text of the reference or of the
    expression -/
def dvVal : DV → Scalar
  | .lit l => l.den
  | .ref n => .str ('$' :: n)
  | .expr b => .str b

def meanD (doc : Doc) : Entries := doc.map fun e => (.str e.1, .leaf (dvVal e.2))

/-- an unresolved text among the names `ks`: none of its references names an entry (or is the header placeholder
    word), and it carries neither `EXPRESSION` nor the header placeholder word -/
def textOK (ks : List Str) (t : Str) : Bool :=
  !isInfix kwExpr t && !isInfix C12.hdrPh t &&
    (findRefs t).all fun r => !ks.contains (C05.refName r) && C05.refName r != C12.hdrPh

/-- every reference of the document is dangling -/
def docDangling (doc : Doc) : Bool := doc.all fun e => match textOfDV e.2 with
  | some t => textOK (doc.map (·.1)) t
  | none => true

theorem wfExpr_of_text {v : DV} {t : Str} (hv : dvOK v = true) (ht : textOfDV v = some t) : C05.wfExpr t = true := by
  cases v with
  | lit l => cases ht
  | ref n =>
    simp only [textOfDV, Option.some.injEq] at ht
    subst ht
    simp only [dvOK, Bool.and_eq_true, Bool.not_eq_true', List.isEmpty_eq_false_iff] at hv
    exact wfExpr_ref hv.1 hv.2
  | expr b =>
    simp only [textOfDV, Option.some.injEq] at ht
    subst ht
    exact (exprOK_iff.mp hv).1

theorem refs_shape {t : Str} (h : C05.wfExpr t = true) :
    '$' ∈ t ∧ ∀ r ∈ findRefs t, ∃ w, r = '$' :: w ∧ '[' ∉ w ∧ C05.refName r = w := by
  refine ⟨wfExpr_dollar h, ?_⟩
  simp only [C05.wfExpr, Bool.and_eq_true, beq_iff_eq] at h
  obtain ⟨⟨⟨h1, h2⟩, _⟩, _⟩ := h
  intro r hr
  rw [← h1, C05.findRefs_render _ h2] at hr
  simp only [C05.Segs.wf, Bool.and_eq_true] at h2
  obtain ⟨w, rfl, _, hw⟩ := C05.refsOf_isRef _ h2.2 r hr
  exact ⟨w, rfl, C05.allWord_noLb hw, C05.refName_ref hw⟩

theorem dvVal_text {v : DV} {t : Str} (ht : textOfDV v = some t) : dvVal v = .str t := by
  cases v with
  | lit l => cases ht
  | ref n => simp only [textOfDV, Option.some.injEq] at ht; subst ht; rfl
  | expr b => simp only [textOfDV, Option.some.injEq] at ht; subst ht; rfl

theorem fst_unique {α : Type} : ∀ {l : List (Str × α)} {a b : Str × α}, (l.map (·.1)).Nodup → a ∈ l → b ∈ l → a.1 = b.1 → a = b
  | x :: l, a, b, hn, ha, hb, h => by
    simp only [List.map_cons, List.nodup_cons] at hn
    rcases List.mem_cons.mp ha with ha1 | ha1
    · rcases List.mem_cons.mp hb with hb1 | hb1
      · rw [ha1, hb1]
      · have : x.1 ∈ l.map (·.1) := by rw [← ha1, h]; exact List.mem_map_of_mem (f := (·.1)) hb1
        exact absurd this hn.1
    · rcases List.mem_cons.mp hb with hb1 | hb1
      · have : x.1 ∈ l.map (·.1) := by rw [← hb1, ← h]; exact List.mem_map_of_mem (f := (·.1)) ha1
        exact absurd this hn.1
      · exact fst_unique hn.2 ha1 hb1 h

theorem map_eq_of_keys {α β γ : Type} (f : Str × α → γ) (g : Str × β → γ) : ∀ (L : List (Str × α)) (M : List (Str × β)),
    L.map (·.1) = M.map (·.1) → (∀ e ∈ L, ∀ d ∈ M, e.1 = d.1 → f e = g d) → L.map f = M.map g
  | [], [], _, _ => rfl
  | [], _ :: _, h, _ => by cases h
  | _ :: _, [], h, _ => by cases h
  | e :: L, d :: M, h, hfg => by
    simp only [List.map_cons, List.cons.injEq] at h ⊢
    exact ⟨hfg e (by simp) d (by simp) h.1,
      map_eq_of_keys f g L M h.2 (fun e' he' d' hd' => hfg e' (by simp [he']) d' (by simp [hd']))⟩

theorem hdrPh_isPhKey : C05.isPhKey C12.hdrPh = true := by decide +kernel
theorem hdrPh_noExpr : isInfix kwExpr C12.hdrPh = false := by decide +kernel

/-- the data in front of the document's entries: nothing, or the header placeholder entry -/
def preOf (hdr : Bool) : Entries := if hdr then [C12.hdrEntry] else []

/-- **`_eval_expressions` on a parsed flat document whose references are all dangling** (with or without the header
    placeholder entry in front): every entry ends as the text it was written as -/
theorem eval_dangling_doc (ev : Str → EvalResult) {c : Counter} {doc : Doc} {D : List (Nat × Str × Str)}
    (S : Shape c doc D) (hwf : DocWF doc = true) (hd : docDangling doc = true) (hdr : Bool) (B : Tbl Str) :
    evalExpressions ev { data := preOf hdr ++ (exprSD c doc).data, exprs := (exprSD c doc).exprs, blockC := B } =
      .ok { data := preOf hdr ++ meanD doc, blockC := B } := by
  obtain ⟨hall, hkeys, _⟩ := docWF_iff.mp hwf
  have hdata : (exprSD c doc).data = ldata (labelAll c doc).2 := rfl
  have hpreK : ∀ k ∈ keys (preOf hdr), k = .str C12.hdrPh := by
    intro k hk; cases hdr <;> simp [preOf, keys, C12.hdrEntry] at hk ⊢; exact hk
  have hkeyne : ∀ e ∈ doc, e.1 ≠ C12.hdrPh := by
    intro e he h
    have := key_noPhKey (hall e he).1
    rw [h, hdrPh_isPhKey] at this; cases this
  have hdocK : keys (ldata (labelAll c doc).2) = (doc.map (·.1)).map Key.str := by rw [ldata_keys, S.keys_eq]
  -- the pending entries
  have htbl : ∀ e ∈ (exprSD c doc).exprs, ∃ p ∈ D, e = (p.1, ⟨p.2.2, C05.phOf p.1⟩) := by
    intro e he
    rw [S.exprs_eq, toTbl, List.mem_map] at he
    obtain ⟨p, hp, rfl⟩ := he
    exact ⟨p, hp, rfl⟩
  have htext : ∀ p ∈ D, C05.wfExpr p.2.2 = true ∧ isInfix kwExpr p.2.2 = false ∧
      ∀ r ∈ findRefs p.2.2, (doc.map (·.1)).contains (C05.refName r) = false ∧ C05.refName r ≠ C12.hdrPh := by
    intro p hp
    obtain ⟨⟨v, hm, ht⟩, _⟩ := S.bwd p hp
    have h1 := List.all_eq_true.mp hd _ hm
    simp only [ht, textOK, Bool.and_eq_true, Bool.not_eq_true', List.all_eq_true, bne_iff_ne, ne_eq] at h1
    exact ⟨wfExpr_of_text (hall _ hm).2 ht, h1.1.1, fun r hr => h1.2 r hr⟩
  have F : FlatSD { data := preOf hdr ++ (exprSD c doc).data, exprs := (exprSD c doc).exprs, blockC := B } := by
    refine ⟨?_, ?_, ?_⟩
    · intro d hd'
      rcases List.mem_append.mp hd' with h | h
      · cases hdr <;> simp [preOf, C12.hdrEntry] at h
        subst h; exact ⟨rfl, rfl⟩
      · rw [hdata, mem_ldata] at h
        obtain ⟨e, _, rfl⟩ := h
        exact ⟨rfl, rfl⟩
    · show (keys (preOf hdr ++ (exprSD c doc).data)).Nodup
      rw [hdata]
      have hk : keys (preOf hdr ++ ldata (labelAll c doc).2) = keys (preOf hdr) ++ keys (ldata (labelAll c doc).2) := by
        simp [keys]
      rw [hk, hdocK]
      refine List.nodup_append.mpr ⟨by cases hdr <;> simp [preOf, keys], ?_, ?_⟩
      · exact nodup_map_inj (fun a b h => by cases h; rfl) hkeys
      · intro a ha b hb hab
        have h1 := hpreK a ha
        have h2 := hb
        simp only [List.mem_map] at h2
        obtain ⟨k, ⟨e, he, rfl⟩, rfl⟩ := h2
        rw [h1] at hab
        exact hkeyne e he (Key.str.inj hab).symm
    · show ((exprSD c doc).exprs.map (·.1)).Nodup
      rw [S.exprs_eq, toTbl_ids]; exact S.ids_nodup
  have A : AllDangling { data := preOf hdr ++ (exprSD c doc).data, exprs := (exprSD c doc).exprs, blockC := B } := by
    intro e he
    obtain ⟨p, hp, rfl⟩ := htbl e he
    obtain ⟨hw, _, hdang⟩ := htext p hp
    obtain ⟨hdol, hrefs⟩ := refs_shape hw
    refine ⟨hdol, fun r hr => ?_⟩
    obtain ⟨w, rfl, hb, hname⟩ := hrefs r hr
    refine ⟨w, rfl, hb, ?_⟩
    obtain ⟨hnot, hne⟩ := hdang _ hr
    rw [hname] at hnot hne
    rw [C05.lookup_none_iff]
    show Key.str w ∉ keys (preOf hdr ++ (exprSD c doc).data)
    rw [hdata]
    have hk : keys (preOf hdr ++ ldata (labelAll c doc).2) = keys (preOf hdr) ++ keys (ldata (labelAll c doc).2) := by
      simp [keys]
    rw [hk, hdocK, List.mem_append, not_or]
    refine ⟨fun h => hne (Key.str.inj (hpreK _ h)), fun h => ?_⟩
    have h2 := h
    simp only [List.mem_map] at h2
    obtain ⟨k, hk, hkw⟩ := h2
    have : k = w := Key.str.inj hkw
    subst this
    have : (doc.map (·.1)).contains k = true := by simpa using hk
    rw [this] at hnot; cases hnot
  rw [evalExpressions_dangling ev F A]
  simp only
  rw [final_flat _ _ (fun x hx => (F.1 x hx).2)]
  simp only [Except.map]
  -- the values
  have hnoinf : ∀ {y : Str}, isInfix kwExpr y = false → ∀ e ∈ (exprSD c doc).exprs, isInfix e.2.name y = false := by
    intro y hy e he
    obtain ⟨p, _, rfl⟩ := htbl e he
    exact C05.phOf_not_infix _ hy
  have hpre : (preOf hdr).map (fun x => (x.1, finalV (exprSD c doc).exprs x.2)) = preOf hdr := by
    cases hdr
    · rfl
    · simp only [preOf, if_true, List.map_cons, List.map_nil, C12.hdrEntry]
      rw [finalV_str _ (hnoinf hdrPh_noExpr)]
  have hdoc : (ldata (labelAll c doc).2).map (fun x => (x.1, finalV (exprSD c doc).exprs x.2)) = meanD doc := by
    simp only [ldata, List.map_map, meanD]
    refine map_eq_of_keys _ _ _ _ S.keys_eq ?_
    intro e he d hd' hed
    obtain ⟨v, hm, hv⟩ := S.fwd e he
    have hdv : d = (e.1, v) := fst_unique hkeys hd' hm hed.symm
    subst hdv
    simp only [Function.comp, Prod.mk.injEq, true_and]
    rcases hv with ⟨l, w, rfl, e2⟩ | ⟨i, t, ht, hD, e2⟩
    · rw [e2]
      simp only [LV.val, dvVal]
      have hok := lit_okScalar (hall _ hm).2
      cases hx : l.den with
      | str y =>
        rw [hx] at hok
        exact finalV_str _ (hnoinf (usable_str (okScalar_iff.mp hok).1))
      | int z => exact finalV_nonstr _ (fun t => by simp)
      | float z => exact finalV_nonstr _ (fun t => by simp)
      | bool z => exact finalV_nonstr _ (fun t => by simp)
      | none => exact finalV_nonstr _ (fun t => by simp)
    · rw [e2, dvVal_text ht]
      simp only [LV.val]
      rw [S.exprs_eq]
      exact finalV_ph D i e.1 t S.ids_nodup S.ids_le (fun p hp => (htext p hp).2.1) hD
  rw [hdata, List.map_append, hpre, hdoc]

/-! ### 8. the native parser on `nativeHeader ++ document` -/


/-- the lexer state with another block-comment table -/
def withB (B : Tbl Str) (st : LexSt) : LexSt := { st with blockC := B }

theorem lab1_withB (B : Tbl Str) (st : LexSt) (v : DV) : lab1 (withB B st) v = (withB B (lab1 st v).1, (lab1 st v).2) := by
  cases v with
  | lit l => cases l <;> rfl
  | ref n => rfl
  | expr b => rfl

theorem labE_withB (sel : LV → Option Str) (B : Tbl Str) (st : LexSt) (v : LV) :
    labE sel (withB B st) v = (withB B (labE sel st v).1, (labE sel st v).2) := by
  unfold labE
  cases sel v <;> rfl

theorem mapSt_withB {α β : Type} (f : LexSt → α → LexSt × β) (B : Tbl Str)
    (hf : ∀ st v, f (withB B st) v = (withB B (f st v).1, (f st v).2)) :
    ∀ (d : List (Str × α)) (st : LexSt), mapSt f (withB B st) d = (withB B (mapSt f st d).1, (mapSt f st d).2)
  | [], st => rfl
  | (k, v) :: es, st => by
    rw [mapSt_cons, mapSt_cons, hf]
    simp only [mapSt_withB f B hf es (f st v).1]

/-- the three passes from a state that already holds block comments -/
theorem labelAll_withB (B : Tbl Str) (c : Counter) (doc : Doc) :
    mapSt (labE selR)
      (mapSt (labE selE) (mapSt lab1 { counter := c, blockC := B } doc).1 (mapSt lab1 { counter := c, blockC := B } doc).2).1
      (mapSt (labE selE) (mapSt lab1 { counter := c, blockC := B } doc).1 (mapSt lab1 { counter := c, blockC := B } doc).2).2
      = (withB B (labelAll c doc).1, (labelAll c doc).2) := by
  have e0 : ({ counter := c, blockC := B } : LexSt) = withB B { counter := c } := rfl
  rw [e0, mapSt_withB lab1 B (lab1_withB B)]
  simp only
  rw [mapSt_withB (labE selE) B (labE_withB selE B)]
  simp only
  rw [mapSt_withB (labE selR) B (labE_withB selR B)]
  rfl

theorem hdr_front_facts' {doc : Doc} {lay : Lay} {tail : Str} (h : DocWF doc = true) (hl : LayOK lay doc.length = true)
    (ht : tail.all isWs = true) :
    isInfix ['/', '/'] (nativeHeader ++ renderG doc lay tail) = false ∧
    (∀ l ∈ splitLinesKeep (nativeHeader ++ renderG doc lay tail), (dropWs l).head? ≠ some '#') ∧
    isInfix ['/', '*'] ('\n' :: renderG doc lay tail) = false := by
  obtain ⟨m1, m2, _⟩ := renderG_noMarkup h hl ht
  refine ⟨?_, ?_, ?_⟩
  · refine C02.Main.infix2_append (by rw [C12.nativeHeader_eq]; exact C12.hdrChars_noSlashes) m1 ?_
    intro h _
    rw [C12.nativeHeader_split] at h
    simp at h
  · apply C02.Main.noHash_sound
    rw [C02.Main.noHash_append, C12.nativeHeader_eq, C12.hdrChars_noHash.1, C12.hdrChars_noHash.2]
    exact segs_noHash doc lay tail h hl ht true
  · rw [C02.isInfix_cons, m2]
    simp [List.isPrefixOf]

/-- the layout behind the header placeholder word, after newline removal -/
def hdrLay : Lay → Lay
  | [] => []
  | l :: ls => (' ' :: ' ' :: nlmap l.1, nlmap l.2.1, nlmap l.2.2) :: ls.map nlGaps

theorem hdrLay_ok {lay : Lay} {n : Nat} (h : LayOK lay n = true) : LayOK (hdrLay lay) n = true := by
  cases lay with
  | nil => exact h
  | cons l ls =>
    have := layOK_map h
    simp only [LayOK, Bool.and_eq_true, decide_eq_true_eq, List.map_cons, List.all_cons, List.length_cons,
      List.length_map] at this
    simp only [hdrLay, LayOK, Bool.and_eq_true, decide_eq_true_eq, List.all_cons, List.length_cons, List.length_map]
    refine ⟨this.1, ?_, this.2.2⟩
    obtain ⟨g1, g2, g2ne, g3⟩ := gapsOKb_iff.mp this.2.1
    refine gapsOKb_iff.mpr ⟨?_, g2, g2ne, g3⟩
    simp only [List.all_cons, Bool.and_eq_true]
    exact ⟨by decide, by decide, g1⟩

theorem nlmap_hdrPh : nlmap C12.hdrPh = C12.hdrPh := by decide +kernel

/-- newline removal and `strip` on the placeholder word followed by the document -/
theorem normalise_hdr' {doc : Doc} {lay : Lay} {tail : Str} (h : DocWF doc = true) (hne : doc ≠ [])
    (hl : LayOK lay doc.length = true) (ht : tail.all isWs = true) :
    strip (([' '] ++ C12.hdrPh ++ [' '] ++ '\n' :: renderG doc lay tail).map fun ch => if ch == '\n' then ' ' else ch) =
      C12.hdrPh ++ segs DV.text (hdrLay lay) doc := by
  have hall := (docWF_iff.mp h).1
  cases doc with
  | nil => exact absurd rfl hne
  | cons e es =>
    obtain ⟨l, ls, rfl, hg, hls⟩ := layOK_succ hl
    have hm : ([' '] ++ C12.hdrPh ++ [' '] ++ '\n' :: renderG (e :: es) (l :: ls) tail).map
        (fun ch => if ch == '\n' then ' ' else ch) =
        [' '] ++ (C12.hdrPh ++ segs DV.text (hdrLay (l :: ls)) (e :: es)) ++ nlmap tail := by
      have e1 : ([' '] ++ C12.hdrPh ++ [' '] ++ '\n' :: renderG (e :: es) (l :: ls) tail).map
          (fun ch => if ch == '\n' then ' ' else ch) =
          nlmap ([' '] ++ C12.hdrPh ++ [' '] ++ '\n' :: (segs DV.text (l :: ls) (e :: es) ++ tail)) := rfl
      rw [e1]
      have e2 : nlmap ([' '] ++ C12.hdrPh ++ [' '] ++ '\n' :: (segs DV.text (l :: ls) (e :: es) ++ tail)) =
          [' '] ++ nlmap C12.hdrPh ++ [' ', ' '] ++ (nlmap (segs DV.text (l :: ls) (e :: es)) ++ nlmap tail) := by
        simp [nlmap]
      rw [e2, nlmap_hdrPh, nlmap_segs _ _ hall]
      simp [hdrLay, segs_cons, nlGaps]
    rw [hm]
    have ht' : (nlmap tail).all isWs = true := C02.nl_ws_all _ ht
    obtain ⟨x, _, hx, _⟩ : ∃ x y, C12.hdrPh = 'B' :: x ∧ C12.hdrPh = y ++ ['0'] := C12.hdrPh_shape
    have hlen : (ls.map nlGaps).length = es.length := by
      simp only [LayOK, Bool.and_eq_true, decide_eq_true_eq] at hls
      simpa using hls.1
    obtain ⟨y, hy⟩ := segs_last es (ls.map nlGaps)
      (C12.hdrPh ++ (' ' :: ' ' :: nlmap l.1 ++ (e.1 ++ (nlmap l.2.1 ++ (e.2.text ++ nlmap l.2.2))))) hlen
    refine C02.strip_core [' '] _ (nlmap tail) (x ++ segs DV.text (hdrLay (l :: ls)) (e :: es)) y 'B' ';' (by decide) ht'
      (by rw [hx]; rfl) ?_ (by decide) (by decide)
    rw [← hy]
    simp [hdrLay, segs_cons]

theorem hdrPh_noq : '"' ∉ C12.hdrPh := fun h => by have := (C12.hdrPh_chars _ h).2.2.2.1; simp [isQuote] at this
theorem hdrPh_nod : '$' ∉ C12.hdrPh := fun h => (C12.hdrPh_chars _ h).2.2.1 rfl

/-- **the native parser on a file that starts with the library's header and goes on with a well-formed flat document
    with references and expressions** (any admissible layout): the header becomes block comment 0 and the placeholder
    entry in front of the data; the rest is as in `parse_flat_exprs_layout` -- block comments do not draw from the
    global counter -/
theorem parse_hdr_exprs {doc : Doc} {lay : Lay} {tail : Str} (dir : Str) (c : Counter)
    (h : DocWF doc = true) (hne : doc ≠ []) (hl : LayOK lay doc.length = true) (ht : tail.all isWs = true)
    (hc : C13.ValidCounter Gen.counterLimit c) (hn : countIds doc ≤ Gen.counterLimit + 1) :
    parseNative true dir c (nativeHeader ++ renderG doc lay tail) =
      .ok ({ data := C12.hdrEntry :: (exprSD c doc).data, exprs := (exprSD c doc).exprs,
             blockC := [(0, C12.hdrComment)] }, (labelAll c doc).1.counter) := by
  obtain ⟨hall, hkeys, hbod⟩ := docWF_iff.mp h
  obtain ⟨f1, f2, f3⟩ := hdr_front_facts' h hl ht
  rw [C12.front_block true dir c f1 f2 (C12.hdr_blockStage true _ f3)]
  simp only [if_true]
  have hl0 : LayOK (hdrLay lay) doc.length = true := hdrLay_ok hl
  let B : Tbl Str := [(0, C12.hdrComment)]
  let st0 : LexSt := { counter := c, blockC := B }
  -- names for the three passes
  have hd1 : ldocOK (mapSt lab1 st0 doc).2 := pass1_ok h _
  have hl1 : LayOK (hdrLay lay) (mapSt lab1 st0 doc).2.length = true := by rw [mapSt_length]; exact hl0
  have hb1 : (exprBodiesL (mapSt lab1 st0 doc).2).Nodup := by rw [pass1_bodies]; exact hbod
  have hd2 := passE_ok (sel := selE) hd1 (mapSt lab1 st0 doc).1
  have hE2 := passE_noexpr (d := (mapSt lab1 st0 doc).2) (mapSt lab1 st0 doc).1
  have hl2 : LayOK (hdrLay lay) (mapSt (labE selE) (mapSt lab1 st0 doc).1 (mapSt lab1 st0 doc).2).2.length = true := by
    rw [mapSt_length]; exact hl1
  have hd3 : ldocOK (labelAll c doc).2 := labelAll_ok c h
  have ha3 : allDone (labelAll c doc).2 := by
    have := passR_allDone (d := (mapSt (labE selE) (mapSt lab1 { counter := c } doc).1 (mapSt lab1 { counter := c } doc).2).2)
      (mapSt (labE selE) (mapSt lab1 { counter := c } doc).1 (mapSt lab1 { counter := c } doc).2).1
      (passE_noexpr (d := (mapSt lab1 { counter := c } doc).2) (mapSt lab1 { counter := c } doc).1)
    exact this
  have hk3 : ((labelAll c doc).2.map (·.1)).Nodup := by rw [labelAll_keys]; exact hkeys
  have hlen3 : (labelAll c doc).2.length = doc.length := by simp only [labelAll, mapSt_length]
  have hl3 : LayOK (hdrLay lay) (labelAll c doc).2.length = true := by rw [hlen3]; exact hl0
  -- the literal stage
  have hlex : lexLiteralsFuel ((C12.hdrPh ++ segs DV.text (hdrLay lay) doc).length + 1) st0 none
      (C12.hdrPh ++ segs DV.text (hdrLay lay) doc) =
      .ok ((mapSt lab1 st0 doc).1, C12.hdrPh ++ segs LV.text (hdrLay lay) (mapSt lab1 st0 doc).2) := by
    have h1 := lex1_segs doc (hdrLay lay) hall hl0 [] st0 (mapSt lab1 st0 doc).1 []
      (fun fuel prev _ _ => C02.lex_nil fuel _ prev)
    simp only [List.append_nil] at h1
    exact C02.lex_copy C12.hdrPh _ st0 _ _ (fun c hc => (C12.hdrPh_chars c hc).2.2.2.1)
      (fun c hc => (C12.hdrPh_chars c hc).2.2.2.2) h1 _ none (Nat.le_succ _) (by simp)
  -- the expression stage
  have hlexE : lexExpressions (mapSt lab1 st0 doc).1 (C12.hdrPh ++ segs LV.text (hdrLay lay) (mapSt lab1 st0 doc).2) =
      (withB B (labelAll c doc).1, C12.hdrPh ++ segs LV.text (hdrLay lay) (labelAll c doc).2) := by
    rw [lexExpressions_eq, findExprs_segs _ _ hd1 hl1 C12.hdrPh _ hdrPh_noq (Nat.le_succ _),
      foldE_segs _ _ hd1 hl1 hb1 C12.hdrPh _ hdrPh_noq]
    simp only
    have hcr := countR_le (mapSt (labE selE) (mapSt lab1 st0 doc).1 (mapSt lab1 st0 doc).2).2
    have hlen2 : (hdrLay lay).length = (mapSt (labE selE) (mapSt lab1 st0 doc).1 (mapSt lab1 st0 doc).2).2.length := by
      simp only [LayOK, Bool.and_eq_true, decide_eq_true_eq] at hl2; exact hl2.1
    have hsl := segs_length LV.text _ _ hlen2
    rw [lexRefs_segs _ _ hd2 hl2 hE2 C12.hdrPh _ _ hdrPh_nod (by simp only [List.length_append]; omega)]
    rw [labelAll_withB B c doc]
  -- tokens
  have hph := C12.blockPh_tok 0
  have htoks : toksEs (C12.hdrEntry :: treeOf (labelAll c doc).2) = C12.hdrPh :: toksEs (treeOf (labelAll c doc).2) := by
    simp only [C12.hdrEntry, toksEs, C12.hdrPh, hph.2, if_true, List.singleton_append]
  have hden : denEs (C12.hdrEntry :: treeOf (labelAll c doc).2) [] = denEs (treeOf (labelAll c doc).2) [C12.hdrEntry] := by
    simp only [C12.hdrEntry, denEs, C12.hdrPh, hph.2, if_true, setKey]
  have hlenL : (hdrLay lay).length = (labelAll c doc).2.length := by
    simp only [LayOK, Bool.and_eq_true, decide_eq_true_eq] at hl3; exact hl3.1
  have hgl := gapsOK_all _ _ hd3 hl3
  have hhead : (gapsOfLay (hdrLay lay)).headD [] ≠ [] := by
    cases lay with
    | nil =>
      cases doc with
      | nil => exact absurd rfl hne
      | cons e es => simp [LayOK] at hl
    | cons l ls => simp [hdrLay, gapsOfLay]
  have hscan := C02.C02_layout_tolerant_tokens (C12.hdrEntry :: treeOf (labelAll c doc).2) ([] :: gapsOfLay (hdrLay lay)) []
    (by
      simp only [C12.hdrEntry, TokWFEs, C12.hdrPh, hph.2, hph.1, if_true, beq_self_eq_true, Bool.and_self, Bool.true_and]
      exact tokWF_tree _ hd3 ha3)
    (by rw [htoks]; exact C12.gapsOK_lead _ _ _ hgl (Or.inr hhead)) rfl
  have hspread : spread (toksEs (C12.hdrEntry :: treeOf (labelAll c doc).2)) ([] :: gapsOfLay (hdrLay lay)) [] =
      C12.hdrPh ++ segs LV.text (hdrLay lay) (labelAll c doc).2 := by
    rw [htoks]
    simp only [spread, List.nil_append]
    rw [spread_segs _ _ hd3 hlenL]
  rw [hspread, hden] at hscan
  -- the literal table
  obtain ⟨p1, p2, _, _⟩ := pass1_state doc { counter := c }
  have hq : cnt isQuotedDV doc ≤ Gen.counterLimit + 1 := by unfold countIds at hn; omega
  have hnd : ((drawn1 { counter := c } doc).map (·.1)).Nodup := by rw [p2]; exact C13.alloc_nodup hq hc
  have hle : ∀ p ∈ drawn1 { counter := c } doc, p.1 ≤ 999999 := by
    intro p hp
    have : p.1 ∈ alloc Gen.counterLimit (cnt isQuotedDV doc) c := by
      rw [← p2]; exact List.mem_map.mpr ⟨p, hp, rfl⟩
    have := C13.alloc_le hc _ _ this
    rw [limit_eq] at this; exact this
  have hT : (labelAll c doc).1.lits = drawn1 { counter := c } doc := by
    simp only [labelAll]
    rw [(passE_state selR _ _).2.2.2.1, (passE_state selE _ _).2.2.2.1, p1,
      C02.setAll_nodup _ _ (by simpa using hnd)]
    rfl
  have hrel : ∀ e ∈ (labelAll c doc).2, DoneRel (drawn1 { counter := c } doc) e.2 :=
    passE_rel _ (passE_rel _ (pass1_rel _ doc _ (fun e he => (hall e he).2) (fun _ hp => hp)))
  have hkeyne : Key.str C12.hdrPh ∉ (labelAll c doc).2.map fun e => Key.str e.1 := by
    intro hm
    simp only [List.mem_map] at hm
    obtain ⟨e, he, hk⟩ := hm
    have := key_noPhKey (hd3 e he).1
    rw [Key.str.inj hk, hdrPh_isPhKey] at this; cases this
  have hins : insertLiterals (withB B (labelAll c doc).1).lits (denEs (treeOf (labelAll c doc).2) [C12.hdrEntry]) =
      .ok (C12.hdrEntry :: ldata (labelAll c doc).2) := by
    show insertLiterals (labelAll c doc).1.lits _ = _
    rw [hT, denEs_tree _ hd3]
    have hacc : denAcc (fun v => .leaf v.val) (labelAll c doc).2 [C12.hdrEntry] = C12.hdrEntry :: ldata (labelAll c doc).2 := by
      rw [denAcc_nodup _ _ [C12.hdrEntry] (by
        simp only [keys, List.map_cons, List.map_nil, List.singleton_append, List.nodup_cons, C12.hdrEntry]
        refine ⟨hkeyne, ?_⟩
        have : ((labelAll c doc).2.map fun e => Key.str e.1) = ((labelAll c doc).2.map (·.1)).map Key.str := by simp
        rw [this]
        exact nodup_map_inj (fun a b h => by cases h; rfl) hk3)]
      simp [ldata]
    rw [← hacc]
    refine C02.insertLiterals_of_rel _ hnd hle (drawn1_clean doc _ (fun e he => (hall e he).2)) _ _
      (REs_denAcc _ _ ha3 hrel [C12.hdrEntry] [C12.hdrEntry] ?_)
    simp only [C02.REs, C12.hdrEntry]
    exact ⟨_, _, rfl, by simp only [C02.RV]; exact Or.inl ⟨C12.hdrPh_noLit, trivial⟩, rfl⟩
  -- together
  have hP : C12.parseBlockSt st0 ([' '] ++ C12.hdrPh ++ [' '] ++ '\n' :: renderG doc lay tail) =
      .ok (C12.hdrEntry :: ldata (labelAll c doc).2, withB B (labelAll c doc).1) := by
    unfold C12.parseBlockSt
    rw [normalise_hdr' h hne hl ht]
    unfold C12.parseBlockSt'
    simp only [hlex, bind, Except.bind, hlexE, hscan, hins]
    rfl
  show (C12.parseBlockSt st0 _).map _ = _
  rw [hP]
  simp only [Except.map]
  have hfin : C12.finishSD (C12.hdrEntry :: ldata (labelAll c doc).2) (withB B (labelAll c doc).1) =
      ({ data := C12.hdrEntry :: ldata (labelAll c doc).2, exprs := (labelAll c doc).1.exprs, blockC := B },
        (labelAll c doc).1.counter) := by
    have hL : (labelAll c doc).1.lineC = [] ∧ (labelAll c doc).1.incl = [] := by
      have s1 := (pass1_state doc { counter := c }).2.2.2
      have s2 := (passE_state selE (mapSt lab1 { counter := c } doc).2 (mapSt lab1 { counter := c } doc).1).2.2.2.2
      have s3 := (passE_state selR
        (mapSt (labE selE) (mapSt lab1 { counter := c } doc).1 (mapSt lab1 { counter := c } doc).2).2
        (mapSt (labE selE) (mapSt lab1 { counter := c } doc).1 (mapSt lab1 { counter := c } doc).2).1).2.2.2.2
      have e3 : labelAll c doc = mapSt (labE selR)
          (mapSt (labE selE) (mapSt lab1 { counter := c } doc).1 (mapSt lab1 { counter := c } doc).2).1
          (mapSt (labE selE) (mapSt lab1 { counter := c } doc).1 (mapSt lab1 { counter := c } doc).2).2 := rfl
      rw [e3]
      exact ⟨s3.1.trans (s2.1.trans s1.1), s3.2.1.trans (s2.2.1.trans s1.2.1)⟩
    have hv : lookup (.str "_variables".toList) (ldata (labelAll c doc).2) = none := by
      rw [lookup_eq_none_iff, ldata_keys]
      intro hm
      simp only [List.mem_map] at hm
      obtain ⟨k, ⟨a, ha, rfl⟩, hk⟩ := hm
      exact (keyOK_iff.mp (hd3 a ha).1).2.2.2.1 (Key.str.inj hk)
    have hi : lookup (.str "_includes".toList) (ldata (labelAll c doc).2) = none := by
      rw [lookup_eq_none_iff, ldata_keys]
      intro hm
      simp only [List.mem_map] at hm
      obtain ⟨k, ⟨a, ha, rfl⟩, hk⟩ := hm
      exact (keyOK_iff.mp (hd3 a ha).1).2.2.2.2 (Key.str.inj hk)
    simp only [C12.finishSD, withB, hL.1, hL.2]
    rw [C12.clean_single_header _ C12.hdrComment (ldata (labelAll c doc).2) rfl rfl (ldata_noPh hd3) (ldata_nodupV hk3)]
    simp only
    rw [C02.dropDocKeys_id (by rw [C12.lookup_hdr_cons C12.docKey_ne_hdr.1]; exact hv)
      (by rw [C12.lookup_hdr_cons C12.docKey_ne_hdr.2]; exact hi)]
  rw [hfin]
  rfl

/-! ### 9. `DictReader.read` on documents whose references are all dangling -/

theorem countIds_le (doc : Doc) : countIds doc ≤ doc.length := by
  induction doc with
  | nil => exact Nat.le_refl _
  | cons e es ih =>
    simp only [countIds, cnt_cons, List.length_cons] at ih ⊢
    cases e.2 with
    | lit l => cases l <;> simp [isQuotedDV, isExprDV, isRefDV] <;> omega
    | ref n => simp [isQuotedDV, isExprDV, isRefDV]; omega
    | expr b => simp [isQuotedDV, isExprDV, isRefDV]; omega

/-- a source without header: the read returns every entry as the text (or literal value) it was written as -/
theorem readFile_dangling {doc : Doc} {lay : Lay} {tail : Str} (ev : Str → EvalResult) (p : Comps) (c : Counter)
    (h : DocWF doc = true) (hl : LayOK lay doc.length = true) (ht : tail.all isWs = true)
    (hc : C13.ValidCounter Gen.counterLimit c) (hn : countIds doc ≤ Gen.counterLimit + 1) (hd : docDangling doc = true)
    (hj : isJsonPath p = false) (hx : isXmlPath p = false) (hres : resolveSpelled p = p) :
    readFile ev [(p, .native (renderG doc lay tail))] {} c p =
      .ok (.ok { data := meanD doc } (labelAll c doc).1.counter) := by
  obtain ⟨D, S⟩ := exprSD_shape c h hc hn
  rw [readFile_layout ev p c h hl ht hc hn hj hx hres]
  have := eval_dangling_doc ev S h hd false []
  simp only [preOf, Bool.false_eq_true, if_false, List.nil_append] at this
  have e : exprSD c doc = { data := (exprSD c doc).data, exprs := (exprSD c doc).exprs, blockC := [] } := rfl
  rw [e, this]
  rfl

/-- a file the library wrote (header in front): the same, with the header placeholder entry and the header comment -/
theorem readFile_hdr_dangling {doc : Doc} {lay : Lay} {tail : Str} (ev : Str → EvalResult) (p : Comps) (c : Counter)
    (h : DocWF doc = true) (hne : doc ≠ []) (hl : LayOK lay doc.length = true) (ht : tail.all isWs = true)
    (hc : C13.ValidCounter Gen.counterLimit c) (hn : countIds doc ≤ Gen.counterLimit + 1) (hd : docDangling doc = true)
    (hj : isJsonPath p = false) (hx : isXmlPath p = false) (hres : resolveSpelled p = p) :
    readFile ev [(p, .native (nativeHeader ++ renderG doc lay tail))] {} c p =
      .ok (.ok (C12.hdrSD (meanD doc)) (labelAll c doc).1.counter) := by
  obtain ⟨D, S⟩ := exprSD_shape c h hc hn
  have hparse := parse_hdr_exprs (pathStr p.dropLast) c h hne hl ht hc hn
  have hpf : parseFile [(p, .native (nativeHeader ++ renderG doc lay tail))] true c p =
      .ok ({ data := C12.hdrEntry :: (exprSD c doc).data, exprs := (exprSD c doc).exprs,
             blockC := [(0, C12.hdrComment)] }, (labelAll c doc).1.counter) := by
    simp only [parseFile, hx, hres, C01.fs_get_single, hj, hparse]
    rfl
  have hkeys : ((labelAll c doc).2.map (·.1)).Nodup := by
    rw [labelAll_keys]; exact (docWF_iff.mp h).2.1
  have hp := ldata_noPh (labelAll_ok c h)
  have hnd := ldata_nodupV hkeys
  have hcl := C12.clean_single_header
    { data := C12.hdrEntry :: (exprSD c doc).data, exprs := (exprSD c doc).exprs, blockC := [(0, C12.hdrComment)] }
    C12.hdrComment (ldata (labelAll c doc).2) rfl rfl hp hnd
  have hmi := C01.mergeIncludes_clean [(p, .native (nativeHeader ++ renderG doc lay tail))] true
    { data := C12.hdrEntry :: (exprSD c doc).data, exprs := (exprSD c doc).exprs, blockC := [(0, C12.hdrComment)] }
    p.dropLast (labelAll c doc).1.counter rfl hcl (C12.hdr_nodup hp hnd)
  have hev := eval_dangling_doc ev S h hd true [(0, C12.hdrComment)]
  simp only [preOf, if_true, List.singleton_append] at hev
  simp only [readFile, hpf, bind, Except.bind, pure, Except.pure]
  simp only [if_true, hmi, hev]
  rfl


/-! ### 10. the writer on such a dict -/

/-- a value as the writer spells it: literals in the writer's spelling (`writtenLit`), an unresolved text that is
    exactly one reference bare, any other unresolved text in double quotes -/
def respellV : DV → DV
  | .lit l => .lit (writtenLit .native l.den)
  | .ref n => .ref n
  | .expr b => if isReferenceString b then .ref (b.drop 1) else .expr b

def respell (doc : Doc) : Doc := doc.map fun e => (e.1, respellV e.2)

/-- the writer's padding between key and value (level 0) -/
def pad (k : Str) : Str := spaces (max 8 (30 - k.length))

/-- the writer's layout: one entry per line, key padded to column 30 -/
def wLay : Doc → Lay
  | [] => []
  | e :: es => ([], pad e.1, []) :: es.map fun e => (['\n'], pad e.1, [])

def wTail (doc : Doc) : Str := if doc.isEmpty then [] else ['\n']

def lineOf (e : Str × DV) : Str := e.1 ++ (pad e.1 ++ (e.2.text ++ [';']))

theorem pad_ok (k : Str) : (pad k).all isWs = true ∧ pad k ≠ [] := by
  refine ⟨C01.spaces_ws _, ?_⟩
  have : 0 < max 8 (30 - k.length) := by omega
  unfold pad spaces
  intro h
  have := congrArg List.length h
  simp at this

theorem wLay_ok (doc : Doc) : LayOK (wLay doc) doc.length = true := by
  cases doc with
  | nil => rfl
  | cons e es =>
    simp only [LayOK, wLay, Bool.and_eq_true, decide_eq_true_eq, List.length_cons, List.length_map, List.all_cons,
      List.all_map, List.all_eq_true, true_and]
    refine ⟨gapsOKb_iff.mpr ⟨rfl, (pad_ok _).1, (pad_ok _).2, rfl⟩, fun x _ => ?_⟩
    exact gapsOKb_iff.mpr ⟨(by decide : (['\n'] : Str).all isWs = true), (pad_ok _).1, (pad_ok _).2, rfl⟩

theorem wTail_ws (doc : Doc) : (wTail doc).all isWs = true := by
  unfold wTail; split <;> decide

theorem wrest : ∀ (es : Doc), segs DV.text (es.map fun e => (['\n'], pad e.1, [])) es ++ ['\n'] =
    '\n' :: es.flatMap fun e => lineOf e ++ ['\n']
  | [] => rfl
  | e :: es => by
    have ih := wrest es
    rw [List.map_cons, segs_cons]
    simp only [List.append_assoc, List.cons_append, List.nil_append, List.flatMap_cons, lineOf] at ih ⊢
    rw [ih]

/-- the writer's layout of a document, line by line -/
theorem renderG_wLay (doc : Doc) : renderG doc (wLay doc) (wTail doc) = doc.flatMap fun e => lineOf e ++ ['\n'] := by
  cases doc with
  | nil => rfl
  | cons e es =>
    have ih := wrest es
    rw [renderG, wLay, segs_cons]
    simp only [wTail, List.isEmpty_cons, Bool.false_eq_true, if_false, List.append_assoc, List.cons_append,
      List.nil_append, List.flatMap_cons, lineOf] at ih ⊢
    rw [ih]

theorem dropWhile_all {p : Char → Bool} : ∀ (l : Str), (∀ x ∈ l, p x = true) → l.dropWhile p = []
  | [], _ => rfl
  | c :: l, h => by
    rw [List.dropWhile_cons, if_pos (h c (by simp))]
    exact dropWhile_all l (fun x hx => h x (by simp [hx]))

theorem isRef_of_word {n : Str} (hne : n ≠ []) (hw : n.all isWordChar = true) : isReferenceString ('$' :: n) = true := by
  cases n with
  | nil => exact absurd rfl hne
  | cons c r =>
    simp only [List.all_cons, Bool.and_eq_true] at hw
    have : (r.dropWhile fun x => isWordChar x || x == '[' || x == ']') = [] :=
      dropWhile_all r (fun x hx => by simp [List.all_eq_true.mp hw.2 x hx])
    simp [isReferenceString, hw.1, this, atDollar]

/-- `format_string` on a string with `$`: bare if it is exactly one reference, in double quotes otherwise -/
theorem formatString_dollar {s : Str} (h : s.contains '$' = true) :
    formatString .native s = if isReferenceString s then s else dq s := by
  unfold formatString
  simp only [h, if_true]

theorem refString_head {b : Str} (h : isReferenceString b = true) : '$' :: b.drop 1 = b := by
  unfold isReferenceString at h
  split at h
  · rfl
  · cases h

/-- what the writer writes for the value of an entry -/
theorem formatScalar_dvVal {v : DV} (hv : dvOK v = true) : formatScalar .native (dvVal v) = (respellV v).text := by
  cases v with
  | lit l => exact (C01.writtenLit_text l.den).symm
  | ref n =>
    simp only [dvOK, Bool.and_eq_true, Bool.not_eq_true', List.isEmpty_eq_false_iff] at hv
    have hd : ('$' :: n).contains '$' = true := by simp
    simp only [dvVal, respellV, formatScalar, formatString_dollar hd, isRef_of_word hv.1 hv.2, if_true, DV.text]
  | expr b =>
    have hd : b.contains '$' = true := by simpa using wfExpr_dollar (exprOK_iff.mp hv).1
    simp only [dvVal, respellV, formatScalar, formatString_dollar hd]
    cases hr : isReferenceString b with
    | true => simp only [if_true, DV.text, refString_head hr]
    | false => simp [DV.text, dq]

theorem fmtEntries_meanD : ∀ (doc : Doc), (∀ e ∈ doc, keyOK e.1 = true ∧ dvOK e.2 = true) →
    fmtEntries .native 0 (meanD doc) = (respell doc).flatMap fun e => lineOf e ++ ['\n']
  | [], _ => by simp [meanD, respell, fmtEntries]
  | e :: es, h => by
    obtain ⟨hk, hv⟩ := h e (by simp)
    have ih := fmtEntries_meanD es (fun e' he' => h e' (by simp [he']))
    have hkey : formatKey .native (.str e.1) = e.1 := C01.formatKey_eq_keyStr (isDomKey_of_keyOK hk)
    simp only [meanD, List.map_cons, fmtEntries, hkey, respell, List.flatMap_cons] at ih ⊢
    rw [ih, formatScalar_dvVal hv]
    simp [fline, spaces, lineOf, pad]

theorem meanD_noPhKeys {doc : Doc} (h : ∀ e ∈ doc, keyOK e.1 = true) : ∀ k ∈ keys (meanD doc), C07.isPhKey k = false := by
  intro k hk
  simp only [meanD, keys, List.map_map, List.mem_map, Function.comp] at hk
  obtain ⟨e, he, rfl⟩ := hk
  exact C02.Main.typedKey_noPh (keyOK_iff.mp (h e he)).1 (key_facts (h e he)).2.2

theorem lineOf_good {e : Str × DV} (hk : keyOK e.1 = true) (hv : dvOK e.2 = true) :
    C12.goodLineB (lineOf e) = true ∧ ∀ c ∈ lineOf e ++ ['\n'], c ≠ '\r' := by
  have hkc := word_chars (keyOK_iff.mp hk).2.1
  have hvf := vfacts_dv hv
  have hpad : ∀ c ∈ pad e.1, c = ' ' := fun c hc => by
    simp only [pad, spaces, List.mem_replicate] at hc; exact hc.2
  constructor
  · have hrev : (lineOf e).reverse = ';' :: (e.1 ++ (pad e.1 ++ e.2.text)).reverse := by simp [lineOf]
    simp only [C12.goodLineB, hrev, Bool.and_eq_true, Bool.not_eq_true', List.all_eq_true, bne_iff_ne, ne_eq,
      List.mem_reverse, List.mem_append]
    refine ⟨by decide, ?_⟩
    rintro c (hc | hc | hc)
    · exact key_no_nl hk c hc
    · rw [hpad c hc]; decide
    · exact dv_no_nl hv c hc
  · intro c hc
    simp only [lineOf, List.mem_append, List.mem_singleton, List.mem_cons, List.not_mem_nil, or_false] at hc
    rcases hc with (hc | hc | hc | hc) | hc
    · rintro rfl; have := (hkc _ hc).1; revert this; decide
    · rw [hpad c hc]; decide
    · rintro rfl; have := hvf.nolb _ hc; revert this; decide
    · rw [hc]; decide
    · rw [hc]; decide

/-- **the bytes the writer writes for such a dict**: the default header, then the document in the writer's spelling
    and layout -/
theorem fmtSD_meanD {doc : Doc} (h : ∀ e ∈ doc, keyOK e.1 = true ∧ dvOK e.2 = true)
    (h' : ∀ e ∈ respell doc, keyOK e.1 = true ∧ dvOK e.2 = true) :
    fmtSD .native { data := meanD doc } =
      some (nativeHeader ++ renderG (respell doc) (wLay (respell doc)) (wTail (respell doc))) := by
  rw [C12.fmtSD_text]
  congr 2
  rw [show fmtPlain .native (meanD doc) = removeTrailingSpaces (fmtEntries .native 0 (hoistPlaceholders (meanD doc))) from rfl,
    C12.hoist_noPh (meanD_noPhKeys fun e he => (h e he).1), fmtEntries_meanD doc h, renderG_wLay]
  have hlines : ((respell doc).flatMap fun e => lineOf e ++ ['\n']) = ((respell doc).map lineOf).flatMap (· ++ ['\n']) := by
    simp [List.flatMap_map]
  rw [hlines, C01.removeTrailingSpaces_eq]
  have hcr : ∀ c ∈ ((respell doc).map lineOf).flatMap (· ++ ['\n']), c ≠ '\r' := by
    intro c hc
    simp only [List.mem_flatMap, List.mem_map] at hc
    obtain ⟨l, ⟨e, he, rfl⟩, hc⟩ := hc
    exact (lineOf_good (h' e he).1 (h' e he).2).2 c hc
  have h1 := C01.universalNl_solid [] _ hcr
  simp only [List.append_nil] at h1
  rw [h1]
  have hu : universalNl [] = [] := rfl
  rw [hu, List.append_nil]
  have h2 := C12.rts_lines [] ((respell doc).map lineOf) (fun l hl => by
    simp only [List.mem_map] at hl
    obtain ⟨e, he, rfl⟩ := hl
    exact (lineOf_good (h' e he).1 (h' e he).2).1)
  simp only [List.append_nil, C01.rts_nil] at h2
  exact h2

/-! ### 11. respelling changes neither the meaning nor the hypotheses -/

theorem textOf_respellV (v : DV) : textOfDV (respellV v) = textOfDV v := by
  cases v with
  | lit l => rfl
  | ref n => rfl
  | expr b =>
    simp only [respellV]
    split
    · rename_i h; simp only [textOfDV, refString_head h]
    · rfl

theorem respell_keys (doc : Doc) : (respell doc).map (·.1) = doc.map (·.1) := by simp [respell]

theorem respell_dangling (doc : Doc) : docDangling (respell doc) = docDangling doc := by
  simp only [docDangling, respell_keys]
  simp only [respell, List.all_map]
  congr 1
  funext e
  simp only [Function.comp, textOf_respellV]

theorem dvVal_respellV {v : DV} (hv : dvOK v = true) (hl : ∀ l, v = .lit l → isDomScalar .native l.den = true) :
    dvVal (respellV v) = dvVal v := by
  cases v with
  | lit l =>
    simp only [respellV, dvVal]
    rw [C01.den_writtenLit (hl l rfl), C03.normScalar_den hv]
  | ref n => rfl
  | expr b =>
    simp only [respellV]
    split
    · rename_i h; simp only [dvVal, refString_head h]
    · rfl

theorem meanD_respell {doc : Doc} (h : DocWF doc = true) (hl : litsInDom doc = true) : meanD (respell doc) = meanD doc := by
  simp only [meanD, respell, List.map_map]
  apply List.map_congr_left
  intro e he
  simp only [Function.comp, Prod.mk.injEq, true_and, Val.leaf.injEq]
  refine dvVal_respellV ((docWF_iff.mp h).1 e he).2 (fun l hv => ?_)
  have := List.all_eq_true.mp hl e he
  rw [hv] at this
  exact this

/-! ### 12. the header placeholder word does not occur in the written text -/

theorem noInfix_app {p x y : Str} (hx : isInfix p x = false) (hy : isInfix p y = false)
    (h : (∀ c ∈ x, c ∉ p) ∨ (∀ c, y.head? = some c → c ∉ p)) : isInfix p (x ++ y) = false := by
  cases hi : isInfix p (x ++ y) with
  | false => rfl
  | true =>
    rcases C12.infix_append_cases hi with h1 | h1 | ⟨p1, c2, p2, hp, hne, hin, hhd⟩
    · rw [hx] at h1; cases h1
    · rw [hy] at h1; cases h1
    · rcases h with h | h
      · cases p1 with
        | nil => exact absurd rfl hne
        | cons c p1 => exact absurd (by rw [hp]; simp) (h c (hin c (by simp)))
      · exact absurd (by rw [hp]; simp) (h c2 hhd)

theorem hdrPh_seps : ' ' ∉ C12.hdrPh ∧ ';' ∉ C12.hdrPh ∧ '\n' ∉ C12.hdrPh ∧ '"' ∉ C12.hdrPh ∧ '$' ∉ C12.hdrPh := by
  rw [C12.hdrPh_eq]; decide

theorem hdrPh_ne : C12.hdrPh ≠ [] := by rw [C12.hdrPh_eq]; decide

theorem noHdr_single {c : Char} (h : c ∉ C12.hdrPh) : isInfix C12.hdrPh [c] = false := by
  obtain ⟨x, _, hx, _⟩ : ∃ x y, C12.hdrPh = 'B' :: x ∧ C12.hdrPh = y ++ ['0'] := C12.hdrPh_shape
  rw [hx]
  apply C01.not_infix_of_head
  intro hm
  simp only [List.mem_singleton] at hm
  exact h (by rw [← hm, hx]; simp)

theorem noHdr_spaces (n : Nat) : isInfix C12.hdrPh (spaces n) = false := by
  obtain ⟨x, _, hx, _⟩ : ∃ x y, C12.hdrPh = 'B' :: x ∧ C12.hdrPh = y ++ ['0'] := C12.hdrPh_shape
  rw [hx]
  apply C01.not_infix_of_head
  intro hm
  simp only [spaces, List.mem_replicate] at hm
  exact absurd hm.2 (by decide)

theorem noHdr_text {v : DV} (hv : dvOK v = true) (ht : ∀ t, textOfDV v = some t → isInfix C12.hdrPh t = false) :
    isInfix C12.hdrPh v.text = false := by
  cases v with
  | lit l => exact C12.noHdrPh_of_noComment (C12.tok_noComment (lit_tokOK hv)).1
  | ref n => exact ht _ rfl
  | expr b =>
    have hb := ht b rfl
    have e : (DV.expr b).text = ['"'] ++ (b ++ ['"']) := rfl
    rw [e]
    exact noInfix_app (noHdr_single hdrPh_seps.2.2.2.1)
      (noInfix_app hb (noHdr_single hdrPh_seps.2.2.2.1) (Or.inr fun c hc => by
        simp only [List.head?_cons, Option.some.injEq] at hc; rw [← hc]; exact hdrPh_seps.2.2.2.1))
      (Or.inl fun c hc => by simp only [List.mem_singleton] at hc; rw [hc]; exact hdrPh_seps.2.2.2.1)

theorem noHdr_lines : ∀ (doc : Doc), (∀ e ∈ doc, keyOK e.1 = true ∧ isInfix C12.hdrPh e.2.text = false) →
    isInfix C12.hdrPh (doc.flatMap fun e => lineOf e ++ ['\n']) = false
  | [], _ => by
    obtain ⟨x, _, hx, _⟩ : ∃ x y, C12.hdrPh = 'B' :: x ∧ C12.hdrPh = y ++ ['0'] := C12.hdrPh_shape
    rw [hx]; exact C01.not_infix_of_head (by simp)
  | e :: es, h => by
    obtain ⟨hk, hv⟩ := h e (by simp)
    have ih := noHdr_lines es (fun e' he' => h e' (by simp [he']))
    have hkey : isInfix C12.hdrPh e.1 = false :=
      C12.noHdrPh_of_noComment (C02.Main.srcWord_iff.mp (keyOK_iff.mp hk).1).2.1
    have e0 : ((e :: es).flatMap fun e => lineOf e ++ ['\n']) =
        e.1 ++ (pad e.1 ++ (e.2.text ++ ([';'] ++ (['\n'] ++ es.flatMap fun e => lineOf e ++ ['\n'])))) := by
      simp [lineOf]
    rw [e0]
    have hs := hdrPh_seps
    have one : ∀ {c : Char}, c ∉ C12.hdrPh → ∀ x ∈ [c], x ∉ C12.hdrPh := fun hc x hx => by
      simp only [List.mem_singleton] at hx; rw [hx]; exact hc
    have h1 := noInfix_app (noHdr_single hs.2.2.1) ih (Or.inl (one hs.2.2.1))
    have h2 := noInfix_app (noHdr_single hs.2.1) h1 (Or.inl (one hs.2.1))
    have h3 := noInfix_app hv h2 (Or.inr fun c hc => by
      simp only [List.singleton_append, List.head?_cons, Option.some.injEq] at hc; rw [← hc]; exact hs.2.1)
    have h4 : isInfix C12.hdrPh (pad e.1 ++
        (e.2.text ++ ([';'] ++ (['\n'] ++ es.flatMap fun e => lineOf e ++ ['\n'])))) = false :=
      noInfix_app (noHdr_spaces _) h3 (Or.inl fun c hc => by
        simp only [pad, spaces, List.mem_replicate] at hc; rw [hc.2]; exact hs.1)
    exact noInfix_app hkey h4 (Or.inr fun c hc => by
      have hp := (pad_ok e.1).2
      cases hpad : pad e.1 with
      | nil => exact absurd hpad hp
      | cons c0 r =>
        rw [hpad] at hc
        simp only [List.cons_append, List.head?_cons, Option.some.injEq] at hc
        have : c0 ∈ pad e.1 := by rw [hpad]; simp
        simp only [pad, spaces, List.mem_replicate] at this
        rw [← hc, this.2]; exact hs.1)

/-! ### 13. one cycle from either state; all cycles -/

/-- the hypotheses of the unresolved case: a well-formed flat document (as in `C05_read_layout`) all of whose references
    are dangling; it stays well formed in the writer's spelling; the literals are values of the writer's domain -/
structure SrcOKU (doc : Doc) (lay : Lay) (tail : Str) (p : Comps) : Prop where
  wf : DocWF doc = true
  wf' : DocWF (respell doc) = true
  lay : LayOK lay doc.length = true
  tail : tail.all isWs = true
  len : doc.length ≤ Gen.counterLimit + 1
  dang : docDangling doc = true
  lits : litsInDom doc = true
  hj : isJsonPath p = false
  hx : isXmlPath p = false
  hr : resolveSpelled p = p

/-- the bytes every cycle writes -/
def writtenText (doc : Doc) : Str :=
  nativeHeader ++ renderG (respell doc) (wLay (respell doc)) (wTail (respell doc))

section unresolved
variable {doc : Doc} {lay : Lay} {tail : Str} {p : Comps} (H : SrcOKU doc lay tail p)
include H

omit H in
theorem respell_len : (respell doc).length = doc.length := by simp [respell]

theorem noHdr_written : isInfix C12.hdrPh (fmtEntries .native 0 (meanD doc)) = false := by
  rw [fmtEntries_meanD doc (docWF_iff.mp H.wf).1]
  refine noHdr_lines _ (fun e he => ?_)
  obtain ⟨hk, hv⟩ := (docWF_iff.mp H.wf').1 e he
  refine ⟨hk, noHdr_text hv (fun t ht => ?_)⟩
  have hd : docDangling (respell doc) = true := by rw [respell_dangling]; exact H.dang
  have := List.all_eq_true.mp hd e he
  simp only [ht, textOK, Bool.and_eq_true, Bool.not_eq_true'] at this
  exact this.1.2

/-- the writer on the SDict of the first read and on the SDict of every re-read: the same bytes -/
theorem write_unres {sd : SD} (h : sd = { data := meanD doc } ∨ sd = C12.hdrSD (meanD doc)) :
    fmtSD .native sd = some (writtenText doc) := by
  have h0 := fmtSD_meanD (docWF_iff.mp H.wf).1 (docWF_iff.mp H.wf').1
  rcases h with rfl | rfl
  · exact h0
  · obtain ⟨h1, h2⟩ := C12.write_header_gen (meanD doc) (meanD_noPhKeys fun e he => ((docWF_iff.mp H.wf).1 e he).1)
      (noHdr_written H)
    exact (h1.trans h2.symm).trans h0

omit H in
theorem fmtPlain_nil : fmtPlain .native [] = [] := by
  have h1 := fmtSD_meanD (doc := []) (fun e he => by cases he) (fun e he => by cases he)
  rw [show meanD [] = [] from rfl, C12.fmtSD_text] at h1
  have := List.append_cancel_left (Option.some.inj h1)
  exact this

/-- reading the written bytes, counter valid afterwards -/
theorem read_unres (ev : Str → EvalResult) {q : Comps} (Q : C16.PathOK q) {c : Counter}
    (hc : C13.ValidCounter Gen.counterLimit c) :
    ∃ c', C13.ValidCounter Gen.counterLimit c' ∧
      readFile ev [(q, .native (writtenText doc))] {} c q = .ok (.ok (C12.hdrSD (meanD doc)) c') := by
  by_cases hne : doc = []
  · subst hne
    have G : C16.Good [] := ⟨by decide, rfl, (fun e he => by cases he), (by simp [srcOfEs, C02.countQuotedEs])⟩
    obtain ⟨c', hv, hr⟩ := C01.readFile_dumped (c := c) ev q G.dom G.norm G.doc G.cnt hc Q.hj Q.hx Q.hr
    refine ⟨c', hv, ?_⟩
    rw [fmtPlain_nil] at hr
    exact hr
  · have hne' : respell doc ≠ [] := fun h => hne (by simpa [respell] using h)
    have hn : countIds (respell doc) ≤ Gen.counterLimit + 1 :=
      Nat.le_trans (countIds_le _) (by rw [respell_len]; exact H.len)
    have hr := readFile_hdr_dangling ev q c H.wf' hne' (wLay_ok (respell doc)) (wTail_ws (respell doc)) hc hn
      (by rw [respell_dangling]; exact H.dang) Q.hj Q.hx Q.hr
    rw [meanD_respell H.wf H.lits] at hr
    refine ⟨_, ?_, hr⟩
    rw [labelAll_counter]; exact C02.adv_valid _ hc

/-- from either state every cycle writes `writtenText doc` and reads `hdrSD (meanD doc)` -/
theorem sdCycles_unres (ev : Str → EvalResult) {q : Comps} (Q : C16.PathOK q) :
    ∀ (n : Nat) (sd : SD) (c : Counter), (sd = { data := meanD doc } ∨ sd = C12.hdrSD (meanD doc)) →
      C13.ValidCounter Gen.counterLimit c →
      C03.sdCycles ev q n sd c = List.replicate n (writtenText doc, C12.hdrSD (meanD doc))
  | 0, _, _, _, _ => rfl
  | n + 1, sd, c, hsd, hc => by
    obtain ⟨c', hv, e⟩ := read_unres H ev Q hc
    have ih := sdCycles_unres ev Q n (C12.hdrSD (meanD doc)) c' (Or.inr rfl) hv
    simp only [C03.sdCycles, write_unres H hsd, e, ih, List.replicate_succ]

end unresolved


theorem domStr_noDollar {s : Str} (h : isDomScalar .native (.str s) = true) : '$' ∉ s := by
  intro hm
  simp only [isDomScalar, isDomStr, Bool.and_eq_true, List.all_eq_true] at h
  have := (h.1.1.1.1.1.1.1.1.1 _ hm).2
  simp at this

/-! ## property theorems -/

/-! ### A. resolvable reference graphs -/

/-- **C03 with `$`-references and expressions, one cycle** (`DictParser.parse` and the re-read of `parsed.<name>`).
    `doc` is a flat document `key value;` (values: literals, references `$x`, integer expressions `"$a + $b"`) in the
    domain of `C05_read_layout`, acyclic and fully resolvable; `p` the source file in any admissible layout, `q` the
    file the result is written to.  If `DictReader.read(p)` succeeds:
      1. what it returns is `{ data := evalData c doc }`: all side tables empty, every name holds the value of the
         topological specification;
      2. these values are plain scalars of the writer's domain (the literals and the integers `evalInt` returns): no
         `$` is left;
      3. the writer (`fmtSD .native`, as `DictParser.parse` calls it) writes the default header and the plain text of
         the data;
      4. reading that text gives, up to the header placeholder entry (`C01.dropPhEntries`), the data of the first
         read; no expression is pending. -/
theorem C03_expr_reread {doc : Doc} {lay : Lay} {tail : Str} {p q : Comps} (H : SrcOK doc lay tail p)
    (Q : C16.PathOK q) {c : Counter} (hc : C13.ValidCounter Gen.counterLimit c) (hres : docResolvable c doc = true)
    {sd₀ : SD} {c₁ : Counter}
    (hread : readFile evalInt [(p, .native (renderG doc lay tail))] {} c p = .ok (.ok sd₀ c₁)) :
    sd₀ = { data := evalData c doc } ∧
    (∀ e ∈ sd₀.data, ∃ x, e.2 = .leaf x ∧ isDomScalar .native x = true ∧ ∀ s, x = .str s → '$' ∉ s) ∧
    ∃ t sd₁ c₂, fmtSD .native sd₀ = some t ∧ t = nativeHeader ++ fmtPlain .native sd₀.data ∧
      readFile evalInt [(q, .native t)] {} c₁ q = .ok (.ok sd₁ c₂) ∧
      C01.dropPhEntries sd₁.data = sd₀.data ∧ sd₁.exprs = [] := by
  have h0 := first_read H hc hres hread
  simp only [ReadOut.ok.injEq] at h0
  obtain ⟨rfl, rfl⟩ := h0
  have G := evalData_good H hc hres
  obtain ⟨c₂, _, hr⟩ := read_good G evalInt Q (counter_valid (doc := doc) hc)
  refine ⟨rfl, ?_, C03.cycleText (evalData c doc), C12.hdrSD (evalData c doc), c₂, write_good G (Or.inl rfl), rfl, hr,
    C01.dropPh_hdr G.noPh, rfl⟩
  intro e he
  obtain ⟨_, x, hx, hg⟩ := evalData_flat H hc hres e he
  exact ⟨x, hx, hg.1, fun s hs => domStr_noDollar (hs ▸ hg.1)⟩

/-- **C03 with `$`-references and expressions, every number of cycles.**  After the first read, `n` write–read cycles
    with the real writer (`C03.sdCycles`: `fmtSD .native`, then `DictReader.read`) all write the same bytes
    `nativeHeader ++ fmtPlain D` and all read the same SDict `hdrSD D`, `D` the data of the first read; apart from the
    header placeholder entry its data is `D`.  In particular the bytes of cycle 2 are those of cycle 1, and for every
    `n ≥ 1` the data after `n` cycles is the data of the first read. -/
theorem C03_expr_cycles {doc : Doc} {lay : Lay} {tail : Str} {p q : Comps} (H : SrcOK doc lay tail p)
    (Q : C16.PathOK q) {c : Counter} (hc : C13.ValidCounter Gen.counterLimit c) (hres : docResolvable c doc = true)
    {sd₀ : SD} {c₁ : Counter}
    (hread : readFile evalInt [(p, .native (renderG doc lay tail))] {} c p = .ok (.ok sd₀ c₁)) (n : Nat) :
    C03.sdCycles evalInt q n sd₀ c₁ =
      List.replicate n (nativeHeader ++ fmtPlain .native sd₀.data, C12.hdrSD sd₀.data) ∧
    C01.dropPhEntries (C12.hdrSD sd₀.data).data = sd₀.data := by
  have h0 := first_read H hc hres hread
  simp only [ReadOut.ok.injEq] at h0
  obtain ⟨rfl, rfl⟩ := h0
  have G := evalData_good H hc hres
  exact ⟨sdCycles_good G evalInt Q n _ _ (Or.inl rfl) (counter_valid (doc := doc) hc), C01.dropPh_hdr G.noPh⟩

/-- the form the property is stated in: for `n ≥ 1` the last cycle read the data of the first read (up to the header
    placeholder entry), and any two cycles wrote the same bytes -/
theorem C03_expr_cycles_last {doc : Doc} {lay : Lay} {tail : Str} {p q : Comps} (H : SrcOK doc lay tail p)
    (Q : C16.PathOK q) {c : Counter} (hc : C13.ValidCounter Gen.counterLimit c) (hres : docResolvable c doc = true)
    {sd₀ : SD} {c₁ : Counter}
    (hread : readFile evalInt [(p, .native (renderG doc lay tail))] {} c p = .ok (.ok sd₀ c₁)) (n : Nat) (hn : 1 ≤ n) :
    (∃ t sd, (C03.sdCycles evalInt q n sd₀ c₁).getLast? = some (t, sd) ∧ C01.dropPhEntries sd.data = sd₀.data) ∧
    ∀ x ∈ C03.sdCycles evalInt q n sd₀ c₁, ∀ y ∈ C03.sdCycles evalInt q n sd₀ c₁, x.1 = y.1 := by
  obtain ⟨h1, h2⟩ := C03_expr_cycles H Q hc hres hread n
  rw [h1]
  refine ⟨⟨nativeHeader ++ fmtPlain .native sd₀.data, C12.hdrSD sd₀.data, ?_, h2⟩, ?_⟩
  · obtain ⟨m, rfl⟩ : ∃ m, n = m + 1 := ⟨n - 1, by omega⟩
    simp [List.getLast?_replicate]
  · intro x hx y hy
    rw [(List.mem_replicate.mp hx).2, (List.mem_replicate.mp hy).2]

/-! ### A'. the same through the API state machine: `DictParser.parse(src)`, then `DictReader.read(parsed.<name>)` -/

/-- `DictReader.read` (default options) in ANY file system that holds, under `q`, a text the native parser reads as
    `hdrSD D`: the other files do not matter (no include directive) -/
theorem readFile_hdr_anyfs {D : Entries} {c c' : Counter} (ev : Str → EvalResult) (fs : FS) (q : Comps) (text : Str)
    (hget : fs.get (resolveSpelled q) = some (.native text))
    (hparse : parseNative true (pathStr q.dropLast) c text = .ok (C12.hdrSD D, c'))
    (hp : C07.NoPhEs D) (hn : NodupKeysV (.dict D)) (hj : isJsonPath q = false) (hx : isXmlPath q = false) :
    readFile ev fs {} c q = .ok (.ok (C12.hdrSD D) c') := by
  have hcl : (C12.hdrSD D).clean = C12.hdrSD D := C12.clean_single_header _ C12.hdrComment D rfl rfl hp hn
  have hmi := C01.mergeIncludes_clean fs true (C12.hdrSD D) q.dropLast c' rfl hcl (C12.hdr_nodup hp hn)
  have hev := C01.evalExpressions_noexpr ev (C12.hdrSD D) rfl
  have hpf : parseFile fs true c q = .ok (C12.hdrSD D, c') := by
    simp only [parseFile, hx, hget, hj, hparse]
    rfl
  simp only [readFile, hpf, bind, Except.bind, pure, Except.pure]
  simp only [if_true, hmi, hev]
  rfl

/-- **the documented workflow, on the API model.**  The world holds the source file `p`; `DictParser.parse(p)` (any
    mode; the target `q = parsed.<name>` in the same folder does not exist yet and is a native file) reads it, writes
    `q` and returns the evaluated dict; `DictReader.read(q)` in the new world returns, up to the header placeholder
    entry, the same data.  (`parse` hands back the dict after `DictWriter.write` re-typed its string leaves in place:
    `normEs` is the identity on the evaluated data.) -/
theorem C03_expr_parse_api {doc : Doc} {lay : Lay} {tail : Str} {p : Comps} (H : SrcOK doc lay tail p)
    {c : Counter} (hc : C13.ValidCounter Gen.counterLimit c) (hres : docResolvable c doc = true) (mode : Str)
    (Q : C16.PathOK (parseTarget p [] none)) (hfl : flavorOfPath (parseTarget p [] none) = some .native)
    (hne : parseTarget p [] none ≠ p) {sd₀ : SD} {c₁ : Counter}
    (hread : readFile evalInt [(p, .native (renderG doc lay tail))] {} c p = .ok (.ok sd₀ c₁)) :
    ∃ c₂,
      apiStep evalInt { fs := [(p, .native (renderG doc lay tail))], c := c } (.parse p {} mode none) =
        ({ fs := [(p, .native (renderG doc lay tail)),
                  (parseTarget p [] none, .native (nativeHeader ++ fmtPlain .native sd₀.data))], c := c₁ }, .data sd₀) ∧
      apiStep evalInt { fs := [(p, .native (renderG doc lay tail)),
                  (parseTarget p [] none, .native (nativeHeader ++ fmtPlain .native sd₀.data))], c := c₁ }
          (.read (parseTarget p [] none) {}) =
        ({ fs := [(p, .native (renderG doc lay tail)),
                  (parseTarget p [] none, .native (nativeHeader ++ fmtPlain .native sd₀.data))], c := c₂ },
         .data (C12.hdrSD sd₀.data)) ∧
      C01.dropPhEntries (C12.hdrSD sd₀.data).data = sd₀.data := by
  have h0 := first_read H hc hres hread
  simp only [ReadOut.ok.injEq] at h0
  obtain ⟨rfl, rfl⟩ := h0
  have G := evalData_good H hc hres
  have hv : C13.ValidCounter Gen.counterLimit (labelAll c doc).1.counter := counter_valid hc
  obtain ⟨c₂, _, hparse⟩ := C12.read_dumped (c := (labelAll c doc).1.counter)
    (pathStr (parseTarget p [] none).dropLast) G.dom G.norm G.doc G.cnt hv
  have hgp : FS.get [(p, FileBody.native (renderG doc lay tail))] p = some (.native (renderG doc lay tail)) :=
    C01.fs_get_single _ _
  have hgq : FS.get [(p, FileBody.native (renderG doc lay tail))] (parseTarget p [] none) = none := by
    have : (p == parseTarget p [] none) = false := by simpa using (fun h : p = parseTarget p [] none => hne h.symm)
    simp [FS.get, List.find?, this]
  have hwt : writeText evalInt [(p, FileBody.native (renderG doc lay tail))] (parseTarget p [] none) mode false
      (.sd { data := evalData c doc }) (labelAll c doc).1.counter =
      .ok (nativeHeader ++ fmtPlain .native (evalData c doc), (labelAll c doc).1.counter) := by
    simp only [writeText, hfl, Q.hr, hgq, Arg.retype, G.norm, Bool.false_eq_true, if_false, fmtArg]
    rw [C12.fmtSD_text]
  have hset : FS.set [(p, FileBody.native (renderG doc lay tail))] (parseTarget p [] none)
      (.native (nativeHeader ++ fmtPlain .native (evalData c doc))) =
      [(p, .native (renderG doc lay tail)), (parseTarget p [] none, .native (nativeHeader ++ fmtPlain .native (evalData c doc)))] := by
    have : (p == parseTarget p [] none) = false := by simpa using (fun h : p = parseTarget p [] none => hne h.symm)
    simp [FS.set, this]
  refine ⟨c₂, ?_, ?_, C01.dropPh_hdr G.noPh⟩
  · simp only [apiStep, H.hr, hgp, hread, writeTo, hwt, Q.hr, hset, G.norm]
  · have hget2 : FS.get [(p, FileBody.native (renderG doc lay tail)),
        (parseTarget p [] none, .native (nativeHeader ++ fmtPlain .native (evalData c doc)))]
        (resolveSpelled (parseTarget p [] none)) = some (.native (nativeHeader ++ fmtPlain .native (evalData c doc))) := by
      have : (p == parseTarget p [] none) = false := by simpa using (fun h : p = parseTarget p [] none => hne h.symm)
      simp [Q.hr, FS.get, List.find?, this]
    have hr2 := readFile_hdr_anyfs evalInt _ (parseTarget p [] none) _ hget2 hparse G.noPh G.nodup Q.hj Q.hx
    simp only [apiStep, hget2, hr2]

/-! ### B. unresolved references (dangling, cyclic) -/

/-- the tables of a first read of a flat document: only the data are not empty -/
theorem read_tables {doc : Doc} {lay : Lay} {tail : Str} (ev : Str → EvalResult) (p : Comps) (c : Counter)
    (h : DocWF doc = true) (hl : LayOK lay doc.length = true) (ht : tail.all isWs = true)
    (hc : C13.ValidCounter Gen.counterLimit c) (hn : countIds doc ≤ Gen.counterLimit + 1)
    (hj : isJsonPath p = false) (hx : isXmlPath p = false) (hres : resolveSpelled p = p) {sd₀ : SD} {c₁ : Counter}
    (hread : readFile ev [(p, .native (renderG doc lay tail))] {} c p = .ok (.ok sd₀ c₁)) :
    sd₀ = { data := sd₀.data } ∧ c₁ = (labelAll c doc).1.counter := by
  rw [readFile_layout ev p c h hl ht hc hn hj hx hres] at hread
  cases hev : evalExpressions ev (exprSD c doc) with
  | error e => rw [hev] at hread; cases hread
  | ok s' =>
    rw [hev] at hread
    simp only [Except.map, Except.ok.injEq, ReadOut.ok.injEq] at hread
    obtain ⟨rfl, rfl⟩ := hread
    exact ⟨evalExpressions_tables ev _ _ hev, rfl⟩

/-- **C03 with unresolved references, full statement** (FALSE as it stands: `C03_expr_unresolved_statement_false`).
    For every well-formed flat document (domain of `parse_flat_exprs_layout`; references may be dangling or cyclic,
    expressions partly resolvable) whose literals are values of the writer's domain: whenever the first read succeeds,
    writing its result with the real writer and reading the written file gives, up to the header placeholder entry, the
    data of the first read. -/
def C03_expr_unresolved_statement : Prop :=
  ∀ (doc : Doc) (lay : Lay) (tail : Str) (p q : Comps) (c c₁ : Counter) (sd₀ : SD),
    DocWF doc = true → LayOK lay doc.length = true → tail.all isWs = true →
    countIds doc ≤ Gen.counterLimit + 1 → litsInDom doc = true → C16.PathOK p → C16.PathOK q →
    C13.ValidCounter Gen.counterLimit c →
    readFile evalInt [(p, .native (renderG doc lay tail))] {} c p = .ok (.ok sd₀ c₁) →
    ∃ t sd₁ c₂, fmtSD .native sd₀ = some t ∧ readFile evalInt [(q, .native t)] {} c₁ q = .ok (.ok sd₁ c₂) ∧
      C01.dropPhEntries sd₁.data = sd₀.data

/-! #### the refutation: an unresolved expression whose text, after the resolvable references were substituted, begins
    with `;`.  Source (Python: the text of the file; `⎵²⁹` = 29 blanks, the writer's padding behind a one-letter key):

        s ';';
        a "$s b⎵²⁹$c; d⎵²⁹";
        x "$y + 1";
        b $c;
        d "$z + 1";

    `c`, `y`, `z` are not defined.  First read: `s = ';'`, `a = '; b⎵²⁹$c; d⎵²⁹'` (`$s` substituted, `$c` left),
    `x = '$y + 1'`, `b = '$c'`, `d = '$z + 1'`.  The parsed file holds the line `a  "; b⎵²⁹$c; d⎵²⁹";` -- and the very
    same characters `"; b⎵²⁹$c; d⎵²⁹"` stand between `x`'s closing quote and `d`'s opening quote (line ends count as
    blanks).  `_extract_expressions` replaces every occurrence of a matched text (`str.replace`): the entries `x`, `b`,
    `d` are swallowed, the second read returns `s` and `a` only. -/

def exW : Doc := [("s".toList, .lit (.quoted '\'' ";".toList)),
  ("a".toList, .expr ("$s b".toList ++ List.replicate 29 ' ' ++ "$c; d".toList ++ List.replicate 29 ' ')),
  ("x".toList, .expr "$y + 1".toList), ("b".toList, .ref "c".toList), ("d".toList, .expr "$z + 1".toList)]

/-- the data of the first read -/
def exWD0 : Entries :=
  [(.str "s".toList, .leaf (.str ";".toList)),
   (.str "a".toList, .leaf (.str ("; b".toList ++ List.replicate 29 ' ' ++ "$c; d".toList ++ List.replicate 29 ' '))),
   (.str "x".toList, .leaf (.str "$y + 1".toList)), (.str "b".toList, .leaf (.str "$c".toList)),
   (.str "d".toList, .leaf (.str "$z + 1".toList))]

/-- the data of the second read (without the header placeholder entry) -/
def exWD1 : Entries :=
  [(.str "s".toList, .leaf (.str ";".toList)),
   (.str "a".toList, .leaf (.str ("; b".toList ++ List.replicate 29 ' ' ++ "$c; d".toList ++ List.replicate 29 ' ')))]

/-- what the writer writes behind the header -/
def exWText : Str :=
  ("s                             ';';\n" ++
   "a                             \"; b                             $c; d                             \";\n" ++
   "x                             \"$y + 1\";\n" ++
   "b                             $c;\n" ++
   "d                             \"$z + 1\";\n").toList

def exP : Comps := ["w".toList, "case".toList]
def exQ : Comps := ["w".toList, "parsed.case".toList]

theorem exW_wf : DocWF exW = true := by decide +kernel

theorem exW_first : C05.readData (readFile evalInt [(exP, .native (render exW))] {} none exP) = some exWD0 := by
  decide +kernel

theorem exW_written : fmtPlain .native exWD0 = exWText := by
  have hh : hoistPlaceholders exWD0 = exWD0 := by decide +kernel
  rw [show fmtPlain .native exWD0 = removeTrailingSpaces (fmtEntries .native 0 (hoistPlaceholders exWD0)) from rfl, hh]
  simp only [exWD0, fmtEntries, formatKey, formatScalar]
  decide +kernel

theorem exW_second :
    (C05.readData (readFile evalInt [(exQ, .native (C12.nativeHeaderChars ++ exWText))] {} (some 4) exQ)).map
      C01.dropPhEntries = some exWD1 := by
  decide +kernel

theorem C03_expr_unresolved_statement_false : ¬ C03_expr_unresolved_statement := by
  intro S
  have hcnt : countIds exW ≤ Gen.counterLimit + 1 := Nat.le_trans (countIds_le _) (by decide)
  have h1 := exW_first
  rw [render_eq] at h1
  cases hr : readFile evalInt [(exP, .native (renderG exW (fixedLay exW) (fixedTail exW)))] {} none exP with
  | error e => rw [hr] at h1; simp [C05.readData] at h1
  | ok out =>
    cases out with
    | exit1 => rw [hr] at h1; simp [C05.readData] at h1
    | ok sd₀ c₁ =>
      rw [hr] at h1
      simp only [C05.readData, Option.some.injEq] at h1
      obtain ⟨htab, hc₁⟩ := read_tables evalInt exP none exW_wf (fixedLay_ok exW) (fixedTail_ws exW) (Or.inl rfl) hcnt
        (by decide) (by decide) (by decide) hr
      have hc4 : (labelAll none exW).1.counter = some 4 := by decide +kernel
      obtain ⟨t, sd₁, c₂, hw, hr2, hd⟩ := S exW (fixedLay exW) (fixedTail exW) exP exQ none c₁ sd₀ exW_wf (fixedLay_ok exW)
        (fixedTail_ws exW) hcnt (by decide +kernel) ⟨by decide, by decide, by decide⟩ ⟨by decide, by decide, by decide⟩
        (Or.inl rfl) hr
      rw [htab, h1, C12.fmtSD_text, exW_written, C12.nativeHeader_eq] at hw
      have ht := Option.some.inj hw
      have h2 := exW_second
      rw [ht, ← hc4, ← hc₁, hr2] at h2
      simp only [C05.readData, Option.map_some, Option.some.injEq] at h2
      rw [hd, h1] at h2
      exact absurd h2 (by decide)

/-! #### what holds: documents all of whose references are dangling; results of a first read of that form -/

theorem meanD_noPh {doc : Doc} (h : ∀ e ∈ doc, keyOK e.1 = true) : C07.NoPhEs (meanD doc) := by
  rw [C07.noPhEs_iff]
  intro e he
  simp only [meanD, List.mem_map] at he
  obtain ⟨a, ha, rfl⟩ := he
  exact ⟨C02.Main.typedKey_noPh (keyOK_iff.mp (h a ha)).1 (key_facts (h a ha)).2.2, trivial⟩

/-- **C03, unresolved references, one cycle -- proved for documents all of whose references are dangling**
    (`SrcOKU`: `d $nope;`, `e "$p + 1";`, `f "$p";` next to literals; for every evaluator).
      1. the first read returns `meanD doc`: every unresolved entry keeps its text (`$nope`, `$p + 1`, `$p`), the
         literals their values;
      2. the writer writes the header and the document in its own spelling (`respell`: a text that is exactly one
         reference bare, any other text with `$` in double quotes) and layout;
      3. reading that file gives the same data with the header placeholder entry in front. -/
theorem C03_expr_unresolved_partial {doc : Doc} {lay : Lay} {tail : Str} {p q : Comps} (H : SrcOKU doc lay tail p)
    (Q : C16.PathOK q) (ev : Str → EvalResult) {c : Counter} (hc : C13.ValidCounter Gen.counterLimit c) :
    ∃ c₁ c₂,
      readFile ev [(p, .native (renderG doc lay tail))] {} c p = .ok (.ok { data := meanD doc } c₁) ∧
      fmtSD .native { data := meanD doc } = some (writtenText doc) ∧
      readFile ev [(q, .native (writtenText doc))] {} c₁ q = .ok (.ok (C12.hdrSD (meanD doc)) c₂) ∧
      C01.dropPhEntries (C12.hdrSD (meanD doc)).data = meanD doc := by
  have hn : countIds doc ≤ Gen.counterLimit + 1 := Nat.le_trans (countIds_le _) H.len
  have h1 := readFile_dangling (lay := lay) (tail := tail) ev p c H.wf H.lay H.tail hc hn H.dang H.hj H.hx H.hr
  have hv : C13.ValidCounter Gen.counterLimit (labelAll c doc).1.counter := counter_valid hc
  obtain ⟨c₂, _, h2⟩ := read_unres H ev Q hv
  exact ⟨_, c₂, h1, write_unres H (Or.inl rfl), h2,
    C01.dropPh_hdr (meanD_noPh fun e he => ((docWF_iff.mp H.wf).1 e he).1)⟩

/-- **… every number of cycles**: after the first read, `n` write–read cycles with the real writer all write the same
    bytes and all read the data of the first read (with the header placeholder entry) -/
theorem C03_expr_unresolved_cycles_partial {doc : Doc} {lay : Lay} {tail : Str} {p q : Comps} (H : SrcOKU doc lay tail p)
    (Q : C16.PathOK q) (ev : Str → EvalResult) {c : Counter} (hc : C13.ValidCounter Gen.counterLimit c) (n : Nat) :
    ∃ c₁,
      readFile ev [(p, .native (renderG doc lay tail))] {} c p = .ok (.ok { data := meanD doc } c₁) ∧
      C03.sdCycles ev q n { data := meanD doc } c₁ = List.replicate n (writtenText doc, C12.hdrSD (meanD doc)) ∧
      C01.dropPhEntries (C12.hdrSD (meanD doc)).data = meanD doc := by
  have hn : countIds doc ≤ Gen.counterLimit + 1 := Nat.le_trans (countIds_le _) H.len
  have h1 := readFile_dangling (lay := lay) (tail := tail) ev p c H.wf H.lay H.tail hc hn H.dang H.hj H.hx H.hr
  exact ⟨_, h1, sdCycles_unres H ev Q n _ _ (Or.inl rfl) (counter_valid hc),
    C01.dropPh_hdr (meanD_noPh fun e he => ((docWF_iff.mp H.wf).1 e he).1)⟩

/-- **mixed documents, given the first read**: whatever source the SDict `{ data := meanD r }` was read from -- `r` the
    *residual document*: the evaluated entries as literals, the unresolved ones as the texts they kept, all references
    of `r` dangling --, every cycle writes the same bytes and reads that data again.  (For `a 2; b $a; c "$a * $b + 1";
    d $nope; e "$p + 1";` the residual document is `a 2; b 2; c 5; d $nope; e "$p + 1";`, see `exM_cycles`.) -/
theorem C03_expr_residual_cycles {r : Doc} {q : Comps} (hwf : DocWF r = true) (hwf' : DocWF (respell r) = true)
    (hlen : r.length ≤ Gen.counterLimit + 1) (hd : docDangling r = true) (hl : litsInDom r = true)
    (Q : C16.PathOK q) (ev : Str → EvalResult) {c : Counter} (hc : C13.ValidCounter Gen.counterLimit c) (n : Nat) :
    C03.sdCycles ev q n { data := meanD r } c = List.replicate n (writtenText r, C12.hdrSD (meanD r)) ∧
    C01.dropPhEntries (C12.hdrSD (meanD r)).data = meanD r := by
  have H : SrcOKU r (wLay r) (wTail r) q := ⟨hwf, hwf', wLay_ok r, wTail_ws r, hlen, hd, hl, Q.hj, Q.hx, Q.hr⟩
  exact ⟨sdCycles_unres H ev Q n _ _ (Or.inl rfl) hc, C01.dropPh_hdr (meanD_noPh fun e he => ((docWF_iff.mp hwf).1 e he).1)⟩

/-- **the corrected full statement** (kept visible; NOT proved in general).  What is missing for a proof:
    (1) `_eval_expressions` on a reference graph with dangling or cyclic parts -- `C05_complete_acyclic'` asks for
    references that name entries and an acyclic graph -- i.e. that the first read of a mixed source returns `meanD r`
    for a residual document `r`; (2) the re-read of cyclic references (`a $b; b $a;`), where the references do name
    entries.  With the residual document given, `C03_expr_residual_cycles` is the proof; for sources all of whose
    references are dangling, `C03_expr_unresolved_cycles_partial`.  The extra hypothesis compared with
    `C03_expr_unresolved_statement`: the first read's result, as the writer spells it (`respell r`), is again a
    well-formed document -- in particular no unresolved text begins with `;`, and the texts are pairwise distinct. -/
def C03_expr_unresolved_corrected : Prop :=
  ∀ (doc : Doc) (lay : Lay) (tail : Str) (p q : Comps) (c c₁ : Counter) (sd₀ : SD) (r : Doc),
    DocWF doc = true → LayOK lay doc.length = true → tail.all isWs = true →
    countIds doc ≤ Gen.counterLimit + 1 → litsInDom doc = true → C16.PathOK p → C16.PathOK q →
    C13.ValidCounter Gen.counterLimit c →
    readFile evalInt [(p, .native (renderG doc lay tail))] {} c p = .ok (.ok sd₀ c₁) →
    sd₀.data = meanD r → DocWF r = true → DocWF (respell r) = true → litsInDom r = true →
    ∀ n, ∃ t sd₁, C03.sdCycles evalInt q n sd₀ c₁ = List.replicate n (t, sd₁) ∧ C01.dropPhEntries sd₁.data = sd₀.data

/-! ## non-vacuity -/

/-- `a 2; b $a; c "$a * $b + 1"; s 'x y';` -/
def exR : Doc :=
  [("a".toList, .lit (.bare "2".toList)), ("b".toList, .ref "a".toList), ("c".toList, .expr "$a * $b + 1".toList),
   ("s".toList, .lit (.quoted '\'' "x y".toList))]

/-- a loose layout: tabs, blank lines, CR LF, two entries on one line -/
def exRLay : Lay := [(['\n', ' '], ['\t'], [' ']), ([' '], [' ', ' '], []), (['\n'], ['\n', ' '], ['\r', '\n']), (['\n', '\n'], [' '], [])]

theorem exR_text : renderG exR exRLay "  \n".toList =
    "\n a\t2 ; b  $a;\nc\n \"$a * $b + 1\"\r\n;\n\ns 'x y';  \n".toList := by decide +kernel

theorem exR_ok : SrcOK exR exRLay "  \n".toList exP :=
  ⟨by decide +kernel, by decide, by decide, by decide +kernel, by decide, by decide +kernel, by decide +kernel,
   by decide +kernel, by decide, by decide, by decide⟩

theorem exQ_ok : C16.PathOK exQ := ⟨by decide, by decide, by decide⟩

theorem exR_resolvable : docResolvable none exR = true := by decide +kernel

def exRData : Entries :=
  [(.str "a".toList, .leaf (.int 2)), (.str "b".toList, .leaf (.int 2)), (.str "c".toList, .leaf (.int 5)),
   (.str "s".toList, .leaf (.str "x y".toList))]

theorem exR_evalData : evalData none exR = exRData := by decide +kernel

/-- the first read succeeds on the example (kernel evaluation of the whole reader) -/
theorem exR_read_ok : ∃ sd₀ c₁,
    readFile evalInt [(exP, .native (renderG exR exRLay "  \n".toList))] {} none exP = .ok (.ok sd₀ c₁) := by
  have h : C05.readData (readFile evalInt [(exP, .native (renderG exR exRLay "  \n".toList))] {} none exP) =
      some exRData := by decide +kernel
  cases hr : readFile evalInt [(exP, .native (renderG exR exRLay "  \n".toList))] {} none exP with
  | error e => rw [hr] at h; simp [C05.readData] at h
  | ok out =>
    cases out with
    | exit1 => rw [hr] at h; simp [C05.readData] at h
    | ok sd c => exact ⟨sd, c, rfl⟩

/-- the theorems on the example: the source in the loose layout is read as `a = 2, b = 2, c = 5, s = 'x y'`; three cycles
    write the same bytes and read that data again -/
theorem exR_cycles : ∃ c₁,
    readFile evalInt [(exP, .native "\n a\t2 ; b  $a;\nc\n \"$a * $b + 1\"\r\n;\n\ns 'x y';  \n".toList)] {} none exP =
      .ok (.ok { data := exRData } c₁) ∧
    C03.sdCycles evalInt exQ 3 { data := exRData } c₁ =
      List.replicate 3 (nativeHeader ++ fmtPlain .native exRData, C12.hdrSD exRData) ∧
    C01.dropPhEntries (C12.hdrSD exRData).data = exRData := by
  obtain ⟨sd₀, c₁, hread⟩ := exR_read_ok
  obtain ⟨h0, _⟩ := C03_expr_reread exR_ok exQ_ok (Or.inl rfl) exR_resolvable hread
  obtain ⟨h1, h2⟩ := C03_expr_cycles exR_ok exQ_ok (Or.inl rfl) exR_resolvable hread 3
  rw [h0, exR_evalData] at h1 h2 hread
  rw [exR_text] at hread
  exact ⟨c₁, hread, h1, h2⟩

theorem exQ_target : parseTarget exP [] none = exQ := by decide +kernel

/-- `DictParser.parse("/w/case")` writes `/w/parsed.case`; `DictReader.read("/w/parsed.case")` returns the evaluated
    data again -/
theorem exR_api (mode : Str) : ∃ c₁ c₂,
    apiStep evalInt { fs := [(exP, .native (renderG exR exRLay "  \n".toList))], c := none } (.parse exP {} mode none) =
      ({ fs := [(exP, .native (renderG exR exRLay "  \n".toList)), (exQ, .native (nativeHeader ++ fmtPlain .native exRData))],
         c := c₁ }, .data { data := exRData }) ∧
    apiStep evalInt { fs := [(exP, .native (renderG exR exRLay "  \n".toList)),
        (exQ, .native (nativeHeader ++ fmtPlain .native exRData))], c := c₁ } (.read exQ {}) =
      ({ fs := [(exP, .native (renderG exR exRLay "  \n".toList)), (exQ, .native (nativeHeader ++ fmtPlain .native exRData))],
         c := c₂ }, .data (C12.hdrSD exRData)) := by
  obtain ⟨sd₀, c₁, hread⟩ := exR_read_ok
  obtain ⟨h0, _⟩ := C03_expr_reread exR_ok exQ_ok (Or.inl rfl) exR_resolvable hread
  obtain ⟨c₂, h1, h2, _⟩ := C03_expr_parse_api exR_ok (Or.inl rfl) exR_resolvable mode (by rw [exQ_target]; exact exQ_ok)
    (by rw [exQ_target]; decide) (by rw [exQ_target]; decide) hread
  rw [exQ_target, h0, exR_evalData] at h1 h2
  exact ⟨c₁, c₂, h1, h2⟩

/-! #### unresolved references -/

/-- `d $nope; e "$p + 1"; s "x y"; n 7; f "$p";` -- every reference dangling; `s` in the "wrong" quotes, `f` a quoted
    single reference: the writer respells both -/
def exU : Doc :=
  [("d".toList, .ref "nope".toList), ("e".toList, .expr "$p + 1".toList), ("s".toList, .lit (.quoted '"' "x y".toList)),
   ("n".toList, .lit (.bare "7".toList)), ("f".toList, .expr "$p".toList)]

def exULay : Lay :=
  [(['\n', ' '], ['\t'], [' ']), ([' '], [' ', ' '], []), (['\n'], ['\n', ' '], ['\r', '\n']), (['\n', '\n'], [' '], []),
   ([], [' '], [])]

theorem exU_text : renderG exU exULay "  \n".toList =
    "\n d\t$nope ; e  \"$p + 1\";\ns\n \"x y\"\r\n;\n\nn 7;f \"$p\";  \n".toList := by decide +kernel

theorem exU_ok : SrcOKU exU exULay "  \n".toList exP :=
  ⟨by decide +kernel, by decide +kernel, by decide, by decide, by decide, by decide +kernel, by decide +kernel,
   by decide, by decide, by decide⟩

def exUData : Entries :=
  [(.str "d".toList, .leaf (.str "$nope".toList)), (.str "e".toList, .leaf (.str "$p + 1".toList)),
   (.str "s".toList, .leaf (.str "x y".toList)), (.str "n".toList, .leaf (.int 7)),
   (.str "f".toList, .leaf (.str "$p".toList))]

theorem exU_mean : meanD exU = exUData := by decide +kernel

set_option maxRecDepth 100000 in
theorem exU_written : writtenText exU = nativeHeader ++
    ("d                             $nope;\n" ++
     "e                             \"$p + 1\";\n" ++
     "s                             'x y';\n" ++
     "n                             7;\n" ++
     "f                             $p;\n").toList := by
  unfold writtenText
  congr 1
  decide +kernel

/-- the theorems on the example: the unresolved entries keep their texts, three cycles write the same bytes -/
theorem exU_cycles (ev : Str → EvalResult) : ∃ c₁,
    readFile ev [(exP, .native "\n d\t$nope ; e  \"$p + 1\";\ns\n \"x y\"\r\n;\n\nn 7;f \"$p\";  \n".toList)] {} none exP =
      .ok (.ok { data := exUData } c₁) ∧
    C03.sdCycles ev exQ 3 { data := exUData } c₁ = List.replicate 3 (writtenText exU, C12.hdrSD exUData) ∧
    C01.dropPhEntries (C12.hdrSD exUData).data = exUData := by
  obtain ⟨c₁, h1, h2, h3⟩ := C03_expr_unresolved_cycles_partial exU_ok exQ_ok ev (c := none) (Or.inl rfl) 3
  rw [exU_text, exU_mean] at h1
  rw [exU_mean] at h2 h3
  exact ⟨c₁, h1, h2, h3⟩

/-- the mixed example of the task: `a 2; b $a; c "$a * $b + 1"; d $nope; e "$p + 1";` -/
def exM : Doc :=
  [("a".toList, .lit (.bare "2".toList)), ("b".toList, .ref "a".toList), ("c".toList, .expr "$a * $b + 1".toList),
   ("d".toList, .ref "nope".toList), ("e".toList, .expr "$p + 1".toList)]

/-- its residual document: `a 2; b 2; c 5; d $nope; e "$p + 1";` -/
def exMr : Doc :=
  [("a".toList, .lit (.bare "2".toList)), ("b".toList, .lit (.bare "2".toList)), ("c".toList, .lit (.bare "5".toList)),
   ("d".toList, .ref "nope".toList), ("e".toList, .expr "$p + 1".toList)]

theorem exM_text : render exM = "a 2;\nb $a;\nc \"$a * $b + 1\";\nd $nope;\ne \"$p + 1\";\n".toList := by decide +kernel

theorem exM_first : C05.readData (readFile evalInt [(exP, .native (render exM))] {} none exP) = some (meanD exMr) := by
  decide +kernel

/-- the first read evaluates `b`, `c` and keeps `$nope`, `$p + 1` as text; every cycle then writes the same bytes and
    reads that data again -/
theorem exM_cycles (n : Nat) : ∃ sd₀ c₁,
    readFile evalInt [(exP, .native "a 2;\nb $a;\nc \"$a * $b + 1\";\nd $nope;\ne \"$p + 1\";\n".toList)] {} none exP =
      .ok (.ok sd₀ c₁) ∧
    sd₀.data = [(.str "a".toList, .leaf (.int 2)), (.str "b".toList, .leaf (.int 2)), (.str "c".toList, .leaf (.int 5)),
      (.str "d".toList, .leaf (.str "$nope".toList)), (.str "e".toList, .leaf (.str "$p + 1".toList))] ∧
    C03.sdCycles evalInt exQ n sd₀ c₁ = List.replicate n (writtenText exMr, C12.hdrSD sd₀.data) ∧
    C01.dropPhEntries (C12.hdrSD sd₀.data).data = sd₀.data := by
  have hwf : DocWF exM = true := by decide +kernel
  have h1 := exM_first
  rw [render_eq] at h1
  cases hr : readFile evalInt [(exP, .native (renderG exM (fixedLay exM) (fixedTail exM)))] {} none exP with
  | error e => rw [hr] at h1; simp [C05.readData] at h1
  | ok out =>
    cases out with
    | exit1 => rw [hr] at h1; simp [C05.readData] at h1
    | ok sd₀ c₁ =>
      rw [hr] at h1
      simp only [C05.readData, Option.some.injEq] at h1
      obtain ⟨htab, hc₁⟩ := read_tables evalInt exP none hwf (fixedLay_ok exM) (fixedTail_ws exM) (Or.inl rfl)
        (Nat.le_trans (countIds_le _) (by decide)) (by decide) (by decide) (by decide) hr
      have hv : C13.ValidCounter Gen.counterLimit c₁ := by rw [hc₁]; exact counter_valid (Or.inl rfl)
      obtain ⟨h2, h3⟩ := C03_expr_residual_cycles (r := exMr) (by decide +kernel) (by decide +kernel) (by decide)
        (by decide +kernel) (by decide +kernel) exQ_ok evalInt hv n
      rw [← render_eq, exM_text] at hr
      refine ⟨sd₀, c₁, hr, by rw [h1]; decide +kernel, ?_, ?_⟩
      · rw [htab, h1]; exact h2
      · rw [h1]; exact h3

/- checked: every one of these depends on [propext, Classical.choice, Quot.sound] only
#print axioms C03_expr_reread
#print axioms C03_expr_cycles
#print axioms C03_expr_cycles_last
#print axioms C03_expr_parse_api
#print axioms C03_expr_unresolved_statement_false
#print axioms C03_expr_unresolved_partial
#print axioms C03_expr_unresolved_cycles_partial
#print axioms C03_expr_residual_cycles
#print axioms parse_hdr_exprs
#print axioms evalExpressions_dangling
#print axioms exR_cycles
#print axioms exR_api
#print axioms exU_cycles
#print axioms exM_cycles
-/

end DictIO.C03expr
