import DictIO.Props.C05read
import DictIO.Props.C03bytes
import DictIO.Props.C16fold

namespace DictIO.C03expr
open DictIO DictIO.C05R

set_option linter.unusedSimpArgs false
set_option linter.unusedVariables false

attribute [local irreducible] nativeHeader

/-! ## helper lemmas -/

/-! ### 1. the values the specification evaluator gives -/

/-- the literals of the document are values of the writer's domain (as `hdom` in `C03_plain_fixpoint`; e.g. the float
    lexemes `1.`, `.5`, `1e5` are outside) -/
def litsInDom (doc : Doc) : Bool :=
  doc.all fun e => match e.2 with
    | .lit l => isDomScalar .native l.den
    | _ => true

/-- every name of the document is given a value by the topological specification `C05.topoVal` with the integer
    evaluator: the reference graph is fully resolvable and every expression text lies in the integer language -/
def docResolvable (c : Counter) (doc : Doc) : Bool :=
  doc.all fun e => (C05.topoVal evalInt (exprSD c doc) (doc.length + 1) e.1).isSome

/-- the data the first read returns: every name with the value of the specification, in file order -/
def evalData (c : Counter) (doc : Doc) : Entries :=
  doc.map fun e => (.str e.1, (C05.topoVal evalInt (exprSD c doc) (doc.length + 1) e.1).getD (.leaf .none))

/-- a scalar the writer writes and the reader reads back unchanged -/
def goodSc (x : Scalar) : Prop := isDomScalar .native x = true ∧ normScalar x = x

theorem goodSc_int (z : Int) : goodSc (.int z) := ⟨rfl, rfl⟩

theorem topoVal_good {c : Counter} {doc : Doc} {D : List (Nat × Str × Str)} (S : Shape c doc D)
    (hwf : DocWF doc = true) (hlit : litsInDom doc = true) :
    ∀ (fuel : Nat) (name : Str) (v : Val), C05.topoVal evalInt (exprSD c doc) fuel name = some v →
      ∃ x, v = .leaf x ∧ goodSc x
  | 0, _, _, h => by simp [C05.topoVal] at h
  | fuel + 1, name, v, h => by
    rw [C05.topoVal_succ] at h
    cases hl : lookup (.str name) (exprSD c doc).data with
    | none => rw [hl] at h; cases h
    | some v0 =>
      rw [hl] at h
      simp only at h
      have hmem := C05.lookup_mem hl
      have hmem' : (Key.str name, v0) ∈ ldata (labelAll c doc).2 := hmem
      rw [mem_ldata] at hmem'
      obtain ⟨e, he, heq⟩ := hmem'
      obtain ⟨dv, hm, hv⟩ := S.fwd e he
      have hv0 : v0 = .leaf e.2.val := (Prod.mk.inj heq).2
      rcases hv with ⟨l, w, rfl, e2⟩ | ⟨i, t, ht, hD, e2⟩
      · -- a literal
        have hok : l.ok = true := ((docWF_iff.mp hwf).1 _ hm).2
        have hnone : C05.exprOf (exprSD c doc) v0 = none := by
          rw [hv0, e2]; exact S.exprOf_lit (lit_okScalar hok)
        rw [hnone] at h
        simp only [Option.some.injEq] at h
        subst h
        refine ⟨l.den, by rw [hv0, e2]; rfl, ?_, C03.normScalar_den hok⟩
        have := List.all_eq_true.mp hlit _ hm
        simpa using this
      · -- a reference or an expression
        have hsome : C05.exprOf (exprSD c doc) v0 = some t := by
          rw [hv0, e2]; exact S.exprOf_ph hD
        rw [hsome] at h
        simp only at h
        split at h
        · exact topoVal_good S hwf hlit fuel _ _ h
        · cases hf : (findRefs t).foldlM (C05.topoStep (C05.topoVal evalInt (exprSD c doc) fuel)) t with
          | none => rw [hf] at h; cases h
          | some tx =>
            rw [hf] at h
            simp only at h
            rcases C05.evalInt_cases tx with ⟨z, hz⟩ | hu
            · rw [hz] at h
              simp only [Option.some.injEq] at h
              exact ⟨.int z, h.symm, goodSc_int z⟩
            · rw [hu] at h; cases h

/-! ### 2. the data of the first read, explicitly -/

/-- a dict is determined by its keys (without repetition) and the values found under them -/
theorem entries_of_lookups : ∀ (es : Entries) (f : Key → Val), (keys es).Nodup →
    (∀ k ∈ keys es, lookup k es = some (f k)) → es = (keys es).map fun k => (k, f k)
  | [], _, _, _ => rfl
  | (k, v) :: es, f, hn, hl => by
    have hn' : k ∉ keys es ∧ (keys es).Nodup := by simpa [keys] using hn
    have h0 := hl k (by simp [keys])
    have hv : v = f k := by simpa [lookup] using h0
    have ih := entries_of_lookups es f hn'.2 (fun k' hk' => by
      have := hl k' (by simp [keys]; exact Or.inr (by simpa [keys] using hk'))
      have hne : k ≠ k' := fun h => hn'.1 (h ▸ hk')
      simpa [lookup, hne] using this)
    simp only [keys, List.map_cons] at ih ⊢
    rw [← ih, hv]

theorem isComplex_of_word {c : Char} (h : isWordChar c = true) : isComplexChar c = false := by
  have hws := C05.word_not_ws c h
  have ne : ∀ x : Char, isWordChar x = false → (c == x) = false := fun x hx => by
    rw [beq_eq_false_iff_ne]; rintro rfl; rw [hx] at h; cases h
  simp only [isComplexChar, hws, ne ':' (by decide +kernel), ne '/' (by decide +kernel), ne '\\' (by decide +kernel),
    ne ';' (by decide +kernel), ne ',' (by decide +kernel), ne '{' (by decide +kernel), ne '}' (by decide +kernel),
    ne '(' (by decide +kernel), ne ')' (by decide +kernel), ne '<' (by decide +kernel), ne '>' (by decide +kernel),
    ne '[' (by decide +kernel), ne ']' (by decide +kernel), Bool.or_self]

theorem isDomKey_of_keyOK {k : Str} (h : keyOK k = true) : isDomKey (.str k) = true := by
  obtain ⟨h1, h2, h3, _⟩ := keyOK_iff.mp h
  simp only [isDomKey, h1, h3, beq_self_eq_true, Bool.true_and, Bool.not_eq_true', List.any_eq_false]
  intro c hc
  rw [isComplex_of_word (List.all_eq_true.mp h2 c hc)]
  simp

/-- a flat dict of good scalars under good names -/
def FlatGood (D : Entries) : Prop :=
  ∀ e ∈ D, (∃ k, e.1 = .str k ∧ keyOK k = true) ∧ ∃ x, e.2 = .leaf x ∧ goodSc x

theorem flat_dom : ∀ (D : Entries), FlatGood D → domEs .native 1 D = true
  | [], _ => rfl
  | (k, v) :: D, h => by
    obtain ⟨⟨k', hk, hok⟩, x, hv, hx⟩ := h (k, v) (by simp)
    simp only at hk hv
    subst hk hv
    simp only [domEs, domV, isDomKey_of_keyOK hok, hx.1, Bool.true_and, Bool.and_eq_true, decide_eq_true_eq]
    exact ⟨by omega, flat_dom D fun e he => h e (by simp [he])⟩

theorem flat_norm : ∀ (D : Entries), FlatGood D → normEs D = D
  | [], _ => rfl
  | (k, v) :: D, h => by
    obtain ⟨_, x, hv, hx⟩ := h (k, v) (by simp)
    simp only at hv
    subst hv
    simp only [normEs, normV, hx.2, flat_norm D fun e he => h e (by simp [he])]

theorem flat_docKeys (D : Entries) (h : FlatGood D) : C01.DocKeysAbsent' D := by
  intro e he
  obtain ⟨⟨k, hk, hok⟩, _⟩ := h e he
  obtain ⟨_, _, _, h4, h5⟩ := keyOK_iff.mp hok
  rw [hk]
  exact ⟨fun h => h4 (Key.str.inj h), fun h => h5 (Key.str.inj h)⟩

theorem flat_count : ∀ (D : Entries), FlatGood D → C02.countQuotedEs (srcOfEs .native D) ≤ D.length
  | [], _ => by simp [srcOfEs, C02.countQuotedEs]
  | (k, v) :: D, h => by
    obtain ⟨_, x, hv, _⟩ := h (k, v) (by simp)
    simp only at hv
    subst hv
    have ih := flat_count D fun e he => h e (by simp [he])
    simp only [srcOfEs, srcOfV, C02.countQuotedEs, List.length_cons]
    have : C02.countQuotedV (.lit (writtenLit .native x)) ≤ 1 := by
      cases writtenLit .native x <;> simp [C02.countQuotedV]
    omega

/-- a flat dict of good scalars under distinct good names is a state a written file can hold (`C16fold.Good`) -/
theorem flat_good {D : Entries} (h : FlatGood D) (hn : (keys D).Nodup) (hlen : D.length ≤ Gen.counterLimit + 1) :
    C16.Good D :=
  ⟨by simp only [DomC01, flat_dom D h, hn, decide_true, Bool.and_self], flat_norm D h, flat_docKeys D h,
    Nat.le_trans (flat_count D h) hlen⟩

end DictIO.C03expr
