import DictIO.Props.C05read
import DictIO.Props.C03bytes
import DictIO.Props.C16fold

namespace DictIO.C03expr
open DictIO DictIO.C05R

set_option linter.unusedSimpArgs false
set_option linter.unusedVariables false

attribute [local irreducible] nativeHeader

/-! ## helper lemmas -/

/-! ### 1. the values the specification evaluator gives -/

/-- the literals of the document are values of the writer's domain (as `hdom` in `C03_plain_fixpoint`; e.g. the float
    lexemes `1.`, `.5`, `1e5` are outside) -/
def litsInDom (doc : Doc) : Bool :=
  doc.all fun e => match e.2 with
    | .lit l => isDomScalar .native l.den
    | _ => true

/-- every name of the document is given a value by the topological specification `C05.topoVal` with the integer
    evaluator: the reference graph is fully resolvable and every expression text lies in the integer language -/
def docResolvable (c : Counter) (doc : Doc) : Bool :=
  doc.all fun e => (C05.topoVal evalInt (exprSD c doc) (doc.length + 1) e.1).isSome

/-- the data the first read returns: every name with the value of the specification, in file order -/
def evalData (c : Counter) (doc : Doc) : Entries :=
  doc.map fun e => (.str e.1, (C05.topoVal evalInt (exprSD c doc) (doc.length + 1) e.1).getD (.leaf .none))

/-- a scalar the writer writes and the reader reads back unchanged -/
def goodSc (x : Scalar) : Prop := isDomScalar .native x = true ∧ normScalar x = x

theorem goodSc_int (z : Int) : goodSc (.int z) := ⟨rfl, rfl⟩

theorem topoVal_good {c : Counter} {doc : Doc} {D : List (Nat × Str × Str)} (S : Shape c doc D)
    (hwf : DocWF doc = true) (hlit : litsInDom doc = true) :
    ∀ (fuel : Nat) (name : Str) (v : Val), C05.topoVal evalInt (exprSD c doc) fuel name = some v →
      ∃ x, v = .leaf x ∧ goodSc x
  | 0, _, _, h => by simp [C05.topoVal] at h
  | fuel + 1, name, v, h => by
    rw [C05.topoVal_succ] at h
    cases hl : lookup (.str name) (exprSD c doc).data with
    | none => rw [hl] at h; cases h
    | some v0 =>
      rw [hl] at h
      simp only at h
      have hmem := C05.lookup_mem hl
      have hmem' : (Key.str name, v0) ∈ ldata (labelAll c doc).2 := hmem
      rw [mem_ldata] at hmem'
      obtain ⟨e, he, heq⟩ := hmem'
      obtain ⟨dv, hm, hv⟩ := S.fwd e he
      have hv0 : v0 = .leaf e.2.val := (Prod.mk.inj heq).2
      rcases hv with ⟨l, w, rfl, e2⟩ | ⟨i, t, ht, hD, e2⟩
      · -- a literal
        have hok : l.ok = true := ((docWF_iff.mp hwf).1 _ hm).2
        have hnone : C05.exprOf (exprSD c doc) v0 = none := by
          rw [hv0, e2]; exact S.exprOf_lit (lit_okScalar hok)
        rw [hnone] at h
        simp only [Option.some.injEq] at h
        subst h
        refine ⟨l.den, by rw [hv0, e2]; rfl, ?_, C03.normScalar_den hok⟩
        have := List.all_eq_true.mp hlit _ hm
        simpa using this
      · -- a reference or an expression
        have hsome : C05.exprOf (exprSD c doc) v0 = some t := by
          rw [hv0, e2]; exact S.exprOf_ph hD
        rw [hsome] at h
        simp only at h
        split at h
        · exact topoVal_good S hwf hlit fuel _ _ h
        · cases hf : (findRefs t).foldlM (C05.topoStep (C05.topoVal evalInt (exprSD c doc) fuel)) t with
          | none => rw [hf] at h; cases h
          | some tx =>
            rw [hf] at h
            simp only at h
            rcases C05.evalInt_cases tx with ⟨z, hz⟩ | hu
            · rw [hz] at h
              simp only [Option.some.injEq] at h
              exact ⟨.int z, h.symm, goodSc_int z⟩
            · rw [hu] at h; cases h

/-! ### 2. the data of the first read, explicitly -/

/-- a dict is determined by its keys (without repetition) and the values found under them -/
theorem entries_of_lookups : ∀ (es : Entries) (f : Key → Val), (keys es).Nodup →
    (∀ k ∈ keys es, lookup k es = some (f k)) → es = (keys es).map fun k => (k, f k)
  | [], _, _, _ => rfl
  | (k, v) :: es, f, hn, hl => by
    have hn' : k ∉ keys es ∧ (keys es).Nodup := by simpa [keys] using hn
    have h0 := hl k (by simp [keys])
    have hv : v = f k := by simpa [lookup] using h0
    have ih := entries_of_lookups es f hn'.2 (fun k' hk' => by
      have := hl k' (by simp [keys]; exact Or.inr (by simpa [keys] using hk'))
      have hne : k ≠ k' := fun h => hn'.1 (h ▸ hk')
      simpa [lookup, hne] using this)
    simp only [keys, List.map_cons] at ih ⊢
    rw [← ih, hv]

theorem isComplex_of_word {c : Char} (h : isWordChar c = true) : isComplexChar c = false := by
  have hws := C05.word_not_ws c h
  have ne : ∀ x : Char, isWordChar x = false → (c == x) = false := fun x hx => by
    rw [beq_eq_false_iff_ne]; rintro rfl; rw [hx] at h; cases h
  simp only [isComplexChar, hws, ne ':' (by decide +kernel), ne '/' (by decide +kernel), ne '\\' (by decide +kernel),
    ne ';' (by decide +kernel), ne ',' (by decide +kernel), ne '{' (by decide +kernel), ne '}' (by decide +kernel),
    ne '(' (by decide +kernel), ne ')' (by decide +kernel), ne '<' (by decide +kernel), ne '>' (by decide +kernel),
    ne '[' (by decide +kernel), ne ']' (by decide +kernel), Bool.or_self]

theorem isDomKey_of_keyOK {k : Str} (h : keyOK k = true) : isDomKey (.str k) = true := by
  obtain ⟨h1, h2, h3, _⟩ := keyOK_iff.mp h
  simp only [isDomKey, h1, h3, beq_self_eq_true, Bool.true_and, Bool.not_eq_true', List.any_eq_false]
  intro c hc
  rw [isComplex_of_word (List.all_eq_true.mp h2 c hc)]
  simp

/-- a flat dict of good scalars under good names -/
def FlatGood (D : Entries) : Prop :=
  ∀ e ∈ D, (∃ k, e.1 = .str k ∧ keyOK k = true) ∧ ∃ x, e.2 = .leaf x ∧ goodSc x

theorem flat_dom : ∀ (D : Entries), FlatGood D → domEs .native 1 D = true
  | [], _ => rfl
  | (k, v) :: D, h => by
    obtain ⟨⟨k', hk, hok⟩, x, hv, hx⟩ := h (k, v) (by simp)
    simp only at hk hv
    subst hk hv
    simp only [domEs, domV, isDomKey_of_keyOK hok, hx.1, Bool.true_and, Bool.and_eq_true, decide_eq_true_eq]
    exact ⟨by omega, flat_dom D fun e he => h e (by simp [he])⟩

theorem flat_norm : ∀ (D : Entries), FlatGood D → normEs D = D
  | [], _ => rfl
  | (k, v) :: D, h => by
    obtain ⟨_, x, hv, hx⟩ := h (k, v) (by simp)
    simp only at hv
    subst hv
    simp only [normEs, normV, hx.2, flat_norm D fun e he => h e (by simp [he])]

theorem flat_docKeys (D : Entries) (h : FlatGood D) : C01.DocKeysAbsent' D := by
  intro e he
  obtain ⟨⟨k, hk, hok⟩, _⟩ := h e he
  obtain ⟨_, _, _, h4, h5⟩ := keyOK_iff.mp hok
  rw [hk]
  exact ⟨fun h => h4 (Key.str.inj h), fun h => h5 (Key.str.inj h)⟩

theorem flat_count : ∀ (D : Entries), FlatGood D → C02.countQuotedEs (srcOfEs .native D) ≤ D.length
  | [], _ => by simp [srcOfEs, C02.countQuotedEs]
  | (k, v) :: D, h => by
    obtain ⟨_, x, hv, _⟩ := h (k, v) (by simp)
    simp only at hv
    subst hv
    have ih := flat_count D fun e he => h e (by simp [he])
    simp only [srcOfEs, srcOfV, C02.countQuotedEs, List.length_cons]
    have : C02.countQuotedV (.lit (writtenLit .native x)) ≤ 1 := by
      cases writtenLit .native x <;> simp [C02.countQuotedV]
    omega

/-- a flat dict of good scalars under distinct good names is a state a written file can hold (`C16fold.Good`) -/
theorem flat_good {D : Entries} (h : FlatGood D) (hn : (keys D).Nodup) (hlen : D.length ≤ Gen.counterLimit + 1) :
    C16.Good D :=
  ⟨by simp only [DomC01, flat_dom D h, hn, decide_true, Bool.and_self], flat_norm D h, flat_docKeys D h,
    Nat.le_trans (flat_count D h) hlen⟩

/-! ### 3. the first read -/

/-- `_eval_expressions` touches the data and the expression table only -/
theorem evalExpressions_tables (ev : Str → EvalResult) (s s' : SD) (h : evalExpressions ev s = .ok s') :
    s' = { s with data := s'.data, exprs := [] } := by
  unfold evalExpressions at h
  simp only [bind, Except.bind, pure, Except.pure] at h
  split at h
  · cases h
  · split at h
    · cases h
    · split at h
      · cases h
      · cases h; rfl

/-- the hypotheses on the source: a well-formed flat document (the domain of `C05R.C05_read_layout`) in an admissible
    layout, references name entries, the reference graph is acyclic, the literals are values of the writer's domain,
    and a path as in `C01_roundtrip_file` -/
structure SrcOK (doc : Doc) (lay : Lay) (tail : Str) (p : Comps) : Prop where
  wf : DocWF doc = true
  lay : LayOK lay doc.length = true
  tail : tail.all isWs = true
  cnt : countIds doc ≤ Gen.counterLimit + 1
  len : doc.length ≤ Gen.counterLimit + 1
  refs : docRefsOK doc = true
  acyc : docAcyclic doc = true
  lits : litsInDom doc = true
  hj : isJsonPath p = false
  hx : isXmlPath p = false
  hr : resolveSpelled p = p

section resolvable
variable {doc : Doc} {lay : Lay} {tail : Str} {p : Comps} (H : SrcOK doc lay tail p)
include H

theorem pathOK : C16.PathOK p := ⟨H.hj, H.hx, H.hr⟩

/-- the evaluated data: flat, good scalars (ints from the evaluator, the literals, copies of them) under the names -/
theorem evalData_flat {c : Counter} (hc : C13.ValidCounter Gen.counterLimit c) (hres : docResolvable c doc = true) :
    FlatGood (evalData c doc) := by
  obtain ⟨D, S⟩ := exprSD_shape c H.wf hc H.cnt
  intro e he
  simp only [evalData, List.mem_map] at he
  obtain ⟨a, ha, rfl⟩ := he
  refine ⟨⟨a.1, rfl, ((docWF_iff.mp H.wf).1 a ha).1⟩, ?_⟩
  have hs := List.all_eq_true.mp hres a ha
  cases ht : C05.topoVal evalInt (exprSD c doc) (doc.length + 1) a.1 with
  | none => rw [ht] at hs; cases hs
  | some v =>
    obtain ⟨x, hv, hx⟩ := topoVal_good S H.wf H.lits _ _ _ ht
    exact ⟨x, by simp only [Option.getD_some]; exact hv, hx⟩

omit H in
theorem evalData_keys (c : Counter) : keys (evalData c doc) = (doc.map (·.1)).map Key.str := by
  simp [evalData, keys]

theorem evalData_good {c : Counter} (hc : C13.ValidCounter Gen.counterLimit c) (hres : docResolvable c doc = true) :
    C16.Good (evalData c doc) := by
  refine flat_good (evalData_flat H hc hres) ?_ (by simp only [evalData, List.length_map]; exact H.len)
  rw [evalData_keys]
  exact nodup_map_inj (fun a b h => by cases h; rfl) (docWF_iff.mp H.wf).2.1

/-- **the first read**: whenever `DictReader.read` succeeds on the source it returns exactly `evalData c doc` -- every
    name with the value of the specification, no `$` left, all side tables empty -/
theorem first_read {c : Counter} (hc : C13.ValidCounter Gen.counterLimit c) (hres : docResolvable c doc = true)
    {out : ReadOut} (hread : readFile evalInt [(p, .native (renderG doc lay tail))] {} c p = .ok out) :
    out = .ok { data := evalData c doc } (labelAll c doc).1.counter := by
  obtain ⟨s', rfl, h1, h2, h3⟩ := C05_read_layout_evalInt p c H.wf H.lay H.tail hc H.cnt H.refs H.acyc H.hj H.hx H.hr hread
  rw [readFile_layout evalInt p c H.wf H.lay H.tail hc H.cnt H.hj H.hx H.hr] at hread
  cases hev : evalExpressions evalInt (exprSD c doc) with
  | error e => rw [hev] at hread; cases hread
  | ok s'' =>
    rw [hev] at hread
    simp only [Except.map, Except.ok.injEq, ReadOut.ok.injEq] at hread
    have e' : s'' = s' := hread.1
    subst e'
    have htab := evalExpressions_tables evalInt _ _ hev
    have hn : (keys s''.data).Nodup := by
      rw [h2]; exact nodup_map_inj (fun a b h => by cases h; rfl) (docWF_iff.mp H.wf).2.1
    have hdata : s''.data = evalData c doc := by
      have hl : ∀ k ∈ keys s''.data, lookup k s''.data = some
          ((fun k => match k with
            | .str n => (C05.topoVal evalInt (exprSD c doc) (doc.length + 1) n).getD (.leaf .none)
            | .int _ => .leaf .none) k) := by
        intro k hk
        rw [h2] at hk
        simp only [List.mem_map] at hk
        obtain ⟨n, ⟨a, ha, rfl⟩, rfl⟩ := hk
        have hs := List.all_eq_true.mp hres a ha
        cases ht : C05.topoVal evalInt (exprSD c doc) (doc.length + 1) a.1 with
        | none => rw [ht] at hs; cases hs
        | some v =>
          have := h3 _ _ ht
          simp only [ht, Option.getD_some]; exact this
      rw [entries_of_lookups _ _ hn hl, h2]
      simp [evalData]
    rw [htab, hdata]
    rfl

omit H in
/-- the counter after the first read is one that can occur -/
theorem counter_valid {c : Counter} (hc : C13.ValidCounter Gen.counterLimit c) :
    C13.ValidCounter Gen.counterLimit (labelAll c doc).1.counter := by
  rw [labelAll_counter]; exact C02.adv_valid _ hc

end resolvable

/-! ### 4. write–read cycles from a good state -/

/-- what the real writer writes for either SDict holding `D`: the header, then the plain text of `D` -/
theorem write_good {D : Entries} (G : C16.Good D) {sd : SD} (h : sd = { data := D } ∨ sd = C12.hdrSD D) :
    fmtSD .native sd = some (C03.cycleText D) := by
  rcases h with rfl | rfl
  · exact C12.fmtSD_text _
  · exact (C12.write_header G.dom).trans (C12.fmtSD_text _)

/-- reading the text a cycle writes -/
theorem read_good {D : Entries} (G : C16.Good D) (ev : Str → EvalResult) {q : Comps} (Q : C16.PathOK q) {c : Counter}
    (hc : C13.ValidCounter Gen.counterLimit c) :
    ∃ c', C13.ValidCounter Gen.counterLimit c' ∧
      readFile ev [(q, .native (C03.cycleText D))] {} c q = .ok (.ok (C12.hdrSD D) c') :=
  C01.readFile_dumped ev q G.dom G.norm G.doc G.cnt hc Q.hj Q.hx Q.hr

/-- from either state every cycle writes `cycleText D` and reads `hdrSD D` -/
theorem sdCycles_good {D : Entries} (G : C16.Good D) (ev : Str → EvalResult) {q : Comps} (Q : C16.PathOK q) :
    ∀ (n : Nat) (sd : SD) (c : Counter), (sd = { data := D } ∨ sd = C12.hdrSD D) → C13.ValidCounter Gen.counterLimit c →
      C03.sdCycles ev q n sd c = List.replicate n (C03.cycleText D, C12.hdrSD D)
  | 0, _, _, _, _ => rfl
  | n + 1, sd, c, hsd, hc => by
    obtain ⟨c', hv, e⟩ := read_good G ev Q hc
    have ih := sdCycles_good G ev Q n (C12.hdrSD D) c' (Or.inr rfl) hv
    simp only [C03.sdCycles, write_good G hsd, e, ih, List.replicate_succ]

theorem domStr_noDollar {s : Str} (h : isDomScalar .native (.str s) = true) : '$' ∉ s := by
  intro hm
  simp only [isDomScalar, isDomStr, Bool.and_eq_true, List.all_eq_true] at h
  have := (h.1.1.1.1.1.1.1.1.1 _ hm).2
  simp at this

/-! ## property theorems -/

/-! ### A. resolvable reference graphs -/

/-- **C03 with `$`-references and expressions, one cycle** (`DictParser.parse` and the re-read of `parsed.<name>`).
    `doc` is a flat document `key value;` (values: literals, references `$x`, integer expressions `"$a + $b"`) in the
    domain of `C05_read_layout`, acyclic and fully resolvable; `p` the source file in any admissible layout, `q` the
    file the result is written to.  If `DictReader.read(p)` succeeds:
      1. what it returns is `{ data := evalData c doc }`: all side tables empty, every name holds the value of the
         topological specification;
      2. these values are plain scalars of the writer's domain (the literals and the integers `evalInt` returns): no
         `$` is left;
      3. the writer (`fmtSD .native`, as `DictParser.parse` calls it) writes the default header and the plain text of
         the data;
      4. reading that text gives, up to the header placeholder entry (`C01.dropPhEntries`), the data of the first
         read; no expression is pending. -/
theorem C03_expr_reread {doc : Doc} {lay : Lay} {tail : Str} {p q : Comps} (H : SrcOK doc lay tail p)
    (Q : C16.PathOK q) {c : Counter} (hc : C13.ValidCounter Gen.counterLimit c) (hres : docResolvable c doc = true)
    {sd₀ : SD} {c₁ : Counter}
    (hread : readFile evalInt [(p, .native (renderG doc lay tail))] {} c p = .ok (.ok sd₀ c₁)) :
    sd₀ = { data := evalData c doc } ∧
    (∀ e ∈ sd₀.data, ∃ x, e.2 = .leaf x ∧ isDomScalar .native x = true ∧ ∀ s, x = .str s → '$' ∉ s) ∧
    ∃ t sd₁ c₂, fmtSD .native sd₀ = some t ∧ t = nativeHeader ++ fmtPlain .native sd₀.data ∧
      readFile evalInt [(q, .native t)] {} c₁ q = .ok (.ok sd₁ c₂) ∧
      C01.dropPhEntries sd₁.data = sd₀.data ∧ sd₁.exprs = [] := by
  have h0 := first_read H hc hres hread
  simp only [ReadOut.ok.injEq] at h0
  obtain ⟨rfl, rfl⟩ := h0
  have G := evalData_good H hc hres
  obtain ⟨c₂, _, hr⟩ := read_good G evalInt Q (counter_valid (doc := doc) hc)
  refine ⟨rfl, ?_, C03.cycleText (evalData c doc), C12.hdrSD (evalData c doc), c₂, write_good G (Or.inl rfl), rfl, hr,
    C01.dropPh_hdr G.noPh, rfl⟩
  intro e he
  obtain ⟨_, x, hx, hg⟩ := evalData_flat H hc hres e he
  exact ⟨x, hx, hg.1, fun s hs => domStr_noDollar (hs ▸ hg.1)⟩

/-- **C03 with `$`-references and expressions, every number of cycles.**  After the first read, `n` write–read cycles
    with the real writer (`C03.sdCycles`: `fmtSD .native`, then `DictReader.read`) all write the same bytes
    `nativeHeader ++ fmtPlain D` and all read the same SDict `hdrSD D`, `D` the data of the first read; apart from the
    header placeholder entry its data is `D`.  In particular the bytes of cycle 2 are those of cycle 1, and for every
    `n ≥ 1` the data after `n` cycles is the data of the first read. -/
theorem C03_expr_cycles {doc : Doc} {lay : Lay} {tail : Str} {p q : Comps} (H : SrcOK doc lay tail p)
    (Q : C16.PathOK q) {c : Counter} (hc : C13.ValidCounter Gen.counterLimit c) (hres : docResolvable c doc = true)
    {sd₀ : SD} {c₁ : Counter}
    (hread : readFile evalInt [(p, .native (renderG doc lay tail))] {} c p = .ok (.ok sd₀ c₁)) (n : Nat) :
    C03.sdCycles evalInt q n sd₀ c₁ =
      List.replicate n (nativeHeader ++ fmtPlain .native sd₀.data, C12.hdrSD sd₀.data) ∧
    C01.dropPhEntries (C12.hdrSD sd₀.data).data = sd₀.data := by
  have h0 := first_read H hc hres hread
  simp only [ReadOut.ok.injEq] at h0
  obtain ⟨rfl, rfl⟩ := h0
  have G := evalData_good H hc hres
  exact ⟨sdCycles_good G evalInt Q n _ _ (Or.inl rfl) (counter_valid (doc := doc) hc), C01.dropPh_hdr G.noPh⟩

/-- the form the property is stated in: for `n ≥ 1` the last cycle read the data of the first read (up to the header
    placeholder entry), and any two cycles wrote the same bytes -/
theorem C03_expr_cycles_last {doc : Doc} {lay : Lay} {tail : Str} {p q : Comps} (H : SrcOK doc lay tail p)
    (Q : C16.PathOK q) {c : Counter} (hc : C13.ValidCounter Gen.counterLimit c) (hres : docResolvable c doc = true)
    {sd₀ : SD} {c₁ : Counter}
    (hread : readFile evalInt [(p, .native (renderG doc lay tail))] {} c p = .ok (.ok sd₀ c₁)) (n : Nat) (hn : 1 ≤ n) :
    (∃ t sd, (C03.sdCycles evalInt q n sd₀ c₁).getLast? = some (t, sd) ∧ C01.dropPhEntries sd.data = sd₀.data) ∧
    ∀ x ∈ C03.sdCycles evalInt q n sd₀ c₁, ∀ y ∈ C03.sdCycles evalInt q n sd₀ c₁, x.1 = y.1 := by
  obtain ⟨h1, h2⟩ := C03_expr_cycles H Q hc hres hread n
  rw [h1]
  refine ⟨⟨nativeHeader ++ fmtPlain .native sd₀.data, C12.hdrSD sd₀.data, ?_, h2⟩, ?_⟩
  · obtain ⟨m, rfl⟩ : ∃ m, n = m + 1 := ⟨n - 1, by omega⟩
    simp [List.getLast?_replicate]
  · intro x hx y hy
    rw [(List.mem_replicate.mp hx).2, (List.mem_replicate.mp hy).2]

/-! ## non-vacuity -/

/-- `a 2; b $a; c "$a * $b + 1"; s 'x y';` -/
def exR : Doc :=
  [("a".toList, .lit (.bare "2".toList)), ("b".toList, .ref "a".toList), ("c".toList, .expr "$a * $b + 1".toList),
   ("s".toList, .lit (.quoted '\'' "x y".toList))]

/-- a loose layout: tabs, blank lines, CR LF, two entries on one line -/
def exRLay : Lay := [(['\n', ' '], ['\t'], [' ']), ([' '], [' ', ' '], []), (['\n'], ['\n', ' '], ['\r', '\n']), (['\n', '\n'], [' '], [])]

def exP : Comps := ["w".toList, "case".toList]
def exQ : Comps := ["w".toList, "parsed.case".toList]

theorem exR_text : renderG exR exRLay "  \n".toList =
    "\n a\t2 ; b  $a;\nc\n \"$a * $b + 1\"\r\n;\n\ns 'x y';  \n".toList := by decide +kernel

theorem exR_ok : SrcOK exR exRLay "  \n".toList exP :=
  ⟨by decide +kernel, by decide, by decide, by decide +kernel, by decide, by decide +kernel, by decide +kernel,
   by decide +kernel, by decide, by decide, by decide⟩

theorem exQ_ok : C16.PathOK exQ := ⟨by decide, by decide, by decide⟩

theorem exR_resolvable : docResolvable none exR = true := by decide +kernel

def exRData : Entries :=
  [(.str "a".toList, .leaf (.int 2)), (.str "b".toList, .leaf (.int 2)), (.str "c".toList, .leaf (.int 5)),
   (.str "s".toList, .leaf (.str "x y".toList))]

theorem exR_evalData : evalData none exR = exRData := by decide +kernel

/-- the first read succeeds on the example (kernel evaluation of the whole reader) -/
theorem exR_read_ok : ∃ sd₀ c₁,
    readFile evalInt [(exP, .native (renderG exR exRLay "  \n".toList))] {} none exP = .ok (.ok sd₀ c₁) := by
  have h : C05.readData (readFile evalInt [(exP, .native (renderG exR exRLay "  \n".toList))] {} none exP) =
      some exRData := by decide +kernel
  cases hr : readFile evalInt [(exP, .native (renderG exR exRLay "  \n".toList))] {} none exP with
  | error e => rw [hr] at h; simp [C05.readData] at h
  | ok out =>
    cases out with
    | exit1 => rw [hr] at h; simp [C05.readData] at h
    | ok sd c => exact ⟨sd, c, rfl⟩

/-- the theorems on the example: the source in the loose layout is read as `a = 2, b = 2, c = 5, s = 'x y'`; three cycles
    write the same bytes and read that data again -/
theorem exR_cycles : ∃ c₁,
    readFile evalInt [(exP, .native "\n a\t2 ; b  $a;\nc\n \"$a * $b + 1\"\r\n;\n\ns 'x y';  \n".toList)] {} none exP =
      .ok (.ok { data := exRData } c₁) ∧
    C03.sdCycles evalInt exQ 3 { data := exRData } c₁ =
      List.replicate 3 (nativeHeader ++ fmtPlain .native exRData, C12.hdrSD exRData) ∧
    C01.dropPhEntries (C12.hdrSD exRData).data = exRData := by
  obtain ⟨sd₀, c₁, hread⟩ := exR_read_ok
  obtain ⟨h0, _⟩ := C03_expr_reread exR_ok exQ_ok (Or.inl rfl) exR_resolvable hread
  obtain ⟨h1, h2⟩ := C03_expr_cycles exR_ok exQ_ok (Or.inl rfl) exR_resolvable hread 3
  rw [h0, exR_evalData] at h1 h2 hread
  rw [exR_text] at hread
  exact ⟨c₁, hread, h1, h2⟩

end DictIO.C03expr
