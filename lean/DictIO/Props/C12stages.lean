/-
  C12 -- the comment stages of the native reader (`commentStages`: line comments, include directives, block comments)
  on ANY admissible layout of a well-formed commented document produce exactly what `labelCToks` describes.

    `comment_stages_on`, `comment_stages_off`            the two main theorems (token view, as asked for)
    `comment_stages_on_doc`, `comment_stages_off_doc`    the same with the document view (`labelCItems`, `srcToksPEs`,
                                                         `plainItems`): the form `C12rest.read_commented_denC'` takes
    `comment_stages_on_toks`, `comment_stages_off_toks`  for any list of admissible tokens, with the new gaps explicit
                                                         (`padGaps`, `mergeGaps`)
    `labelCToks_items`, `ctoks_plain`, `labelled_wf`, `plain_wf`      the bridges token view ↔ document view
    `comment_stages_needs_tail`                          the one added hypothesis cannot be dropped
    `exDoc` … `exDoc_on_text`, `exDoc_off_text`          non-vacuity

  Added hypothesis: `items = [] → tail.all isWs` (for the empty document `GapsOKC` says nothing about the tail).

  Route (helpers in `DictIO.C12.Stages`):
    2  stage 1 character by character: `LM_step` (one character in front of a text: the first line gets it, or a new
       line starts; CR LF), `LM_pass` (a stretch without `//`), `LM_lineC` (a line comment up to its line feed);
       the invariant `InvB` (no output line is an include directive) rides along, with `noHash` of `C02main`
    3  `gapsOKC_inv` (what `GapsOKC` says about the text behind a token), `ctoksI_ok` (the tokens of a document)
    4  `stageA` (stage 1 on a layout: `lineToks`), `gapsOKC_lineToks`
    5  `stages12` (stage 2 is the identity)
    6  `BL_step`, `BL_pass`, `BL_block`, `block_fuel`, `stageB` (stage 3 on a layout: `blockTexts`), `stages123`
    7  `stages_state`, `stages_texts_on`, `stages_texts_off`, `relToks_label` (against `labelCToks`)
    8  `on_text`, `on_gaps`, `off_text`, `off_gaps` (the result is an admissible layout again)
-/
import DictIO.Model.GrammarC
import DictIO.Props.C12

namespace DictIO.C12
open DictIO

set_option linter.unusedSimpArgs false
set_option linter.unusedVariables false

namespace Stages

/-! ## 0. small facts -/

abbrev plainOf : CTok → Option STok
  | .tok s => some s
  | _ => none

/-- the token list with the comment tokens removed -/
def plainToks (ts : List CTok) : List STok := ts.filterMap plainOf

theorem plainToks_nil : plainToks [] = [] := rfl
theorem plainToks_tok (s : STok) (ts : List CTok) : plainToks (.tok s :: ts) = s :: plainToks ts := rfl
theorem plainToks_lineC (x : Str) (ts : List CTok) : plainToks (.lineC x :: ts) = plainToks ts := rfl
theorem plainToks_blockC (x : Str) (ts : List CTok) : plainToks (.blockC x :: ts) = plainToks ts := rfl
theorem plainToks_append (a b : List CTok) : plainToks (a ++ b) = plainToks a ++ plainToks b := by
  simp [plainToks, List.filterMap_append]
theorem plainToks_map (l : List STok) : plainToks (l.map .tok) = l := by
  induction l with
  | nil => rfl
  | cons a l ih => simp [plainToks_tok, ih]

/-! ### `labelCToks` on concatenations -/

theorem labelCToks_tok (st : CLabelSt) (t : STok) (r : List CTok) :
    labelCToks st (.tok t :: r) = ((labelCToks st r).1, t :: (labelCToks st r).2) := rfl

/-- the labelling state after a line comment with text `x` -/
def stLine (st : CLabelSt) (x : Str) : CLabelSt :=
  { st with counter := (Counter.next Gen.counterLimit st.counter).2,
            lineC := st.lineC.set (Counter.next Gen.counterLimit st.counter).1 ('/' :: '/' :: x) }

/-- the id the next line comment gets -/
def idLine (st : CLabelSt) : Nat := (Counter.next Gen.counterLimit st.counter).1

/-- the labelling state after a block comment with text `x` -/
def stBlock (st : CLabelSt) (x : Str) : CLabelSt :=
  { st with blockC := st.blockC ++ [(st.blockC.length, '/' :: '*' :: x ++ ['*', '/'])] }

theorem labelCToks_lineC (st : CLabelSt) (x : Str) (r : List CTok) :
    labelCToks st (.lineC x :: r) =
      ((labelCToks (stLine st x) r).1, .word (linePh (idLine st)) :: (labelCToks (stLine st x) r).2) := rfl

theorem labelCToks_blockC (st : CLabelSt) (x : Str) (r : List CTok) :
    labelCToks st (.blockC x :: r) =
      ((labelCToks (stBlock st x) r).1, .word (blockPh st.blockC.length) :: (labelCToks (stBlock st x) r).2) := rfl

theorem labelCToks_append : ∀ (a b : List CTok) (st : CLabelSt),
    labelCToks st (a ++ b) =
      ((labelCToks (labelCToks st a).1 b).1, (labelCToks st a).2 ++ (labelCToks (labelCToks st a).1 b).2)
  | [], b, st => rfl
  | .tok t :: a, b, st => by
    rw [List.cons_append, labelCToks_tok, labelCToks_tok, labelCToks_append a b st]; rfl
  | .lineC x :: a, b, st => by
    rw [List.cons_append, labelCToks_lineC, labelCToks_lineC, labelCToks_append a b _]; rfl
  | .blockC x :: a, b, st => by
    rw [List.cons_append, labelCToks_blockC, labelCToks_blockC, labelCToks_append a b _]; rfl

theorem labelCToks_map (st : CLabelSt) : ∀ (l : List STok), labelCToks st (l.map .tok) = (st, l)
  | [] => rfl
  | a :: l => by rw [List.map_cons, labelCToks_tok, labelCToks_map st l]

end Stages
open Stages

/-! ## 1. the bridges between the token view and the document view -/

mutual
  theorem labelCToks_itemsV : ∀ (v : CSrc) (d : Nat) (st : CLabelSt), CSrcWFV d v = true →
      labelCToks st (ctoksV v) = ((labelCV st v).1, srcToksPV (labelCV st v).2)
    | .lit l, d, st, _ => by
      simp only [ctoksV, labelCV, srcToksPV, labelCToks_tok]; rfl
    | .dict items, d, st, h => by
      simp only [CSrcWFV] at h
      have ih := labelCToks_itemsI items (d + 1) st h
      simp only [ctoksV, labelCV, srcToksPV, List.cons_append]
      rw [labelCToks_tok, labelCToks_append, ih]
      rfl
    | .list xs, d, st, _ => by
      simp only [ctoksV, labelCV, srcToksPV, List.cons_append]
      rw [labelCToks_tok, labelCToks_append, labelCToks_map]
      rfl
  theorem labelCToks_itemsI : ∀ (items : List CItem) (d : Nat) (st : CLabelSt), CSrcWFItems d items = true →
      labelCToks st (ctoksItems items) = ((labelCItems st items).1, srcToksPEs (labelCItems st items).2)
    | [], _, st, _ => by simp only [ctoksItems, labelCItems, srcToksPEs, labelCToks]
    | .entry k (.lit l) :: r, d, st, h => by
      simp only [CSrcWFItems, Bool.and_eq_true] at h
      obtain ⟨⟨⟨hk, _⟩, _⟩, hr⟩ := h
      have hph : isPhTok k = false := (C02.srcWord_facts hk).2.1
      have ih := labelCToks_itemsI r d st hr
      simp only [ctoksItems, labelCItems, labelCV, srcToksPEs, labelCToks_tok, ih, hph]
      rfl
    | .entry k (.dict items) :: r, d, st, h => by
      simp only [CSrcWFItems, CSrcWFV, Bool.and_eq_true] at h
      obtain ⟨⟨⟨hk, _⟩, hv⟩, hr⟩ := h
      have ih1 := labelCToks_itemsI items (d + 1) st hv
      have ih2 := labelCToks_itemsI r d (labelCItems st items).1 hr
      simp only [ctoksItems, labelCItems, labelCV, srcToksPEs, List.cons_append, List.append_assoc]
      rw [labelCToks_tok, labelCToks_tok, labelCToks_append, ih1]
      simp only [List.cons_append, List.nil_append, labelCToks_tok, ih2]
    | .entry k (.list xs) :: r, d, st, h => by
      simp only [CSrcWFItems, Bool.and_eq_true] at h
      obtain ⟨_, hr⟩ := h
      have ih := labelCToks_itemsI r d st hr
      simp only [ctoksItems, labelCItems, labelCV, srcToksPEs, List.cons_append, List.append_assoc]
      rw [labelCToks_tok, labelCToks_tok, labelCToks_append, labelCToks_map]
      simp only [List.cons_append, List.nil_append, labelCToks_tok, ih]
    | .lineC x :: r, d, st, h => by
      simp only [CSrcWFItems, Bool.and_eq_true] at h
      have ih := labelCToks_itemsI r d (stLine st x) h.2
      have hp := (linePh_tok (idLine st)).2
      simp only [ctoksItems, labelCItems, srcToksPEs]
      rw [labelCToks_lineC, ih]
      simp only [stLine, idLine, linePh] at hp ⊢
      simp [hp, Lit.tok]
    | .blockC x :: r, d, st, h => by
      simp only [CSrcWFItems, Bool.and_eq_true] at h
      have ih := labelCToks_itemsI r d (stBlock st x) h.2
      have hp := (blockPh_tok st.blockC.length).2
      simp only [ctoksItems, labelCItems, srcToksPEs]
      rw [labelCToks_blockC, ih]
      simp only [stBlock, blockPh] at hp ⊢
      simp [hp, Lit.tok]
end

/-- **bridge 1**: the labelled token stream is the token stream of the labelled document -/
theorem labelCToks_items {d : Nat} {items : List CItem} (st : CLabelSt) (h : CSrcWFItems d items = true) :
    labelCToks st (ctoksItems items) = ((labelCItems st items).1, srcToksPEs (labelCItems st items).2) :=
  labelCToks_itemsI items d st h

/-! ### bridge 2: the token list without the comment tokens is the token list of the comment-free document -/

mutual
  theorem ctoks_plainV : ∀ (v : CSrc), plainToks (ctoksV v) = srcToksV (plainV v)
    | .lit l => by simp only [ctoksV, plainV, srcToksV, plainToks_tok, plainToks_nil]
    | .dict items => by
      simp only [ctoksV, plainV, srcToksV, List.cons_append, plainToks_tok, plainToks_append, plainToks_nil,
        ctoks_plainI items]
    | .list xs => by
      simp only [ctoksV, plainV, srcToksV, List.cons_append, plainToks_tok, plainToks_append, plainToks_nil,
        plainToks_map]
  theorem ctoks_plainI : ∀ (items : List CItem), plainToks (ctoksItems items) = srcToksEs (plainItems items)
    | [] => by simp only [ctoksItems, plainItems, srcToksEs, plainToks_nil]
    | .entry k (.lit l) :: r => by
      simp only [ctoksItems, plainItems, plainV, srcToksEs, plainToks_tok, ctoks_plainI r]
    | .entry k (.dict items) :: r => by
      simp only [ctoksItems, plainItems, plainV, srcToksEs, List.cons_append, List.append_assoc, plainToks_tok,
        plainToks_append, plainToks_nil, ctoks_plainI items, ctoks_plainI r]
    | .entry k (.list xs) :: r => by
      simp only [ctoksItems, plainItems, plainV, srcToksEs, List.cons_append, List.append_assoc, plainToks_tok,
        plainToks_append, plainToks_nil, plainToks_map, ctoks_plainI r]
    | .lineC x :: r => by simp only [ctoksItems, plainItems, plainToks_lineC, ctoks_plainI r]
    | .blockC x :: r => by simp only [ctoksItems, plainItems, plainToks_blockC, ctoks_plainI r]
end

/-- **bridge 2** -/
theorem ctoks_plain (items : List CItem) :
    (ctoksItems items).filterMap (fun t => match t with | .tok s => some s | _ => none) =
      srcToksEs (plainItems items) := by
  have := ctoks_plainI items
  simp only [plainToks] at this
  rw [← this]

/-! ### bridges 3 and 4: well-formedness of the labelled and of the comment-free document -/

namespace Stages

theorem digit_facts : ∀ c ∈ C02.asciiDigits, isQuote c = false ∧ c ≠ '$' ∧ c ≠ '\\' ∧ c ≠ 'S' ∧ c ≠ 'X' ∧ c ≠ '/' ∧
    c ≠ '*' ∧ c ≠ '#' ∧ c ≠ ':' ∧ isLineBreak c = false := by decide

theorem kwc_facts : ∀ c ∈ kwLine ++ kwBlock, isQuote c = false ∧ c ≠ '$' ∧ c ≠ '\\' ∧ c ≠ 'S' ∧ c ≠ 'X' ∧ c ≠ '/' ∧
    c ≠ '*' ∧ c ≠ '#' ∧ c ≠ ':' ∧ isLineBreak c = false ∧ isWs c = false := by decide

theorem ph_facts {kw : Str} (hkw : ∀ c ∈ kw, c ∈ kwLine ++ kwBlock) (i : Nat) :
    ∀ c ∈ kw ++ padSix i, isQuote c = false ∧ c ≠ '$' ∧ c ≠ '\\' ∧ c ≠ 'S' ∧ c ≠ 'X' ∧ c ≠ '/' ∧
      c ≠ '*' ∧ c ≠ '#' ∧ c ≠ ':' ∧ isLineBreak c = false ∧ isWs c = false := by
  intro c hc
  rcases List.mem_append.mp hc with h | h
  · exact kwc_facts c (hkw c h)
  · have h1 := digit_facts c (C02.padSix_ascii i c h)
    have h2 := C02.asciiDigits_facts c (C02.padSix_ascii i c h)
    exact ⟨h1.1, h1.2.1, h1.2.2.1, h1.2.2.2.1, h1.2.2.2.2.1, h1.2.2.2.2.2.1, h1.2.2.2.2.2.2.1, h1.2.2.2.2.2.2.2.1,
      h1.2.2.2.2.2.2.2.2.1, h1.2.2.2.2.2.2.2.2.2, h2.2.1⟩

theorem linePh_facts (i : Nat) : ∀ c ∈ linePh i, isQuote c = false ∧ c ≠ '$' ∧ c ≠ '\\' ∧ c ≠ 'S' ∧ c ≠ 'X' ∧ c ≠ '/' ∧
      c ≠ '*' ∧ c ≠ '#' ∧ c ≠ ':' ∧ isLineBreak c = false ∧ isWs c = false :=
  ph_facts (kw := kwLine) (fun c hc => List.mem_append_left _ hc) i

theorem blockPh_facts (i : Nat) : ∀ c ∈ blockPh i, isQuote c = false ∧ c ≠ '$' ∧ c ≠ '\\' ∧ c ≠ 'S' ∧ c ≠ 'X' ∧ c ≠ '/' ∧
      c ≠ '*' ∧ c ≠ '#' ∧ c ≠ ':' ∧ isLineBreak c = false ∧ isWs c = false :=
  ph_facts (kw := kwBlock) (fun c hc => List.mem_append_right _ hc) i

/-- the side conditions `SrcPWFEs` puts on a placeholder entry -/
theorem ph_entry_ok {k : Str} (hw : isWordTok k = true)
    (hf : ∀ c ∈ k, isQuote c = false ∧ c ≠ '$' ∧ c ≠ '\\' ∧ c ≠ 'S' ∧ c ≠ 'X' ∧ c ≠ '/' ∧
      c ≠ '*' ∧ c ≠ '#' ∧ c ≠ ':' ∧ isLineBreak c = false ∧ isWs c = false) :
    (isWordTok k && (match (Src.lit (.bare k)) with | .lit (.bare w) => w == k | _ => false) &&
          k.all (fun c => !isQuote c && c != '$' && c != '\\') && !isInfix kwLit k && !isInfix kwExpr k) = true := by
  have h1 : isInfix kwLit k = false :=
    C02.isInfix_head_notin 'S' _ k (fun hm => (hf _ hm).2.2.2.1 rfl)
  have h2 : isInfix kwExpr k = false := by
    cases h : isInfix kwExpr k with
    | false => rfl
    | true =>
      have := C02.Front.isInfix_mem h 'X' (by decide)
      exact absurd rfl (hf _ this).2.2.2.2.1
  have h3 : k.all (fun c => !isQuote c && c != '$' && c != '\\') = true := by
    rw [List.all_eq_true]
    intro c hc
    have := hf c hc
    simp [this.1, this.2.1, this.2.2.1]
  simp [hw, h1, h2, h3]

end Stages

mutual
  theorem labelled_wfV : ∀ (v : CSrc) (d : Nat) (st : CLabelSt), CSrcWFV d v = true → SrcPWFV d (labelCV st v).2 = true
    | .lit l, d, st, h => by simpa only [CSrcWFV, labelCV, SrcPWFV] using h
    | .dict items, d, st, h => by
      simp only [CSrcWFV] at h
      simp only [labelCV, SrcPWFV]
      exact labelled_wfI items (d + 1) st h
    | .list xs, d, st, h => by simpa only [CSrcWFV, labelCV, SrcPWFV] using h
  theorem labelled_wfI : ∀ (items : List CItem) (d : Nat) (st : CLabelSt), CSrcWFItems d items = true →
      SrcPWFEs d (labelCItems st items).2 = true
    | [], _, st, _ => by simp only [labelCItems, SrcPWFEs]
    | .entry k v :: r, d, st, h => by
      simp only [CSrcWFItems, Bool.and_eq_true] at h
      obtain ⟨⟨⟨hk, hkey⟩, hv⟩, hr⟩ := h
      have hph : isPhTok k = false := (C02.srcWord_facts hk).2.1
      simp only [labelCItems, SrcPWFEs, hph, Bool.false_eq_true, if_false, Bool.and_eq_true]
      exact ⟨⟨⟨hk, hkey⟩, labelled_wfV v d st hv⟩, labelled_wfI r d _ hr⟩
    | .lineC x :: r, d, st, h => by
      simp only [CSrcWFItems, Bool.and_eq_true] at h
      have hp : isWordTok (linePh (idLine st)) = true ∧ isPhTok (linePh (idLine st)) = true := linePh_tok _
      have ih := labelled_wfI r d (stLine st x) h.2
      simp only [labelCItems, SrcPWFEs]
      simp only [stLine, idLine] at hp ih ⊢
      simp only [hp.2, if_true, ih, Bool.and_true]
      exact ph_entry_ok hp.1 (linePh_facts _)
    | .blockC x :: r, d, st, h => by
      simp only [CSrcWFItems, Bool.and_eq_true] at h
      have hp : isWordTok (blockPh st.blockC.length) = true ∧ isPhTok (blockPh st.blockC.length) = true :=
        blockPh_tok _
      have ih := labelled_wfI r d (stBlock st x) h.2
      simp only [labelCItems, SrcPWFEs]
      simp only [stBlock] at hp ih ⊢
      simp only [hp.2, if_true, ih, Bool.and_true]
      exact ph_entry_ok hp.1 (blockPh_facts _)
end

/-- **bridge 3**: the labelled document is a well-formed labelled document -/
theorem labelled_wf {d : Nat} {items : List CItem} (st : CLabelSt) (h : CSrcWFItems d items = true) :
    SrcPWFEs d (labelCItems st items).2 = true := labelled_wfI items d st h

mutual
  theorem plain_wfV : ∀ (v : CSrc) (d : Nat), CSrcWFV d v = true → SrcWFV d (plainV v) = true
    | .lit l, d, h => by simpa only [CSrcWFV, plainV, SrcWFV] using h
    | .dict items, d, h => by
      simp only [CSrcWFV] at h
      simp only [plainV, SrcWFV]
      exact plain_wfI items (d + 1) h
    | .list xs, d, h => by simpa only [CSrcWFV, plainV, SrcWFV] using h
  theorem plain_wfI : ∀ (items : List CItem) (d : Nat), CSrcWFItems d items = true → SrcWFEs d (plainItems items) = true
    | [], _, _ => by simp only [plainItems, SrcWFEs]
    | .entry k v :: r, d, h => by
      simp only [CSrcWFItems, Bool.and_eq_true] at h
      obtain ⟨⟨⟨hk, hkey⟩, hv⟩, hr⟩ := h
      simp only [plainItems, SrcWFEs, Bool.and_eq_true]
      exact ⟨⟨⟨hk, hkey⟩, plain_wfV v d hv⟩, plain_wfI r d hr⟩
    | .lineC x :: r, d, h => by
      simp only [CSrcWFItems, Bool.and_eq_true] at h
      simp only [plainItems]
      exact plain_wfI r d h.2
    | .blockC x :: r, d, h => by
      simp only [CSrcWFItems, Bool.and_eq_true] at h
      simp only [plainItems]
      exact plain_wfI r d h.2
end

/-- **bridge 4**: the document without its comments is a well-formed source document -/
theorem plain_wf {d : Nat} {items : List CItem} (h : CSrcWFItems d items = true) : SrcWFEs d (plainItems items) = true :=
  plain_wfI items d h

/-! ## 2. stage 1 (line comments), character by character -/

namespace Stages
open DictIO.C02.Main (nextSt noHash lineSt)

/-- put a character in front of the first line -/
def consLine (c : Char) : List Str → List Str
  | [] => [[c]]
  | l :: ls => (c :: l) :: ls

theorem consLine_flatten (c : Char) (ls : List Str) : (consLine c ls).flatten = c :: ls.flatten := by
  cases ls <;> simp [consLine]

theorem cr_break : isLineBreak '\r' = true := by decide

theorem split_crlf (r : Str) : splitLinesKeep ('\r' :: '\n' :: r) = ['\r', '\n'] :: splitLinesKeep r := by
  rw [splitLinesKeep]

theorem split_break {c : Char} (r : Str) (hb : isLineBreak c = true) (h : ¬(c = '\r' ∧ r.head? = some '\n')) :
    splitLinesKeep (c :: r) = [c] :: splitLinesKeep r := by
  rw [splitLinesKeep]
  · simp [hb]
  · intro r' e1 e2
    exact h ⟨e1, by rw [e2]; rfl⟩

theorem split_plain {c : Char} (r : Str) (hb : isLineBreak c = false) :
    splitLinesKeep (c :: r) = consLine c (splitLinesKeep r) := by
  rw [splitLinesKeep]
  · simp only [hb, Bool.false_eq_true, if_false]
    cases splitLinesKeep r <;> rfl
  · intro r' e1 _
    rw [e1, cr_break] at hb; cases hb

theorem lines_ne_nil (s : Str) : ∀ l ∈ splitLinesKeep s, l ≠ [] := by
  fun_induction splitLinesKeep s with
  | case1 => simp
  | case2 r ih => intro l hl; rcases List.mem_cons.mp hl with rfl | hl; simp; exact ih l hl
  | case3 c r hne hb ih => intro l hl; rcases List.mem_cons.mp hl with rfl | hl; simp; exact ih l hl
  | case4 c r hne hb hnil ih => simp
  | case5 c r hne hb l0 ls hcons ih =>
    intro l hl
    rcases List.mem_cons.mp hl with rfl | hl
    · simp
    · exact ih l (by rw [hcons]; simp [hl])

/-- the first line is a non-empty prefix of the text -/
theorem first_line {s l : Str} {ls : List Str} (h : splitLinesKeep s = l :: ls) : l ≠ [] ∧ s = l ++ ls.flatten := by
  refine ⟨lines_ne_nil s l (by rw [h]; simp), ?_⟩
  have := C02.splitLines_flatten s
  rw [h] at this
  simpa using this.symm

theorem lines_nil {s : Str} (h : splitLinesKeep s = []) : s = [] := by
  have := C02.splitLines_flatten s
  rw [h] at this
  simpa using this.symm

/-! ### one line -/

/-- stage 1 over a list of lines, as a recursive function -/
def lineMap (comments : Bool) : LexSt → List Str → LexSt × List Str
  | st, [] => (st, [])
  | st, l :: ls =>
    ((lineMap comments (lexLineComment comments st l).1 ls).1,
     (lexLineComment comments st l).2 :: (lineMap comments (lexLineComment comments st l).1 ls).2)

theorem foldl_lineMap (comments : Bool) : ∀ (ls : List Str) (st : LexSt) (acc : List Str),
    ls.foldl (fun (acc : LexSt × List Str) l =>
      let (st, l') := lexLineComment comments acc.1 l; (st, acc.2 ++ [l'])) (st, acc) =
      ((lineMap comments st ls).1, acc ++ (lineMap comments st ls).2)
  | [], st, acc => by simp [lineMap]
  | l :: ls, st, acc => by
    rw [List.foldl_cons]
    rcases h : lexLineComment comments st l with ⟨st1, l'⟩
    simp only [h, lineMap]
    rw [foldl_lineMap comments ls st1 (acc ++ [l'])]
    simp

/-- stage 1 on a text: split into lines, lift the line comments -/
def LM (comments : Bool) (st : LexSt) (s : Str) : LexSt × List Str := lineMap comments st (splitLinesKeep s)

theorem LM_nil (cm : Bool) (st : LexSt) : LM cm st [] = (st, []) := by simp [LM, splitLinesKeep, lineMap]

theorem findLC_prev (prev : Option Char) (l : Str) (h : ¬(prev = some ':' ∧ ['/', '/'] <+: l)) :
    findLineComment prev l = findLineComment none l := by
  cases l with
  | nil => simp [findLineComment]
  | cons c r =>
    by_cases hc : c = '/' ∧ r.head? = some '/'
    · obtain ⟨rfl, hr⟩ := hc
      cases r with
      | nil => simp at hr
      | cons d r' =>
        simp only [List.head?_cons, Option.some.injEq] at hr
        subst hr
        have hp : (prev == some ':') = false := by
          cases hpe : prev == some ':' with
          | false => rfl
          | true =>
            exact absurd ⟨by simpa using hpe, ⟨r', rfl⟩⟩ h
        simp [findLineComment, hp]
    · rw [findLineComment, findLineComment]
      · intro r' e1 e2; exact hc ⟨e1, by rw [e2]; rfl⟩
      · intro r' e1 e2; exact hc ⟨e1, by rw [e2]; rfl⟩

theorem findLC_shape (prev : Option Char) (l : Str) : ∀ b tail, findLineComment prev l = some (b, tail) →
    ∃ r, tail = '/' :: '/' :: r := by
  fun_induction findLineComment prev l with
  | case1 prev r hp ih =>
    intro b tail h
    simp only [Option.map_eq_some_iff] at h
    obtain ⟨⟨b', t'⟩, h1, h2⟩ := h
    simp only [Prod.mk.injEq] at h2
    obtain ⟨_, rfl⟩ := h2
    exact ih _ _ h1
  | case2 prev r hp =>
    intro b tail h
    simp only [Option.some.injEq, Prod.mk.injEq] at h
    exact ⟨r, h.2.symm⟩
  | case3 prev c r hne ih =>
    intro b tail h
    simp only [Option.map_eq_some_iff] at h
    obtain ⟨⟨b', t'⟩, h1, h2⟩ := h
    simp only [Prod.mk.injEq] at h2
    obtain ⟨_, rfl⟩ := h2
    exact ih _ _ h1
  | case4 => intro b tail h; cases h

theorem dropFinalNl_shape (r : Str) : ∃ r', (dropFinalNl ('/' :: '/' :: r)).1 = '/' :: '/' :: r' := by
  unfold dropFinalNl
  split
  · next hl =>
    cases r with
    | nil => simp at hl
    | cons d r' => exact ⟨(d :: r').dropLast, by simp [List.dropLast]⟩
  · exact ⟨r, rfl⟩

theorem replaceAll_cons (r' ph : Str) (c : Char) (l : Str) (h : ¬(c = '/' ∧ l.head? = some '/')) :
    replaceAll ('/' :: '/' :: r') ph (c :: l) = c :: replaceAll ('/' :: '/' :: r') ph l := by
  unfold replaceAll
  have hl : (c :: l).length + 1 = (l.length + 1) + 1 := rfl
  rw [hl, replaceAllFuel]
  have hp : ('/' :: '/' :: r').isPrefixOf (c :: l) = false := by
    cases l with
    | nil => simp [List.isPrefixOf]
    | cons d l' =>
      simp only [List.isPrefixOf, Bool.and_eq_false_imp, beq_iff_eq]
      intro e1 e2
      exact absurd ⟨e1.symm, by rw [← e2]; rfl⟩ h
  simp [hp]

/-- a character in front of a line that neither completes a `//` nor is a `:` in front of one is passed through -/
theorem lexLine_cons (cm : Bool) (st : LexSt) (c : Char) (l : Str) (h1 : ¬(c = '/' ∧ l.head? = some '/'))
    (h2 : ¬(c = ':' ∧ ['/', '/'] <+: l)) :
    lexLineComment cm st (c :: l) = ((lexLineComment cm st l).1, c :: (lexLineComment cm st l).2) := by
  have e1 : findLineComment none (c :: l) = (findLineComment (some c) l).map fun (b, t) => (c :: b, t) := by
    rw [findLineComment]
    intro r' e1 e2; exact h1 ⟨e1, by rw [e2]; rfl⟩
  have e2 : findLineComment (some c) l = findLineComment none l :=
    findLC_prev (some c) l (fun ⟨a, b⟩ => h2 ⟨by simpa using a, b⟩)
  unfold lexLineComment
  rw [e1, e2]
  cases hf : findLineComment none l with
  | none => rfl
  | some p =>
    obtain ⟨b, tail⟩ := p
    simp only [Option.map_some]
    rcases dropFinalNl tail with ⟨cmt, nl⟩
    rfl

/-! ### one character of the text -/

theorem lexLine_single (cm : Bool) (st : LexSt) (c : Char) : lexLineComment cm st [c] = (st, [c]) :=
  C02.lexLineComment_id cm st (C02.Main.infix2_single _ _ _)

theorem lexLine_crlf (cm : Bool) (st : LexSt) : lexLineComment cm st ['\r', '\n'] = (st, ['\r', '\n']) :=
  C02.lexLineComment_id cm st (by decide)

theorem LM_crlf (cm : Bool) (st : LexSt) (r : Str) :
    LM cm st ('\r' :: '\n' :: r) = ((LM cm st r).1, ['\r', '\n'] :: (LM cm st r).2) := by
  simp only [LM, split_crlf, lineMap, lexLine_crlf]

theorem LM_break (cm : Bool) (st : LexSt) {c : Char} (r : Str) (hb : isLineBreak c = true)
    (h : ¬(c = '\r' ∧ r.head? = some '\n')) :
    LM cm st (c :: r) = ((LM cm st r).1, [c] :: (LM cm st r).2) := by
  simp only [LM, split_break r hb h, lineMap, lexLine_single]

theorem LM_plain (cm : Bool) (st : LexSt) {c : Char} (r : Str) (hb : isLineBreak c = false)
    (h1 : ¬(c = '/' ∧ r.head? = some '/')) (h2 : ¬(c = ':' ∧ ['/', '/'] <+: r)) :
    LM cm st (c :: r) = ((LM cm st r).1, consLine c (LM cm st r).2) := by
  simp only [LM, split_plain r hb]
  cases hs : splitLinesKeep r with
  | nil => simp only [consLine, lineMap, lexLine_single]
  | cons l ls =>
    obtain ⟨hne, hr⟩ := first_line hs
    have h1' : ¬(c = '/' ∧ l.head? = some '/') := by
      rintro ⟨e1, e2⟩
      refine h1 ⟨e1, ?_⟩
      rw [hr]
      cases l with
      | nil => exact absurd rfl hne
      | cons d l' => simpa using e2
    have h2' : ¬(c = ':' ∧ ['/', '/'] <+: l) := by
      rintro ⟨e1, e2⟩
      refine h2 ⟨e1, ?_⟩
      rw [hr]
      exact e2.trans (List.prefix_append _ _)
    simp only [consLine, lineMap, lexLine_cons cm st c l h1' h2']

/-- no include directive on the line -/
def IFree (l : Str) : Prop := (dropWs l).head? ≠ some '#'

/-- all lines but the first are free of include directives; the first one too when `bit` says that only white
    space precedes it on its line -/
def InvB (bit : Bool) (ls : List Str) : Prop :=
  (∀ l ∈ ls.tail, IFree l) ∧ (bit = true → ∀ l ∈ ls.head?, IFree l)

theorem invB_all {ls : List Str} (h : InvB true ls) : ∀ l ∈ ls, IFree l := by
  cases ls with
  | nil => simp
  | cons l0 ls =>
    intro l hl
    rcases List.mem_cons.mp hl with rfl | hl
    · exact h.2 rfl l (by simp)
    · exact h.1 l hl

theorem invB_of_all {ls : List Str} (h : ∀ l ∈ ls, IFree l) (b : Bool) : InvB b ls := by
  cases ls with
  | nil => exact ⟨by simp, by simp⟩
  | cons l0 ls => exact ⟨fun l hl => h l (by simp at hl; simp [hl]), fun _ l hl => h l (by simp at hl; simp [hl])⟩

theorem invB_weaken {ls : List Str} (h : InvB true ls) (b : Bool) : InvB b ls := invB_of_all (invB_all h) b

theorem iFree_ws {c : Char} (h : isWs c = true) (l : Str) : IFree (c :: l) ↔ IFree l := by
  simp only [IFree, C02.Main.dropWs_cons_ws h]

theorem iFree_nws {c : Char} (h : isWs c = false) (hc : c ≠ '#') (l : Str) : IFree (c :: l) := by
  simp [IFree, C02.Main.dropWs_cons_nws h, hc]

theorem iFree_nil : IFree [] := by simp [IFree, dropWs]

theorem iFree_any {c : Char} (hc : c ≠ '#') : IFree [c] := by
  cases hw : isWs c with
  | true => exact (iFree_ws hw []).mpr iFree_nil
  | false => exact iFree_nws hw hc []

/-- the character `c` in front of the text `r` neither completes a `//` nor is a `:` in front of one -/
def PassC (c : Char) (r : Str) : Prop := ¬(c = '/' ∧ r.head? = some '/') ∧ ¬(c = ':' ∧ ['/', '/'] <+: r)

theorem LM_step (cm : Bool) (st : LexSt) (c : Char) (r : Str) (h : PassC c r) :
    (LM cm st (c :: r)).1 = (LM cm st r).1 ∧ (LM cm st (c :: r)).2.flatten = c :: (LM cm st r).2.flatten ∧
    ∀ b, (b = true → c ≠ '#') → InvB (nextSt b c) (LM cm st r).2 → InvB b (LM cm st (c :: r)).2 := by
  by_cases hb : isLineBreak c = true
  · have hws := C02.Main.lineBreak_ws hb
    have hnext : ∀ b, nextSt b c = true := fun b => by simp [nextSt, hb]
    by_cases hcr : c = '\r' ∧ r.head? = some '\n'
    · obtain ⟨rfl, hr⟩ := hcr
      cases r with
      | nil => simp at hr
      | cons d r2 =>
        simp only [List.head?_cons, Option.some.injEq] at hr
        subst hr
        have e2 := LM_break cm st r2 C02.isLineBreak_nl (by simp)
        rw [LM_crlf, e2]
        refine ⟨rfl, by simp, ?_⟩
        intro b _ hinv
        rw [hnext] at hinv
        have hall := invB_all hinv
        refine invB_of_all ?_ b
        intro l hl
        rcases List.mem_cons.mp hl with rfl | hl
        · simp [IFree]; decide
        · exact hall l (by simp [hl])
    · rw [LM_break cm st r hb hcr]
      refine ⟨rfl, by simp, ?_⟩
      intro b _ hinv
      rw [hnext] at hinv
      have hall := invB_all hinv
      refine invB_of_all ?_ b
      intro l hl
      rcases List.mem_cons.mp hl with rfl | hl
      · exact (iFree_ws hws []).mpr iFree_nil
      · exact hall l hl
  · have hb' : isLineBreak c = false := by simpa using hb
    rw [LM_plain cm st r hb' h.1 h.2]
    refine ⟨rfl, consLine_flatten _ _, ?_⟩
    intro b hc hinv
    have hnext : nextSt b c = (b && isWs c) := by simp [nextSt, hb']
    rw [hnext] at hinv
    cases hls : (LM cm st r).2 with
    | nil =>
      refine ⟨by simp [consLine], ?_⟩
      intro hbt l hl
      simp only [consLine, List.head?_cons, Option.mem_def, Option.some.injEq] at hl
      subst hl
      exact iFree_any (hc hbt)
    | cons l0 ls =>
      rw [hls] at hinv
      refine ⟨by simpa [consLine] using hinv.1, ?_⟩
      intro hbt l hl
      simp only [consLine, List.head?_cons, Option.mem_def, Option.some.injEq] at hl
      subst hl
      cases hw : isWs c with
      | true =>
        rw [iFree_ws hw]
        exact hinv.2 (by simp [hbt, hw]) l0 (by simp)
      | false => exact iFree_nws hw (hc hbt) _

/-- every character of `p`, in front of what follows it in `p ++ q`, is passed through -/
def PassA : Str → Str → Prop
  | [], _ => True
  | c :: p, q => PassC c (p ++ q) ∧ PassA p q

theorem LM_pass (cm : Bool) : ∀ (p q : Str) (st : LexSt), PassA p q →
    (LM cm st (p ++ q)).1 = (LM cm st q).1 ∧ (LM cm st (p ++ q)).2.flatten = p ++ (LM cm st q).2.flatten ∧
    ∀ b, noHash b p = true → InvB (lineSt b p) (LM cm st q).2 → InvB b (LM cm st (p ++ q)).2
  | [], q, st, _ => ⟨rfl, rfl, fun b _ h => h⟩
  | c :: p, q, st, h => by
    obtain ⟨i1, i2, i3⟩ := LM_pass cm p q st h.2
    obtain ⟨s1, s2, s3⟩ := LM_step cm st c (p ++ q) h.1
    refine ⟨by rw [List.cons_append, s1, i1], by rw [List.cons_append, s2, i2]; rfl, ?_⟩
    intro b hn hinv
    simp only [noHash, Bool.and_eq_true, Bool.not_eq_true', Bool.and_eq_false_imp, beq_eq_false_iff_ne] at hn
    rw [List.cons_append]
    refine s3 b (fun hb => hn.1 hb) (i3 _ hn.2 ?_)
    simpa [lineSt] using hinv

theorem passA_plain : ∀ (p q : Str), (∀ c ∈ p, c ≠ '/' ∧ c ≠ ':') → PassA p q
  | [], _, _ => trivial
  | c :: p, q, h =>
    ⟨⟨fun e => (h c (by simp)).1 e.1, fun e => (h c (by simp)).2 e.1⟩,
      passA_plain p q (fun d hd => h d (by simp [hd]))⟩

theorem passA_of : ∀ (p q : Str), isInfix ['/', '/'] p = false → q.head? ≠ some '/' → PassA p q
  | [], _, _, _ => trivial
  | c :: p, q, h, hq => by
    rw [C02.isInfix_cons] at h
    simp only [Bool.or_eq_false_iff] at h
    refine ⟨⟨?_, ?_⟩, passA_of p q h.2 hq⟩
    · rintro ⟨rfl, e⟩
      cases p with
      | nil => exact hq (by simpa using e)
      | cons d p' =>
        simp only [List.cons_append, List.head?_cons, Option.some.injEq] at e
        subst e
        simp [List.isPrefixOf] at h
    · rintro ⟨rfl, t, ht⟩
      cases p with
      | nil =>
        simp only [List.nil_append] at ht
        exact hq (by rw [← ht]; rfl)
      | cons d p' =>
        cases p' with
        | nil =>
          simp only [List.cons_append, List.nil_append, List.cons.injEq] at ht
          exact hq (by rw [← ht.2]; rfl)
        | cons d' p'' =>
          simp only [List.cons_append, List.cons.injEq] at ht
          obtain ⟨rfl, rfl, _⟩ := ht
          have := h.2
          simp [C02.isInfix_cons, List.isPrefixOf] at this

theorem ws_ne {c : Char} (h : isWs c = true) : c ≠ '/' ∧ c ≠ ':' ∧ c ≠ '*' ∧ c ≠ '#' := by
  refine ⟨?_, ?_, ?_, ?_⟩ <;> (rintro rfl; revert h; decide)

theorem delim_ne : ∀ c ∈ Gen.delimiters, c ≠ '/' ∧ c ≠ ':' ∧ c ≠ '*' ∧ c ≠ '#' ∧ isWs c = false := by decide

/-! ### one line comment -/

theorem lines_nobreak_nl : ∀ (a b : Str), (∀ c ∈ a, isLineBreak c = false) →
    splitLinesKeep (a ++ '\n' :: b) = (a ++ ['\n']) :: splitLinesKeep b
  | [], b, _ => split_break b C02.isLineBreak_nl (by simp)
  | c :: a, b, h => by
    rw [List.cons_append, split_plain _ (h c (by simp)), lines_nobreak_nl a b (fun d hd => h d (by simp [hd]))]
    rfl

theorem lines_nobreak : ∀ (a : Str), a ≠ [] → (∀ c ∈ a, isLineBreak c = false) → splitLinesKeep a = [a]
  | [], h, _ => absurd rfl h
  | [c], _, h => by rw [split_plain _ (h c (by simp))]; rfl
  | c :: d :: a, _, h => by
    rw [split_plain _ (h c (by simp)), lines_nobreak (d :: a) (by simp) (fun e he => h e (by simp [he]))]
    rfl

/-- the lexer state after a line comment with text `x` -/
def stL (st : LexSt) (x : Str) : LexSt :=
  { st.fresh.2 with lineC := st.fresh.2.lineC.set st.fresh.1 ('/' :: '/' :: x) }

/-- the placeholder the next line comment gets -/
def phL (cm : Bool) (st : LexSt) : Str := if cm then kwLine ++ padSix st.fresh.1 else []

theorem nl_not_mem {x : Str} (hx : ∀ c ∈ x, isLineBreak c = false) : '\n' ∉ x := fun hm => by
  have := hx _ hm; rw [C02.isLineBreak_nl] at this; cases this

theorem lexLine_comment (cm : Bool) (st : LexSt) (x nl : Str) (hx : ∀ c ∈ x, isLineBreak c = false)
    (hnl : nl = [] ∨ nl = ['\n']) :
    lexLineComment cm st ('/' :: '/' :: x ++ nl) = (stL st x, phL cm st ++ nl) := by
  have := C12_lineComment cm st [] x nl (by simp) (by simp) (nl_not_mem hx) hnl
  simpa [stL, phL] using this

theorem iFree_ph (cm : Bool) (st : LexSt) (nl : Str) (hnl : nl = [] ∨ nl = ['\n']) : IFree (phL cm st ++ nl) := by
  cases cm with
  | true =>
    have e : phL true st = 'L' :: ("INECOMMENT".toList ++ padSix st.fresh.1) := rfl
    rw [e, List.cons_append]
    exact iFree_nws (by decide) (by decide) _
  | false =>
    rcases hnl with rfl | rfl
    · simpa [phL] using iFree_nil
    · simp [phL, IFree]; decide

theorem LM_lineC (cm : Bool) (st : LexSt) (x q : Str) (hx : ∀ c ∈ x, isLineBreak c = false)
    (hq : q = [] ∨ q.head? = some '\n') :
    (LM cm st ('/' :: '/' :: x ++ q)).1 = (LM cm (stL st x) q).1 ∧
    (LM cm st ('/' :: '/' :: x ++ q)).2.flatten = phL cm st ++ (LM cm (stL st x) q).2.flatten ∧
    (InvB true (LM cm (stL st x) q).2 → InvB true (LM cm st ('/' :: '/' :: x ++ q)).2) := by
  have hx' : ∀ c ∈ '/' :: '/' :: x, isLineBreak c = false := by
    intro c hc
    simp only [List.mem_cons] at hc
    rcases hc with rfl | rfl | hc
    · decide
    · decide
    · exact hx c hc
  rcases hq with rfl | hq
  · have h1 := lexLine_comment cm st x [] hx (Or.inl rfl)
    simp only [List.append_nil] at h1 ⊢
    simp only [LM, lines_nobreak _ (by simp) hx', lineMap, h1, splitLinesKeep]
    refine ⟨trivial, by simp, fun _ => invB_of_all ?_ true⟩
    intro l hl
    simp only [List.mem_singleton] at hl
    subst hl
    simpa using iFree_ph cm st [] (Or.inl rfl)
  · cases q with
    | nil => simp at hq
    | cons d q' =>
      simp only [List.head?_cons, Option.some.injEq] at hq
      subst hq
      have h1 := lexLine_comment cm st x ['\n'] hx (Or.inr rfl)
      have e2 := LM_break cm (stL st x) q' C02.isLineBreak_nl (by simp)
      rw [e2]
      simp only [LM, lines_nobreak_nl _ q' hx', lineMap, h1]
      refine ⟨trivial, by simp, fun hinv => invB_of_all ?_ true⟩
      have hall := invB_all hinv
      intro l hl
      rcases List.mem_cons.mp hl with rfl | hl
      · exact iFree_ph cm st ['\n'] (Or.inr rfl)
      · exact hall l (by simp [hl])

/-! ### the include scan of a block comment -/

theorem iFree_head {c : Char} {l : Str} (h : IFree (c :: l)) : c ≠ '#' := by
  rintro rfl
  exact h (by simp [IFree, C02.Main.dropWs_cons_nws (by decide : isWs '#' = false)])

/-- the scan `noHash` is complete for `splitlines` -/
theorem noHash_complete (s : Str) : ∀ b, (∀ l ∈ (splitLinesKeep s).tail, IFree l) →
    (b = true → ∀ l ∈ (splitLinesKeep s).head?, IFree l) → noHash b s = true := by
  fun_induction splitLinesKeep s with
  | case1 => intro b _ _; rfl
  | case2 r ih =>
    intro b h1 _
    have e1 : nextSt b '\r' = true := by simp [nextSt]; left; decide
    have e2 : nextSt true '\n' = true := by simp [nextSt]; decide
    have := ih true (fun l hl => h1 l (by simp [List.mem_of_mem_tail hl]))
      (fun _ l hl => h1 l (by simp [List.mem_of_mem_head? hl]))
    simp [noHash, e1, e2, this]
  | case3 c r hne hb ih =>
    intro b h1 _
    have e1 : nextSt b c = true := by simp [nextSt, hb]
    have hc : c ≠ '#' := (ws_ne (C02.Main.lineBreak_ws hb)).2.2.2
    have := ih true (fun l hl => h1 l (by simp [List.mem_of_mem_tail hl]))
      (fun _ l hl => h1 l (by simp [List.mem_of_mem_head? hl]))
    simp [noHash, e1, this, hc]
  | case4 c r hne hb hnil ih =>
    intro b _ h2
    have hr := lines_nil hnil
    subst hr
    simp only [noHash, Bool.and_true, Bool.not_eq_true', Bool.and_eq_false_imp, beq_eq_false_iff_ne]
    intro hb
    exact iFree_head (h2 hb [c] (by simp))
  | case5 c r hne hb l0 ls hcons ih =>
    intro b h1 h2
    have hb' : isLineBreak c = false := by simpa using hb
    rw [hcons] at ih
    have hc : b = true → c ≠ '#' := fun hbt => iFree_head (h2 hbt (c :: l0) (by simp))
    have := ih (b && isWs c) (by simpa using h1) (by
      intro hbw l hl
      simp only [List.head?_cons, Option.mem_def, Option.some.injEq] at hl
      subst hl
      simp only [Bool.and_eq_true] at hbw
      have := h2 hbw.1 (c :: l0) (by simp)
      rwa [iFree_ws hbw.2] at this)
    simp only [noHash, nextSt, hb', Bool.false_eq_true, if_false, this, Bool.and_true, Bool.not_eq_true',
      Bool.and_eq_false_imp, beq_eq_false_iff_ne]
    exact hc

theorem noHash_mono : ∀ (s : Str), noHash true s = true → noHash false s = true
  | [], _ => rfl
  | c :: s, h => by
    simp only [noHash, Bool.and_eq_true] at h ⊢
    refine ⟨by simp, ?_⟩
    by_cases hb : isLineBreak c = true
    · simpa [nextSt, hb] using h.2
    · have hb' : isLineBreak c = false := by simpa using hb
      simp only [nextSt, hb', Bool.false_eq_true, if_false, Bool.false_and] at h ⊢
      cases hw : isWs c with
      | true => rw [hw] at h; exact noHash_mono s h.2
      | false => rw [hw] at h; simpa using h.2

/-- everything `isBlockCText` says -/
theorem blockText_iff {x : Str} : isBlockCText x = true ↔
    isInfix ['*', '/'] x = false ∧ isInfix ['/', '/'] x = false ∧ x.getLast? ≠ some '*' ∧ x.head? ≠ some '/' ∧
    ∀ l ∈ splitLinesKeep x, IFree l := by
  simp only [isBlockCText, IFree, Bool.and_eq_true, Bool.not_eq_true', List.all_eq_true, bne_iff_ne, ne_eq,
    beq_eq_false_iff_ne, and_assoc]

theorem blockTok_noHash {x : Str} (hx : isBlockCText x = true) (b : Bool) :
    noHash b ('/' :: '*' :: x ++ ['*', '/']) = true ∧ lineSt b ('/' :: '*' :: x ++ ['*', '/']) = false := by
  obtain ⟨_, _, _, _, hl⟩ := blockText_iff.mp hx
  have h1 : noHash false x = true :=
    noHash_mono x (noHash_complete x true (fun l hl' => hl l (List.mem_of_mem_tail hl'))
      (fun _ l hl' => hl l (List.mem_of_mem_head? hl')))
  have c1 : isLineBreak '/' = false := by decide
  have c2 : isWs '/' = false := by decide
  have c3 : isLineBreak '*' = false := by decide
  have c4 : isWs '*' = false := by decide
  have e1 : nextSt b '/' = false := by simp [nextSt, c1, c2]
  have e2 : nextSt false '*' = false := by simp [nextSt, c3]
  have e3 : ∀ b, nextSt b '*' = false := by intro b; simp [nextSt, c3, c4]
  have e4 : nextSt false '/' = false := by simp [nextSt, c1]
  have a1 : '/' :: '*' :: x ++ ['*', '/'] = ['/', '*'] ++ (x ++ ['*', '/']) := by simp
  have hend : ∀ b, noHash b ['*', '/'] = true ∧ lineSt b ['*', '/'] = false := by
    intro b
    simp [noHash, lineSt, e3, e4]
  constructor
  · rw [a1, C02.Main.noHash_append, C02.Main.noHash_append]
    simp [noHash, lineSt, e1, e2, h1, (hend _).1]
  · have lineSt_append : ∀ (a c : Str) (b : Bool), lineSt b (a ++ c) = lineSt (lineSt b a) c := by
      intro a c
      induction a with
      | nil => intro b; rfl
      | cons d a ih => intro b; simp [lineSt, ih]
    rw [a1, lineSt_append, lineSt_append, (hend _).2]

theorem blockTok_noSS {x : Str} (hx : isBlockCText x = true) :
    isInfix ['/', '/'] ('/' :: '*' :: x ++ ['*', '/']) = false := by
  obtain ⟨_, h2, _, h4, _⟩ := blockText_iff.mp hx
  have a1 : '/' :: '*' :: x ++ ['*', '/'] = (['/', '*'] ++ x) ++ ['*', '/'] := by simp
  rw [a1]
  refine C02.Main.infix2_append (C02.Main.infix2_append (by decide) h2 ?_) (by decide) ?_
  · intro h _; simp at h
  · intro _ h; simp at h

/-! ## 3. admissible layouts, one token at a time -/

theorem spreadC_nil (gaps : List Str) (tail : Str) : spreadC [] gaps tail = tail := rfl

theorem spreadC_cons (t : CTok) (ts : List CTok) (g : Str) (gs : List Str) (tail : Str) :
    spreadC (t :: ts) (g :: gs) tail = g ++ (t.text ++ spreadC ts gs tail) := by
  simp [spreadC, spread]

theorem gapsOKC_head_ws {t : CTok} {ts : List CTok} {g : Str} {gs : List Str} {tail : Str}
    (h : GapsOKC (t :: ts) (g :: gs) tail = true) : g.all isWs = true := by
  cases ts with
  | nil => simp only [GapsOKC, Bool.and_eq_true] at h; exact h.1.1
  | cons u ts =>
    cases gs with
    | nil => simp [GapsOKC] at h
    | cons g' gs => simp only [GapsOKC, Bool.and_eq_true] at h; exact h.1.1

/-- what an admissible layout says about the text behind a token -/
def NextOK (t : CTok) (g next : Str) : Prop :=
  match t with
  | .lineC _ => g ≠ [] ∧ (next = [] ∨ next.head? = some '\n')
  | .blockC _ => g ≠ [] ∧ ∀ c, next.head? = some c → isWs c = true
  | .tok a => isDelimSTok a = true ∨ ∀ c, next.head? = some c → isWs c = true ∨ c ∈ Gen.delimiters

theorem head_of_ws {g r : Str} (hg : g.all isWs = true) (hne : g ≠ []) : ∀ c, (g ++ r).head? = some c → isWs c = true := by
  cases g with
  | nil => exact absurd rfl hne
  | cons d g =>
    intro c hc
    simp only [List.cons_append, List.head?_cons, Option.some.injEq] at hc
    subst hc
    simp only [List.all_cons, Bool.and_eq_true] at hg
    exact hg.1

theorem gapsOKC_inv {t : CTok} {ts : List CTok} {gaps : List Str} {tail : Str}
    (h : GapsOKC (t :: ts) gaps tail = true) (htail : tail.all isWs = true) :
    ∃ g gs, gaps = g :: gs ∧ g.all isWs = true ∧ GapsOKC ts gs tail = true ∧ NextOK t g (spreadC ts gs tail) := by
  have htl : ∀ c, tail.head? = some c → isWs c = true := fun c hc =>
    List.all_eq_true.mp htail c (List.mem_of_mem_head? hc)
  cases ts with
  | nil =>
    cases gaps with
    | nil => simp [GapsOKC] at h
    | cons g gs =>
      refine ⟨g, gs, rfl, gapsOKC_head_ws h, by simp [GapsOKC], ?_⟩
      simp only [GapsOKC, Bool.and_eq_true] at h
      rw [spreadC_nil]
      cases t with
      | tok a => exact Or.inr fun c hc => Or.inl (htl c hc)
      | lineC x =>
        have := h.2
        simp only [Bool.and_eq_true, Bool.not_eq_true', List.isEmpty_eq_false_iff, Bool.or_eq_true,
          List.isEmpty_iff, beq_iff_eq] at this
        exact ⟨this.1, this.2⟩
      | blockC x =>
        have := h.2
        simp only [Bool.not_eq_true', List.isEmpty_eq_false_iff] at this
        exact ⟨this, htl⟩
  | cons u ts =>
    cases gaps with
    | nil => simp [GapsOKC] at h
    | cons g gs =>
      cases gs with
      | nil => simp [GapsOKC] at h
      | cons g' gs =>
        have hg := gapsOKC_head_ws h
        simp only [GapsOKC, Bool.and_eq_true] at h
        obtain ⟨⟨_, hm⟩, hrest⟩ := h
        have hg' := gapsOKC_head_ws hrest
        refine ⟨g, g' :: gs, rfl, hg, hrest, ?_⟩
        rw [spreadC_cons]
        cases t with
        | lineC x =>
          simp only [Bool.and_eq_true, Bool.not_eq_true', List.isEmpty_eq_false_iff, beq_iff_eq] at hm
          refine ⟨hm.1, Or.inr ?_⟩
          cases g' with
          | nil => simp at hm
          | cons d g' => simpa using hm.2
        | blockC x =>
          simp only [Bool.and_eq_true, Bool.not_eq_true', List.isEmpty_eq_false_iff] at hm
          exact ⟨hm.1, head_of_ws hg' hm.2⟩
        | tok a =>
          cases u with
          | tok b =>
            simp only [Bool.or_eq_true, Bool.not_eq_true', List.isEmpty_eq_false_iff] at hm
            rcases hm with (hm | hm) | hm
            · exact Or.inl hm
            · right
              cases g' with
              | cons d g' => exact fun c hc => Or.inl (head_of_ws hg' (by simp) c hc)
              | nil =>
                cases b with
                | quoted q body => simp [isDelimSTok] at hm
                | word w =>
                  obtain ⟨d, rfl, hd⟩ := C02.delimTok_inv hm
                  intro c hc
                  simp only [CTok.text, STok.text, List.nil_append, List.cons_append, List.head?_cons,
                    Option.some.injEq] at hc
                  subst hc
                  exact Or.inr hd
            · exact Or.inr fun c hc => Or.inl (head_of_ws hg' hm c hc)
          | lineC y =>
            simp only [Bool.not_eq_true', List.isEmpty_eq_false_iff] at hm
            exact Or.inr fun c hc => Or.inl (head_of_ws hg' hm c hc)
          | blockC y =>
            simp only [Bool.not_eq_true', List.isEmpty_eq_false_iff] at hm
            exact Or.inr fun c hc => Or.inl (head_of_ws hg' hm c hc)

/-! ### the tokens of a well-formed commented document -/

/-- an admissible token of a commented document -/
def AOK : CTok → Prop
  | .tok a => C02.TokOK a
  | .lineC x => isLineCText x = true
  | .blockC x => isBlockCText x = true

mutual
  theorem ctoksV_ok : ∀ (v : CSrc) (d : Nat), CSrcWFV d v = true → ∀ t ∈ ctoksV v, AOK t
    | .lit l, d, h, t, ht => by
      simp only [CSrcWFV, Bool.and_eq_true] at h
      simp only [ctoksV, List.mem_singleton] at ht
      subst ht
      cases l with
      | bare w => exact Or.inl h.1
      | quoted q b => exact h.1
    | .dict items, d, h, t, ht => by
      simp only [CSrcWFV] at h
      simp only [ctoksV, List.mem_cons, List.mem_append, List.not_mem_nil, or_false] at ht
      rcases ht with (rfl | ht) | rfl
      · exact C02.tokOK_delim (by decide)
      · exact ctoksI_ok items (d + 1) h t ht
      · exact C02.tokOK_delim (by decide)
    | .list xs, d, h, t, ht => by
      simp only [CSrcWFV] at h
      simp only [ctoksV, List.mem_cons, List.mem_append, List.not_mem_nil, or_false, List.mem_map] at ht
      rcases ht with (rfl | ⟨a, ha, rfl⟩) | rfl
      · exact C02.tokOK_delim (by decide)
      · exact C02.srcToksXs_ok xs (d + 1) h a ha
      · exact C02.tokOK_delim (by decide)
  theorem ctoksI_ok : ∀ (items : List CItem) (d : Nat), CSrcWFItems d items = true → ∀ t ∈ ctoksItems items, AOK t
    | [], _, _, t, ht => by simp [ctoksItems] at ht
    | .entry k (.lit l) :: r, d, h, t, ht => by
      simp only [CSrcWFItems, Bool.and_eq_true] at h
      obtain ⟨⟨⟨hk, _⟩, hv⟩, hr⟩ := h
      simp only [ctoksItems, List.mem_cons] at ht
      rcases ht with rfl | rfl | rfl | ht
      · exact Or.inl hk
      · exact ctoksV_ok (.lit l) d hv _ (by simp [ctoksV])
      · exact C02.tokOK_delim (by decide)
      · exact ctoksI_ok r d hr t ht
    | .entry k (.dict dd) :: r, d, h, t, ht => by
      simp only [CSrcWFItems, CSrcWFV, Bool.and_eq_true] at h
      obtain ⟨⟨⟨hk, _⟩, hv⟩, hr⟩ := h
      simp only [ctoksItems, List.mem_cons, List.mem_append, List.not_mem_nil, or_false] at ht
      rcases ht with ((rfl | rfl | ht) | rfl) | ht
      · exact Or.inl hk
      · exact C02.tokOK_delim (by decide)
      · exact ctoksI_ok dd (d + 1) hv t ht
      · exact C02.tokOK_delim (by decide)
      · exact ctoksI_ok r d hr t ht
    | .entry k (.list l) :: r, d, h, t, ht => by
      simp only [CSrcWFItems, CSrcWFV, Bool.and_eq_true] at h
      obtain ⟨⟨⟨hk, _⟩, hv⟩, hr⟩ := h
      simp only [ctoksItems, List.mem_cons, List.mem_append, List.not_mem_nil, or_false, List.mem_map] at ht
      rcases ht with ((rfl | rfl | ⟨a, ha, rfl⟩) | rfl | rfl) | ht
      · exact Or.inl hk
      · exact C02.tokOK_delim (by decide)
      · exact C02.srcToksXs_ok l (d + 1) hv a ha
      · exact C02.tokOK_delim (by decide)
      · exact C02.tokOK_delim (by decide)
      · exact ctoksI_ok r d hr t ht
    | .lineC x :: r, d, h, t, ht => by
      simp only [CSrcWFItems, Bool.and_eq_true] at h
      simp only [ctoksItems, List.mem_cons] at ht
      rcases ht with rfl | ht
      · exact h.1
      · exact ctoksI_ok r d h.2 t ht
    | .blockC x :: r, d, h, t, ht => by
      simp only [CSrcWFItems, Bool.and_eq_true] at h
      simp only [ctoksItems, List.mem_cons] at ht
      rcases ht with rfl | ht
      · exact h.1
      · exact ctoksI_ok r d h.2 t ht
end

/-! ## 4. stage 1 on an admissible layout -/

/-- the tokens after stage 1: a line comment has become its placeholder word (or the empty word with comments off) -/
def lineToks (cm : Bool) : LexSt → List CTok → LexSt × List CTok
  | st, [] => (st, [])
  | st, .tok a :: r => ((lineToks cm st r).1, .tok a :: (lineToks cm st r).2)
  | st, .blockC x :: r => ((lineToks cm st r).1, .blockC x :: (lineToks cm st r).2)
  | st, .lineC x :: r => ((lineToks cm (stL st x) r).1, .tok (.word (phL cm st)) :: (lineToks cm (stL st x) r).2)

theorem tok_passA {a : STok} (ha : C02.TokOK a) {g next : Str} (hn : NextOK (.tok a) g next) : PassA a.text next := by
  rcases hn with hd | hn
  · cases a with
    | quoted q b => simp [isDelimSTok] at hd
    | word w =>
      obtain ⟨d, rfl, hd'⟩ := C02.delimTok_inv hd
      refine passA_plain _ _ ?_
      intro c hc
      simp only [STok.text, List.mem_singleton] at hc
      subst hc
      exact ⟨(delim_ne c hd').1, (delim_ne c hd').2.1⟩
  · refine passA_of _ _ (C02.Main.tok_noPair ha (Or.inl rfl)).1 ?_
    intro hh
    rcases hn _ hh with h | h
    · exact (ws_ne h).1 rfl
    · exact (delim_ne _ h).1 rfl

theorem stageA (cm : Bool) : ∀ (ts : List CTok) (gaps : List Str) (tail : Str) (st : LexSt),
    (∀ t ∈ ts, AOK t) → GapsOKC ts gaps tail = true → tail.all isWs = true →
    (LM cm st (spreadC ts gaps tail)).1 = (lineToks cm st ts).1 ∧
    (LM cm st (spreadC ts gaps tail)).2.flatten = spreadC (lineToks cm st ts).2 gaps tail ∧
    InvB true (LM cm st (spreadC ts gaps tail)).2
  | [], gaps, tail, st, _, _, htail => by
    have hws := List.all_eq_true.mp htail
    obtain ⟨p1, p2, p3⟩ := LM_pass cm tail [] st
      (passA_plain _ _ fun c hc => ⟨(ws_ne (hws c hc)).1, (ws_ne (hws c hc)).2.1⟩)
    simp only [List.append_nil, LM_nil] at p1 p2 p3
    rw [spreadC_nil]
    refine ⟨p1, by simpa [lineToks, spreadC_nil] using p2, ?_⟩
    exact p3 true (C02.Main.noHash_ws tail true htail) ⟨by simp, by simp⟩
  | t :: ts, gaps, tail, st, hts, hg, htail => by
    obtain ⟨g, gs, rfl, hgws, hrest, hnext⟩ := gapsOKC_inv hg htail
    have hws := List.all_eq_true.mp hgws
    rw [spreadC_cons]
    obtain ⟨p1, p2, p3⟩ := LM_pass cm g (t.text ++ spreadC ts gs tail) st
      (passA_plain _ _ fun c hc => ⟨(ws_ne (hws c hc)).1, (ws_ne (hws c hc)).2.1⟩)
    have hts' : ∀ u ∈ ts, AOK u := fun u hu => hts u (by simp [hu])
    -- it suffices to treat the token and what follows
    suffices hin : (LM cm st (t.text ++ spreadC ts gs tail)).1 = (lineToks cm st (t :: ts)).1 ∧
        g ++ (LM cm st (t.text ++ spreadC ts gs tail)).2.flatten = spreadC (lineToks cm st (t :: ts)).2 (g :: gs) tail ∧
        InvB true (LM cm st (t.text ++ spreadC ts gs tail)).2 by
      refine ⟨p1.trans hin.1, p2.trans hin.2.1, ?_⟩
      exact p3 true (C02.Main.noHash_ws g true hgws) (invB_weaken hin.2.2 _)
    cases t with
    | tok a =>
      have ha : C02.TokOK a := hts (.tok a) (by simp)
      obtain ⟨i1, i2, i3⟩ := stageA cm ts gs tail st hts' hrest htail
      obtain ⟨q1, q2, q3⟩ := LM_pass cm a.text (spreadC ts gs tail) st (tok_passA ha hnext)
      simp only [CTok.text, lineToks, spreadC_cons]
      refine ⟨q1.trans i1, by rw [q2, i2], ?_⟩
      exact q3 true (C02.Main.noHash_tok ha true).1 (invB_weaken i3 _)
    | blockC x =>
      have hx : isBlockCText x = true := hts (.blockC x) (by simp)
      obtain ⟨i1, i2, i3⟩ := stageA cm ts gs tail st hts' hrest htail
      have hpass : PassA ('/' :: '*' :: x ++ ['*', '/']) (spreadC ts gs tail) := by
        refine passA_of _ _ (blockTok_noSS hx) ?_
        intro hh
        exact (ws_ne (hnext.2 _ hh)).1 rfl
      obtain ⟨q1, q2, q3⟩ := LM_pass cm _ (spreadC ts gs tail) st hpass
      simp only [CTok.text, lineToks, spreadC_cons]
      refine ⟨q1.trans i1, by rw [q2, i2], ?_⟩
      exact q3 true (blockTok_noHash hx true).1 (invB_weaken i3 _)
    | lineC x =>
      have hx : isLineCText x = true := hts (.lineC x) (by simp)
      have hx' : ∀ c ∈ x, isLineBreak c = false := by
        simpa [isLineCText, List.all_eq_true] using hx
      obtain ⟨i1, i2, i3⟩ := stageA cm ts gs tail (stL st x) hts' hrest htail
      obtain ⟨q1, q2, q3⟩ := LM_lineC cm st x (spreadC ts gs tail) hx' hnext.2
      simp only [CTok.text, lineToks, spreadC_cons, STok.text]
      exact ⟨q1.trans i1, by rw [q2, i2], q3 i3⟩

theorem gapsOKC_lineToks (cm : Bool) : ∀ (ts : List CTok) (gaps : List Str) (tail : Str) (st : LexSt),
    GapsOKC ts gaps tail = true → GapsOKC (lineToks cm st ts).2 gaps tail = true
  | [], _, _, _, _ => by simp [lineToks, GapsOKC]
  | [t], [], _, _, h => by simp [GapsOKC] at h
  | [t], g :: gs, tail, st, h => by
    cases t <;> simp_all [lineToks, GapsOKC]
  | t :: u :: ts, [], _, _, h => by simp [GapsOKC] at h
  | t :: u :: ts, [g], _, _, h => by simp [GapsOKC] at h
  | t :: u :: ts, g :: g' :: gs, tail, st, h => by
    simp only [GapsOKC, Bool.and_eq_true] at h
    obtain ⟨⟨hg, hm⟩, hrest⟩ := h
    cases t with
    | tok a =>
      have ih := gapsOKC_lineToks cm (u :: ts) (g' :: gs) tail st hrest
      cases u with
      | tok b =>
        simp only [lineToks] at ih ⊢
        simp only [GapsOKC, Bool.and_eq_true]
        exact ⟨⟨hg, hm⟩, ih⟩
      | lineC y =>
        simp only [lineToks] at ih ⊢
        simp only [GapsOKC, Bool.and_eq_true]
        refine ⟨⟨hg, ?_⟩, ih⟩
        simp only [Bool.or_eq_true]
        exact Or.inr hm
      | blockC y =>
        simp only [lineToks] at ih ⊢
        simp only [GapsOKC, Bool.and_eq_true]
        exact ⟨⟨hg, hm⟩, ih⟩
    | blockC x =>
      have ih := gapsOKC_lineToks cm (u :: ts) (g' :: gs) tail st hrest
      cases u <;>
      · simp only [lineToks] at ih ⊢
        simp only [GapsOKC, Bool.and_eq_true]
        exact ⟨⟨hg, by simpa using hm⟩, ih⟩
    | lineC x =>
      have ih := gapsOKC_lineToks cm (u :: ts) (g' :: gs) tail (stL st x) hrest
      simp only [Bool.and_eq_true, Bool.not_eq_true', List.isEmpty_eq_false_iff, beq_iff_eq] at hm
      have hg' : g'.isEmpty = false := by
        cases g' with
        | nil => simp at hm
        | cons d g' => rfl
      cases u <;>
      · simp only [lineToks] at ih ⊢
        simp only [GapsOKC, Bool.and_eq_true]
        refine ⟨⟨hg, ?_⟩, ih⟩
        simp [hg']

/-! ## 5. stage 2 (include directives) finds nothing; the first two stages together -/

theorem stages12 (cm : Bool) (dir : Str) (c : Counter) (ts : List CTok) (gaps : List Str) (tail : Str)
    (hts : ∀ t ∈ ts, AOK t) (hg : GapsOKC ts gaps tail = true) (htail : tail.all isWs = true) :
    commentStages cm dir c (spreadC ts gaps tail) =
      ({ (lineToks cm { counter := c } ts).1 with
          blockC := (lexBlockCommentsFuel cm ((spreadC (lineToks cm { counter := c } ts).2 gaps tail).length + 1) 0 []
            (spreadC (lineToks cm { counter := c } ts).2 gaps tail)).1 },
       (lexBlockCommentsFuel cm ((spreadC (lineToks cm { counter := c } ts).2 gaps tail).length + 1) 0 []
            (spreadC (lineToks cm { counter := c } ts).2 gaps tail)).2) := by
  obtain ⟨a1, a2, a3⟩ := stageA cm ts gaps tail { counter := c } hts hg htail
  have hfree := invB_all a3
  have f1 := foldl_lineMap cm (splitLinesKeep (spreadC ts gaps tail)) { counter := c } []
  have f2 := C02.Front.foldl_id_lines (lexInclude dir) (LM cm { counter := c } (spreadC ts gaps tail)).1
    (LM cm { counter := c } (spreadC ts gaps tail)).2 [] (fun l hl => C02.lexInclude_id dir _ (hfree l hl))
  simp only [List.nil_append] at f1 f2
  unfold commentStages
  simp only [f1]
  simp only [LM] at f2 a1 a2
  simp only [f2]
  simp only [a1, a2]

/-! ## 6. stage 3 (block comments), character by character -/

/-- stage 3 with exactly the fuel `parseNative` gives it -/
def BL (cm : Bool) (n : Nat) (tbl : Tbl Str) (s : Str) : Tbl Str × Str :=
  lexBlockCommentsFuel cm (s.length + 1) n tbl s

theorem takeEnd_len (r : Str) : ∀ body rest, takeToCommentEnd r = some (body, rest) → rest.length < r.length := by
  fun_induction takeToCommentEnd r with
  | case1 r =>
    intro body rest h
    simp only [Option.some.injEq, Prod.mk.injEq] at h
    obtain ⟨_, rfl⟩ := h
    simp only [List.length_cons]; omega
  | case2 c r hne ih =>
    intro body rest h
    simp only [Option.map_eq_some_iff] at h
    obtain ⟨⟨a, b⟩, h1, h2⟩ := h
    simp only [Prod.mk.injEq] at h2
    obtain ⟨_, rfl⟩ := h2
    have := ih _ _ h1
    simp; omega
  | case3 => intro body rest h; cases h

/-- more fuel than characters: the amount does not matter -/
theorem block_fuel (cm : Bool) : ∀ (f1 f2 n : Nat) (tbl : Tbl Str) (s : Str), s.length < f1 → s.length < f2 →
    lexBlockCommentsFuel cm f1 n tbl s = lexBlockCommentsFuel cm f2 n tbl s
  | 0, _, _, _, _, h, _ => by omega
  | _ + 1, 0, _, _, _, _, h => by omega
  | f1 + 1, f2 + 1, n, tbl, [], _, _ => by simp [lexBlockCommentsFuel]
  | f1 + 1, f2 + 1, n, tbl, c :: r, h1, h2 => by
    simp only [List.length_cons] at h1 h2
    by_cases hc : c = '/' ∧ r.head? = some '*'
    · obtain ⟨rfl, hr⟩ := hc
      cases r with
      | nil => simp at hr
      | cons d r' =>
        simp only [List.head?_cons, Option.some.injEq] at hr
        subst hr
        simp only [List.length_cons] at h1 h2
        rw [lexBlockCommentsFuel, lexBlockCommentsFuel]
        cases ht : takeToCommentEnd r' with
        | none =>
          simp only []
          rw [block_fuel cm f1 f2 n tbl ('*' :: r') (by simp; omega) (by simp; omega)]
        | some p =>
          obtain ⟨body, rest⟩ := p
          have := takeEnd_len r' body rest ht
          simp only []
          rw [block_fuel cm f1 f2 (n + 1) _ rest (by omega) (by omega)]
    · rw [lexBlock_step cm f1 n tbl c r hc, lexBlock_step cm f2 n tbl c r hc,
        block_fuel cm f1 f2 n tbl r (by omega) (by omega)]

theorem BL_nil (cm : Bool) (n : Nat) (tbl : Tbl Str) : BL cm n tbl [] = (tbl, []) := by
  simp [BL, lexBlockCommentsFuel]

theorem BL_step (cm : Bool) (n : Nat) (tbl : Tbl Str) (c : Char) (r : Str) (h : ¬(c = '/' ∧ r.head? = some '*')) :
    BL cm n tbl (c :: r) = ((BL cm n tbl r).1, c :: (BL cm n tbl r).2) :=
  lexBlock_step cm (r.length + 1) n tbl c r h

/-- no character of `p`, in front of what follows it in `p ++ q`, opens a block comment -/
def PassB : Str → Str → Prop
  | [], _ => True
  | c :: p, q => ¬(c = '/' ∧ (p ++ q).head? = some '*') ∧ PassB p q

theorem BL_pass (cm : Bool) (n : Nat) (tbl : Tbl Str) : ∀ (p q : Str), PassB p q →
    BL cm n tbl (p ++ q) = ((BL cm n tbl q).1, p ++ (BL cm n tbl q).2)
  | [], q, _ => rfl
  | c :: p, q, h => by
    rw [List.cons_append, BL_step cm n tbl c (p ++ q) h.1, BL_pass cm n tbl p q h.2]
    rfl

theorem passB_plain : ∀ (p q : Str), (∀ c ∈ p, c ≠ '/') → PassB p q
  | [], _, _ => trivial
  | c :: p, q, h => ⟨fun e => h c (by simp) e.1, passB_plain p q (fun d hd => h d (by simp [hd]))⟩

theorem passB_of : ∀ (p q : Str), isInfix ['/', '*'] p = false → q.head? ≠ some '*' → PassB p q
  | [], _, _, _ => trivial
  | c :: p, q, h, hq => by
    rw [C02.isInfix_cons] at h
    simp only [Bool.or_eq_false_iff] at h
    refine ⟨?_, passB_of p q h.2 hq⟩
    rintro ⟨rfl, e⟩
    cases p with
    | nil => exact hq (by simpa using e)
    | cons d p' =>
      simp only [List.cons_append, List.head?_cons, Option.some.injEq] at e
      subst e
      simp [List.isPrefixOf] at h

/-- what stage 3 puts in the place of block comment number `n` -/
def padB (cm : Bool) (n : Nat) : Str := if cm then [' '] ++ kwBlock ++ padSix n ++ [' '] else []

theorem BL_block (cm : Bool) (n : Nat) (tbl : Tbl Str) (x q : Str) (hx : isInfix ['*', '/'] x = false) :
    BL cm n tbl (('/' :: '*' :: x ++ ['*', '/']) ++ q) =
      ((BL cm (n + 1) (tbl ++ [(n, '/' :: '*' :: x ++ ['*', '/'])]) q).1,
       padB cm n ++ (BL cm (n + 1) (tbl ++ [(n, '/' :: '*' :: x ++ ['*', '/'])]) q).2) := by
  have e : ('/' :: '*' :: x ++ ['*', '/']) ++ q = '/' :: '*' :: (x ++ '*' :: '/' :: q) := by simp
  rw [e]
  unfold BL
  rw [lexBlockCommentsFuel, takeToCommentEnd_hit q x hx]
  simp only []
  rw [block_fuel cm _ (q.length + 1) (n + 1) _ q (by simp; omega) (by omega)]
  rfl

/-! ### stage 3 on an admissible layout without line comments -/

/-- the token texts after stage 3 -/
def blockTexts (cm : Bool) : Nat → Tbl Str → List CTok → Tbl Str × List Str
  | _, tbl, [] => (tbl, [])
  | n, tbl, .tok a :: r => ((blockTexts cm n tbl r).1, a.text :: (blockTexts cm n tbl r).2)
  | n, tbl, .lineC x :: r => ((blockTexts cm n tbl r).1, ('/' :: '/' :: x) :: (blockTexts cm n tbl r).2)
  | n, tbl, .blockC x :: r =>
    ((blockTexts cm (n + 1) (tbl ++ [(n, '/' :: '*' :: x ++ ['*', '/'])]) r).1,
     padB cm n :: (blockTexts cm (n + 1) (tbl ++ [(n, '/' :: '*' :: x ++ ['*', '/'])]) r).2)

/-- what stage 3 needs to know about a token -/
def BOK : CTok → Prop
  | .tok a => isInfix ['/', '*'] a.text = false ∧ (isDelimSTok a = true → ∀ c ∈ a.text, c ≠ '/')
  | .blockC x => isInfix ['*', '/'] x = false
  | .lineC _ => False

theorem spread_cons' (t : Str) (ts : List Str) (g : Str) (gs : List Str) (tail : Str) :
    spread (t :: ts) (g :: gs) tail = g ++ (t ++ spread ts gs tail) := by simp [spread]

theorem stageB (cm : Bool) : ∀ (ts : List CTok) (gaps : List Str) (tail : Str) (n : Nat) (tbl : Tbl Str),
    (∀ t ∈ ts, BOK t) → GapsOKC ts gaps tail = true → tail.all isWs = true →
    BL cm n tbl (spreadC ts gaps tail) = ((blockTexts cm n tbl ts).1, spread (blockTexts cm n tbl ts).2 gaps tail)
  | [], gaps, tail, n, tbl, _, _, htail => by
    have hws := List.all_eq_true.mp htail
    have := BL_pass cm n tbl tail [] (passB_plain _ _ fun c hc => (ws_ne (hws c hc)).1)
    simp only [List.append_nil, BL_nil] at this
    simpa [spreadC_nil, blockTexts, spread] using this
  | t :: ts, gaps, tail, n, tbl, hts, hg, htail => by
    obtain ⟨g, gs, rfl, hgws, hrest, hnext⟩ := gapsOKC_inv hg htail
    have hws := List.all_eq_true.mp hgws
    have hts' : ∀ u ∈ ts, BOK u := fun u hu => hts u (by simp [hu])
    rw [spreadC_cons, BL_pass cm n tbl g _ (passB_plain _ _ fun c hc => (ws_ne (hws c hc)).1)]
    cases t with
    | tok a =>
      have ha : BOK (.tok a) := hts (.tok a) (by simp)
      have hpass : PassB a.text (spreadC ts gs tail) := by
        rcases hnext with hd | hn
        · exact passB_plain _ _ (ha.2 hd)
        · refine passB_of _ _ ha.1 ?_
          intro hh
          rcases hn _ hh with h | h
          · exact (ws_ne h).2.2.1 rfl
          · exact (delim_ne _ h).2.2.1 rfl
      simp only [CTok.text]
      rw [BL_pass cm n tbl a.text _ hpass, stageB cm ts gs tail n tbl hts' hrest htail]
      simp only [blockTexts, spread_cons']
    | blockC x =>
      have hx : isInfix ['*', '/'] x = false := hts (.blockC x) (by simp)
      simp only [CTok.text]
      rw [BL_block cm n tbl x _ hx, stageB cm ts gs tail _ _ hts' hrest htail]
      simp only [blockTexts, spread_cons']
    | lineC x => exact (hts (.lineC x) (by simp)).elim

theorem lineToks_BOK (cm : Bool) : ∀ (ts : List CTok) (st : LexSt), (∀ t ∈ ts, AOK t) →
    ∀ t ∈ (lineToks cm st ts).2, BOK t
  | [], _, _, t, ht => by simp [lineToks] at ht
  | .tok a :: r, st, h, t, ht => by
    simp only [lineToks, List.mem_cons] at ht
    rcases ht with rfl | ht
    · have ha : C02.TokOK a := h (.tok a) (by simp)
      have := C02.Main.tok_noPair ha (b := '*') (Or.inr rfl)
      exact ⟨this.1, fun hd c hc => (this.2 hd c hc).1⟩
    · exact lineToks_BOK cm r st (fun u hu => h u (by simp [hu])) t ht
  | .blockC x :: r, st, h, t, ht => by
    simp only [lineToks, List.mem_cons] at ht
    rcases ht with rfl | ht
    · have hx : isBlockCText x = true := h (.blockC x) (by simp)
      exact (blockText_iff.mp hx).1
    · exact lineToks_BOK cm r st (fun u hu => h u (by simp [hu])) t ht
  | .lineC x :: r, st, h, t, ht => by
    simp only [lineToks, List.mem_cons] at ht
    rcases ht with rfl | ht
    · have hph : ∀ c ∈ phL cm st, c ≠ '/' := by
        intro c hc
        cases cm with
        | true => exact (linePh_facts st.fresh.1 c hc).2.2.2.2.2.1
        | false => simp [phL] at hc
      exact ⟨C02.isInfix_head_notin '/' _ _ (fun hm => hph _ hm rfl), fun _ => hph⟩
    · exact lineToks_BOK cm r (stL st x) (fun u hu => h u (by simp [hu])) t ht

/-- **the three comment stages** on an admissible layout of admissible tokens: state and text, as token-wise
    functions of the token list -/
theorem stages123 (cm : Bool) (dir : Str) (c : Counter) (ts : List CTok) (gaps : List Str) (tail : Str)
    (hts : ∀ t ∈ ts, AOK t) (hg : GapsOKC ts gaps tail = true) (htail : tail.all isWs = true) :
    commentStages cm dir c (spreadC ts gaps tail) =
      ({ (lineToks cm { counter := c } ts).1 with
          blockC := (blockTexts cm 0 [] (lineToks cm { counter := c } ts).2).1 },
       spread (blockTexts cm 0 [] (lineToks cm { counter := c } ts).2).2 gaps tail) := by
  rw [stages12 cm dir c ts gaps tail hts hg htail]
  have := stageB cm (lineToks cm { counter := c } ts).2 gaps tail 0 []
    (lineToks_BOK cm ts _ hts) (gapsOKC_lineToks cm ts gaps tail _ hg) htail
  unfold BL at this
  rw [this]

/-! ## 7. the token-wise functions against `labelCToks` -/

/-- the labelling state inside the lexer state, with the block-comment table kept apart -/
def labC (st : LexSt) (tbl : Tbl Str) : CLabelSt := { counter := st.counter, lineC := st.lineC, blockC := tbl }

theorem stLine_labC (st : LexSt) (tbl : Tbl Str) (x : Str) : stLine (labC st tbl) x = labC (stL st x) tbl := rfl

theorem stBlock_labC (st : LexSt) (tbl : Tbl Str) (x : Str) :
    stBlock (labC st tbl) x = labC st (tbl ++ [(tbl.length, '/' :: '*' :: x ++ ['*', '/'])]) := rfl

theorem phL_true (st : LexSt) (tbl : Tbl Str) : phL true st = linePh (idLine (labC st tbl)) := rfl

theorem stL_with (st : LexSt) (x : Str) (c : Counter) (t : Tbl Str) :
    ({ stL st x with counter := c, lineC := t } : LexSt) = { st with counter := c, lineC := t } := rfl

/-- states: the lexer state after stage 1 and the table after stage 3 are those of `labelCToks` -/
theorem stages_state (cm : Bool) : ∀ (ts : List CTok) (st : LexSt) (tbl : Tbl Str),
    (lineToks cm st ts).1 =
      { st with counter := (labelCToks (labC st tbl) ts).1.counter, lineC := (labelCToks (labC st tbl) ts).1.lineC } ∧
    (blockTexts cm tbl.length tbl (lineToks cm st ts).2).1 = (labelCToks (labC st tbl) ts).1.blockC
  | [], st, tbl => ⟨rfl, rfl⟩
  | .tok a :: r, st, tbl => by
    obtain ⟨i1, i2⟩ := stages_state cm r st tbl
    simp only [lineToks, blockTexts, labelCToks_tok]
    exact ⟨i1, i2⟩
  | .lineC x :: r, st, tbl => by
    obtain ⟨i1, i2⟩ := stages_state cm r (stL st x) tbl
    simp only [lineToks, blockTexts, labelCToks_lineC, stLine_labC]
    exact ⟨by rw [i1, stL_with], i2⟩
  | .blockC x :: r, st, tbl => by
    obtain ⟨i1, i2⟩ := stages_state cm r st (tbl ++ [(tbl.length, '/' :: '*' :: x ++ ['*', '/'])])
    simp only [lineToks, blockTexts, labelCToks_blockC, stBlock_labC]
    refine ⟨i1, ?_⟩
    have hl : (tbl ++ [(tbl.length, '/' :: '*' :: x ++ ['*', '/'])]).length = tbl.length + 1 := by simp
    rw [hl] at i2
    exact i2

def isB : CTok → Bool
  | .blockC _ => true
  | _ => false

/-- the blank stage 3 puts on either side of a block-comment placeholder -/
def pre (b : Bool) : Str := if b then [' '] else []

/-- the texts after the comment stages (comments on), from the labelled tokens -/
def zipPad : List CTok → List STok → List Str
  | t :: ts, s :: ss => (pre (isB t) ++ s.text ++ pre (isB t)) :: zipPad ts ss
  | _, _ => []

theorem padB_true (n : Nat) : padB true n = pre true ++ (STok.word (blockPh n)).text ++ pre true := by
  simp [padB, pre, blockPh, STok.text]

theorem stages_texts_on : ∀ (ts : List CTok) (st : LexSt) (tbl : Tbl Str),
    (blockTexts true tbl.length tbl (lineToks true st ts).2).2 = zipPad ts (labelCToks (labC st tbl) ts).2
  | [], st, tbl => rfl
  | .tok a :: r, st, tbl => by
    simp only [lineToks, blockTexts, labelCToks_tok, zipPad, stages_texts_on r st tbl, isB, pre]
    simp
  | .lineC x :: r, st, tbl => by
    simp only [lineToks, blockTexts, labelCToks_lineC, stLine_labC, zipPad, stages_texts_on r (stL st x) tbl, isB, pre,
      phL_true st tbl]
    simp [STok.text]
  | .blockC x :: r, st, tbl => by
    have ih := stages_texts_on r st (tbl ++ [(tbl.length, '/' :: '*' :: x ++ ['*', '/'])])
    have hl : (tbl ++ [(tbl.length, '/' :: '*' :: x ++ ['*', '/'])]).length = tbl.length + 1 := by simp
    rw [hl] at ih
    simp only [lineToks, blockTexts, labelCToks_blockC, stBlock_labC, zipPad, ih, isB, padB_true]
    rfl

/-- the text of a token with comments off -/
def offText : CTok → Str
  | .tok a => a.text
  | _ => []

theorem stages_texts_off : ∀ (ts : List CTok) (st : LexSt) (n : Nat) (tbl : Tbl Str),
    (blockTexts false n tbl (lineToks false st ts).2).2 = ts.map offText
  | [], st, n, tbl => rfl
  | .tok a :: r, st, n, tbl => by
    simp only [lineToks, blockTexts, List.map_cons, offText, stages_texts_off r st n tbl]
  | .lineC x :: r, st, n, tbl => by
    simp only [lineToks, blockTexts, List.map_cons, offText, stages_texts_off r (stL st x) n tbl]
    rfl
  | .blockC x :: r, st, n, tbl => by
    simp only [lineToks, blockTexts, List.map_cons, offText, stages_texts_off r st (n + 1) _]
    rfl

/-- the labelled token stands where the source token stood, and is a delimiter only if that was one -/
def RelToks : List CTok → List STok → Prop
  | [], [] => True
  | t :: ts, s :: ss => (match t with | .tok a => s = a | _ => isDelimSTok s = false) ∧ RelToks ts ss
  | _, _ => False

theorem word_not_delim {w : Str} (hw : isWordTok w = true) : isDelimSTok (.word w) = false :=
  C02.wordTok_not_delimTok hw

theorem relToks_label : ∀ (ts : List CTok) (s : CLabelSt), RelToks ts (labelCToks s ts).2
  | [], _ => trivial
  | .tok a :: r, s => ⟨rfl, relToks_label r s⟩
  | .lineC x :: r, s => ⟨word_not_delim (linePh_tok _).1, relToks_label r _⟩
  | .blockC x :: r, s => ⟨word_not_delim (blockPh_tok _).1, relToks_label r _⟩

/-! ## 8. the text after the stages is an admissible layout again -/

theorem spreadS_cons' (s : STok) (ss : List STok) (g : Str) (gs : List Str) (tail : Str) :
    spreadS (s :: ss) (g :: gs) tail = g ++ (s.text ++ spreadS ss gs tail) := by simp [spreadS, spread]

theorem pre_ws (b : Bool) : (pre b).all isWs = true := by cases b <;> decide

theorem all_append {a b : Str} (ha : a.all isWs = true) (hb : b.all isWs = true) : (a ++ b).all isWs = true := by
  simp [List.all_append, ha, hb]

/-! ### comments on: the blanks around a block-comment placeholder go into the neighbouring gaps -/

/-- the gaps and the tail after the comment stages, comments on; `pb`: the token in front was a block comment -/
def padGaps : Bool → List CTok → List Str → Str → List Str × Str
  | pb, [], _, tail => ([], pre pb ++ tail)
  | pb, t :: ts, gaps, tail =>
    ((pre pb ++ gaps.headD [] ++ pre (isB t)) :: (padGaps (isB t) ts gaps.tail tail).1,
     (padGaps (isB t) ts gaps.tail tail).2)

theorem on_text : ∀ (ts : List CTok) (toks : List STok) (pb : Bool) (gaps : List Str) (tail : Str), RelToks ts toks →
    pre pb ++ spread (zipPad ts toks) gaps tail = spreadS toks (padGaps pb ts gaps tail).1 (padGaps pb ts gaps tail).2
  | [], [], pb, gaps, tail, _ => by simp [zipPad, spread, padGaps, spreadS]
  | [], _ :: _, _, _, _, h => h.elim
  | _ :: _, [], _, _, _, h => h.elim
  | t :: ts, s :: ss, pb, gaps, tail, h => by
    have ih := on_text ts ss (isB t) gaps.tail tail h.2
    simp only [zipPad, padGaps, spreadS_cons', C02.spread_cons, ← ih]
    simp

theorem on_gaps : ∀ (ts : List CTok) (toks : List STok) (pb : Bool) (gaps : List Str) (tail : Str), RelToks ts toks →
    GapsOKC ts gaps tail = true → tail.all isWs = true →
    GapsOKS toks (padGaps pb ts gaps tail).1 = true ∧ (padGaps pb ts gaps tail).2.all isWs = true
  | [], [], pb, gaps, tail, _, _, htail => ⟨rfl, all_append (pre_ws pb) htail⟩
  | [], _ :: _, _, _, _, h, _, _ => h.elim
  | _ :: _, [], _, _, _, h, _, _ => h.elim
  | [t], [s], pb, [], tail, _, hg, _ => by simp [GapsOKC] at hg
  | [t], [s], pb, g :: gs, tail, _, hg, htail => by
    have hgw := gapsOKC_head_ws hg
    refine ⟨?_, ?_⟩
    · simp only [padGaps, GapsOKS, List.headD_cons]
      exact all_append (all_append (pre_ws pb) hgw) (pre_ws _)
    · simp only [padGaps]
      exact all_append (pre_ws _) htail
  | [t], _ :: _ :: _, _, _, _, h, _, _ => h.2.elim
  | t :: u :: ts, [_], _, _, _, h, _, _ => h.2.elim
  | t :: u :: ts, s :: s' :: ss, pb, [], tail, _, hg, _ => by simp [GapsOKC] at hg
  | t :: u :: ts, s :: s' :: ss, pb, [g], tail, _, hg, _ => by simp [GapsOKC] at hg
  | t :: u :: ts, s :: s' :: ss, pb, g :: g' :: gs, tail, h, hg, htail => by
    have hgw := gapsOKC_head_ws hg
    simp only [GapsOKC, Bool.and_eq_true] at hg
    obtain ⟨⟨_, hm⟩, hrest⟩ := hg
    obtain ⟨ih1, ih2⟩ := on_gaps (u :: ts) (s' :: ss) (isB t) (g' :: gs) tail h.2 hrest htail
    simp only [padGaps, List.headD_cons, List.tail_cons] at ih1 ih2 ⊢
    refine ⟨?_, ih2⟩
    simp only [GapsOKS, Bool.and_eq_true]
    refine ⟨⟨all_append (all_append (pre_ws pb) hgw) (pre_ws _), ?_⟩, ih1⟩
    simp only [Bool.or_eq_true, Bool.not_eq_true', List.isEmpty_eq_false_iff]
    cases t with
    | tok a =>
      have hs : s = a := h.1
      subst hs
      cases u with
      | tok b =>
        have hs' : s' = b := h.2.1
        subst hs'
        simp only [Bool.or_eq_true, Bool.not_eq_true', List.isEmpty_eq_false_iff] at hm
        rcases hm with (hm | hm) | hm
        · exact Or.inl (Or.inl hm)
        · exact Or.inl (Or.inr hm)
        · right; simp [isB, pre, hm]
      | lineC y =>
        simp only [Bool.not_eq_true', List.isEmpty_eq_false_iff] at hm
        right; simp [isB, pre, hm]
      | blockC y =>
        simp only [Bool.not_eq_true', List.isEmpty_eq_false_iff] at hm
        right; simp [isB, pre, hm]
    | lineC x =>
      simp only [Bool.and_eq_true, Bool.not_eq_true', List.isEmpty_eq_false_iff, beq_iff_eq] at hm
      right
      cases g' with
      | nil => simp at hm
      | cons d g' => simp [isB, pre]
    | blockC x =>
      right; simp [isB, pre]

/-! ### comments off: the gaps on either side of a comment merge -/

/-- the gaps and the tail after the comment stages, comments off; `p`: the white space collected since the last
    token that stays -/
def mergeGaps : Str → List CTok → List Str → Str → List Str × Str
  | p, [], _, tail => ([], p ++ tail)
  | p, .tok _ :: ts, gaps, tail =>
    ((p ++ gaps.headD []) :: (mergeGaps [] ts gaps.tail tail).1, (mergeGaps [] ts gaps.tail tail).2)
  | p, .lineC _ :: ts, gaps, tail => mergeGaps (p ++ gaps.headD []) ts gaps.tail tail
  | p, .blockC _ :: ts, gaps, tail => mergeGaps (p ++ gaps.headD []) ts gaps.tail tail

theorem off_text : ∀ (ts : List CTok) (p : Str) (gaps : List Str) (tail : Str),
    p ++ spread (ts.map offText) gaps tail =
      spreadS (plainToks ts) (mergeGaps p ts gaps tail).1 (mergeGaps p ts gaps tail).2
  | [], p, gaps, tail => by simp [spread, mergeGaps, plainToks_nil, spreadS]
  | .tok a :: ts, p, gaps, tail => by
    have ih := off_text ts [] gaps.tail tail
    simp only [List.nil_append] at ih
    simp only [List.map_cons, offText, plainToks_tok, mergeGaps, spreadS_cons', C02.spread_cons, ← ih]
    simp
  | .lineC x :: ts, p, gaps, tail => by
    have ih := off_text ts (p ++ gaps.headD []) gaps.tail tail
    simp only [List.map_cons, offText, plainToks_lineC, mergeGaps, C02.spread_cons, ← ih]
    simp
  | .blockC x :: ts, p, gaps, tail => by
    have ih := off_text ts (p ++ gaps.headD []) gaps.tail tail
    simp only [List.map_cons, offText, plainToks_blockC, mergeGaps, C02.spread_cons, ← ih]
    simp

/-- the first merged gap starts with the collected white space and the first gap -/
theorem merge_head : ∀ (ts : List CTok) (p : Str) (gaps : List Str) (tail : Str) (s : STok) (ss : List STok),
    plainToks ts = s :: ss →
    ∃ G Gs, (mergeGaps p ts gaps tail).1 = G :: Gs ∧ (p ++ gaps.headD [] ≠ [] → G ≠ [])
  | [], _, _, _, _, _, h => by simp [plainToks_nil] at h
  | .tok a :: ts, p, gaps, tail, _, _, _ => ⟨_, _, rfl, id⟩
  | .lineC x :: ts, p, gaps, tail, s, ss, h => by
    obtain ⟨G, Gs, e, hne⟩ := merge_head ts (p ++ gaps.headD []) gaps.tail tail s ss (by simpa [plainToks_lineC] using h)
    exact ⟨G, Gs, by simpa [mergeGaps] using e, fun hp => hne (fun e => hp (List.append_eq_nil_iff.mp e).1)⟩
  | .blockC x :: ts, p, gaps, tail, s, ss, h => by
    obtain ⟨G, Gs, e, hne⟩ := merge_head ts (p ++ gaps.headD []) gaps.tail tail s ss (by simpa [plainToks_blockC] using h)
    exact ⟨G, Gs, by simpa [mergeGaps] using e, fun hp => hne (fun e => hp (List.append_eq_nil_iff.mp e).1)⟩

theorem off_gaps : ∀ (ts : List CTok) (p : Str) (gaps : List Str) (tail : Str), p.all isWs = true →
    GapsOKC ts gaps tail = true → tail.all isWs = true →
    GapsOKS (plainToks ts) (mergeGaps p ts gaps tail).1 = true ∧ (mergeGaps p ts gaps tail).2.all isWs = true
  | [], p, gaps, tail, hp, _, htail => ⟨rfl, all_append hp htail⟩
  | t :: ts, p, gaps, tail, hp, hg, htail => by
    obtain ⟨g, gs, rfl, hgw, hrest, _⟩ := gapsOKC_inv hg htail
    cases t with
    | lineC x =>
      simpa [mergeGaps, plainToks_lineC] using off_gaps ts (p ++ g) gs tail (all_append hp hgw) hrest htail
    | blockC x =>
      simpa [mergeGaps, plainToks_blockC] using off_gaps ts (p ++ g) gs tail (all_append hp hgw) hrest htail
    | tok a =>
      obtain ⟨ih1, ih2⟩ := off_gaps ts [] gs tail rfl hrest htail
      simp only [mergeGaps, plainToks_tok, List.headD_cons, List.tail_cons]
      refine ⟨?_, ih2⟩
      cases hpl : plainToks ts with
      | nil => simp only [GapsOKS]; exact all_append hp hgw
      | cons b ss =>
        obtain ⟨G, Gs, e, hne⟩ := merge_head ts [] gs tail b ss hpl
        rw [hpl, e] at ih1
        rw [e]
        simp only [GapsOKS, Bool.and_eq_true]
        refine ⟨⟨all_append hp hgw, ?_⟩, ih1⟩
        simp only [Bool.or_eq_true, Bool.not_eq_true', List.isEmpty_eq_false_iff]
        -- the next source token and the gap in front of it
        cases ts with
        | nil => simp [plainToks_nil] at hpl
        | cons u ts' =>
          cases gs with
          | nil => simp [GapsOKC] at hg
          | cons g' gs' =>
            simp only [GapsOKC, Bool.and_eq_true] at hg
            have hm := hg.1.2
            simp only [List.nil_append, List.headD_cons] at hne
            cases u with
            | tok b' =>
              have hb : b' = b := by
                rw [plainToks_tok] at hpl
                exact (List.cons.inj hpl).1
              subst hb
              simp only [Bool.or_eq_true, Bool.not_eq_true', List.isEmpty_eq_false_iff] at hm
              rcases hm with (hm | hm) | hm
              · exact Or.inl (Or.inl hm)
              · exact Or.inl (Or.inr hm)
              · exact Or.inr (hne hm)
            | lineC y =>
              simp only [Bool.not_eq_true', List.isEmpty_eq_false_iff] at hm
              exact Or.inr (hne hm)
            | blockC y =>
              simp only [Bool.not_eq_true', List.isEmpty_eq_false_iff] at hm
              exact Or.inr (hne hm)

theorem gapsOKC_tail_ws : ∀ (ts : List CTok) (gaps : List Str) (tail : Str), ts ≠ [] → GapsOKC ts gaps tail = true →
    tail.all isWs = true
  | [], _, _, h, _ => absurd rfl h
  | [t], [], _, _, hg => by simp [GapsOKC] at hg
  | [t], g :: gs, tail, _, hg => by
    simp only [GapsOKC, Bool.and_eq_true] at hg
    exact hg.1.2
  | t :: u :: ts, [], _, _, hg => by simp [GapsOKC] at hg
  | t :: u :: ts, [g], _, _, hg => by simp [GapsOKC] at hg
  | t :: u :: ts, g :: g' :: gs, tail, _, hg => by
    simp only [GapsOKC, Bool.and_eq_true] at hg
    exact gapsOKC_tail_ws (u :: ts) (g' :: gs) tail (by simp) hg.2

theorem ctoksItems_ne : ∀ (items : List CItem), items ≠ [] → ctoksItems items ≠ []
  | [], h => absurd rfl h
  | .entry k (.lit l) :: r, _ => by simp [ctoksItems]
  | .entry k (.dict dd) :: r, _ => by simp [ctoksItems]
  | .entry k (.list l) :: r, _ => by simp [ctoksItems]
  | .lineC x :: r, _ => by simp [ctoksItems]
  | .blockC x :: r, _ => by simp [ctoksItems]

/-- the tail of an admissible layout of a document is white space (for the empty document: by hypothesis) -/
theorem tail_ws {items : List CItem} {gaps : List Str} {tail : Str}
    (hg : GapsOKC (ctoksItems items) gaps tail = true) (htail : items = [] → tail.all isWs = true) :
    tail.all isWs = true := by
  by_cases h : items = []
  · exact htail h
  · exact gapsOKC_tail_ws _ gaps tail (ctoksItems_ne items h) hg

end Stages
open Stages

/-! ## 9. the comment stages on an admissible layout -/

/-- **comments on, token form.**  On an admissible layout of admissible tokens the three comment stages leave the
    state `labelCToks` describes and a layout of the labelled tokens; the new gaps are the old ones with the blanks
    of the block-comment placeholders added (`padGaps`). -/
theorem comment_stages_on_toks {ts : List CTok} {gaps : List Str} {tail : Str} (dir : Str) (c : Counter)
    (hts : ∀ t ∈ ts, AOK t) (hg : GapsOKC ts gaps tail = true) (htail : tail.all isWs = true) :
    commentStages true dir c (spreadC ts gaps tail) =
      ({ counter := (labelCToks { counter := c } ts).1.counter, lineC := (labelCToks { counter := c } ts).1.lineC,
         blockC := (labelCToks { counter := c } ts).1.blockC },
       spreadS (labelCToks { counter := c } ts).2 (padGaps false ts gaps tail).1 (padGaps false ts gaps tail).2) ∧
    GapsOKS (labelCToks { counter := c } ts).2 (padGaps false ts gaps tail).1 = true ∧
    (padGaps false ts gaps tail).2.all isWs = true := by
  obtain ⟨s1, s2⟩ := stages_state true ts { counter := c } []
  have s3 := stages_texts_on ts { counter := c } []
  have hrel := relToks_label ts { counter := c }
  have e1 := on_text ts _ false gaps tail hrel
  have e2 := on_gaps ts _ false gaps tail hrel hg htail
  simp only [List.length_nil] at s2 s3
  refine ⟨?_, e2⟩
  rw [stages123 true dir c ts gaps tail hts hg htail, s1, s2, s3, ← e1]
  rfl

/-- **comments off, token form.**  The same state; the text is a layout of the tokens that are no comments, the
    gaps on either side of a comment merged (`mergeGaps`). -/
theorem comment_stages_off_toks {ts : List CTok} {gaps : List Str} {tail : Str} (dir : Str) (c : Counter)
    (hts : ∀ t ∈ ts, AOK t) (hg : GapsOKC ts gaps tail = true) (htail : tail.all isWs = true) :
    commentStages false dir c (spreadC ts gaps tail) =
      ({ counter := (labelCToks { counter := c } ts).1.counter, lineC := (labelCToks { counter := c } ts).1.lineC,
         blockC := (labelCToks { counter := c } ts).1.blockC },
       spreadS (plainToks ts) (mergeGaps [] ts gaps tail).1 (mergeGaps [] ts gaps tail).2) ∧
    GapsOKS (plainToks ts) (mergeGaps [] ts gaps tail).1 = true ∧
    (mergeGaps [] ts gaps tail).2.all isWs = true := by
  obtain ⟨s1, s2⟩ := stages_state false ts { counter := c } []
  have s3 := stages_texts_off ts { counter := c } 0 []
  have e1 := off_text ts [] gaps tail
  have e2 := off_gaps ts [] gaps tail rfl hg htail
  simp only [List.length_nil] at s2
  simp only [List.nil_append] at e1
  refine ⟨?_, e2⟩
  rw [stages123 false dir c ts gaps tail hts hg htail, s1, s2, s3, e1]
  rfl

/-- **comment_stages_on.**  For a well-formed commented document and ANY admissible layout of its tokens the first
    three stages of the reader (line comments, include directives, block comments), comments on, produce exactly what
    `labelCToks` says: the counter has advanced by the number of line comments, the two comment tables hold the
    comment texts under the ids drawn in document order, every other table is empty, and the text is an admissible
    layout of the labelled token list.

    Added hypothesis: for the EMPTY document the tail must be white space (`GapsOKC [] _ tail` says nothing about the
    tail; for a non-empty document it follows from `GapsOKC`).  See `comment_stages_needs_tail`. -/
theorem comment_stages_on {d : Nat} {items : List CItem} {gaps : List Str} {tail : Str} (dir : Str) (c : Counter) :
    CSrcWFItems d items = true → GapsOKC (ctoksItems items) gaps tail = true → (items = [] → tail.all isWs = true) →
      let r := labelCToks { counter := c } (ctoksItems items)
      ∃ gaps' tail', commentStages true dir c (spreadC (ctoksItems items) gaps tail)
          = ({ counter := r.1.counter, lineC := r.1.lineC, blockC := r.1.blockC }, spreadS r.2 gaps' tail')
        ∧ GapsOKS r.2 gaps' = true ∧ tail'.all isWs = true := by
  intro hwf hg htail
  obtain ⟨h1, h2, h3⟩ := comment_stages_on_toks dir c (ctoksI_ok items d hwf) hg (tail_ws hg htail)
  exact ⟨_, _, h1, h2, h3⟩

/-- **comment_stages_off.**  With comments off the state is the same (the tables are filled all the same) and the text
    is an admissible layout of the token list with the comment tokens removed. -/
theorem comment_stages_off {d : Nat} {items : List CItem} {gaps : List Str} {tail : Str} (dir : Str) (c : Counter) :
    CSrcWFItems d items = true → GapsOKC (ctoksItems items) gaps tail = true → (items = [] → tail.all isWs = true) →
      let r := labelCToks { counter := c } (ctoksItems items)
      let toks := (ctoksItems items).filterMap (fun t => match t with | .tok s => some s | _ => none)
      ∃ gaps' tail', commentStages false dir c (spreadC (ctoksItems items) gaps tail)
          = ({ counter := r.1.counter, lineC := r.1.lineC, blockC := r.1.blockC }, spreadS toks gaps' tail')
        ∧ GapsOKS toks gaps' = true ∧ tail'.all isWs = true := by
  intro hwf hg htail
  obtain ⟨h1, h2, h3⟩ := comment_stages_off_toks dir c (ctoksI_ok items d hwf) hg (tail_ws hg htail)
  exact ⟨_, _, h1, h2, h3⟩

/-- the same with the document view of both sides: the state and the tokens of the labelled document
    (`labelCItems`, `srcToksPEs`), resp. the tokens of the comment-free document (`plainItems`) -/
theorem comment_stages_on_doc {d : Nat} {items : List CItem} {gaps : List Str} {tail : Str} (dir : Str) (c : Counter)
    (hwf : CSrcWFItems d items = true) (hg : GapsOKC (ctoksItems items) gaps tail = true)
    (htail : items = [] → tail.all isWs = true) :
    ∃ gaps' tail', commentStages true dir c (spreadC (ctoksItems items) gaps tail)
        = ({ counter := (labelCItems { counter := c } items).1.counter,
             lineC := (labelCItems { counter := c } items).1.lineC,
             blockC := (labelCItems { counter := c } items).1.blockC },
           spreadS (srcToksPEs (labelCItems { counter := c } items).2) gaps' tail')
      ∧ GapsOKS (srcToksPEs (labelCItems { counter := c } items).2) gaps' = true ∧ tail'.all isWs = true := by
  have h := comment_stages_on dir c hwf hg htail
  rw [labelCToks_items { counter := c } hwf] at h
  exact h

theorem comment_stages_off_doc {d : Nat} {items : List CItem} {gaps : List Str} {tail : Str} (dir : Str) (c : Counter)
    (hwf : CSrcWFItems d items = true) (hg : GapsOKC (ctoksItems items) gaps tail = true)
    (htail : items = [] → tail.all isWs = true) :
    ∃ gaps' tail', commentStages false dir c (spreadC (ctoksItems items) gaps tail)
        = ({ counter := (labelCItems { counter := c } items).1.counter,
             lineC := (labelCItems { counter := c } items).1.lineC,
             blockC := (labelCItems { counter := c } items).1.blockC },
           spreadS (srcToksEs (plainItems items)) gaps' tail')
      ∧ GapsOKS (srcToksEs (plainItems items)) gaps' = true ∧ tail'.all isWs = true := by
  have h := comment_stages_off dir c hwf hg htail
  rw [labelCToks_items { counter := c } hwf, ctoks_plain items] at h
  exact h

/-! ## 10. the added hypothesis is needed; non-vacuity -/

/-- For the empty document `GapsOKC` does not constrain the tail, and a tail that is not white space may hold a
    comment: the line-comment table is then not the (empty) one `labelCToks` gives.  (A statement about the model of
    admissible layouts, not a finding about the reader.) -/
theorem comment_stages_needs_tail :
    ¬ ∀ (gaps : List Str) (tail : Str), GapsOKC (ctoksItems []) gaps tail = true →
      let r := labelCToks { counter := none } (ctoksItems [])
      ∃ gaps' tail', commentStages true [] none (spreadC (ctoksItems []) gaps tail)
          = ({ counter := r.1.counter, lineC := r.1.lineC, blockC := r.1.blockC }, spreadS r.2 gaps' tail')
        ∧ GapsOKS r.2 gaps' = true ∧ tail'.all isWs = true := by
  intro h
  obtain ⟨gaps', tail', he, _, _⟩ := h [] ['/', '/', 'x'] (by simp [ctoksItems, GapsOKC])
  have := congrArg (fun p => p.1.lineC) he
  revert this
  simp only [ctoksItems, labelCToks]
  decide +kernel

/-- a line comment at the top, a block comment, an entry, a comment whose text contains quotes, `;`, `{`, `$`, a nested
    dict with a line comment, a quoted string, a block comment over two lines and another line comment, a list, and a
    last line comment -/
def exDoc : List CItem := [
  .lineC " first".toList, .blockC " hdr C++ x ".toList,
  .entry ['a'] (.lit (.bare ['1'])),
  .lineC " tail 'q' ; { $x".toList,
  .entry ['n'] (.dict [.lineC " nested".toList, .entry ['p'] (.lit (.quoted '\'' "x y".toList)),
    .blockC "blk\n two".toList, .lineC " nested".toList]),
  .entry ['l'] (.list [.lit (.bare ['1']), .lit (.quoted '"' "it's".toList)]),
  .lineC " first".toList]

/-- one blank between tokens, a line feed and two blanks after a line comment -/
def exGaps : List Str :=
  [[' '], ['\n', ' ', ' '], [' '], [' '], [' '], [' '], ['\n', ' ', ' '], [' '], [' '], ['\n', ' ', ' '], [' '], [' '],
   [' '], [' '], ['\n', ' ', ' '], [' '], [' '], [' '], [' '], [' '], [' '], [' ']]

theorem exDoc_wf : CSrcWFItems 1 exDoc = true := by decide +kernel

/-- the tokens of the example (`ctoksItems` is defined by well-founded recursion: unfolded with its equations) -/
def exToks : List CTok :=
  [.lineC " first".toList, .blockC " hdr C++ x ".toList, .tok (.word ['a']), .tok (.word ['1']), .tok (.word [';']),
   .lineC " tail 'q' ; { $x".toList, .tok (.word ['n']), .tok (.word ['{']), .lineC " nested".toList,
   .tok (.word ['p']), .tok (.quoted '\'' "x y".toList), .tok (.word [';']), .blockC "blk\n two".toList,
   .lineC " nested".toList, .tok (.word ['}']), .tok (.word ['l']), .tok (.word ['(']), .tok (.word ['1']),
   .tok (.quoted '"' "it's".toList), .tok (.word [')']), .tok (.word [';']), .lineC " first".toList]

theorem exToks_eq : ctoksItems exDoc = exToks := by
  simp [exDoc, exToks, ctoksItems, srcToksXs, srcToksV, Lit.tok]

theorem exGaps_ok : GapsOKC (ctoksItems exDoc) exGaps ['\n'] = true := by rw [exToks_eq]; decide +kernel

theorem exDoc_text : spreadC (ctoksItems exDoc) exGaps ['\n'] =
    (" // first\n  /* hdr C++ x */ a 1 ; // tail 'q' ; { $x\n  n { // nested\n  p 'x y' ; /*blk\n two*/ // nested\n" ++
     "  } l ( 1 \"it's\" ) ; // first\n").toList := by rw [exToks_eq]; decide +kernel

/-- the two theorems on the example -/
theorem exDoc_on (dir : Str) (c : Counter) :
    let r := labelCToks { counter := c } (ctoksItems exDoc)
    ∃ gaps' tail', commentStages true dir c (spreadC (ctoksItems exDoc) exGaps ['\n'])
        = ({ counter := r.1.counter, lineC := r.1.lineC, blockC := r.1.blockC }, spreadS r.2 gaps' tail')
      ∧ GapsOKS r.2 gaps' = true ∧ tail'.all isWs = true :=
  comment_stages_on dir c exDoc_wf exGaps_ok (fun h => by cases h)

theorem exDoc_off (dir : Str) (c : Counter) :
    ∃ gaps' tail', commentStages false dir c (spreadC (ctoksItems exDoc) exGaps ['\n'])
        = ({ counter := (labelCItems { counter := c } exDoc).1.counter,
             lineC := (labelCItems { counter := c } exDoc).1.lineC,
             blockC := (labelCItems { counter := c } exDoc).1.blockC },
           spreadS (srcToksEs (plainItems exDoc)) gaps' tail')
      ∧ GapsOKS (srcToksEs (plainItems exDoc)) gaps' = true ∧ tail'.all isWs = true :=
  comment_stages_off_doc dir c exDoc_wf exGaps_ok (fun h => by cases h)

/-- what `labelCToks` says on the example, from a fresh counter: five line comments with the ids 0…4, two block
    comments with the ids 0, 1 -/
theorem exDoc_label :
    (labelCToks { counter := none } (ctoksItems exDoc)).1.counter = some 4 ∧
    (labelCToks { counter := none } (ctoksItems exDoc)).1.lineC =
      [(0, "// first".toList), (1, "// tail 'q' ; { $x".toList), (2, "// nested".toList), (3, "// nested".toList),
       (4, "// first".toList)] ∧
    (labelCToks { counter := none } (ctoksItems exDoc)).1.blockC =
      [(0, "/* hdr C++ x */".toList), (1, "/*blk\n two*/".toList)] := by
  rw [exToks_eq]
  refine ⟨?_, ?_, ?_⟩ <;> decide +kernel

/-- the text after the stages on the example, through `comment_stages_on_toks` -/
theorem exDoc_on_text (dir : Str) :
    (commentStages true dir none (spreadC (ctoksItems exDoc) exGaps ['\n'])).2 =
      (" LINECOMMENT000000\n   BLOCKCOMMENT000000  a 1 ; LINECOMMENT000001\n  n { LINECOMMENT000002\n" ++
       "  p 'x y' ;  BLOCKCOMMENT000001  LINECOMMENT000003\n  } l ( 1 \"it's\" ) ; LINECOMMENT000004\n").toList := by
  rw [(comment_stages_on_toks dir none (ctoksI_ok exDoc 1 exDoc_wf) exGaps_ok (by decide)).1, exToks_eq]
  decide +kernel

theorem exDoc_off_text (dir : Str) :
    (commentStages false dir none (spreadC (ctoksItems exDoc) exGaps ['\n'])).2 =
      " \n   a 1 ; \n  n { \n  p 'x y' ;  \n  } l ( 1 \"it's\" ) ; \n".toList := by
  rw [(comment_stages_off_toks dir none (ctoksI_ok exDoc 1 exDoc_wf) exGaps_ok (by decide)).1, exToks_eq]
  decide +kernel

end DictIO.C12
