import DictIO.Model.GrammarC
import DictIO.Props.C12

namespace DictIO.C12
open DictIO

set_option linter.unusedSimpArgs false
set_option linter.unusedVariables false

namespace Stages

/-! ## 0. small facts -/

abbrev plainOf : CTok → Option STok
  | .tok s => some s
  | _ => none

/-- the token list with the comment tokens removed -/
def plainToks (ts : List CTok) : List STok := ts.filterMap plainOf

theorem plainToks_nil : plainToks [] = [] := rfl
theorem plainToks_tok (s : STok) (ts : List CTok) : plainToks (.tok s :: ts) = s :: plainToks ts := rfl
theorem plainToks_lineC (x : Str) (ts : List CTok) : plainToks (.lineC x :: ts) = plainToks ts := rfl
theorem plainToks_blockC (x : Str) (ts : List CTok) : plainToks (.blockC x :: ts) = plainToks ts := rfl
theorem plainToks_append (a b : List CTok) : plainToks (a ++ b) = plainToks a ++ plainToks b := by
  simp [plainToks, List.filterMap_append]
theorem plainToks_map (l : List STok) : plainToks (l.map .tok) = l := by
  induction l with
  | nil => rfl
  | cons a l ih => simp [plainToks_tok, ih]

/-! ### `labelCToks` on concatenations -/

theorem labelCToks_tok (st : CLabelSt) (t : STok) (r : List CTok) :
    labelCToks st (.tok t :: r) = ((labelCToks st r).1, t :: (labelCToks st r).2) := rfl

/-- the labelling state after a line comment with text `x` -/
def stLine (st : CLabelSt) (x : Str) : CLabelSt :=
  { st with counter := (Counter.next Gen.counterLimit st.counter).2,
            lineC := st.lineC.set (Counter.next Gen.counterLimit st.counter).1 ('/' :: '/' :: x) }

/-- the id the next line comment gets -/
def idLine (st : CLabelSt) : Nat := (Counter.next Gen.counterLimit st.counter).1

/-- the labelling state after a block comment with text `x` -/
def stBlock (st : CLabelSt) (x : Str) : CLabelSt :=
  { st with blockC := st.blockC ++ [(st.blockC.length, '/' :: '*' :: x ++ ['*', '/'])] }

theorem labelCToks_lineC (st : CLabelSt) (x : Str) (r : List CTok) :
    labelCToks st (.lineC x :: r) =
      ((labelCToks (stLine st x) r).1, .word (linePh (idLine st)) :: (labelCToks (stLine st x) r).2) := rfl

theorem labelCToks_blockC (st : CLabelSt) (x : Str) (r : List CTok) :
    labelCToks st (.blockC x :: r) =
      ((labelCToks (stBlock st x) r).1, .word (blockPh st.blockC.length) :: (labelCToks (stBlock st x) r).2) := rfl

theorem labelCToks_append : ∀ (a b : List CTok) (st : CLabelSt),
    labelCToks st (a ++ b) =
      ((labelCToks (labelCToks st a).1 b).1, (labelCToks st a).2 ++ (labelCToks (labelCToks st a).1 b).2)
  | [], b, st => rfl
  | .tok t :: a, b, st => by
    rw [List.cons_append, labelCToks_tok, labelCToks_tok, labelCToks_append a b st]; rfl
  | .lineC x :: a, b, st => by
    rw [List.cons_append, labelCToks_lineC, labelCToks_lineC, labelCToks_append a b _]; rfl
  | .blockC x :: a, b, st => by
    rw [List.cons_append, labelCToks_blockC, labelCToks_blockC, labelCToks_append a b _]; rfl

theorem labelCToks_map (st : CLabelSt) : ∀ (l : List STok), labelCToks st (l.map .tok) = (st, l)
  | [] => rfl
  | a :: l => by rw [List.map_cons, labelCToks_tok, labelCToks_map st l]

end Stages
open Stages

/-! ## 1. the bridges between the token view and the document view -/

mutual
  theorem labelCToks_itemsV : ∀ (v : CSrc) (d : Nat) (st : CLabelSt), CSrcWFV d v = true →
      labelCToks st (ctoksV v) = ((labelCV st v).1, srcToksPV (labelCV st v).2)
    | .lit l, d, st, _ => by
      simp only [ctoksV, labelCV, srcToksPV, labelCToks_tok]; rfl
    | .dict items, d, st, h => by
      simp only [CSrcWFV] at h
      have ih := labelCToks_itemsI items (d + 1) st h
      simp only [ctoksV, labelCV, srcToksPV, List.cons_append]
      rw [labelCToks_tok, labelCToks_append, ih]
      rfl
    | .list xs, d, st, _ => by
      simp only [ctoksV, labelCV, srcToksPV, List.cons_append]
      rw [labelCToks_tok, labelCToks_append, labelCToks_map]
      rfl
  theorem labelCToks_itemsI : ∀ (items : List CItem) (d : Nat) (st : CLabelSt), CSrcWFItems d items = true →
      labelCToks st (ctoksItems items) = ((labelCItems st items).1, srcToksPEs (labelCItems st items).2)
    | [], _, st, _ => by simp only [ctoksItems, labelCItems, srcToksPEs, labelCToks]
    | .entry k (.lit l) :: r, d, st, h => by
      simp only [CSrcWFItems, Bool.and_eq_true] at h
      obtain ⟨⟨⟨hk, _⟩, _⟩, hr⟩ := h
      have hph : isPhTok k = false := (C02.srcWord_facts hk).2.1
      have ih := labelCToks_itemsI r d st hr
      simp only [ctoksItems, labelCItems, labelCV, srcToksPEs, labelCToks_tok, ih, hph]
      rfl
    | .entry k (.dict items) :: r, d, st, h => by
      simp only [CSrcWFItems, CSrcWFV, Bool.and_eq_true] at h
      obtain ⟨⟨⟨hk, _⟩, hv⟩, hr⟩ := h
      have ih1 := labelCToks_itemsI items (d + 1) st hv
      have ih2 := labelCToks_itemsI r d (labelCItems st items).1 hr
      simp only [ctoksItems, labelCItems, labelCV, srcToksPEs, List.cons_append, List.append_assoc]
      rw [labelCToks_tok, labelCToks_tok, labelCToks_append, ih1]
      simp only [List.cons_append, List.nil_append, labelCToks_tok, ih2]
    | .entry k (.list xs) :: r, d, st, h => by
      simp only [CSrcWFItems, Bool.and_eq_true] at h
      obtain ⟨_, hr⟩ := h
      have ih := labelCToks_itemsI r d st hr
      simp only [ctoksItems, labelCItems, labelCV, srcToksPEs, List.cons_append, List.append_assoc]
      rw [labelCToks_tok, labelCToks_tok, labelCToks_append, labelCToks_map]
      simp only [List.cons_append, List.nil_append, labelCToks_tok, ih]
    | .lineC x :: r, d, st, h => by
      simp only [CSrcWFItems, Bool.and_eq_true] at h
      have ih := labelCToks_itemsI r d (stLine st x) h.2
      have hp := (linePh_tok (idLine st)).2
      simp only [ctoksItems, labelCItems, srcToksPEs]
      rw [labelCToks_lineC, ih]
      simp only [stLine, idLine, linePh] at hp ⊢
      simp [hp, Lit.tok]
    | .blockC x :: r, d, st, h => by
      simp only [CSrcWFItems, Bool.and_eq_true] at h
      have ih := labelCToks_itemsI r d (stBlock st x) h.2
      have hp := (blockPh_tok st.blockC.length).2
      simp only [ctoksItems, labelCItems, srcToksPEs]
      rw [labelCToks_blockC, ih]
      simp only [stBlock, blockPh] at hp ⊢
      simp [hp, Lit.tok]
end

/-- **bridge 1**: the labelled token stream is the token stream of the labelled document -/
theorem labelCToks_items {d : Nat} {items : List CItem} (st : CLabelSt) (h : CSrcWFItems d items = true) :
    labelCToks st (ctoksItems items) = ((labelCItems st items).1, srcToksPEs (labelCItems st items).2) :=
  labelCToks_itemsI items d st h

/-! ### bridge 2: the token list without the comment tokens is the token list of the comment-free document -/

mutual
  theorem ctoks_plainV : ∀ (v : CSrc), plainToks (ctoksV v) = srcToksV (plainV v)
    | .lit l => by simp only [ctoksV, plainV, srcToksV, plainToks_tok, plainToks_nil]
    | .dict items => by
      simp only [ctoksV, plainV, srcToksV, List.cons_append, plainToks_tok, plainToks_append, plainToks_nil,
        ctoks_plainI items]
    | .list xs => by
      simp only [ctoksV, plainV, srcToksV, List.cons_append, plainToks_tok, plainToks_append, plainToks_nil,
        plainToks_map]
  theorem ctoks_plainI : ∀ (items : List CItem), plainToks (ctoksItems items) = srcToksEs (plainItems items)
    | [] => by simp only [ctoksItems, plainItems, srcToksEs, plainToks_nil]
    | .entry k (.lit l) :: r => by
      simp only [ctoksItems, plainItems, plainV, srcToksEs, plainToks_tok, ctoks_plainI r]
    | .entry k (.dict items) :: r => by
      simp only [ctoksItems, plainItems, plainV, srcToksEs, List.cons_append, List.append_assoc, plainToks_tok,
        plainToks_append, plainToks_nil, ctoks_plainI items, ctoks_plainI r]
    | .entry k (.list xs) :: r => by
      simp only [ctoksItems, plainItems, plainV, srcToksEs, List.cons_append, List.append_assoc, plainToks_tok,
        plainToks_append, plainToks_nil, plainToks_map, ctoks_plainI r]
    | .lineC x :: r => by simp only [ctoksItems, plainItems, plainToks_lineC, ctoks_plainI r]
    | .blockC x :: r => by simp only [ctoksItems, plainItems, plainToks_blockC, ctoks_plainI r]
end

/-- **bridge 2** -/
theorem ctoks_plain (items : List CItem) :
    (ctoksItems items).filterMap (fun t => match t with | .tok s => some s | _ => none) =
      srcToksEs (plainItems items) := by
  have := ctoks_plainI items
  simp only [plainToks] at this
  rw [← this]

/-! ### bridges 3 and 4: well-formedness of the labelled and of the comment-free document -/

namespace Stages

theorem digit_facts : ∀ c ∈ C02.asciiDigits, isQuote c = false ∧ c ≠ '$' ∧ c ≠ '\\' ∧ c ≠ 'S' ∧ c ≠ 'X' ∧ c ≠ '/' ∧
    c ≠ '*' ∧ c ≠ '#' ∧ c ≠ ':' ∧ isLineBreak c = false := by decide

theorem kwc_facts : ∀ c ∈ kwLine ++ kwBlock, isQuote c = false ∧ c ≠ '$' ∧ c ≠ '\\' ∧ c ≠ 'S' ∧ c ≠ 'X' ∧ c ≠ '/' ∧
    c ≠ '*' ∧ c ≠ '#' ∧ c ≠ ':' ∧ isLineBreak c = false ∧ isWs c = false := by decide

theorem ph_facts {kw : Str} (hkw : ∀ c ∈ kw, c ∈ kwLine ++ kwBlock) (i : Nat) :
    ∀ c ∈ kw ++ padSix i, isQuote c = false ∧ c ≠ '$' ∧ c ≠ '\\' ∧ c ≠ 'S' ∧ c ≠ 'X' ∧ c ≠ '/' ∧
      c ≠ '*' ∧ c ≠ '#' ∧ c ≠ ':' ∧ isLineBreak c = false ∧ isWs c = false := by
  intro c hc
  rcases List.mem_append.mp hc with h | h
  · exact kwc_facts c (hkw c h)
  · have h1 := digit_facts c (C02.padSix_ascii i c h)
    have h2 := C02.asciiDigits_facts c (C02.padSix_ascii i c h)
    exact ⟨h1.1, h1.2.1, h1.2.2.1, h1.2.2.2.1, h1.2.2.2.2.1, h1.2.2.2.2.2.1, h1.2.2.2.2.2.2.1, h1.2.2.2.2.2.2.2.1,
      h1.2.2.2.2.2.2.2.2.1, h1.2.2.2.2.2.2.2.2.2, h2.2.1⟩

theorem linePh_facts (i : Nat) : ∀ c ∈ linePh i, isQuote c = false ∧ c ≠ '$' ∧ c ≠ '\\' ∧ c ≠ 'S' ∧ c ≠ 'X' ∧ c ≠ '/' ∧
      c ≠ '*' ∧ c ≠ '#' ∧ c ≠ ':' ∧ isLineBreak c = false ∧ isWs c = false :=
  ph_facts (kw := kwLine) (fun c hc => List.mem_append_left _ hc) i

theorem blockPh_facts (i : Nat) : ∀ c ∈ blockPh i, isQuote c = false ∧ c ≠ '$' ∧ c ≠ '\\' ∧ c ≠ 'S' ∧ c ≠ 'X' ∧ c ≠ '/' ∧
      c ≠ '*' ∧ c ≠ '#' ∧ c ≠ ':' ∧ isLineBreak c = false ∧ isWs c = false :=
  ph_facts (kw := kwBlock) (fun c hc => List.mem_append_right _ hc) i

/-- the side conditions `SrcPWFEs` puts on a placeholder entry -/
theorem ph_entry_ok {k : Str} (hw : isWordTok k = true)
    (hf : ∀ c ∈ k, isQuote c = false ∧ c ≠ '$' ∧ c ≠ '\\' ∧ c ≠ 'S' ∧ c ≠ 'X' ∧ c ≠ '/' ∧
      c ≠ '*' ∧ c ≠ '#' ∧ c ≠ ':' ∧ isLineBreak c = false ∧ isWs c = false) :
    (isWordTok k && (match (Src.lit (.bare k)) with | .lit (.bare w) => w == k | _ => false) &&
          k.all (fun c => !isQuote c && c != '$' && c != '\\') && !isInfix kwLit k && !isInfix kwExpr k) = true := by
  have h1 : isInfix kwLit k = false :=
    C02.isInfix_head_notin 'S' _ k (fun hm => (hf _ hm).2.2.2.1 rfl)
  have h2 : isInfix kwExpr k = false := by
    cases h : isInfix kwExpr k with
    | false => rfl
    | true =>
      have := C02.Front.isInfix_mem h 'X' (by decide)
      exact absurd rfl (hf _ this).2.2.2.2.1
  have h3 : k.all (fun c => !isQuote c && c != '$' && c != '\\') = true := by
    rw [List.all_eq_true]
    intro c hc
    have := hf c hc
    simp [this.1, this.2.1, this.2.2.1]
  simp [hw, h1, h2, h3]

end Stages

mutual
  theorem labelled_wfV : ∀ (v : CSrc) (d : Nat) (st : CLabelSt), CSrcWFV d v = true → SrcPWFV d (labelCV st v).2 = true
    | .lit l, d, st, h => by simpa only [CSrcWFV, labelCV, SrcPWFV] using h
    | .dict items, d, st, h => by
      simp only [CSrcWFV] at h
      simp only [labelCV, SrcPWFV]
      exact labelled_wfI items (d + 1) st h
    | .list xs, d, st, h => by simpa only [CSrcWFV, labelCV, SrcPWFV] using h
  theorem labelled_wfI : ∀ (items : List CItem) (d : Nat) (st : CLabelSt), CSrcWFItems d items = true →
      SrcPWFEs d (labelCItems st items).2 = true
    | [], _, st, _ => by simp only [labelCItems, SrcPWFEs]
    | .entry k v :: r, d, st, h => by
      simp only [CSrcWFItems, Bool.and_eq_true] at h
      obtain ⟨⟨⟨hk, hkey⟩, hv⟩, hr⟩ := h
      have hph : isPhTok k = false := (C02.srcWord_facts hk).2.1
      simp only [labelCItems, SrcPWFEs, hph, Bool.false_eq_true, if_false, Bool.and_eq_true]
      exact ⟨⟨⟨hk, hkey⟩, labelled_wfV v d st hv⟩, labelled_wfI r d _ hr⟩
    | .lineC x :: r, d, st, h => by
      simp only [CSrcWFItems, Bool.and_eq_true] at h
      have hp : isWordTok (linePh (idLine st)) = true ∧ isPhTok (linePh (idLine st)) = true := linePh_tok _
      have ih := labelled_wfI r d (stLine st x) h.2
      simp only [labelCItems, SrcPWFEs]
      simp only [stLine, idLine] at hp ih ⊢
      simp only [hp.2, if_true, ih, Bool.and_true]
      exact ph_entry_ok hp.1 (linePh_facts _)
    | .blockC x :: r, d, st, h => by
      simp only [CSrcWFItems, Bool.and_eq_true] at h
      have hp : isWordTok (blockPh st.blockC.length) = true ∧ isPhTok (blockPh st.blockC.length) = true :=
        blockPh_tok _
      have ih := labelled_wfI r d (stBlock st x) h.2
      simp only [labelCItems, SrcPWFEs]
      simp only [stBlock] at hp ih ⊢
      simp only [hp.2, if_true, ih, Bool.and_true]
      exact ph_entry_ok hp.1 (blockPh_facts _)
end

/-- **bridge 3**: the labelled document is a well-formed labelled document -/
theorem labelled_wf {d : Nat} {items : List CItem} (st : CLabelSt) (h : CSrcWFItems d items = true) :
    SrcPWFEs d (labelCItems st items).2 = true := labelled_wfI items d st h

mutual
  theorem plain_wfV : ∀ (v : CSrc) (d : Nat), CSrcWFV d v = true → SrcWFV d (plainV v) = true
    | .lit l, d, h => by simpa only [CSrcWFV, plainV, SrcWFV] using h
    | .dict items, d, h => by
      simp only [CSrcWFV] at h
      simp only [plainV, SrcWFV]
      exact plain_wfI items (d + 1) h
    | .list xs, d, h => by simpa only [CSrcWFV, plainV, SrcWFV] using h
  theorem plain_wfI : ∀ (items : List CItem) (d : Nat), CSrcWFItems d items = true → SrcWFEs d (plainItems items) = true
    | [], _, _ => by simp only [plainItems, SrcWFEs]
    | .entry k v :: r, d, h => by
      simp only [CSrcWFItems, Bool.and_eq_true] at h
      obtain ⟨⟨⟨hk, hkey⟩, hv⟩, hr⟩ := h
      simp only [plainItems, SrcWFEs, Bool.and_eq_true]
      exact ⟨⟨⟨hk, hkey⟩, plain_wfV v d hv⟩, plain_wfI r d hr⟩
    | .lineC x :: r, d, h => by
      simp only [CSrcWFItems, Bool.and_eq_true] at h
      simp only [plainItems]
      exact plain_wfI r d h.2
    | .blockC x :: r, d, h => by
      simp only [CSrcWFItems, Bool.and_eq_true] at h
      simp only [plainItems]
      exact plain_wfI r d h.2
end

/-- **bridge 4**: the document without its comments is a well-formed source document -/
theorem plain_wf {d : Nat} {items : List CItem} (h : CSrcWFItems d items = true) : SrcWFEs d (plainItems items) = true :=
  plain_wfI items d h

/-! ## 2. stage 1 (line comments), character by character -/

namespace Stages
open DictIO.C02.Main (nextSt noHash lineSt)

/-- put a character in front of the first line -/
def consLine (c : Char) : List Str → List Str
  | [] => [[c]]
  | l :: ls => (c :: l) :: ls

theorem consLine_flatten (c : Char) (ls : List Str) : (consLine c ls).flatten = c :: ls.flatten := by
  cases ls <;> simp [consLine]

theorem cr_break : isLineBreak '\r' = true := by decide

theorem split_crlf (r : Str) : splitLinesKeep ('\r' :: '\n' :: r) = ['\r', '\n'] :: splitLinesKeep r := by
  rw [splitLinesKeep]

theorem split_break {c : Char} (r : Str) (hb : isLineBreak c = true) (h : ¬(c = '\r' ∧ r.head? = some '\n')) :
    splitLinesKeep (c :: r) = [c] :: splitLinesKeep r := by
  rw [splitLinesKeep]
  · simp [hb]
  · intro r' e1 e2
    exact h ⟨e1, by rw [e2]; rfl⟩

theorem split_plain {c : Char} (r : Str) (hb : isLineBreak c = false) :
    splitLinesKeep (c :: r) = consLine c (splitLinesKeep r) := by
  rw [splitLinesKeep]
  · simp only [hb, Bool.false_eq_true, if_false]
    cases splitLinesKeep r <;> rfl
  · intro r' e1 _
    rw [e1, cr_break] at hb; cases hb

theorem lines_ne_nil (s : Str) : ∀ l ∈ splitLinesKeep s, l ≠ [] := by
  fun_induction splitLinesKeep s with
  | case1 => simp
  | case2 r ih => intro l hl; rcases List.mem_cons.mp hl with rfl | hl; simp; exact ih l hl
  | case3 c r hne hb ih => intro l hl; rcases List.mem_cons.mp hl with rfl | hl; simp; exact ih l hl
  | case4 c r hne hb hnil ih => simp
  | case5 c r hne hb l0 ls hcons ih =>
    intro l hl
    rcases List.mem_cons.mp hl with rfl | hl
    · simp
    · exact ih l (by rw [hcons]; simp [hl])

/-- the first line is a non-empty prefix of the text -/
theorem first_line {s l : Str} {ls : List Str} (h : splitLinesKeep s = l :: ls) : l ≠ [] ∧ s = l ++ ls.flatten := by
  refine ⟨lines_ne_nil s l (by rw [h]; simp), ?_⟩
  have := C02.splitLines_flatten s
  rw [h] at this
  simpa using this.symm

theorem lines_nil {s : Str} (h : splitLinesKeep s = []) : s = [] := by
  have := C02.splitLines_flatten s
  rw [h] at this
  simpa using this.symm

/-! ### one line -/

/-- stage 1 over a list of lines, as a recursive function -/
def lineMap (comments : Bool) : LexSt → List Str → LexSt × List Str
  | st, [] => (st, [])
  | st, l :: ls =>
    ((lineMap comments (lexLineComment comments st l).1 ls).1,
     (lexLineComment comments st l).2 :: (lineMap comments (lexLineComment comments st l).1 ls).2)

theorem foldl_lineMap (comments : Bool) : ∀ (ls : List Str) (st : LexSt) (acc : List Str),
    ls.foldl (fun (acc : LexSt × List Str) l =>
      let (st, l') := lexLineComment comments acc.1 l; (st, acc.2 ++ [l'])) (st, acc) =
      ((lineMap comments st ls).1, acc ++ (lineMap comments st ls).2)
  | [], st, acc => by simp [lineMap]
  | l :: ls, st, acc => by
    rw [List.foldl_cons]
    rcases h : lexLineComment comments st l with ⟨st1, l'⟩
    simp only [h, lineMap]
    rw [foldl_lineMap comments ls st1 (acc ++ [l'])]
    simp

/-- stage 1 on a text: split into lines, lift the line comments -/
def LM (comments : Bool) (st : LexSt) (s : Str) : LexSt × List Str := lineMap comments st (splitLinesKeep s)

theorem LM_nil (cm : Bool) (st : LexSt) : LM cm st [] = (st, []) := by simp [LM, splitLinesKeep, lineMap]

theorem findLC_prev (prev : Option Char) (l : Str) (h : ¬(prev = some ':' ∧ ['/', '/'] <+: l)) :
    findLineComment prev l = findLineComment none l := by
  cases l with
  | nil => simp [findLineComment]
  | cons c r =>
    by_cases hc : c = '/' ∧ r.head? = some '/'
    · obtain ⟨rfl, hr⟩ := hc
      cases r with
      | nil => simp at hr
      | cons d r' =>
        simp only [List.head?_cons, Option.some.injEq] at hr
        subst hr
        have hp : (prev == some ':') = false := by
          cases hpe : prev == some ':' with
          | false => rfl
          | true =>
            exact absurd ⟨by simpa using hpe, ⟨r', rfl⟩⟩ h
        simp [findLineComment, hp]
    · rw [findLineComment, findLineComment]
      · intro r' e1 e2; exact hc ⟨e1, by rw [e2]; rfl⟩
      · intro r' e1 e2; exact hc ⟨e1, by rw [e2]; rfl⟩

theorem findLC_shape (prev : Option Char) (l : Str) : ∀ b tail, findLineComment prev l = some (b, tail) →
    ∃ r, tail = '/' :: '/' :: r := by
  fun_induction findLineComment prev l with
  | case1 prev r hp ih =>
    intro b tail h
    simp only [Option.map_eq_some_iff] at h
    obtain ⟨⟨b', t'⟩, h1, h2⟩ := h
    simp only [Prod.mk.injEq] at h2
    obtain ⟨_, rfl⟩ := h2
    exact ih _ _ h1
  | case2 prev r hp =>
    intro b tail h
    simp only [Option.some.injEq, Prod.mk.injEq] at h
    exact ⟨r, h.2.symm⟩
  | case3 prev c r hne ih =>
    intro b tail h
    simp only [Option.map_eq_some_iff] at h
    obtain ⟨⟨b', t'⟩, h1, h2⟩ := h
    simp only [Prod.mk.injEq] at h2
    obtain ⟨_, rfl⟩ := h2
    exact ih _ _ h1
  | case4 => intro b tail h; cases h

theorem dropFinalNl_shape (r : Str) : ∃ r', (dropFinalNl ('/' :: '/' :: r)).1 = '/' :: '/' :: r' := by
  unfold dropFinalNl
  split
  · next hl =>
    cases r with
    | nil => simp at hl
    | cons d r' => exact ⟨(d :: r').dropLast, by simp [List.dropLast]⟩
  · exact ⟨r, rfl⟩

theorem replaceAll_cons (r' ph : Str) (c : Char) (l : Str) (h : ¬(c = '/' ∧ l.head? = some '/')) :
    replaceAll ('/' :: '/' :: r') ph (c :: l) = c :: replaceAll ('/' :: '/' :: r') ph l := by
  unfold replaceAll
  have hl : (c :: l).length + 1 = (l.length + 1) + 1 := rfl
  rw [hl, replaceAllFuel]
  have hp : ('/' :: '/' :: r').isPrefixOf (c :: l) = false := by
    cases l with
    | nil => simp [List.isPrefixOf]
    | cons d l' =>
      simp only [List.isPrefixOf, Bool.and_eq_false_imp, beq_iff_eq]
      intro e1 e2
      exact absurd ⟨e1.symm, by rw [← e2]; rfl⟩ h
  simp [hp]

/-- a character in front of a line that neither completes a `//` nor is a `:` in front of one is passed through -/
theorem lexLine_cons (cm : Bool) (st : LexSt) (c : Char) (l : Str) (h1 : ¬(c = '/' ∧ l.head? = some '/'))
    (h2 : ¬(c = ':' ∧ ['/', '/'] <+: l)) :
    lexLineComment cm st (c :: l) = ((lexLineComment cm st l).1, c :: (lexLineComment cm st l).2) := by
  have e1 : findLineComment none (c :: l) = (findLineComment (some c) l).map fun (b, t) => (c :: b, t) := by
    rw [findLineComment]
    intro r' e1 e2; exact h1 ⟨e1, by rw [e2]; rfl⟩
  have e2 : findLineComment (some c) l = findLineComment none l :=
    findLC_prev (some c) l (fun ⟨a, b⟩ => h2 ⟨by simpa using a, b⟩)
  unfold lexLineComment
  rw [e1, e2]
  cases hf : findLineComment none l with
  | none => rfl
  | some p =>
    obtain ⟨b, tail⟩ := p
    obtain ⟨r, rfl⟩ := findLC_shape none l b tail hf
    obtain ⟨r', hr'⟩ := dropFinalNl_shape r
    simp only [Option.map_some]
    rcases hd : dropFinalNl ('/' :: '/' :: r) with ⟨cmt, nl⟩
    rw [hd] at hr'
    simp only [] at hr'
    subst hr'
    simp only [replaceAll_cons r' _ c l h1]

/-! ### one character of the text -/

theorem lexLine_single (cm : Bool) (st : LexSt) (c : Char) : lexLineComment cm st [c] = (st, [c]) :=
  C02.lexLineComment_id cm st (C02.Main.infix2_single _ _ _)

theorem lexLine_crlf (cm : Bool) (st : LexSt) : lexLineComment cm st ['\r', '\n'] = (st, ['\r', '\n']) :=
  C02.lexLineComment_id cm st (by decide)

theorem LM_crlf (cm : Bool) (st : LexSt) (r : Str) :
    LM cm st ('\r' :: '\n' :: r) = ((LM cm st r).1, ['\r', '\n'] :: (LM cm st r).2) := by
  simp only [LM, split_crlf, lineMap, lexLine_crlf]

theorem LM_break (cm : Bool) (st : LexSt) {c : Char} (r : Str) (hb : isLineBreak c = true)
    (h : ¬(c = '\r' ∧ r.head? = some '\n')) :
    LM cm st (c :: r) = ((LM cm st r).1, [c] :: (LM cm st r).2) := by
  simp only [LM, split_break r hb h, lineMap, lexLine_single]

theorem LM_plain (cm : Bool) (st : LexSt) {c : Char} (r : Str) (hb : isLineBreak c = false)
    (h1 : ¬(c = '/' ∧ r.head? = some '/')) (h2 : ¬(c = ':' ∧ ['/', '/'] <+: r)) :
    LM cm st (c :: r) = ((LM cm st r).1, consLine c (LM cm st r).2) := by
  simp only [LM, split_plain r hb]
  cases hs : splitLinesKeep r with
  | nil => simp only [consLine, lineMap, lexLine_single]
  | cons l ls =>
    obtain ⟨hne, hr⟩ := first_line hs
    have h1' : ¬(c = '/' ∧ l.head? = some '/') := by
      rintro ⟨e1, e2⟩
      refine h1 ⟨e1, ?_⟩
      rw [hr]
      cases l with
      | nil => exact absurd rfl hne
      | cons d l' => simpa using e2
    have h2' : ¬(c = ':' ∧ ['/', '/'] <+: l) := by
      rintro ⟨e1, e2⟩
      refine h2 ⟨e1, ?_⟩
      rw [hr]
      exact e2.trans (List.prefix_append _ _)
    simp only [consLine, lineMap, lexLine_cons cm st c l h1' h2']

/-- no include directive on the line -/
def IFree (l : Str) : Prop := (dropWs l).head? ≠ some '#'

/-- all lines but the first are free of include directives; the first one too when `bit` says that only white
    space precedes it on its line -/
def InvB (bit : Bool) (ls : List Str) : Prop :=
  (∀ l ∈ ls.tail, IFree l) ∧ (bit = true → ∀ l ∈ ls.head?, IFree l)

theorem invB_all {ls : List Str} (h : InvB true ls) : ∀ l ∈ ls, IFree l := by
  cases ls with
  | nil => simp
  | cons l0 ls =>
    intro l hl
    rcases List.mem_cons.mp hl with rfl | hl
    · exact h.2 rfl l (by simp)
    · exact h.1 l hl

theorem invB_of_all {ls : List Str} (h : ∀ l ∈ ls, IFree l) (b : Bool) : InvB b ls := by
  cases ls with
  | nil => exact ⟨by simp, by simp⟩
  | cons l0 ls => exact ⟨fun l hl => h l (by simp at hl; simp [hl]), fun _ l hl => h l (by simp at hl; simp [hl])⟩

theorem invB_weaken {ls : List Str} (h : InvB true ls) (b : Bool) : InvB b ls := invB_of_all (invB_all h) b

theorem iFree_ws {c : Char} (h : isWs c = true) (l : Str) : IFree (c :: l) ↔ IFree l := by
  simp only [IFree, C02.Main.dropWs_cons_ws h]

theorem iFree_nws {c : Char} (h : isWs c = false) (hc : c ≠ '#') (l : Str) : IFree (c :: l) := by
  simp [IFree, C02.Main.dropWs_cons_nws h, hc]

theorem iFree_nil : IFree [] := by simp [IFree, dropWs]

theorem iFree_any {c : Char} (hc : c ≠ '#') : IFree [c] := by
  cases hw : isWs c with
  | true => exact (iFree_ws hw []).mpr iFree_nil
  | false => exact iFree_nws hw hc []

/-- the character `c` in front of the text `r` neither completes a `//` nor is a `:` in front of one -/
def PassC (c : Char) (r : Str) : Prop := ¬(c = '/' ∧ r.head? = some '/') ∧ ¬(c = ':' ∧ ['/', '/'] <+: r)

theorem LM_step (cm : Bool) (st : LexSt) (c : Char) (r : Str) (h : PassC c r) :
    (LM cm st (c :: r)).1 = (LM cm st r).1 ∧ (LM cm st (c :: r)).2.flatten = c :: (LM cm st r).2.flatten ∧
    ∀ b, (b = true → c ≠ '#') → InvB (nextSt b c) (LM cm st r).2 → InvB b (LM cm st (c :: r)).2 := by
  by_cases hb : isLineBreak c = true
  · have hws := C02.Main.lineBreak_ws hb
    have hnext : ∀ b, nextSt b c = true := fun b => by simp [nextSt, hb]
    by_cases hcr : c = '\r' ∧ r.head? = some '\n'
    · obtain ⟨rfl, hr⟩ := hcr
      cases r with
      | nil => simp at hr
      | cons d r2 =>
        simp only [List.head?_cons, Option.some.injEq] at hr
        subst hr
        have e2 := LM_break cm st r2 C02.isLineBreak_nl (by simp)
        rw [LM_crlf, e2]
        refine ⟨rfl, by simp, ?_⟩
        intro b _ hinv
        rw [hnext] at hinv
        have hall := invB_all hinv
        refine invB_of_all ?_ b
        intro l hl
        rcases List.mem_cons.mp hl with rfl | hl
        · simp [IFree]; decide
        · exact hall l (by simp [hl])
    · rw [LM_break cm st r hb hcr]
      refine ⟨rfl, by simp, ?_⟩
      intro b _ hinv
      rw [hnext] at hinv
      have hall := invB_all hinv
      refine invB_of_all ?_ b
      intro l hl
      rcases List.mem_cons.mp hl with rfl | hl
      · exact (iFree_ws hws []).mpr iFree_nil
      · exact hall l hl
  · have hb' : isLineBreak c = false := by simpa using hb
    rw [LM_plain cm st r hb' h.1 h.2]
    refine ⟨rfl, consLine_flatten _ _, ?_⟩
    intro b hc hinv
    have hnext : nextSt b c = (b && isWs c) := by simp [nextSt, hb']
    rw [hnext] at hinv
    cases hls : (LM cm st r).2 with
    | nil =>
      refine ⟨by simp [consLine], ?_⟩
      intro hbt l hl
      simp only [consLine, List.head?_cons, Option.mem_def, Option.some.injEq] at hl
      subst hl
      exact iFree_any (hc hbt)
    | cons l0 ls =>
      rw [hls] at hinv
      refine ⟨by simpa [consLine] using hinv.1, ?_⟩
      intro hbt l hl
      simp only [consLine, List.head?_cons, Option.mem_def, Option.some.injEq] at hl
      subst hl
      cases hw : isWs c with
      | true =>
        rw [iFree_ws hw]
        exact hinv.2 (by simp [hbt, hw]) l0 (by simp)
      | false => exact iFree_nws hw (hc hbt) _

/-- every character of `p`, in front of what follows it in `p ++ q`, is passed through -/
def PassA : Str → Str → Prop
  | [], _ => True
  | c :: p, q => PassC c (p ++ q) ∧ PassA p q

theorem LM_pass (cm : Bool) : ∀ (p q : Str) (st : LexSt), PassA p q →
    (LM cm st (p ++ q)).1 = (LM cm st q).1 ∧ (LM cm st (p ++ q)).2.flatten = p ++ (LM cm st q).2.flatten ∧
    ∀ b, noHash b p = true → InvB (lineSt b p) (LM cm st q).2 → InvB b (LM cm st (p ++ q)).2
  | [], q, st, _ => ⟨rfl, rfl, fun b _ h => h⟩
  | c :: p, q, st, h => by
    obtain ⟨i1, i2, i3⟩ := LM_pass cm p q st h.2
    obtain ⟨s1, s2, s3⟩ := LM_step cm st c (p ++ q) h.1
    refine ⟨by rw [List.cons_append, s1, i1], by rw [List.cons_append, s2, i2]; rfl, ?_⟩
    intro b hn hinv
    simp only [noHash, Bool.and_eq_true, Bool.not_eq_true', Bool.and_eq_false_imp, beq_eq_false_iff_ne] at hn
    rw [List.cons_append]
    refine s3 b (fun hb => hn.1 hb) (i3 _ hn.2 ?_)
    simpa [lineSt] using hinv

theorem passA_plain : ∀ (p q : Str), (∀ c ∈ p, c ≠ '/' ∧ c ≠ ':') → PassA p q
  | [], _, _ => trivial
  | c :: p, q, h =>
    ⟨⟨fun e => (h c (by simp)).1 e.1, fun e => (h c (by simp)).2 e.1⟩,
      passA_plain p q (fun d hd => h d (by simp [hd]))⟩

theorem passA_of : ∀ (p q : Str), isInfix ['/', '/'] p = false → q.head? ≠ some '/' → PassA p q
  | [], _, _, _ => trivial
  | c :: p, q, h, hq => by
    rw [C02.isInfix_cons] at h
    simp only [Bool.or_eq_false_iff] at h
    refine ⟨⟨?_, ?_⟩, passA_of p q h.2 hq⟩
    · rintro ⟨rfl, e⟩
      cases p with
      | nil => exact hq (by simpa using e)
      | cons d p' =>
        simp only [List.cons_append, List.head?_cons, Option.some.injEq] at e
        subst e
        simp [List.isPrefixOf] at h
    · rintro ⟨rfl, t, ht⟩
      cases p with
      | nil =>
        simp only [List.nil_append] at ht
        exact hq (by rw [← ht]; rfl)
      | cons d p' =>
        cases p' with
        | nil =>
          simp only [List.cons_append, List.nil_append, List.cons.injEq] at ht
          exact hq (by rw [← ht.2]; rfl)
        | cons d' p'' =>
          simp only [List.cons_append, List.cons.injEq] at ht
          obtain ⟨rfl, rfl, _⟩ := ht
          have := h.2
          simp [C02.isInfix_cons, List.isPrefixOf] at this

theorem ws_ne {c : Char} (h : isWs c = true) : c ≠ '/' ∧ c ≠ ':' ∧ c ≠ '*' ∧ c ≠ '#' := by
  refine ⟨?_, ?_, ?_, ?_⟩ <;> (rintro rfl; revert h; decide)

theorem delim_ne : ∀ c ∈ Gen.delimiters, c ≠ '/' ∧ c ≠ ':' ∧ c ≠ '*' ∧ c ≠ '#' ∧ isWs c = false := by decide

/-! ### one line comment -/

theorem lines_nobreak_nl : ∀ (a b : Str), (∀ c ∈ a, isLineBreak c = false) →
    splitLinesKeep (a ++ '\n' :: b) = (a ++ ['\n']) :: splitLinesKeep b
  | [], b, _ => split_break b C02.isLineBreak_nl (by simp)
  | c :: a, b, h => by
    rw [List.cons_append, split_plain _ (h c (by simp)), lines_nobreak_nl a b (fun d hd => h d (by simp [hd]))]
    rfl

theorem lines_nobreak : ∀ (a : Str), a ≠ [] → (∀ c ∈ a, isLineBreak c = false) → splitLinesKeep a = [a]
  | [], h, _ => absurd rfl h
  | [c], _, h => by rw [split_plain _ (h c (by simp))]; rfl
  | c :: d :: a, _, h => by
    rw [split_plain _ (h c (by simp)), lines_nobreak (d :: a) (by simp) (fun e he => h e (by simp [he]))]
    rfl

/-- the lexer state after a line comment with text `x` -/
def stL (st : LexSt) (x : Str) : LexSt :=
  { st.fresh.2 with lineC := st.fresh.2.lineC.set st.fresh.1 ('/' :: '/' :: x) }

/-- the placeholder the next line comment gets -/
def phL (cm : Bool) (st : LexSt) : Str := if cm then kwLine ++ padSix st.fresh.1 else []

theorem nl_not_mem {x : Str} (hx : ∀ c ∈ x, isLineBreak c = false) : '\n' ∉ x := fun hm => by
  have := hx _ hm; rw [C02.isLineBreak_nl] at this; cases this

theorem lexLine_comment (cm : Bool) (st : LexSt) (x nl : Str) (hx : ∀ c ∈ x, isLineBreak c = false)
    (hnl : nl = [] ∨ nl = ['\n']) :
    lexLineComment cm st ('/' :: '/' :: x ++ nl) = (stL st x, phL cm st ++ nl) := by
  have := C12_lineComment cm st [] x nl (by simp) (by simp) (nl_not_mem hx) hnl
  simpa [stL, phL] using this

theorem iFree_ph (cm : Bool) (st : LexSt) (nl : Str) (hnl : nl = [] ∨ nl = ['\n']) : IFree (phL cm st ++ nl) := by
  cases cm with
  | true =>
    have : phL true st ++ nl = 'L' :: ("INECOMMENT".toList ++ padSix st.fresh.1 ++ nl) := by simp [phL, kwLine]
    rw [this]
    exact iFree_nws (by decide) (by decide) _
  | false =>
    rcases hnl with rfl | rfl
    · simpa [phL] using iFree_nil
    · simp [phL, IFree]; decide

theorem LM_lineC (cm : Bool) (st : LexSt) (x q : Str) (hx : ∀ c ∈ x, isLineBreak c = false)
    (hq : q = [] ∨ q.head? = some '\n') :
    (LM cm st ('/' :: '/' :: x ++ q)).1 = (LM cm (stL st x) q).1 ∧
    (LM cm st ('/' :: '/' :: x ++ q)).2.flatten = phL cm st ++ (LM cm (stL st x) q).2.flatten ∧
    (InvB true (LM cm (stL st x) q).2 → InvB true (LM cm st ('/' :: '/' :: x ++ q)).2) := by
  have hx' : ∀ c ∈ '/' :: '/' :: x, isLineBreak c = false := by
    intro c hc
    simp only [List.mem_cons] at hc
    rcases hc with rfl | rfl | hc
    · decide
    · decide
    · exact hx c hc
  rcases hq with rfl | hq
  · have h1 := lexLine_comment cm st x [] hx (Or.inl rfl)
    simp only [List.append_nil] at h1 ⊢
    simp only [LM, lines_nobreak _ (by simp) hx', lineMap, h1, splitLinesKeep]
    refine ⟨rfl, by simp, fun _ => invB_of_all ?_ true⟩
    intro l hl
    simp only [List.mem_singleton] at hl
    subst hl
    simpa using iFree_ph cm st [] (Or.inl rfl)
  · cases q with
    | nil => simp at hq
    | cons d q' =>
      simp only [List.head?_cons, Option.some.injEq] at hq
      subst hq
      have h1 := lexLine_comment cm st x ['\n'] hx (Or.inr rfl)
      have e2 := LM_break cm (stL st x) q' C02.isLineBreak_nl (by simp)
      rw [e2]
      simp only [LM, lines_nobreak_nl _ q' hx', lineMap, h1]
      refine ⟨rfl, by simp, fun hinv => invB_of_all ?_ true⟩
      have hall := invB_all hinv
      intro l hl
      rcases List.mem_cons.mp hl with rfl | hl
      · exact iFree_ph cm st ['\n'] (Or.inr rfl)
      · exact hall l (by simp [hl])

/-! ### the include scan of a block comment -/

theorem iFree_head {c : Char} {l : Str} (h : IFree (c :: l)) : c ≠ '#' := by
  rintro rfl
  exact h (by simp [IFree, C02.Main.dropWs_cons_nws (by decide : isWs '#' = false)])

/-- the scan `noHash` is complete for `splitlines` -/
theorem noHash_complete (s : Str) : ∀ b, (∀ l ∈ (splitLinesKeep s).tail, IFree l) →
    (b = true → ∀ l ∈ (splitLinesKeep s).head?, IFree l) → noHash b s = true := by
  fun_induction splitLinesKeep s with
  | case1 => intro b _ _; rfl
  | case2 r ih =>
    intro b h1 _
    have e1 : nextSt b '\r' = true := by simp [nextSt]; left; decide
    have e2 : nextSt true '\n' = true := by simp [nextSt]; decide
    have := ih true (fun l hl => h1 l (by simp [List.mem_of_mem_tail hl]))
      (fun _ l hl => h1 l (by simp [List.mem_of_mem_head? hl]))
    simp [noHash, e1, e2, this]
  | case3 c r hne hb ih =>
    intro b h1 _
    have e1 : nextSt b c = true := by simp [nextSt, hb]
    have hc : c ≠ '#' := (ws_ne (C02.Main.lineBreak_ws hb)).2.2.2
    have := ih true (fun l hl => h1 l (by simp [List.mem_of_mem_tail hl]))
      (fun _ l hl => h1 l (by simp [List.mem_of_mem_head? hl]))
    simp [noHash, e1, this, hc]
  | case4 c r hne hb hnil ih =>
    intro b _ h2
    have hr := lines_nil hnil
    subst hr
    simp only [noHash, Bool.and_true, Bool.not_eq_true', Bool.and_eq_false_imp, beq_eq_false_iff_ne]
    intro hb
    exact iFree_head (h2 hb [c] (by simp))
  | case5 c r hne hb l0 ls hcons ih =>
    intro b h1 h2
    have hb' : isLineBreak c = false := by simpa using hb
    rw [hcons] at ih
    have hc : b = true → c ≠ '#' := fun hbt => iFree_head (h2 hbt (c :: l0) (by simp))
    have := ih (b && isWs c) (by simpa using h1) (by
      intro hbw l hl
      simp only [List.head?_cons, Option.mem_def, Option.some.injEq] at hl
      subst hl
      simp only [Bool.and_eq_true] at hbw
      have := h2 hbw.1 (c :: l0) (by simp)
      rwa [iFree_ws hbw.2] at this)
    simp only [noHash, nextSt, hb', Bool.false_eq_true, if_false, this, Bool.and_true, Bool.not_eq_true',
      Bool.and_eq_false_imp, beq_eq_false_iff_ne]
    exact hc

theorem noHash_mono : ∀ (s : Str), noHash true s = true → noHash false s = true
  | [], _ => rfl
  | c :: s, h => by
    simp only [noHash, Bool.and_eq_true] at h ⊢
    refine ⟨by simp, ?_⟩
    by_cases hb : isLineBreak c = true
    · simpa [nextSt, hb] using h.2
    · have hb' : isLineBreak c = false := by simpa using hb
      simp only [nextSt, hb', Bool.false_eq_true, if_false, Bool.false_and] at h ⊢
      cases hw : isWs c with
      | true => rw [hw] at h; exact noHash_mono s h.2
      | false => rw [hw] at h; simpa using h.2

/-- everything `isBlockCText` says -/
theorem blockText_iff {x : Str} : isBlockCText x = true ↔
    isInfix ['*', '/'] x = false ∧ isInfix ['/', '/'] x = false ∧ x.getLast? ≠ some '*' ∧ x.head? ≠ some '/' ∧
    ∀ l ∈ splitLinesKeep x, IFree l := by
  simp only [isBlockCText, IFree, Bool.and_eq_true, Bool.not_eq_true', List.all_eq_true, bne_iff_ne, ne_eq,
    beq_eq_false_iff_ne, and_assoc]

theorem blockTok_noHash {x : Str} (hx : isBlockCText x = true) (b : Bool) :
    noHash b ('/' :: '*' :: x ++ ['*', '/']) = true ∧ lineSt b ('/' :: '*' :: x ++ ['*', '/']) = false := by
  obtain ⟨_, _, _, _, hl⟩ := blockText_iff.mp hx
  have h1 : noHash false x = true :=
    noHash_mono x (noHash_complete x true (fun l hl' => hl l (List.mem_of_mem_tail hl'))
      (fun _ l hl' => hl l (List.mem_of_mem_head? hl')))
  have e1 : nextSt b '/' = false := by simp [nextSt]; constructor <;> decide
  have e2 : nextSt false '*' = false := by simp [nextSt]; decide
  have e3 : ∀ b, nextSt b '*' = false := by intro b; simp [nextSt]; constructor <;> decide
  have e4 : nextSt false '/' = false := by simp [nextSt]; decide
  have a1 : '/' :: '*' :: x ++ ['*', '/'] = ['/', '*'] ++ (x ++ ['*', '/']) := by simp
  have hend : ∀ b, noHash b ['*', '/'] = true ∧ lineSt b ['*', '/'] = false := by
    intro b
    simp [noHash, lineSt, e3, e4]
    decide
  constructor
  · rw [a1, C02.Main.noHash_append, C02.Main.noHash_append]
    simp [noHash, lineSt, e1, e2, h1, (hend _).1]
    decide
  · have lineSt_append : ∀ (a c : Str) (b : Bool), lineSt b (a ++ c) = lineSt (lineSt b a) c := by
      intro a c
      induction a with
      | nil => intro b; rfl
      | cons d a ih => intro b; simp [lineSt, ih]
    rw [a1, lineSt_append, lineSt_append, (hend _).2]

theorem blockTok_noSS {x : Str} (hx : isBlockCText x = true) :
    isInfix ['/', '/'] ('/' :: '*' :: x ++ ['*', '/']) = false := by
  obtain ⟨_, h2, _, h4, _⟩ := blockText_iff.mp hx
  have a1 : '/' :: '*' :: x ++ ['*', '/'] = (['/', '*'] ++ x) ++ ['*', '/'] := by simp
  rw [a1]
  refine C02.Main.infix2_append (C02.Main.infix2_append (by decide) h2 ?_) (by decide) ?_
  · intro h _; simp at h
  · intro _ h; simp at h

end Stages

end DictIO.C12
