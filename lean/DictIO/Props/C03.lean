/-
  C03 -- Parsed output is a fixed point: re-reading a written file changes nothing.
  Proved here for the comment-free fragment: source documents in the sense of `Model/Grammar.lean` (no comments,
  includes, `$`), any admissible layout; the writer is the plain-dict writer (`fmtPlain`: `to_string` on a builtin
  dict, no header).

    (a) `norm_den`              a denotation is already normalised: `normEs (denSrcEs es []) = denSrcEs es []`
        `C03_plain_fixpoint`    read any layout ↦ `D`; write `D`, read ↦ `normEs D`; `normEs D = D`
        `C03_read_write_read`   data of read (write (read x)) = data of read x
        `C03_cycles`            for every n: n write-read cycles after the first read give the same data
        `C03_file_fixpoint`     the same through `DictReader.read` / `DictWriter.write` on files
    (b) `C03_parsed_name_*`     parsing a parsed file targets the same name (from C13name), `cpp` counterexample cited
    (c) `C03_bytes_plain`, `C03_bytes_cycles`   the plain text stabilises with the first write;
        `C03_bytes_stable_statement`            with header / comments: kept as a statement
-/
import DictIO.Props.C01

namespace DictIO.C03
open DictIO

/-! ## helper lemmas -/

theorem normEs_setKey (k : Key) (v : Val) : ∀ acc : Entries, normEs (setKey k v acc) = setKey k (normV v) (normEs acc)
  | [] => by simp [setKey, normEs]
  | (k', v') :: acc => by
    by_cases h : k' = k
    · simp [setKey, normEs, h]
    · simp [setKey, normEs, h, normEs_setKey k v acc]

/-- a written scalar of a well-formed document means a normalised value: a bare word has no quote, so when
    `parse_value` leaves it a string it is the word itself (`C04.C04_idem`), which `parse_value` leaves a string;
    the meaning of a quoted string is by definition `normScalar` of its body -/
theorem normScalar_den {l : Lit} (h : l.ok = true) : normScalar l.den = l.den := by
  cases l with
  | bare w =>
    have hq : ∀ c ∈ w, isQuote c = false := fun c hc =>
      ((C01.isSrcWord_iff.mp (show isSrcWord w = true from h)).2.2.2.2.2.1 c hc).1
    show normScalar (parseValue w) = parseValue w
    cases hp : parseValue w with
    | str t =>
      have : t = w := C04.C04_idem hp hq
      subst this
      simp [normScalar, hp]
    | _ => rfl
  | quoted q b => exact C01.normScalar_idem (.str b)

mutual
  theorem norm_denV : ∀ (d : Nat) (v : Src), SrcWFV d v = true → normV (denSrcV v) = denSrcV v
    | _, .lit l, h => by
      simp only [SrcWFV, Bool.and_eq_true] at h
      simp only [denSrcV, normV, normScalar_den h.1]
    | d, .dict es, h => by
      simp only [SrcWFV] at h
      simp only [denSrcV, normV, norm_denEs (d + 1) es h [] rfl]
    | d, .list xs, h => by
      simp only [SrcWFV] at h
      simp only [denSrcV, normV, norm_denXs (d + 1) xs h]
  theorem norm_denEs : ∀ (d : Nat) (es : SrcEntries), SrcWFEs d es = true → ∀ acc : Entries, normEs acc = acc →
      normEs (denSrcEs es acc) = denSrcEs es acc
    | _, [], _, acc, ha => ha
    | d, (k, v) :: es, h, acc, ha => by
      simp only [SrcWFEs, Bool.and_eq_true] at h
      simp only [denSrcEs]
      split
      · exact norm_denEs d es h.2 _ (by rw [normEs_setKey, norm_denV d v h.1.2, ha])
      · exact norm_denEs d es h.2 _ ha
  theorem norm_denXs : ∀ (d : Nat) (xs : List Src), SrcWFXs d xs = true → normXs (denSrcXs xs) = denSrcXs xs
    | _, [], _ => rfl
    | d, v :: xs, h => by
      simp only [SrcWFXs, Bool.and_eq_true] at h
      simp only [denSrcXs, normXs, norm_denV d v h.1, norm_denXs d xs h.2]
end

/-- **the meaning of a well-formed source document is already normalised**: what the reader returns is not changed
    by the writer's `_retype_values`.  (Well-formedness is needed: the bare word `'1'`, quotes included, is read as
    the string `1`, which the writer would re-type.) -/
theorem norm_den {d : Nat} {es : SrcEntries} (h : SrcWFEs d es = true) : normEs (denSrcEs es []) = denSrcEs es [] :=
  norm_denEs d es h [] rfl

/-- the documentation keys are absent from the meaning when they are absent from the text -/
theorem den_docKeys' {es : SrcEntries} (hwf : SrcWFEs 1 es = true) (hd : C02.DocKeysAbsent es) :
    C01.DocKeysAbsent' (denSrcEs es []) := by
  obtain ⟨h1, h2⟩ := C02.den_docKeys hwf hd
  rw [lookup_eq_none_iff] at h1 h2
  intro e he
  have hk : e.1 ∈ keys (denSrcEs es []) := List.mem_map_of_mem (f := (·.1)) he
  exact ⟨fun h => h1 (h ▸ hk), fun h => h2 (h ▸ hk)⟩

/-! #### the two reads, with the counter kept valid (needed to iterate) -/

/-- reading an admissible layout of a well-formed document (C02), counter valid afterwards -/
theorem read_layout {es : SrcEntries} {gaps : List Str} {tail : Str} {c : Counter} (comments : Bool) (dir : Str)
    (hwf : SrcWFEs 1 es = true) (hg : GapsOKS (srcToksEs es) gaps = true) (ht : tail.all isWs = true)
    (hc : C13.ValidCounter Gen.counterLimit c) (hn : C02.countQuotedEs es ≤ Gen.counterLimit + 1)
    (hd : C02.DocKeysAbsent es) :
    ∃ c', C13.ValidCounter Gen.counterLimit c' ∧
      parseNative comments dir c (spreadS (srcToksEs es) gaps tail) = .ok ({ data := denSrcEs es [] }, c') := by
  refine ⟨_, ?_, C02.C02_layout_tolerant_counter comments dir hwf hg ht hc hn hd⟩
  rw [(C02.labelEs_state es _).2.2]
  exact C02.adv_valid _ hc

/-- reading the writer's text of a dict of the value domain (C01 route 1), counter valid afterwards -/
theorem read_written_text {e : Entries} {c : Counter} (comments : Bool) (dir : Str)
    (h : DomC01 .native e = true) (hd : C01.DocKeysAbsent' e)
    (hn : C02.countQuotedEs (srcOfEs .native e) ≤ Gen.counterLimit + 1) (hc : C13.ValidCounter Gen.counterLimit c) :
    ∃ c', C13.ValidCounter Gen.counterLimit c' ∧
      parseNative comments dir c (fmtPlain .native e) = .ok ({ data := normEs e }, c') := by
  obtain ⟨hwf, hden, gaps, tail, he, hg, ht⟩ := C01.C01_writer h
  refine ⟨(labelEs { counter := c } (srcOfEs .native e)).1.counter, ?_, ?_⟩
  · rw [(C02.labelEs_state _ _).2.2]; exact C02.adv_valid _ hc
  · rw [he, ← hden]
    refine C02.C02_layout_tolerant_gen comments dir hwf hg ht hc hn ?_ ?_
    · rw [hden]; exact C01.norm_lookup_none fun e he => (hd e he).1
    · rw [hden]; exact C01.norm_lookup_none fun e he => (hd e he).2

/-! ## (a) the fixed point -/

/-- **C03, comment-free fragment.**  Let `es` be a well-formed source document (hypotheses of
    `C02.C02_layout_tolerant`) whose meaning `D = denSrcEs es []` lies in the value domain of the writer, with the
    counting side condition for the text the writer produces.  Then
      1. reading ANY admissible layout of the document gives `D`;
      2. writing `D` as a plain dict and reading that text gives `normEs D`;
      3. `normEs D = D`.
    So read (write (read x)) = read x on the data (`C03_read_write_read`). -/
theorem C03_plain_fixpoint {es : SrcEntries} {gaps : List Str} {tail : Str} {c c₂ : Counter}
    (comments : Bool) (dir : Str)
    (hwf : SrcWFEs 1 es = true) (hg : GapsOKS (srcToksEs es) gaps = true) (ht : tail.all isWs = true)
    (hc : C13.ValidCounter Gen.counterLimit c) (hn : C02.countQuotedEs es ≤ Gen.counterLimit + 1)
    (hd : C02.DocKeysAbsent es)
    (hdom : DomC01 .native (denSrcEs es []) = true)
    (hn₂ : C02.countQuotedEs (srcOfEs .native (denSrcEs es [])) ≤ Gen.counterLimit + 1)
    (hc₂ : C13.ValidCounter Gen.counterLimit c₂) :
    (∃ c', parseNative comments dir c (spreadS (srcToksEs es) gaps tail) = .ok ({ data := denSrcEs es [] }, c')) ∧
    (∃ c', parseNative comments dir c₂ (fmtPlain .native (denSrcEs es [])) =
      .ok ({ data := normEs (denSrcEs es []) }, c')) ∧
    normEs (denSrcEs es []) = denSrcEs es [] :=
  ⟨C02.C02_layout_tolerant comments dir hwf hg ht hc hn hd,
   C01.C01_roundtrip_string comments dir hdom (den_docKeys' hwf hd) hn₂ hc₂,
   norm_den hwf⟩

/-- the data part of a read -/
def readData (comments : Bool) (dir : Str) (c : Counter) (text : Str) : Except ParseErr (Entries × Counter) :=
  match parseNative comments dir c text with
  | .ok (sd, c') => .ok (sd.data, c')
  | .error e => .error e

/-- the first read, then `n` times: write the data as a plain dict, read the text written.
    Returns the data of the last read (and the counter, which runs on through all reads). -/
def cycles (comments : Bool) (dir : Str) : Nat → Counter → Str → Except ParseErr (Entries × Counter)
  | 0, c, text => readData comments dir c text
  | n + 1, c, text =>
    match readData comments dir c text with
    | .error e => .error e
    | .ok (D, c') => cycles comments dir n c' (fmtPlain .native D)

/-- the texts written by the `n` cycles (the file after cycle 1, …, n) -/
def cycleTexts (comments : Bool) (dir : Str) : Nat → Counter → Str → List Str
  | 0, _, _ => []
  | n + 1, c, text =>
    match readData comments dir c text with
    | .error _ => []
    | .ok (D, c') => fmtPlain .native D :: cycleTexts comments dir n c' (fmtPlain .native D)

/-- **read (write (read x)) = read x** on the data, for the comment-free fragment (one cycle, spelled out) -/
theorem C03_read_write_read {es : SrcEntries} {gaps : List Str} {tail : Str} {c : Counter}
    (comments : Bool) (dir : Str)
    (hwf : SrcWFEs 1 es = true) (hg : GapsOKS (srcToksEs es) gaps = true) (ht : tail.all isWs = true)
    (hc : C13.ValidCounter Gen.counterLimit c) (hn : C02.countQuotedEs es ≤ Gen.counterLimit + 1)
    (hd : C02.DocKeysAbsent es)
    (hdom : DomC01 .native (denSrcEs es []) = true)
    (hn₂ : C02.countQuotedEs (srcOfEs .native (denSrcEs es [])) ≤ Gen.counterLimit + 1) :
    ∃ D c₁ c₂, readData comments dir c (spreadS (srcToksEs es) gaps tail) = .ok (D, c₁) ∧
      readData comments dir c₁ (fmtPlain .native D) = .ok (D, c₂) := by
  obtain ⟨c₁, hv₁, h1⟩ := read_layout comments dir hwf hg ht hc hn hd
  obtain ⟨c₂, _, h2⟩ := read_written_text (c := c₁) comments dir hdom (den_docKeys' hwf hd) hn₂ hv₁
  rw [norm_den hwf] at h2
  exact ⟨denSrcEs es [], c₁, c₂, by simp only [readData, h1], by simp only [readData, h2]⟩

/-- cycles on a text the writer wrote: always the same data -/
theorem cycles_written {D : Entries} (comments : Bool) (dir : Str)
    (hdom : DomC01 .native D = true) (hnorm : normEs D = D) (hdoc : C01.DocKeysAbsent' D)
    (hcnt : C02.countQuotedEs (srcOfEs .native D) ≤ Gen.counterLimit + 1) :
    ∀ (n : Nat) (c : Counter), C13.ValidCounter Gen.counterLimit c →
      (∃ c', C13.ValidCounter Gen.counterLimit c' ∧ cycles comments dir n c (fmtPlain .native D) = .ok (D, c')) ∧
      cycleTexts comments dir n c (fmtPlain .native D) = List.replicate n (fmtPlain .native D)
  | 0, c, hc => by
    obtain ⟨c', hv, h⟩ := read_written_text (c := c) comments dir hdom hdoc hcnt hc
    rw [hnorm] at h
    exact ⟨⟨c', hv, by simp only [cycles, readData, h]⟩, rfl⟩
  | n + 1, c, hc => by
    obtain ⟨c', hv, h⟩ := read_written_text (c := c) comments dir hdom hdoc hcnt hc
    rw [hnorm] at h
    obtain ⟨ih1, ih2⟩ := cycles_written comments dir hdom hnorm hdoc hcnt n c' hv
    refine ⟨?_, ?_⟩
    · simp only [cycles, readData, h]; exact ih1
    · simp only [cycleTexts, readData, h, ih2, List.replicate_succ]

/-- **C03, for every number of cycles.**  After the first read of any admissible layout, `n` write-read cycles
    (`n ≥ 0`; the property asks for `n ≥ 1`) return the same data `D` as the first read, and never fail. -/
theorem C03_cycles {es : SrcEntries} {gaps : List Str} {tail : Str} {c : Counter}
    (comments : Bool) (dir : Str)
    (hwf : SrcWFEs 1 es = true) (hg : GapsOKS (srcToksEs es) gaps = true) (ht : tail.all isWs = true)
    (hc : C13.ValidCounter Gen.counterLimit c) (hn : C02.countQuotedEs es ≤ Gen.counterLimit + 1)
    (hd : C02.DocKeysAbsent es)
    (hdom : DomC01 .native (denSrcEs es []) = true)
    (hn₂ : C02.countQuotedEs (srcOfEs .native (denSrcEs es [])) ≤ Gen.counterLimit + 1) (n : Nat) :
    ∃ c', cycles comments dir n c (spreadS (srcToksEs es) gaps tail) = .ok (denSrcEs es [], c') := by
  obtain ⟨c₁, hv₁, h1⟩ := read_layout comments dir hwf hg ht hc hn hd
  cases n with
  | zero => exact ⟨c₁, by simp only [cycles, readData, h1]⟩
  | succ n =>
    obtain ⟨⟨c', _, h⟩, _⟩ := cycles_written comments dir hdom (norm_den hwf) (den_docKeys' hwf hd) hn₂ n c₁ hv₁
    exact ⟨c', by simp only [cycles, readData, h1]; exact h⟩

/-- `n ≥ 1` cycles give the data of the first read (the form the property is stated in) -/
theorem C03_cycles_eq_first {es : SrcEntries} {gaps : List Str} {tail : Str} {c : Counter}
    (comments : Bool) (dir : Str)
    (hwf : SrcWFEs 1 es = true) (hg : GapsOKS (srcToksEs es) gaps = true) (ht : tail.all isWs = true)
    (hc : C13.ValidCounter Gen.counterLimit c) (hn : C02.countQuotedEs es ≤ Gen.counterLimit + 1)
    (hd : C02.DocKeysAbsent es)
    (hdom : DomC01 .native (denSrcEs es []) = true)
    (hn₂ : C02.countQuotedEs (srcOfEs .native (denSrcEs es [])) ≤ Gen.counterLimit + 1) (n : Nat) (_ : 1 ≤ n) :
    ∃ D c₀ cₙ, cycles comments dir 0 c (spreadS (srcToksEs es) gaps tail) = .ok (D, c₀) ∧
      cycles comments dir n c (spreadS (srcToksEs es) gaps tail) = .ok (D, cₙ) := by
  obtain ⟨c₀, h0⟩ := C03_cycles comments dir hwf hg ht hc hn hd hdom hn₂ 0
  obtain ⟨cₙ, hn'⟩ := C03_cycles comments dir hwf hg ht hc hn hd hdom hn₂ n
  exact ⟨_, c₀, cₙ, h0, hn'⟩

/-! #### the same on files: `DictReader.read`, `DictWriter.write` -/

/-- `DictReader.read` with default options on a native file whose text parses to a plain dict `e` without
    placeholder keys: the stages above the parser change nothing -/
theorem readFile_of_parse {e : Entries} {c c' : Counter} (ev : Str → EvalResult) (p : Comps) (text : Str)
    (hparse : parseNative true (pathStr p.dropLast) c text = .ok ({ data := e }, c'))
    (hp : C07.NoPhEs e) (hn : NodupKeysV (.dict e))
    (hj : isJsonPath p = false) (hx : isXmlPath p = false) (hr : resolveSpelled p = p) :
    readFile ev [(p, .native text)] {} c p = .ok (.ok { data := e } c') := by
  obtain ⟨hmi, hev⟩ := C01.read_stages_plain ev [(p, .native text)] true e p.dropLast c' hp hn
  have hpf : parseFile [(p, .native text)] true c p = .ok ({ data := e }, c') := by
    simp only [parseFile, hx, hr, C01.fs_get_single, hj, hparse]
    rfl
  simp only [readFile, hpf, bind, Except.bind, pure, Except.pure]
  simp only [if_true, hmi, hev]
  rfl

/-- **C03 on files.**  A source file `src` holds an admissible layout of a well-formed document; `DictReader.read`
    returns its meaning `D`; `DictWriter.write(D, target)` (new file, any mode) writes the plain text of `D` — the
    writer's re-typing changes nothing (`norm_den`) —; `DictReader.read(target)` returns `D` again. -/
theorem C03_file_fixpoint {es : SrcEntries} {gaps : List Str} {tail : Str} {c : Counter}
    (ev : Str → EvalResult) (src target : Comps) (mode : Str)
    (hwf : SrcWFEs 1 es = true) (hg : GapsOKS (srcToksEs es) gaps = true) (ht : tail.all isWs = true)
    (hc : C13.ValidCounter Gen.counterLimit c) (hn : C02.countQuotedEs es ≤ Gen.counterLimit + 1)
    (hd : C02.DocKeysAbsent es)
    (hdom : DomC01 .native (denSrcEs es []) = true)
    (hn₂ : C02.countQuotedEs (srcOfEs .native (denSrcEs es [])) ≤ Gen.counterLimit + 1)
    (hsj : isJsonPath src = false) (hsx : isXmlPath src = false) (hsr : resolveSpelled src = src)
    (htj : isJsonPath target = false) (htx : isXmlPath target = false) (htr : resolveSpelled target = target) :
    ∃ c₁ c₂,
      readFile ev [(src, .native (spreadS (srcToksEs es) gaps tail))] {} c src =
        .ok (.ok { data := denSrcEs es [] } c₁) ∧
      writeStep ev .native target none mode false (denSrcEs es []) c₁ = .ok (fmtPlain .native (denSrcEs es []), c₁) ∧
      readFile ev [(target, .native (fmtPlain .native (denSrcEs es [])))] {} c₁ target =
        .ok (.ok { data := denSrcEs es [] } c₂) := by
  obtain ⟨c₁, hv₁, h1⟩ := read_layout true (pathStr src.dropLast) hwf hg ht hc hn hd
  obtain ⟨c₂, h2⟩ := C01.read_written (c := c₁) ev target hdom (norm_den hwf) (den_docKeys' hwf hd) hn₂ hv₁ htj htx htr
  refine ⟨c₁, c₂, readFile_of_parse ev src _ h1 (C02.den_noPh hwf) (C02.den_nodup es) hsj hsx hsr, ?_, h2⟩
  show Except.ok (fmtPlain .native (normEs (denSrcEs es [])), c₁) = _
  rw [norm_den hwf]

/-! ## (b) parsing a parsed file targets the same name -/

/-- `DictParser.parse(parsed.x)` without output format writes to `parsed.x` again: the target name of a target name is
    itself, for every source name -/
theorem C03_parsed_name_none (n : Str) :
    targetName (targetName n (some "parsed".toList) [] none) (some "parsed".toList) [] none
      = targetName n (some "parsed".toList) [] none :=
  C13.targetName_idem_none n

/-- the same with output format `json` / `foam` / `xml` -/
theorem C03_parsed_name_ext {o : Str} (ho : o ∈ ["json".toList, "foam".toList, "xml".toList]) (n : Str) :
    targetName (targetName n (some "parsed".toList) [] (some o)) (some "parsed".toList) [] (some o)
      = targetName n (some "parsed".toList) [] (some o) :=
  C13.targetName_idem_ext ho n

/-- with output format `cpp` (no extension is written) the name is stable exactly on `C13.cppIdemDom`: what follows
    `parsed.` has no dot or ends in one; in particular whenever the stem of the source name has no dot -/
theorem C03_parsed_name_cpp (n : Str) :
    targetName (targetName n (some "parsed".toList) [] (some "cpp".toList)) (some "parsed".toList) [] (some "cpp".toList)
      = targetName n (some "parsed".toList) [] (some "cpp".toList) ↔ C13.cppIdemDom n = true :=
  C13.targetName_idem_cpp_iff n

theorem C03_parsed_name_cpp_plain {n : Str} (h : '.' ∉ stemOf n) :
    targetName (targetName n (some "parsed".toList) [] (some "cpp".toList)) (some "parsed".toList) [] (some "cpp".toList)
      = targetName n (some "parsed".toList) [] (some "cpp".toList) :=
  (C13.targetName_idem_cpp_iff n).mpr (C13.cppIdemDom_of_plain_stem h)

/-- all output formats at once, `cpp` with its side condition -/
theorem C03_parsed_name (n : Str) {out : Option Str} (hout : out ∈ C13.outputs)
    (hcpp : out = some "cpp".toList → C13.cppIdemDom n = true) :
    targetName (targetName n (some "parsed".toList) [] out) (some "parsed".toList) [] out
      = targetName n (some "parsed".toList) [] out :=
  C13.targetName_idem_partial n hout hcpp

/-- the side condition cannot be dropped: with output `cpp`, `a.b.c` ↦ `parsed.a.b` ↦ `parsed.a` — the second parse
    writes to another file (a finding recorded with C13) -/
theorem C03_parsed_name_cpp_cex :
    targetName "a.b.c".toList (some "parsed".toList) [] (some "cpp".toList) = "parsed.a.b".toList ∧
    targetName "parsed.a.b".toList (some "parsed".toList) [] (some "cpp".toList) = "parsed.a".toList :=
  C13.targetName_idem_cex

/-! ## (c) the bytes -/

/-- plain-dict version: writing what was read from a file the plain writer wrote reproduces that file byte for
    byte — the re-typing is the identity on a normalised dict -/
theorem C03_bytes_plain {D : Entries} (h : normEs D = D) : fmtPlain .native (normEs D) = fmtPlain .native D := by
  rw [h]

/-- the texts written in cycles 1, …, n are all the same text, the plain text of `D`: the bytes are stable from the
    first write on -/
theorem C03_bytes_cycles {es : SrcEntries} {gaps : List Str} {tail : Str} {c : Counter}
    (comments : Bool) (dir : Str)
    (hwf : SrcWFEs 1 es = true) (hg : GapsOKS (srcToksEs es) gaps = true) (ht : tail.all isWs = true)
    (hc : C13.ValidCounter Gen.counterLimit c) (hn : C02.countQuotedEs es ≤ Gen.counterLimit + 1)
    (hd : C02.DocKeysAbsent es)
    (hdom : DomC01 .native (denSrcEs es []) = true)
    (hn₂ : C02.countQuotedEs (srcOfEs .native (denSrcEs es [])) ≤ Gen.counterLimit + 1) (n : Nat) :
    cycleTexts comments dir n c (spreadS (srcToksEs es) gaps tail) =
      List.replicate n (fmtPlain .native (denSrcEs es [])) := by
  obtain ⟨c₁, hv₁, h1⟩ := read_layout comments dir hwf hg ht hc hn hd
  cases n with
  | zero => rfl
  | succ n =>
    obtain ⟨_, h⟩ := cycles_written comments dir hdom (norm_den hwf) (den_docKeys' hwf hd) hn₂ n c₁ hv₁
    simp only [cycleTexts, readData, h1, h, List.replicate_succ]

/-- **C03, bytes, full statement** (kept visible; NOT proved here).  The real writer serialises the `SDict` that was
    read (`fmtSD`: default header, block / line comments and include directives re-inserted).  For a source without
    transitive includes: the text written from what was read from a file the library wrote is that file, byte for byte.

    What is missing for a proof: reading a text with a header block comment goes through the comment stage of
    `parseNative` (`lexBlockCommentsFuel`, `lexLineComment`, `_clean`), outside the proved fragment, and the
    statement needs `insertBlockComments ∘ lexBlockComments = id` on written texts.  Decided by the correspondence
    check (harness C03: cycles on generated sources with comments, includes and expressions). -/
def C03_bytes_stable_statement : Prop :=
  ∀ (ev : Str → EvalResult) (p : Comps) (c c₁ c₂ : Counter) (sd₀ sd₁ sd₂ : SD) (t₁ t₂ : Str) (text : Str),
    isJsonPath p = false → isXmlPath p = false → resolveSpelled p = p →
    readFile ev [(p, .native text)] {} c p = .ok (.ok sd₀ c₁) → sd₀.incl = [] →
    fmtSD .native sd₀ = some t₁ →
    readFile ev [(p, .native t₁)] {} c₁ p = .ok (.ok sd₁ c₂) →
    fmtSD .native sd₁ = some t₂ →
    t₂ = t₁ ∧ (∀ c₃ c₄, readFile ev [(p, .native t₂)] {} c₃ p = .ok (.ok sd₂ c₄) → sd₂.data = sd₁.data)

/-! ## non-vacuity: the example document of `C02lex` / `C02main` -/

theorem exData_dom : DomC01 .native C02.exData = true := by decide +kernel

/-- the loose layout (tabs, CR LF, a no-break space) and three cycles: always `exData` -/
theorem ex_cycles (comments : Bool) (dir : Str) :
    ∃ c', cycles comments dir 3 none
      "\tk  'a; {b}' ;\r\nl (\t\"it's\"\u00a01 );\r\n\r\nsub\n{\n  p\t\t'x y';\n}\r\n".toList = .ok (C02.exData, c') := by
  have h := C03_cycles (c := none) (tail := ['\r', '\n']) comments dir C02.exSrc_wf C02.exSGapsLoose_ok (by decide)
    (Or.inl rfl) (by rw [C02.exSrc_count]; decide) C02.exSrc_docKeys
    (by rw [C02.exSrc_den]; exact exData_dom) (by rw [C02.exSrc_den]; decide +kernel) 3
  rwa [C02.exSLoose_text, C02.exSrc_den] at h

end DictIO.C03
