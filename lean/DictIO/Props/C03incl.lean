/-
  C03 -- the read → write → read fixed point for sources WITH `#include` directives (flat include graph), on the API
  state machine (`apiStep`, `apiRun`: `DictParser.parse`, `DictReader.read`).

  Setting (`Setup fs src c items gaps tail incs`): the text of the source file `src` is an admissible layout (`GapsOKI`) of a
  document `items` with top-level `#include` directives and plain entries (`C12WI.HWI`: the domain of `C12_read_included` /
  `C12_write_included`; no comments, no `$`); every file a directive names exists in the folder of the source and holds an
  admissible layout of a plain comment-free well-formed document (`IncAt`, hypotheses of `C02_layout_tolerant`) whose meaning
  lies in the value domain of C01 — so the included files include nothing (flat graph); `parsed.<name>` is a native-format
  path and none of the included files; the directives name pairwise distinct files (`namesnd`).

  What is proved (headline theorems):

    `C03_included_parse_reread_partial`
        `apiStep … (.parse src {} ['w'] none)` completes, returns the first read `sd₁`, and changes exactly one file:
        `parsed.<name>` next to the source, which now holds `parsedText items incs` = default header, the `#include`
        directives AGAIN (names spelled by `format_value`), and the MERGED entries `mergedData items incs`
        (= `mergeD true [] own temp`: the including file wins, earlier includes win over later ones).
        `apiStep … (.read (parseTarget src [] none) {})` then completes and returns `sd₂`: it merges the includes a SECOND
        time into the already merged entries, which changes nothing (`C07.merge_idem_top`);
        `dropPhEntries sd₂.data = dropPhEntries sd₁.data` (= `mergedData`), and both include tables name the same files.
        (`sd₂` has one more placeholder entry than `sd₁`: the header block comment; the include ids differ.)
    `C03_included_cycles_partial`
        for every `n`, the history `cycleOps src n` of `n + 1 ≥ 1` cycles (`parse src`, then `n` times
        `parse parsed.<name>`, which targets `parsed.<name>` again: `Setup.tgtFix`) completes, every cycle returns the
        entries of the first read (`Agrees`: entries without placeholder entries, files of the include table), a final
        `read parsed.<name>` returns them too, and the file system is the one after cycle 1.
    `C03_included_bytes`, `C03_included_bytes_cycles`, `C03_included_bytes_on_Setup`
        the text written in cycle 2 (and in every later cycle) equals the text written in cycle 1.
    `C03_included_bytes_statement_false`
        REFUTATION of the bytes claim on the domain without `namesnd` (`SetupW` = `HWI` as it stands): the source
        `#include 'x'` / `#include "x"` / `a p;` with `x` = `a q; b r;`.  The two directive texts differ, so the first read
        keeps two include entries and cycle 1 writes `#include x` twice (both spellings are written bare); on reading
        that file `_clean` finds two include entries with the same table value and deletes one, so cycle 2 writes the
        directive once: the bytes stabilise after TWO cycles, not one.  Exact condition for one cycle: the file names of the
        directives, as spelled, are pairwise distinct (`Setup.namesnd`).  The entries returned agree on the witness
        (`dup_data`).
    `C03_included_bytes_statement`, `C03_included_data_statement : Prop`
        the claims on the whole domain `SetupW`; the first is false, the second is proved under `namesnd` only (hence the
        suffix `_partial`), not refuted and not proved in general.

  Route: a shape predicate `RdOK s hdr ids names D` for what the reader returns (no expressions / line comments; the header
  block comment or none; the include placeholder entries of `ids`, the table naming `names`; the other entries `D` in the
  value domain — only the CLASSES of the top-level keys are fixed, not their places); `_clean` (`RdOK.clean`, `clean_top`),
  `merge` with a plain dict (`RdOK.merge`, via `mergeD_filter_in/out`), the self-merge, `_retype_values` (`RdOK.normData`),
  the writer (`RdOK.write`, via `C12WI.write_incl_top` and `C12.insertBlock_hdr`) and `_merge_includes` on plain included
  files (`readFile_rd`, via `C06.C06_flat`) all keep it; the first parse has it (`rd_first`, from `C12WI.wiok_denI`), the
  parse of the written file has it with header (`rd_second`, `parse_written`, from `C12_read_included` on
  `C12WI.writtenI names D`).  The value domain and the re-typing fixed points are closed under `merge`
  (`domC01_mergeD`, `norm_mergeD`, `docKeys_mergeD`).

  Assumed beyond the setting: `nqW` (the merged dict has at most `counterLimit + 1` quoted strings; decidable on the inputs).
  Not covered: comments in the including file, nested directives, `$`-expressions, included files with comments or
  includes of their own (transitive includes), JSON / XML / Foam targets, modes other than `'w'`, `order`, `scope`.
-/
import DictIO.Props.C12wincl
import DictIO.Props.C06
import DictIO.Props.C03
import DictIO.Props.C01dump
import DictIO.Props.C13api
import DictIO.Props.C09equiv

namespace DictIO.C03incl
open DictIO DictIO.C12 DictIO.C12.Incl DictIO.C12WI

set_option linter.unusedSimpArgs false
set_option linter.unusedVariables false
set_option linter.unnecessarySimpa false


/-! ## helper lemmas -/

/-! ### `mergeD` and key filters -/

theorem lookup_filter (q : Key → Bool) {k : Key} (hk : q k = true) : ∀ t : Entries,
    lookup k (t.filter fun e => q e.1) = lookup k t
  | [] => rfl
  | (k0, v0) :: t => by
    by_cases h0 : k0 = k
    · subst h0; simp [List.filter_cons, hk, lookup]
    · by_cases hq : q k0 = true
      · simp [List.filter_cons, hq, lookup, h0, lookup_filter q hk t]
      · simp [List.filter_cons, hq, lookup, h0, lookup_filter q hk t]

theorem mstep_filter_in (q : Key → Bool) (top : Bool) (ex : Tbl ExprEntry) (t : Entries) {k : Key} (v : Val)
    (hk : q k = true) :
    (C07.mstep top ex t k v).filter (fun e => q e.1) = C07.mstep top ex (t.filter fun e => q e.1) k v := by
  unfold C07.mstep
  rw [lookup_filter q hk t]
  split
  · rw [filter_setKey q, if_pos hk]
  · split
    · rw [filter_setKey q, if_pos hk]
    · rfl
  · simp [List.filter_append, List.filter_cons, hk]

theorem mstep_filter_out (q : Key → Bool) (top : Bool) (ex : Tbl ExprEntry) (t : Entries) {k : Key} (v : Val)
    (hk : q k = false) :
    (C07.mstep top ex t k v).filter (fun e => q e.1) = t.filter fun e => q e.1 := by
  unfold C07.mstep
  split
  · rw [filter_setKey q]; simp [hk]
  · split
    · rw [filter_setKey q]; simp [hk]
    · rfl
  · simp [List.filter_append, List.filter_cons, hk]

/-- a class of keys that holds every key of `o`: filtering commutes with the merge -/
theorem mergeD_filter_in (q : Key → Bool) (top : Bool) (ex : Tbl ExprEntry) : ∀ (o t : Entries),
    (∀ e ∈ o, q e.1 = true) →
    (mergeD top ex t o).filter (fun e => q e.1) = mergeD top ex (t.filter fun e => q e.1) o
  | [], t, _ => by rw [C07.mergeD_nil, C07.mergeD_nil]
  | (k, v) :: o, t, h => by
    rw [C07.mergeD_cons, C07.mergeD_cons, mergeD_filter_in q top ex o _ (fun e he => h e (List.mem_cons_of_mem _ he)),
      mstep_filter_in q top ex t v (h (k, v) List.mem_cons_self)]

/-- a class of keys that holds no key of `o`: the merge does not touch it -/
theorem mergeD_filter_out (q : Key → Bool) (top : Bool) (ex : Tbl ExprEntry) : ∀ (o t : Entries),
    (∀ e ∈ o, q e.1 = false) →
    (mergeD top ex t o).filter (fun e => q e.1) = t.filter fun e => q e.1
  | [], t, _ => by rw [C07.mergeD_nil]
  | (k, v) :: o, t, h => by
    rw [C07.mergeD_cons, mergeD_filter_out q top ex o _ (fun e he => h e (List.mem_cons_of_mem _ he)),
      mstep_filter_out q top ex t v (h (k, v) List.mem_cons_self)]


/-! ### the writer's re-typing and the value domain are closed under `merge` -/

theorem normEs_append : ∀ (a b : Entries), normEs (a ++ b) = normEs a ++ normEs b
  | [], b => rfl
  | (k, v) :: a, b => by simp [normEs, normEs_append a b]

theorem norm_lookup {k : Key} {v : Val} : ∀ {t : Entries}, normEs t = t → lookup k t = some v → normV v = v
  | [], _, h => by simp [lookup] at h
  | (k0, v0) :: t, hn, h => by
    simp only [normEs, List.cons.injEq, Prod.mk.injEq, true_and] at hn
    by_cases h0 : k0 = k
    · simp only [lookup, h0, if_true, Option.some.injEq] at h; subst h; exact hn.1
    · simp only [lookup, h0, if_false] at h; exact norm_lookup hn.2 h

theorem norm_mergeD (ex : Tbl ExprEntry) : ∀ (top : Bool) (t o : Entries), normEs t = t → normEs o = o →
    normEs (mergeD top ex t o) = mergeD top ex t o := by
  apply C07.mergeD_induct ex (motive := fun top t o => normEs t = t → normEs o = o →
    normEs (mergeD top ex t o) = mergeD top ex t o)
  · intro top t ht _; rw [C07.mergeD_nil]; exact ht
  · intro top t k v o ih1 ih2 ht ho
    simp only [normEs, List.cons.injEq, Prod.mk.injEq, true_and] at ho
    rw [C07.mergeD_cons]
    refine ih2 ?_ ho.2
    unfold C07.mstep
    split
    · rename_i td od hl
      have h1 := norm_lookup ht hl
      have h2 := ho.1
      simp only [normV, Val.dict.injEq] at h1 h2
      rw [C03.normEs_setKey, ht]
      simp only [normV, ih1 td od hl rfl h1 h2]
    · split
      · rw [C03.normEs_setKey, ht, ho.1]
      · exact ht
    · rw [normEs_append, ht]; simp [normEs, ho.1]

theorem dom_lookup {fl : Flavor} {d : Nat} {k : Key} {v : Val} : ∀ {t : Entries}, domEs fl d t = true →
    lookup k t = some v → domV fl d v = true
  | [], _, h => by simp [lookup] at h
  | (k0, v0) :: t, hd, h => by
    simp only [domEs, Bool.and_eq_true] at hd
    by_cases h0 : k0 = k
    · simp only [lookup, h0, if_true, Option.some.injEq] at h; subst h; exact hd.1.2
    · simp only [lookup, h0, if_false] at h; exact dom_lookup hd.2 h

theorem dom_setKey {fl : Flavor} {d : Nat} {k : Key} {v : Val} (hk : isDomKey k = true) (hv : domV fl d v = true) :
    ∀ {t : Entries}, domEs fl d t = true → domEs fl d (setKey k v t) = true
  | [], _ => by simp [setKey, domEs, hk, hv]
  | (k0, v0) :: t, hd => by
    simp only [domEs, Bool.and_eq_true] at hd
    by_cases h0 : k0 = k
    · simp only [setKey, h0, if_true, domEs, hk, hv, hd.2, Bool.and_self]
    · simp only [setKey, h0, if_false, domEs, hd.1.1, hd.1.2, dom_setKey hk hv hd.2, Bool.and_self]

theorem dom_append {fl : Flavor} {d : Nat} : ∀ {a b : Entries}, domEs fl d a = true → domEs fl d b = true →
    domEs fl d (a ++ b) = true
  | [], b, _, hb => hb
  | (k, v) :: a, b, ha, hb => by
    simp only [domEs, Bool.and_eq_true] at ha
    simp only [List.cons_append, domEs, ha.1.1, ha.1.2, dom_append ha.2 hb, Bool.and_self]

theorem dom_mergeD (fl : Flavor) (ex : Tbl ExprEntry) : ∀ (top : Bool) (t o : Entries), ∀ d, domEs fl d t = true →
    (keys t).Nodup → domEs fl d o = true → domEs fl d (mergeD top ex t o) = true := by
  apply C07.mergeD_induct ex (motive := fun top t o => ∀ d, domEs fl d t = true → (keys t).Nodup →
    domEs fl d o = true → domEs fl d (mergeD top ex t o) = true)
  · intro top t d ht _ _; rw [C07.mergeD_nil]; exact ht
  · intro top t k v o ih1 ih2 d ht hn ho
    simp only [domEs, Bool.and_eq_true] at ho
    rw [C07.mergeD_cons]
    have hn' : (keys (C07.mstep top ex t k v)).Nodup := by
      have := C06.nodup_keys_mergeD top ex [(k, v)] t hn
      rwa [C07.mergeD_cons, C07.mergeD_nil] at this
    refine ih2 d ?_ hn' ho.2
    unfold C07.mstep
    split
    · rename_i td od hl
      have h1 := dom_lookup ht hl
      have h2 := ho.1.2
      simp only [domV, Bool.and_eq_true, decide_eq_true_eq] at h1 h2
      refine dom_setKey ho.1.1 ?_ ht
      simp only [domV, Bool.and_eq_true, decide_eq_true_eq]
      exact ⟨ih1 td od hl rfl (d + 1) h1.1 h1.2 h2.1, C06.nodup_keys_mergeD false ex od td h1.2⟩
    · split
      · exact dom_setKey ho.1.1 ho.1.2 ht
      · exact ht
    · exact dom_append ht (by simp [domEs, ho.1.1, ho.1.2])

/-- the value domain of C01 is closed under `merge` -/
theorem domC01_mergeD (ex : Tbl ExprEntry) (top : Bool) {t o : Entries} (ht : DomC01 .native t = true)
    (ho : DomC01 .native o = true) : DomC01 .native (mergeD top ex t o) = true := by
  simp only [DomC01, Bool.and_eq_true, decide_eq_true_eq] at ht ho ⊢
  exact ⟨dom_mergeD .native ex top t o 1 ht.1 ht.2 ho.1, C06.nodup_keys_mergeD top ex o t ht.2⟩

def isDocKey (k : Key) : Bool := k == .str "_variables".toList || k == .str "_includes".toList

theorem docKeys_iff {es : Entries} : C01.DocKeysAbsent' es ↔ es.filter (fun e => isDocKey e.1) = [] := by
  simp only [C01.DocKeysAbsent', List.filter_eq_nil_iff, isDocKey, Bool.or_eq_true, beq_iff_eq, not_or]

theorem docKeys_mergeD (ex : Tbl ExprEntry) (top : Bool) {t o : Entries} (ht : C01.DocKeysAbsent' t)
    (ho : C01.DocKeysAbsent' o) : C01.DocKeysAbsent' (mergeD top ex t o) := by
  rw [docKeys_iff] at ht ⊢
  rw [mergeD_filter_out isDocKey top ex o t, ht]
  intro e he
  have := ho e he
  simp only [isDocKey, Bool.or_eq_false_iff, beq_eq_false_iff_ne]
  exact this

/-! ### `_clean` on an SDict whose placeholder entries stand at the top level only -/

/-- the loop of `_clean_data` for one class of keys with at most one candidate key -/
theorem cleanStep_le1 {α} [BEq α] (sel : Key → Bool) (lvl : Entries) (tbl : Tbl α)
    (h : ((keys lvl).filter sel).length ≤ 1) : C06.cleanStep sel lvl tbl = (lvl, tbl) := by
  rw [C08.cleanStep_eq]
  rcases hc : (keys lvl).filter sel with _ | ⟨k, _ | ⟨k', r⟩⟩
  · rfl
  · simp only [List.foldl_cons, List.foldl_nil]
    cases k with
    | int z => rfl
    | str x =>
      cases hf : firstSixDigits x with
      | none => simp only [C08.cstep, hf]
      | some i =>
        cases hg : Tbl.get? i tbl with
        | none => simp only [C08.cstep, hf, hg]
        | some txt => simp [C08.cstep, hf, hg]
  · rw [hc] at h; simp at h

/-- the include class: the keys are the reader's own placeholder words, the table has no value twice -/
theorem cleanStep_inclKeys (lvl : Entries) (t : Tbl InclEntry) (ht : TblInj t) (hn : (keys lvl).Nodup)
    (hI : ∀ k ∈ keys lvl, SelIOK k) : C06.cleanStep C06.selI lvl t = (lvl, t) := by
  rw [C08.cleanStep_eq]
  have := cfold_both t ht _ (hn.filter C06.selI) (by
    intro k hk k' hk' h1 h2
    obtain ⟨hk1, hk2⟩ := List.mem_filter.mp hk
    obtain ⟨hk1', hk2'⟩ := List.mem_filter.mp hk'
    obtain ⟨i, hi, ei⟩ := hI k hk1 hk2
    obtain ⟨j, hj, ej⟩ := hI k' hk1' hk2'
    rw [ei, ej] at h1 ⊢
    simp only [fsdK, firstSix_inclPh hi, firstSix_inclPh hj, Option.some.injEq] at h1
    rw [h1]) lvl [] (by intro a ha; cases ha)
  exact Prod.ext this.1 this.2

/-- **`_clean` changes nothing** when there is no line comment, at most one block-comment key, the include keys are the
    reader's own words with distinct table values, and the nested dicts hold no placeholder key -/
theorem clean_top (s : SD) (hl : s.lineC = []) (hB : ((keys s.data).filter C06.selB).length ≤ 1)
    (ht : TblInj s.incl) (hn : (keys s.data).Nodup) (hI : ∀ k ∈ keys s.data, SelIOK k)
    (hsub : ∀ k sub, (k, Val.dict sub) ∈ s.data → C07.NoPhEs sub ∧ NodupKeysV (.dict sub)) : s.clean = s := by
  have hlev : cleanLevel s s.data = (s, s.data) := by
    rw [C08.cleanLevel_eq, cleanStep_le1 C06.selB s.data s.blockC hB, cleanStep_inclKeys s.data s.incl ht hn hI, hl,
      cleanStep_nil C06.selL s.data hn]
    cases s; simp only at hl; subst hl; rfl
  have hrec : ∀ fuel, cleanRec (fuel + 1) s s.data = (s, s.data) := by
    intro fuel
    simp only [cleanRec, hlev]
    suffices H : ∀ l : Entries, (∀ e ∈ l, e ∈ s.data) →
        l.foldl (fun (acc : SD × Entries) e =>
          match e.2 with
          | .dict sub => ((cleanRec fuel acc.1 sub).1, setKey e.1 (.dict (cleanRec fuel acc.1 sub).2) acc.2)
          | _ => acc) (s, s.data) = (s, s.data) from H _ (fun _ h => h)
    intro l
    induction l with
    | nil => intro _; rfl
    | cons e l ih =>
      intro hsubl
      obtain ⟨k, v⟩ := e
      have hmem : (k, v) ∈ s.data := hsubl _ List.mem_cons_self
      have hrest := ih fun e he => hsubl e (List.mem_cons_of_mem _ he)
      cases v with
      | leaf x => simpa only [List.foldl_cons] using hrest
      | list xs => simpa only [List.foldl_cons] using hrest
      | dict sub =>
        obtain ⟨h1, h2⟩ := hsub k sub hmem
        simp only [List.foldl_cons, C07.cleanRec_id fuel s sub h2 h1, C07.setKey_of_mem_nodup hn hmem]
        exact hrest
  simp only [SD.clean, hrec]

/-! ### the shape of what the reader returns for a file with top-level directives -/

theorem selB_eq (k : Key) : C06.selB k = pB k := by cases k <;> rfl
theorem selI_eq (k : Key) : C06.selI k = (!pB k && pI k) := by cases k <;> rfl

theorem ph_split {k : Key} (h : C07.isPhKey k = false) : pB k = false ∧ pI k = false := by
  cases k with
  | int z => exact ⟨rfl, rfl⟩
  | str x =>
    simp only [C07.isPhKey, Bool.or_eq_false_iff] at h
    exact ⟨h.1.1, h.1.2⟩

theorem zip_fst_snd {α β} : ∀ l : List (α × β), List.zip (l.map (·.1)) (l.map (·.2)) = l
  | [] => rfl
  | (a, b) :: l => by simp [zip_fst_snd l]

/-- **shape of a read result**: no expressions, no line comments; block comments: none, or (`hdr`) the header comment
    under id 0 with its placeholder entry; the include placeholder entries of the ids `ids`, the table naming the files
    `names` (pairwise distinct) under these ids; the remaining entries are `D`, a dict of the value domain that the
    writer's re-typing leaves alone.  (Only the classes are fixed, not the places of the placeholder entries.) -/
structure RdOK (s : SD) (hdr : Bool) (ids : List Nat) (names : List Str) (D : Entries) : Prop where
  exprs : s.exprs = []
  lineC : s.lineC = []
  blockC : s.blockC = if hdr then [(0, hdrComment)] else []
  fB : s.data.filter (fun e => pB e.1) = if hdr then [hdrEntry] else []
  fI : s.data.filter (fun e => !pB e.1 && pI e.1) = ids.map inclE
  fR : s.data.filter (fun e => !pB e.1 && !pI e.1) = D
  nodup : (keys s.data).Nodup
  idsle : ∀ i ∈ ids, i ≤ 999999
  idsnd : ids.Nodup
  tblIds : s.incl.map (·.1) = ids
  tblFiles : s.incl.map (·.2.file) = names
  namesnd : names.Nodup
  dom : DomC01 .native D = true
  norm : normEs D = D

namespace RdOK
variable {s : SD} {hdr : Bool} {ids : List Nat} {names : List Str} {D : Entries}

theorem entry_cases (h : RdOK s hdr ids names D) : ∀ e ∈ s.data,
    (hdr = true ∧ e = hdrEntry) ∨ (∃ i ∈ ids, e = inclE i) ∨ e ∈ D := by
  intro e he
  cases hb : pB e.1 with
  | true =>
    have : e ∈ s.data.filter (fun e => pB e.1) := List.mem_filter.mpr ⟨he, hb⟩
    rw [h.fB] at this
    cases hdr with
    | true => simp at this; exact Or.inl ⟨rfl, this⟩
    | false => simp at this
  | false =>
    cases hi : pI e.1 with
    | true =>
      have : e ∈ s.data.filter (fun e => !pB e.1 && pI e.1) := List.mem_filter.mpr ⟨he, by simp [hb, hi]⟩
      rw [h.fI] at this
      obtain ⟨i, hmi, rfl⟩ := List.mem_map.mp this
      exact Or.inr (Or.inl ⟨i, hmi, rfl⟩)
    | false =>
      have : e ∈ s.data.filter (fun e => !pB e.1 && !pI e.1) := List.mem_filter.mpr ⟨he, by simp [hb, hi]⟩
      rw [h.fR] at this
      exact Or.inr (Or.inr this)

theorem dfacts (h : RdOK s hdr ids names D) : C07.NoPhEs D ∧ NodupKeysV (.dict D) := by
  have := C01.norm_invariants h.dom
  rwa [h.norm] at this

theorem inj (h : RdOK s hdr ids names D) : TblInj s.incl := by
  rw [← zip_fst_snd s.incl]
  refine tblInj_zip _ _ (nodup_of_map (fun e : InclEntry => e.file) _ ?_)
  rw [List.map_map]
  exact h.tblFiles ▸ h.namesnd

theorem clean (h : RdOK s hdr ids names D) : s.clean = s := by
  refine clean_top s h.lineC ?_ h.inj h.nodup ?_ ?_
  · have : (keys s.data).filter C06.selB = keys (s.data.filter fun e => pB e.1) := by
      rw [show keys s.data = s.data.map (·.1) from rfl, List.filter_map]
      exact congrArg (List.map (fun e : Key × Val => e.1)) (List.filter_congr fun (e : Key × Val) _ => selB_eq e.1)
    rw [this, h.fB]
    cases hdr <;> simp
  · intro k hk hs
    obtain ⟨e, he, rfl⟩ := List.mem_map.mp hk
    rw [selI_eq] at hs
    have : e ∈ s.data.filter (fun e => !pB e.1 && pI e.1) := List.mem_filter.mpr ⟨he, hs⟩
    rw [h.fI] at this
    obtain ⟨i, hi, rfl⟩ := List.mem_map.mp this
    exact ⟨i, by have := h.idsle i hi; omega, rfl⟩
  · intro k sub hm
    rcases h.entry_cases _ hm with ⟨_, e⟩ | ⟨i, _, e⟩ | hD
    · cases e
    · cases e
    · exact ⟨(C07.noPhEs_iff.mp h.dfacts.1 _ hD).2, C07.nodupKeysEs_iff.mp h.dfacts.2.2 _ hD⟩

theorem nodupV (h : RdOK s hdr ids names D) : NodupKeysV (.dict s.data) := by
  refine ⟨h.nodup, C07.nodupKeysEs_iff.mpr fun e he => ?_⟩
  rcases h.entry_cases e he with ⟨_, rfl⟩ | ⟨i, _, rfl⟩ | hD
  · simp [hdrEntry, NodupKeysV]
  · simp [inclE, NodupKeysV]
  · exact C07.nodupKeysEs_iff.mp h.dfacts.2.2 _ hD

/-- removing the placeholder entries gives the entries `D` -/
theorem dropPh (h : RdOK s hdr ids names D) : C01.dropPhEntries s.data = D := by
  rw [← h.fR]
  refine List.filter_congr fun e he => ?_
  rcases h.entry_cases e he with ⟨_, rfl⟩ | ⟨i, hi, rfl⟩ | hD
  · have hA : C07.isPhKey (.str hdrPh) = true := hdrPh_isPh
    have hB : pB (.str hdrPh) = true := hdrPh_block
    show (!C07.isPhKey (.str hdrPh)) = (!pB (.str hdrPh) && !pI (.str hdrPh))
    rw [hA, hB]; rfl
  · have := p_inclPh (h.idsle i hi)
    have h2 : containsPh kwIncl (inclPh i) = true := this.2
    have hA : C07.isPhKey (.str (inclPh i)) = true := by
      simp only [C07.isPhKey, h2, Bool.or_true, Bool.true_or]
    show (!C07.isPhKey (.str (inclPh i))) = (!pB (.str (inclPh i)) && !pI (.str (inclPh i)))
    rw [hA, this.1, this.2]; rfl
  · have h1 := C12.dom_noPh_keys h.dom e.1 (List.mem_map_of_mem hD)
    simp [h1, (ph_split h1).1, (ph_split h1).2]

/-- `self.merge(temp)` for a `temp` of the value domain without tables: the data are merged, nothing else changes,
    and the shape stays -/
theorem merge (h : RdOK s hdr ids names D) {TD : Entries} (hd : DomC01 .native TD = true) (hnm : normEs TD = TD) :
    s.merge (.sd { data := TD }) = { s with data := mergeD true [] s.data TD } ∧
    RdOK { s with data := mergeD true [] s.data TD } hdr ids names (mergeD true [] D TD) := by
  have hk : ∀ e ∈ TD, pB e.1 = false ∧ pI e.1 = false := fun e he =>
    ph_split (C12.dom_noPh_keys hd e.1 (List.mem_map_of_mem he))
  have h' : RdOK { s with data := mergeD true [] s.data TD } hdr ids names (mergeD true [] D TD) := {
    exprs := h.exprs
    lineC := h.lineC
    blockC := h.blockC
    fB := by
      show (mergeD true [] s.data TD).filter _ = _
      rw [mergeD_filter_out pB true [] TD s.data (fun e he => (hk e he).1)]; exact h.fB
    fI := by
      show (mergeD true [] s.data TD).filter _ = _
      rw [mergeD_filter_out (fun k => !pB k && pI k) true [] TD s.data (fun e he => by simp [(hk e he).1, (hk e he).2])]
      exact h.fI
    fR := by
      show (mergeD true [] s.data TD).filter _ = _
      rw [mergeD_filter_in (fun k => !pB k && !pI k) true [] TD s.data (fun e he => by simp [(hk e he).1, (hk e he).2]),
        h.fR]
    nodup := C06.nodup_keys_mergeD true [] TD s.data h.nodup
    idsle := h.idsle
    idsnd := h.idsnd
    tblIds := h.tblIds
    tblFiles := h.tblFiles
    namesnd := h.namesnd
    dom := domC01_mergeD [] true h.dom hd
    norm := norm_mergeD [] true D TD h.norm hnm }
  refine ⟨?_, h'⟩
  have e : s.merge (.sd { data := TD }) = ({ s with data := mergeD true [] s.data TD } : SD).clean := by
    have hx := h.exprs
    cases s; simp only at hx; subst hx; rfl
  rw [e]
  exact h'.clean

theorem merge_self (h : RdOK s hdr ids names D) : s.merge (.sd s) = s := C01.merge_self_clean s h.clean h.nodupV

end RdOK

/-! ### the writer on such an SDict -/

/-- file names the writer theorem of `C12wincl` covers: no `$`, not the word `INCLUDE`, no line feed, no carriage return -/
def NamesOK (names : List Str) : Prop :=
  ∀ n ∈ names, n.contains '$' = false ∧ NoI n ∧ ∀ c ∈ n, c ≠ '\n' ∧ c ≠ '\r'

theorem infix_skip (c : Char) (p : Str) : ∀ (a s : Str), c ∉ a → isInfix (c :: p) (a ++ s) = isInfix (c :: p) s
  | [], s, _ => rfl
  | x :: a, s, h => by
    have hx : (c == x) = false := by
      simp only [beq_eq_false_iff_ne]; intro e; exact h (by simp [e])
    rw [List.cons_append, C02.isInfix_cons, C02.isPrefixOf_cc, hx, Bool.false_and, Bool.false_or]
    exact infix_skip c p a s (fun hm => h (List.mem_cons_of_mem _ hm))

theorem iphLines_noB : ∀ (ids : List Nat), 'B' ∉ (ids.map fun i => iphLine i pad0).flatMap (· ++ ['\n'])
  | [] => by simp
  | i :: ids => by
    have ih := iphLines_noB ids
    have h1 : 'B' ∉ inclPh i := by
      simp only [inclPh, List.mem_append, not_or]
      exact ⟨by decide, C08.padSix_not (by decide) i⟩
    have h2 : 'B' ∉ pad0 := by decide
    simp only [List.map_cons, List.flatMap_cons, iphLine, List.mem_append, not_or, List.mem_singleton, List.mem_cons]
    exact ⟨⟨⟨⟨⟨h1, h2⟩, h1⟩, by decide⟩, by simp⟩, ih⟩

theorem noHdrPh_incl {ids : List Nat} {D : Entries} (hle : ∀ i ∈ ids, i ≤ 999999) (hd : DomC01 .native D = true) :
    isInfix hdrPh (fmtEntries .native 0 (ids.map inclE ++ D)) = false := by
  obtain ⟨x, _, hx, _⟩ := hdrPh_shape
  rw [fmt_incl_top ids D hle, hx, infix_skip 'B' x _ _ (iphLines_noB ids), ← hx]
  exact dom_noHdrPh hd

theorem tbl_look : ∀ (t : Tbl InclEntry), (t.map (·.1)).Nodup →
    ∀ p ∈ (t.map (·.1)).zip (t.map (·.2.file)), ∃ e, t.get? p.1 = some e ∧ e.file = p.2
  | [], _, p, hp => by simp at hp
  | (i, a) :: t, hnd, p, hp => by
    obtain ⟨hi, hnd'⟩ := List.nodup_cons.mp hnd
    simp only [List.map_cons, List.zip_cons_cons, List.mem_cons] at hp
    rcases hp with rfl | hp
    · exact ⟨a, by simp [Tbl.get?], rfl⟩
    · obtain ⟨e, he, hfe⟩ := tbl_look t hnd' p hp
      have hne : ¬ i = p.1 := fun e1 => hi (e1 ▸ (List.of_mem_zip hp).1)
      exact ⟨e, by simp only [Tbl.get?, hne, if_false]; exact he, hfe⟩

namespace RdOK
variable {s : SD} {hdr : Bool} {ids : List Nat} {names : List Str} {D : Entries}

theorem hoist (h : RdOK s hdr ids names D) :
    hoistPlaceholders s.data = (if hdr then [hdrEntry] else []) ++ ids.map inclE ++ D := by
  rw [C12W.hoist_def]
  show List.filter (fun (e : Key × Val) => pB e.1) _ ++ List.filter (fun (e : Key × Val) => !pB e.1 && pI e.1) _ ++
    List.filter (fun (e : Key × Val) => !pB e.1 && !pI e.1) _ = _
  rw [h.fB, h.fI, h.fR]

theorem len (h : RdOK s hdr ids names D) : ids.length = names.length := by
  rw [← h.tblIds, ← h.tblFiles, List.length_map, List.length_map]

/-- without header: the hypotheses of the writer theorem of `C12wincl` -/
theorem wiok (h : RdOK s false ids names D) (hn : NamesOK names) : WIOK s ids names D where
  lineC := h.lineC
  blockC := h.blockC
  hoist := by rw [h.hoist]; rfl
  dom := h.dom
  len := h.len
  idsle := h.idsle
  look := by
    have := tbl_look s.incl (h.tblIds ▸ h.idsnd)
    rwa [h.tblIds, h.tblFiles] at this
  tbl := by
    intro e he
    have h1 : e.1 ∈ ids := h.tblIds ▸ List.mem_map_of_mem (f := (·.1)) he
    have h2 : e.2.file ∈ names := h.tblFiles ▸ List.mem_map_of_mem (f := (·.2.file)) he
    exact ⟨h.idsle _ h1, (hn _ h2).1, (hn _ h2).2.1⟩
  names := fun n hm => ⟨(hn n hm).1, (hn n hm).2.2⟩

/-- the same SDict without the header comment and its placeholder entry -/
def strip (s : SD) : SD := { s with blockC := [], data := s.data.filter fun e => !pB e.1 }

theorem strip_ok (h : RdOK s hdr ids names D) : RdOK (strip s) false ids names D where
  exprs := h.exprs
  lineC := h.lineC
  blockC := rfl
  fB := by
    show (s.data.filter _).filter _ = _
    rw [List.filter_filter]; simp
  fI := by
    show (s.data.filter _).filter _ = _
    rw [List.filter_filter, ← h.fI]
    exact List.filter_congr fun e _ => by cases pB e.1 <;> simp
  fR := by
    show (s.data.filter _).filter _ = _
    rw [List.filter_filter, ← h.fR]
    exact List.filter_congr fun e _ => by cases pB e.1 <;> simp
  nodup := (List.filter_sublist.map _).nodup h.nodup
  idsle := h.idsle
  idsnd := h.idsnd
  tblIds := h.tblIds
  tblFiles := h.tblFiles
  namesnd := h.namesnd
  dom := h.dom
  norm := h.norm

/-- the header comment in the table and its placeholder entry are written as the default header -/
theorem fmt_strip (h : RdOK s hdr ids names D) : fmtSD .native s = fmtSD .native (strip s) := by
  cases hdr with
  | false =>
    have e : strip s = s := by
      have hb := h.blockC
      have hf : s.data.filter (fun e => !pB e.1) = s.data := by
        refine List.filter_eq_self.mpr fun e he => ?_
        cases hp : pB e.1 with
        | false => rfl
        | true =>
          have : e ∈ s.data.filter (fun e => pB e.1) := List.mem_filter.mpr ⟨he, hp⟩
          rw [h.fB] at this; simp at this
      cases s; simp only [strip] at hb hf ⊢; simp only [hf]; simp at hb; rw [hb]
    rw [e]
  | true =>
    have h1 := h.hoist
    have h2 := h.strip_ok.hoist
    simp only [if_true, if_false, Bool.false_eq_true, List.nil_append, List.cons_append] at h1 h2
    have hb : s.blockC = [(0, hdrComment)] := h.blockC
    simp only [fmtSD, h1, h2, hb]
    rw [insertBlock_hdr _ (noHdrPh_incl h.idsle h.dom)]
    show _ = match insertIncludes .native s.incl (insertBlockComments .native [] _) with | none => none | some t => _
    rw [insertBlock_nil]
    rfl

/-- **the text written for such an SDict**: the default header, one directive line per file name, the text of `D` -/
theorem write (h : RdOK s hdr ids names D) (hn : NamesOK names) :
    fmtSD .native s =
      some (nativeHeader ++ ((names.map dirLine).flatMap (· ++ ['\n']) ++ fmtPlain .native D)) := by
  rw [h.fmt_strip]
  exact write_incl_top (h.strip_ok.wiok hn)

end RdOK

/-! ### the included files: plain comment-free documents -/

/-- an included file: a comment-free document in some admissible layout -/
structure IncDoc where
  es : SrcEntries
  gaps : List Str
  tail : Str

def IncDoc.text (d : IncDoc) : Str := spreadS (srcToksEs d.es) d.gaps d.tail
def IncDoc.data (d : IncDoc) : Entries := denSrcEs d.es []

/-- the hypotheses of `C02_layout_tolerant` on an included document; its meaning lies in the value domain of C01 -/
structure IncDocOK (d : IncDoc) : Prop where
  wf : SrcWFEs 1 d.es = true
  gaps : GapsOKS (srcToksEs d.es) d.gaps = true
  tail : d.tail.all isWs = true
  nq : C02.countQuotedEs d.es ≤ Gen.counterLimit + 1
  docKeys : C02.DocKeysAbsent d.es
  dom : DomC01 .native d.data = true

/-- the file named `name` in a directive of a file in directory `dir` (as spelled) exists and holds the document `d` -/
structure IncAt (fs : FS) (dir : Comps) (name : Str) (d : IncDoc) : Prop where
  notXml : isXmlPath (spellJoin dir name) = false
  notJson : isJsonPath (spellJoin dir name) = false
  get : fs.get (resolveSpelled (spellJoin dir name)) = some (.native d.text)
  ok : IncDocOK d

theorem parseFile_inc {fs : FS} {dir : Comps} {name : Str} {d : IncDoc} (h : IncAt fs dir name d) {c : Counter}
    (hc : C13.ValidCounter Gen.counterLimit c) :
    ∃ c', C13.ValidCounter Gen.counterLimit c' ∧
      parseFile fs true c (spellJoin dir name) = .ok ({ data := d.data }, c') := by
  obtain ⟨c', hv, hp⟩ := C03.read_layout true (pathStr (spellJoin dir name).dropLast) h.ok.wf h.ok.gaps h.ok.tail hc
    h.ok.nq h.ok.docKeys
  refine ⟨c', hv, ?_⟩
  have hp' : parseNative true (pathStr (spellJoin dir name).dropLast) c d.text = .ok ({ data := denSrcEs d.es [] }, c') := hp
  simp only [parseFile, h.notXml, h.get, h.notJson, hp']
  rfl

/-- the included files parsed one after the other (`incs`: file name and document, in the order of the table) -/
theorem parseIncls_ok {fs : FS} {dir : Comps} : ∀ (l : Tbl InclEntry) (incs : List (Str × IncDoc)) (c : Counter),
    l.map (·.2.file) = incs.map (·.1) → (∀ q ∈ incs, IncAt fs dir q.1 q.2) → C13.ValidCounter Gen.counterLimit c →
    ∃ c', C13.ValidCounter Gen.counterLimit c' ∧
      C06.parseIncls fs true dir l c = .ok (incs.map (fun q => ({ data := q.2.data } : SD)), c')
  | [], [], c, _, _, hc => ⟨c, hc, rfl⟩
  | [], _ :: _, _, h, _, _ => by simp at h
  | _ :: _, [], _, h, _, _ => by simp at h
  | e :: l, q :: incs, c, h, hall, hc => by
    simp only [List.map_cons, List.cons.injEq] at h
    obtain ⟨c1, hv1, h1⟩ := parseFile_inc (h.1 ▸ hall q List.mem_cons_self) hc
    obtain ⟨c2, hv2, h2⟩ := parseIncls_ok l incs c1 h.2 (fun q' hq' => hall q' (List.mem_cons_of_mem _ hq')) hv1
    refine ⟨c2, hv2, ?_⟩
    simp only [C06.parseIncls, h1, h2, List.map_cons]

/-- `temp`: the data of the included files merged in order -/
def mergeDatas (ds : List Entries) (t : Entries) : Entries := ds.foldl (fun t d => mergeD true [] t d) t

theorem merge_plain {t d : Entries} (ht : DomC01 .native t = true) (hnt : normEs t = t) (hd : DomC01 .native d = true)
    (hnd : normEs d = d) :
    ({ data := t } : SD).merge (.sd { data := d }) = { data := mergeD true [] t d } := by
  have hdom := domC01_mergeD [] true ht hd
  have hinv := C01.norm_invariants hdom
  rw [norm_mergeD [] true t d hnt hnd] at hinv
  rw [C07.merge_eq _ _ hinv.2 hinv.1]
  rfl

theorem mergeAll_datas : ∀ (ds : List Entries) (t : Entries), (∀ d ∈ ds, DomC01 .native d = true ∧ normEs d = d) →
    DomC01 .native t = true → normEs t = t →
    C06.mergeAll (ds.map fun d => ({ data := d } : SD)) { data := t } = { data := mergeDatas ds t } ∧
      DomC01 .native (mergeDatas ds t) = true ∧ normEs (mergeDatas ds t) = mergeDatas ds t
  | [], t, _, ht, hn => ⟨rfl, ht, hn⟩
  | d :: ds, t, h, ht, hn => by
    obtain ⟨hd, hnd⟩ := h d List.mem_cons_self
    have ih := mergeAll_datas ds (mergeD true [] t d) (fun d' hd' => h d' (List.mem_cons_of_mem _ hd'))
      (domC01_mergeD [] true ht hd) (norm_mergeD [] true t d hn hnd)
    simp only [C06.mergeAll, List.map_cons, List.foldl_cons, merge_plain ht hn hd hnd, mergeDatas] at ih ⊢
    exact ih

/-- what the included files contribute -/
def tempOf (incs : List (Str × IncDoc)) : Entries := mergeDatas (incs.map fun q => q.2.data) []

theorem temp_ok {fs : FS} {dir : Comps} {incs : List (Str × IncDoc)} (hall : ∀ q ∈ incs, IncAt fs dir q.1 q.2) :
    C06.mergeAll (incs.map fun q => ({ data := q.2.data } : SD)) {} = { data := tempOf incs } ∧
      DomC01 .native (tempOf incs) = true ∧ normEs (tempOf incs) = tempOf incs := by
  have := mergeAll_datas (incs.map fun q => q.2.data) [] (by
    intro d hd
    obtain ⟨q, hq, rfl⟩ := List.mem_map.mp hd
    exact ⟨(hall q hq).ok.dom, C03.norm_den (hall q hq).ok.wf⟩) (by decide) rfl
  rw [List.map_map] at this
  exact this

/-! ### `DictReader.read` on a file whose parse has the shape `RdOK` and whose includes are plain files -/

theorem readFile_rd (ev : Str → EvalResult) {fs : FS} {p : Comps} {c c1 : Counter} {s : SD} {hdr : Bool} {ids : List Nat}
    {names : List Str} {D : Entries} (h : RdOK s hdr ids names D) (hpf : parseFile fs true c p = .ok (s, c1))
    (hc1 : C13.ValidCounter Gen.counterLimit c1) {incs : List (Str × IncDoc)} (hnames : names = incs.map (·.1))
    (hall : ∀ q ∈ incs, IncAt fs p.dropLast q.1 q.2) :
    ∃ c2, C13.ValidCounter Gen.counterLimit c2 ∧
      readFile ev fs {} c p = .ok (.ok { s with data := mergeD true [] s.data (tempOf incs) } c2) ∧
      RdOK { s with data := mergeD true [] s.data (tempOf incs) } hdr ids names (mergeD true [] D (tempOf incs)) := by
  obtain ⟨c2, hv2, hpi⟩ := parseIncls_ok (fs := fs) (dir := p.dropLast) s.incl incs c1 (h.tblFiles.trans hnames) hall hc1
  obtain ⟨htemp, hdomT, hnormT⟩ := temp_ok hall
  obtain ⟨hm, h'⟩ := h.merge hdomT hnormT
  have hlive : C06.Live fs [] p.dropLast s.incl := by
    intro e he
    have hmem : e.2.file ∈ incs.map (·.1) := by
      rw [← hnames, ← h.tblFiles]; exact List.mem_map_of_mem (f := (·.2.file)) he
    obtain ⟨q, hq, hqe⟩ := List.mem_map.mp hmem
    refine ⟨rfl, ?_⟩
    rw [← hqe, (hall q hq).get]; rfl
  have hrec := C06.C06_flat fs true fs.length [] s p.dropLast c1 hlive hpi (by
    intro i hi
    obtain ⟨q, _, rfl⟩ := List.mem_map.mp hi
    rfl)
  rw [htemp, hm] at hrec
  refine ⟨c2, hv2, ?_, h'⟩
  have hmi : mergeIncludes fs true s p.dropLast c1 = .ok ({ s with data := mergeD true [] s.data (tempOf incs) }, c2) := by
    simp only [mergeIncludes, hrec, bind, Except.bind, pure, Except.pure, h'.merge_self]
  have hev := C01.evalExpressions_noexpr ev { s with data := mergeD true [] s.data (tempOf incs) } h'.exprs
  simp only [readFile, hpf, bind, Except.bind, pure, Except.pure, if_true, hmi, hev]
  rfl

/-! ### the shape of the first parse: a document with top-level directives (domain of `C12_read_included`, `HWI`) -/

theorem part3 {A B C X Y : Entries} (h : A ++ B ++ C = X ++ Y) (hA : ∀ e ∈ A, pB e.1 = true)
    (hB : ∀ e ∈ B, pB e.1 = false ∧ pI e.1 = true) (hC : ∀ e ∈ C, pB e.1 = false ∧ pI e.1 = false)
    (hX : ∀ e ∈ X, pB e.1 = false ∧ pI e.1 = true) (hY : ∀ e ∈ Y, pB e.1 = false ∧ pI e.1 = false) :
    A = [] ∧ B = X ∧ C = Y := by
  have key : ∀ q : Key × Val → Bool, A.filter q ++ B.filter q ++ C.filter q = X.filter q ++ Y.filter q := by
    intro q
    have := congrArg (List.filter q) h
    simpa only [List.filter_append] using this
  have self : ∀ (q : Key × Val → Bool) (l : Entries), (∀ e ∈ l, q e = true) → l.filter q = l :=
    fun q l h => List.filter_eq_self.mpr h
  have nil : ∀ (q : Key × Val → Bool) (l : Entries), (∀ e ∈ l, q e = false) → l.filter q = [] :=
    fun q l h => List.filter_eq_nil_iff.mpr (fun e he => by simp [h e he])
  have k1 := key (fun e => pB e.1)
  rw [self _ A hA, nil _ B (fun e he => (hB e he).1), nil _ C (fun e he => (hC e he).1), nil _ X (fun e he => (hX e he).1),
    nil _ Y (fun e he => (hY e he).1)] at k1
  have k2 := key (fun e => !pB e.1 && pI e.1)
  rw [nil _ A (fun e he => by simp [hA e he]), self _ B (fun e he => by simp [(hB e he).1, (hB e he).2]),
    nil _ C (fun e he => by simp [(hC e he).1, (hC e he).2]), self _ X (fun e he => by simp [(hX e he).1, (hX e he).2]),
    nil _ Y (fun e he => by simp [(hY e he).1, (hY e he).2])] at k2
  have k3 := key (fun e => !pB e.1 && !pI e.1)
  rw [nil _ A (fun e he => by simp [hA e he]), nil _ B (fun e he => by simp [(hB e he).1, (hB e he).2]),
    self _ C (fun e he => by simp [(hC e he).1, (hC e he).2]), nil _ X (fun e he => by simp [(hX e he).1, (hX e he).2]),
    self _ Y (fun e he => by simp [(hY e he).1, (hY e he).2])] at k3
  exact ⟨by simpa using k1, by simpa using k2, by simpa using k3⟩

theorem split_of_hoist {es X Y : Entries} (h : hoistPlaceholders es = X ++ Y)
    (hX : ∀ e ∈ X, pB e.1 = false ∧ pI e.1 = true) (hY : ∀ e ∈ Y, pB e.1 = false ∧ pI e.1 = false) :
    es.filter (fun e => pB e.1) = [] ∧ es.filter (fun e => !pB e.1 && pI e.1) = X ∧
      es.filter (fun e => !pB e.1 && !pI e.1) = Y := by
  have h0 : List.filter (fun (e : Key × Val) => pB e.1) es ++ List.filter (fun (e : Key × Val) => !pB e.1 && pI e.1) es ++
      List.filter (fun (e : Key × Val) => !pB e.1 && !pI e.1) es = X ++ Y := by
    rw [← h, C12W.hoist_def]; rfl
  exact part3 h0 (fun e he => (List.mem_filter.mp he).2)
    (fun e he => by simpa using (List.mem_filter.mp he).2) (fun e he => by simpa using (List.mem_filter.mp he).2) hX hY

/-- **the first parse has the shape `RdOK`** (no header): what `C12_read_included` returns for a document of `HWI` whose
    directives name pairwise distinct files -/
theorem rd_first (dir : Str) {c : Counter} {items : List IItem} (H : HWI c items) (hnd : (namesOf items).Nodup) :
    RdOK (denI dir c items) false (alloc Gen.counterLimit (inclsItems items).length c) (namesOf items)
      (denSrcEs (plainIItems items) []) := by
  have W := wiok_denI dir H
  obtain ⟨t1, t2, t3, t4, t5⟩ := label_top dir items 1
    { c := { counter := c }, icounter := C02.adv Gen.counterLimit (countLineItems items) c } H.top H.wf
  have hadv : C02.adv Gen.counterLimit (countLineItems items) c = c := by rw [t5]; rfl
  rw [hadv] at t1
  have e0 : labelIItems dir { c := { counter := c }, icounter := c } items = labelI dir c items := by
    show _ = labelIItems dir { c := { counter := c }, icounter := C02.adv Gen.counterLimit (countLineItems items) c } items
    rw [hadv]
  rw [e0] at t1
  have htab := C12_incl_table (items := items) dir c H.hc H.nIncl
  rw [hadv] at htab
  have hinj : TblInj (labelI dir c items).1.incl := by
    rw [htab]
    refine tblInj_zip _ _ (nodup_of_map (fun e : InclEntry => e.directive) _ ?_)
    rw [List.map_map]
    exact H.dist
  have hden : denI dir c items =
      ({ data := denPEs (labelI dir c items).2 [], lineC := [], blockC := [], incl := (labelI dir c items).1.incl } : SD) := by
    have e : denI dir c items =
        ({ data := denPEs (labelI dir c items).2 [], lineC := (labelI dir c items).1.c.lineC,
           blockC := (labelI dir c items).1.c.blockC, incl := (labelI dir c items).1.incl } : SD).clean := rfl
    rw [e, t1]
    exact clean_noC _ rfl rfl hinj (denP_nodup _ [] C07.nodupV_nil) (phOK_I dir items 1 _ [] H.wf (by simp only [PhOKEs]))
  obtain ⟨f1, f2, f3⟩ := split_of_hoist W.hoist (by
      intro e he
      obtain ⟨i, hi, rfl⟩ := List.mem_map.mp he
      exact p_inclPh (W.idsle i hi)) (fun e he => ph_split (C12.dom_noPh_keys W.dom e.1 (List.mem_map_of_mem he)))
  have htab' : (labelI dir c items).1.incl = List.zip (alloc Gen.counterLimit (inclsItems items).length c)
      ((inclsItems items).map fun p => inclEntry dir p.1 p.2) := htab
  have hlen : (alloc Gen.counterLimit (inclsItems items).length c).length =
      ((inclsItems items).map fun p => inclEntry dir p.1 p.2).length := by
    simp [C13.alloc_length]
  exact {
    exprs := by rw [hden]
    lineC := W.lineC
    blockC := W.blockC
    fB := f1
    fI := f2
    fR := f3
    nodup := by rw [hden]; exact (denP_nodup _ [] C07.nodupV_nil).1
    idsle := W.idsle
    idsnd := C13.alloc_nodup H.nIncl H.hc
    tblIds := by
      rw [hden]
      show (labelI dir c items).1.incl.map (·.1) = _
      rw [htab']
      exact List.map_fst_zip (Nat.le_of_eq hlen)
    tblFiles := by
      rw [hden]
      show (labelI dir c items).1.incl.map (·.2.file) = _
      rw [htab']
      have e1 : ∀ l : List (Nat × InclEntry), l.map (·.2.file) = (l.map Prod.snd).map (fun e : InclEntry => e.file) :=
        fun l => by rw [List.map_map]; rfl
      rw [e1, List.map_snd_zip (Nat.le_of_eq hlen.symm), List.map_map]
      rfl
    namesnd := hnd
    dom := H.dom
    norm := C03.norm_den t4 }

/-- `parse_file` rewrites the `path` entries of the include table; the shape does not depend on them -/
theorem RdOK.pathmap {s : SD} {hdr : Bool} {ids : List Nat} {names : List Str} {D : Entries} (h : RdOK s hdr ids names D)
    (f : InclEntry → Str) :
    RdOK { s with incl := s.incl.map fun e => (e.1, { e.2 with path := f e.2 }) } hdr ids names D where
  exprs := h.exprs
  lineC := h.lineC
  blockC := h.blockC
  fB := h.fB
  fI := h.fI
  fR := h.fR
  nodup := h.nodup
  idsle := h.idsle
  idsnd := h.idsnd
  tblIds := by
    show (s.incl.map _).map _ = _
    rw [List.map_map]; exact h.tblIds
  tblFiles := by
    show (s.incl.map _).map _ = _
    rw [List.map_map]; exact h.tblFiles
  namesnd := h.namesnd
  dom := h.dom
  norm := h.norm

/-! ### the shape of the second parse: the written document `writtenI names D` (header, directives, entries) -/

mutual
  theorem plainV_emb : ∀ (v : Src), C12WI.plainV (embV v) = true
    | .lit l => by simp only [embV, C12WI.plainV]
    | .dict es => by simp only [embV, C12WI.plainV, plainItems_emb es]
    | .list xs => by simp only [embV, C12WI.plainV]
  theorem plainItems_emb : ∀ (es : SrcEntries), C12WI.plainItems (embEs es) = true
    | [] => by simp only [embEs, C12WI.plainItems]
    | (k, v) :: r => by simp only [embEs, C12WI.plainItems, plainV_emb v, plainItems_emb r, Bool.and_self]
end

/-- the labelling of directives followed by a plain document -/
theorem label_incls_plain (dir : Str) {R : List IItem} (hR : C12WI.plainItems R = true) : ∀ (names : List Str) (st : ILabelSt),
    (labelIItems dir st ((names.map fun n => IItem.incl (qOf n) n) ++ R)).2 =
      (alloc Gen.counterLimit names.length st.icounter).map phSrc ++ plainIItems R ∧
    (labelIItems dir st ((names.map fun n => IItem.incl (qOf n) n) ++ R)).1.c = st.c ∧
    countLineItems ((names.map fun n => IItem.incl (qOf n) n) ++ R) = 0
  | [], st => by
    obtain ⟨h1, _⟩ := label_plainI dir R st hR
    simp only [List.map_nil, List.nil_append, h1, List.length_nil, alloc, countLine_plainI R hR, and_self]
  | n :: names, st => by
    obtain ⟨i1, i2, i3⟩ := label_incls_plain dir hR names
      { st with icounter := (Counter.next Gen.counterLimit st.icounter).2,
                incl := st.incl.set (Counter.next Gen.counterLimit st.icounter).1 (inclEntry dir (qOf n) n) }
    simp only [List.map_cons, List.cons_append, labelIItems, List.length_cons, C13.alloc_succ, i1, i2, countLineItems, i3,
      phSrc, and_self]

theorem label_written (dir : Str) (c : Counter) (names : List Str) (D : Entries) :
    (labelI dir c (writtenI names D)).2 =
      (blockPh 0, .lit (.bare (blockPh 0))) ::
        ((alloc Gen.counterLimit names.length c).map phSrc ++ srcOfEs .native D) ∧
    (labelI dir c (writtenI names D)).1.c.lineC = [] ∧
    (labelI dir c (writtenI names D)).1.c.blockC = [(0, hdrComment)] ∧
    countLineItems (writtenI names D) = 0 := by
  have hR := plainItems_emb (srcOfEs .native D)
  have hcl : countLineItems (writtenI names D) = 0 := by
    simp only [writtenI, List.cons_append, countLineItems]
    exact (label_incls_plain dir hR names { c := { counter := c }, icounter := c }).2.2
  obtain ⟨i1, i2, _⟩ := label_incls_plain dir hR names
    { c := { counter := c, blockC := [(0, '/' :: '*' :: (C12.hdrBody ++ ['*', '/']))] }, icounter := c }
  have e : labelI dir c (writtenI names D) =
      labelIItems dir { c := { counter := c }, icounter := c } (writtenI names D) := by
    show labelIItems dir { c := { counter := c }, icounter := C02.adv Gen.counterLimit (countLineItems (writtenI names D)) c } _ = _
    rw [hcl]; rfl
  rw [e]
  simp only [writtenI, List.cons_append, labelIItems, List.length_nil, List.nil_append]
  refine ⟨?_, ?_, ?_, hcl⟩
  · rw [i1, plain_emb]
  · rw [i2]
  · rw [i2, hdrComment_shape]

/-- `denI` before `_clean` -/
def litI (dir : Str) (c : Counter) (items : List IItem) : SD :=
  { data := denPEs (labelI dir c items).2 [], lineC := (labelI dir c items).1.c.lineC,
    blockC := (labelI dir c items).1.c.blockC, incl := (labelI dir c items).1.incl }

theorem denI_lit (dir : Str) (c : Counter) (items : List IItem) : denI dir c items = (litI dir c items).clean := rfl

/-- **the second parse has the shape `RdOK`** (with header): what `C12_read_included` returns for the written document -/
theorem rd_second (dir : Str) {c : Counter} {names : List Str} {D : Entries} (hc : C13.ValidCounter Gen.counterLimit c)
    (hlen : names.length ≤ Gen.counterLimit + 1) (hnd : names.Nodup) (hdom : DomC01 .native D = true)
    (hnorm : normEs D = D) :
    RdOK (denI dir c (writtenI names D)) true (alloc Gen.counterLimit names.length c) names D := by
  obtain ⟨hE, hL, hBk, hcl⟩ := label_written dir c names D
  have hidsle : ∀ i ∈ alloc Gen.counterLimit names.length c, i ≤ 999999 := fun i hi => C13.alloc_le hc _ i hi
  have hidsnd : (alloc Gen.counterLimit names.length c).Nodup := C13.alloc_nodup hlen hc
  have hinc : inclsItems (writtenI names D) = names.map fun n => (qOf n, n) := incls_writtenI names D
  have htab := C12_incl_table (items := writtenI names D) dir c hc (by rw [hinc, List.length_map]; exact hlen)
  rw [hcl, hinc, List.length_map, List.map_map] at htab
  have htab' : (labelI dir c (writtenI names D)).1.incl =
      List.zip (alloc Gen.counterLimit names.length c) (names.map fun n => inclEntry dir (qOf n) n) := htab
  have hlen2 : (alloc Gen.counterLimit names.length c).length = (names.map fun n => inclEntry dir (qOf n) n).length := by
    simp [C13.alloc_length]
  obtain ⟨hwf, hden, _⟩ := C01.C01_writer hdom
  -- the classes of the labelled entries
  have hBtok : isPhTok (blockPh 0) = true := (blockPh_tok 0).2
  have hBp : pB (.str (blockPh 0)) = true := hdrPh_block
  have hStok : ∀ e ∈ srcOfEs .native D, isPhTok e.1 = false ∧ isSrcWord e.1 = true := fun e he =>
    ⟨(C02.srcWord_facts (C02.Main.srcWF_keys hwf e he)).2.1, C02.Main.srcWF_keys hwf e he⟩
  have hcls : ∀ e ∈ (labelI dir c (writtenI names D)).2,
      (isPhTok e.1 = true ∧ pB (.str e.1) = true) ∨ (isPhTok e.1 = true ∧ pB (.str e.1) = false ∧ pI (.str e.1) = true) ∨
        (isPhTok e.1 = false ∧ isSrcWord e.1 = true) := by
    intro e he
    rw [hE] at he
    simp only [List.mem_cons, List.mem_append, List.mem_map] at he
    rcases he with rfl | ⟨i, hi, rfl⟩ | he
    · exact Or.inl ⟨hBtok, hBp⟩
    · exact Or.inr (Or.inl ⟨(inclPh_tok i).2, p_inclPh (hidsle i hi)⟩)
    · exact Or.inr (Or.inr (hStok e he))
  have filt : ∀ f : Str × Src → Bool, (labelI dir c (writtenI names D)).2.filter f =
      (if f (blockPh 0, .lit (.bare (blockPh 0))) then [(blockPh 0, .lit (.bare (blockPh 0)))] else []) ++
        (((alloc Gen.counterLimit names.length c).map phSrc).filter f ++ (srcOfEs .native D).filter f) := by
    intro f
    rw [hE, List.filter_cons, List.filter_append]
    split <;> rfl
  have self : ∀ (q : Str × Src → Bool) (l : SrcEntries), (∀ e ∈ l, q e = true) → l.filter q = l :=
    fun q l h => List.filter_eq_self.mpr h
  have nil : ∀ (q : Str × Src → Bool) (l : SrcEntries), (∀ e ∈ l, q e = false) → l.filter q = [] :=
    fun q l h => List.filter_eq_nil_iff.mpr (fun e he => by simp [h e he])
  have hI1 : ∀ e ∈ (alloc Gen.counterLimit names.length c).map phSrc,
      isPhTok e.1 = true ∧ pB (.str e.1) = false ∧ pI (.str e.1) = true := by
    intro e he
    obtain ⟨i, hi, rfl⟩ := List.mem_map.mp he
    exact ⟨(inclPh_tok i).2, p_inclPh (hidsle i hi)⟩
  have hB := filter_denPEs pB (fun k => isPhTok k && pB (.str k)) (labelI dir c (writtenI names D)).2 [] (by
    intro e he
    refine ⟨fun hp => by simp [hp], fun hp key hk => ?_⟩
    rcases hcls e he with h | h | h
    · rw [h.1] at hp; cases hp
    · rw [h.1] at hp; cases hp
    · rw [(p_typed h.2 hk).1, hp]; rfl)
  have hI := filter_denPEs (fun k => !pB k && pI k) (fun k => isPhTok k && (!pB (.str k) && pI (.str k)))
    (labelI dir c (writtenI names D)).2 [] (by
    intro e he
    refine ⟨fun hp => by simp [hp], fun hp key hk => ?_⟩
    rcases hcls e he with h | h | h
    · rw [h.1] at hp; cases hp
    · rw [h.1] at hp; cases hp
    · rw [(p_typed h.2 hk).1, (p_typed h.2 hk).2, hp]; rfl)
  have hR := filter_denPEs (fun k => !pB k && !pI k) (fun k => !isPhTok k) (labelI dir c (writtenI names D)).2 [] (by
    intro e he
    rcases hcls e he with h | h | h
    · exact ⟨fun _ => (by rw [h.1, h.2]; rfl), fun hp => (by rw [h.1] at hp; cases hp)⟩
    · exact ⟨fun _ => (by rw [h.1, h.2.1, h.2.2]; rfl), fun hp => (by rw [h.1] at hp; cases hp)⟩
    · exact ⟨fun hp => (by rw [h.1] at hp; cases hp), fun hp key hk => (by
        rw [(p_typed h.2 hk).1, (p_typed h.2 hk).2, hp]; rfl)⟩)
  simp only [List.filter_nil] at hB hI hR
  rw [filt, nil _ _ (fun e he => by simp [(hI1 e he).2.1]), nil _ _ (fun e he => by simp [(hStok e he).1])] at hB
  rw [filt, self _ _ (fun e he => by simp [(hI1 e he).1, (hI1 e he).2.1, (hI1 e he).2.2]),
    nil _ _ (fun e he => by simp [(hStok e he).1])] at hI
  rw [filt, nil _ _ (fun e he => by simp [(hI1 e he).1]), self _ _ (fun e he => by simp [(hStok e he).1])] at hR
  simp only [hBtok, hBp, Bool.and_self, if_true, Bool.not_true, Bool.false_and, Bool.and_false, Bool.false_eq_true, if_false,
    List.nil_append, List.append_nil] at hB hI hR
  rw [C12.denPEs_cons_ph hBtok] at hB
  rw [denPEs_phs _ [] hidsle hidsnd (by intro i _ hm; cases hm)] at hI
  rw [C12.denPEs_plain _ 1 [] hwf, hden, hnorm] at hR
  have hL0 : RdOK (litI dir c (writtenI names D)) true (alloc Gen.counterLimit names.length c) names D := {
    exprs := rfl
    lineC := hL
    blockC := hBk
    fB := hB
    fI := by
      show List.filter _ (denPEs (labelI dir c (writtenI names D)).2 []) = _
      rw [hI]; rfl
    fR := hR
    nodup := (denP_nodup _ [] C07.nodupV_nil).1
    idsle := hidsle
    idsnd := hidsnd
    tblIds := by
      show (labelI dir c (writtenI names D)).1.incl.map (·.1) = _
      rw [htab']
      exact List.map_fst_zip (Nat.le_of_eq hlen2)
    tblFiles := by
      show (labelI dir c (writtenI names D)).1.incl.map (·.2.file) = _
      rw [htab']
      have e1 : ∀ l : List (Nat × InclEntry), l.map (·.2.file) = (l.map Prod.snd).map (fun e : InclEntry => e.file) :=
        fun l => by rw [List.map_map]; rfl
      rw [e1, List.map_snd_zip (Nat.le_of_eq hlen2.symm), List.map_map]
      have e2 : ∀ l : List Str, l.map ((fun e : InclEntry => e.file) ∘ fun n => inclEntry dir (qOf n) n) = l := by
        intro l
        induction l with
        | nil => rfl
        | cons a l ih => rw [List.map_cons, ih]; rfl
      exact e2 names
    namesnd := hnd
    dom := hdom
    norm := hnorm }
  rw [denI_lit, hL0.clean]
  exact hL0

/-! ### the writer's re-typing leaves such an SDict alone -/

theorem not_anyWord_I (r : Str) : ¬ C04.IsAnyWord ('I' :: r) := by
  obtain ⟨r', h⟩ := C02.strip_cons (c := 'I') (by decide) r
  have hl : asciiLower 'I' = 'i' := by decide
  simp only [C04.IsAnyWord, C04.IsWord, h, List.map_cons, hl]
  rintro (h | h | h | h | h | h) <;> simp at h

theorem parseValue_inclPh (i : Nat) : parseValue (inclPh i) = .str (inclPh i) := by
  have hqf : C04.QF (inclPh i) := fun c hc => (inclPh_facts i c hc).1
  have hq := C04.removeQuotes_of_qf hqf
  have hne : inclPh i ≠ [] := by rw [inclPh_cons]; simp
  have hs : ¬ C04.IsSpecial (inclPh i) := by
    rw [inclPh_cons]; simp [C04.IsSpecial]
  have hint : ¬ C04.IsIntLit (inclPh i) := by
    rw [← C04.isIntLit_iff, inclPh_cons]
    have : isDigit 'I' = false := by decide
    simp [isIntLit, dropSign, spanDigits, this]
  have hfl : ¬ C04.IsFloatLit (inclPh i) := by
    rw [← C04.isFloatExpLit_iff, inclPh_cons]
    have : isDigit 'I' = false := by decide
    simp [isFloatExpLit, dropSign, dropMantissa, spanDigits, this]
  have hw : ¬ C04.IsAnyWord (inclPh i) := by rw [inclPh_cons]; exact not_anyWord_I _
  rw [C04.parseValue_word ⟨⟨by rw [hq]; exact hne, hs⟩, hint, hfl⟩, C04.boolNoneWord_other hw, hq]

theorem normEs_fix : ∀ {es : Entries}, (∀ e ∈ es, normV e.2 = e.2) → normEs es = es
  | [], _ => rfl
  | (k, v) :: es, h => by
    simp only [normEs, h (k, v) List.mem_cons_self, normEs_fix fun e he => h e (List.mem_cons_of_mem _ he)]

theorem norm_mem {e : Key × Val} : ∀ {es : Entries}, normEs es = es → e ∈ es → normV e.2 = e.2
  | (k, v) :: es, hn, he => by
    simp only [normEs, List.cons.injEq, Prod.mk.injEq, true_and] at hn
    rcases List.mem_cons.mp he with rfl | he
    · exact hn.1
    · exact norm_mem hn.2 he

theorem RdOK.normData {s : SD} {hdr : Bool} {ids : List Nat} {names : List Str} {D : Entries}
    (h : RdOK s hdr ids names D) : normEs s.data = s.data := by
  refine normEs_fix fun e he => ?_
  rcases h.entry_cases e he with ⟨_, rfl⟩ | ⟨i, _, rfl⟩ | hD
  · show Val.leaf (normScalar (.str hdrPh)) = _
    have : normScalar (.str hdrPh) = .str hdrPh := by decide +kernel
    rw [this]; rfl
  · show Val.leaf (normScalar (.str (inclPh i))) = _
    simp only [normScalar, parseValue_inclPh]; rfl
  · exact norm_mem h.norm hD

/-! ### writing and re-reading, on files -/

/-- the text written for an SDict of shape `RdOK … names D` -/
def textOf (names : List Str) (D : Entries) : Str :=
  nativeHeader ++ ((names.map dirLine).flatMap (· ++ ['\n']) ++ fmtPlain .native D)

/-- `DictWriter.write(sd, target, mode='w')`, native target, for an SDict the re-typing leaves alone -/
theorem writeText_fmt (ev : Str → EvalResult) (fs : FS) {t : Comps} {s : SD} {text : Str}
    (hf : fmtSD .native s = some text) (hnorm : normEs s.data = s.data) (ht : flavorOfPath t = some .native) (c : Counter) :
    writeText ev fs t ['w'] false (.sd s) c = .ok (text, c) := by
  have hre : (Arg.sd s).retype = .sd s := by
    show Arg.sd { s with data := normEs s.data } = _
    rw [hnorm]
  have hf' : fmtArg .native (.sd s) = some text := hf
  have hm : (['w'] == ['a']) = false := by decide
  simp only [writeText, ht, hre, Bool.false_eq_true, if_false, hf', hm]
  cases fs.get (resolveSpelled t) <;> rfl

/-- … for an SDict of shape `RdOK` -/
theorem writeText_rd (ev : Str → EvalResult) (fs : FS) {t : Comps} {s : SD} {hdr : Bool} {ids : List Nat} {names : List Str}
    {D : Entries} (h : RdOK s hdr ids names D) (hn : NamesOK names) (ht : flavorOfPath t = some .native) (c : Counter) :
    writeText ev fs t ['w'] false (.sd s) c = .ok (textOf names D, c) :=
  writeText_fmt ev fs (h.write hn) h.normData ht c

/-- names the reader reads back from the written directive -/
def NamesRd (names : List Str) : Prop := ∀ n ∈ names, isInfix ['/', '/'] n = false ∧ ∀ c ∈ n, isLineBreak c = false

/-- **`parse_file` on the written file**: the document `writtenI names D`, of shape `RdOK` with header -/
theorem parse_written {fs : FS} {p : Comps} {s : SD} {hdr : Bool} {ids : List Nat} {names : List Str} {D : Entries}
    (h : RdOK s hdr ids names D) (hn : NamesOK names) (hr : NamesRd names)
    (hget : fs.get (resolveSpelled p) = some (.native (textOf names D)))
    (hx : isXmlPath p = false) (hj : isJsonPath p = false)
    (hq : C02.countQuotedEs (srcOfEs .native D) ≤ Gen.counterLimit + 1) (hk : C02.DocKeysAbsent (srcOfEs .native D))
    (hlen : names.length ≤ Gen.counterLimit + 1) {c : Counter} (hc : C13.ValidCounter Gen.counterLimit c) :
    ∃ s2 c1, C13.ValidCounter Gen.counterLimit c1 ∧ parseFile fs true c p = .ok (s2, c1) ∧
      RdOK s2 true (alloc Gen.counterLimit names.length c) names D := by
  obtain ⟨gaps, tail, hw, hg, ht⟩ := write_incl_layout (h.strip_ok.wiok hn)
  rw [← h.fmt_strip, h.write hn] at hw
  have htext : textOf names D = spreadC (itoksItems (writtenI names D)) ([] :: gaps) tail := Option.some.inj hw
  have hwf := wf_writtenI h.dom (fun n hm => inclName_qOf (hr n hm).1 (hr n hm).2)
  have hread := C12_read_included (pathStr p.dropLast) c hwf hg (fun _ => ht) hc (by rw [plain_writtenI]; exact hq)
    (by rw [plain_writtenI]; exact hk)
  have e : spreadC (itoksItems (writtenI names D)) (['\n'] :: gaps) tail =
      '\n' :: spreadC (itoksItems (writtenI names D)) ([] :: gaps) tail := by
    rw [itoks_writtenI]
    simp [spreadC, spread]
  rw [e, C12W.parseNative_nl, ← htext] at hread
  have hv : C13.ValidCounter Gen.counterLimit
      (C02.adv Gen.counterLimit (C02.countQuotedEs (plainIItems (writtenI names D)))
        (labelI (pathStr p.dropLast) c (writtenI names D)).1.icounter) :=
    C02.adv_valid _ (icounter_labelII _ _ _ (C02.adv_valid _ hc))
  refine ⟨_, _, hv, ?_, (rd_second (pathStr p.dropLast) hc hlen h.namesnd h.dom h.norm).pathmap
    (fun e => pathStr (spellJoin p.dropLast e.file))⟩
  simp only [parseFile, hx, hget, hj, hread]
  rfl

/-- one `DictParser.parse(p, mode='w')` in terms of its read and its write; the value returned is the dict that was read,
    re-typed by the writer (`_retype_values` works in place), which changes nothing here (`hnorm`) -/
theorem parse_step (ev : Str → EvalResult) {fs : FS} {c c' c'' : Counter} {p : Comps} {b : FileBody} {sd : SD} {t : Str}
    (hget : fs.get (resolveSpelled p) = some b) (hread : readFile ev fs {} c p = .ok (.ok sd c'))
    (hwrite : writeText ev fs (parseTarget p [] none) ['w'] false (.sd sd) c' = .ok (t, c''))
    (hnorm : normEs sd.data = sd.data) :
    apiStep ev { fs := fs, c := c } (.parse p {} ['w'] none) =
      ({ fs := fs.set (resolveSpelled (parseTarget p [] none)) (.native t), c := c'' }, .data sd) := by
  have e : ({ sd with data := normEs sd.data } : SD) = sd := by rw [hnorm]
  simp only [apiStep, hget, hread, writeTo, hwrite, e]

theorem read_step (ev : Str → EvalResult) {fs : FS} {c c' : Counter} {p : Comps} {b : FileBody} {sd : SD}
    (hget : fs.get (resolveSpelled p) = some b) (hread : readFile ev fs {} c p = .ok (.ok sd c')) :
    apiStep ev { fs := fs, c := c } (.read p {}) = ({ fs := fs, c := c' }, .data sd) := by
  simp only [apiStep, hget, hread]

/-- writing the same content a second time leaves the file system as it is -/
theorem set_set (fs : FS) (p : Comps) (b : FileBody) : (fs.set p b).set p b = fs.set p b := by
  have hf : ∀ e : Comps × FileBody, (if ((if e.1 == p then (p, b) else e).1 == p) = true then (p, b)
      else (if e.1 == p then (p, b) else e)) = (if e.1 == p then (p, b) else e) := by
    intro e
    by_cases he : (e.1 == p) = true
    · simp [he]
    · simp [he]
  cases ha : fs.any (fun e => e.1 == p) with
  | true =>
    have h1 : fs.set p b = fs.map (fun e => if e.1 == p then (p, b) else e) := by simp [FS.set, ha]
    have h2 : (fs.map (fun e => if e.1 == p then (p, b) else e)).any (fun e => e.1 == p) = true := by
      rw [List.any_eq_true] at ha ⊢
      obtain ⟨e, he, hk⟩ := ha
      exact ⟨(p, b), List.mem_map.mpr ⟨e, he, by simp [hk]⟩, by simp⟩
    rw [h1]
    simp only [FS.set, h2, if_true, List.map_map]
    exact List.map_congr_left fun e _ => hf e
  | false =>
    have h1 : fs.set p b = fs ++ [(p, b)] := by simp [FS.set, ha]
    have h2 : (fs ++ [(p, b)]).any (fun e => e.1 == p) = true := by simp
    rw [h1]
    simp only [FS.set, h2, if_true, List.map_append, List.map_cons, List.map_nil, beq_self_eq_true]
    congr 1
    have : ∀ e ∈ fs, (e.1 == p) = false := by
      intro e he
      have := List.any_eq_false.mp ha e he
      simpa using this
    calc fs.map (fun e => if e.1 == p then (p, b) else e) = fs.map id :=
          List.map_congr_left fun e he => by simp [this e he]
      _ = fs := List.map_id _

/-! ## property theorems -/

/-- the entries of the including file itself -/
def ownData (items : List IItem) : Entries := denSrcEs (plainIItems items) []

/-- **the data of every read** (placeholder entries dropped): the file's own entries merged (`SDict.merge`: the receiver
    wins) with the included files merged in the order of the directives -/
def mergedData (items : List IItem) (incs : List (Str × IncDoc)) : Entries :=
  mergeD true [] (ownData items) (tempOf incs)

/-- the file `DictParser.parse(src)` writes: `parsed.<name>` next to the source -/
abbrev tgtOf (src : Comps) : Comps := parseTarget src [] none

/-- the text of `parsed.<name>` -/
def parsedText (items : List IItem) (incs : List (Str × IncDoc)) : Str := textOf (namesOf items) (mergedData items incs)

/-- **the hypotheses, without the condition on the file names**: a source file `src` in the file system `fs`, read from
    counter `c`, whose text is an admissible layout (`GapsOKI`) of a document `items` with top-level `#include` directives
    (`HWI`: the domain of `C12_read_included` and `C12_write_included`; no comments, no `$`); every file a directive names
    exists in the folder of the source and is a plain comment-free well-formed document (`IncAt`) whose meaning lies in the
    value domain of C01; `parsed.<name>` is a native-format path that is none of the included files; the merged dict has at
    most `counterLimit + 1` quoted strings. -/
structure SetupW (fs : FS) (src : Comps) (c : Counter) (items : List IItem) (gaps : List Str) (tail : Str)
    (incs : List (Str × IncDoc)) : Prop where
  hwi : HWI c items
  layout : GapsOKI (itoksItems items) gaps tail = true
  tailws : items = [] → tail.all isWs = true
  nq : C02.countQuotedEs (plainIItems items) ≤ Gen.counterLimit + 1
  docKeys : C02.DocKeysAbsent (plainIItems items)
  srcGet : fs.get (resolveSpelled src) = some (.native (spreadC (itoksItems items) gaps tail))
  srcNotXml : isXmlPath src = false
  srcNotJson : isJsonPath src = false
  srcNe : src ≠ []
  incNames : namesOf items = incs.map (·.1)
  incFiles : ∀ q ∈ incs, IncAt fs src.dropLast q.1 q.2
  tgtNative : flavorOfPath (tgtOf src) = some .native
  tgtFresh : ∀ q ∈ incs, resolveSpelled (spellJoin src.dropLast q.1) ≠ resolveSpelled (tgtOf src)
  nqW : C02.countQuotedEs (srcOfEs .native (mergedData items incs)) ≤ Gen.counterLimit + 1

/-- **the hypotheses of the theorems**: `SetupW`, and the directives name pairwise distinct files (as spelled).  Without
    `namesnd` the written bytes do NOT stabilise after one cycle (`C03_included_bytes_statement_false`). -/
structure Setup (fs : FS) (src : Comps) (c : Counter) (items : List IItem) (gaps : List Str) (tail : Str)
    (incs : List (Str × IncDoc)) : Prop extends SetupW fs src c items gaps tail incs where
  namesnd : (namesOf items).Nodup

theorem docKeys_mergeDatas : ∀ (ds : List Entries) (t : Entries), (∀ d ∈ ds, C01.DocKeysAbsent' d) → C01.DocKeysAbsent' t →
    C01.DocKeysAbsent' (mergeDatas ds t)
  | [], _, _, ht => ht
  | d :: ds, t, h, ht =>
    docKeys_mergeDatas ds _ (fun d' hd' => h d' (List.mem_cons_of_mem _ hd')) (docKeys_mergeD [] true ht (h d List.mem_cons_self))

namespace Setup
variable {fs : FS} {src : Comps} {c : Counter} {items : List IItem} {gaps : List Str} {tail : Str}
  {incs : List (Str × IncDoc)}

theorem namesOK (S : Setup fs src c items gaps tail incs) : NamesOK (namesOf items) := by
  have W := wiok_denI "".toList S.hwi
  intro n hn
  have hn' := hn
  simp only [namesOf] at hn'
  obtain ⟨q, hq, rfl⟩ := List.mem_map.mp hn'
  exact ⟨(S.hwi.names q hq).1, (S.hwi.names q hq).2, (W.names _ hn).2⟩

theorem namesRd (S : Setup fs src c items gaps tail incs) : NamesRd (namesOf items) := by
  have hnames := wf_incl_names items 1 S.hwi.top S.hwi.wf
  intro n hn
  simp only [namesOf] at hn
  obtain ⟨q, hq, rfl⟩ := List.mem_map.mp hn
  refine ⟨(inclName_iff.mp (hnames q hq)).1, fun c hc => ?_⟩
  have := quoteName_nobreak (hnames q hq) c
  cases hq1 : q.1 with
  | none => rw [hq1] at this; exact this hc
  | some qq => rw [hq1] at this; exact this (by simp [quoteName, hc])

theorem namesLen (S : Setup fs src c items gaps tail incs) : (namesOf items).length ≤ Gen.counterLimit + 1 := by
  simp only [namesOf, List.length_map]; exact S.hwi.nIncl

theorem ownWF (S : Setup fs src c items gaps tail incs) : SrcWFEs 1 (plainIItems items) = true :=
  (label_top "".toList items 1 { c := { counter := c }, icounter := c } S.hwi.top S.hwi.wf).2.2.2.1

theorem docKeysW (S : Setup fs src c items gaps tail incs) :
    C02.DocKeysAbsent (srcOfEs .native (mergedData items incs)) := by
  apply C09.docKeys_src
  refine docKeys_mergeD [] true (C03.den_docKeys' S.ownWF S.docKeys) ?_
  refine docKeys_mergeDatas _ _ ?_ (by intro e he; cases he)
  intro d hd
  obtain ⟨q, hq, rfl⟩ := List.mem_map.mp hd
  exact C03.den_docKeys' (S.incFiles q hq).ok.wf (S.incFiles q hq).ok.docKeys

theorem tgtPaths (S : Setup fs src c items gaps tail incs) :
    isXmlPath (tgtOf src) = false ∧ isJsonPath (tgtOf src) = false := by
  have h := S.tgtNative
  unfold flavorOfPath at h
  cases hj : isJsonPath (tgtOf src) <;> cases hx : isXmlPath (tgtOf src) <;> simp [hj, hx] at h ⊢

theorem tgtDir (S : Setup fs src c items gaps tail incs) : (tgtOf src).dropLast = src.dropLast :=
  C13api.parse_target_same_folder src [] none S.srcNe

/-- parsing the parsed file targets the parsed file again -/
theorem tgtFix (S : Setup fs src c items gaps tail incs) : tgtOf (tgtOf src) = tgtOf src := by
  obtain ⟨dir, name, rfl⟩ : ∃ dir name, src = dir ++ [name] :=
    ⟨src.dropLast, src.getLast S.srcNe, (List.dropLast_concat_getLast S.srcNe).symm⟩
  show parseTarget (parseTarget (dir ++ [name]) [] none) [] none = parseTarget (dir ++ [name]) [] none
  rw [C13api.parse_target_name, C13api.parse_target_name]
  show dir ++ [targetName (targetName name (some "parsed".toList) [] none) (some "parsed".toList) [] none] = _
  rw [C03.C03_parsed_name_none]
  rfl

/-- **the first read** -/
theorem first_read (S : Setup fs src c items gaps tail incs) (ev : Str → EvalResult) :
    ∃ R1 c2, C13.ValidCounter Gen.counterLimit c2 ∧ readFile ev fs {} c src = .ok (.ok R1 c2) ∧
      RdOK R1 false (alloc Gen.counterLimit (inclsItems items).length c) (namesOf items) (mergedData items incs) := by
  have hread := C12_read_included (pathStr src.dropLast) c S.hwi.wf S.layout S.tailws S.hwi.hc S.nq S.docKeys
  have hv : C13.ValidCounter Gen.counterLimit
      (C02.adv Gen.counterLimit (C02.countQuotedEs (plainIItems items)) (labelI (pathStr src.dropLast) c items).1.icounter) :=
    C02.adv_valid _ (icounter_labelII _ _ _ (C02.adv_valid _ S.hwi.hc))
  have h0 := (rd_first (pathStr src.dropLast) S.hwi S.namesnd).pathmap (fun e => pathStr (spellJoin src.dropLast e.file))
  have hpf : parseFile fs true c src = .ok
      ({ denI (pathStr src.dropLast) c items with
          incl := (denI (pathStr src.dropLast) c items).incl.map fun e =>
            (e.1, { e.2 with path := pathStr (spellJoin src.dropLast e.2.file) }) },
        C02.adv Gen.counterLimit (C02.countQuotedEs (plainIItems items))
          (labelI (pathStr src.dropLast) c items).1.icounter) := by
    simp only [parseFile, S.srcNotXml, S.srcGet, S.srcNotJson, hread]
    rfl
  obtain ⟨c2, hv2, hrd, h1⟩ := readFile_rd ev h0 hpf hv S.incNames S.incFiles
  exact ⟨_, c2, hv2, hrd, h1⟩

/-- the file system after the first `parse` -/
def fs' (fs : FS) (src : Comps) (items : List IItem) (incs : List (Str × IncDoc)) : FS :=
  fs.set (resolveSpelled (tgtOf src)) (.native (parsedText items incs))

theorem merged_idem (S : Setup fs src c items gaps tail incs) :
    mergeD true [] (mergedData items incs) (tempOf incs) = mergedData items incs := by
  obtain ⟨_, hd, hn⟩ := temp_ok S.incFiles
  have := C01.norm_invariants hd
  rw [hn] at this
  exact C07.merge_idem_top [] (ownData items) (tempOf incs) this.2

/-- **every later read**: the parsed file, read from any valid counter in the world after the first `parse` -/
theorem later_read (S : Setup fs src c items gaps tail incs) (ev : Str → EvalResult) {c₂ : Counter}
    (hc₂ : C13.ValidCounter Gen.counterLimit c₂) :
    ∃ R2 c3, C13.ValidCounter Gen.counterLimit c3 ∧
      readFile ev (fs' fs src items incs) {} c₂ (tgtOf src) = .ok (.ok R2 c3) ∧
      RdOK R2 true (alloc Gen.counterLimit (namesOf items).length c₂) (namesOf items) (mergedData items incs) := by
  obtain ⟨R1, _, _, _, h1⟩ := S.first_read ev
  have hget : (fs' fs src items incs).get (resolveSpelled (tgtOf src)) = some (.native (parsedText items incs)) :=
    C13api.get_set_self _ _ _
  obtain ⟨s2, c1, hv1, hpf, h2⟩ := parse_written h1 S.namesOK S.namesRd hget S.tgtPaths.1 S.tgtPaths.2 S.nqW S.docKeysW
    S.namesLen hc₂
  have hall : ∀ q ∈ incs, IncAt (fs' fs src items incs) (tgtOf src).dropLast q.1 q.2 := by
    intro q hq
    rw [S.tgtDir]
    exact { notXml := (S.incFiles q hq).notXml, notJson := (S.incFiles q hq).notJson, ok := (S.incFiles q hq).ok
            get := by
              show (fs.set _ _).get _ = _
              rw [C13api.get_set_ne _ _ (S.tgtFresh q hq)]
              exact (S.incFiles q hq).get }
  obtain ⟨c3, hv3, hrd, h3⟩ := readFile_rd ev h2 hpf hv1 S.incNames hall
  rw [S.merged_idem] at h3
  exact ⟨_, c3, hv3, hrd, h3⟩

end Setup

section headline
variable {fs : FS} {src : Comps} {c : Counter} {items : List IItem} {gaps : List Str} {tail : Str}
  {incs : List (Str × IncDoc)}

/-- what a caller can see of a returned SDict beyond placeholder ids: the entries without the placeholder entries, and
    the files its include table names -/
def Agrees (sd : SD) (D : Entries) (names : List Str) : Prop :=
  C01.dropPhEntries sd.data = D ∧ sd.incl.map (·.2.file) = names

theorem RdOK.agrees {s : SD} {hdr : Bool} {ids : List Nat} {names : List Str} {D : Entries} (h : RdOK s hdr ids names D) :
    Agrees s D names := ⟨h.dropPh, h.tblFiles⟩

/-- **C03_included_parse_reread_partial.**  `DictParser.parse(src)` (mode `'w'`) completes and returns the first read `sd₁`; the
    only change of the file system is `parsed.<name>` next to the source, which now holds `parsedText` (header, the
    `#include` directives again, the MERGED entries); `DictReader.read(parsed.<name>)` then completes, merges the includes
    a second time and returns `sd₂` with the same entries (placeholder entries dropped) and the same included files as
    `sd₁`: the second merge changes nothing. -/
theorem C03_included_parse_reread_partial (S : Setup fs src c items gaps tail incs) (ev : Str → EvalResult) :
    ∃ sd₁ c₁ sd₂ c₂,
      apiStep ev { fs := fs, c := c } (.parse src {} ['w'] none) =
        ({ fs := fs.set (resolveSpelled (tgtOf src)) (.native (parsedText items incs)), c := c₁ }, .data sd₁) ∧
      apiStep ev { fs := fs.set (resolveSpelled (tgtOf src)) (.native (parsedText items incs)), c := c₁ }
          (.read (tgtOf src) {}) =
        ({ fs := fs.set (resolveSpelled (tgtOf src)) (.native (parsedText items incs)), c := c₂ }, .data sd₂) ∧
      C01.dropPhEntries sd₂.data = C01.dropPhEntries sd₁.data ∧
      sd₂.incl.map (·.2.file) = sd₁.incl.map (·.2.file) ∧
      Agrees sd₁ (mergedData items incs) (namesOf items) := by
  obtain ⟨R1, c1, hv1, hrd1, h1⟩ := S.first_read ev
  obtain ⟨R2, c2, hv2, hrd2, h2⟩ := S.later_read ev hv1
  have hw := writeText_rd ev fs h1 S.namesOK S.tgtNative c1
  have hget : (Setup.fs' fs src items incs).get (resolveSpelled (tgtOf src)) = some (.native (parsedText items incs)) :=
    C13api.get_set_self _ _ _
  refine ⟨R1, c1, R2, c2, parse_step ev S.srcGet hrd1 hw h1.normData, read_step ev hget hrd2, ?_, ?_, h1.agrees⟩
  · rw [h2.dropPh, h1.dropPh]
  · rw [h2.tblFiles, h1.tblFiles]

/-- `n + 1` cycles: `parse(src)`, then `n` times `parse(parsed.<name>)` (which targets `parsed.<name>` again) -/
def cycleOps (src : Comps) (n : Nat) : List ApiOp :=
  .parse src {} ['w'] none :: List.replicate n (.parse (tgtOf src) {} ['w'] none)

/-- the later cycles: in the world after the first `parse`, every further `parse(parsed.<name>)` returns the same data
    and writes the same bytes (the file system does not change at all) -/
theorem later_cycles (S : Setup fs src c items gaps tail incs) (ev : Str → EvalResult) : ∀ (k : Nat) {c₂ : Counter},
    C13.ValidCounter Gen.counterLimit c₂ →
    ∃ c₃ outs, C13.ValidCounter Gen.counterLimit c₃ ∧
      apiRun ev { fs := Setup.fs' fs src items incs, c := c₂ } (List.replicate k (.parse (tgtOf src) {} ['w'] none)) =
        ({ fs := Setup.fs' fs src items incs, c := c₃ }, outs) ∧
      outs.length = k ∧ ∀ o ∈ outs, ∃ sd, o = .data sd ∧ Agrees sd (mergedData items incs) (namesOf items)
  | 0, c₂, hc₂ => ⟨c₂, [], hc₂, rfl, rfl, fun _ h => by cases h⟩
  | k + 1, c₂, hc₂ => by
    obtain ⟨R2, c3, hv3, hrd, h2⟩ := S.later_read ev hc₂
    have ht : flavorOfPath (parseTarget (tgtOf src) [] none) = some .native := by
      show flavorOfPath (tgtOf (tgtOf src)) = _
      rw [S.tgtFix]; exact S.tgtNative
    have hw := writeText_rd ev (Setup.fs' fs src items incs) h2 S.namesOK ht c3
    have hget : (Setup.fs' fs src items incs).get (resolveSpelled (tgtOf src)) = some (.native (parsedText items incs)) :=
      C13api.get_set_self _ _ _
    have hstep := parse_step ev hget hrd hw h2.normData
    have hfs : (Setup.fs' fs src items incs).set (resolveSpelled (parseTarget (tgtOf src) [] none))
        (.native (textOf (namesOf items) (mergedData items incs))) = Setup.fs' fs src items incs := by
      show (Setup.fs' fs src items incs).set (resolveSpelled (tgtOf (tgtOf src))) _ = _
      rw [S.tgtFix]
      exact set_set _ _ _
    rw [hfs] at hstep
    obtain ⟨c4, outs, hv4, hrun, hl, hall⟩ := later_cycles S ev k hv3
    refine ⟨c4, .data R2 :: outs, hv4, ?_, by simp [hl], ?_⟩
    · rw [List.replicate_succ, C13api.apiRun_cons, hstep, hrun]
    · intro o ho
      rcases List.mem_cons.mp ho with rfl | ho
      · exact ⟨R2, rfl, h2.agrees⟩
      · exact hall o ho

/-- **C03_included_cycles_partial.**  For every number `n + 1 ≥ 1` of cycles: every cycle completes and returns the data of the
    first read (entries without placeholder entries: `mergedData`; the same included files), and a final
    `DictReader.read(parsed.<name>)` returns them too.  The file system after any number of cycles is the one after the
    first cycle. -/
theorem C03_included_cycles_partial (S : Setup fs src c items gaps tail incs) (ev : Str → EvalResult) (n : Nat) :
    ∃ c₁ outs, C13.ValidCounter Gen.counterLimit c₁ ∧
      apiRun ev { fs := fs, c := c } (cycleOps src n) =
        ({ fs := fs.set (resolveSpelled (tgtOf src)) (.native (parsedText items incs)), c := c₁ }, outs) ∧
      outs.length = n + 1 ∧
      (∀ o ∈ outs, ∃ sd, o = .data sd ∧ Agrees sd (mergedData items incs) (namesOf items)) ∧
      ∃ sdr c₂, apiStep ev { fs := fs.set (resolveSpelled (tgtOf src)) (.native (parsedText items incs)), c := c₁ }
          (.read (tgtOf src) {}) =
        ({ fs := fs.set (resolveSpelled (tgtOf src)) (.native (parsedText items incs)), c := c₂ }, .data sdr) ∧
        Agrees sdr (mergedData items incs) (namesOf items) := by
  obtain ⟨R1, c1, hv1, hrd1, h1⟩ := S.first_read ev
  have hw := writeText_rd ev fs h1 S.namesOK S.tgtNative c1
  have hstep := parse_step ev S.srcGet hrd1 hw h1.normData
  obtain ⟨c3, outs, hv3, hrun, hl, hall⟩ := later_cycles S ev n hv1
  obtain ⟨R2, c4, hv4, hrd2, h2⟩ := S.later_read ev hv3
  have hget : (Setup.fs' fs src items incs).get (resolveSpelled (tgtOf src)) = some (.native (parsedText items incs)) :=
    C13api.get_set_self _ _ _
  refine ⟨c3, .data R1 :: outs, hv3, ?_, by simp [hl], ?_, R2, c4, read_step ev hget hrd2, h2.agrees⟩
  · rw [cycleOps, C13api.apiRun_cons, hstep]
    exact congrArg (fun r : World × List ApiOut => (r.1, ApiOut.data R1 :: r.2)) hrun
  · intro o ho
    rcases List.mem_cons.mp ho with rfl | ho
    · exact ⟨R1, rfl, h1.agrees⟩
    · exact hall o ho

/-- **C03_included_bytes.**  The text written in cycle 2 equals the text written in cycle 1 (flat includes, pairwise
    distinct file names): both writes produce `parsedText items incs`. -/
theorem C03_included_bytes (S : Setup fs src c items gaps tail incs) (ev : Str → EvalResult) :
    ∃ sd₁ c₁ sd₂ c₂,
      readFile ev fs {} c src = .ok (.ok sd₁ c₁) ∧
      writeText ev fs (tgtOf src) ['w'] false (.sd sd₁) c₁ = .ok (parsedText items incs, c₁) ∧
      readFile ev (fs.set (resolveSpelled (tgtOf src)) (.native (parsedText items incs))) {} c₁ (tgtOf src) =
        .ok (.ok sd₂ c₂) ∧
      writeText ev (fs.set (resolveSpelled (tgtOf src)) (.native (parsedText items incs))) (tgtOf (tgtOf src)) ['w'] false
        (.sd sd₂) c₂ = .ok (parsedText items incs, c₂) := by
  obtain ⟨R1, c1, hv1, hrd1, h1⟩ := S.first_read ev
  obtain ⟨R2, c2, hv2, hrd2, h2⟩ := S.later_read ev hv1
  have ht : flavorOfPath (tgtOf (tgtOf src)) = some .native := by rw [S.tgtFix]; exact S.tgtNative
  exact ⟨R1, c1, R2, c2, hrd1, writeText_rd ev fs h1 S.namesOK S.tgtNative c1, hrd2,
    writeText_rd ev _ h2 S.namesOK ht c2⟩

/-- … and for every number of cycles the file system is the one after the first cycle -/
theorem C03_included_bytes_cycles (S : Setup fs src c items gaps tail incs) (ev : Str → EvalResult) (n : Nat) :
    (apiRun ev { fs := fs, c := c } (cycleOps src n)).1.fs = (apiRun ev { fs := fs, c := c } (cycleOps src 0)).1.fs := by
  obtain ⟨_, _, _, h1, _⟩ := C03_included_cycles_partial S ev n
  obtain ⟨_, _, _, h0, _⟩ := C03_included_cycles_partial S ev 0
  rw [h1, h0]

end headline

/-! ## the statement without `namesnd`, and its refutation -/

/-- the text of a native file of a world -/
def textAt (w : World) (p : Comps) : Option Str :=
  match w.fs.get p with
  | some (.native t) => some t
  | _ => none

theorem textAt_set (fs : FS) (c : Counter) (p : Comps) (t : Str) :
    textAt { fs := fs.set p (.native t), c := c } p = some t := by
  simp only [textAt, C13api.get_set_self]

/-- the entries a history returned, placeholder entries dropped -/
def dataOuts (outs : List ApiOut) : List (Option Entries) :=
  outs.map fun o => match o with
    | .data s => some (C01.dropPhEntries s.data)
    | _ => none

/-- the bytes claim on the whole domain `SetupW` (file names not required to be distinct): cycle 2 writes what cycle 1
    wrote.  FALSE: `C03_included_bytes_statement_false`. -/
def C03_included_bytes_statement : Prop :=
  ∀ (fs : FS) (src : Comps) (c : Counter) (items : List IItem) (gaps : List Str) (tail : Str) (incs : List (Str × IncDoc)),
    SetupW fs src c items gaps tail incs →
    textAt (apiRun evalInt { fs := fs, c := c } (cycleOps src 1)).1 (resolveSpelled (tgtOf src)) =
      textAt (apiRun evalInt { fs := fs, c := c } (cycleOps src 0)).1 (resolveSpelled (tgtOf src))

/-- the data claim on the whole domain `SetupW`: every cycle returns the entries of the first read.  Proved under
    `namesnd` (`C03_included_cycles_partial`); on the witness of the refutation the first two cycles agree too (`dup_data`);
    not proved in general. -/
def C03_included_data_statement : Prop :=
  ∀ (fs : FS) (src : Comps) (c : Counter) (items : List IItem) (gaps : List Str) (tail : Str) (incs : List (Str × IncDoc))
    (n : Nat), SetupW fs src c items gaps tail incs →
    dataOuts (apiRun evalInt { fs := fs, c := c } (cycleOps src n)).2 =
      List.replicate (n + 1) (some (mergedData items incs))

/-- the bytes claim holds on `Setup` (distinct file names) -/
theorem C03_included_bytes_on_Setup {fs : FS} {src : Comps} {c : Counter} {items : List IItem} {gaps : List Str} {tail : Str}
    {incs : List (Str × IncDoc)} (S : Setup fs src c items gaps tail incs) :
    textAt (apiRun evalInt { fs := fs, c := c } (cycleOps src 1)).1 (resolveSpelled (tgtOf src)) =
      textAt (apiRun evalInt { fs := fs, c := c } (cycleOps src 0)).1 (resolveSpelled (tgtOf src)) := by
  unfold textAt
  rw [C03_included_bytes_cycles S evalInt 1]

/-! ## non-vacuity -/

deriving instance DecidableEq for FileBody
deriving instance DecidableEq for SD
deriving instance DecidableEq for ReadOut

/-- `a q; b r;` -/
def exInc : IncDoc :=
  { es := [(['a'], .lit (.bare ['q'])), (['b'], .lit (.bare ['r']))], gaps := [[], [' '], [], [' '], [' '], []], tail := ['\n'] }

theorem exInc_text : exInc.text = "a q; b r;\n".toList := by decide +kernel

theorem exInc_ok : IncDocOK exInc where
  wf := by decide +kernel
  gaps := by decide +kernel
  tail := by decide +kernel
  nq := by decide +kernel
  docKeys := by decide +kernel
  dom := by decide +kernel

def exSrc : Comps := ["w".toList, "case".toList]

/-- `#include 'inc'`, `a p;` -/
def exItems : List IItem := [.incl (some '\'') "inc".toList, .entry ['a'] (.lit (.bare ['p']))]
def exGaps : List Str := [[], ['\n'], [' '], []]

theorem exToks : itoksItems exItems =
    [.tok (.word "#include 'inc'".toList), .tok (.word ['a']), .tok (.word ['p']), .tok (.word [';'])] := by
  have e1 : dirText (some '\'') "inc".toList = "#include 'inc'".toList := by decide
  simp only [exItems, itoksItems, Lit.tok, e1, List.cons_append, List.nil_append]

def exSrcText : Str := "#include 'inc'\na p;\n".toList

theorem exSrc_text : spreadC (itoksItems exItems) exGaps ['\n'] = exSrcText := by rw [exToks]; decide +kernel

def exFs : FS := [(exSrc, .native exSrcText), (["w".toList, "inc".toList], .native exInc.text)]

theorem exHWI : HWI none exItems where
  wf := by decide +kernel
  top := by decide +kernel
  hc := Or.inl rfl
  nIncl := by decide +kernel
  dist := by decide +kernel
  dom := by decide +kernel
  names := by decide +kernel

/-- the merged entries: the including file wins (`a = p`), `b` comes from the included file -/
def exD : Entries := [(.str ['a'], .leaf (.str ['p'])), (.str ['b'], .leaf (.str ['r']))]

theorem ex_merged : mergedData exItems [("inc".toList, exInc)] = exD := by decide +kernel

theorem exSetup : Setup exFs exSrc none exItems exGaps ['\n'] [("inc".toList, exInc)] where
  hwi := exHWI
  layout := by rw [exToks]; decide +kernel
  tailws := fun h => by cases h
  nq := by decide +kernel
  docKeys := by decide +kernel
  srcGet := by rw [exSrc_text]; decide +kernel
  srcNotXml := by decide +kernel
  srcNotJson := by decide +kernel
  srcNe := by decide
  incNames := by decide +kernel
  incFiles := by
    intro q hq
    simp only [List.mem_singleton] at hq
    subst hq
    exact { notXml := by decide +kernel, notJson := by decide +kernel, get := by decide +kernel, ok := exInc_ok }
  tgtNative := by decide +kernel
  tgtFresh := by decide +kernel
  nqW := by rw [ex_merged]; decide +kernel
  namesnd := by decide +kernel

/-- the text of the merged entries (the kernel does not unfold `fmtEntries`: unfolded with its equations) -/
theorem exD_text : fmtPlain .native exD =
    "a                             p;\nb                             r;\n".toList := by
  rw [show fmtPlain .native exD = removeTrailingSpaces (fmtEntries .native 0 (hoistPlaceholders exD)) from rfl,
    C01.hoist_id (by decide +kernel)]
  simp only [exD, fmtEntries, formatKey, formatScalar]
  decide +kernel

/-- the parsed file of the example: header, the directive again, the merged entries -/
theorem ex_parsedText : parsedText exItems [("inc".toList, exInc)] =
    nativeHeader ++ ("#include inc\n".toList ++ "a                             p;\nb                             r;\n".toList) := by
  have t3 : ((namesOf exItems).map dirLine).flatMap (· ++ ['\n']) = "#include inc\n".toList := by decide +kernel
  show nativeHeader ++ (_ ++ fmtPlain .native (mergedData exItems [("inc".toList, exInc)])) = _
  rw [t3, ex_merged, exD_text]

/-- the theorems on the example -/
example (ev : Str → EvalResult) := C03_included_parse_reread_partial exSetup ev
example (ev : Str → EvalResult) (n : Nat) := C03_included_cycles_partial exSetup ev n
example (ev : Str → EvalResult) := C03_included_bytes exSetup ev

/-! ### the witness of the refutation: the same file included twice, once in single and once in double quotes -/

/-- `#include 'x'`, `#include "x"`, `a p;` -/
def dupItems : List IItem := [.incl (some '\'') ['x'], .incl (some '"') ['x'], .entry ['a'] (.lit (.bare ['p']))]
def dupGaps : List Str := [[], ['\n'], ['\n'], [' '], []]

theorem dupToks : itoksItems dupItems =
    [.tok (.word "#include 'x'".toList), .tok (.word "#include \"x\"".toList), .tok (.word ['a']), .tok (.word ['p']),
     .tok (.word [';'])] := by
  have e1 : dirText (some '\'') ['x'] = "#include 'x'".toList := by decide
  have e2 : dirText (some '"') ['x'] = "#include \"x\"".toList := by decide
  simp only [dupItems, itoksItems, Lit.tok, e1, e2, List.cons_append, List.nil_append]

def dupSrcText : Str := "#include 'x'\n#include \"x\"\na p;\n".toList

theorem dupSrc_text : spreadC (itoksItems dupItems) dupGaps ['\n'] = dupSrcText := by rw [dupToks]; decide +kernel

def dupFs : FS := [(exSrc, .native dupSrcText), (["w".toList, "x".toList], .native exInc.text)]
def dupIncs : List (Str × IncDoc) := [(['x'], exInc), (['x'], exInc)]

theorem dup_merged : mergedData dupItems dupIncs = exD := by decide +kernel

/-- the witness satisfies every hypothesis but `namesnd` -/
theorem dupSetupW : SetupW dupFs exSrc none dupItems dupGaps ['\n'] dupIncs where
  hwi := ⟨by decide +kernel, by decide +kernel, Or.inl rfl, by decide +kernel, by decide +kernel, by decide +kernel,
    by decide +kernel⟩
  layout := by rw [dupToks]; decide +kernel
  tailws := fun h => by cases h
  nq := by decide +kernel
  docKeys := by decide +kernel
  srcGet := by rw [dupSrc_text]; decide +kernel
  srcNotXml := by decide +kernel
  srcNotJson := by decide +kernel
  srcNe := by decide
  incNames := by decide +kernel
  incFiles := by
    intro q hq
    have : q = (['x'], exInc) := by
      simp only [dupIncs, List.mem_cons, List.not_mem_nil, or_false, or_self] at hq; exact hq
    subst this
    exact { notXml := by decide +kernel, notJson := by decide +kernel, get := by decide +kernel, ok := exInc_ok }
  tgtNative := by decide +kernel
  tgtFresh := by decide +kernel
  nqW := by rw [dup_merged]; decide +kernel

/-- what a read returned -/
def outOf : Except ParseErr ReadOut → Option (SD × Counter)
  | .ok (.ok s c) => some (s, c)
  | _ => none

theorem readFile_of_out {r : Except ParseErr ReadOut} {s : SD} {c : Counter} (h : outOf r = some (s, c)) :
    r = .ok (.ok s c) := by
  cases r with
  | error e => cases h
  | ok o =>
    cases o with
    | exit1 => cases h
    | ok s' c' =>
      simp only [outOf, Option.some.injEq, Prod.mk.injEq] at h
      rw [h.1, h.2]

theorem apiRun_one (ev : Str → EvalResult) (w : World) (op : ApiOp) : (apiRun ev w [op]).1 = (apiStep ev w op).1 := rfl
theorem apiRun_two (ev : Str → EvalResult) (w : World) (op op' : ApiOp) :
    (apiRun ev w [op, op']).1 = (apiStep ev (apiStep ev w op).1 op').1 := rfl

def phE (s : String) : Key × Val := (.str s.toList, .leaf (.str s.toList))

/-- what the first read returns: two include entries (the two directive texts differ) -/
def dupR1 : SD :=
  { data := phE "INCLUDE000000" :: phE "INCLUDE000001" :: exD,
    incl := [(0, { directive := "#include 'x'".toList, file := ['x'], path := "/w/x".toList }),
             (1, { directive := "#include \"x\"".toList, file := ['x'], path := "/w/x".toList })] }

theorem dup_read1 : readFile evalInt dupFs {} none exSrc = .ok (.ok dupR1 (some 1)) :=
  readFile_of_out (by decide +kernel)

theorem dupR1_wiok : WIOK dupR1 [0, 1] [['x'], ['x']] exD where
  lineC := rfl
  blockC := rfl
  hoist := by decide +kernel
  dom := by decide +kernel
  len := rfl
  idsle := by decide
  look := by
    intro p hp
    simp only [List.zip_cons_cons, List.zip_nil_right, List.mem_cons, List.not_mem_nil, or_false] at hp
    rcases hp with rfl | rfl
    · exact ⟨_, rfl, rfl⟩
    · exact ⟨_, rfl, rfl⟩
  tbl := by decide +kernel
  names := by decide +kernel

/-- the text cycle 1 writes: the directive twice -/
def dupText1 : Str := C12.nativeHeaderChars ++ ("#include x\n#include x\n".toList ++
  "a                             p;\nb                             r;\n".toList)

theorem dup_write1 : fmtSD .native dupR1 = some dupText1 := by
  rw [write_incl_top dupR1_wiok, exD_text, C12.nativeHeader_eq]
  have : ([['x'], ['x']].map dirLine).flatMap (· ++ ['\n']) = "#include x\n#include x\n".toList := by decide +kernel
  rw [this]; rfl

def dupTgt : Comps := ["w".toList, "parsed.case".toList]
theorem dupTgt_eq : tgtOf exSrc = dupTgt := by decide +kernel
theorem dupTgt_res : resolveSpelled dupTgt = dupTgt := by decide +kernel

def dupFs1 : FS := dupFs.set dupTgt (.native dupText1)

/-- what the read of that file returns: `_clean` has merged the two include entries (same table value) -/
def dupR2 : SD :=
  { data := phE "BLOCKCOMMENT000000" :: phE "INCLUDE000002" :: exD,
    blockC := [(0, C12.hdrComment)],
    incl := [(2, { directive := "#include x".toList, file := ['x'], path := "/w/x".toList })] }

theorem dup_read2 : readFile evalInt dupFs1 {} (some 1) dupTgt = .ok (.ok dupR2 (some 3)) :=
  readFile_of_out (by decide +kernel)

theorem dupR2_ok : RdOK dupR2 true [2] [['x']] exD where
  exprs := rfl
  lineC := rfl
  blockC := rfl
  fB := by decide +kernel
  fI := by decide +kernel
  fR := by decide +kernel
  nodup := by decide +kernel
  idsle := by decide
  idsnd := by decide
  tblIds := rfl
  tblFiles := rfl
  namesnd := by decide
  dom := by decide +kernel
  norm := by decide +kernel

/-- the text cycle 2 writes: the directive once -/
def dupText2 : Str := C12.nativeHeaderChars ++ ("#include x\n".toList ++
  "a                             p;\nb                             r;\n".toList)

theorem dup_write2 : fmtSD .native dupR2 = some dupText2 := by
  have hn : NamesOK [['x']] := by
    intro n hn
    simp only [List.mem_singleton] at hn
    subst hn
    exact ⟨by decide, by decide +kernel, by decide⟩
  rw [dupR2_ok.write hn, exD_text, C12.nativeHeader_eq]
  have : ([['x']].map dirLine).flatMap (· ++ ['\n']) = "#include x\n".toList := by decide +kernel
  rw [this]; rfl

theorem dup_texts_ne : dupText1 ≠ dupText2 := by
  intro h
  have := List.append_cancel_left h
  revert this
  decide +kernel

/-- cycle 1 on the witness -/
theorem dup_cycle1 : apiStep evalInt { fs := dupFs, c := none } (.parse exSrc {} ['w'] none) =
    ({ fs := dupFs1, c := some 1 }, .data dupR1) := by
  have h := parse_step evalInt (fs := dupFs) (c := none) (p := exSrc) (b := .native dupSrcText) (by decide +kernel) dup_read1
    (writeText_fmt evalInt dupFs dup_write1 (by decide +kernel) dupSetupW.tgtNative (some 1)) (by decide +kernel)
  have e : resolveSpelled (parseTarget exSrc [] none) = dupTgt := by decide +kernel
  rw [h, e]; rfl

/-- cycle 2 on the witness -/
theorem dup_cycle2 : apiStep evalInt { fs := dupFs1, c := some 1 } (.parse dupTgt {} ['w'] none) =
    ({ fs := dupFs1.set dupTgt (.native dupText2), c := some 3 }, .data dupR2) := by
  have ht : parseTarget dupTgt [] none = dupTgt := by decide +kernel
  have h := parse_step evalInt (fs := dupFs1) (c := some 1) (p := dupTgt) (b := .native dupText1)
    (by rw [dupTgt_res]; exact C13api.get_set_self _ _ _) dup_read2
    (writeText_fmt evalInt dupFs1 dup_write2 (by decide +kernel) (by rw [ht, ← dupTgt_eq]; exact dupSetupW.tgtNative) (some 3))
    (by decide +kernel)
  rw [h, ht, dupTgt_res]

/-- **the bytes claim is false without `namesnd`**: on the witness cycle 1 writes `#include x` twice (both spellings are
    written bare), the reader's `_clean` merges the two include entries of that file, and cycle 2 writes it once -/
theorem C03_included_bytes_statement_false : ¬ C03_included_bytes_statement := by
  intro h
  have := h dupFs exSrc none dupItems dupGaps ['\n'] dupIncs dupSetupW
  have e0 : (apiRun evalInt { fs := dupFs, c := none } (cycleOps exSrc 0)).1 = { fs := dupFs1, c := some 1 } := by
    rw [cycleOps, List.replicate_zero, apiRun_one, dup_cycle1]
  have e1 : (apiRun evalInt { fs := dupFs, c := none } (cycleOps exSrc 1)).1 =
      { fs := dupFs1.set dupTgt (.native dupText2), c := some 3 } := by
    rw [cycleOps, List.replicate_one, apiRun_two, dup_cycle1, dupTgt_eq]
    dsimp only
    rw [dup_cycle2]
  rw [e0, e1, dupTgt_eq, dupTgt_res] at this
  have t0 : textAt { fs := dupFs1, c := some 1 } dupTgt = some dupText1 := textAt_set _ _ _ _
  rw [textAt_set, t0] at this
  exact dup_texts_ne (Option.some.inj this).symm

/-- … while the entries returned by the two cycles are the same on this witness too -/
theorem dup_data : C01.dropPhEntries dupR1.data = exD ∧ C01.dropPhEntries dupR2.data = exD := by
  constructor <;> decide +kernel

/-
#print axioms C03_included_parse_reread_partial   -- [propext, Classical.choice, Quot.sound]
#print axioms C03_included_cycles_partial         -- [propext, Classical.choice, Quot.sound]
#print axioms C03_included_bytes                  -- [propext, Classical.choice, Quot.sound]
#print axioms C03_included_bytes_cycles           -- [propext, Classical.choice, Quot.sound]
#print axioms C03_included_bytes_on_Setup         -- [propext, Classical.choice, Quot.sound]
#print axioms C03_included_bytes_statement_false  -- [propext, Classical.choice, Quot.sound]
#print axioms exSetup                             -- [propext, Classical.choice, Quot.sound]
#print axioms ex_parsedText                       -- [propext, Classical.choice, Quot.sound]
-/

end DictIO.C03incl
