/-
  C03 -- the fixed point for sources WITH `#include` directives (flat include graph).   (header to be completed)
-/
import DictIO.Props.C12wincl
import DictIO.Props.C06
import DictIO.Props.C03
import DictIO.Props.C01dump
import DictIO.Props.C13api

namespace DictIO.C03incl
open DictIO DictIO.C12 DictIO.C12.Incl DictIO.C12WI

set_option linter.unusedSimpArgs false
set_option linter.unusedVariables false
set_option linter.unnecessarySimpa false


/-! ## helper lemmas: `mergeD` and key filters -/

theorem lookup_filter (q : Key → Bool) {k : Key} (hk : q k = true) : ∀ t : Entries,
    lookup k (t.filter fun e => q e.1) = lookup k t
  | [] => rfl
  | (k0, v0) :: t => by
    by_cases h0 : k0 = k
    · subst h0; simp [List.filter_cons, hk, lookup]
    · by_cases hq : q k0 = true
      · simp [List.filter_cons, hq, lookup, h0, lookup_filter q hk t]
      · simp [List.filter_cons, hq, lookup, h0, lookup_filter q hk t]

theorem mstep_filter_in (q : Key → Bool) (top : Bool) (ex : Tbl ExprEntry) (t : Entries) {k : Key} (v : Val)
    (hk : q k = true) :
    (C07.mstep top ex t k v).filter (fun e => q e.1) = C07.mstep top ex (t.filter fun e => q e.1) k v := by
  unfold C07.mstep
  rw [lookup_filter q hk t]
  split
  · rw [filter_setKey q, if_pos hk]
  · split
    · rw [filter_setKey q, if_pos hk]
    · rfl
  · simp [List.filter_append, List.filter_cons, hk]

theorem mstep_filter_out (q : Key → Bool) (top : Bool) (ex : Tbl ExprEntry) (t : Entries) {k : Key} (v : Val)
    (hk : q k = false) :
    (C07.mstep top ex t k v).filter (fun e => q e.1) = t.filter fun e => q e.1 := by
  unfold C07.mstep
  split
  · rw [filter_setKey q]; simp [hk]
  · split
    · rw [filter_setKey q]; simp [hk]
    · rfl
  · simp [List.filter_append, List.filter_cons, hk]

/-- a class of keys that holds every key of `o`: filtering commutes with the merge -/
theorem mergeD_filter_in (q : Key → Bool) (top : Bool) (ex : Tbl ExprEntry) : ∀ (o t : Entries),
    (∀ e ∈ o, q e.1 = true) →
    (mergeD top ex t o).filter (fun e => q e.1) = mergeD top ex (t.filter fun e => q e.1) o
  | [], t, _ => by rw [C07.mergeD_nil, C07.mergeD_nil]
  | (k, v) :: o, t, h => by
    rw [C07.mergeD_cons, C07.mergeD_cons, mergeD_filter_in q top ex o _ (fun e he => h e (List.mem_cons_of_mem _ he)),
      mstep_filter_in q top ex t v (h (k, v) List.mem_cons_self)]

/-- a class of keys that holds no key of `o`: the merge does not touch it -/
theorem mergeD_filter_out (q : Key → Bool) (top : Bool) (ex : Tbl ExprEntry) : ∀ (o t : Entries),
    (∀ e ∈ o, q e.1 = false) →
    (mergeD top ex t o).filter (fun e => q e.1) = t.filter fun e => q e.1
  | [], t, _ => by rw [C07.mergeD_nil]
  | (k, v) :: o, t, h => by
    rw [C07.mergeD_cons, mergeD_filter_out q top ex o _ (fun e he => h e (List.mem_cons_of_mem _ he)),
      mstep_filter_out q top ex t v (h (k, v) List.mem_cons_self)]


/-! ### the writer's re-typing and the value domain are closed under `merge` -/

theorem normEs_append : ∀ (a b : Entries), normEs (a ++ b) = normEs a ++ normEs b
  | [], b => rfl
  | (k, v) :: a, b => by simp [normEs, normEs_append a b]

theorem norm_lookup {k : Key} {v : Val} : ∀ {t : Entries}, normEs t = t → lookup k t = some v → normV v = v
  | [], _, h => by simp [lookup] at h
  | (k0, v0) :: t, hn, h => by
    simp only [normEs, List.cons.injEq, Prod.mk.injEq, true_and] at hn
    by_cases h0 : k0 = k
    · simp only [lookup, h0, if_true, Option.some.injEq] at h; subst h; exact hn.1
    · simp only [lookup, h0, if_false] at h; exact norm_lookup hn.2 h

theorem norm_mergeD (ex : Tbl ExprEntry) : ∀ (top : Bool) (t o : Entries), normEs t = t → normEs o = o →
    normEs (mergeD top ex t o) = mergeD top ex t o := by
  apply C07.mergeD_induct ex (motive := fun top t o => normEs t = t → normEs o = o →
    normEs (mergeD top ex t o) = mergeD top ex t o)
  · intro top t ht _; rw [C07.mergeD_nil]; exact ht
  · intro top t k v o ih1 ih2 ht ho
    simp only [normEs, List.cons.injEq, Prod.mk.injEq, true_and] at ho
    rw [C07.mergeD_cons]
    refine ih2 ?_ ho.2
    unfold C07.mstep
    split
    · rename_i td od hl
      have h1 := norm_lookup ht hl
      have h2 := ho.1
      simp only [normV, Val.dict.injEq] at h1 h2
      rw [C03.normEs_setKey, ht]
      simp only [normV, ih1 td od hl rfl h1 h2]
    · split
      · rw [C03.normEs_setKey, ht, ho.1]
      · exact ht
    · rw [normEs_append, ht]; simp [normEs, ho.1]

theorem dom_lookup {fl : Flavor} {d : Nat} {k : Key} {v : Val} : ∀ {t : Entries}, domEs fl d t = true →
    lookup k t = some v → domV fl d v = true
  | [], _, h => by simp [lookup] at h
  | (k0, v0) :: t, hd, h => by
    simp only [domEs, Bool.and_eq_true] at hd
    by_cases h0 : k0 = k
    · simp only [lookup, h0, if_true, Option.some.injEq] at h; subst h; exact hd.1.2
    · simp only [lookup, h0, if_false] at h; exact dom_lookup hd.2 h

theorem dom_setKey {fl : Flavor} {d : Nat} {k : Key} {v : Val} (hk : isDomKey k = true) (hv : domV fl d v = true) :
    ∀ {t : Entries}, domEs fl d t = true → domEs fl d (setKey k v t) = true
  | [], _ => by simp [setKey, domEs, hk, hv]
  | (k0, v0) :: t, hd => by
    simp only [domEs, Bool.and_eq_true] at hd
    by_cases h0 : k0 = k
    · simp only [setKey, h0, if_true, domEs, hk, hv, hd.2, Bool.and_self]
    · simp only [setKey, h0, if_false, domEs, hd.1.1, hd.1.2, dom_setKey hk hv hd.2, Bool.and_self]

theorem dom_append {fl : Flavor} {d : Nat} : ∀ {a b : Entries}, domEs fl d a = true → domEs fl d b = true →
    domEs fl d (a ++ b) = true
  | [], b, _, hb => hb
  | (k, v) :: a, b, ha, hb => by
    simp only [domEs, Bool.and_eq_true] at ha
    simp only [List.cons_append, domEs, ha.1.1, ha.1.2, dom_append ha.2 hb, Bool.and_self]

theorem dom_mergeD (fl : Flavor) (ex : Tbl ExprEntry) : ∀ (top : Bool) (t o : Entries), ∀ d, domEs fl d t = true →
    (keys t).Nodup → domEs fl d o = true → domEs fl d (mergeD top ex t o) = true := by
  apply C07.mergeD_induct ex (motive := fun top t o => ∀ d, domEs fl d t = true → (keys t).Nodup →
    domEs fl d o = true → domEs fl d (mergeD top ex t o) = true)
  · intro top t d ht _ _; rw [C07.mergeD_nil]; exact ht
  · intro top t k v o ih1 ih2 d ht hn ho
    simp only [domEs, Bool.and_eq_true] at ho
    rw [C07.mergeD_cons]
    have hn' : (keys (C07.mstep top ex t k v)).Nodup := by
      have := C06.nodup_keys_mergeD top ex [(k, v)] t hn
      rwa [C07.mergeD_cons, C07.mergeD_nil] at this
    refine ih2 d ?_ hn' ho.2
    unfold C07.mstep
    split
    · rename_i td od hl
      have h1 := dom_lookup ht hl
      have h2 := ho.1.2
      simp only [domV, Bool.and_eq_true, decide_eq_true_eq] at h1 h2
      refine dom_setKey ho.1.1 ?_ ht
      simp only [domV, Bool.and_eq_true, decide_eq_true_eq]
      exact ⟨ih1 td od hl rfl (d + 1) h1.1 h1.2 h2.1, C06.nodup_keys_mergeD false ex od td h1.2⟩
    · split
      · exact dom_setKey ho.1.1 ho.1.2 ht
      · exact ht
    · exact dom_append ht (by simp [domEs, ho.1.1, ho.1.2])

/-- the value domain of C01 is closed under `merge` -/
theorem domC01_mergeD (ex : Tbl ExprEntry) (top : Bool) {t o : Entries} (ht : DomC01 .native t = true)
    (ho : DomC01 .native o = true) : DomC01 .native (mergeD top ex t o) = true := by
  simp only [DomC01, Bool.and_eq_true, decide_eq_true_eq] at ht ho ⊢
  exact ⟨dom_mergeD .native ex top t o 1 ht.1 ht.2 ho.1, C06.nodup_keys_mergeD top ex o t ht.2⟩

def isDocKey (k : Key) : Bool := k == .str "_variables".toList || k == .str "_includes".toList

theorem docKeys_iff {es : Entries} : C01.DocKeysAbsent' es ↔ es.filter (fun e => isDocKey e.1) = [] := by
  simp only [C01.DocKeysAbsent', List.filter_eq_nil_iff, isDocKey, Bool.or_eq_true, beq_iff_eq, not_or]

theorem docKeys_mergeD (ex : Tbl ExprEntry) (top : Bool) {t o : Entries} (ht : C01.DocKeysAbsent' t)
    (ho : C01.DocKeysAbsent' o) : C01.DocKeysAbsent' (mergeD top ex t o) := by
  rw [docKeys_iff] at ht ⊢
  rw [mergeD_filter_out isDocKey top ex o t, ht]
  intro e he
  have := ho e he
  simp only [isDocKey, Bool.or_eq_false_iff, beq_eq_false_iff_ne]
  exact this

/-! ### `_clean` on an SDict whose placeholder entries stand at the top level only -/

/-- the loop of `_clean_data` for one class of keys with at most one candidate key -/
theorem cleanStep_le1 {α} [BEq α] (sel : Key → Bool) (lvl : Entries) (tbl : Tbl α)
    (h : ((keys lvl).filter sel).length ≤ 1) : C06.cleanStep sel lvl tbl = (lvl, tbl) := by
  rw [C08.cleanStep_eq]
  rcases hc : (keys lvl).filter sel with _ | ⟨k, _ | ⟨k', r⟩⟩
  · rfl
  · simp only [List.foldl_cons, List.foldl_nil]
    cases k with
    | int z => rfl
    | str x =>
      cases hf : firstSixDigits x with
      | none => simp only [C08.cstep, hf]
      | some i =>
        cases hg : Tbl.get? i tbl with
        | none => simp only [C08.cstep, hf, hg]
        | some txt => simp [C08.cstep, hf, hg]
  · rw [hc] at h; simp at h

/-- the include class: the keys are the reader's own placeholder words, the table has no value twice -/
theorem cleanStep_inclKeys (lvl : Entries) (t : Tbl InclEntry) (ht : TblInj t) (hn : (keys lvl).Nodup)
    (hI : ∀ k ∈ keys lvl, SelIOK k) : C06.cleanStep C06.selI lvl t = (lvl, t) := by
  rw [C08.cleanStep_eq]
  have := cfold_both t ht _ (hn.filter C06.selI) (by
    intro k hk k' hk' h1 h2
    obtain ⟨hk1, hk2⟩ := List.mem_filter.mp hk
    obtain ⟨hk1', hk2'⟩ := List.mem_filter.mp hk'
    obtain ⟨i, hi, ei⟩ := hI k hk1 hk2
    obtain ⟨j, hj, ej⟩ := hI k' hk1' hk2'
    rw [ei, ej] at h1 ⊢
    simp only [fsdK, firstSix_inclPh hi, firstSix_inclPh hj, Option.some.injEq] at h1
    rw [h1]) lvl [] (by intro a ha; cases ha)
  exact Prod.ext this.1 this.2

/-- **`_clean` changes nothing** when there is no line comment, at most one block-comment key, the include keys are the
    reader's own words with distinct table values, and the nested dicts hold no placeholder key -/
theorem clean_top (s : SD) (hl : s.lineC = []) (hB : ((keys s.data).filter C06.selB).length ≤ 1)
    (ht : TblInj s.incl) (hn : (keys s.data).Nodup) (hI : ∀ k ∈ keys s.data, SelIOK k)
    (hsub : ∀ k sub, (k, Val.dict sub) ∈ s.data → C07.NoPhEs sub ∧ NodupKeysV (.dict sub)) : s.clean = s := by
  have hlev : cleanLevel s s.data = (s, s.data) := by
    rw [C08.cleanLevel_eq, cleanStep_le1 C06.selB s.data s.blockC hB, cleanStep_inclKeys s.data s.incl ht hn hI, hl,
      cleanStep_nil C06.selL s.data hn]
    cases s; simp only at hl; subst hl; rfl
  have hrec : ∀ fuel, cleanRec (fuel + 1) s s.data = (s, s.data) := by
    intro fuel
    simp only [cleanRec, hlev]
    suffices H : ∀ l : Entries, (∀ e ∈ l, e ∈ s.data) →
        l.foldl (fun (acc : SD × Entries) e =>
          match e.2 with
          | .dict sub => ((cleanRec fuel acc.1 sub).1, setKey e.1 (.dict (cleanRec fuel acc.1 sub).2) acc.2)
          | _ => acc) (s, s.data) = (s, s.data) from H _ (fun _ h => h)
    intro l
    induction l with
    | nil => intro _; rfl
    | cons e l ih =>
      intro hsubl
      obtain ⟨k, v⟩ := e
      have hmem : (k, v) ∈ s.data := hsubl _ List.mem_cons_self
      have hrest := ih fun e he => hsubl e (List.mem_cons_of_mem _ he)
      cases v with
      | leaf x => simpa only [List.foldl_cons] using hrest
      | list xs => simpa only [List.foldl_cons] using hrest
      | dict sub =>
        obtain ⟨h1, h2⟩ := hsub k sub hmem
        simp only [List.foldl_cons, C07.cleanRec_id fuel s sub h2 h1, C07.setKey_of_mem_nodup hn hmem]
        exact hrest
  simp only [SD.clean, hrec]

/-! ### the shape of what the reader returns for a file with top-level directives -/

theorem selB_eq (k : Key) : C06.selB k = pB k := by cases k <;> rfl
theorem selI_eq (k : Key) : C06.selI k = (!pB k && pI k) := by cases k <;> rfl

theorem ph_split {k : Key} (h : C07.isPhKey k = false) : pB k = false ∧ pI k = false := by
  cases k with
  | int z => exact ⟨rfl, rfl⟩
  | str x =>
    simp only [C07.isPhKey, Bool.or_eq_false_iff] at h
    exact ⟨h.1.1, h.1.2⟩

theorem zip_fst_snd {α β} : ∀ l : List (α × β), List.zip (l.map (·.1)) (l.map (·.2)) = l
  | [] => rfl
  | (a, b) :: l => by simp [zip_fst_snd l]

/-- **shape of a read result**: no expressions, no line comments; block comments: none, or (`hdr`) the header comment
    under id 0 with its placeholder entry; the include placeholder entries of the ids `ids`, the table naming the files
    `names` (pairwise distinct) under these ids; the remaining entries are `D`, a dict of the value domain that the
    writer's re-typing leaves alone.  (Only the classes are fixed, not the places of the placeholder entries.) -/
structure RdOK (s : SD) (hdr : Bool) (ids : List Nat) (names : List Str) (D : Entries) : Prop where
  exprs : s.exprs = []
  lineC : s.lineC = []
  blockC : s.blockC = if hdr then [(0, hdrComment)] else []
  fB : s.data.filter (fun e => pB e.1) = if hdr then [hdrEntry] else []
  fI : s.data.filter (fun e => !pB e.1 && pI e.1) = ids.map inclE
  fR : s.data.filter (fun e => !pB e.1 && !pI e.1) = D
  nodup : (keys s.data).Nodup
  idsle : ∀ i ∈ ids, i ≤ 999999
  idsnd : ids.Nodup
  tblIds : s.incl.map (·.1) = ids
  tblFiles : s.incl.map (·.2.file) = names
  namesnd : names.Nodup
  dom : DomC01 .native D = true
  norm : normEs D = D

namespace RdOK
variable {s : SD} {hdr : Bool} {ids : List Nat} {names : List Str} {D : Entries}

theorem entry_cases (h : RdOK s hdr ids names D) : ∀ e ∈ s.data,
    (hdr = true ∧ e = hdrEntry) ∨ (∃ i ∈ ids, e = inclE i) ∨ e ∈ D := by
  intro e he
  cases hb : pB e.1 with
  | true =>
    have : e ∈ s.data.filter (fun e => pB e.1) := List.mem_filter.mpr ⟨he, hb⟩
    rw [h.fB] at this
    cases hdr with
    | true => simp at this; exact Or.inl ⟨rfl, this⟩
    | false => simp at this
  | false =>
    cases hi : pI e.1 with
    | true =>
      have : e ∈ s.data.filter (fun e => !pB e.1 && pI e.1) := List.mem_filter.mpr ⟨he, by simp [hb, hi]⟩
      rw [h.fI] at this
      obtain ⟨i, hmi, rfl⟩ := List.mem_map.mp this
      exact Or.inr (Or.inl ⟨i, hmi, rfl⟩)
    | false =>
      have : e ∈ s.data.filter (fun e => !pB e.1 && !pI e.1) := List.mem_filter.mpr ⟨he, by simp [hb, hi]⟩
      rw [h.fR] at this
      exact Or.inr (Or.inr this)

theorem dfacts (h : RdOK s hdr ids names D) : C07.NoPhEs D ∧ NodupKeysV (.dict D) := by
  have := C01.norm_invariants h.dom
  rwa [h.norm] at this

theorem inj (h : RdOK s hdr ids names D) : TblInj s.incl := by
  rw [← zip_fst_snd s.incl]
  refine tblInj_zip _ _ (nodup_of_map (fun e : InclEntry => e.file) _ ?_)
  rw [List.map_map]
  exact h.tblFiles ▸ h.namesnd

theorem clean (h : RdOK s hdr ids names D) : s.clean = s := by
  refine clean_top s h.lineC ?_ h.inj h.nodup ?_ ?_
  · have : (keys s.data).filter C06.selB = keys (s.data.filter fun e => pB e.1) := by
      rw [show keys s.data = s.data.map (·.1) from rfl, List.filter_map]
      exact congrArg (List.map (fun e : Key × Val => e.1)) (List.filter_congr fun (e : Key × Val) _ => selB_eq e.1)
    rw [this, h.fB]
    cases hdr <;> simp
  · intro k hk hs
    obtain ⟨e, he, rfl⟩ := List.mem_map.mp hk
    rw [selI_eq] at hs
    have : e ∈ s.data.filter (fun e => !pB e.1 && pI e.1) := List.mem_filter.mpr ⟨he, hs⟩
    rw [h.fI] at this
    obtain ⟨i, hi, rfl⟩ := List.mem_map.mp this
    exact ⟨i, by have := h.idsle i hi; omega, rfl⟩
  · intro k sub hm
    rcases h.entry_cases _ hm with ⟨_, e⟩ | ⟨i, _, e⟩ | hD
    · cases e
    · cases e
    · exact ⟨(C07.noPhEs_iff.mp h.dfacts.1 _ hD).2, C07.nodupKeysEs_iff.mp h.dfacts.2.2 _ hD⟩

theorem nodupV (h : RdOK s hdr ids names D) : NodupKeysV (.dict s.data) := by
  refine ⟨h.nodup, C07.nodupKeysEs_iff.mpr fun e he => ?_⟩
  rcases h.entry_cases e he with ⟨_, rfl⟩ | ⟨i, _, rfl⟩ | hD
  · simp [hdrEntry, NodupKeysV]
  · simp [inclE, NodupKeysV]
  · exact C07.nodupKeysEs_iff.mp h.dfacts.2.2 _ hD

/-- removing the placeholder entries gives the entries `D` -/
theorem dropPh (h : RdOK s hdr ids names D) : C01.dropPhEntries s.data = D := by
  rw [← h.fR]
  refine List.filter_congr fun e he => ?_
  rcases h.entry_cases e he with ⟨_, rfl⟩ | ⟨i, hi, rfl⟩ | hD
  · have hA : C07.isPhKey (.str hdrPh) = true := hdrPh_isPh
    have hB : pB (.str hdrPh) = true := hdrPh_block
    show (!C07.isPhKey (.str hdrPh)) = (!pB (.str hdrPh) && !pI (.str hdrPh))
    rw [hA, hB]; rfl
  · have := p_inclPh (h.idsle i hi)
    have h2 : containsPh kwIncl (inclPh i) = true := this.2
    have hA : C07.isPhKey (.str (inclPh i)) = true := by
      simp only [C07.isPhKey, h2, Bool.or_true, Bool.true_or]
    show (!C07.isPhKey (.str (inclPh i))) = (!pB (.str (inclPh i)) && !pI (.str (inclPh i)))
    rw [hA, this.1, this.2]; rfl
  · have h1 := C12.dom_noPh_keys h.dom e.1 (List.mem_map_of_mem hD)
    simp [h1, (ph_split h1).1, (ph_split h1).2]

/-- `self.merge(temp)` for a `temp` of the value domain without tables: the data are merged, nothing else changes,
    and the shape stays -/
theorem merge (h : RdOK s hdr ids names D) {TD : Entries} (hd : DomC01 .native TD = true) (hnm : normEs TD = TD) :
    s.merge (.sd { data := TD }) = { s with data := mergeD true [] s.data TD } ∧
    RdOK { s with data := mergeD true [] s.data TD } hdr ids names (mergeD true [] D TD) := by
  have hk : ∀ e ∈ TD, pB e.1 = false ∧ pI e.1 = false := fun e he =>
    ph_split (C12.dom_noPh_keys hd e.1 (List.mem_map_of_mem he))
  have h' : RdOK { s with data := mergeD true [] s.data TD } hdr ids names (mergeD true [] D TD) := {
    exprs := h.exprs
    lineC := h.lineC
    blockC := h.blockC
    fB := by
      show (mergeD true [] s.data TD).filter _ = _
      rw [mergeD_filter_out pB true [] TD s.data (fun e he => (hk e he).1)]; exact h.fB
    fI := by
      show (mergeD true [] s.data TD).filter _ = _
      rw [mergeD_filter_out (fun k => !pB k && pI k) true [] TD s.data (fun e he => by simp [(hk e he).1, (hk e he).2])]
      exact h.fI
    fR := by
      show (mergeD true [] s.data TD).filter _ = _
      rw [mergeD_filter_in (fun k => !pB k && !pI k) true [] TD s.data (fun e he => by simp [(hk e he).1, (hk e he).2]),
        h.fR]
    nodup := C06.nodup_keys_mergeD true [] TD s.data h.nodup
    idsle := h.idsle
    idsnd := h.idsnd
    tblIds := h.tblIds
    tblFiles := h.tblFiles
    namesnd := h.namesnd
    dom := domC01_mergeD [] true h.dom hd
    norm := norm_mergeD [] true D TD h.norm hnm }
  refine ⟨?_, h'⟩
  have e : s.merge (.sd { data := TD }) = ({ s with data := mergeD true [] s.data TD } : SD).clean := by
    have hx := h.exprs
    cases s; simp only at hx; subst hx; rfl
  rw [e]
  exact h'.clean

theorem merge_self (h : RdOK s hdr ids names D) : s.merge (.sd s) = s := C01.merge_self_clean s h.clean h.nodupV

end RdOK

/-! ### the writer on such an SDict -/

/-- file names the writer theorem of `C12wincl` covers: no `$`, not the word `INCLUDE`, no line feed, no carriage return -/
def NamesOK (names : List Str) : Prop :=
  ∀ n ∈ names, n.contains '$' = false ∧ NoI n ∧ ∀ c ∈ n, c ≠ '\n' ∧ c ≠ '\r'

theorem infix_skip (c : Char) (p : Str) : ∀ (a s : Str), c ∉ a → isInfix (c :: p) (a ++ s) = isInfix (c :: p) s
  | [], s, _ => rfl
  | x :: a, s, h => by
    have hx : (c == x) = false := by
      simp only [beq_eq_false_iff_ne]; intro e; exact h (by simp [e])
    rw [List.cons_append, C02.isInfix_cons, C02.isPrefixOf_cc, hx, Bool.false_and, Bool.false_or]
    exact infix_skip c p a s (fun hm => h (List.mem_cons_of_mem _ hm))

theorem iphLines_noB : ∀ (ids : List Nat), 'B' ∉ (ids.map fun i => iphLine i pad0).flatMap (· ++ ['\n'])
  | [] => by simp
  | i :: ids => by
    have ih := iphLines_noB ids
    have h1 : 'B' ∉ inclPh i := by
      simp only [inclPh, List.mem_append, not_or]
      exact ⟨by decide, C08.padSix_not (by decide) i⟩
    have h2 : 'B' ∉ pad0 := by decide
    simp only [List.map_cons, List.flatMap_cons, iphLine, List.mem_append, not_or, List.mem_singleton, List.mem_cons]
    exact ⟨⟨⟨⟨⟨h1, h2⟩, h1⟩, by decide⟩, by simp⟩, ih⟩

theorem noHdrPh_incl {ids : List Nat} {D : Entries} (hle : ∀ i ∈ ids, i ≤ 999999) (hd : DomC01 .native D = true) :
    isInfix hdrPh (fmtEntries .native 0 (ids.map inclE ++ D)) = false := by
  obtain ⟨x, _, hx, _⟩ := hdrPh_shape
  rw [fmt_incl_top ids D hle, hx, infix_skip 'B' x _ _ (iphLines_noB ids), ← hx]
  exact dom_noHdrPh hd

theorem tbl_look : ∀ (t : Tbl InclEntry), (t.map (·.1)).Nodup →
    ∀ p ∈ (t.map (·.1)).zip (t.map (·.2.file)), ∃ e, t.get? p.1 = some e ∧ e.file = p.2
  | [], _, p, hp => by simp at hp
  | (i, a) :: t, hnd, p, hp => by
    obtain ⟨hi, hnd'⟩ := List.nodup_cons.mp hnd
    simp only [List.map_cons, List.zip_cons_cons, List.mem_cons] at hp
    rcases hp with rfl | hp
    · exact ⟨a, by simp [Tbl.get?], rfl⟩
    · obtain ⟨e, he, hfe⟩ := tbl_look t hnd' p hp
      have hne : ¬ i = p.1 := fun e1 => hi (e1 ▸ (List.of_mem_zip hp).1)
      exact ⟨e, by simp only [Tbl.get?, hne, if_false]; exact he, hfe⟩

namespace RdOK
variable {s : SD} {hdr : Bool} {ids : List Nat} {names : List Str} {D : Entries}

theorem hoist (h : RdOK s hdr ids names D) :
    hoistPlaceholders s.data = (if hdr then [hdrEntry] else []) ++ ids.map inclE ++ D := by
  rw [C12W.hoist_def]
  show List.filter (fun (e : Key × Val) => pB e.1) _ ++ List.filter (fun (e : Key × Val) => !pB e.1 && pI e.1) _ ++
    List.filter (fun (e : Key × Val) => !pB e.1 && !pI e.1) _ = _
  rw [h.fB, h.fI, h.fR]

theorem len (h : RdOK s hdr ids names D) : ids.length = names.length := by
  rw [← h.tblIds, ← h.tblFiles, List.length_map, List.length_map]

/-- without header: the hypotheses of the writer theorem of `C12wincl` -/
theorem wiok (h : RdOK s false ids names D) (hn : NamesOK names) : WIOK s ids names D where
  lineC := h.lineC
  blockC := h.blockC
  hoist := by rw [h.hoist]; rfl
  dom := h.dom
  len := h.len
  idsle := h.idsle
  look := by
    have := tbl_look s.incl (h.tblIds ▸ h.idsnd)
    rwa [h.tblIds, h.tblFiles] at this
  tbl := by
    intro e he
    have h1 : e.1 ∈ ids := h.tblIds ▸ List.mem_map_of_mem (f := (·.1)) he
    have h2 : e.2.file ∈ names := h.tblFiles ▸ List.mem_map_of_mem (f := (·.2.file)) he
    exact ⟨h.idsle _ h1, (hn _ h2).1, (hn _ h2).2.1⟩
  names := fun n hm => ⟨(hn n hm).1, (hn n hm).2.2⟩

/-- the same SDict without the header comment and its placeholder entry -/
def strip (s : SD) : SD := { s with blockC := [], data := s.data.filter fun e => !pB e.1 }

theorem strip_ok (h : RdOK s hdr ids names D) : RdOK (strip s) false ids names D where
  exprs := h.exprs
  lineC := h.lineC
  blockC := rfl
  fB := by
    show (s.data.filter _).filter _ = _
    rw [List.filter_filter]; simp
  fI := by
    show (s.data.filter _).filter _ = _
    rw [List.filter_filter, ← h.fI]
    exact List.filter_congr fun e _ => by cases pB e.1 <;> simp
  fR := by
    show (s.data.filter _).filter _ = _
    rw [List.filter_filter, ← h.fR]
    exact List.filter_congr fun e _ => by cases pB e.1 <;> simp
  nodup := (List.filter_sublist.map _).nodup h.nodup
  idsle := h.idsle
  idsnd := h.idsnd
  tblIds := h.tblIds
  tblFiles := h.tblFiles
  namesnd := h.namesnd
  dom := h.dom
  norm := h.norm

/-- the header comment in the table and its placeholder entry are written as the default header -/
theorem fmt_strip (h : RdOK s hdr ids names D) : fmtSD .native s = fmtSD .native (strip s) := by
  cases hdr with
  | false =>
    have e : strip s = s := by
      have hb := h.blockC
      have hf : s.data.filter (fun e => !pB e.1) = s.data := by
        refine List.filter_eq_self.mpr fun e he => ?_
        cases hp : pB e.1 with
        | false => rfl
        | true =>
          have : e ∈ s.data.filter (fun e => pB e.1) := List.mem_filter.mpr ⟨he, hp⟩
          rw [h.fB] at this; simp at this
      cases s; simp only [strip] at hb hf ⊢; simp only [hf]; simp at hb; rw [hb]
    rw [e]
  | true =>
    have h1 := h.hoist
    have h2 := h.strip_ok.hoist
    simp only [if_true, if_false, Bool.false_eq_true, List.nil_append, List.cons_append] at h1 h2
    have hb : s.blockC = [(0, hdrComment)] := h.blockC
    simp only [fmtSD, h1, h2, hb]
    rw [insertBlock_hdr _ (noHdrPh_incl h.idsle h.dom)]
    show _ = match insertIncludes .native s.incl (insertBlockComments .native [] _) with | none => none | some t => _
    rw [insertBlock_nil]
    rfl

/-- **the text written for such an SDict**: the default header, one directive line per file name, the text of `D` -/
theorem write (h : RdOK s hdr ids names D) (hn : NamesOK names) :
    fmtSD .native s =
      some (nativeHeader ++ ((names.map dirLine).flatMap (· ++ ['\n']) ++ fmtPlain .native D)) := by
  rw [h.fmt_strip]
  exact write_incl_top (h.strip_ok.wiok hn)

end RdOK

#check @RdOK.write
#print axioms RdOK.write
end DictIO.C03incl
