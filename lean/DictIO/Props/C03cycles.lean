/-
  C03 for commented documents -- "reading any well-formed file, writing the result, and reading the written file yields
  the same data as the first read … the written text itself stabilises after one cycle".

  Setting: `items` a commented document, `denC c items` what the reader returns for any admissible layout of it
  (`C12.C12_read_commented`), `writtenDoc2 items` the canonical document of `C12write` (repeated comments dropped, the
  writer's spelling, top-level block comments first, the default header in front unless the document has its own).

    `fmtSD_explicit`     for every SDict with `WOK sd`:  `fmtSD .native sd = some (removeTrailingSpaces (fmtDoc 0 (docSD sd)))`
                         — the written text as an explicit function (`fmtDoc`: every entry and comment on its lines) of
                         the written document; this replaces the "some admissible gaps" of M3 by the gaps themselves
                         (proved with layouts that carry two texts with the same gaps: `LaysP`, `lays_entriesP`, `fmtT`)
    `written_text`       `fmtSD .native (denC c items) = some (cycText items)`, `cycText items` a function of
                         `writtenDoc2 items` alone (not of the ids the counter handed out)
    `writtenDoc2_idem`   `writtenDoc2 (writtenDoc2 items) = writtenDoc2 items` (with `written_own`: the written document
                         has a header of its own — also when that is the default header added in the first cycle —,
                         `written_dedup`, `written_cnorm`, `cnorm_idemI`, `hdr_fresh`)
    `C03_commented_second_write` / `…'`   writing the re-read SDict gives the bytes of the first write
    `C03_commented_cycles` / `…'`, `C03_commented_texts`   ALL cycles, the first included, write `cycText items`, and
                         every re-read is `denC cₙ (writtenDoc2 items)` (ids from the counter at that point)
    `hw2_written`        the writer hypotheses for the canonical document follow from those for the document, EXCEPT
                         `indep`; `second_write_needs_indep` (finding): the writer hoists the top-level block comments,
                         so the table of the re-read lists them in another order, and a nested `/*b*/` that occurs inside
                         a later top-level comment `/* x /*b*/` is written in cycle 1 and lost in cycle 2
    `exW_two_cycles`, `exDup_two_cycles`   non-vacuity
-/
import DictIO.Props.C12write
import DictIO.Props.C03

namespace DictIO.C03c
open DictIO DictIO.C12W

set_option linter.unusedSimpArgs false
set_option linter.unusedVariables false
set_option linter.unusedSectionVars false

/-! ## 1. two texts with the same gaps -/

/-- a layout read with another text for every token -/
def layG (tx : XTok → Str) : List (Str × XTok) → Str → Str
  | [], tail => tail
  | (g, t) :: l, tail => g ++ tx t ++ layG tx l tail

theorem layG_text : ∀ (l : List (Str × XTok)) (tail : Str), layG XTok.text l tail = layX l tail
  | [], _ => rfl
  | (g, t) :: l, tail => by simp only [layG, layX, layG_text l tail]

theorem layG_tail (tx : XTok → Str) : ∀ (l : List (Str × XTok)) (tail : Str), layG tx l tail = layG tx l [] ++ tail
  | [], _ => rfl
  | (g, t) :: l, tail => by simp only [layG, layG_tail tx l tail, List.append_assoc]

theorem layG_append (tx : XTok → Str) (l1 l2 : List (Str × XTok)) (tail : Str) :
    layG tx (l1 ++ l2) tail = layG tx l1 [] ++ layG tx l2 tail := by
  induction l1 with
  | nil => rfl
  | cons p l1 ih => obtain ⟨g, t⟩ := p; simp only [List.cons_append, layG, ih, List.append_assoc]

/-- `a` is the layout of `xs` (as in `LaysX`) and `b` is the same layout with the token texts `tx` -/
def LaysP (tx : XTok → Str) (c : Ctx) (xs : List XTok) (a b tail : Str) : Prop :=
  ∃ l, l.map Prod.snd = xs ∧ a = layX l tail ∧ b = layG tx l tail ∧ okX c l = true ∧ tail.all isWs = true

theorem LaysP.tok (tx : XTok → Str) (c : Ctx) {g tail : Str} (t : XTok) (hg : g.all isWs = true)
    (ht : tail.all isWs = true) (hok : gapOK c t g = true) :
    LaysP tx c [t] (g ++ t.text ++ tail) (g ++ tx t ++ tail) tail :=
  ⟨[(g, t)], rfl, rfl, rfl, by simp [okX, hg, hok], ht⟩

theorem LaysP.append {tx : XTok → Str} {c c2 : Ctx} {xs ys : List XTok} {a a' b b' t1 t2 : Str}
    (ha : LaysP tx c xs a a' t1) (hb : LaysP tx c2 ys b b' t2) (hne : ys ≠ [])
    (hc : ∀ u g, g.all isWs = true → gapOK c2 u g = true → gapOK (lastCtx c xs) u (t1 ++ g) = true) :
    LaysP tx c (xs ++ ys) (a ++ b) (a' ++ b') t2 := by
  obtain ⟨l1, rfl, rfl, rfl, ok1, ht1⟩ := ha
  obtain ⟨l2, rfl, rfl, rfl, ok2, ht2⟩ := hb
  cases l2 with
  | nil => exact absurd rfl hne
  | cons p l2 =>
    obtain ⟨g, t⟩ := p
    refine ⟨l1 ++ (t1 ++ g, t) :: l2, by simp, ?_, ?_, ?_, ht2⟩
    · rw [layX_append, layX_tail l1 t1]
      simp [layX]
    · rw [layG_append, layG_tail tx l1 t1]
      simp [layG]
    · rw [okX_append, ok1, Bool.true_and]
      simp only [okX, Bool.and_eq_true, List.all_append] at ok2 ⊢
      exact ⟨⟨⟨ht1, ok2.1.1⟩, hc t g ok2.1.1 ok2.1.2⟩, ok2.2⟩

theorem LaysP.append_nil {tx : XTok → Str} {c c2 : Ctx} {xs : List XTok} {a a' b b' t1 t2 : Str}
    (ha : LaysP tx c xs a a' t1) (hb : LaysP tx c2 [] b b' t2) : LaysP tx c xs (a ++ b) (a' ++ b') (t1 ++ t2) := by
  obtain ⟨l1, rfl, rfl, rfl, ok1, ht1⟩ := ha
  obtain ⟨l2, h2, rfl, rfl, ok2, ht2⟩ := hb
  cases l2 with
  | cons p l2 => cases h2
  | nil =>
    refine ⟨l1, rfl, ?_, ?_, ok1, by simp [ht1, ht2]⟩
    · rw [layX_tail l1 t1, layX_tail l1 (t1 ++ t2)]
      simp [layX]
    · rw [layG_tail tx l1 t1, layG_tail tx l1 (t1 ++ t2)]
      simp [layG]

theorem layG_lift (tx : XTok → Str) (htok : ∀ t, tx (.tok t) = t.text) : ∀ (l : List (Str × STok)) (tail : Str),
    layG tx (liftP l) tail = C01.layP l tail
  | [], _ => rfl
  | (g, t) :: l, tail => by
    have := layG_lift tx htok l tail
    simp only [liftP] at this
    simp only [liftP, List.map_cons, layG, C01.layP, htok, this]

theorem LaysP.of_lays {tx : XTok → Str} (htok : ∀ t, tx (.tok t) = t.text) {pd : Bool} {ts : List STok} {txt : Str}
    (c : Ctx) (h : C01.Lays pd ts txt)
    (hc : c = .cov ∨ (c = .dl ∧ pd = true) ∨ (c = .wd ∧ pd = false) ∨ (c = .dl ∧ pd = false)) :
    ∃ tail, LaysP tx c (ts.map .tok) txt txt tail := by
  obtain ⟨l, tail, rfl, rfl, ok, ht⟩ := h
  exact ⟨tail, liftP l, by simp [liftP], (layX_lift l tail).symm, (layG_lift tx htok l tail).symm,
    okX_lift l pd c ok hc, ht⟩

/-- full lines, both texts -/
def LaysLP (tx : XTok → Str) (xs : List XTok) (a b : Str) : Prop :=
  (xs = [] ∧ a = [] ∧ b = []) ∨ (xs ≠ [] ∧ LaysP tx .cov xs a b ['\n'])

theorem LaysLP.nil (tx : XTok → Str) : LaysLP tx [] [] [] := Or.inl ⟨rfl, rfl, rfl⟩

theorem LaysLP.append {tx : XTok → Str} {xs ys : List XTok} {a a' b b' : Str} (ha : LaysLP tx xs a a')
    (hb : LaysLP tx ys b b') : LaysLP tx (xs ++ ys) (a ++ b) (a' ++ b') := by
  rcases ha with ⟨rfl, rfl, rfl⟩ | ⟨hx, ha⟩
  · simpa using hb
  · rcases hb with ⟨rfl, rfl, rfl⟩ | ⟨hy, hb⟩
    · rw [List.append_nil, List.append_nil, List.append_nil]; exact Or.inr ⟨hx, ha⟩
    · exact Or.inr ⟨by simp [hx], ha.append hb hy fun u g _ _ => gapOK_nl _ u g⟩

theorem LaysLP.line (tx : XTok → Str) (lvl : Nat) (t : XTok) : LaysLP tx [t] (fline lvl t.text) (fline lvl (tx t)) := by
  refine Or.inr ⟨by simp, ?_⟩
  have := LaysP.tok tx .cov (g := spaces (4 * lvl)) (tail := ['\n']) t (C01.spaces_ws _) C12W.nl_ws rfl
  simpa [fline] using this

section
variable (tx : XTok → Str) (htok : ∀ t, tx (.tok t) = t.text)
include htok

theorem laysP_leaf_line (lvl : Nat) (k v : STok) (pad : Str) (hp : pad.all isWs = true) (hne : pad ≠ []) :
    LaysLP tx [.tok k, .tok v, .tok (.word [';'])] (fline lvl (k.text ++ pad ++ v.text ++ [';']))
      (fline lvl (k.text ++ pad ++ v.text ++ [';'])) := by
  have h0 := LaysP.tok tx .cov (g := spaces (4 * lvl)) (tail := []) (.tok k) (C01.spaces_ws _) rfl rfl
  have h1 := LaysP.tok tx .bk (g := pad) (tail := []) (.tok v) hp rfl (by simpa [gapOK] using hne)
  have h2 := LaysP.tok tx .wd (g := []) (tail := ['\n']) (.tok (.word [';'])) rfl C12W.nl_ws
    (by simp [gapOK, semi_delim])
  have h01 := h0.append h1 (by simp) (fun u g _ hg => by
    rw [lastCtx_singleton, List.nil_append]
    have hgne : g ≠ [] := by simpa [gapOK] using hg
    rcases ctxAfter_tok k with e | e <;> rw [e] <;> exact gapOK_ne (by decide) u hgne)
  have h012 := h01.append h2 (by simp) (fun u g _ hg => by
    have : lastCtx Ctx.cov ([XTok.tok k] ++ [XTok.tok v]) = ctxAfter (.tok v) := rfl
    rw [this]
    exact gapOK_wd_ext (ctxAfter_tok v) u [] g hg)
  refine Or.inr ⟨by simp, ?_⟩
  simpa [fline, XTok.text, STok.text, htok] using h012

theorem laysP_list_block (lvl : Nat) (xs : List Val) (d : Nat) (h : domXs .native d xs = true) :
    LaysLP tx (.tok (.word ['(']) :: (srcToksXs (srcOfXs .native xs)).map XTok.tok ++ [.tok (.word [')']), .tok (.word [';'])])
      (fmtList .native lvl false xs) (fmtList .native lvl false xs) := by
  have hi := C01.lays_items d lvl xs.length 0 true xs h
  obtain ⟨tl, p2⟩ := LaysP.of_lays htok .wd hi (Or.inr (Or.inr (Or.inl ⟨rfl, rfl⟩)))
  have p1 := LaysP.tok tx .cov (g := spaces (4 * lvl)) (tail := ['\n']) (.tok (.word ['('])) (C01.spaces_ws _) C12W.nl_ws rfl
  have p12 : ∃ tl', LaysP tx .cov (.tok (.word ['(']) :: (srcToksXs (srcOfXs .native xs)).map XTok.tok)
      (spaces (4 * lvl) ++ (XTok.tok (.word ['('])).text ++ ['\n'] ++ fmtItems .native lvl xs.length 0 true xs)
      (spaces (4 * lvl) ++ tx (XTok.tok (.word ['('])) ++ ['\n'] ++ fmtItems .native lvl xs.length 0 true xs) tl' := by
    by_cases hne : (srcToksXs (srcOfXs .native xs)).map XTok.tok = []
    · rw [hne] at p2 ⊢
      exact ⟨_, p1.append_nil p2⟩
    · exact ⟨_, p1.append p2 hne fun u g _ _ => gapOK_nl _ u g⟩
  obtain ⟨tl', p12⟩ := p12
  have hl : lastCtx .cov (XTok.tok (.word ['(']) :: (srcToksXs (srcOfXs .native xs)).map XTok.tok) = .dl ∨
      lastCtx .cov (XTok.tok (.word ['(']) :: (srcToksXs (srcOfXs .native xs)).map XTok.tok) = .wd := by
    have e : ctxAfter (XTok.tok (STok.word ['('])) = .dl := by decide
    simp only [lastCtx, e]
    rcases lastCtx_toks .dl (srcToksXs (srcOfXs .native xs)) with h | h | h
    · exact Or.inl h
    · exact Or.inl h
    · exact Or.inr h
  have p3 := LaysP.tok tx .wd (g := spaces (4 * lvl)) (tail := []) (.tok (.word [')'])) (C01.spaces_ws _) rfl
    (by simp [gapOK, close_delim])
  have p4 := LaysP.tok tx .wd (g := []) (tail := ['\n']) (.tok (.word [';'])) rfl C12W.nl_ws (by simp [gapOK, semi_delim])
  have p123 := p12.append p3 (by simp) (fun u g _ hg => gapOK_wd_ext hl u tl' g hg)
  have p1234 := p123.append p4 (by simp) (fun u g _ hg => by
    rw [lastCtx_append, lastCtx_singleton]
    exact gapOK_wd_ext (ctxAfter_tok _) u [] g hg)
  refine Or.inr ⟨by simp, ?_⟩
  simpa [fmtList, fline, XTok.text, STok.text, htok, List.append_assoc] using p1234

end

/-- the text that takes the place of a placeholder line -/
def txOf (τ : Bool → Nat → Str) : XTok → Str
  | .ph l i _ => τ l i
  | t => t.text

/-- the writer's output with the comments in place: like `fmtEntries`, a placeholder entry written as its comment -/
def fmtT (τ : Bool → Nat → Str) (lvl : Nat) : Entries → Str
  | [] => []
  | (k, .dict es) :: r =>
    fline lvl (keyStr k) ++ fline lvl ['{'] ++ fmtT τ (lvl + 1) es ++ fline lvl ['}'] ++ fmtT τ lvl r
  | (k, .list xs) :: r => fline lvl (keyStr k) ++ fmtList .native lvl false xs ++ fmtT τ lvl r
  | (k, .leaf x) :: r =>
    (match phOf k x with
     | some (l, i) => fline lvl (τ l i)
     | none => fline lvl (keyStr k ++ padOf lvl (keyStr k) ++ formatScalar .native x ++ [';'])) ++ fmtT τ lvl r

/-- **M1 with both texts**: the raw output and the output with the comments in place are layouts with the same gaps -/
theorem lays_entriesP (τ : Bool → Nat → Str) : ∀ (d lvl : Nat) (D : Entries), wshEs d D = true →
    LaysLP (txOf τ) (xtoksEs lvl D) (fmtEntries .native lvl D) (fmtT τ lvl D)
  | _, _, [], _ => by simp only [xtoksEs, fmtEntries, fmtT]; exact LaysLP.nil _
  | d, lvl, (k, .dict es) :: r, h => by
    simp only [wshEs, Bool.and_eq_true] at h
    have h0 := LaysLP.line (txOf τ) lvl (.tok (.word (keyStr k)))
    have h1 := LaysLP.line (txOf τ) lvl (.tok (.word ['{']))
    have h2 := lays_entriesP τ (d + 1) (lvl + 1) es h.1.2
    have h3 := LaysLP.line (txOf τ) lvl (.tok (.word ['}']))
    have h4 := lays_entriesP τ d lvl r h.2
    have := (((h0.append h1).append h2).append h3).append h4
    simpa [xtoksEs, fmtEntries, fmtT, txOf, XTok.text, STok.text] using this
  | d, lvl, (k, .list xs) :: r, h => by
    simp only [wshEs, Bool.and_eq_true] at h
    have h0 := LaysLP.line (txOf τ) lvl (.tok (.word (keyStr k)))
    have h1 := laysP_list_block (txOf τ) (fun _ => rfl) lvl xs (d + 1) h.1.2
    have h4 := lays_entriesP τ d lvl r h.2
    have := (h0.append h1).append h4
    simpa [xtoksEs, fmtEntries, fmtT, txOf, XTok.text, STok.text] using this
  | d, lvl, (k, .leaf x) :: r, h => by
    simp only [wshEs, Bool.and_eq_true, Bool.or_eq_true, decide_eq_true_eq] at h
    have h4 := lays_entriesP τ d lvl r h.2
    cases hp : phOf k x with
    | some li =>
      obtain ⟨l, i⟩ := li
      obtain ⟨rfl, rfl, hi⟩ := phOf_some hp
      have h0 := LaysLP.line (txOf τ) lvl (.ph l i (padOf lvl (phWord l i)))
      have := h0.append h4
      simpa [xtoksEs, hp, fmtEntries, fmtT, txOf, XTok.text, formatKey, formatScalar, phWord_format, padOf] using this
    | none =>
      rw [hp] at h
      rcases h.1 with h1 | h1
      · cases h1
      · have h0 := laysP_leaf_line (txOf τ) (fun _ => rfl) lvl (.word (keyStr k)) (writtenLit .native x).tok
          (padOf lvl (keyStr k)) (padOf_ws _ _) (padOf_ne _ _)
        have := h0.append h4
        simpa [xtoksEs, hp, fmtEntries, fmtT, C01.text_word, C01.writtenLit_text, C01.formatKey_eq_keyStr h1.1.1, padOf]
          using this

/-! ## 2. the writer on a commented document (a function of the document alone) -/

mutual
  /-- `fmtList` on the written spelling of the list -/
  def fmtSList (lvl : Nat) (inList : Bool) (xs : List Src) : Str :=
    fline lvl ['('] ++ fmtSItems lvl xs.length 0 true xs ++ fline lvl (if inList then [')'] else [')', ';'])
  def fmtSItems (lvl n idx : Nat) (first : Bool) : List Src → Str
    | [] => []
    | .list ys :: rest => fmtSList (lvl + 1) true ys ++ fmtSItems lvl n (idx + 1) first rest
    | .dict es :: rest =>
        fline (lvl + 1) [] ++ fline (lvl + 1) ['{'] ++ fmtSEs (lvl + 2) es ++ fline (lvl + 1) ['}'] ++
          fmtSItems lvl n (idx + 1) true rest
    | .lit l :: rest =>
        let value := l.tok.text
        let itemLevel := if first then lvl + 1 else 1
        let last := (idx + 1) % 10 == 0 || idx + 1 == n
        if last then fline itemLevel value ++ fmtSItems lvl n (idx + 1) true rest
        else fline itemLevel (value ++ spaces (14 - value.length)) false ++ fmtSItems lvl n (idx + 1) false rest
  def fmtSEs (lvl : Nat) : SrcEntries → Str
    | [] => []
    | (k, .dict es) :: rest => fline lvl k ++ fline lvl ['{'] ++ fmtSEs (lvl + 1) es ++ fline lvl ['}'] ++ fmtSEs lvl rest
    | (k, .list xs) :: rest => fline lvl k ++ fmtSList lvl false xs ++ fmtSEs lvl rest
    | (k, .lit l) :: rest =>
        fline lvl (k ++ spaces (max 8 (30 - k.length - 4 * lvl)) ++ l.tok.text ++ [';']) ++ fmtSEs lvl rest
end

theorem srcOfXs_length : ∀ (xs : List Val), (srcOfXs .native xs).length = xs.length
  | [] => by simp [srcOfXs]
  | v :: xs => by simp [srcOfXs, srcOfXs_length xs]

mutual
  theorem fmtItems_src : ∀ (d lvl n idx : Nat) (first : Bool) (xs : List Val), domXs .native d xs = true →
      fmtItems .native lvl n idx first xs = fmtSItems lvl n idx first (srcOfXs .native xs)
    | _, _, _, _, _, [], _ => by simp [fmtItems, srcOfXs, fmtSItems]
    | d, lvl, n, idx, first, .list ys :: rest, h => by
      simp only [domXs, domV, Bool.and_eq_true] at h
      simp only [fmtItems, srcOfXs, srcOfV, fmtSItems, fmtList, fmtSList, srcOfXs_length,
        fmtItems_src (d + 1) (lvl + 1) ys.length 0 true ys h.1, fmtItems_src d lvl n (idx + 1) first rest h.2]
    | d, lvl, n, idx, first, .dict es :: rest, h => by
      simp only [domXs, domV, Bool.and_eq_true] at h
      simp only [fmtItems, srcOfXs, srcOfV, fmtSItems, fmtEntries_src (d + 1) (lvl + 2) es h.1.1,
        fmtItems_src d lvl n (idx + 1) true rest h.2]
    | d, lvl, n, idx, first, .leaf x :: rest, h => by
      simp only [domXs, Bool.and_eq_true] at h
      simp only [fmtItems, srcOfXs, srcOfV, fmtSItems, C01.writtenLit_text,
        fmtItems_src d lvl n (idx + 1) true rest h.2, fmtItems_src d lvl n (idx + 1) false rest h.2]
  theorem fmtEntries_src : ∀ (d lvl : Nat) (es : Entries), domEs .native d es = true →
      fmtEntries .native lvl es = fmtSEs lvl (srcOfEs .native es)
    | _, _, [], _ => by simp [fmtEntries, srcOfEs, fmtSEs]
    | d, lvl, (k, .dict sub) :: rest, h => by
      simp only [domEs, domV, Bool.and_eq_true] at h
      simp only [fmtEntries, srcOfEs, srcOfV, fmtSEs, fmtEntries_src (d + 1) (lvl + 1) sub h.1.2.1,
        fmtEntries_src d lvl rest h.2]
    | d, lvl, (k, .list xs) :: rest, h => by
      simp only [domEs, domV, Bool.and_eq_true] at h
      simp only [fmtEntries, srcOfEs, srcOfV, fmtSEs, fmtList, fmtSList, srcOfXs_length,
        fmtItems_src (d + 1) lvl xs.length 0 true xs h.1.2, fmtEntries_src d lvl rest h.2]
    | d, lvl, (k, .leaf x) :: rest, h => by
      simp only [domEs, Bool.and_eq_true] at h
      simp only [fmtEntries, srcOfEs, srcOfV, fmtSEs, C01.writtenLit_text, C01.formatKey_eq_keyStr h.1.1,
        fmtEntries_src d lvl rest h.2]
end

theorem fmtList_src (d lvl : Nat) (b : Bool) (xs : List Val) (h : domXs .native d xs = true) :
    fmtList .native lvl b xs = fmtSList lvl b (srcOfXs .native xs) := by
  rw [fmtList, fmtSList, srcOfXs_length, fmtItems_src d lvl xs.length 0 true xs h]

/-- **the writer on a commented document**: every entry and every comment on lines of its own, at the indentation of
    its level -/
def fmtDoc (lvl : Nat) : List CItem → Str
  | [] => []
  | .entry k (.lit l) :: r => fline lvl (k ++ padOf lvl k ++ l.tok.text ++ [';']) ++ fmtDoc lvl r
  | .entry k (.dict items) :: r =>
    fline lvl k ++ fline lvl ['{'] ++ fmtDoc (lvl + 1) items ++ fline lvl ['}'] ++ fmtDoc lvl r
  | .entry k (.list xs) :: r => fline lvl k ++ fmtSList lvl false xs ++ fmtDoc lvl r
  | .lineC x :: r => fline lvl (lineFull x) ++ fmtDoc lvl r
  | .blockC x :: r => fline lvl (blockFull x) ++ fmtDoc lvl r

theorem fmtDoc_append (lvl : Nat) : ∀ (a b : List CItem), fmtDoc lvl (a ++ b) = fmtDoc lvl a ++ fmtDoc lvl b
  | [], b => by simp [fmtDoc]
  | .entry k (.lit l) :: a, b => by simp only [List.cons_append, fmtDoc, fmtDoc_append lvl a b, List.append_assoc]
  | .entry k (.dict its) :: a, b => by simp only [List.cons_append, fmtDoc, fmtDoc_append lvl a b, List.append_assoc]
  | .entry k (.list xs) :: a, b => by simp only [List.cons_append, fmtDoc, fmtDoc_append lvl a b, List.append_assoc]
  | .lineC x :: a, b => by simp only [List.cons_append, fmtDoc, fmtDoc_append lvl a b, List.append_assoc]
  | .blockC x :: a, b => by simp only [List.cons_append, fmtDoc, fmtDoc_append lvl a b, List.append_assoc]

/-- the comment texts looked up in the two tables -/
def tauOf (L B : Tbl Str) (l : Bool) (i : Nat) : Str := ((if l then L else B).get? i).getD []

/-- the output with the comments in place is the writer's text for the document `docEs L B D` -/
theorem fmtT_doc (L B : Tbl Str) (hL : ∀ e ∈ L, ∃ x, e.2 = lineFull x) (hB : ∀ e ∈ B, ∃ x, e.2 = blockFull x) :
    ∀ (d lvl : Nat) (D : Entries), wshEs d D = true → phCov L B D = true →
    fmtT (tauOf L B) lvl D = fmtDoc lvl (docEs L B D)
  | _, _, [], _, _ => by simp [fmtT, docEs, fmtDoc]
  | d, lvl, (k, .dict es) :: r, hw, hc => by
    simp only [wshEs, Bool.and_eq_true] at hw
    simp only [phCov, Bool.and_eq_true] at hc
    simp only [fmtT, docEs, fmtDoc, fmtT_doc L B hL hB (d + 1) (lvl + 1) es hw.1.2 hc.1,
      fmtT_doc L B hL hB d lvl r hw.2 hc.2]
  | d, lvl, (k, .list xs) :: r, hw, hc => by
    simp only [wshEs, Bool.and_eq_true] at hw
    simp only [phCov] at hc
    simp only [fmtT, docEs, fmtDoc, fmtList_src (d + 1) lvl false xs hw.1.2, fmtT_doc L B hL hB d lvl r hw.2 hc]
  | d, lvl, (k, .leaf x) :: r, hw, hc => by
    simp only [wshEs, Bool.and_eq_true] at hw
    simp only [phCov, Bool.and_eq_true] at hc
    have ih := fmtT_doc L B hL hB d lvl r hw.2 hc.2
    cases hp : phOf k x with
    | none => simp only [fmtT, docEs, hp, fmtDoc, C01.writtenLit_text, ih]
    | some li =>
      obtain ⟨l, i⟩ := li
      rw [hp] at hc
      cases l with
      | true =>
        obtain ⟨t, ht⟩ := Option.isSome_iff_exists.mp hc.1
        obtain ⟨y, hy⟩ := hL _ (tbl_get_mem ht)
        simp only at hy
        subst hy
        simp only [fmtT, docEs, hp, fmtDoc, tauOf, if_true, ht, Option.getD_some, lineFull, lineBody_eq, ih]
      | false =>
        obtain ⟨t, ht⟩ := Option.isSome_iff_exists.mp hc.1
        obtain ⟨y, hy⟩ := hB _ (tbl_get_mem ht)
        simp only at hy
        subst hy
        simp only [fmtT, docEs, hp, fmtDoc, tauOf, Bool.false_eq_true, if_false, ht, Option.getD_some, blockFull,
          blockBody_eq, ih]

/-! ## 3. the written text as a function of the document: `fmtSD sd = rts (fmtDoc 0 (docSD sd))` -/

theorem get_blockTbl_isSome (B : Tbl Str) (j : Nat) : ((blockTbl B).get? j).isSome = (B.get? j).isSome := by
  cases B with
  | nil => rfl
  | cons e B =>
    obtain ⟨i, t⟩ := e
    simp only [blockTbl, Tbl.get?]
    split <;> rfl

/-- the text of a token after both insertion passes -/
theorem final_text {L B : Tbl Str} {t : XTok} (h : XOK L B t) :
    (substTokT true L (substTokT false (blockTbl B) t)).text = txOf (tauOf L (blockTbl B)) t := by
  cases t with
  | tok s => rfl
  | cmt l f => exact h.elim
  | ph l i pad =>
    cases l with
    | true =>
      obtain ⟨txt, ht⟩ := Option.isSome_iff_exists.mp h.2.2.2
      simp only [if_true] at ht
      simp [substTokT, ht, txOf, tauOf, XTok.text]
    | false =>
      have hs : ((blockTbl B).get? i).isSome = true := by
        rw [get_blockTbl_isSome]; simpa using h.2.2.2
      obtain ⟨txt, ht⟩ := Option.isSome_iff_exists.mp hs
      simp [substTokT, ht, txOf, tauOf, XTok.text]

theorem layX_map_text (f : XTok → XTok) (tx : XTok → Str) : ∀ (lay : List (Str × XTok)) (tail : Str),
    (∀ p ∈ lay, (f p.2).text = tx p.2) → layX (lay.map fun p => (p.1, f p.2)) tail = layG tx lay tail
  | [], _, _ => rfl
  | (g, t) :: lay, tail, h => by
    simp only [List.map_cons, layX, layG, h (g, t) List.mem_cons_self,
      layX_map_text f tx lay tail fun p hp => h p (List.mem_cons_of_mem _ hp)]

theorem fmtT_congr {τ τ' : Bool → Nat → Str} : ∀ (lvl : Nat) (D : Entries),
    (∀ l, ∀ i ∈ idsT l D, τ l i = τ' l i) → fmtT τ lvl D = fmtT τ' lvl D
  | _, [], _ => by simp [fmtT]
  | lvl, (k, .dict es) :: r, h => by
    simp only [fmtT, fmtT_congr (lvl + 1) es (fun l i hi => h l i (by simp [idsT, hi])),
      fmtT_congr lvl r (fun l i hi => h l i (by simp [idsT, hi]))]
  | lvl, (k, .list xs) :: r, h => by
    simp only [fmtT, fmtT_congr lvl r (fun l i hi => h l i (by simpa [idsT] using hi))]
  | lvl, (k, .leaf x) :: r, h => by
    have ih := fmtT_congr lvl r (fun l i hi => h l i (by simp [idsT, hi]))
    cases hp : phOf k x with
    | none => simp only [fmtT, hp, ih]
    | some li =>
      obtain ⟨l, i⟩ := li
      have := h l i (by simp [idsT, hp])
      simp only [fmtT, hp, ih, this]

theorem fline0 (x : Str) : fline 0 x = x ++ ['\n'] := by simp [fline, spaces]

theorem fmtDoc_hdr : fmtDoc 0 [.blockC C12.hdrBody] = nativeHeader := by
  have : blockFull C12.hdrBody = C12.hdrComment := C12.hdrComment_shape.symm
  simp only [fmtDoc, fline0, this, List.append_nil, C12.nativeHeader_split]

/-- **the written text is a function of the written document.**  For every SDict with `WOK sd` the writer's text is
    `remove_trailing_spaces` of the plain line-by-line text of `docSD sd`. -/
theorem fmtSD_explicit (sd : SD) (h : WOK sd) :
    fmtSD .native sd = some (removeTrailingSpaces (fmtDoc 0 (docSD sd))) := by
  rw [fmtSD_noIncl sd h.incl]
  congr 2
  have hxok := xtoks_ok sd.lineC sd.blockC 1 0 (hoistPlaceholders sd.data) h.shape h.cov
  have hLsh : ∀ e ∈ sd.lineC, ∃ x, e.2 = lineFull x := fun e he => by
    obtain ⟨x, hx, _⟩ := (h.lineT e he).2; exact ⟨x, hx⟩
  have hBsh : ∀ e ∈ sd.blockC, ∃ x, e.2 = blockFull x := fun e he => by
    obtain ⟨x, hx, _⟩ := (h.blockT e he).2; exact ⟨x, hx⟩
  have hdocT := fmtT_doc sd.lineC sd.blockC hLsh hBsh 1 0 (hoistPlaceholders sd.data) h.shape h.cov
  have hLfacts : ∀ e ∈ sd.lineC, e.1 ≤ 999999 ∧ NoPh e.2 := fun e he =>
    ⟨(h.lineT e he).1, by obtain ⟨_, _, _, _, hno⟩ := (h.lineT e he).2; exact hno⟩
  rw [docSD, fmtDoc_append, ← hdocT]
  rcases lays_entriesP (tauOf sd.lineC (blockTbl sd.blockC)) 1 0 (hoistPlaceholders sd.data) h.shape with
    ⟨hx, ha, hb⟩ | ⟨hne, lay, hm, hraw, hfin, ok, _⟩
  · -- the empty document
    have hB : sd.blockC = [] := by
      cases hBc : sd.blockC with
      | nil => rfl
      | cons e B' =>
        have := h.bPres e (by rw [hBc]; exact List.mem_cons_self)
        rw [hx] at this
        simp at this
    have hD : hoistPlaceholders sd.data = [] := xtoks_nil hx
    rw [ha, hB, C12.C12_header_default, hD]
    simp only [hdrItems, ownHeader, Bool.false_eq_true, if_false, fmtDoc_hdr, fmtT, List.append_nil]
    have hlay : nativeHeader = layX [([], XTok.cmt false C12.hdrComment)] ['\n'] := by
      simp [layX, XTok.text, C12.nativeHeader_split]
    rw [hlay, insertLine_layX sd.lineC _ .cov ['\n'] (by simp [okX, gapOK]) (by decide)
      (by
        intro p hp
        simp only [List.mem_singleton] at hp
        subst hp
        exact noPh_of_noComment hdr_noComment) hLfacts]
    simp [substTokT]
  · have hmem : ∀ p ∈ lay, XOK sd.lineC sd.blockC p.2 := fun p hp =>
      hxok p.2 (by rw [← hm]; exact List.mem_map_of_mem hp)
    have hfinal : layX ((lay.map fun p => (p.1, substTokT false (blockTbl sd.blockC) p.2)).map
        fun p => (p.1, substTokT true sd.lineC p.2)) ['\n'] =
        fmtT (tauOf sd.lineC (blockTbl sd.blockC)) 0 (hoistPlaceholders sd.data) := by
      rw [hfin, List.map_map]
      exact layX_map_text (fun t => substTokT true sd.lineC (substTokT false (blockTbl sd.blockC) t)) _ lay ['\n']
        (fun p hp => final_text (hmem p hp))
    cases hBc : sd.blockC with
    | nil =>
      -- no block comment: the default header in front
      rw [C12.C12_header_default, hraw]
      simp only [hdrItems, ownHeader, Bool.false_eq_true, if_false, fmtDoc_hdr]
      rw [hBc] at hfinal hmem
      simp only [blockTbl] at hfinal
      cases lay with
      | nil => exact absurd (by simpa using hm.symm) hne
      | cons p0 r0 =>
        obtain ⟨g0, t0⟩ := p0
        simp only [okX, Bool.and_eq_true] at ok
        have hlay : nativeHeader ++ layX ((g0, t0) :: r0) ['\n'] =
            layX (([], XTok.cmt false C12.hdrComment) :: ('\n' :: g0, t0) :: r0) ['\n'] := by
          simp [layX, XTok.text, C12.nativeHeader_split]
        have hinv : ∀ p ∈ (([] : Str), XTok.cmt false C12.hdrComment) :: ('\n' :: g0, t0) :: r0, TokInv p.2 := by
          intro p hp
          rcases List.mem_cons.mp hp with rfl | hp
          · exact noPh_of_noComment hdr_noComment
          · rcases List.mem_cons.mp hp with rfl | hp
            · exact tokInv_of_xok (hmem (g0, t0) List.mem_cons_self)
            · exact tokInv_of_xok (hmem p (List.mem_cons_of_mem _ hp))
        rw [hlay, insertLine_layX sd.lineC _ .cov ['\n']
          (by
            simp only [okX, Bool.and_eq_true, gapOK_nl, and_true]
            refine ⟨⟨rfl, rfl⟩, ⟨?_, ok.2⟩⟩
            simp only [List.all_cons, Bool.and_eq_true]
            exact ⟨by decide, ok.1.1⟩) (by decide) hinv hLfacts]
        have emap : (List.map (fun p => (p.1, substTokT false [] p.2)) ((g0, t0) :: r0)) = (g0, t0) :: r0 := by
          simp [substTokT_nil]
        rw [emap] at hfinal
        rw [← hfinal]
        have ec : substTokT true sd.lineC (.cmt false C12.hdrComment) = .cmt false C12.hdrComment := rfl
        simp only [List.map_cons, layX, ec, XTok.text, C12.nativeHeader_split, List.nil_append, List.append_assoc,
          List.cons_append]
    | cons e B' =>
      obtain ⟨i0, t0'⟩ := e
      have hfirst := h.first
      rw [hBc] at hfirst hmem hfinal
      obtain ⟨pad, rx, hxs, huniq⟩ := hfirst
      have hpres : ∀ e' ∈ (i0, t0') :: B', e'.1 ≤ 999999 ∧ NoPh e'.2 ∧ (lay.any fun p => isPhX false e'.1 p.2) = true := by
        intro e' he'
        have h1 := h.blockT e' (by rw [hBc]; exact he')
        obtain ⟨_, _, _, _, _, hno⟩ := h1.2
        refine ⟨h1.1, hno, ?_⟩
        rw [any_map_snd, hm]
        exact h.bPres e' (by rw [hBc]; exact he')
      have hhdr : NoPh (makeDefaultBlockComment .native t0') := by
        obtain ⟨_, _, _, _, _, hno⟩ := (h.blockT (i0, t0') (by rw [hBc]; exact List.mem_cons_self)).2
        rw [C12.makeDefault_native]
        split
        · exact hno
        · exact noPh_hdr_append hno
      have hinv : ∀ p ∈ lay, TokInv p.2 := fun p hp => tokInv_of_xok (hmem p hp)
      have hins := insertBlock_layX (i0, t0') B' lay .cov ['\n'] ok (by decide) hinv hpres hhdr
        (by rw [← hBc]; exact h.bNodup) (by rw [← hBc]; exact h.indep)
      rw [hraw, hins]
      -- the tokens after the block pass
      have hinv1 : ∀ p ∈ lay.map (fun p => (p.1, substTokT false (blockTbl ((i0, t0') :: B')) p.2)), TokInv p.2 := by
        intro p hp
        obtain ⟨q, hq, rfl⟩ := List.mem_map.mp hp
        have hx := hmem q hq
        cases hq2 : q.2 with
        | tok s => rw [hq2] at hx; exact tokInv_of_xok hx
        | cmt l f => rw [hq2] at hx; exact hx.elim
        | ph l i pad' =>
          rw [hq2] at hx
          cases l with
          | true => simp only [substTokT, Bool.true_eq_false, if_false]; exact ⟨hx.1, hx.2.1, hx.2.2.1⟩
          | false =>
            have hs : ((blockTbl ((i0, t0') :: B')).get? i).isSome = true := by
              rw [get_blockTbl_isSome]; simpa using hx.2.2.2
            obtain ⟨txt, ht⟩ := Option.isSome_iff_exists.mp hs
            simp only [substTokT, if_true, ht]
            have hmemT := tbl_get_mem ht
            simp only [blockTbl, List.mem_cons] at hmemT
            rcases hmemT with e | hmB
            · cases e; exact hhdr
            · obtain ⟨_, _, _, _, _, hno⟩ := (h.blockT (i, txt) (by rw [hBc]; exact List.mem_cons_of_mem _ hmB)).2
              exact hno
      rw [insertLine_layX sd.lineC _ .cov ['\n'] (by rw [okX_mapT]; exact ok) (by decide) hinv1 hLfacts, hfinal]
      -- the header
      by_cases hcpp : containsCpp t0' = true
      · have hB0 : blockTbl ((i0, t0') :: B') = (i0, t0') :: B' := by
          simp only [blockTbl, C12.makeDefault_native, hcpp, if_true]
        simp only [hdrItems, ownHeader, hcpp, if_true, fmtDoc, List.nil_append, hB0]
      · simp only [hdrItems, ownHeader, hcpp, Bool.false_eq_true, if_false, fmtDoc_hdr]
        -- the first entry of the hoisted top level is the placeholder entry of the first block comment
        cases hD : hoistPlaceholders sd.data with
        | nil => rw [hD] at hxs; simp [xtoksEs] at hxs
        | cons e0 R =>
          obtain ⟨k, v⟩ := e0
          have hw := h.shape
          rw [hD] at hxs hw
          cases v with
          | dict es => simp [xtoksEs] at hxs
          | list xs => simp [xtoksEs] at hxs
          | leaf x =>
            simp only [wshEs, Bool.and_eq_true] at hw
            cases hp : phOf k x with
            | none => simp [xtoksEs, hp] at hxs
            | some li =>
              obtain ⟨l, i⟩ := li
              simp only [xtoksEs, hp, List.singleton_append, List.cons.injEq, XTok.ph.injEq] at hxs
              obtain ⟨⟨rfl, rfl, _⟩, hrx⟩ := hxs
              have hnot : i ∉ idsT false R := by
                rw [← bIds_xtoks 1 0 R hw.2, hrx]
                intro hm'
                obtain ⟨pad', hp'⟩ := mem_bIds.mp hm'
                have := huniq _ hp'
                simp [isPhX] at this
              have hcg : fmtT (tauOf sd.lineC (blockTbl ((i, t0') :: B'))) 0 R =
                  fmtT (tauOf sd.lineC ((i, t0') :: B')) 0 R := by
                apply fmtT_congr
                intro l j hj
                cases l with
                | true => rfl
                | false =>
                  have hne' : ¬ i = j := fun e => hnot (e ▸ hj)
                  simp [tauOf, blockTbl, Tbl.get?, hne']
              simp only [fmtT, hp, hcg, fline0]
              simp [tauOf, blockTbl, Tbl.get?, C12.makeDefault_native, hcpp]

/-- **the text written for a commented document** is a function of `writtenDoc2 items` alone (not of the ids drawn) -/
theorem written_text {c : Counter} {items : List CItem} (H : HW2 c items) :
    fmtSD .native (denC c items) = some (removeTrailingSpaces (fmtDoc 0 (writtenDoc2 items))) := by
  obtain ⟨hwok, hdoc⟩ := sdOf2_facts H
  rw [denC_closed2 H.toHDoc2, fmtSD_explicit _ hwok, hdoc]

/-! ## 4. the canonical document is a fixed point of the canonicalisation -/

theorem keyOfStr_keyStr {k : Key} (h : isDomKey k = true) : keyOfStr (keyStr k) = k := by
  simp [keyOfStr, C01.domKey_types_back h]

mutual
  theorem cnorm_idemV : ∀ (v : CSrc) (d : Nat), CSrcWFV d v = true → okV d v = true → cnormV (cnormV v) = cnormV v
    | .lit l, d, hwf, hok => by
      simp only [CSrcWFV, okV, Bool.and_eq_true] at hwf hok
      simp only [cnormV, C01.den_writtenLit hok.1, C03.normScalar_den hwf.1]
    | .list xs, d, hwf, hok => by
      simp only [CSrcWFV, okV] at hwf hok
      simp only [cnormV, C01.den_srcOfXs (d + 1) _ hok, C03.norm_denXs (d + 1) xs hwf]
    | .dict items, d, hwf, hok => by
      simp only [CSrcWFV, okV] at hwf hok
      simp only [cnormV, cnorm_idemI items (d + 1) hwf hok]
  /-- respelling twice is respelling once: what the reader returns is already typed -/
  theorem cnorm_idemI : ∀ (items : List CItem) (d : Nat), CSrcWFItems d items = true → okI d items = true →
      cnormI (cnormI items) = cnormI items
    | [], _, _, _ => by simp only [cnormI]
    | .entry k v :: r, d, hwf, hok => by
      simp only [CSrcWFItems, okI, Bool.and_eq_true] at hwf hok
      simp only [cnormI, keyOfStr_keyStr hok.1.1, cnorm_idemV v d hwf.1.2 hok.1.2, cnorm_idemI r d hwf.2 hok.2]
    | .lineC x :: r, d, hwf, hok => by
      simp only [CSrcWFItems, okI, Bool.and_eq_true] at hwf hok
      simp only [cnormI, cnorm_idemI r d hwf.2 hok.2]
    | .blockC x :: r, d, hwf, hok => by
      simp only [CSrcWFItems, okI, Bool.and_eq_true] at hwf hok
      simp only [cnormI, cnorm_idemI r d hwf.2 hok.2]
end

theorem cnormI_append : ∀ (a b : List CItem), cnormI (a ++ b) = cnormI a ++ cnormI b
  | [], b => by simp [cnormI]
  | .entry k v :: a, b => by simp only [List.cons_append, cnormI, cnormI_append a b]
  | .lineC x :: a, b => by simp only [List.cons_append, cnormI, cnormI_append a b]
  | .blockC x :: a, b => by simp only [List.cons_append, cnormI, cnormI_append a b]

theorem isBlock_entry (k : Str) (v : CSrc) : isBlockItem (.entry k v) = false := rfl
theorem isBlock_line (x : Str) : isBlockItem (.lineC x) = false := rfl
theorem isBlock_block (x : Str) : isBlockItem (.blockC x) = true := rfl

theorem cnormI_filter_block : ∀ (a : List CItem),
    cnormI (a.filter isBlockItem) = (cnormI a).filter isBlockItem ∧
    cnormI (a.filter fun it => !isBlockItem it) = (cnormI a).filter fun it => !isBlockItem it
  | [] => by simp [cnormI]
  | .entry k v :: a => by
    obtain ⟨h1, h2⟩ := cnormI_filter_block a
    simp only [List.filter_cons, isBlock_entry, Bool.false_eq_true, if_false, Bool.not_false, if_true, cnormI, h1, h2]
    exact ⟨trivial, trivial⟩
  | .lineC x :: a => by
    obtain ⟨h1, h2⟩ := cnormI_filter_block a
    simp only [List.filter_cons, isBlock_line, Bool.false_eq_true, if_false, Bool.not_false, if_true, cnormI, h1, h2]
    exact ⟨trivial, trivial⟩
  | .blockC x :: a => by
    obtain ⟨h1, h2⟩ := cnormI_filter_block a
    simp only [List.filter_cons, isBlock_block, Bool.false_eq_true, if_false, Bool.not_true, if_true, cnormI, h1, h2]
    exact ⟨trivial, trivial⟩

/-! ### no comment twice at one level -/

def levelNR (items : List CItem) : Prop := (lvlLines items).Nodup ∧ (lvlBlocks items).Nodup

mutual
  def vNR : CSrc → Prop
    | .dict items => levelNR items ∧ subsNR items
    | .lit _ => True
    | .list _ => True
  /-- no level below repeats a comment -/
  def subsNR : List CItem → Prop
    | [] => True
    | .entry _ v :: r => vNR v ∧ subsNR r
    | .lineC _ :: r => subsNR r
    | .blockC _ :: r => subsNR r
end

theorem nubFrom_facts : ∀ (l seen : List Str), (nubFrom seen l).Nodup ∧ ∀ y ∈ nubFrom seen l, y ∉ seen ∧ y ∈ l
  | [], _ => by simp [nubFrom]
  | x :: r, seen => by
    simp only [nubFrom]
    split
    · obtain ⟨h1, h2⟩ := nubFrom_facts r seen
      exact ⟨h1, fun y hy => ⟨(h2 y hy).1, List.mem_cons_of_mem _ (h2 y hy).2⟩⟩
    · next hc =>
      obtain ⟨h1, h2⟩ := nubFrom_facts r (seen ++ [x])
      have hx : x ∉ seen := fun hm => hc (List.contains_iff_mem.mpr hm)
      refine ⟨List.nodup_cons.mpr ⟨fun hm => (h2 x hm).1 (by simp), h1⟩, ?_⟩
      intro y hy
      rcases List.mem_cons.mp hy with rfl | hy
      · exact ⟨hx, List.mem_cons_self⟩
      · exact ⟨fun hm => (h2 y hy).1 (by simp [hm]), List.mem_cons_of_mem _ (h2 y hy).2⟩

mutual
  theorem dedup_fixV : ∀ (v : CSrc), vNR v → dedupV v = v
    | .lit l, _ => by simp only [dedupV]
    | .list xs, _ => by simp only [dedupV]
    | .dict items, h => by
      simp only [vNR, levelNR] at h
      simp only [dedupV, dedup_fixI items [] [] (by simp) h.1.1 (by simp) h.1.2 h.2]
  /-- a document without repetitions is left alone -/
  theorem dedup_fixI : ∀ (items : List CItem) (sl sb : List Str), (∀ x ∈ lvlLines items, x ∉ sl) →
      (lvlLines items).Nodup → (∀ x ∈ lvlBlocks items, x ∉ sb) → (lvlBlocks items).Nodup → subsNR items →
      dedupLvl sl sb items = items
    | [], _, _, _, _, _, _, _ => by simp only [dedupLvl]
    | .entry k v :: r, sl, sb, h1, h2, h3, h4, h5 => by
      simp only [lvlLines, lvlBlocks] at h1 h2 h3 h4
      simp only [subsNR] at h5
      simp only [dedupLvl, dedup_fixV v h5.1, dedup_fixI r sl sb h1 h2 h3 h4 h5.2]
    | .lineC x :: r, sl, sb, h1, h2, h3, h4, h5 => by
      simp only [lvlLines, List.mem_cons, List.nodup_cons] at h1 h2
      simp only [lvlBlocks] at h3 h4
      simp only [subsNR] at h5
      have hx : sl.contains x = false := by
        cases hc : sl.contains x with
        | false => rfl
        | true => exact absurd (List.contains_iff_mem.mp hc) (h1 x (Or.inl rfl))
      simp only [dedupLvl, hx, Bool.false_eq_true, if_false]
      rw [dedup_fixI r (sl ++ [x]) sb (by
        intro y hy hm
        rcases List.mem_append.mp hm with hm | hm
        · exact h1 y (Or.inr hy) hm
        · simp only [List.mem_singleton] at hm; subst hm; exact h2.1 hy) h2.2 h3 h4 h5]
    | .blockC x :: r, sl, sb, h1, h2, h3, h4, h5 => by
      simp only [lvlBlocks, List.mem_cons, List.nodup_cons] at h3 h4
      simp only [lvlLines] at h1 h2
      simp only [subsNR] at h5
      have hx : sb.contains x = false := by
        cases hc : sb.contains x with
        | false => rfl
        | true => exact absurd (List.contains_iff_mem.mp hc) (h3 x (Or.inl rfl))
      simp only [dedupLvl, hx, Bool.false_eq_true, if_false]
      rw [dedup_fixI r sl (sb ++ [x]) h1 h2 (by
        intro y hy hm
        rcases List.mem_append.mp hm with hm | hm
        · exact h3 y (Or.inr hy) hm
        · simp only [List.mem_singleton] at hm; subst hm; exact h4.1 hy) h4.2 h5]
end

mutual
  theorem dedup_nrV : ∀ (v : CSrc), vNR (dedupV v)
    | .lit l => by simp only [dedupV, vNR]
    | .list xs => by simp only [dedupV, vNR]
    | .dict items => by
      simp only [dedupV, vNR, levelNR]
      obtain ⟨a, b, _⟩ := lvl_dedup items [] []
      rw [a, b]
      exact ⟨⟨(nubFrom_facts _ []).1, (nubFrom_facts _ []).1⟩, dedup_nrI items [] []⟩
  /-- what is left after the removal has no repetition below any level -/
  theorem dedup_nrI : ∀ (items : List CItem) (sl sb : List Str), subsNR (dedupLvl sl sb items)
    | [], _, _ => by simp only [dedupLvl, subsNR]
    | .entry k v :: r, sl, sb => by
      simp only [dedupLvl, subsNR]
      exact ⟨dedup_nrV v, dedup_nrI r sl sb⟩
    | .lineC x :: r, sl, sb => by
      simp only [dedupLvl]
      split
      · exact dedup_nrI r sl sb
      · simp only [subsNR]; exact dedup_nrI r _ sb
    | .blockC x :: r, sl, sb => by
      simp only [dedupLvl]
      split
      · exact dedup_nrI r sl sb
      · simp only [subsNR]; exact dedup_nrI r sl _
end

theorem lvl_cnorm : ∀ (items : List CItem), lvlLines (cnormI items) = lvlLines items ∧
    lvlBlocks (cnormI items) = lvlBlocks items
  | [] => by simp [cnormI]
  | .entry k v :: r => by simp only [cnormI, lvlLines, lvlBlocks, lvl_cnorm r]; exact ⟨trivial, trivial⟩
  | .lineC x :: r => by simp only [cnormI, lvlLines, lvlBlocks, lvl_cnorm r]; exact ⟨trivial, trivial⟩
  | .blockC x :: r => by simp only [cnormI, lvlLines, lvlBlocks, lvl_cnorm r]; exact ⟨trivial, trivial⟩

mutual
  theorem cnorm_nrV : ∀ (v : CSrc), vNR v → vNR (cnormV v)
    | .lit l, _ => by simp only [cnormV, vNR]
    | .list xs, _ => by simp only [cnormV, vNR]
    | .dict items, h => by
      simp only [vNR, levelNR] at h
      simp only [cnormV, vNR, levelNR, lvl_cnorm items]
      exact ⟨h.1, cnorm_nrI items h.2⟩
  theorem cnorm_nrI : ∀ (items : List CItem), subsNR items → subsNR (cnormI items)
    | [], _ => by simp only [cnormI, subsNR]
    | .entry k v :: r, h => by
      simp only [subsNR] at h
      simp only [cnormI, subsNR]
      exact ⟨cnorm_nrV v h.1, cnorm_nrI r h.2⟩
    | .lineC x :: r, h => by
      simp only [subsNR] at h
      simp only [cnormI, subsNR]
      exact cnorm_nrI r h
    | .blockC x :: r, h => by
      simp only [subsNR] at h
      simp only [cnormI, subsNR]
      exact cnorm_nrI r h
end

theorem lvl_append : ∀ (a b : List CItem), lvlLines (a ++ b) = lvlLines a ++ lvlLines b ∧
    lvlBlocks (a ++ b) = lvlBlocks a ++ lvlBlocks b
  | [], b => by simp [lvlLines, lvlBlocks]
  | .entry k v :: a, b => by simp only [List.cons_append, lvlLines, lvlBlocks, lvl_append a b]; exact ⟨trivial, trivial⟩
  | .lineC x :: a, b => by simp only [List.cons_append, lvlLines, lvlBlocks, lvl_append a b, List.cons_append]; exact ⟨trivial, trivial⟩
  | .blockC x :: a, b => by simp only [List.cons_append, lvlLines, lvlBlocks, lvl_append a b, List.cons_append]; exact ⟨trivial, trivial⟩

theorem lvl_filter : ∀ (a : List CItem),
    lvlLines (a.filter isBlockItem) = [] ∧ lvlBlocks (a.filter isBlockItem) = lvlBlocks a ∧
    lvlLines (a.filter fun it => !isBlockItem it) = lvlLines a ∧ lvlBlocks (a.filter fun it => !isBlockItem it) = []
  | [] => by simp [lvlLines, lvlBlocks]
  | .entry k v :: a => by
    obtain ⟨h1, h2, h3, h4⟩ := lvl_filter a
    simp only [List.filter_cons, isBlock_entry, Bool.false_eq_true, if_false, Bool.not_false, if_true, lvlLines,
      lvlBlocks, h1, h2, h3, h4]
    exact ⟨trivial, trivial, trivial, trivial⟩
  | .lineC x :: a => by
    obtain ⟨h1, h2, h3, h4⟩ := lvl_filter a
    simp only [List.filter_cons, isBlock_line, Bool.false_eq_true, if_false, Bool.not_false, if_true, lvlLines,
      lvlBlocks, h1, h2, h3, h4]
    exact ⟨trivial, trivial, trivial, trivial⟩
  | .blockC x :: a => by
    obtain ⟨h1, h2, h3, h4⟩ := lvl_filter a
    simp only [List.filter_cons, isBlock_block, Bool.false_eq_true, if_false, Bool.not_true, if_true, lvlLines,
      lvlBlocks, h1, h2, h3, h4]
    exact ⟨trivial, trivial, trivial, trivial⟩

theorem subsNR_append : ∀ (a b : List CItem), subsNR a → subsNR b → subsNR (a ++ b)
  | [], b, _, hb => by simpa using hb
  | .entry k v :: a, b, ha, hb => by
    simp only [subsNR] at ha
    simp only [List.cons_append, subsNR]
    exact ⟨ha.1, subsNR_append a b ha.2 hb⟩
  | .lineC x :: a, b, ha, hb => by
    simp only [subsNR] at ha
    simp only [List.cons_append, subsNR]
    exact subsNR_append a b ha hb
  | .blockC x :: a, b, ha, hb => by
    simp only [subsNR] at ha
    simp only [List.cons_append, subsNR]
    exact subsNR_append a b ha hb

theorem subsNR_filter (p : CItem → Bool) : ∀ (a : List CItem), subsNR a → subsNR (a.filter p)
  | [], _ => by simp [subsNR]
  | .entry k v :: a, h => by
    simp only [subsNR] at h
    simp only [List.filter_cons]
    split
    · simp only [subsNR]; exact ⟨h.1, subsNR_filter p a h.2⟩
    · exact subsNR_filter p a h.2
  | .lineC x :: a, h => by
    simp only [subsNR] at h
    simp only [List.filter_cons]
    split
    · simp only [subsNR]; exact subsNR_filter p a h
    · exact subsNR_filter p a h
  | .blockC x :: a, h => by
    simp only [subsNR] at h
    simp only [List.filter_cons]
    split
    · simp only [subsNR]; exact subsNR_filter p a h
    · exact subsNR_filter p a h

/-! ### the first block comment; the default header is no comment of the document -/

mutual
  theorem blockHead_dedupV : ∀ (v : CSrc), (blockFullsV (dedupV v)).head? = (blockFullsV v).head?
    | .lit l => by simp only [dedupV]
    | .list xs => by simp only [dedupV]
    | .dict items => by simp only [dedupV, blockFullsV, blockHead_dedupI items []]
  /-- the first block comment of the document is never a repetition -/
  theorem blockHead_dedupI : ∀ (items : List CItem) (sl : List Str),
      (blockFullsI (dedupLvl sl [] items)).head? = (blockFullsI items).head?
    | [], _ => by simp only [dedupLvl]
    | .entry k v :: r, sl => by
      simp only [dedupLvl, blockFullsI, List.head?_append, blockHead_dedupV v, blockHead_dedupI r sl]
    | .lineC x :: r, sl => by
      simp only [dedupLvl]
      split
      · simp only [blockFullsI, blockHead_dedupI r sl]
      · simp only [blockFullsI, blockHead_dedupI r _]
    | .blockC x :: r, sl => by
      simp only [dedupLvl, List.contains_nil, Bool.false_eq_true, if_false, blockFullsI, List.head?_cons]
end

theorem firstTop_head : ∀ (items : List CItem), firstBlockTop items = true →
    (blockFullsI items).head? = (lvlBlocks items).head?.map blockFull
  | [], _ => by simp [blockFullsI, lvlBlocks]
  | .blockC x :: r, _ => by simp [blockFullsI, lvlBlocks, blockFull]
  | .lineC x :: r, h => by
    simp only [firstBlockTop] at h
    simp only [blockFullsI, lvlBlocks, firstTop_head r h]
  | .entry k v :: r, h => by
    simp only [firstBlockTop, Bool.and_eq_true, List.isEmpty_iff] at h
    simp only [blockFullsI, lvlBlocks, h.1, List.nil_append, firstTop_head r h.2]

theorem nubFrom_head (l : List Str) : (nubFrom [] l).head? = l.head? := by
  cases l with
  | nil => rfl
  | cons x r => simp [nubFrom]

theorem blockFullsI_append : ∀ (a b : List CItem), blockFullsI (a ++ b) = blockFullsI a ++ blockFullsI b
  | [], b => by simp [blockFullsI]
  | .entry k v :: a, b => by simp only [List.cons_append, blockFullsI, blockFullsI_append a b, List.append_assoc]
  | .lineC x :: a, b => by simp only [List.cons_append, blockFullsI, blockFullsI_append a b]
  | .blockC x :: a, b => by simp only [List.cons_append, blockFullsI, blockFullsI_append a b, List.cons_append]

theorem blockFulls_filterB : ∀ (a : List CItem), blockFullsI (a.filter isBlockItem) = (lvlBlocks a).map blockFull
  | [] => by simp [blockFullsI, lvlBlocks]
  | .entry k v :: a => by
    simp only [List.filter_cons, isBlock_entry, Bool.false_eq_true, if_false, lvlBlocks, blockFulls_filterB a]
  | .lineC x :: a => by
    simp only [List.filter_cons, isBlock_line, Bool.false_eq_true, if_false, lvlBlocks, blockFulls_filterB a]
  | .blockC x :: a => by
    simp only [List.filter_cons, isBlock_block, if_true, blockFullsI, lvlBlocks, List.map_cons, blockFulls_filterB a,
      blockFull]

theorem mem_blockFulls : ∀ (items : List CItem) (x : Str), x ∈ lvlBlocks items → blockFull x ∈ blockFullsI items
  | [], x, h => by simp [lvlBlocks] at h
  | .entry k v :: r, x, h => by
    simp only [lvlBlocks] at h
    simp only [blockFullsI, List.mem_append]
    exact Or.inr (mem_blockFulls r x h)
  | .lineC y :: r, x, h => by
    simp only [lvlBlocks] at h
    simp only [blockFullsI]
    exact mem_blockFulls r x h
  | .blockC y :: r, x, h => by
    simp only [lvlBlocks, List.mem_cons] at h
    simp only [blockFullsI, List.mem_cons]
    rcases h with rfl | h
    · exact Or.inl rfl
    · exact Or.inr (mem_blockFulls r x h)

theorem indep_notInfix : ∀ (l : List Str) (s : Str), indepFrom s l = true → ∀ t ∈ l, isInfix t s = false
  | [], _, _, t, ht => by cases ht
  | t0 :: r, s, h, t, ht => by
    simp only [indepFrom, Bool.and_eq_true, Bool.not_eq_true'] at h
    rcases List.mem_cons.mp ht with rfl | ht
    · exact h.1
    · have := indep_notInfix r (s ++ t0) h.2 t ht
      cases hc : isInfix t s with
      | false => rfl
      | true =>
        obtain ⟨a, b, e⟩ := C01.isInfix_iff.mp hc
        have : isInfix t (s ++ t0) = true := C01.isInfix_iff.mpr ⟨a, b ++ t0, by rw [e]; simp⟩
        simp_all

section
variable {c : Counter} {items : List CItem} (H : HW2 c items)
include H

/-- the default header is not among the block comments of the document that has no header of its own -/
theorem hdr_fresh (hown : ownHeaderI items = false) : C12.hdrBody ∉ lvlBlocks (cnormI (dedupI items)) := by
  intro hm
  rw [(lvl_cnorm _).2] at hm
  have hin := mem_blockFulls _ _ hm
  have hhd : (blockFullsI (dedupI items)).head? = (blockFullsI items).head? := blockHead_dedupI items []
  have hindep := H.indep
  cases hb : blockFullsI (dedupI items) with
  | nil => rw [hb] at hin; cases hin
  | cons t rest =>
    rw [hb] at hhd hin
    simp only [writtenBlocks, hb] at hindep
    have ht : containsCpp t = false := by
      simp only [ownHeaderI] at hown
      cases hbi : blockFullsI items with
      | nil => rw [hbi] at hhd; simp at hhd
      | cons t' r' =>
        rw [hbi] at hhd hown
        simp only [List.head?_cons, Option.some.injEq] at hhd
        rw [hhd]; exact hown
    have hne : blockFull C12.hdrBody ≠ t := by
      intro e
      rw [← e, show blockFull C12.hdrBody = C12.hdrComment from C12.hdrComment_shape.symm, C12.hdrComment_cpp] at ht
      cases ht
    have hrest : blockFull C12.hdrBody ∈ rest := by
      rcases List.mem_cons.mp hin with e | h
      · exact absurd e hne
      · exact h
    simp only [indepFrom, Bool.and_eq_true, Bool.not_eq_true'] at hindep
    have := indep_notInfix rest _ hindep.2 _ hrest
    rw [C12.makeDefault_native, ht] at this
    simp only [Bool.false_eq_true, if_false, List.nil_append] at this
    have hinf : isInfix (blockFull C12.hdrBody) (nativeHeader ++ t) = true := by
      rw [show blockFull C12.hdrBody = C12.hdrComment from C12.hdrComment_shape.symm, C12.nativeHeader_split]
      exact C01.isInfix_iff.mpr ⟨[], ['\n'] ++ t, by simp⟩
    rw [hinf] at this
    cases this

/-- the written document has a header of its own -/
theorem written_own : ownHeaderI (writtenDoc2 items) = true := by
  cases hown : ownHeaderI items with
  | false =>
    have e : blockFullsI (writtenDoc2 items) = C12.hdrComment :: blockFullsI (canonItems (dedupI items)) := by
      simp only [writtenDoc2, hown, Bool.false_eq_true, if_false, List.singleton_append, blockFullsI]
      rw [show ('/' :: '*' :: C12.hdrBody ++ ['*', '/']) = C12.hdrComment from C12.hdrComment_shape.symm]
    simp only [ownHeaderI, e]
    exact C12.hdrComment_cpp
  | true =>
    have hown0 := hown
    simp only [ownHeaderI] at hown
    cases hbi : blockFullsI items with
    | nil => rw [hbi] at hown; cases hown
    | cons t0 r0 =>
      rw [hbi] at hown
      have h1 := firstTop_head items H.first
      rw [hbi] at h1
      simp only [List.head?_cons] at h1
      cases hlb : lvlBlocks items with
      | nil => rw [hlb] at h1; simp at h1
      | cons x0 rb =>
        rw [hlb] at h1
        simp only [List.head?_cons, Option.map_some, Option.some.injEq] at h1
        have hN : (lvlBlocks (cnormI (dedupI items))).head? = some x0 := by
          rw [(lvl_cnorm _).2, show dedupI items = dedupLvl [] [] items from rfl, (lvl_dedup items [] []).2.1, nubFrom_head,
            hlb]
          rfl
        cases hl : lvlBlocks (cnormI (dedupI items)) with
        | nil => rw [hl] at hN; simp at hN
        | cons y ys =>
          rw [hl] at hN
          simp only [List.head?_cons, Option.some.injEq] at hN
          subst hN
          have e : blockFullsI (writtenDoc2 items) = t0 :: (ys.map blockFull ++
              blockFullsI ((cnormI (dedupI items)).filter fun it => !isBlockItem it)) := by
            simp only [writtenDoc2, hown0, if_true, List.nil_append, canonItems, blockFullsI_append, blockFulls_filterB, hl,
              List.map_cons, List.cons_append, h1]
          simp only [ownHeaderI, e]
          exact hown

/-- the written document repeats no comment -/
theorem written_dedup : dedupI (writtenDoc2 items) = writtenDoc2 items := by
  obtain ⟨hl1, hl2, hl3, hl4⟩ := lvl_filter (cnormI (dedupI items))
  have hnubL := nubFrom_facts (lvlLines items) []
  have hnubB := nubFrom_facts (lvlBlocks items) []
  have hLN : (lvlLines (cnormI (dedupI items))).Nodup := by
    rw [(lvl_cnorm _).1, show dedupI items = dedupLvl [] [] items from rfl, (lvl_dedup items [] []).1]; exact hnubL.1
  have hBN : (lvlBlocks (cnormI (dedupI items))).Nodup := by
    rw [(lvl_cnorm _).2, show dedupI items = dedupLvl [] [] items from rfl, (lvl_dedup items [] []).2.1]; exact hnubB.1
  have hsub : subsNR (cnormI (dedupI items)) := cnorm_nrI _ (dedup_nrI items [] [])
  apply dedup_fixI _ [] [] (by simp) _ (by simp)
  · -- block comments
    simp only [writtenDoc2, canonItems, (lvl_append _ _).2, hl2, hl4, List.append_nil]
    split
    · simpa [lvlBlocks] using hBN
    · next hown =>
      simp only [lvlBlocks, List.singleton_append, List.nodup_cons]
      exact ⟨hdr_fresh H (by simpa using hown), hBN⟩
  · -- sub-levels
    simp only [writtenDoc2, canonItems]
    apply subsNR_append
    · split <;> simp [subsNR]
    · exact subsNR_append _ _ (subsNR_filter _ _ hsub) (subsNR_filter _ _ hsub)
  · -- line comments
    simp only [writtenDoc2, canonItems, (lvl_append _ _).1, hl1, hl3, List.nil_append]
    split
    · simpa [lvlLines] using hLN
    · simpa [lvlLines] using hLN

/-- … and is spelled as the writer spells it -/
theorem written_cnorm : cnormI (writtenDoc2 items) = writtenDoc2 items := by
  have hwfd := wf_dedupI items 1 [] [] H.wf
  have hokd := ok_dedupI items 1 [] [] H.ok
  have hNN : cnormI (cnormI (dedupI items)) = cnormI (dedupI items) := cnorm_idemI _ 1 hwfd hokd
  simp only [writtenDoc2, canonItems, cnormI_append, (cnormI_filter_block _).1, (cnormI_filter_block _).2, hNN]
  split <;> simp [cnormI]

/-- **the canonical document is a fixed point**: canonicalising it again changes nothing -/
theorem writtenDoc2_idem : writtenDoc2 (writtenDoc2 items) = writtenDoc2 items := by
  obtain ⟨ht1, ht2⟩ := writtenDoc2_top items
  rw [writtenDoc2, written_own H, if_pos rfl, List.nil_append, written_dedup H, canonItems, written_cnorm H, ht1, ht2]
  simp only [writtenDoc2, canonItems, List.append_assoc]

end

/-! ## 5. C03 for commented documents -/

/-- the text every cycle writes -/
def cycText (items : List CItem) : Str := removeTrailingSpaces (fmtDoc 0 (writtenDoc2 items))

theorem hw2_counter {c c' : Counter} {items : List CItem} (H : HW2 c items) (hc : C13.ValidCounter Gen.counterLimit c') :
    HW2 c' items :=
  ⟨⟨H.wf, H.ok, H.keys, H.keysAll, H.nLine, H.nBlock, hc⟩, H.first, H.indep⟩

/-- **C03, second write.**  The text written for the re-read SDict `denC c₂ (writtenDoc2 items)` is, byte for byte,
    the text written for the first read `denC c items`: both are `cycText items`, a function of the canonical document.
    `H₂` are the writer hypotheses for the canonical document; they do not follow from `H` (`second_write_needs_indep`). -/
theorem C03_commented_second_write {c c₂ : Counter} {items : List CItem} (H : HW2 c items)
    (H₂ : HW2 c₂ (writtenDoc2 items)) :
    fmtSD .native (denC c items) = some (cycText items) ∧
    fmtSD .native (denC c₂ (writtenDoc2 items)) = some (cycText items) := by
  refine ⟨written_text H, ?_⟩
  rw [written_text H₂, writtenDoc2_idem H]
  rfl

/-- reading the text a cycle writes: the meaning of the canonical document, the counter valid afterwards -/
theorem read_cycText {c c₂ : Counter} {items : List CItem} (dir : Str) (H : HW2 c items)
    (hc₂ : C13.ValidCounter Gen.counterLimit c₂)
    (hn : C02.countQuotedEs (plainItems (writtenDoc2 items)) ≤ Gen.counterLimit + 1)
    (hd : C02.DocKeysAbsent (plainItems (writtenDoc2 items))) :
    ∃ c', C13.ValidCounter Gen.counterLimit c' ∧
      parseNative true dir c₂ (cycText items) = .ok (denC c₂ (writtenDoc2 items), c') := by
  obtain ⟨gaps, hw, hg⟩ := C12_write_commented2 H
  rw [written_text H] at hw
  have htxt : cycText items = spreadC (ctoksItems (writtenDoc2 items)) ([] :: gaps) ['\n'] := Option.some.inj hw
  have hread := C12.C12_read_commented dir c₂ (writtenDoc2_wf H) hg (fun _ => by decide) hc₂ hn hd
  refine ⟨C02.adv Gen.counterLimit (C02.countQuotedEs (plainItems (writtenDoc2 items)))
      (labelCItems { counter := c₂ } (writtenDoc2 items)).1.counter,
    C02.adv_valid _ (C12.counter_labelI (writtenDoc2 items) { counter := c₂ } hc₂), ?_⟩
  rw [htxt]
  cases hct : ctoksItems (writtenDoc2 items) with
  | nil =>
    have e0 : ∀ g : List Str, spreadC [] g ['\n'] = ['\n'] := fun g => rfl
    rw [hct, e0] at hread
    rw [e0]
    exact hread
  | cons t ts =>
    have e : spreadC (t :: ts) (['\n'] :: gaps) ['\n'] = '\n' :: spreadC (t :: ts) ([] :: gaps) ['\n'] := by
      simp [spreadC, spread]
    rw [hct, e, parseNative_nl] at hread
    exact hread

/-- `n` cycles "write the SDict, read the text": the text written and the SDict read in each -/
def cycles (dir : Str) : Nat → SD → Counter → List (Str × SD)
  | 0, _, _ => []
  | n + 1, sd, c =>
    match fmtSD .native sd with
    | none => []
    | some t =>
      match parseNative true dir c t with
      | .ok (sd', c') => (t, sd') :: cycles dir n sd' c'
      | .error _ => []

section
variable {c c₁ : Counter} {items : List CItem} (dir : Str) (H : HW2 c items) (H₂ : HW2 c₁ (writtenDoc2 items))
  (hn : C02.countQuotedEs (plainItems (writtenDoc2 items)) ≤ Gen.counterLimit + 1)
  (hd : C02.DocKeysAbsent (plainItems (writtenDoc2 items)))
include H H₂ hn hd

/-- from any SDict that is written as `cycText items`, every cycle writes `cycText items` and reads the meaning of the
    canonical document (with the ids the counter hands out at that point) -/
theorem cycles_from : ∀ (n : Nat) (sd : SD) (c₀ : Counter), fmtSD .native sd = some (cycText items) →
    C13.ValidCounter Gen.counterLimit c₀ →
    (cycles dir n sd c₀).length = n ∧
    ∀ p ∈ cycles dir n sd c₀, p.1 = cycText items ∧
      ∃ c', C13.ValidCounter Gen.counterLimit c' ∧ p.2 = denC c' (writtenDoc2 items)
  | 0, _, _, _, _ => ⟨rfl, fun p hp => by cases hp⟩
  | n + 1, sd, c₀, hw, hc₀ => by
    obtain ⟨c', hc', hr⟩ := read_cycText dir H hc₀ hn hd
    have hw' := (C03_commented_second_write H (hw2_counter H₂ hc₀)).2
    obtain ⟨hlen, hall⟩ := cycles_from n (denC c₀ (writtenDoc2 items)) c' hw' hc'
    have e : cycles dir (n + 1) sd c₀ =
        (cycText items, denC c₀ (writtenDoc2 items)) :: cycles dir n (denC c₀ (writtenDoc2 items)) c' := by
      simp only [cycles, hw, hr]
    rw [e]
    refine ⟨by simp [hlen], ?_⟩
    intro p hp
    rcases List.mem_cons.mp hp with rfl | hp
    · exact ⟨rfl, c₀, hc₀, rfl⟩
    · exact hall p hp

/-- **C03, every cycle.**  Starting from the SDict read from any admissible layout of the commented document
    (`denC c items`), ALL cycles — the first one included — write the same bytes `cycText items`, and every re-read
    returns the meaning of the same canonical document `writtenDoc2 items`. -/
theorem C03_commented_cycles (n : Nat) {c₀ : Counter} (hc₀ : C13.ValidCounter Gen.counterLimit c₀) :
    (cycles dir n (denC c items) c₀).length = n ∧
    ∀ p ∈ cycles dir n (denC c items) c₀, p.1 = cycText items ∧
      ∃ c', C13.ValidCounter Gen.counterLimit c' ∧ p.2 = denC c' (writtenDoc2 items) :=
  cycles_from dir H H₂ hn hd n _ c₀ (written_text H) hc₀

end

theorem map_replicate_of {α β} (f : α → β) (a : β) : ∀ (l : List α), (∀ p ∈ l, f p = a) → l.map f = List.replicate l.length a
  | [], _ => rfl
  | x :: l, h => by
    simp only [List.map_cons, List.length_cons, List.replicate_succ, h x List.mem_cons_self,
      map_replicate_of f a l fun p hp => h p (List.mem_cons_of_mem _ hp)]

/-- the texts of `n` cycles: `n` times the same bytes -/
theorem C03_commented_texts {c c₁ : Counter} {items : List CItem} (dir : Str) (H : HW2 c items)
    (H₂ : HW2 c₁ (writtenDoc2 items))
    (hn : C02.countQuotedEs (plainItems (writtenDoc2 items)) ≤ Gen.counterLimit + 1)
    (hd : C02.DocKeysAbsent (plainItems (writtenDoc2 items))) (n : Nat) {c₀ : Counter}
    (hc₀ : C13.ValidCounter Gen.counterLimit c₀) :
    (cycles dir n (denC c items) c₀).map (·.1) = List.replicate n (cycText items) := by
  obtain ⟨hlen, hall⟩ := C03_commented_cycles dir H H₂ hn hd n hc₀
  rw [map_replicate_of _ (cycText items) _ (fun p hp => (hall p hp).1), hlen]

/-! ## 6. non-vacuity: two cycles on `exW` and on `exDup` -/

theorem exW_hw2 : HW2 none exW :=
  ⟨⟨by decide +kernel, by decide +kernel, by decide +kernel, by decide +kernel, by decide +kernel, by decide +kernel,
    Or.inl rfl⟩, by decide +kernel, by decide +kernel⟩

theorem exW_hw2' : HW2 none (writtenDoc2 exW) :=
  ⟨⟨by decide +kernel, by decide +kernel, by decide +kernel, by decide +kernel, by decide +kernel, by decide +kernel,
    Or.inl rfl⟩, by decide +kernel, by decide +kernel⟩

theorem exW_cycText : cycText exW = exWText := by
  have h1 := written_text exW_hw2
  rw [exW_written] at h1
  exact (Option.some.inj h1).symm

/-- two cycles from the SDict read from `exW`: both write `exWText` -/
theorem exW_two_cycles (dir : Str) :
    (cycles dir 2 (denC none exW) none).map (·.1) = [exWText, exWText] ∧
    ∀ p ∈ cycles dir 2 (denC none exW) none, ∃ c', p.2 = denC c' (writtenDoc2 exW) := by
  have hn : C02.countQuotedEs (plainItems (writtenDoc2 exW)) ≤ Gen.counterLimit + 1 := by decide +kernel
  have hd : C02.DocKeysAbsent (plainItems (writtenDoc2 exW)) := by decide +kernel
  refine ⟨?_, fun p hp => ?_⟩
  · rw [C03_commented_texts dir exW_hw2 exW_hw2' hn hd 2 (Or.inl rfl), exW_cycText]; rfl
  · obtain ⟨_, c', _, h⟩ := (C03_commented_cycles dir exW_hw2 exW_hw2' hn hd 2 (Or.inl rfl)).2 p hp
    exact ⟨c', h⟩

theorem exDup_hw2' : HW2 none (writtenDoc2 exDup) :=
  ⟨⟨by decide +kernel, by decide +kernel, by decide +kernel, by decide +kernel, by decide +kernel, by decide +kernel,
    Or.inl rfl⟩, by decide +kernel, by decide +kernel⟩

theorem exDup_cycText : cycText exDup = exDupText := by
  have h1 := written_text exDup_hw
  rw [exDup_written] at h1
  exact (Option.some.inj h1).symm

/-- two cycles from the SDict read from `exDup` (repeated comments): both write `exDupText` -/
theorem exDup_two_cycles (dir : Str) :
    (cycles dir 2 (denC none exDup) none).map (·.1) = [exDupText, exDupText] ∧
    ∀ p ∈ cycles dir 2 (denC none exDup) none, ∃ c', p.2 = denC c' (writtenDoc2 exDup) := by
  have hn : C02.countQuotedEs (plainItems (writtenDoc2 exDup)) ≤ Gen.counterLimit + 1 := by decide +kernel
  have hd : C02.DocKeysAbsent (plainItems (writtenDoc2 exDup)) := by decide +kernel
  refine ⟨?_, fun p hp => ?_⟩
  · rw [C03_commented_texts dir exDup_hw exDup_hw2' hn hd 2 (Or.inl rfl), exDup_cycText]; rfl
  · obtain ⟨_, c', _, h⟩ := (C03_commented_cycles dir exDup_hw exDup_hw2' hn hd 2 (Or.inl rfl)).2 p hp
    exact ⟨c', h⟩

/-! ## 7. the writer hypotheses for the canonical document do not follow: the order of the block comments changes -/

/-- `/* C++ A */ sub { /*b*/ } /* x /*b*/` — the nested comment `/*b*/` occurs inside the later top-level comment -/
def exO : List CItem :=
  [.blockC " C++ A ".toList, .entry "sub".toList (.dict [.blockC "b".toList]), .blockC " x /*b".toList]

def exOData (i j : String) : Entries :=
  [ (.str "BLOCKCOMMENT000000".toList, .leaf (.str "BLOCKCOMMENT000000".toList)),
    (.str i.toList, .leaf (.str i.toList)),
    (.str "sub".toList, .dict [(.str j.toList, .leaf (.str j.toList))]) ]

theorem exO_raw (i j : String) (hi : i.toList.length = 18) (hj : j.toList.length = 18)
    (hfi : formatString .native i.toList = i.toList) (hfj : formatString .native j.toList = j.toList) :
    fmtEntries .native 0 (exOData i j) =
      "BLOCKCOMMENT000000            BLOCKCOMMENT000000;\n".toList ++ i.toList ++ spaces 12 ++ i.toList ++ ";\n".toList ++
      "sub\n{\n    ".toList ++ j.toList ++ spaces 8 ++ j.toList ++ ";\n}\n".toList := by
  have h0 : formatString .native "BLOCKCOMMENT000000".toList = "BLOCKCOMMENT000000".toList := by decide +kernel
  simp only [exOData, fmtEntries, fline, formatKey, formatScalar, keyStr, hfi, hfj, hi, hj, h0]
  simp [spaces]

/-- **finding (a second cycle can lose a block comment).**  `HW2` holds for `exO`: in the source the nested `/*b*/`
    comes before `/* x /*b*/`, so the `bc in sofar` test of `insert_block_comments` does not fire.  The writer hoists
    the top-level block comments, so in the written file — and in the table of its re-read — `/* x /*b*/` comes first;
    in the second cycle `/*b*/` is found inside what was written before it and is written as the empty text.  Hence
    the hypothesis `H₂` of `C03_commented_second_write` (its `indep` part is false here). -/
theorem second_write_needs_indep :
    HW2 none exO ∧
    fmtSD .native (denC none exO) = some "/* C++ A */\n/* x /*b*/\nsub\n{\n    /*b*/\n}\n".toList ∧
    fmtSD .native (denC none (writtenDoc2 exO)) = some "/* C++ A */\n/* x /*b*/\nsub\n{\n\n}\n".toList ∧
    indepFrom [] (writtenBlocks (dedupI (writtenDoc2 exO))) = false := by
  refine ⟨⟨⟨by decide +kernel, by decide +kernel, by decide +kernel, by decide +kernel, by decide +kernel,
    by decide +kernel, Or.inl rfl⟩, by decide +kernel, by decide +kernel⟩, ?_, ?_, by decide +kernel⟩
  · have h : hoistPlaceholders (denC none exO).data = exOData "BLOCKCOMMENT000002" "BLOCKCOMMENT000001" ∧
        (denC none exO).lineC = [] ∧
        (denC none exO).blockC = [(0, "/* C++ A */".toList), (1, "/*b*/".toList), (2, "/* x /*b*/".toList)] ∧
        (denC none exO).incl = [] := by decide +kernel
    rw [fmtSD_noIncl _ h.2.2.2, h.1, h.2.1, h.2.2.1,
      exO_raw _ _ (by decide +kernel) (by decide +kernel) (by decide +kernel) (by decide +kernel)]
    decide +kernel
  · have h : hoistPlaceholders (denC none (writtenDoc2 exO)).data = exOData "BLOCKCOMMENT000001" "BLOCKCOMMENT000002" ∧
        (denC none (writtenDoc2 exO)).lineC = [] ∧
        (denC none (writtenDoc2 exO)).blockC =
          [(0, "/* C++ A */".toList), (1, "/* x /*b*/".toList), (2, "/*b*/".toList)] ∧
        (denC none (writtenDoc2 exO)).incl = [] := by decide +kernel
    rw [fmtSD_noIncl _ h.2.2.2, h.1, h.2.1, h.2.2.1,
      exO_raw _ _ (by decide +kernel) (by decide +kernel) (by decide +kernel) (by decide +kernel)]
    decide +kernel

/-! ## 8. the writer hypotheses for the canonical document: all but `indep` follow -/

theorem okI_append (d : Nat) : ∀ (a b : List CItem), okI d (a ++ b) = (okI d a && okI d b)
  | [], b => by simp [okI]
  | .entry k v :: a, b => by simp only [List.cons_append, okI, okI_append d a b, Bool.and_assoc]
  | .lineC x :: a, b => by simp only [List.cons_append, okI, okI_append d a b, Bool.and_assoc]
  | .blockC x :: a, b => by simp only [List.cons_append, okI, okI_append d a b, Bool.and_assoc]

theorem okI_filter (d : Nat) (p : CItem → Bool) : ∀ (a : List CItem), okI d a = true → okI d (a.filter p) = true
  | [], _ => by simp [okI]
  | .entry k v :: a, h => by
    simp only [okI, Bool.and_eq_true] at h
    simp only [List.filter_cons]
    split
    · simp only [okI, Bool.and_eq_true]; exact ⟨h.1, okI_filter d p a h.2⟩
    · exact okI_filter d p a h.2
  | .lineC x :: a, h => by
    simp only [okI, Bool.and_eq_true] at h
    simp only [List.filter_cons]
    split
    · simp only [okI, Bool.and_eq_true]; exact ⟨h.1, okI_filter d p a h.2⟩
    · exact okI_filter d p a h.2
  | .blockC x :: a, h => by
    simp only [okI, Bool.and_eq_true] at h
    simp only [List.filter_cons]
    split
    · simp only [okI, Bool.and_eq_true]; exact ⟨h.1, okI_filter d p a h.2⟩
    · exact okI_filter d p a h.2

mutual
  theorem ok_cnormV : ∀ (v : CSrc) (d : Nat), CSrcWFV d v = true → okV d v = true → okV d (cnormV v) = true
    | .lit l, d, hwf, hok => by
      simp only [CSrcWFV, okV, Bool.and_eq_true] at hwf hok
      simp only [cnormV, okV, C01.den_writtenLit hok.1, C03.normScalar_den hwf.1, Bool.and_eq_true]
      exact hok
    | .list xs, d, hwf, hok => by
      simp only [CSrcWFV, okV] at hwf hok
      simp only [cnormV, okV, C01.den_srcOfXs (d + 1) _ hok, C03.norm_denXs (d + 1) xs hwf]
      exact hok
    | .dict items, d, hwf, hok => by
      simp only [CSrcWFV, okV] at hwf hok
      simp only [cnormV, okV]
      exact ok_cnormI items (d + 1) hwf hok
  /-- the document in the writer's spelling satisfies the domain conditions again -/
  theorem ok_cnormI : ∀ (items : List CItem) (d : Nat), CSrcWFItems d items = true → okI d items = true →
      okI d (cnormI items) = true
    | [], _, _, _ => by simp [cnormI, okI]
    | .entry k v :: r, d, hwf, hok => by
      simp only [CSrcWFItems, okI, Bool.and_eq_true] at hwf hok
      simp only [cnormI, okI, Bool.and_eq_true, keyOfStr_keyStr hok.1.1]
      exact ⟨⟨hok.1.1, ok_cnormV v d hwf.1.2 hok.1.2⟩, ok_cnormI r d hwf.2 hok.2⟩
    | .lineC x :: r, d, hwf, hok => by
      simp only [CSrcWFItems, okI, Bool.and_eq_true] at hwf hok
      simp only [cnormI, okI, Bool.and_eq_true]
      exact ⟨hok.1, ok_cnormI r d hwf.2 hok.2⟩
    | .blockC x :: r, d, hwf, hok => by
      simp only [CSrcWFItems, okI, Bool.and_eq_true] at hwf hok
      simp only [cnormI, okI, Bool.and_eq_true]
      exact ⟨hok.1, ok_cnormI r d hwf.2 hok.2⟩
end

theorem levelKeys_append : ∀ (a b : List CItem), levelKeys (a ++ b) = levelKeys a ++ levelKeys b
  | [], b => by simp [levelKeys]
  | .entry k v :: a, b => by simp only [List.cons_append, levelKeys, levelKeys_append a b]
  | .lineC x :: a, b => by simp only [List.cons_append, levelKeys, levelKeys_append a b]
  | .blockC x :: a, b => by simp only [List.cons_append, levelKeys, levelKeys_append a b]

theorem levelKeys_filter : ∀ (a : List CItem), levelKeys (a.filter isBlockItem) = [] ∧
    levelKeys (a.filter fun it => !isBlockItem it) = levelKeys a
  | [] => by simp [levelKeys]
  | .entry k v :: a => by
    obtain ⟨h1, h2⟩ := levelKeys_filter a
    simp only [List.filter_cons, isBlock_entry, Bool.false_eq_true, if_false, Bool.not_false, if_true, levelKeys, h1, h2]
    exact ⟨trivial, trivial⟩
  | .lineC x :: a => by
    obtain ⟨h1, h2⟩ := levelKeys_filter a
    simp only [List.filter_cons, isBlock_line, Bool.false_eq_true, if_false, Bool.not_false, if_true, levelKeys, h1, h2]
    exact ⟨trivial, trivial⟩
  | .blockC x :: a => by
    obtain ⟨h1, h2⟩ := levelKeys_filter a
    simp only [List.filter_cons, isBlock_block, Bool.false_eq_true, if_false, Bool.not_true, if_true, levelKeys, h1, h2]
    exact ⟨trivial, trivial⟩

theorem levelKeys_cnorm {d : Nat} : ∀ (items : List CItem), okI d items = true → levelKeys (cnormI items) = levelKeys items
  | [], _ => by simp [cnormI]
  | .entry k v :: r, h => by
    simp only [okI, Bool.and_eq_true] at h
    simp only [cnormI, levelKeys, keyOfStr_keyStr h.1.1, levelKeys_cnorm r h.2]
  | .lineC x :: r, h => by
    simp only [okI, Bool.and_eq_true] at h
    simp only [cnormI, levelKeys, levelKeys_cnorm r h.2]
  | .blockC x :: r, h => by
    simp only [okI, Bool.and_eq_true] at h
    simp only [cnormI, levelKeys, levelKeys_cnorm r h.2]

theorem klvI_append : ∀ (a b : List CItem), klvI (a ++ b) = (klvI a && klvI b)
  | [], b => by simp [klvI]
  | .entry k v :: a, b => by simp only [List.cons_append, klvI, klvI_append a b, Bool.and_assoc]
  | .lineC x :: a, b => by simp only [List.cons_append, klvI, klvI_append a b]
  | .blockC x :: a, b => by simp only [List.cons_append, klvI, klvI_append a b]

theorem klvI_filter (p : CItem → Bool) : ∀ (a : List CItem), klvI a = true → klvI (a.filter p) = true
  | [], _ => by simp [klvI]
  | .entry k v :: a, h => by
    simp only [klvI, Bool.and_eq_true] at h
    simp only [List.filter_cons]
    split
    · simp only [klvI, Bool.and_eq_true]; exact ⟨h.1, klvI_filter p a h.2⟩
    · exact klvI_filter p a h.2
  | .lineC x :: a, h => by
    simp only [klvI] at h
    simp only [List.filter_cons]
    split
    · simp only [klvI]; exact klvI_filter p a h
    · exact klvI_filter p a h
  | .blockC x :: a, h => by
    simp only [klvI] at h
    simp only [List.filter_cons]
    split
    · simp only [klvI]; exact klvI_filter p a h
    · exact klvI_filter p a h

mutual
  theorem klv_cnormV : ∀ (v : CSrc) (d : Nat), okV d v = true → klvV v = true → klvV (cnormV v) = true
    | .lit l, _, _, _ => by simp only [cnormV, klvV]
    | .list xs, _, _, _ => by simp only [cnormV, klvV]
    | .dict items, d, hok, h => by
      simp only [okV] at hok
      simp only [klvV, Bool.and_eq_true, decide_eq_true_eq] at h
      simp only [cnormV, klvV, Bool.and_eq_true, decide_eq_true_eq, levelKeys_cnorm items hok]
      exact ⟨h.1, klv_cnormI items (d + 1) hok h.2⟩
  theorem klv_cnormI : ∀ (items : List CItem) (d : Nat), okI d items = true → klvI items = true →
      klvI (cnormI items) = true
    | [], _, _, _ => by simp [cnormI, klvI]
    | .entry k v :: r, d, hok, h => by
      simp only [okI, Bool.and_eq_true] at hok
      simp only [klvI, Bool.and_eq_true] at h
      simp only [cnormI, klvI, Bool.and_eq_true]
      exact ⟨klv_cnormV v d hok.1.2 h.1, klv_cnormI r d hok.2 h.2⟩
    | .lineC x :: r, d, hok, h => by
      simp only [okI, Bool.and_eq_true] at hok
      simp only [klvI] at h
      simp only [cnormI, klvI]
      exact klv_cnormI r d hok.2 h
    | .blockC x :: r, d, hok, h => by
      simp only [okI, Bool.and_eq_true] at hok
      simp only [klvI] at h
      simp only [cnormI, klvI]
      exact klv_cnormI r d hok.2 h
end

mutual
  theorem klv_dedupV : ∀ (v : CSrc), klvV v = true → klvV (dedupV v) = true
    | .lit l, _ => by simp only [dedupV, klvV]
    | .list xs, _ => by simp only [dedupV, klvV]
    | .dict items, h => by
      simp only [klvV, Bool.and_eq_true, decide_eq_true_eq] at h
      simp only [dedupV, klvV, Bool.and_eq_true, decide_eq_true_eq, (lvl_dedup items [] []).2.2]
      exact ⟨h.1, klv_dedupI items [] [] h.2⟩
  theorem klv_dedupI : ∀ (items : List CItem) (sl sb : List Str), klvI items = true → klvI (dedupLvl sl sb items) = true
    | [], _, _, _ => by simp [dedupLvl, klvI]
    | .entry k v :: r, sl, sb, h => by
      simp only [klvI, Bool.and_eq_true] at h
      simp only [dedupLvl, klvI, Bool.and_eq_true]
      exact ⟨klv_dedupV v h.1, klv_dedupI r sl sb h.2⟩
    | .lineC x :: r, sl, sb, h => by
      simp only [klvI] at h
      simp only [dedupLvl]
      split
      · exact klv_dedupI r sl sb h
      · simp only [klvI]; exact klv_dedupI r _ sb h
    | .blockC x :: r, sl, sb, h => by
      simp only [klvI] at h
      simp only [dedupLvl]
      split
      · exact klv_dedupI r sl sb h
      · simp only [klvI]; exact klv_dedupI r sl _ h
end

theorem lineFullsI_append : ∀ (a b : List CItem), lineFullsI (a ++ b) = lineFullsI a ++ lineFullsI b
  | [], b => by simp [lineFullsI]
  | .entry k v :: a, b => by simp only [List.cons_append, lineFullsI, lineFullsI_append a b, List.append_assoc]
  | .lineC x :: a, b => by simp only [List.cons_append, lineFullsI, lineFullsI_append a b, List.cons_append]
  | .blockC x :: a, b => by simp only [List.cons_append, lineFullsI, lineFullsI_append a b]

theorem lineFulls_filter : ∀ (a : List CItem), lineFullsI (a.filter isBlockItem) = [] ∧
    lineFullsI (a.filter fun it => !isBlockItem it) = lineFullsI a
  | [] => by simp [lineFullsI]
  | .entry k v :: a => by
    obtain ⟨h1, h2⟩ := lineFulls_filter a
    simp only [List.filter_cons, isBlock_entry, Bool.false_eq_true, if_false, Bool.not_false, if_true, lineFullsI, h1, h2]
    exact ⟨trivial, trivial⟩
  | .lineC x :: a => by
    obtain ⟨h1, h2⟩ := lineFulls_filter a
    simp only [List.filter_cons, isBlock_line, Bool.false_eq_true, if_false, Bool.not_false, if_true, lineFullsI, h1, h2]
    exact ⟨trivial, trivial⟩
  | .blockC x :: a => by
    obtain ⟨h1, h2⟩ := lineFulls_filter a
    simp only [List.filter_cons, isBlock_block, Bool.false_eq_true, if_false, Bool.not_true, if_true, lineFullsI, h1, h2]
    exact ⟨trivial, trivial⟩

mutual
  theorem lineFulls_cnormV : ∀ (v : CSrc), lineFullsV (cnormV v) = lineFullsV v
    | .lit l => by simp only [cnormV, lineFullsV]
    | .list xs => by simp only [cnormV, lineFullsV]
    | .dict items => by simp only [cnormV, lineFullsV, lineFulls_cnormI items]
  theorem lineFulls_cnormI : ∀ (items : List CItem), lineFullsI (cnormI items) = lineFullsI items
    | [] => by simp only [cnormI]
    | .entry k v :: r => by simp only [cnormI, lineFullsI, lineFulls_cnormV v, lineFulls_cnormI r]
    | .lineC x :: r => by simp only [cnormI, lineFullsI, lineFulls_cnormI r]
    | .blockC x :: r => by simp only [cnormI, lineFullsI, lineFulls_cnormI r]
end

mutual
  theorem count_dedupV : ∀ (v : CSrc), (lineFullsV (dedupV v)).length ≤ (lineFullsV v).length ∧
      (blockFullsV (dedupV v)).length ≤ (blockFullsV v).length
    | .lit l => by simp only [dedupV]; exact ⟨Nat.le_refl _, Nat.le_refl _⟩
    | .list xs => by simp only [dedupV]; exact ⟨Nat.le_refl _, Nat.le_refl _⟩
    | .dict items => by simp only [dedupV, lineFullsV, blockFullsV]; exact count_dedupI items [] []
  /-- the removal of repetitions does not add comments -/
  theorem count_dedupI : ∀ (items : List CItem) (sl sb : List Str),
      (lineFullsI (dedupLvl sl sb items)).length ≤ (lineFullsI items).length ∧
      (blockFullsI (dedupLvl sl sb items)).length ≤ (blockFullsI items).length
    | [], _, _ => by simp [dedupLvl]
    | .entry k v :: r, sl, sb => by
      obtain ⟨a1, a2⟩ := count_dedupV v
      obtain ⟨b1, b2⟩ := count_dedupI r sl sb
      simp only [dedupLvl, lineFullsI, blockFullsI, List.length_append]
      exact ⟨by omega, by omega⟩
    | .lineC x :: r, sl, sb => by
      simp only [dedupLvl]
      split
      · obtain ⟨b1, b2⟩ := count_dedupI r sl sb
        simp only [lineFullsI, blockFullsI, List.length_cons]
        exact ⟨by omega, b2⟩
      · obtain ⟨b1, b2⟩ := count_dedupI r (sl ++ [x]) sb
        simp only [lineFullsI, blockFullsI, List.length_cons]
        exact ⟨by omega, b2⟩
    | .blockC x :: r, sl, sb => by
      simp only [dedupLvl]
      split
      · obtain ⟨b1, b2⟩ := count_dedupI r sl sb
        simp only [lineFullsI, blockFullsI, List.length_cons]
        exact ⟨b1, by omega⟩
      · obtain ⟨b1, b2⟩ := count_dedupI r sl (sb ++ [x])
        simp only [lineFullsI, blockFullsI, List.length_cons]
        exact ⟨b1, by omega⟩
end

theorem blockFulls_filter_len : ∀ (a : List CItem),
    (blockFullsI (a.filter isBlockItem)).length + (blockFullsI (a.filter fun it => !isBlockItem it)).length =
      (blockFullsI a).length
  | [] => by simp [blockFullsI]
  | .entry k v :: a => by
    have ih := blockFulls_filter_len a
    simp only [List.filter_cons, isBlock_entry, Bool.false_eq_true, if_false, Bool.not_false, if_true, blockFullsI,
      List.length_append]
    omega
  | .lineC x :: a => by
    have ih := blockFulls_filter_len a
    simp only [List.filter_cons, isBlock_line, Bool.false_eq_true, if_false, Bool.not_false, if_true, blockFullsI]
    exact ih
  | .blockC x :: a => by
    have ih := blockFulls_filter_len a
    simp only [List.filter_cons, isBlock_block, Bool.false_eq_true, if_false, Bool.not_true, if_true, blockFullsI,
      List.length_cons]
    omega

theorem filterB_map : ∀ (a : List CItem), a.filter isBlockItem = (lvlBlocks a).map CItem.blockC
  | [] => by simp [lvlBlocks]
  | .entry k v :: a => by simp only [List.filter_cons, isBlock_entry, Bool.false_eq_true, if_false, lvlBlocks, filterB_map a]
  | .lineC x :: a => by simp only [List.filter_cons, isBlock_line, Bool.false_eq_true, if_false, lvlBlocks, filterB_map a]
  | .blockC x :: a => by simp only [List.filter_cons, isBlock_block, if_true, lvlBlocks, List.map_cons, filterB_map a]

/-- **the writer hypotheses for the canonical document**: they follow from those for the document, except that the
    block comments must be independent in the order in which the canonical document lists them (`hind`; it does not
    follow: `second_write_needs_indep`), and that there is room for the default header among the 10^6 block ids. -/
theorem hw2_written {c c₂ : Counter} {items : List CItem} (H : HW2 c items)
    (hc₂ : C13.ValidCounter Gen.counterLimit c₂) (hblk : (blockFullsI items).length < 1000000)
    (hind : indepFrom [] (writtenBlocks (writtenDoc2 items)) = true) : HW2 c₂ (writtenDoc2 items) := by
  have hwfd : CSrcWFItems 1 (dedupI items) = true := wf_dedupI items 1 [] [] H.wf
  have hokd : okI 1 (dedupI items) = true := ok_dedupI items 1 [] [] H.ok
  have hokN : okI 1 (cnormI (dedupI items)) = true := ok_cnormI _ 1 hwfd hokd
  have hkd : levelKeys (dedupI items) = levelKeys items := (lvl_dedup items [] []).2.2
  have hkN : levelKeys (cnormI (dedupI items)) = levelKeys items := by
    rw [levelKeys_cnorm _ hokd]; exact hkd
  have hklN : klvI (cnormI (dedupI items)) = true := klv_cnormI _ 1 hokd (klv_dedupI items [] [] H.keysAll)
  have cl : (lineFullsI (dedupI items)).length ≤ (lineFullsI items).length := (count_dedupI items [] []).1
  have cb : (blockFullsI (dedupI items)).length ≤ (blockFullsI items).length := (count_dedupI items [] []).2
  refine ⟨⟨writtenDoc2_wf H, ?_, ?_, ?_, ?_, ?_, hc₂⟩, ?_, ?_⟩
  · -- ok
    simp only [writtenDoc2, canonItems, okI_append, okI_filter 1 _ _ hokN, Bool.and_true]
    split
    · simp [okI]
    · have : blockTextOK C12.hdrBody = true := by decide +kernel
      simp [okI, this]
  · -- keys of the top level
    have : levelKeys (writtenDoc2 items) = levelKeys items := by
      simp only [writtenDoc2, canonItems, levelKeys_append, (levelKeys_filter _).1, (levelKeys_filter _).2, hkN,
        List.nil_append]
      split <;> simp [levelKeys]
    rw [this]; exact H.keys
  · -- keys below
    simp only [writtenDoc2, canonItems, klvI_append, klvI_filter _ _ hklN, Bool.and_true]
    split <;> simp [klvI]
  · -- line comments
    have : lineFullsI (writtenDoc2 items) = lineFullsI (dedupI items) := by
      simp only [writtenDoc2, canonItems, lineFullsI_append, (lineFulls_filter _).1, (lineFulls_filter _).2,
        lineFulls_cnormI, List.nil_append]
      split <;> simp [lineFullsI]
    rw [this]
    have := H.nLine
    exact Nat.le_trans cl this
  · -- block comments
    have hlen := blockFulls_filter_len (cnormI (dedupI items))
    rw [blockFulls_cnormI] at hlen
    have : (blockFullsI (writtenDoc2 items)).length ≤ 1 + (blockFullsI (dedupI items)).length := by
      simp only [writtenDoc2, canonItems, blockFullsI_append, List.length_append]
      split
      · simp only [blockFullsI, List.length_nil]; omega
      · simp only [blockFullsI, List.length_cons, List.length_nil]; omega
    omega
  · -- the first block comment stands at the top
    cases hown : ownHeaderI items with
    | false => simp only [writtenDoc2, hown, Bool.false_eq_true, if_false, List.singleton_append, firstBlockTop]
    | true =>
      have hwo := written_own H
      simp only [writtenDoc2, hown, if_true, List.nil_append, canonItems, filterB_map] at hwo ⊢
      cases hl : lvlBlocks (cnormI (dedupI items)) with
      | cons y ys => simp only [List.map_cons, List.cons_append, firstBlockTop]
      | nil =>
        -- impossible: an own header is a top-level block comment
        exfalso
        simp only [ownHeaderI] at hown
        cases hbi : blockFullsI items with
        | nil => rw [hbi] at hown; cases hown
        | cons t0 r0 =>
          have h1 := firstTop_head items H.first
          rw [hbi] at h1
          cases hlb : lvlBlocks items with
          | nil => rw [hlb] at h1; simp at h1
          | cons x0 rb =>
            have hN : (lvlBlocks (cnormI (dedupI items))).head? = some x0 := by
              rw [(lvl_cnorm _).2, show dedupI items = dedupLvl [] [] items from rfl, (lvl_dedup items [] []).2.1,
                nubFrom_head, hlb]
              rfl
            rw [hl] at hN
            cases hN
  · rw [written_dedup H]; exact hind

/-- **C03, second write, sharp form**: the only hypotheses on the canonical document are the independence of its block
    comments in its own order and the room for the default header. -/
theorem C03_commented_second_write' {c c₂ : Counter} {items : List CItem} (H : HW2 c items)
    (hc₂ : C13.ValidCounter Gen.counterLimit c₂) (hblk : (blockFullsI items).length < 1000000)
    (hind : indepFrom [] (writtenBlocks (writtenDoc2 items)) = true) :
    fmtSD .native (denC c items) = some (cycText items) ∧
    fmtSD .native (denC c₂ (writtenDoc2 items)) = some (cycText items) :=
  C03_commented_second_write H (hw2_written H hc₂ hblk hind)

/-- **C03, every cycle, sharp form** -/
theorem C03_commented_cycles' {c : Counter} {items : List CItem} (dir : Str) (H : HW2 c items)
    (hblk : (blockFullsI items).length < 1000000)
    (hind : indepFrom [] (writtenBlocks (writtenDoc2 items)) = true)
    (hn : C02.countQuotedEs (plainItems (writtenDoc2 items)) ≤ Gen.counterLimit + 1)
    (hd : C02.DocKeysAbsent (plainItems (writtenDoc2 items))) (n : Nat) {c₀ : Counter}
    (hc₀ : C13.ValidCounter Gen.counterLimit c₀) :
    (cycles dir n (denC c items) c₀).map (·.1) = List.replicate n (cycText items) ∧
    ∀ p ∈ cycles dir n (denC c items) c₀,
      ∃ c', C13.ValidCounter Gen.counterLimit c' ∧ p.2 = denC c' (writtenDoc2 items) := by
  have H₂ : HW2 none (writtenDoc2 items) := hw2_written H (Or.inl rfl) hblk hind
  exact ⟨C03_commented_texts dir H H₂ hn hd n hc₀,
    fun p hp => ((C03_commented_cycles dir H H₂ hn hd n hc₀).2 p hp).2⟩

end DictIO.C03c
