/-
  C03 for commented documents -- the written text stabilises after one cycle.
-/
import DictIO.Props.C12write
import DictIO.Props.C03

namespace DictIO.C03c
open DictIO DictIO.C12W

set_option linter.unusedSimpArgs false
set_option linter.unusedVariables false
set_option linter.unusedSectionVars false

/-! ## 1. two texts with the same gaps -/

/-- a layout read with another text for every token -/
def layG (tx : XTok → Str) : List (Str × XTok) → Str → Str
  | [], tail => tail
  | (g, t) :: l, tail => g ++ tx t ++ layG tx l tail

theorem layG_text : ∀ (l : List (Str × XTok)) (tail : Str), layG XTok.text l tail = layX l tail
  | [], _ => rfl
  | (g, t) :: l, tail => by simp only [layG, layX, layG_text l tail]

theorem layG_tail (tx : XTok → Str) : ∀ (l : List (Str × XTok)) (tail : Str), layG tx l tail = layG tx l [] ++ tail
  | [], _ => rfl
  | (g, t) :: l, tail => by simp only [layG, layG_tail tx l tail, List.append_assoc]

theorem layG_append (tx : XTok → Str) (l1 l2 : List (Str × XTok)) (tail : Str) :
    layG tx (l1 ++ l2) tail = layG tx l1 [] ++ layG tx l2 tail := by
  induction l1 with
  | nil => rfl
  | cons p l1 ih => obtain ⟨g, t⟩ := p; simp only [List.cons_append, layG, ih, List.append_assoc]

/-- `a` is the layout of `xs` (as in `LaysX`) and `b` is the same layout with the token texts `tx` -/
def LaysP (tx : XTok → Str) (c : Ctx) (xs : List XTok) (a b tail : Str) : Prop :=
  ∃ l, l.map Prod.snd = xs ∧ a = layX l tail ∧ b = layG tx l tail ∧ okX c l = true ∧ tail.all isWs = true

theorem LaysP.tok (tx : XTok → Str) (c : Ctx) {g tail : Str} (t : XTok) (hg : g.all isWs = true)
    (ht : tail.all isWs = true) (hok : gapOK c t g = true) :
    LaysP tx c [t] (g ++ t.text ++ tail) (g ++ tx t ++ tail) tail :=
  ⟨[(g, t)], rfl, rfl, rfl, by simp [okX, hg, hok], ht⟩

theorem LaysP.append {tx : XTok → Str} {c c2 : Ctx} {xs ys : List XTok} {a a' b b' t1 t2 : Str}
    (ha : LaysP tx c xs a a' t1) (hb : LaysP tx c2 ys b b' t2) (hne : ys ≠ [])
    (hc : ∀ u g, g.all isWs = true → gapOK c2 u g = true → gapOK (lastCtx c xs) u (t1 ++ g) = true) :
    LaysP tx c (xs ++ ys) (a ++ b) (a' ++ b') t2 := by
  obtain ⟨l1, rfl, rfl, rfl, ok1, ht1⟩ := ha
  obtain ⟨l2, rfl, rfl, rfl, ok2, ht2⟩ := hb
  cases l2 with
  | nil => exact absurd rfl hne
  | cons p l2 =>
    obtain ⟨g, t⟩ := p
    refine ⟨l1 ++ (t1 ++ g, t) :: l2, by simp, ?_, ?_, ?_, ht2⟩
    · rw [layX_append, layX_tail l1 t1]
      simp [layX]
    · rw [layG_append, layG_tail tx l1 t1]
      simp [layG]
    · rw [okX_append, ok1, Bool.true_and]
      simp only [okX, Bool.and_eq_true, List.all_append] at ok2 ⊢
      exact ⟨⟨⟨ht1, ok2.1.1⟩, hc t g ok2.1.1 ok2.1.2⟩, ok2.2⟩

theorem LaysP.append_nil {tx : XTok → Str} {c c2 : Ctx} {xs : List XTok} {a a' b b' t1 t2 : Str}
    (ha : LaysP tx c xs a a' t1) (hb : LaysP tx c2 [] b b' t2) : LaysP tx c xs (a ++ b) (a' ++ b') (t1 ++ t2) := by
  obtain ⟨l1, rfl, rfl, rfl, ok1, ht1⟩ := ha
  obtain ⟨l2, h2, rfl, rfl, ok2, ht2⟩ := hb
  cases l2 with
  | cons p l2 => cases h2
  | nil =>
    refine ⟨l1, rfl, ?_, ?_, ok1, by simp [ht1, ht2]⟩
    · rw [layX_tail l1 t1, layX_tail l1 (t1 ++ t2)]
      simp [layX]
    · rw [layG_tail tx l1 t1, layG_tail tx l1 (t1 ++ t2)]
      simp [layG]

theorem layG_lift (tx : XTok → Str) (htok : ∀ t, tx (.tok t) = t.text) : ∀ (l : List (Str × STok)) (tail : Str),
    layG tx (liftP l) tail = C01.layP l tail
  | [], _ => rfl
  | (g, t) :: l, tail => by
    have := layG_lift tx htok l tail
    simp only [liftP] at this
    simp only [liftP, List.map_cons, layG, C01.layP, htok, this]

theorem LaysP.of_lays {tx : XTok → Str} (htok : ∀ t, tx (.tok t) = t.text) {pd : Bool} {ts : List STok} {txt : Str}
    (c : Ctx) (h : C01.Lays pd ts txt)
    (hc : c = .cov ∨ (c = .dl ∧ pd = true) ∨ (c = .wd ∧ pd = false) ∨ (c = .dl ∧ pd = false)) :
    ∃ tail, LaysP tx c (ts.map .tok) txt txt tail := by
  obtain ⟨l, tail, rfl, rfl, ok, ht⟩ := h
  exact ⟨tail, liftP l, by simp [liftP], (layX_lift l tail).symm, (layG_lift tx htok l tail).symm,
    okX_lift l pd c ok hc, ht⟩

/-- full lines, both texts -/
def LaysLP (tx : XTok → Str) (xs : List XTok) (a b : Str) : Prop :=
  (xs = [] ∧ a = [] ∧ b = []) ∨ (xs ≠ [] ∧ LaysP tx .cov xs a b ['\n'])

theorem LaysLP.nil (tx : XTok → Str) : LaysLP tx [] [] [] := Or.inl ⟨rfl, rfl, rfl⟩

theorem LaysLP.append {tx : XTok → Str} {xs ys : List XTok} {a a' b b' : Str} (ha : LaysLP tx xs a a')
    (hb : LaysLP tx ys b b') : LaysLP tx (xs ++ ys) (a ++ b) (a' ++ b') := by
  rcases ha with ⟨rfl, rfl, rfl⟩ | ⟨hx, ha⟩
  · simpa using hb
  · rcases hb with ⟨rfl, rfl, rfl⟩ | ⟨hy, hb⟩
    · rw [List.append_nil, List.append_nil, List.append_nil]; exact Or.inr ⟨hx, ha⟩
    · exact Or.inr ⟨by simp [hx], ha.append hb hy fun u g _ _ => gapOK_nl _ u g⟩

theorem LaysLP.line (tx : XTok → Str) (lvl : Nat) (t : XTok) : LaysLP tx [t] (fline lvl t.text) (fline lvl (tx t)) := by
  refine Or.inr ⟨by simp, ?_⟩
  have := LaysP.tok tx .cov (g := spaces (4 * lvl)) (tail := ['\n']) t (C01.spaces_ws _) C12W.nl_ws rfl
  simpa [fline] using this

section
variable (tx : XTok → Str) (htok : ∀ t, tx (.tok t) = t.text)
include htok

theorem laysP_leaf_line (lvl : Nat) (k v : STok) (pad : Str) (hp : pad.all isWs = true) (hne : pad ≠ []) :
    LaysLP tx [.tok k, .tok v, .tok (.word [';'])] (fline lvl (k.text ++ pad ++ v.text ++ [';']))
      (fline lvl (k.text ++ pad ++ v.text ++ [';'])) := by
  have h0 := LaysP.tok tx .cov (g := spaces (4 * lvl)) (tail := []) (.tok k) (C01.spaces_ws _) rfl rfl
  have h1 := LaysP.tok tx .bk (g := pad) (tail := []) (.tok v) hp rfl (by simpa [gapOK] using hne)
  have h2 := LaysP.tok tx .wd (g := []) (tail := ['\n']) (.tok (.word [';'])) rfl C12W.nl_ws
    (by simp [gapOK, semi_delim])
  have h01 := h0.append h1 (by simp) (fun u g _ hg => by
    rw [lastCtx_singleton, List.nil_append]
    have hgne : g ≠ [] := by simpa [gapOK] using hg
    rcases ctxAfter_tok k with e | e <;> rw [e] <;> exact gapOK_ne (by decide) u hgne)
  have h012 := h01.append h2 (by simp) (fun u g _ hg => by
    have : lastCtx Ctx.cov ([XTok.tok k] ++ [XTok.tok v]) = ctxAfter (.tok v) := rfl
    rw [this]
    exact gapOK_wd_ext (ctxAfter_tok v) u [] g hg)
  refine Or.inr ⟨by simp, ?_⟩
  simpa [fline, XTok.text, STok.text, htok] using h012

theorem laysP_list_block (lvl : Nat) (xs : List Val) (d : Nat) (h : domXs .native d xs = true) :
    LaysLP tx (.tok (.word ['(']) :: (srcToksXs (srcOfXs .native xs)).map XTok.tok ++ [.tok (.word [')']), .tok (.word [';'])])
      (fmtList .native lvl false xs) (fmtList .native lvl false xs) := by
  have hi := C01.lays_items d lvl xs.length 0 true xs h
  obtain ⟨tl, p2⟩ := LaysP.of_lays htok .wd hi (Or.inr (Or.inr (Or.inl ⟨rfl, rfl⟩)))
  have p1 := LaysP.tok tx .cov (g := spaces (4 * lvl)) (tail := ['\n']) (.tok (.word ['('])) (C01.spaces_ws _) C12W.nl_ws rfl
  have p12 : ∃ tl', LaysP tx .cov (.tok (.word ['(']) :: (srcToksXs (srcOfXs .native xs)).map XTok.tok)
      (spaces (4 * lvl) ++ (XTok.tok (.word ['('])).text ++ ['\n'] ++ fmtItems .native lvl xs.length 0 true xs)
      (spaces (4 * lvl) ++ tx (XTok.tok (.word ['('])) ++ ['\n'] ++ fmtItems .native lvl xs.length 0 true xs) tl' := by
    by_cases hne : (srcToksXs (srcOfXs .native xs)).map XTok.tok = []
    · rw [hne] at p2 ⊢
      exact ⟨_, p1.append_nil p2⟩
    · exact ⟨_, p1.append p2 hne fun u g _ _ => gapOK_nl _ u g⟩
  obtain ⟨tl', p12⟩ := p12
  have hl : lastCtx .cov (XTok.tok (.word ['(']) :: (srcToksXs (srcOfXs .native xs)).map XTok.tok) = .dl ∨
      lastCtx .cov (XTok.tok (.word ['(']) :: (srcToksXs (srcOfXs .native xs)).map XTok.tok) = .wd := by
    have e : ctxAfter (XTok.tok (STok.word ['('])) = .dl := by decide
    simp only [lastCtx, e]
    rcases lastCtx_toks .dl (srcToksXs (srcOfXs .native xs)) with h | h | h
    · exact Or.inl h
    · exact Or.inl h
    · exact Or.inr h
  have p3 := LaysP.tok tx .wd (g := spaces (4 * lvl)) (tail := []) (.tok (.word [')'])) (C01.spaces_ws _) rfl
    (by simp [gapOK, close_delim])
  have p4 := LaysP.tok tx .wd (g := []) (tail := ['\n']) (.tok (.word [';'])) rfl C12W.nl_ws (by simp [gapOK, semi_delim])
  have p123 := p12.append p3 (by simp) (fun u g _ hg => gapOK_wd_ext hl u tl' g hg)
  have p1234 := p123.append p4 (by simp) (fun u g _ hg => by
    rw [lastCtx_append, lastCtx_singleton]
    exact gapOK_wd_ext (ctxAfter_tok _) u [] g hg)
  refine Or.inr ⟨by simp, ?_⟩
  simpa [fmtList, fline, XTok.text, STok.text, htok, List.append_assoc] using p1234

end

/-- the text that takes the place of a placeholder line -/
def txOf (τ : Bool → Nat → Str) : XTok → Str
  | .ph l i _ => τ l i
  | t => t.text

/-- the writer's output with the comments in place: like `fmtEntries`, a placeholder entry written as its comment -/
def fmtT (τ : Bool → Nat → Str) (lvl : Nat) : Entries → Str
  | [] => []
  | (k, .dict es) :: r =>
    fline lvl (keyStr k) ++ fline lvl ['{'] ++ fmtT τ (lvl + 1) es ++ fline lvl ['}'] ++ fmtT τ lvl r
  | (k, .list xs) :: r => fline lvl (keyStr k) ++ fmtList .native lvl false xs ++ fmtT τ lvl r
  | (k, .leaf x) :: r =>
    (match phOf k x with
     | some (l, i) => fline lvl (τ l i)
     | none => fline lvl (keyStr k ++ padOf lvl (keyStr k) ++ formatScalar .native x ++ [';'])) ++ fmtT τ lvl r

/-- **M1 with both texts**: the raw output and the output with the comments in place are layouts with the same gaps -/
theorem lays_entriesP (τ : Bool → Nat → Str) : ∀ (d lvl : Nat) (D : Entries), wshEs d D = true →
    LaysLP (txOf τ) (xtoksEs lvl D) (fmtEntries .native lvl D) (fmtT τ lvl D)
  | _, _, [], _ => by simp only [xtoksEs, fmtEntries, fmtT]; exact LaysLP.nil _
  | d, lvl, (k, .dict es) :: r, h => by
    simp only [wshEs, Bool.and_eq_true] at h
    have h0 := LaysLP.line (txOf τ) lvl (.tok (.word (keyStr k)))
    have h1 := LaysLP.line (txOf τ) lvl (.tok (.word ['{']))
    have h2 := lays_entriesP τ (d + 1) (lvl + 1) es h.1.2
    have h3 := LaysLP.line (txOf τ) lvl (.tok (.word ['}']))
    have h4 := lays_entriesP τ d lvl r h.2
    have := (((h0.append h1).append h2).append h3).append h4
    simpa [xtoksEs, fmtEntries, fmtT, txOf, XTok.text, STok.text] using this
  | d, lvl, (k, .list xs) :: r, h => by
    simp only [wshEs, Bool.and_eq_true] at h
    have h0 := LaysLP.line (txOf τ) lvl (.tok (.word (keyStr k)))
    have h1 := laysP_list_block (txOf τ) (fun _ => rfl) lvl xs (d + 1) h.1.2
    have h4 := lays_entriesP τ d lvl r h.2
    have := (h0.append h1).append h4
    simpa [xtoksEs, fmtEntries, fmtT, txOf, XTok.text, STok.text] using this
  | d, lvl, (k, .leaf x) :: r, h => by
    simp only [wshEs, Bool.and_eq_true, Bool.or_eq_true, decide_eq_true_eq] at h
    have h4 := lays_entriesP τ d lvl r h.2
    cases hp : phOf k x with
    | some li =>
      obtain ⟨l, i⟩ := li
      obtain ⟨rfl, rfl, hi⟩ := phOf_some hp
      have h0 := LaysLP.line (txOf τ) lvl (.ph l i (padOf lvl (phWord l i)))
      have := h0.append h4
      simpa [xtoksEs, hp, fmtEntries, fmtT, txOf, XTok.text, formatKey, formatScalar, phWord_format, padOf] using this
    | none =>
      rw [hp] at h
      rcases h.1 with h1 | h1
      · cases h1
      · have h0 := laysP_leaf_line (txOf τ) (fun _ => rfl) lvl (.word (keyStr k)) (writtenLit .native x).tok
          (padOf lvl (keyStr k)) (padOf_ws _ _) (padOf_ne _ _)
        have := h0.append h4
        simpa [xtoksEs, hp, fmtEntries, fmtT, C01.text_word, C01.writtenLit_text, C01.formatKey_eq_keyStr h1.1.1, padOf]
          using this

/-! ## 2. the writer on a commented document (a function of the document alone) -/

mutual
  /-- `fmtList` on the written spelling of the list -/
  def fmtSList (lvl : Nat) (inList : Bool) (xs : List Src) : Str :=
    fline lvl ['('] ++ fmtSItems lvl xs.length 0 true xs ++ fline lvl (if inList then [')'] else [')', ';'])
  def fmtSItems (lvl n idx : Nat) (first : Bool) : List Src → Str
    | [] => []
    | .list ys :: rest => fmtSList (lvl + 1) true ys ++ fmtSItems lvl n (idx + 1) first rest
    | .dict es :: rest =>
        fline (lvl + 1) [] ++ fline (lvl + 1) ['{'] ++ fmtSEs (lvl + 2) es ++ fline (lvl + 1) ['}'] ++
          fmtSItems lvl n (idx + 1) true rest
    | .lit l :: rest =>
        let value := l.tok.text
        let itemLevel := if first then lvl + 1 else 1
        let last := (idx + 1) % 10 == 0 || idx + 1 == n
        if last then fline itemLevel value ++ fmtSItems lvl n (idx + 1) true rest
        else fline itemLevel (value ++ spaces (14 - value.length)) false ++ fmtSItems lvl n (idx + 1) false rest
  def fmtSEs (lvl : Nat) : SrcEntries → Str
    | [] => []
    | (k, .dict es) :: rest => fline lvl k ++ fline lvl ['{'] ++ fmtSEs (lvl + 1) es ++ fline lvl ['}'] ++ fmtSEs lvl rest
    | (k, .list xs) :: rest => fline lvl k ++ fmtSList lvl false xs ++ fmtSEs lvl rest
    | (k, .lit l) :: rest =>
        fline lvl (k ++ spaces (max 8 (30 - k.length - 4 * lvl)) ++ l.tok.text ++ [';']) ++ fmtSEs lvl rest
end

theorem srcOfXs_length : ∀ (xs : List Val), (srcOfXs .native xs).length = xs.length
  | [] => by simp [srcOfXs]
  | v :: xs => by simp [srcOfXs, srcOfXs_length xs]

mutual
  theorem fmtItems_src : ∀ (d lvl n idx : Nat) (first : Bool) (xs : List Val), domXs .native d xs = true →
      fmtItems .native lvl n idx first xs = fmtSItems lvl n idx first (srcOfXs .native xs)
    | _, _, _, _, _, [], _ => by simp [fmtItems, srcOfXs, fmtSItems]
    | d, lvl, n, idx, first, .list ys :: rest, h => by
      simp only [domXs, domV, Bool.and_eq_true] at h
      simp only [fmtItems, srcOfXs, srcOfV, fmtSItems, fmtList, fmtSList, srcOfXs_length,
        fmtItems_src (d + 1) (lvl + 1) ys.length 0 true ys h.1, fmtItems_src d lvl n (idx + 1) first rest h.2]
    | d, lvl, n, idx, first, .dict es :: rest, h => by
      simp only [domXs, domV, Bool.and_eq_true] at h
      simp only [fmtItems, srcOfXs, srcOfV, fmtSItems, fmtEntries_src (d + 1) (lvl + 2) es h.1.1,
        fmtItems_src d lvl n (idx + 1) true rest h.2]
    | d, lvl, n, idx, first, .leaf x :: rest, h => by
      simp only [domXs, Bool.and_eq_true] at h
      simp only [fmtItems, srcOfXs, srcOfV, fmtSItems, C01.writtenLit_text,
        fmtItems_src d lvl n (idx + 1) true rest h.2, fmtItems_src d lvl n (idx + 1) false rest h.2]
  theorem fmtEntries_src : ∀ (d lvl : Nat) (es : Entries), domEs .native d es = true →
      fmtEntries .native lvl es = fmtSEs lvl (srcOfEs .native es)
    | _, _, [], _ => by simp [fmtEntries, srcOfEs, fmtSEs]
    | d, lvl, (k, .dict sub) :: rest, h => by
      simp only [domEs, domV, Bool.and_eq_true] at h
      simp only [fmtEntries, srcOfEs, srcOfV, fmtSEs, fmtEntries_src (d + 1) (lvl + 1) sub h.1.2.1,
        fmtEntries_src d lvl rest h.2]
    | d, lvl, (k, .list xs) :: rest, h => by
      simp only [domEs, domV, Bool.and_eq_true] at h
      simp only [fmtEntries, srcOfEs, srcOfV, fmtSEs, fmtList, fmtSList, srcOfXs_length,
        fmtItems_src (d + 1) lvl xs.length 0 true xs h.1.2, fmtEntries_src d lvl rest h.2]
    | d, lvl, (k, .leaf x) :: rest, h => by
      simp only [domEs, Bool.and_eq_true] at h
      simp only [fmtEntries, srcOfEs, srcOfV, fmtSEs, C01.writtenLit_text, C01.formatKey_eq_keyStr h.1.1,
        fmtEntries_src d lvl rest h.2]
end

theorem fmtList_src (d lvl : Nat) (b : Bool) (xs : List Val) (h : domXs .native d xs = true) :
    fmtList .native lvl b xs = fmtSList lvl b (srcOfXs .native xs) := by
  rw [fmtList, fmtSList, srcOfXs_length, fmtItems_src d lvl xs.length 0 true xs h]

/-- **the writer on a commented document**: every entry and every comment on lines of its own, at the indentation of
    its level -/
def fmtDoc (lvl : Nat) : List CItem → Str
  | [] => []
  | .entry k (.lit l) :: r => fline lvl (k ++ padOf lvl k ++ l.tok.text ++ [';']) ++ fmtDoc lvl r
  | .entry k (.dict items) :: r =>
    fline lvl k ++ fline lvl ['{'] ++ fmtDoc (lvl + 1) items ++ fline lvl ['}'] ++ fmtDoc lvl r
  | .entry k (.list xs) :: r => fline lvl k ++ fmtSList lvl false xs ++ fmtDoc lvl r
  | .lineC x :: r => fline lvl (lineFull x) ++ fmtDoc lvl r
  | .blockC x :: r => fline lvl (blockFull x) ++ fmtDoc lvl r

theorem fmtDoc_append (lvl : Nat) : ∀ (a b : List CItem), fmtDoc lvl (a ++ b) = fmtDoc lvl a ++ fmtDoc lvl b
  | [], b => by simp [fmtDoc]
  | .entry k (.lit l) :: a, b => by simp only [List.cons_append, fmtDoc, fmtDoc_append lvl a b, List.append_assoc]
  | .entry k (.dict its) :: a, b => by simp only [List.cons_append, fmtDoc, fmtDoc_append lvl a b, List.append_assoc]
  | .entry k (.list xs) :: a, b => by simp only [List.cons_append, fmtDoc, fmtDoc_append lvl a b, List.append_assoc]
  | .lineC x :: a, b => by simp only [List.cons_append, fmtDoc, fmtDoc_append lvl a b, List.append_assoc]
  | .blockC x :: a, b => by simp only [List.cons_append, fmtDoc, fmtDoc_append lvl a b, List.append_assoc]

/-- the comment texts looked up in the two tables -/
def tauOf (L B : Tbl Str) (l : Bool) (i : Nat) : Str := ((if l then L else B).get? i).getD []

/-- the output with the comments in place is the writer's text for the document `docEs L B D` -/
theorem fmtT_doc (L B : Tbl Str) (hL : ∀ e ∈ L, ∃ x, e.2 = lineFull x) (hB : ∀ e ∈ B, ∃ x, e.2 = blockFull x) :
    ∀ (d lvl : Nat) (D : Entries), wshEs d D = true → phCov L B D = true →
    fmtT (tauOf L B) lvl D = fmtDoc lvl (docEs L B D)
  | _, _, [], _, _ => by simp [fmtT, docEs, fmtDoc]
  | d, lvl, (k, .dict es) :: r, hw, hc => by
    simp only [wshEs, Bool.and_eq_true] at hw
    simp only [phCov, Bool.and_eq_true] at hc
    simp only [fmtT, docEs, fmtDoc, fmtT_doc L B hL hB (d + 1) (lvl + 1) es hw.1.2 hc.1,
      fmtT_doc L B hL hB d lvl r hw.2 hc.2]
  | d, lvl, (k, .list xs) :: r, hw, hc => by
    simp only [wshEs, Bool.and_eq_true] at hw
    simp only [phCov] at hc
    simp only [fmtT, docEs, fmtDoc, fmtList_src (d + 1) lvl false xs hw.1.2, fmtT_doc L B hL hB d lvl r hw.2 hc]
  | d, lvl, (k, .leaf x) :: r, hw, hc => by
    simp only [wshEs, Bool.and_eq_true] at hw
    simp only [phCov, Bool.and_eq_true] at hc
    have ih := fmtT_doc L B hL hB d lvl r hw.2 hc.2
    cases hp : phOf k x with
    | none => simp only [fmtT, docEs, hp, fmtDoc, C01.writtenLit_text, ih]
    | some li =>
      obtain ⟨l, i⟩ := li
      rw [hp] at hc
      cases l with
      | true =>
        obtain ⟨t, ht⟩ := Option.isSome_iff_exists.mp hc.1
        obtain ⟨y, hy⟩ := hL _ (tbl_get_mem ht)
        simp only at hy
        subst hy
        simp only [fmtT, docEs, hp, fmtDoc, tauOf, if_true, ht, Option.getD_some, lineFull, lineBody_eq, ih]
      | false =>
        obtain ⟨t, ht⟩ := Option.isSome_iff_exists.mp hc.1
        obtain ⟨y, hy⟩ := hB _ (tbl_get_mem ht)
        simp only at hy
        subst hy
        simp only [fmtT, docEs, hp, fmtDoc, tauOf, Bool.false_eq_true, if_false, ht, Option.getD_some, blockFull,
          blockBody_eq, ih]

/-! ## 3. the written text as a function of the document: `fmtSD sd = rts (fmtDoc 0 (docSD sd))` -/

theorem get_blockTbl_isSome (B : Tbl Str) (j : Nat) : ((blockTbl B).get? j).isSome = (B.get? j).isSome := by
  cases B with
  | nil => rfl
  | cons e B =>
    obtain ⟨i, t⟩ := e
    simp only [blockTbl, Tbl.get?]
    split <;> rfl

/-- the text of a token after both insertion passes -/
theorem final_text {L B : Tbl Str} {t : XTok} (h : XOK L B t) :
    (substTokT true L (substTokT false (blockTbl B) t)).text = txOf (tauOf L (blockTbl B)) t := by
  cases t with
  | tok s => rfl
  | cmt l f => exact h.elim
  | ph l i pad =>
    cases l with
    | true =>
      obtain ⟨txt, ht⟩ := Option.isSome_iff_exists.mp h.2.2.2
      simp only [if_true] at ht
      simp [substTokT, ht, txOf, tauOf, XTok.text]
    | false =>
      have hs : ((blockTbl B).get? i).isSome = true := by
        rw [get_blockTbl_isSome]; simpa using h.2.2.2
      obtain ⟨txt, ht⟩ := Option.isSome_iff_exists.mp hs
      simp [substTokT, ht, txOf, tauOf, XTok.text]

theorem layX_map_text (f : XTok → XTok) (tx : XTok → Str) : ∀ (lay : List (Str × XTok)) (tail : Str),
    (∀ p ∈ lay, (f p.2).text = tx p.2) → layX (lay.map fun p => (p.1, f p.2)) tail = layG tx lay tail
  | [], _, _ => rfl
  | (g, t) :: lay, tail, h => by
    simp only [List.map_cons, layX, layG, h (g, t) List.mem_cons_self,
      layX_map_text f tx lay tail fun p hp => h p (List.mem_cons_of_mem _ hp)]

theorem fmtT_congr {τ τ' : Bool → Nat → Str} : ∀ (lvl : Nat) (D : Entries),
    (∀ l, ∀ i ∈ idsT l D, τ l i = τ' l i) → fmtT τ lvl D = fmtT τ' lvl D
  | _, [], _ => by simp [fmtT]
  | lvl, (k, .dict es) :: r, h => by
    simp only [fmtT, fmtT_congr (lvl + 1) es (fun l i hi => h l i (by simp [idsT, hi])),
      fmtT_congr lvl r (fun l i hi => h l i (by simp [idsT, hi]))]
  | lvl, (k, .list xs) :: r, h => by
    simp only [fmtT, fmtT_congr lvl r (fun l i hi => h l i (by simpa [idsT] using hi))]
  | lvl, (k, .leaf x) :: r, h => by
    have ih := fmtT_congr lvl r (fun l i hi => h l i (by simp [idsT, hi]))
    cases hp : phOf k x with
    | none => simp only [fmtT, hp, ih]
    | some li =>
      obtain ⟨l, i⟩ := li
      have := h l i (by simp [idsT, hp])
      simp only [fmtT, hp, ih, this]

theorem fline0 (x : Str) : fline 0 x = x ++ ['\n'] := by simp [fline, spaces]

theorem fmtDoc_hdr : fmtDoc 0 [.blockC C12.hdrBody] = nativeHeader := by
  have : blockFull C12.hdrBody = C12.hdrComment := C12.hdrComment_shape.symm
  simp only [fmtDoc, fline0, this, List.append_nil, C12.nativeHeader_split]

/-- **the written text is a function of the written document.**  For every SDict with `WOK sd` the writer's text is
    `remove_trailing_spaces` of the plain line-by-line text of `docSD sd`. -/
theorem fmtSD_explicit (sd : SD) (h : WOK sd) :
    fmtSD .native sd = some (removeTrailingSpaces (fmtDoc 0 (docSD sd))) := by
  rw [fmtSD_noIncl sd h.incl]
  congr 2
  have hxok := xtoks_ok sd.lineC sd.blockC 1 0 (hoistPlaceholders sd.data) h.shape h.cov
  have hLsh : ∀ e ∈ sd.lineC, ∃ x, e.2 = lineFull x := fun e he => by
    obtain ⟨x, hx, _⟩ := (h.lineT e he).2; exact ⟨x, hx⟩
  have hBsh : ∀ e ∈ sd.blockC, ∃ x, e.2 = blockFull x := fun e he => by
    obtain ⟨x, hx, _⟩ := (h.blockT e he).2; exact ⟨x, hx⟩
  have hdocT := fmtT_doc sd.lineC sd.blockC hLsh hBsh 1 0 (hoistPlaceholders sd.data) h.shape h.cov
  have hLfacts : ∀ e ∈ sd.lineC, e.1 ≤ 999999 ∧ NoPh e.2 := fun e he =>
    ⟨(h.lineT e he).1, by obtain ⟨_, _, _, _, hno⟩ := (h.lineT e he).2; exact hno⟩
  rw [docSD, fmtDoc_append, ← hdocT]
  rcases lays_entriesP (tauOf sd.lineC (blockTbl sd.blockC)) 1 0 (hoistPlaceholders sd.data) h.shape with
    ⟨hx, ha, hb⟩ | ⟨hne, lay, hm, hraw, hfin, ok, _⟩
  · -- the empty document
    have hB : sd.blockC = [] := by
      cases hBc : sd.blockC with
      | nil => rfl
      | cons e B' =>
        have := h.bPres e (by rw [hBc]; exact List.mem_cons_self)
        rw [hx] at this
        simp at this
    have hD : hoistPlaceholders sd.data = [] := xtoks_nil hx
    rw [ha, hB, C12.C12_header_default, hD]
    simp only [hdrItems, ownHeader, Bool.false_eq_true, if_false, fmtDoc_hdr, fmtT, List.append_nil]
    have hlay : nativeHeader = layX [([], XTok.cmt false C12.hdrComment)] ['\n'] := by
      simp [layX, XTok.text, C12.nativeHeader_split]
    rw [hlay, insertLine_layX sd.lineC _ .cov ['\n'] (by simp [okX, gapOK]) (by decide)
      (by
        intro p hp
        simp only [List.mem_singleton] at hp
        subst hp
        exact noPh_of_noComment hdr_noComment) hLfacts]
    simp [substTokT]
  · have hmem : ∀ p ∈ lay, XOK sd.lineC sd.blockC p.2 := fun p hp =>
      hxok p.2 (by rw [← hm]; exact List.mem_map_of_mem hp)
    have hfinal : layX ((lay.map fun p => (p.1, substTokT false (blockTbl sd.blockC) p.2)).map
        fun p => (p.1, substTokT true sd.lineC p.2)) ['\n'] =
        fmtT (tauOf sd.lineC (blockTbl sd.blockC)) 0 (hoistPlaceholders sd.data) := by
      rw [hfin, List.map_map]
      exact layX_map_text (fun t => substTokT true sd.lineC (substTokT false (blockTbl sd.blockC) t)) _ lay ['\n']
        (fun p hp => final_text (hmem p hp))
    cases hBc : sd.blockC with
    | nil =>
      -- no block comment: the default header in front
      rw [C12.C12_header_default, hraw]
      simp only [hdrItems, ownHeader, Bool.false_eq_true, if_false, fmtDoc_hdr]
      rw [hBc] at hfinal hmem
      simp only [blockTbl] at hfinal
      cases lay with
      | nil => exact absurd (by simpa using hm.symm) hne
      | cons p0 r0 =>
        obtain ⟨g0, t0⟩ := p0
        simp only [okX, Bool.and_eq_true] at ok
        have hlay : nativeHeader ++ layX ((g0, t0) :: r0) ['\n'] =
            layX (([], XTok.cmt false C12.hdrComment) :: ('\n' :: g0, t0) :: r0) ['\n'] := by
          simp [layX, XTok.text, C12.nativeHeader_split]
        have hinv : ∀ p ∈ (([] : Str), XTok.cmt false C12.hdrComment) :: ('\n' :: g0, t0) :: r0, TokInv p.2 := by
          intro p hp
          rcases List.mem_cons.mp hp with rfl | hp
          · exact noPh_of_noComment hdr_noComment
          · rcases List.mem_cons.mp hp with rfl | hp
            · exact tokInv_of_xok (hmem (g0, t0) List.mem_cons_self)
            · exact tokInv_of_xok (hmem p (List.mem_cons_of_mem _ hp))
        rw [hlay, insertLine_layX sd.lineC _ .cov ['\n']
          (by
            simp only [okX, Bool.and_eq_true, gapOK_nl, and_true]
            refine ⟨⟨rfl, rfl⟩, ⟨?_, ok.2⟩⟩
            simp only [List.all_cons, Bool.and_eq_true]
            exact ⟨by decide, ok.1.1⟩) (by decide) hinv hLfacts]
        have emap : (List.map (fun p => (p.1, substTokT false [] p.2)) ((g0, t0) :: r0)) = (g0, t0) :: r0 := by
          simp [substTokT_nil]
        rw [emap] at hfinal
        rw [← hfinal]
        have ec : substTokT true sd.lineC (.cmt false C12.hdrComment) = .cmt false C12.hdrComment := rfl
        simp only [List.map_cons, layX, ec, XTok.text, C12.nativeHeader_split, List.nil_append, List.append_assoc,
          List.cons_append]
    | cons e B' =>
      obtain ⟨i0, t0'⟩ := e
      have hfirst := h.first
      rw [hBc] at hfirst hmem hfinal
      obtain ⟨pad, rx, hxs, huniq⟩ := hfirst
      have hpres : ∀ e' ∈ (i0, t0') :: B', e'.1 ≤ 999999 ∧ NoPh e'.2 ∧ (lay.any fun p => isPhX false e'.1 p.2) = true := by
        intro e' he'
        have h1 := h.blockT e' (by rw [hBc]; exact he')
        obtain ⟨_, _, _, _, _, hno⟩ := h1.2
        refine ⟨h1.1, hno, ?_⟩
        rw [any_map_snd, hm]
        exact h.bPres e' (by rw [hBc]; exact he')
      have hhdr : NoPh (makeDefaultBlockComment .native t0') := by
        obtain ⟨_, _, _, _, _, hno⟩ := (h.blockT (i0, t0') (by rw [hBc]; exact List.mem_cons_self)).2
        rw [C12.makeDefault_native]
        split
        · exact hno
        · exact noPh_hdr_append hno
      have hinv : ∀ p ∈ lay, TokInv p.2 := fun p hp => tokInv_of_xok (hmem p hp)
      have hins := insertBlock_layX (i0, t0') B' lay .cov ['\n'] ok (by decide) hinv hpres hhdr
        (by rw [← hBc]; exact h.bNodup) (by rw [← hBc]; exact h.indep)
      rw [hraw, hins]
      -- the tokens after the block pass
      have hinv1 : ∀ p ∈ lay.map (fun p => (p.1, substTokT false (blockTbl ((i0, t0') :: B')) p.2)), TokInv p.2 := by
        intro p hp
        obtain ⟨q, hq, rfl⟩ := List.mem_map.mp hp
        have hx := hmem q hq
        cases hq2 : q.2 with
        | tok s => rw [hq2] at hx; exact tokInv_of_xok hx
        | cmt l f => rw [hq2] at hx; exact hx.elim
        | ph l i pad' =>
          rw [hq2] at hx
          cases l with
          | true => simp only [substTokT, Bool.true_eq_false, if_false]; exact ⟨hx.1, hx.2.1, hx.2.2.1⟩
          | false =>
            have hs : ((blockTbl ((i0, t0') :: B')).get? i).isSome = true := by
              rw [get_blockTbl_isSome]; simpa using hx.2.2.2
            obtain ⟨txt, ht⟩ := Option.isSome_iff_exists.mp hs
            simp only [substTokT, if_true, ht]
            have hmemT := tbl_get_mem ht
            simp only [blockTbl, List.mem_cons] at hmemT
            rcases hmemT with e | hmB
            · cases e; exact hhdr
            · obtain ⟨_, _, _, _, _, hno⟩ := (h.blockT (i, txt) (by rw [hBc]; exact List.mem_cons_of_mem _ hmB)).2
              exact hno
      rw [insertLine_layX sd.lineC _ .cov ['\n'] (by rw [okX_mapT]; exact ok) (by decide) hinv1 hLfacts, hfinal]
      -- the header
      by_cases hcpp : containsCpp t0' = true
      · have hB0 : blockTbl ((i0, t0') :: B') = (i0, t0') :: B' := by
          simp only [blockTbl, C12.makeDefault_native, hcpp, if_true]
        simp only [hdrItems, ownHeader, hcpp, if_true, fmtDoc, List.nil_append, hB0]
      · simp only [hdrItems, ownHeader, hcpp, Bool.false_eq_true, if_false, fmtDoc_hdr]
        -- the first entry of the hoisted top level is the placeholder entry of the first block comment
        cases hD : hoistPlaceholders sd.data with
        | nil => rw [hD] at hxs; simp [xtoksEs] at hxs
        | cons e0 R =>
          obtain ⟨k, v⟩ := e0
          have hw := h.shape
          rw [hD] at hxs hw
          cases v with
          | dict es => simp [xtoksEs] at hxs
          | list xs => simp [xtoksEs] at hxs
          | leaf x =>
            simp only [wshEs, Bool.and_eq_true] at hw
            cases hp : phOf k x with
            | none => simp [xtoksEs, hp] at hxs
            | some li =>
              obtain ⟨l, i⟩ := li
              simp only [xtoksEs, hp, List.singleton_append, List.cons.injEq, XTok.ph.injEq] at hxs
              obtain ⟨⟨rfl, rfl, _⟩, hrx⟩ := hxs
              have hnot : i ∉ idsT false R := by
                rw [← bIds_xtoks 1 0 R hw.2, hrx]
                intro hm'
                obtain ⟨pad', hp'⟩ := mem_bIds.mp hm'
                have := huniq _ hp'
                simp [isPhX] at this
              have hcg : fmtT (tauOf sd.lineC (blockTbl ((i, t0') :: B'))) 0 R =
                  fmtT (tauOf sd.lineC ((i, t0') :: B')) 0 R := by
                apply fmtT_congr
                intro l j hj
                cases l with
                | true => rfl
                | false =>
                  have hne' : ¬ i = j := fun e => hnot (e ▸ hj)
                  simp [tauOf, blockTbl, Tbl.get?, hne']
              simp only [fmtT, hp, hcg, fline0]
              simp [tauOf, blockTbl, Tbl.get?, C12.makeDefault_native, hcpp]

/-- **the text written for a commented document** is a function of `writtenDoc2 items` alone (not of the ids drawn) -/
theorem written_text {c : Counter} {items : List CItem} (H : HW2 c items) :
    fmtSD .native (denC c items) = some (removeTrailingSpaces (fmtDoc 0 (writtenDoc2 items))) := by
  obtain ⟨hwok, hdoc⟩ := sdOf2_facts H
  rw [denC_closed2 H.toHDoc2, fmtSD_explicit _ hwok, hdoc]

/-! ## 4. the canonical document is a fixed point of the canonicalisation -/

theorem keyOfStr_keyStr {k : Key} (h : isDomKey k = true) : keyOfStr (keyStr k) = k := by
  simp [keyOfStr, C01.domKey_types_back h]

mutual
  theorem cnorm_idemV : ∀ (v : CSrc) (d : Nat), CSrcWFV d v = true → okV d v = true → cnormV (cnormV v) = cnormV v
    | .lit l, d, hwf, hok => by
      simp only [CSrcWFV, okV, Bool.and_eq_true] at hwf hok
      simp only [cnormV, C01.den_writtenLit hok.1, C03.normScalar_den hwf.1]
    | .list xs, d, hwf, hok => by
      simp only [CSrcWFV, okV] at hwf hok
      simp only [cnormV, C01.den_srcOfXs (d + 1) _ hok, C03.norm_denXs (d + 1) xs hwf]
    | .dict items, d, hwf, hok => by
      simp only [CSrcWFV, okV] at hwf hok
      simp only [cnormV, cnorm_idemI items (d + 1) hwf hok]
  /-- respelling twice is respelling once: what the reader returns is already typed -/
  theorem cnorm_idemI : ∀ (items : List CItem) (d : Nat), CSrcWFItems d items = true → okI d items = true →
      cnormI (cnormI items) = cnormI items
    | [], _, _, _ => by simp only [cnormI]
    | .entry k v :: r, d, hwf, hok => by
      simp only [CSrcWFItems, okI, Bool.and_eq_true] at hwf hok
      simp only [cnormI, keyOfStr_keyStr hok.1.1, cnorm_idemV v d hwf.1.2 hok.1.2, cnorm_idemI r d hwf.2 hok.2]
    | .lineC x :: r, d, hwf, hok => by
      simp only [CSrcWFItems, okI, Bool.and_eq_true] at hwf hok
      simp only [cnormI, cnorm_idemI r d hwf.2 hok.2]
    | .blockC x :: r, d, hwf, hok => by
      simp only [CSrcWFItems, okI, Bool.and_eq_true] at hwf hok
      simp only [cnormI, cnorm_idemI r d hwf.2 hok.2]
end

theorem cnormI_append : ∀ (a b : List CItem), cnormI (a ++ b) = cnormI a ++ cnormI b
  | [], b => by simp [cnormI]
  | .entry k v :: a, b => by simp only [List.cons_append, cnormI, cnormI_append a b]
  | .lineC x :: a, b => by simp only [List.cons_append, cnormI, cnormI_append a b]
  | .blockC x :: a, b => by simp only [List.cons_append, cnormI, cnormI_append a b]

theorem isBlock_entry (k : Str) (v : CSrc) : isBlockItem (.entry k v) = false := rfl
theorem isBlock_line (x : Str) : isBlockItem (.lineC x) = false := rfl
theorem isBlock_block (x : Str) : isBlockItem (.blockC x) = true := rfl

theorem cnormI_filter_block : ∀ (a : List CItem),
    cnormI (a.filter isBlockItem) = (cnormI a).filter isBlockItem ∧
    cnormI (a.filter fun it => !isBlockItem it) = (cnormI a).filter fun it => !isBlockItem it
  | [] => by simp [cnormI]
  | .entry k v :: a => by
    obtain ⟨h1, h2⟩ := cnormI_filter_block a
    simp only [List.filter_cons, isBlock_entry, Bool.false_eq_true, if_false, Bool.not_false, if_true, cnormI, h1, h2]
    exact ⟨trivial, trivial⟩
  | .lineC x :: a => by
    obtain ⟨h1, h2⟩ := cnormI_filter_block a
    simp only [List.filter_cons, isBlock_line, Bool.false_eq_true, if_false, Bool.not_false, if_true, cnormI, h1, h2]
    exact ⟨trivial, trivial⟩
  | .blockC x :: a => by
    obtain ⟨h1, h2⟩ := cnormI_filter_block a
    simp only [List.filter_cons, isBlock_block, Bool.false_eq_true, if_false, Bool.not_true, if_true, cnormI, h1, h2]
    exact ⟨trivial, trivial⟩

end DictIO.C03c
