/-
  C12 / C01 / C03 / C16 -- the header block comment the library writes survives read → write.

  Every file written from an `SDict` starts with `nativeHeader` (a block comment).  Reading such a file turns the
  header into block comment number 0: the data gets the placeholder entry `BLOCKCOMMENT000000 ↦ BLOCKCOMMENT000000`
  in front, `blockC = [(0, header-without-final-newline)]`; writing that SDict puts the header back.

    (a) `hdrComment`, `nativeHeader_split`, `hdrComment_shape`, `hdrBody_noEnd`, `hdrChars_noSlashes`, `hdrChars_noHash`,
        `hdrComment_cpp`                    the header, character by character (kernel evaluation on `nativeHeaderChars`)
    (b) `read_header`, `read_header_off`    the reader on `nativeHeader ++ layout` (hypotheses of `C02_layout_tolerant`);
        `read_header_gen`, `read_header_off_gen` name the counter; `clean_single_header`
        route: `front_block` (line stages are identities), `hdr_blockStage` (`C12_blockComment`), `normalise_hdr`,
        `parseBlockSt_hdr` / `parseBlockSt_plain` (literal stage from an arbitrary lexer state, `stages_tail`),
        `insert_literals_hdr`, `denSrc_hdr`, `finish_hdr`
    (c) `write_header`, `write_header_gen`  the writer on the SDict of (b); `insertBlock_hdr`, `rts_header`, `fmtSD_text`;
        `noInfix_spread`, `noComment_spread`: a layout of a well-formed document does not contain `COMMENT`
    (d) `header_fixpoint`, `read_dumped`    write ∘ read is the identity on the bytes of a written file
-/
import DictIO.Props.C12
import DictIO.Props.C01

namespace DictIO.C12
open DictIO

set_option linter.unusedSimpArgs false
set_option linter.unusedVariables false

/-! ## (a) the header comment, character by character -/

/-- the header block comment: `nativeHeader` without its final line feed -/
def hdrComment : Str := nativeHeaderChars.dropLast

/-- what stands between `/*` and `*/` in the header -/
def hdrBody : Str := ((nativeHeaderChars.drop 2).dropLast.dropLast).dropLast

/-- the placeholder word of block comment number 0 -/
def hdrPh : Str := kwBlock ++ padSix 0

theorem hdrChars_split : nativeHeaderChars = hdrComment ++ ['\n'] := by decide +kernel

theorem nativeHeader_split : nativeHeader = hdrComment ++ ['\n'] := by
  rw [nativeHeader_eq]; exact hdrChars_split

theorem hdrComment_shape : hdrComment = '/' :: '*' :: (hdrBody ++ ['*', '/']) := by decide +kernel

theorem hdrBody_noEnd : isInfix ['*', '/'] hdrBody = false := by decide +kernel

theorem hdrComment_noOpen : isInfix ['/', '*'] (hdrComment.drop 1) = false := by decide +kernel

theorem hdrChars_noSlashes : isInfix ['/', '/'] nativeHeaderChars = false := by decide +kernel

theorem hdrComment_cpp : containsCpp hdrComment = true := by decide +kernel

theorem hdrChars_noHash :
    C02.Main.noHash true nativeHeaderChars = true ∧ C02.Main.lineSt true nativeHeaderChars = true := by
  decide +kernel

theorem hdrPh_eq : hdrPh = "BLOCKCOMMENT000000".toList := by
  rw [hdrPh, padSix_zero]; decide


attribute [local irreducible] nativeHeader
set_option linter.unnecessarySimpa false

/-! ## `_clean` keeps the single header entry -/


def hdrEntry : Key × Val := (.str hdrPh, .leaf (.str hdrPh))

theorem hdrPh_block : containsPh kwBlock hdrPh = true := by decide +kernel
theorem hdrPh_digits : firstSixDigits hdrPh = some 0 := by decide +kernel
theorem hdrPh_isPh : C07.isPhKey (.str hdrPh) = true := by decide +kernel

theorem cleanLevel_hdr (s : SD) (txt : Str) (D : Entries) (hb : s.blockC = [(0, txt)])
    (hD : ∀ k ∈ keys D, C07.isPhKey k = false) :
    cleanLevel s (hdrEntry :: D) = (s, hdrEntry :: D) := by
  have key : ∀ sel : Key → Bool, (∀ k, sel k = true → C07.isPhKey k = true) → (keys D).filter sel = [] := by
    intro sel hsel
    apply List.filter_eq_nil_iff.mpr
    intro k hk hs
    have := hD k hk
    rw [hsel k hs] at this
    exact absurd this (by decide)
  cases s with
  | mk data exprs lineC blockC incl =>
  simp only at hb
  subst hb
  simp only [cleanLevel, hdrEntry, keys, List.map_cons, List.filter_cons, hdrPh_block, Bool.not_true, Bool.false_and,
    if_true, Bool.false_eq_true, if_false]
  rw [key]
  · simp only [List.foldl_cons, List.foldl_nil, hdrPh_digits, Tbl.get?, if_true, List.contains_nil, Bool.false_eq_true,
      if_false, List.map_cons, List.filter_cons, hdrPh_block, Bool.not_true, Bool.false_and]
    rw [key]
    · simp only [List.foldl_nil, List.map_cons, List.filter_cons, hdrPh_block, Bool.not_true, Bool.false_and,
        Bool.false_eq_true, if_false]
      rw [key]
      · simp only [List.foldl_nil, List.nil_append]
      · intro k hk; cases k <;> simp_all [C07.isPhKey]
    · intro k hk; cases k <;> simp_all [C07.isPhKey]
  · intro k hk; cases k <;> simp_all [C07.isPhKey]



theorem noPh_keys {D : Entries} (hp : C07.NoPhEs D) : ∀ k ∈ keys D, C07.isPhKey k = false := by
  intro k hk
  obtain ⟨e, he, rfl⟩ := List.mem_map.mp hk
  exact (C07.noPhEs_iff.mp hp e he).1

theorem hdr_not_mem {D : Entries} (hp : C07.NoPhEs D) : Key.str hdrPh ∉ keys D := by
  intro h
  have := noPh_keys hp _ h
  rw [hdrPh_isPh] at this
  cases this

theorem hdr_nodup {D : Entries} (hp : C07.NoPhEs D) (hn : NodupKeysV (.dict D)) :
    NodupKeysV (.dict (hdrEntry :: D)) := by
  refine ⟨?_, ⟨trivial, hn.2⟩⟩
  show (Key.str hdrPh :: keys D).Nodup
  exact List.nodup_cons.mpr ⟨hdr_not_mem hp, hn.1⟩

theorem cleanRec_hdr (fuel : Nat) (s : SD) (txt : Str) (D : Entries) (hb : s.blockC = [(0, txt)])
    (hp : C07.NoPhEs D) (hn : NodupKeysV (.dict D)) :
    cleanRec fuel s (hdrEntry :: D) = (s, hdrEntry :: D) := by
  cases fuel with
  | zero => rfl
  | succ fuel =>
    have hnn := hdr_nodup hp hn
    simp only [cleanRec, cleanLevel_hdr s txt D hb (noPh_keys hp)]
    suffices H : ∀ l : Entries, (∀ e ∈ l, e ∈ hdrEntry :: D) →
        l.foldl (fun (acc : SD × Entries) e =>
          match e.2 with
          | .dict sub => ((cleanRec fuel acc.1 sub).1, setKey e.1 (.dict (cleanRec fuel acc.1 sub).2) acc.2)
          | _ => acc) (s, hdrEntry :: D) = (s, hdrEntry :: D) from H _ (fun _ h => h)
    intro l
    induction l with
    | nil => intro _; rfl
    | cons e l ih =>
      intro hsub
      obtain ⟨k, v⟩ := e
      have hmem : (k, v) ∈ hdrEntry :: D := hsub _ List.mem_cons_self
      have hrest := ih fun e he => hsub e (List.mem_cons_of_mem _ he)
      cases v with
      | leaf x => simpa only [List.foldl_cons] using hrest
      | list xs => simpa only [List.foldl_cons] using hrest
      | dict sub =>
        have hmemD : (k, Val.dict sub) ∈ D := by
          rcases List.mem_cons.mp hmem with h | h
          · cases h
          · exact h
        have hsubn : NodupKeysV (.dict sub) := C07.nodupKeysEs_iff.mp hn.2 _ hmemD
        have hsubp : C07.NoPhEs sub := (C07.noPhEs_iff.mp hp _ hmemD).2
        simp only [List.foldl_cons, C07.cleanRec_id fuel s sub hsubn hsubp, C07.setKey_of_mem_nodup hnn.1 hmem]
        exact hrest

/-- `_clean` keeps the single header placeholder entry: its id is in the table, and it is the only comment -/
theorem clean_single_header (s : SD) (txt : Str) (D : Entries) (hd : s.data = hdrEntry :: D)
    (hb : s.blockC = [(0, txt)]) (hp : C07.NoPhEs D) (hn : NodupKeysV (.dict D)) : s.clean = s := by
  cases s with
  | mk data exprs lineC blockC incl =>
  simp only at hd hb
  subst hd hb
  have h := cleanRec_hdr (depthV (Val.dict (hdrEntry :: D)) + 1)
    { data := hdrEntry :: D, exprs := exprs, lineC := lineC, blockC := [(0, txt)], incl := incl } txt D rfl hp hn
  simp only [SD.clean, h]


/-! ## (b) the reader on `nativeHeader ++ body` -/

/-- the last stages of `parseNative`: `_clean`, removal of the documentation keys -/
def finishSD (es : Entries) (st : LexSt) : SD × Counter :=
  let sd : SD := { data := es, exprs := st.exprs, lineC := st.lineC, blockC := st.blockC, incl := st.incl }
  let sd := sd.clean
  ({ sd with data := dropDocKeys sd.data }, st.counter)

/-- the stages of `parseNative` between newline removal and `_clean`, from an arbitrary lexer state -/
def parseBlockSt' (st0 : LexSt) (block : Str) : Except ParseErr (Entries × LexSt) := do
  let (st, block) ← lexLiteralsFuel (block.length + 1) st0 none block
  let (st, block) := lexExpressions st block
  let es ← parseDictToks true [] (levels 0 (tokenize block)) []
  let es ← insertLiterals st.lits es
  pure (es, st)

def parseBlockSt (st0 : LexSt) (block : Str) : Except ParseErr (Entries × LexSt) :=
  parseBlockSt' st0 (strip (block.map fun ch => if ch == '\n' then ' ' else ch))

/-- the line stages are identities; the block-comment stage is given -/
theorem front_block {t T' : Str} {tbl : Tbl Str} (comments : Bool) (dir : Str) (c : Counter)
    (h1 : isInfix ['/', '/'] t = false) (h3 : ∀ l ∈ splitLinesKeep t, (dropWs l).head? ≠ some '#')
    (hblk : lexBlockCommentsFuel comments (t.length + 1) 0 [] t = (tbl, T')) :
    parseNative comments dir c t =
      (parseBlockSt { counter := c, blockC := tbl } T').map (fun r => finishSD r.1 r.2) := by
  have hl1 : ∀ l ∈ splitLinesKeep t, lexLineComment comments { counter := c } l = ({ counter := c }, l) :=
    fun l hl => C02.lexLineComment_id comments _ (C02.Front.isInfix_false_of_infix h1 (C02.splitLines_infix hl))
  have hl2 : ∀ l ∈ splitLinesKeep t, lexInclude dir { counter := c } l = ({ counter := c }, l) :=
    fun l hl => C02.lexInclude_id dir _ (h3 l hl)
  have f1 := C02.Front.foldl_id_lines (lexLineComment comments) { counter := c } (splitLinesKeep t) [] hl1
  have f2 := C02.Front.foldl_id_lines (lexInclude dir) { counter := c } (splitLinesKeep t) [] hl2
  simp only [List.nil_append] at f1 f2
  simp only [parseNative, f1, f2, C02.splitLines_flatten, hblk]
  simp only [parseBlockSt, parseBlockSt', finishSD, bind, Except.bind, pure, Except.pure, Except.map]
  cases hl : lexLiteralsFuel _ _ none (strip (List.map (fun ch => if (ch == '\n') = true then ' ' else ch) T')) with
  | error e => rfl
  | ok v =>
    simp only []
    cases parseDictToks true [] (levels 0 (tokenize (lexExpressions v.fst v.snd).snd)) [] with
    | error e => rfl
    | ok es =>
      simp only []
      cases insertLiterals (lexExpressions v.fst v.snd).fst.lits es <;> rfl



theorem hdr_front_facts (ts : List STok) (gaps : List Str) (tail : Str) (hts : ∀ t ∈ ts, C02.TokOK t)
    (hg : GapsOKS ts gaps = true) (ht : tail.all isWs = true) :
    isInfix ['/', '/'] (nativeHeader ++ spreadS ts gaps tail) = false ∧
    (∀ l ∈ splitLinesKeep (nativeHeader ++ spreadS ts gaps tail), (dropWs l).head? ≠ some '#') ∧
    isInfix ['/', '*'] ('\n' :: spreadS ts gaps tail) = false := by
  obtain ⟨m1, m2, _⟩ := C02.Main.noMarkup_spread ts gaps tail hts hg ht
  refine ⟨?_, ?_, ?_⟩
  · refine C02.Main.infix2_append (by rw [nativeHeader_eq]; exact hdrChars_noSlashes) m1 ?_
    intro h _
    rw [nativeHeader_split] at h
    simp at h
  · apply C02.Main.noHash_sound
    rw [C02.Main.noHash_append, nativeHeader_eq, hdrChars_noHash.1, hdrChars_noHash.2,
      C02.Main.noHash_spread ts gaps tail hts hg ht true]
    rfl
  · rw [C02.isInfix_cons, m2]
    simp [List.isPrefixOf]

theorem hdr_blockStage (comments : Bool) (body : Str) (hpost : isInfix ['/', '*'] ('\n' :: body) = false) :
    lexBlockCommentsFuel comments ((nativeHeader ++ body).length + 1) 0 [] (nativeHeader ++ body) =
      ([(0, hdrComment)], (if comments then [' '] ++ hdrPh ++ [' '] else []) ++ '\n' :: body) := by
  have e : nativeHeader ++ body = [] ++ '/' :: '*' :: (hdrBody ++ '*' :: '/' :: ('\n' :: body)) := by
    rw [nativeHeader_split, hdrComment_shape]; simp
  have := C12_blockComment comments hdrBody ('\n' :: body) 0 [] hdrBody_noEnd hpost [] ((nativeHeader ++ body).length + 1)
    (by decide) (by rw [← e]; exact Nat.lt_succ_self _)
  rw [← e, ← hdrComment_shape] at this
  rw [this]
  simp [hdrPh, List.append_assoc]



/-- newline removal maps an admissible layout to an admissible layout of the same tokens -/
theorem map_nl_spread (d : Nat) (es : SrcEntries) (gaps : List Str) (tail : Str) (h : SrcWFEs d es = true)
    (hg : GapsOKS (srcToksEs es) gaps = true) (ht : tail.all isWs = true) :
    ∃ gm tm, GapsOKS (srcToksEs es) gm = true ∧ tm.all isWs = true ∧
      (spreadS (srcToksEs es) gaps tail).map (fun ch => if ch == '\n' then ' ' else ch) =
        spreadS (srcToksEs es) gm tm := by
  have hok := C02.srcToksEs_ok es d h
  have htoks : (List.map STok.text (srcToksEs es)).map (·.map fun ch => if ch == '\n' then ' ' else ch) =
      List.map STok.text (srcToksEs es) := by
    rw [List.map_map]
    apply List.map_congr_left
    intro t ht'
    exact C02.map_nl_id _ (C02.tokOK_no_nl (hok t ht'))
  refine ⟨gaps.map (·.map fun ch => if ch == '\n' then ' ' else ch), tail.map fun ch => if ch == '\n' then ' ' else ch,
    C02.gapsOKS_map _ _ hg, C02.nl_ws_all tail ht, ?_⟩
  simp only [spreadS, C02.map_spread, htoks]

theorem hdrPh_chars : ∀ c ∈ hdrPh, isWs c = false ∧ c ≠ '\n' ∧ c ≠ '$' ∧ isQuote c = false ∧ c ≠ '\\' := by
  rw [hdrPh_eq]; decide

theorem hdrPh_shape : ∃ x y, hdrPh = 'B' :: x ∧ hdrPh = y ++ ['0'] := by
  rw [hdrPh_eq]; exact ⟨_, "BLOCKCOMMENT00000".toList, rfl, by decide⟩

/-- the first gap of an admissible layout may be replaced by any white space -/
theorem gapsOKS_head {ts : List STok} {g w : Str} {gs : List Str} (h : GapsOKS ts (g :: gs) = true)
    (hw : w.all isWs = true) : GapsOKS ts (w :: gs) = true := by
  match ts, gs, h with
  | [], _, _ => rfl
  | [t], _, _ => simpa [GapsOKS] using hw
  | t :: u :: ts, [], h => simp [GapsOKS] at h
  | t :: u :: ts, g' :: gs, h =>
    simp only [GapsOKS, Bool.and_eq_true] at h ⊢
    exact ⟨⟨hw, h.1.2⟩, h.2⟩

/-- newline removal and `strip` on the text the block-comment stage leaves (comments on): the placeholder word,
    then an admissible layout of the document's tokens whose first gap is not empty -/
theorem normalise_hdr (d : Nat) (es : SrcEntries) (gaps : List Str) (tail : Str) (h : SrcWFEs d es = true)
    (hg : GapsOKS (srcToksEs es) gaps = true) (ht : tail.all isWs = true) :
    ∃ G, GapsOKS (srcToksEs es) G = true ∧ (es = [] ∨ G.headD [] ≠ []) ∧
      strip (([' '] ++ hdrPh ++ [' '] ++ '\n' :: spreadS (srcToksEs es) gaps tail).map
          fun ch => if ch == '\n' then ' ' else ch) = hdrPh ++ spreadS (srcToksEs es) G [] := by
  obtain ⟨gm, tm, hgm, htm, hmap⟩ := map_nl_spread d es gaps tail h hg ht
  have hph : hdrPh.map (fun ch => if ch == '\n' then ' ' else ch) = hdrPh :=
    C02.map_nl_id _ fun c hc => (hdrPh_chars c hc).2.1
  have e0 : ([' '] ++ hdrPh ++ [' '] ++ '\n' :: spreadS (srcToksEs es) gaps tail).map
      (fun ch => if ch == '\n' then ' ' else ch) = [' '] ++ hdrPh ++ ([' ', ' '] ++ spreadS (srcToksEs es) gm tm) := by
    simp only [List.map_append, List.map_cons, List.map_nil, hph, hmap]
    simp
  rw [e0]
  obtain ⟨x0, y0, hx0, hy0⟩ := hdrPh_shape
  have hB : isWs 'B' = false := by decide
  have h0 : isWs '0' = false := by decide
  by_cases hne : es = []
  · subst hne
    refine ⟨[], rfl, Or.inl rfl, ?_⟩
    simp only [srcToksEs, spreadS, List.map_nil, spread, List.append_nil]
    have := C02.strip_core [' '] hdrPh ([' ', ' '] ++ tm) x0 y0 'B' '0' (by decide) (by rw [List.all_append, htm]; decide) hx0 hy0 hB h0
    simpa [List.append_assoc] using this
  · obtain ⟨t, u, r, e⟩ := C02.srcToksEs_two es hne
    match gm, hgm with
    | [], hgm => rw [e] at hgm; simp [GapsOKS] at hgm
    | [g], hgm => rw [e] at hgm; simp [GapsOKS] at hgm
    | g :: g' :: gs, hgm =>
      have hgws : g.all isWs = true := by
        rw [e] at hgm
        simp only [GapsOKS, Bool.and_eq_true] at hgm
        exact hgm.1.1
      have hg0 : GapsOKS (srcToksEs es) ([] :: g' :: gs) = true := gapsOKS_head hgm rfl
      have hG : GapsOKS (srcToksEs es) ((' ' :: ' ' :: g) :: g' :: gs) = true :=
        gapsOKS_head hgm (by simp [hgws]; decide)
      refine ⟨(' ' :: ' ' :: g) :: g' :: gs, hG, Or.inr (by simp), ?_⟩
      obtain ⟨a, x, y, b, h1, h2, ha, hb⟩ := C02.core_shape d es ([] :: g' :: gs) h hne rfl
      have esplit : ∀ w : Str, spreadS (srcToksEs es) (w :: g' :: gs) tm =
          w ++ spreadS (srcToksEs es) ([] :: g' :: gs) [] ++ tm := by
        intro w
        simp only [spreadS, e, List.map_cons]
        rw [C02.spread_tail]
        simp [spread]
      have esplit0 : spreadS (srcToksEs es) ((' ' :: ' ' :: g) :: g' :: gs) [] =
          (' ' :: ' ' :: g) ++ spreadS (srcToksEs es) ([] :: g' :: gs) [] := by
        have := esplit (' ' :: ' ' :: g)
        simp only [spreadS, e, List.map_cons, spread, List.append_nil, List.nil_append] at this ⊢
        simp [spread]
      rw [esplit g, esplit0]
      generalize spreadS (srcToksEs es) ([] :: g' :: gs) [] = core at h1 h2 ⊢
      have := C02.strip_core [' '] (hdrPh ++ ((' ' :: ' ' :: g) ++ core)) tm
        (x0 ++ ((' ' :: ' ' :: g) ++ core)) (hdrPh ++ ((' ' :: ' ' :: g) ++ y)) 'B' b (by decide) htm
        (by rw [hx0]; rfl) (by rw [h2]; simp) hB hb
      rw [← this]
      simp [List.append_assoc]




/-- the stages after the literal stage, once that stage has produced an admissible layout of a well-formed token
    tree -/
theorem stages_tail (st0 st1 : LexSt) (T : Str) (tree : Entries) (G : List Str)
    (hlex : lexLiteralsFuel (T.length + 1) st0 none T = .ok (st1, spread (toksEs tree) G []))
    (hwf : TokWFEs tree = true) (hG : GapsOK (toksEs tree) G = true)
    (hnd : ∀ w ∈ toksEs tree, ∀ c ∈ w, c ≠ '$') :
    parseBlockSt' st0 T = (insertLiterals st1.lits (denEs tree [])).map (fun r => (r, st1)) := by
  have hdollar : ∀ x ∈ spread (toksEs tree) G [], x ≠ '$' :=
    C02.spread_forall (· ≠ '$') (fun _ => C02.ws_ne_dollar) _ _ _ hnd hG rfl
  have hscan := C02.C02_layout_tolerant_tokens tree G [] hwf hG rfl
  unfold parseBlockSt'
  rw [hlex]
  simp only [bind, Except.bind, C02.lex_expressions_id _ _ hdollar, hscan]
  cases insertLiterals st1.lits (denEs tree []) <;> rfl

/-- **comments off**: the stages on an admissible layout, from a lexer state with empty literal table -/
theorem parseBlockSt_plain (c : Counter) (tbl : Tbl Str) (es : SrcEntries) (gaps : List Str) (tail : Str)
    (h : SrcWFEs 1 es = true) (hg : GapsOKS (srcToksEs es) gaps = true) (ht : tail.all isWs = true) :
    parseBlockSt { counter := c, blockC := tbl } (spreadS (srcToksEs es) gaps tail) =
      (insertLiterals (labelEs { counter := c } es).1.lits (denEs (labelEs { counter := c } es).2 [])).map
        (fun r => (r, C02.withLab { counter := c, blockC := tbl } (labelEs { counter := c } es).1)) := by
  obtain ⟨gaps', hg', e⟩ := C02.normalise_spread 1 es gaps tail h hg ht
  unfold parseBlockSt
  rw [e]
  have hok := C02.srcToksEs_ok es 1 h
  have hl := C02.label_toksEs es 1 { counter := c } h
  have hlex := C02.lex_spread (srcToksEs es) gaps' [] hok hg' rfl { counter := c, blockC := tbl } _ none
    (Nat.le_succ _) (by simp)
  have hgl := C02.gaps_bridge_aux (srcToksEs es) gaps' { counter := c } hg'
  have hlab : C02.labOf { counter := c, blockC := tbl } = ({ counter := c } : LabelSt) := rfl
  rw [hlab, hl] at hlex
  rw [hl] at hgl
  have hnd := C02.labelled_no_dollar (srcToksEs es) { counter := c } hok
  rw [hl] at hnd
  exact stages_tail _ _ _ _ gaps' hlex (C02.labelled_wfEs es 1 { counter := c } h) hgl hnd

theorem gapsOK_lead (p : Str) : ∀ (L G : List Str), GapsOK L G = true → (L = [] ∨ G.headD [] ≠ []) →
    GapsOK (p :: L) ([] :: G) = true
  | [], _, _, _ => rfl
  | u :: L, [], _, h => by rcases h with h | h <;> simp at h
  | u :: L, g :: G, hG, h => by
    have hne : g ≠ [] := by rcases h with h | h <;> simpa using h
    simp only [GapsOK, Bool.and_eq_true, Bool.or_eq_true, Bool.not_eq_true', List.isEmpty_eq_false_iff]
    exact ⟨⟨rfl, Or.inr hne⟩, hG⟩

/-- **comments on**: the stages on the placeholder word followed by an admissible layout -/
theorem parseBlockSt_hdr (c : Counter) (tbl : Tbl Str) (es : SrcEntries) (gaps : List Str) (tail : Str)
    (h : SrcWFEs 1 es = true) (hg : GapsOKS (srcToksEs es) gaps = true) (ht : tail.all isWs = true) :
    parseBlockSt { counter := c, blockC := tbl } ([' '] ++ hdrPh ++ [' '] ++ '\n' :: spreadS (srcToksEs es) gaps tail) =
      (insertLiterals (labelEs { counter := c } es).1.lits (denEs (labelEs { counter := c } es).2 [hdrEntry])).map
        (fun r => (r, C02.withLab { counter := c, blockC := tbl } (labelEs { counter := c } es).1)) := by
  obtain ⟨G, hG, hhead, e⟩ := normalise_hdr 1 es gaps tail h hg ht
  unfold parseBlockSt
  rw [e]
  have hok := C02.srcToksEs_ok es 1 h
  have hl := C02.label_toksEs es 1 { counter := c } h
  have hlab : C02.labOf { counter := c, blockC := tbl } = ({ counter := c } : LabelSt) := rfl
  have hlex : lexLiteralsFuel ((hdrPh ++ spreadS (srcToksEs es) G []).length + 1) { counter := c, blockC := tbl } none
      (hdrPh ++ spreadS (srcToksEs es) G []) =
      .ok (C02.withLab { counter := c, blockC := tbl } (labelEs { counter := c } es).1,
        hdrPh ++ spread (toksEs (labelEs { counter := c } es).2) G []) := by
    have := C02.lex_copy hdrPh (spreadS (srcToksEs es) G []) { counter := c, blockC := tbl } _ _
      (fun c hc => (hdrPh_chars c hc).2.2.2.1) (fun c hc => (hdrPh_chars c hc).2.2.2.2)
      (fun fuel prev hf hp => C02.lex_spread (srcToksEs es) G [] hok hG rfl { counter := c, blockC := tbl } fuel prev hf hp)
      ((hdrPh ++ spreadS (srcToksEs es) G []).length + 1) none (Nat.le_succ _) (by simp)
    rw [this, hlab, hl]
  have hgl := C02.gaps_bridge_aux (srcToksEs es) G { counter := c } hG
  rw [hl] at hgl
  have hnd := C02.labelled_no_dollar (srcToksEs es) { counter := c } hok
  rw [hl] at hnd
  have hph := blockPh_tok 0
  have htoks : toksEs (hdrEntry :: (labelEs { counter := c } es).2) = hdrPh :: toksEs (labelEs { counter := c } es).2 := by
    simp only [hdrEntry, toksEs, hdrPh, hph.2, if_true, List.singleton_append]
  have hden : denEs (hdrEntry :: (labelEs { counter := c } es).2) [] = denEs (labelEs { counter := c } es).2 [hdrEntry] := by
    simp only [hdrEntry, denEs, hdrPh, hph.2, if_true, setKey]
  have hempty : toksEs (labelEs { counter := c } es).2 = [] ∨ G.headD [] ≠ [] := by
    rcases hhead with rfl | hh
    · left; rfl
    · right; exact hh
  have hspread : hdrPh ++ spread (toksEs (labelEs { counter := c } es).2) G [] =
      spread (toksEs (hdrEntry :: (labelEs { counter := c } es).2)) ([] :: G) [] := by
    rw [htoks]; simp [spread]
  rw [hspread] at hlex
  rw [← hden]
  refine stages_tail _ _ _ _ ([] :: G) hlex ?_ ?_ ?_
  · simp only [hdrEntry, TokWFEs, hdrPh, hph.2, hph.1, if_true, beq_self_eq_true, Bool.and_self, Bool.true_and]
    exact C02.labelled_wfEs es 1 { counter := c } h
  · rw [htoks]; exact gapsOK_lead _ _ _ hgl hempty
  · rw [htoks]
    intro w hw
    rcases List.mem_cons.mp hw with rfl | hw
    · exact fun c hc => (hdrPh_chars c hc).2.2.1
    · exact hnd w hw



theorem hdrPh_noLit : isInfix kwLit hdrPh = false := by decide +kernel

/-- literal re-insertion leaves the header placeholder entry alone -/
theorem insert_literals_hdr {es : SrcEntries} {c : Counter} (hwf : SrcWFEs 1 es = true)
    (hc : C13.ValidCounter Gen.counterLimit c) (hn : C02.countQuotedEs es ≤ Gen.counterLimit + 1) :
    insertLiterals (labelEs { counter := c } es).1.lits (denEs (labelEs { counter := c } es).2 [hdrEntry]) =
      .ok (denSrcEs es [hdrEntry]) := by
  obtain ⟨h1, h2, _⟩ := C02.labelEs_state es { counter := c }
  have hnd : ((C02.drawnEs { counter := c } es).map (·.1)).Nodup := by
    rw [h2]; exact C13.alloc_nodup hn hc
  have hle : ∀ p ∈ C02.drawnEs { counter := c } es, p.1 ≤ 999999 := by
    intro p hp
    have : p.1 ∈ alloc Gen.counterLimit (C02.countQuotedEs es) c := by
      rw [← h2]; exact List.mem_map.mpr ⟨p, hp, rfl⟩
    exact C13.alloc_le hc _ _ this
  have hlits : (labelEs { counter := c } es).1.lits = C02.drawnEs { counter := c } es := by
    rw [h1, C02.setAll_nodup _ _ (by simpa using hnd)]
    rfl
  rw [hlits]
  refine C02.insertLiterals_of_rel _ hnd hle (C02.drawnEs_clean es _ 1 hwf) _ _
    (C02.relEs _ es _ 1 [hdrEntry] [hdrEntry] hwf (fun _ hp => hp) ?_)
  simp only [C02.REs, hdrEntry]
  exact ⟨_, _, rfl, by simp only [C02.RV]; exact Or.inl ⟨hdrPh_noLit, trivial⟩, rfl⟩

theorem setKey_cons_ne {k k0 : Key} {v v0 : Val} (h : k0 ≠ k) (acc : Entries) :
    setKey k v ((k0, v0) :: acc) = (k0, v0) :: setKey k v acc := by
  simp [setKey, h]

/-- the meaning of a well-formed document never touches the header placeholder entry put in front -/
theorem denSrc_hdr (d : Nat) : ∀ (es : SrcEntries) (acc : Entries), SrcWFEs d es = true →
    denSrcEs es (hdrEntry :: acc) = hdrEntry :: denSrcEs es acc
  | [], _, _ => rfl
  | (k, v) :: es, acc, h => by
    simp only [SrcWFEs, Bool.and_eq_true] at h
    obtain ⟨⟨⟨hk, hkey⟩, hv⟩, hes⟩ := h
    obtain ⟨key, hkey⟩ := Option.isSome_iff_exists.mp hkey
    have hne : Key.str hdrPh ≠ key := by
      intro e
      rcases C02.Main.typedKey_cases hk hkey with ⟨z, hz⟩ | hz
      · rw [hz] at e; cases e
      · rw [hz] at e
        have e' : hdrPh = k := by injection e
        have h1 := (C02.srcWord_facts hk).2.1
        rw [← e', hdrPh, (blockPh_tok 0).2] at h1
        cases h1
    rw [C02.denSrcEs_cons hkey, C02.denSrcEs_cons hkey]
    show denSrcEs es (setKey key (denSrcV v) ((Key.str hdrPh, Val.leaf (Scalar.str hdrPh)) :: acc)) = _
    rw [setKey_cons_ne hne]
    exact denSrc_hdr d es _ hes




theorem lookup_hdr_cons {k : Key} (hk : k ≠ .str hdrPh) (D : Entries) : lookup k (hdrEntry :: D) = lookup k D := by
  show (if Key.str hdrPh = k then _ else lookup k D) = _
  rw [if_neg (fun e => hk e.symm)]

theorem docKey_ne_hdr : Key.str "_variables".toList ≠ .str hdrPh ∧ Key.str "_includes".toList ≠ .str hdrPh := by
  rw [hdrPh_eq]; decide

/-- the SDict the reader returns for a written file: the header placeholder entry in front of the data, the header
    comment under id 0 -/
def hdrSD (D : Entries) : SD := { data := hdrEntry :: D, blockC := [(0, hdrComment)] }

theorem finish_hdr (D : Entries) (st : LexSt) (he : st.exprs = []) (hl : st.lineC = []) (hi : st.incl = [])
    (hb : st.blockC = [(0, hdrComment)]) (hp : C07.NoPhEs D) (hn : NodupKeysV (.dict D))
    (h1 : lookup (.str "_variables".toList) D = none) (h2 : lookup (.str "_includes".toList) D = none) :
    finishSD (hdrEntry :: D) st = (hdrSD D, st.counter) := by
  simp only [finishSD, he, hl, hi, hb]
  rw [clean_single_header _ hdrComment D rfl rfl hp hn]
  simp only [hdrSD]
  rw [C02.dropDocKeys_id (by rw [lookup_hdr_cons docKey_ne_hdr.1]; exact h1)
    (by rw [lookup_hdr_cons docKey_ne_hdr.2]; exact h2)]

theorem finish_plain (D : Entries) (st : LexSt) (he : st.exprs = []) (hl : st.lineC = []) (hi : st.incl = [])
    (hb : st.blockC = [(0, hdrComment)]) (hp : C07.NoPhEs D) (hn : NodupKeysV (.dict D))
    (h1 : lookup (.str "_variables".toList) D = none) (h2 : lookup (.str "_includes".toList) D = none) :
    finishSD D st = ({ data := D, blockC := [(0, hdrComment)] }, st.counter) := by
  simp only [finishSD, he, hl, hi, hb]
  rw [C07.clean_id _ hn hp]
  simp only []
  rw [C02.dropDocKeys_id h1 h2]

/-- **read_header, counter spelled out, condition on the documentation keys stated on the meaning** -/
theorem read_header_gen {es : SrcEntries} {gaps : List Str} {tail : Str} {c : Counter} (dir : Str)
    (hwf : SrcWFEs 1 es = true) (hg : GapsOKS (srcToksEs es) gaps = true) (ht : tail.all isWs = true)
    (hc : C13.ValidCounter Gen.counterLimit c) (hn : C02.countQuotedEs es ≤ Gen.counterLimit + 1)
    (h1 : lookup (.str "_variables".toList) (denSrcEs es []) = none)
    (h2 : lookup (.str "_includes".toList) (denSrcEs es []) = none) :
    parseNative true dir c (nativeHeader ++ spreadS (srcToksEs es) gaps tail) =
      .ok (hdrSD (denSrcEs es []), (labelEs { counter := c } es).1.counter) := by
  obtain ⟨f1, f2, f3⟩ := hdr_front_facts _ gaps tail (C02.srcToks_ok 1 es hwf) hg ht
  rw [front_block true dir c f1 f2 (hdr_blockStage true _ f3)]
  simp only [if_true]
  rw [parseBlockSt_hdr c _ es gaps tail hwf hg ht, insert_literals_hdr hwf hc hn, denSrc_hdr 1 es [] hwf]
  simp only [Except.map]
  rw [finish_hdr _ _ rfl rfl rfl rfl (C02.den_noPh hwf) (C02.den_nodup es) h1 h2]
  rfl

/-- the same with comments off: no placeholder entry, but the comment is still recorded -/
theorem read_header_off_gen {es : SrcEntries} {gaps : List Str} {tail : Str} {c : Counter} (dir : Str)
    (hwf : SrcWFEs 1 es = true) (hg : GapsOKS (srcToksEs es) gaps = true) (ht : tail.all isWs = true)
    (hc : C13.ValidCounter Gen.counterLimit c) (hn : C02.countQuotedEs es ≤ Gen.counterLimit + 1)
    (h1 : lookup (.str "_variables".toList) (denSrcEs es []) = none)
    (h2 : lookup (.str "_includes".toList) (denSrcEs es []) = none) :
    parseNative false dir c (nativeHeader ++ spreadS (srcToksEs es) gaps tail) =
      .ok ({ data := denSrcEs es [], blockC := [(0, hdrComment)] }, (labelEs { counter := c } es).1.counter) := by
  obtain ⟨f1, f2, f3⟩ := hdr_front_facts _ gaps tail (C02.srcToks_ok 1 es hwf) hg ht
  rw [front_block false dir c f1 f2 (hdr_blockStage false _ f3)]
  simp only [Bool.false_eq_true, if_false, List.nil_append]
  obtain ⟨gaps', tail', e, hg', ht'⟩ : ∃ gaps' tail', '\n' :: spreadS (srcToksEs es) gaps tail =
      spreadS (srcToksEs es) gaps' tail' ∧ GapsOKS (srcToksEs es) gaps' = true ∧ tail'.all isWs = true := by
    cases hts : srcToksEs es with
    | nil => exact ⟨[], '\n' :: tail, by simp [spreadS, spread], rfl, by simp [ht]; decide⟩
    | cons t ts =>
      rw [hts] at hg
      cases gaps with
      | nil =>
        have := C02.gapsOKS_nogaps hg; subst this
        exact ⟨[['\n']], tail, by simp [spreadS, spread], by simp [GapsOKS]; decide, ht⟩
      | cons g gs =>
        exact ⟨('\n' :: g) :: gs, tail, by simp [spreadS, spread],
          gapsOKS_head hg (by simp [(C02.gapsOKS_cons hg).1]; decide), ht⟩
  rw [e, parseBlockSt_plain c _ es gaps' tail' hwf hg' ht', C02.insert_literals hwf hc hn]
  simp only [Except.map]
  rw [finish_plain _ _ rfl rfl rfl rfl (C02.den_noPh hwf) (C02.den_nodup es) h1 h2]
  rfl


/-! ## a layout of a well-formed document contains no `COMMENT` -/


/-- an occurrence of `p` in `x ++ y` lies in `x`, lies in `y`, or runs across the seam -/
theorem infix_append_cases {p x y : Str} (h : isInfix p (x ++ y) = true) :
    isInfix p x = true ∨ isInfix p y = true ∨
      ∃ p1 c2 p2, p = p1 ++ c2 :: p2 ∧ p1 ≠ [] ∧ (∀ c ∈ p1, c ∈ x) ∧ y.head? = some c2 := by
  rw [C01.isInfix_iff] at h
  obtain ⟨a, b, e⟩ := h
  rcases List.append_eq_append_iff.mp e with ⟨a', hx, hb⟩ | ⟨c', hx, hy⟩
  · rcases List.append_eq_append_iff.mp hx with ⟨a'', hx2, hp⟩ | ⟨c'', hx2, hp⟩
    · cases a'' with
      | nil =>
        right; left
        rw [C01.isInfix_iff]
        exact ⟨[], b, by rw [hb, hp]; simp⟩
      | cons c0 a'' =>
        cases a' with
        | nil =>
          left
          rw [C01.isInfix_iff]
          exact ⟨a, [], by rw [hx2, hp]; simp⟩
        | cons c2 a' =>
          right; right
          refine ⟨c0 :: a'', c2, a', hp, by simp, ?_, by rw [hb]; rfl⟩
          intro c hc
          rw [hx2]; exact List.mem_append_right _ hc
    · right; left
      rw [C01.isInfix_iff]
      exact ⟨c'', b, by rw [hb, hp]⟩
  · left
    rw [C01.isInfix_iff]
    exact ⟨a, c', by rw [hx]⟩

/-- a pattern of non-blank characters that no token contains and no delimiter is part of does not occur in an
    admissible layout -/
theorem noInfix_spread (p : Str) (hne : p ≠ []) (hp : ∀ c ∈ p, isWs c = false) :
    ∀ (ts : List STok) (gaps : List Str) (tail : Str),
    (∀ t ∈ ts, isInfix p t.text = false ∧ (isDelimSTok t = true → ∃ d, t.text = [d] ∧ d ∉ p)) →
    GapsOKS ts gaps = true → tail.all isWs = true → isInfix p (spreadS ts gaps tail) = false
  | [], gaps, tail, _, _, ht => by
    cases hp' : p with
    | nil => exact absurd hp' hne
    | cons c0 p' =>
      apply C01.not_infix_of_head
      intro hm
      have := hp c0 (by rw [hp']; simp)
      rw [C02.Main.spreadS_nil] at hm
      rw [List.all_eq_true.mp ht _ hm] at this
      cases this
  | t :: ts, gaps, tail, hts, hg, ht => by
    obtain ⟨h1, h2, h3⟩ := C02.Main.gapsOKS_step hg
    have ih := noInfix_spread p hne hp ts gaps.tail tail (fun u hu => hts u (by simp [hu])) h2 ht
    have htk := hts t (by simp)
    rw [C02.Main.spreadS_cons, List.append_assoc]
    cases hcontra : isInfix p (gaps.headD [] ++ (t.text ++ spreadS ts gaps.tail tail)) with
    | false => rfl
    | true =>
      exfalso
      have wsNot : ∀ c, c ∈ p → isWs c = true → False := fun c hc hw => by rw [hp c hc] at hw; cases hw
      rcases infix_append_cases hcontra with hc | hc | ⟨p1, c2, p2, e, hne1, hm, _⟩
      · cases hp' : p with
        | nil => exact hne hp'
        | cons c0 p' =>
          rw [hp'] at hc
          exact wsNot c0 (by rw [hp']; simp) (List.all_eq_true.mp h1 _ (C01.isInfix_cons_mem hc))
      · rcases infix_append_cases hc with hc | hc | ⟨p1, c2, p2, e, hne1, hm, hh⟩
        · rw [htk.1] at hc; cases hc
        · rw [ih] at hc; cases hc
        · have hc2 : c2 ∈ p := by rw [e]; simp
          cases ts with
          | nil =>
            rw [C02.Main.spreadS_nil] at hh
            exact wsNot c2 hc2 (List.all_eq_true.mp ht _ (List.mem_of_mem_head? hh))
          | cons u ts' =>
            obtain ⟨g1, _, _⟩ := C02.Main.gapsOKS_step h2
            rw [C02.Main.spreadS_cons, List.append_assoc] at hh
            cases hgap : gaps.tail.headD [] with
            | cons c g' =>
              rw [hgap] at hh g1
              simp only [List.cons_append, List.head?_cons, Option.some.injEq] at hh
              simp only [List.all_cons, Bool.and_eq_true] at g1
              subst hh
              exact wsNot c hc2 g1.1
            | nil =>
              rw [hgap, List.nil_append] at hh
              rcases h3 u ts' rfl with hd | hd | hgne
              · obtain ⟨d, hd1, hd2⟩ := htk.2 hd
                obtain ⟨c, hcm⟩ := List.exists_mem_of_ne_nil _ hne1
                have := hm c hcm
                rw [hd1, List.mem_singleton] at this
                subst this
                exact hd2 (by rw [e]; simp [hcm])
              · obtain ⟨d, hd1, hd2⟩ := (hts u (by simp)).2 hd
                rw [hd1] at hh
                simp only [List.cons_append, List.head?_cons, Option.some.injEq] at hh
                subst hh
                exact hd2 hc2
              · exact hgne hgap
      · obtain ⟨c, hcm⟩ := List.exists_mem_of_ne_nil _ hne1
        exact wsNot c (by rw [e]; simp [hcm]) (List.all_eq_true.mp h1 _ (hm c hcm))




def kwComment : Str := "COMMENT".toList

theorem kwComment_chars : ∀ c ∈ kwComment, isWs c = false ∧ isQuote c = false ∧ c ∉ Gen.delimiters := by decide

theorem infix_single_false {p : Str} (c : Char) (h : 2 ≤ p.length) : isInfix p [c] = false := by
  match p, h with
  | a :: b :: p, _ => simp [isInfix, tails, List.isPrefixOf]

theorem tok_noComment {t : STok} (ht : C02.TokOK t) :
    isInfix kwComment t.text = false ∧ (isDelimSTok t = true → ∃ d, t.text = [d] ∧ d ∉ kwComment) := by
  cases t with
  | word w =>
    refine ⟨?_, fun hd => ?_⟩
    · rcases ht with h | h
      · exact (C02.Main.srcWord_iff.mp h).2.1
      · obtain ⟨c, rfl, _⟩ := C02.delimTok_inv h
        exact infix_single_false c (by decide)
    · obtain ⟨c, rfl, hc⟩ := C02.delimTok_inv hd
      exact ⟨c, rfl, fun hm => (kwComment_chars c hm).2.2 hc⟩
  | quoted q b =>
    obtain ⟨hq, _, _, _, _, _, _, hcm, _⟩ := C02.Main.srcQuoted_iff.mp ht
    have hqn : q ∉ kwComment := fun hm => by rw [(kwComment_chars q hm).2.1] at hq; cases hq
    refine ⟨?_, fun hd => by cases hd⟩
    cases hcontra : isInfix kwComment (STok.quoted q b).text with
    | false => rfl
    | true =>
      exfalso
      have e0 : (STok.quoted q b).text = [q] ++ (b ++ [q]) := rfl
      rw [e0] at hcontra
      rcases infix_append_cases hcontra with hc | hc | ⟨p1, c2, p2, e, hne1, hm, _⟩
      · rw [infix_single_false q (by decide)] at hc; cases hc
      · rcases infix_append_cases hc with hc | hc | ⟨p1, c2, p2, e, hne1, hm, hh⟩
        · rw [show isInfix kwComment b = false from hcm] at hc; cases hc
        · rw [infix_single_false q (by decide)] at hc; cases hc
        · simp only [List.head?_cons, Option.some.injEq] at hh
          subst hh
          exact hqn (by rw [e]; simp)
      · obtain ⟨c, hcm'⟩ := List.exists_mem_of_ne_nil _ hne1
        have := hm c hcm'
        rw [List.mem_singleton] at this
        subst this
        exact hqn (by rw [e]; simp [hcm'])

/-- an admissible layout of a well-formed document does not contain the word `COMMENT` -/
theorem noComment_spread (ts : List STok) (gaps : List Str) (tail : Str) (hts : ∀ t ∈ ts, C02.TokOK t)
    (hg : GapsOKS ts gaps = true) (ht : tail.all isWs = true) : isInfix kwComment (spreadS ts gaps tail) = false :=
  noInfix_spread kwComment (by decide) (fun c hc => (kwComment_chars c hc).1) ts gaps tail
    (fun t h => tok_noComment (hts t h)) hg ht

theorem noHdrPh_of_noComment {s : Str} (h : isInfix kwComment s = false) : isInfix hdrPh s = false := by
  cases hc : isInfix hdrPh s with
  | false => rfl
  | true =>
    have : isInfix kwComment hdrPh = true := by rw [hdrPh_eq]; decide
    rw [C02.Front.isInfix_trans this hc] at h; cases h




/-! ## (c) the writer -/

theorem substFuel_noInfix (ph repl : Str) : ∀ (fuel : Nat) (s : Str), isInfix ph s = false →
    substPhEntryFuel ph repl fuel s = (s, false)
  | 0, _, _ => rfl
  | _ + 1, [], _ => rfl
  | fuel + 1, c :: r, h => by
    rw [C02.isInfix_cons] at h
    simp only [Bool.or_eq_false_iff] at h
    have hm : matchPhEntry ph (c :: r) = none := by simp [matchPhEntry, h.1]
    rw [substPhEntryFuel, hm]
    simp only []
    rw [substFuel_noInfix ph repl fuel r h.2]

/-- a text that does not contain the placeholder word is left alone -/
theorem substPh_noInfix (kw : Str) (i : Nat) (repl s : Str) (h : isInfix (kw ++ padSix i) s = false) :
    substPh kw i repl s = (s, false) := substFuel_noInfix _ _ _ _ h

theorem hdrPh_fmt : formatString .native hdrPh = hdrPh := by decide +kernel
theorem hdrPh_len : hdrPh.length = 18 := by decide +kernel

/-- the placeholder entry is written as one line -/
theorem fmt_hdr_line (D : Entries) :
    fmtEntries .native 0 (hdrEntry :: D) =
      [] ++ (kwBlock ++ padSix 0) ++ spaces 12 ++ (kwBlock ++ padSix 0) ++ [';'] ++ ('\n' :: fmtEntries .native 0 D) := by
  have e : kwBlock ++ padSix 0 = hdrPh := rfl
  rw [e]
  simp only [hdrEntry, fmtEntries, fline, formatKey, formatScalar, hdrPh_fmt, hdrPh_len, spaces]
  simp [List.replicate]

theorem hoist_noPh {D : Entries} (hD : ∀ k ∈ keys D, C07.isPhKey k = false) : hoistPlaceholders D = D := by
  unfold hoistPlaceholders
  refine C01.filter3_id _ _ D ?_ ?_
  · intro e he
    have := hD e.1 (List.mem_map_of_mem he)
    split
    · next s hs => rw [hs] at this; simp only [C07.isPhKey, Bool.or_eq_false_iff] at this; exact this.1.1
    · rfl
  · intro e he
    have := hD e.1 (List.mem_map_of_mem he)
    split
    · next s hs => rw [hs] at this; simp only [C07.isPhKey, Bool.or_eq_false_iff] at this; exact this.1.2
    · rfl

theorem hoist_hdr {D : Entries} (hD : ∀ k ∈ keys D, C07.isPhKey k = false) :
    hoistPlaceholders (hdrEntry :: D) = hdrEntry :: D := by
  have h := hoist_noPh hD
  unfold hoistPlaceholders at h ⊢
  simp only [List.filter_cons, hdrEntry, hdrPh_block, if_true, Bool.not_true, Bool.false_and, Bool.false_eq_true,
    if_false, List.cons_append]
  rw [h]

/-- what the writer produces for the SDict the reader returns, before trailing-space removal: the header comment is
    put back where its placeholder entry stands -/
theorem insertBlock_hdr (D : Entries) (hno : isInfix hdrPh (fmtEntries .native 0 D) = false) :
    insertBlockComments .native [(0, hdrComment)] (fmtEntries .native 0 (hdrEntry :: D)) =
      nativeHeader ++ fmtEntries .native 0 D := by
  have hpost : isInfix (kwBlock ++ padSix 0) ('\n' :: fmtEntries .native 0 D) = false := by
    rw [C02.isInfix_cons]
    rw [show kwBlock ++ padSix 0 = hdrPh from rfl, hno, hdrPh_eq]
    rfl
  have hsub : ∀ repl, substPh kwBlock 0 repl (fmtEntries .native 0 (hdrEntry :: D)) =
      (repl ++ '\n' :: fmtEntries .native 0 D, true) := by
    intro repl
    rw [fmt_hdr_line, C12_substPh_literal (kw := kwBlock) (c := 'B') (kw' := "LOCKCOMMENT".toList) (by decide) (by decide) 0
      repl [] (spaces 12) ('\n' :: fmtEntries .native 0 D) (by simp) (by decide) (C01.spaces_ws 12),
      substPh_noInfix kwBlock 0 repl _ hpost]
    rfl
  rw [C12_header_own 0 hdrComment _ (by rw [hsub]) hdrComment_cpp, hsub, nativeHeader_split]
  simp

/-- **write_header (general form)**: the SDict read from a written file is written as the SDict without tables is -/
theorem write_header_gen (D : Entries) (hD : ∀ k ∈ keys D, C07.isPhKey k = false)
    (hno : isInfix hdrPh (fmtEntries .native 0 D) = false) :
    fmtSD .native (hdrSD D) = some (removeTrailingSpaces (nativeHeader ++ fmtEntries .native 0 D)) ∧
    fmtSD .native { data := D } = some (removeTrailingSpaces (nativeHeader ++ fmtEntries .native 0 D)) := by
  constructor
  · simp only [fmtSD, hdrSD, hoist_hdr hD, insertBlock_hdr D hno, insertIncludes, insertLineComments, List.foldl_nil]
  · rw [C01.C01_roundtrip_dump_partial, hoist_noPh hD]



/-! ## trailing-space removal leaves the header alone -/

def goodLineB (l : Str) : Bool :=
  match l.reverse with
  | z :: a => !isWs z && a.all (· != '\n')
  | [] => false

theorem goodLine_of_B {l : Str} (h : goodLineB l = true) :
    ∃ a z, l = a ++ [z] ∧ isWs z = false ∧ ∀ c ∈ a, c ≠ '\n' := by
  unfold goodLineB at h
  split at h
  · next z a e =>
    simp only [Bool.and_eq_true, Bool.not_eq_true', List.all_eq_true, bne_iff_ne, ne_eq] at h
    refine ⟨a.reverse, z, ?_, h.1, fun c hc => h.2 c (List.mem_reverse.mp hc)⟩
    have := congrArg List.reverse e
    simpa using this
  · cases h

theorem rts_lines (s : Str) : ∀ (ls : List Str), (∀ l ∈ ls, goodLineB l = true) →
    C01.rts (ls.flatMap (· ++ ['\n']) ++ s) = ls.flatMap (· ++ ['\n']) ++ C01.rts s
  | [], _ => rfl
  | l :: ls, h => by
    obtain ⟨a, z, rfl, hz, ha⟩ := goodLine_of_B (h l (by simp))
    have ih := rts_lines s ls (fun l' hl' => h l' (by simp [hl']))
    have e : (List.flatMap (· ++ ['\n']) ((a ++ [z]) :: ls)) ++ s =
        a ++ z :: ('\n' :: (List.flatMap (· ++ ['\n']) ls ++ s)) := by simp
    rw [e, (C01.rts_solid hz _ a ha).2, C01.rts_nl, ih]
    simp

def hdrLines : List Str := (splitNl nativeHeaderChars).dropLast

theorem hdrLines_join : hdrLines.flatMap (· ++ ['\n']) = nativeHeaderChars := by decide +kernel
theorem hdrLines_good : ∀ l ∈ hdrLines, goodLineB l = true := by decide +kernel
theorem hdrChars_noCr : ∀ c ∈ nativeHeaderChars, c ≠ '\r' := by decide +kernel

/-- `remove_trailing_spaces` leaves the header as it is -/
theorem rts_header (t : Str) : removeTrailingSpaces (nativeHeader ++ t) = nativeHeader ++ removeTrailingSpaces t := by
  rw [C01.removeTrailingSpaces_eq, C01.removeTrailingSpaces_eq, nativeHeader_eq,
    C01.universalNl_solid _ _ hdrChars_noCr, ← hdrLines_join, rts_lines _ _ hdrLines_good]

/-- the text `dump` writes for a dict of the value domain: the header, then the text the plain-dict writer writes -/
theorem fmtSD_text (D : Entries) :
    fmtSD .native { data := D } = some (nativeHeader ++ fmtPlain .native D) := by
  rw [C01.C01_roundtrip_dump_partial, rts_header]
  rfl




/-! ## (b), (c) in the form asked for; (d) the fixed point -/

theorem valid_after_label (es : SrcEntries) {c : Counter} (hc : C13.ValidCounter Gen.counterLimit c) :
    C13.ValidCounter Gen.counterLimit (labelEs { counter := c } es).1.counter := by
  rw [(C02.labelEs_state es _).2.2]; exact C02.adv_valid _ hc

/-- **read_header.**  A file that starts with the header the library writes, followed by any admissible layout of a
    well-formed document (hypotheses of `C02.C02_layout_tolerant`), is read — comments on — as the document's meaning
    with the header placeholder entry in front and the header comment under id 0 in the block-comment table. -/
theorem read_header {es : SrcEntries} {gaps : List Str} {tail : Str} {c : Counter} (dir : Str) :
    SrcWFEs 1 es = true → GapsOKS (srcToksEs es) gaps = true → tail.all isWs = true →
    C13.ValidCounter Gen.counterLimit c → C02.countQuotedEs es ≤ Gen.counterLimit + 1 → C02.DocKeysAbsent es →
    ∃ c', parseNative true dir c (nativeHeader ++ spreadS (srcToksEs es) gaps tail) =
      .ok ({ data := (Key.str hdrPh, Val.leaf (.str hdrPh)) :: denSrcEs es [], blockC := [(0, hdrComment)] }, c') :=
  fun hwf hg ht hc hn hd =>
    ⟨_, read_header_gen dir hwf hg ht hc hn (C02.den_docKeys hwf hd).1 (C02.den_docKeys hwf hd).2⟩

/-- **read_header, comments off**: no placeholder entry; the comment is still recorded in the table -/
theorem read_header_off {es : SrcEntries} {gaps : List Str} {tail : Str} {c : Counter} (dir : Str) :
    SrcWFEs 1 es = true → GapsOKS (srcToksEs es) gaps = true → tail.all isWs = true →
    C13.ValidCounter Gen.counterLimit c → C02.countQuotedEs es ≤ Gen.counterLimit + 1 → C02.DocKeysAbsent es →
    ∃ c', parseNative false dir c (nativeHeader ++ spreadS (srcToksEs es) gaps tail) =
      .ok ({ data := denSrcEs es [], blockC := [(0, hdrComment)] }, c') :=
  fun hwf hg ht hc hn hd =>
    ⟨_, read_header_off_gen dir hwf hg ht hc hn (C02.den_docKeys hwf hd).1 (C02.den_docKeys hwf hd).2⟩

theorem dom_noPh_keys {D : Entries} (h : DomC01 .native D = true) : ∀ k ∈ keys D, C07.isPhKey k = false := by
  have := noPh_keys (C01.norm_invariants h).1
  rwa [C01.keys_normEs] at this

theorem dom_noHdrPh {D : Entries} (h : DomC01 .native D = true) : isInfix hdrPh (fmtEntries .native 0 D) = false := by
  obtain ⟨gaps, tail, e, hg, ht⟩ := C01.fmt_is_layout h
  have hd : domEs .native 1 D = true := by
    simp only [DomC01, Bool.and_eq_true] at h; exact h.1
  rw [e]
  exact noHdrPh_of_noComment (noComment_spread _ gaps tail (C02.srcToks_ok 1 _ (C01.srcOf_wf 1 D hd)) hg ht)

/-- **write_header.**  The SDict the reader returns for a written file — header placeholder entry in front, header
    comment in the table — is written exactly as the SDict with the same data and no tables: the placeholder line is
    replaced by the header comment (an own ` C++ ` header: nothing is put in front). -/
theorem write_header {D : Entries} (h : DomC01 .native D = true) :
    fmtSD .native { data := (Key.str hdrPh, Val.leaf (.str hdrPh)) :: D, blockC := [(0, hdrComment)] } =
      fmtSD .native { data := D } := by
  obtain ⟨h1, h2⟩ := write_header_gen D (dom_noPh_keys h) (dom_noHdrPh h)
  exact h1.trans h2.symm

/-- reading the text `dump` writes for a normalised dict of the value domain, counter valid afterwards -/
theorem read_dumped {D : Entries} {c : Counter} (dir : Str)
    (hdom : DomC01 .native D = true) (hnorm : normEs D = D) (hd : C01.DocKeysAbsent' D)
    (hn : C02.countQuotedEs (srcOfEs .native D) ≤ Gen.counterLimit + 1) (hc : C13.ValidCounter Gen.counterLimit c) :
    ∃ c', C13.ValidCounter Gen.counterLimit c' ∧
      parseNative true dir c (nativeHeader ++ fmtPlain .native D) = .ok (hdrSD D, c') := by
  obtain ⟨hwf, hden, gaps, tail, e, hg, ht⟩ := C01.C01_writer hdom
  rw [hnorm] at hden
  have hl : ∀ k : Key, (∀ e ∈ D, e.1 ≠ k) → lookup k (denSrcEs (srcOfEs .native D) []) = none := by
    intro k hk
    rw [hden, ← hnorm]; exact C01.norm_lookup_none hk
  have h := read_header_gen (c := c) dir hwf hg ht hc hn (hl _ fun e he => (hd e he).1) (hl _ fun e he => (hd e he).2)
  rw [hden] at h
  rw [e]
  exact ⟨_, valid_after_label (srcOfEs .native D) hc, h⟩

/-- **header_fixpoint.**  For a normalised dict `D` of the value domain: the text written from `{ data := D }` is the
    header followed by the plain text of `D`; reading it (comments on) gives `D` with the header placeholder entry and
    the header comment; writing that SDict gives the same text, byte for byte. -/
theorem header_fixpoint {D : Entries} {c : Counter} (dir : Str)
    (hdom : DomC01 .native D = true) (hnorm : normEs D = D) (hd : C01.DocKeysAbsent' D)
    (hn : C02.countQuotedEs (srcOfEs .native D) ≤ Gen.counterLimit + 1) (hc : C13.ValidCounter Gen.counterLimit c) :
    ∃ text c', fmtSD .native { data := D } = some text ∧ text = nativeHeader ++ fmtPlain .native D ∧
      C13.ValidCounter Gen.counterLimit c' ∧
      parseNative true dir c text =
        .ok ({ data := (Key.str hdrPh, Val.leaf (.str hdrPh)) :: D, blockC := [(0, hdrComment)] }, c') ∧
      fmtSD .native { data := (Key.str hdrPh, Val.leaf (.str hdrPh)) :: D, blockC := [(0, hdrComment)] } = some text := by
  obtain ⟨c', hv, hr⟩ := read_dumped (c := c) dir hdom hnorm hd hn hc
  exact ⟨_, c', fmtSD_text D, rfl, hv, hr, (write_header hdom).trans (fmtSD_text D)⟩


/-! ## non-vacuity: the example dict of `C01fmt` -/

theorem ex_header_fixpoint (dir : Str) :
    ∃ text c', fmtSD .native { data := C01.exDict } = some text ∧
      parseNative true dir none text =
        .ok ({ data := (Key.str hdrPh, Val.leaf (.str hdrPh)) :: C01.exDict, blockC := [(0, hdrComment)] }, c') ∧
      fmtSD .native { data := (Key.str hdrPh, Val.leaf (.str hdrPh)) :: C01.exDict, blockC := [(0, hdrComment)] } =
        some text := by
  obtain ⟨text, c', h1, _, _, h2, h3⟩ := header_fixpoint (c := none) dir C01.exDict_dom C01.exDict_norm
    C01.exDict_docKeys (by rw [C01.exDict_count]; decide) (Or.inl rfl)
  exact ⟨text, c', h1, h2, h3⟩

end DictIO.C12
