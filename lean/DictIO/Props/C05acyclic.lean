/-
  C05 (f) -- completeness of `DictReader._eval_expressions` on acyclic reference graphs.

  C05.lean *states* `C05_complete_acyclic_statement` (hypothesis `AcyclicFlat`) and leaves it to the correspondence
  check.  This file settles it:

  A. The statement is FALSE as it stands.  Eleven counterexamples, each with `AcyclicFlat ce`, the model's answer and
     the specification's answer compared by kernel evaluation (`refutes ev ce = true`), and the list `newHyps ce` that
     says which of the added hypotheses the example violates:
       `C05_complete_acyclic_statement_false_without_ids_small`            ids 100000 / 1000000 (`EXPRESSION100000` is a
                                                                           part of `EXPRESSION1000000`)
       `…_without_keys_words`              a key `a + 1`: the pending text `$a + 1` is looked up as that name
       `…_without_no_ph_keys`              key `LINECOMMENT000000` holding its own name is no variable (`selfRef`)
       `…_without_vals_text`               a float whose lexeme carries `$`
       `…_without_a_reference`             a pending text without `$` is referenced as *text* (`1 + 1` * 2 = 3)
       `…_without_separated_references`    `$a$b`, `b` resolved first: `$a2`
       `…_without_dollar_in_references`    `$$a` becomes the new reference `$1`; the loop stops early
       `…_without_nonblank_chunk`          `"$a $b"`, `a = ''`: ` $b` is taken for a plain reference (needs an evaluator
                                           with string results; `evOK_ev8` shows it satisfies `EvOK`)
       `…_without_ev_value_ok`, `…_without_ev_value_ok_dollar`, `…_without_ev_name_ok`
                                           evaluators that answer a placeholder word / a string with `$` / a `NameError`
                                           on a text with a placeholder word (all of `AcyclicFlat'` holds there)
     The first seven use the integer evaluator `evalInt`.

  B. The corrected theorem, no hypothesis on the evaluator other than `EvOK`, conclusion unchanged:
       `C05_complete_acyclic' : ∀ ev s s', EvOK ev → AcyclicFlat' s → evalExpressions ev s = .ok s' →
            s'.exprs = [] ∧ keys s'.data = keys s.data ∧
            ∀ name v, topoVal ev s (s.data.length + 1) name = some v → lookup (.str name) s'.data = some v`
       `C05_complete_acyclic_evalInt`   the same for `evalInt` (`evOK_evalInt : EvOK evalInt`)
       `exSD_acyclicFlat' : AcyclicFlat' exSD`        the hypotheses are satisfiable (the example of C05.lean)
     `AcyclicFlat' s` = `AcyclicFlat s` + five checks, all decidable (`newHyps`, `AcyclicFlat'.of_checks`):
       `ids_small` ids < 10^6;  `keys_words` names are `\w*`;  `no_ph_keys` no name is a comment/include placeholder;
       `vals_text` the text of an ordinary value has no `$`;  `expr_wf` (`wfExpr`): the text splits at its references
       (`toSegs`, by the library's own `findRef`) into chunks without `$`, there is a reference, a reference is followed
       by the end or by a character that is no word character, bracket or `$`, and with two or more references some
       chunk is not blank.
     `EvOK ev`: a scalar result is `usable` and its text has no `$`; a `NameError` only on a text without `EXPRESSION`.

  The pieces (numbering of the comment in C05.lean):
   (1) `resolveRef_sound`, `resolveRef_settled`, `resolveRef_pending`   `resolveRef` on a variable table described by
       `VarsOK` (`Inv.varsOK`: the table of a flat dictionary under the invariant): a settled name resolves to its
       value (fuel ≥ 2), a pending text resolves only if it is exactly one reference, every answer is the
       specification's value
   (4) `substLeafEs_flat`, `substValEs_flat`, `lookup_updEs`, `keys_updEs`   the substitution functions on flat data
   (2) `passStep_cases`, `passStep_inv`, `evalPass_inv`   one step / one pass keeps `Inv`, leaves the other entries
       alone, fills exactly the resolved references (`refs_after`), removes a ready entry of a good name
       string layer: `findRefs_render`, `substRefFuel_render`, `substAll_render`, `render_contains`, `strip_ne_ref`
   (3) `Inv.min_settled`, `progress_notRes`, `progress_length`, `loop_inv`   the pending entry of least rank has all its
       references settled; while such an entry exists `notRes` strictly decreases and the table gets shorter, so the
       `exprs.length + 2` passes suffice
-/
import DictIO.Props.C05

namespace DictIO.C05
open DictIO

/-! ## segments of an expression text -/

/-- a piece of an expression text: a reference `$w` still to be replaced, or the text that replaced it -/
inductive Pc where
  | ref (w : Str)
  | done (t : Str)
  deriving DecidableEq, Repr

def Pc.text : Pc → Str
  | .ref w => '$' :: w
  | .done t => t

abbrev Ps := List (Pc × Str)

/-- the text of a list of (piece, literal chunk behind it) -/
def rend : Ps → Str
  | [] => []
  | (p, l) :: r => p.text ++ (l ++ rend r)

structure Segs where
  lit0 : Str
  ps : Ps
  deriving DecidableEq, Repr

def Segs.render (g : Segs) : Str := g.lit0 ++ rend g.ps

def noD (s : Str) : Bool := !s.contains '$'

def pcOk : Pc → Bool
  | .ref w => !w.isEmpty && w.all isWordChar
  | .done t => noD t

/-- a reference is followed by the end or by a character that does not continue it; a chunk in the middle is not empty -/
def wfPs : Ps → Bool
  | [] => true
  | (p, l) :: r =>
    pcOk p && noD l &&
    (match l with
     | [] => r.isEmpty
     | c :: _ => (match p with | .ref _ => !isRefChar c | .done _ => true)) && wfPs r

def Segs.wf (g : Segs) : Bool := noD g.lit0 && wfPs g.ps

def refsOf : Ps → List Str
  | [] => []
  | (.ref w, _) :: r => ('$' :: w) :: refsOf r
  | (.done _, _) :: r => refsOf r

def litsOf : Ps → Str
  | [] => []
  | (_, l) :: r => l ++ litsOf r

def Pc.fill (σ : Str → Option Str) : Pc → Pc
  | .ref w => (match σ w with | some t => .done t | none => .ref w)
  | .done t => .done t

def fill (σ : Str → Option Str) (ps : Ps) : Ps := ps.map fun p => (p.1.fill σ, p.2)

/-- split a text at its references (the library's own reference pattern `findRef`) -/
def toPs : Nat → Str → Option Ps
  | 0, _ => none
  | fuel + 1, s => match findRef s with
    | none => none
    | some (_, x, a) =>
      match findRef a with
      | none => some [(.ref (x.drop 1), a)]
      | some (b, _, _) => (toPs fuel (a.drop b.length)).map fun r => (.ref (x.drop 1), b) :: r

def toSegs (s : Str) : Segs :=
  match findRef s with
  | none => ⟨s, []⟩
  | some (b, _, _) => ⟨b, (toPs (s.length + 1) (s.drop b.length)).getD []⟩

/-- the expression texts of the approximation: the text splits at its references into chunks free of `$`; there is a
    reference; a reference is followed by the end of the text or by a chunk that starts with a character other than a
    word character, a bracket or `$`; with two or more references some chunk is not blank -/
def wfExpr (e : Str) : Bool :=
  let g := toSegs e
  g.render == e && g.wf && !(refsOf g.ps).isEmpty &&
    (decide (g.ps.length ≤ 1) || (g.lit0 ++ litsOf g.ps).any fun c => !isWs c)

/-- scalar results that can stand in the data and in an expression text -/
def okScalar (x : Scalar) : Bool := usable (.leaf x) && noD (pyStrScalar x)

def okVal : Val → Bool
  | .leaf x => okScalar x
  | _ => false

/-- what the evaluator may answer: a scalar whose text carries neither `$` nor the placeholder word; a `NameError`
    only on such a text -/
structure EvOK (ev : Str → EvalResult) : Prop where
  value_ok : ∀ t x, ev t = .value (.leaf x) → okScalar x = true
  name_ok : ∀ t, ev t = .nameError → isInfix kwExpr t = false

def isPhKey (k : Str) : Bool := isExactPh kwBlock k || isExactPh kwIncl k || isExactPh kwLine k

/-- names are words (`\w*`) -/
def keyWord : Key → Bool
  | .str n => n.all isWordChar
  | .int _ => true

/-- no name is a comment / include placeholder -/
def keyNoPh : Key → Bool
  | .str n => !isPhKey n
  | .int _ => true

/-- the text of an ordinary value carries no `$` (for strings this is part of `usable`; a float is its lexeme) -/
def valText (s : SD) (d : Key × Val) : Bool :=
  match exprOf s d.2, d.2 with
  | none, .leaf x => noD (pyStrScalar x)
  | _, _ => true

/-- `AcyclicFlat` and what has to be added to it (each addition is justified by a counterexample below) -/
structure AcyclicFlat' (s : SD) : Prop where
  base : AcyclicFlat s
  /-- placeholder numbers are within the counter's range -/
  ids_small : ∀ e ∈ s.exprs, e.1 < 1000000
  /-- names are words -/
  keys_words : ∀ d ∈ s.data, keyWord d.1 = true
  /-- no name is a comment / include placeholder -/
  no_ph_keys : ∀ d ∈ s.data, keyNoPh d.1 = true
  /-- the text of an ordinary value carries no `$` -/
  vals_text : ∀ d ∈ s.data, valText s d = true
  /-- the expression texts are segmented by their references -/
  expr_wf : ∀ e ∈ s.exprs, wfExpr e.2.expression = true

/-- the added hypotheses as a list of checks: `[ids_small, keys_words, no_ph_keys, vals_text, expr_wf]` -/
def newHyps (s : SD) : List Bool :=
  [s.exprs.all fun e => decide (e.1 < 1000000), s.data.all fun d => keyWord d.1, s.data.all fun d => keyNoPh d.1,
   s.data.all fun d => valText s d, s.exprs.all fun e => wfExpr e.2.expression]

theorem AcyclicFlat'.of_checks {s : SD} (hb : AcyclicFlat s) (h : newHyps s = [true, true, true, true, true]) :
    AcyclicFlat' s := by
  simp only [newHyps, List.cons.injEq, List.all_eq_true, decide_eq_true_eq, and_true] at h
  exact ⟨hb, h.1, h.2.1, h.2.2.1, h.2.2.2.1, h.2.2.2.2⟩

/-! ### characters -/
theorem isWordChar_dollar : isWordChar '$' = false := by decide +kernel
theorem isWordChar_lb : isWordChar '[' = false := by decide +kernel
theorem isWs_dollar : isWs '$' = false := by decide

theorem inRanges_disjoint (a b : List (Nat × Nat))
    (h : (a.all fun r1 => b.all fun r2 => decide (r1.2 < r2.1) || decide (r2.2 < r1.1)) = true) (n : Nat) :
    inRanges a n = true → inRanges b n = false := by
  intro ha
  cases hb : inRanges b n with
  | false => rfl
  | true =>
    simp only [inRanges, List.any_eq_true, Bool.and_eq_true, decide_eq_true_eq] at ha hb
    obtain ⟨r1, h1, h1a, h1b⟩ := ha
    obtain ⟨r2, h2, h2a, h2b⟩ := hb
    simp only [List.all_eq_true, Bool.or_eq_true, decide_eq_true_eq] at h
    have := h r1 h1 r2 h2
    omega

theorem word_not_ws (c : Char) (h : isWordChar c = true) : isWs c = false :=
  inRanges_disjoint Gen.wordRanges Gen.wsRanges (by decide +kernel) c.toNat h

theorem noD_iff {s : Str} : noD s = true ↔ '$' ∉ s := by
  simp [noD]

theorem noD_append {a b : Str} : noD (a ++ b) = (noD a && noD b) := by
  simp [noD, List.contains_eq_mem, List.mem_append]

theorem allWord_noD {w : Str} (h : w.all isWordChar = true) : '$' ∉ w := by
  intro hm
  have := List.all_eq_true.mp h _ hm
  rw [isWordChar_dollar] at this; cases this

theorem allWord_noLb {w : Str} (h : w.all isWordChar = true) : '[' ∉ w := by
  intro hm
  have := List.all_eq_true.mp h _ hm
  rw [isWordChar_lb] at this; cases this

/-! ### `findRef` on segmented text -/

theorem findRef_cons_ne {c : Char} (r : Str) (hc : c ≠ '$') :
    findRef (c :: r) = (findRef r).map fun (b, x, a) => (c :: b, x, a) := by
  rw [findRef.eq_def]
  split
  · rename_i h; simp only [List.cons.injEq] at h; exact absurd h.1 hc
  · rename_i h; simp only [List.cons.injEq] at h; obtain ⟨rfl, rfl⟩ := h; rfl
  · rename_i h; cases h

theorem findRef_skip : ∀ (pre s : Str), '$' ∉ pre →
    findRef (pre ++ s) = (findRef s).map fun (b, x, a) => (pre ++ b, x, a)
  | [], s, _ => by
    rw [List.nil_append]
    cases findRef s <;> rfl
  | c :: pre, s, h => by
    have hc : c ≠ '$' := fun e => h (by simp [e])
    have hp : '$' ∉ pre := fun hm => h (List.mem_cons_of_mem _ hm)
    rw [List.cons_append, findRef_cons_ne _ hc, findRef_skip pre s hp]
    cases findRef s <;> simp

theorem findRef_none : ∀ (s : Str), '$' ∉ s → findRef s = none
  | [], _ => by simp [findRef]
  | c :: s, h => by
    have hc : c ≠ '$' := fun e => h (by simp [e])
    have hp : '$' ∉ s := fun hm => h (List.mem_cons_of_mem _ hm)
    rw [findRef_cons_ne _ hc, findRef_none s hp]; rfl

/-- what may follow a reference: the end, or a character that is neither a word character nor a bracket -/
def refStop : Str → Bool
  | [] => true
  | c :: _ => !isRefChar c

theorem isRefChar_of_word {c : Char} (h : isWordChar c = true) : isRefChar c = true := by simp [isRefChar, h]

theorem refStop_headFails {t : Str} (h : refStop t = true) : headFails isRefChar t = true := by
  cases t <;> simp [refStop, headFails] at h ⊢ <;> exact h

theorem refStop_boundary {t : Str} (h : refStop t = true) : boundaryOk t = true := by
  cases t with
  | nil => rfl
  | cons c t =>
    simp only [refStop, Bool.not_eq_true', isRefChar, Bool.or_eq_false_iff] at h
    simp [boundaryOk, h.1.1]

theorem findRef_hit (w tail : Str) (hne : w ≠ []) (hw : w.all isWordChar = true) (ht : refStop tail = true) :
    findRef ('$' :: w ++ tail) = some ([], '$' :: w, tail) := by
  cases w with
  | nil => exact absurd rfl hne
  | cons c w' =>
    simp only [List.all_cons, Bool.and_eq_true] at hw
    have hall : ∀ x ∈ w', isRefChar x = true := fun x hx => isRefChar_of_word (List.all_eq_true.mp hw.2 x hx)
    obtain ⟨h1, h2⟩ := takeWhile_stop isRefChar w' tail hall (refStop_headFails ht)
    simp only [List.cons_append, findRef, hw.1, if_true, h1, h2]

theorem refsOf_length_le : ∀ ps : Ps, (refsOf ps).length ≤ (rend ps).length
  | [] => by simp [refsOf, rend]
  | (.ref w, l) :: r => by
    have := refsOf_length_le r
    simp only [refsOf, rend, Pc.text, List.length_cons, List.length_append]; omega
  | (.done t, l) :: r => by
    have := refsOf_length_le r
    simp only [refsOf, rend, Pc.text, List.length_append]; omega

theorem wfPs_cons {p : Pc} {l : Str} {r : Ps} (h : wfPs ((p, l) :: r) = true) :
    pcOk p = true ∧ '$' ∉ l ∧ wfPs r = true ∧ (l = [] → r = []) ∧
      (∀ w, p = .ref w → refStop (l ++ rend r) = true) := by
  simp only [wfPs, Bool.and_eq_true] at h
  obtain ⟨⟨⟨h1, h2⟩, h3⟩, h4⟩ := h
  refine ⟨h1, noD_iff.mp h2, h4, ?_, ?_⟩
  · intro hl; subst hl; simpa using h3
  · intro w hw; subst hw
    cases l with
    | nil =>
      have : r = [] := by simpa using h3
      subst this; rfl
    | cons c l => simpa [refStop] using h3

theorem pcOk_ref {w : Str} (h : pcOk (.ref w) = true) : w ≠ [] ∧ w.all isWordChar = true := by
  simp only [pcOk, Bool.and_eq_true, Bool.not_eq_true', List.isEmpty_eq_false_iff] at h
  exact h

theorem pcOk_done {t : Str} (h : pcOk (.done t) = true) : '$' ∉ t := noD_iff.mp h

theorem findRefsFuel_rend : ∀ (ps : Ps) (pre : Str) (fuel : Nat), wfPs ps = true → '$' ∉ pre →
    (refsOf ps).length < fuel → findRefsFuel fuel (pre ++ rend ps) = refsOf ps
  | [], pre, fuel, _, hp, hf => by
    obtain ⟨f, rfl⟩ : ∃ f, fuel = f + 1 := ⟨fuel - 1, by omega⟩
    simp [rend, findRefsFuel, findRef_none pre hp, refsOf]
  | (.done t, l) :: r, pre, fuel, hwf, hp, hf => by
    obtain ⟨h1, h2, h3, _, _⟩ := wfPs_cons hwf
    have hp' : '$' ∉ pre ++ (t ++ l) := by
      simp only [List.mem_append, not_or]; exact ⟨hp, pcOk_done h1, h2⟩
    have := findRefsFuel_rend r (pre ++ (t ++ l)) fuel h3 hp' (by simpa [refsOf] using hf)
    simpa [rend, Pc.text, refsOf, List.append_assoc] using this
  | (.ref w, l) :: r, pre, fuel, hwf, hp, hf => by
    obtain ⟨h1, h2, h3, _, h5⟩ := wfPs_cons hwf
    obtain ⟨hne, hw⟩ := pcOk_ref h1
    obtain ⟨f, rfl⟩ : ∃ f, fuel = f + 1 := ⟨fuel - 1, by omega⟩
    have hit := findRef_hit w (l ++ rend r) hne hw (h5 w rfl)
    have hs := findRef_skip pre ('$' :: w ++ (l ++ rend r)) hp
    rw [hit] at hs
    have ih := findRefsFuel_rend r l f h3 h2 (by simp only [refsOf, List.length_cons] at hf; omega)
    simp only [rend, Pc.text, refsOf, findRefsFuel]
    simp only [List.cons_append] at hs ⊢
    rw [hs]
    simp [ih]

/-- **(S1)** the references of a segmented text, in order -/
theorem findRefs_render (g : Segs) (h : g.wf = true) : findRefs g.render = refsOf g.ps := by
  simp only [Segs.wf, Bool.and_eq_true] at h
  have := refsOf_length_le g.ps
  exact findRefsFuel_rend g.ps g.lit0 _ h.2 (noD_iff.mp h.1) (by simp only [Segs.render, List.length_append]; omega)

/-! ### `substRefFuel` on segmented text -/

/-- a word `w` that matches at the beginning of `w' ++ tail` and is followed by a non-word character is `w'` -/
theorem word_match_eq : ∀ (w w' tail : Str), w.all isWordChar = true → w'.all isWordChar = true →
    boundaryOk tail = true → w.isPrefixOf (w' ++ tail) = true → boundaryOk ((w' ++ tail).drop w.length) = true → w = w'
  | [], [], _, _, _, _, _, _ => rfl
  | [], c :: w', tail, _, hw', _, _, hb => by
    simp only [List.all_cons, Bool.and_eq_true] at hw'
    simp [boundaryOk, hw'.1] at hb
  | a :: w, [], tail, hw, _, ht, hp, _ => by
    simp only [List.all_cons, Bool.and_eq_true] at hw
    cases tail with
    | nil => simp at hp
    | cons x tail =>
      simp only [List.nil_append, List.isPrefixOf, Bool.and_eq_true, beq_iff_eq] at hp
      obtain ⟨rfl, _⟩ := hp
      simp [boundaryOk, hw.1] at ht
  | a :: w, c :: w', tail, hw, hw', ht, hp, hb => by
    simp only [List.all_cons, Bool.and_eq_true] at hw hw'
    simp only [List.cons_append, List.isPrefixOf, Bool.and_eq_true, beq_iff_eq] at hp
    obtain ⟨rfl, hp⟩ := hp
    simp only [List.cons_append, List.length_cons, List.drop_succ_cons] at hb
    rw [word_match_eq w w' tail hw.2 hw'.2 ht hp hb]

theorem substRefFuel_nil (ref repl : Str) (fuel : Nat) : substRefFuel ref repl fuel [] = [] := by
  cases fuel <;> simp [substRefFuel]

/-- a reference to another name is copied -/
theorem substRefFuel_miss (w w' repl tail : Str) (fuel : Nat) (hw : w.all isWordChar = true)
    (hw' : w'.all isWordChar = true) (ht : boundaryOk tail = true) (hne : w' ≠ w) :
    substRefFuel ('$' :: w) repl (fuel + 1) ('$' :: w' ++ tail)
      = '$' :: substRefFuel ('$' :: w) repl fuel (w' ++ tail) := by
  rw [List.cons_append, substRefFuel_cons]
  have : (('$' :: w).isPrefixOf ('$' :: (w' ++ tail)) && !('$' :: w).isEmpty &&
      boundaryOk (('$' :: (w' ++ tail)).drop ('$' :: w).length)) = false := by
    cases h : (('$' :: w).isPrefixOf ('$' :: (w' ++ tail)) && !('$' :: w).isEmpty &&
      boundaryOk (('$' :: (w' ++ tail)).drop ('$' :: w).length)) with
    | false => rfl
    | true =>
      simp only [List.isPrefixOf, beq_self_eq_true, Bool.true_and, List.isEmpty_cons, Bool.not_false, Bool.and_true,
        List.length_cons, List.drop_succ_cons, Bool.and_eq_true] at h
      exact absurd (word_match_eq w w' tail hw hw' ht h.1 h.2).symm hne
  rw [this]; rfl

def single (w repl : Str) : Str → Option Str := fun x => if x = w then some repl else none

theorem rend_cons (p : Pc) (l : Str) (r : Ps) : rend ((p, l) :: r) = p.text ++ (l ++ rend r) := rfl

theorem fill_cons (σ : Str → Option Str) (p : Pc) (l : Str) (r : Ps) :
    fill σ ((p, l) :: r) = (p.fill σ, l) :: fill σ r := rfl

theorem substRefFuel_rend (w repl : Str) (hne : w ≠ []) (hw : w.all isWordChar = true) :
    ∀ (ps : Ps) (fuel : Nat), wfPs ps = true → (rend ps).length ≤ fuel →
      substRefFuel ('$' :: w) repl fuel (rend ps) = rend (fill (single w repl) ps)
  | [], fuel, _, _ => by simp [rend, fill, substRefFuel_nil]
  | (.done t, l) :: r, fuel, hwf, hf => by
    obtain ⟨h1, h2, h3, _, _⟩ := wfPs_cons hwf
    have hp : '$' ∉ t ++ l := by simp only [List.mem_append, not_or]; exact ⟨pcOk_done h1, h2⟩
    simp only [rend_cons, Pc.text, List.length_append] at hf
    have hs := substRefFuel_skip '$' w repl (t ++ l) (rend r) fuel hp (by simp only [List.length_append]; omega)
    have ih := substRefFuel_rend w repl hne hw r (fuel - (t ++ l).length) h3 (by simp only [List.length_append]; omega)
    simp only [rend_cons, fill_cons, Pc.fill, Pc.text]
    rw [← List.append_assoc, hs, ih, List.append_assoc]
  | (.ref w', l) :: r, fuel, hwf, hf => by
    obtain ⟨h1, h2, h3, _, h5⟩ := wfPs_cons hwf
    obtain ⟨hne', hw'⟩ := pcOk_ref h1
    have hstop := h5 w' rfl
    simp only [rend_cons, Pc.text, List.length_append, List.length_cons] at hf
    obtain ⟨f, rfl⟩ : ∃ f, fuel = f + 1 := ⟨fuel - 1, by omega⟩
    have hsl : ∀ f', l.length + (rend r).length ≤ f' →
        substRefFuel ('$' :: w) repl f' (l ++ rend r) = l ++ rend (fill (single w repl) r) := by
      intro f' hf'
      rw [substRefFuel_skip '$' w repl l (rend r) f' h2 (by omega),
        substRefFuel_rend w repl hne hw r (f' - l.length) h3 (by omega)]
    by_cases he : w' = w
    · subst he
      have := C05_subst_hit ('$' :: w') repl f (l ++ rend r) (by simp) (refStop_boundary hstop)
      simp only [rend_cons, fill_cons, Pc.fill, Pc.text, single, if_true]
      rw [this, hsl f (by omega)]
    · have hm := substRefFuel_miss w w' repl (l ++ rend r) f hw hw' (refStop_boundary hstop) he
      have hp : '$' ∉ w' ++ l := by
        simp only [List.mem_append, not_or]; exact ⟨allWord_noD hw', h2⟩
      have hs := substRefFuel_skip '$' w repl (w' ++ l) (rend r) f hp (by simp only [List.length_append]; omega)
      have ih := substRefFuel_rend w repl hne hw r (f - (w' ++ l).length) h3 (by simp only [List.length_append]; omega)
      simp only [rend_cons, fill_cons, Pc.fill, Pc.text, single, he, if_false]
      rw [hm, ← List.append_assoc, hs, ih, List.append_assoc]
      rfl

/-- **(S2)** replacing one reference in a segmented text -/
theorem substRefFuel_render (w repl : Str) (hne : w ≠ []) (hw : w.all isWordChar = true) (g : Segs) (h : g.wf = true)
    (fuel : Nat) (hf : g.render.length ≤ fuel) :
    substRefFuel ('$' :: w) repl fuel g.render = (⟨g.lit0, fill (single w repl) g.ps⟩ : Segs).render := by
  simp only [Segs.wf, Bool.and_eq_true] at h
  simp only [Segs.render, List.length_append] at hf ⊢
  rw [substRefFuel_skip '$' w repl g.lit0 (rend g.ps) fuel (noD_iff.mp h.1) (by omega),
    substRefFuel_rend w repl hne hw g.ps _ h.2 (by omega)]

/-! ### filling references -/

def orElse (σ1 σ2 : Str → Option Str) : Str → Option Str := fun w => match σ1 w with | some t => some t | none => σ2 w

/-- the replacement texts carry no `$` -/
def CleanSub (σ : Str → Option Str) : Prop := ∀ w t, σ w = some t → '$' ∉ t

theorem CleanSub.orElse {σ1 σ2} (h1 : CleanSub σ1) (h2 : CleanSub σ2) : CleanSub (orElse σ1 σ2) := by
  intro w t h
  simp only [C05.orElse] at h
  split at h
  · rename_i t' ht'; cases h; exact h1 w _ ht'
  · exact h2 w t h

theorem Pc.fill_fill (σ1 σ2 : Str → Option Str) (p : Pc) : (p.fill σ1).fill σ2 = p.fill (orElse σ1 σ2) := by
  cases p with
  | done t => rfl
  | ref w =>
    simp only [Pc.fill, orElse]
    cases h1 : σ1 w with
    | some t => rfl
    | none => simp only

theorem fill_fill (σ1 σ2 : Str → Option Str) : ∀ ps : Ps, fill σ2 (fill σ1 ps) = fill (orElse σ1 σ2) ps
  | [] => rfl
  | (p, l) :: r => by
    simp only [fill_cons, Pc.fill_fill, fill_fill σ1 σ2 r]

theorem fill_congr (σ σ' : Str → Option Str) : ∀ ps : Ps, (∀ w, ('$' :: w) ∈ refsOf ps → σ w = σ' w) →
    fill σ ps = fill σ' ps
  | [], _ => rfl
  | (.done t, l) :: r, h => by
    simp only [fill_cons, Pc.fill]
    rw [fill_congr σ σ' r (fun w hw => h w (by simpa [refsOf] using hw))]
  | (.ref w, l) :: r, h => by
    simp only [fill_cons, Pc.fill]
    rw [fill_congr σ σ' r (fun w' hw => h w' (by simp [refsOf, hw])), h w (by simp [refsOf])]

theorem fill_none (ps : Ps) : fill (fun _ => none) ps = ps := by
  induction ps with
  | nil => rfl
  | cons a r ih =>
    obtain ⟨p, l⟩ := a
    rw [fill_cons, ih]
    cases p <;> rfl

theorem refsOf_fill (σ : Str → Option Str) : ∀ ps : Ps,
    refsOf (fill σ ps) = (refsOf ps).filter fun r => (σ (r.drop 1)).isNone
  | [] => rfl
  | (.done t, l) :: r => by simp only [fill_cons, Pc.fill, refsOf, refsOf_fill σ r]
  | (.ref w, l) :: r => by
    simp only [fill_cons, Pc.fill, refsOf, List.filter_cons, List.drop_succ_cons, List.drop_zero]
    cases h : σ w with
    | some t => simp [refsOf, refsOf_fill σ r]
    | none => simp [refsOf, refsOf_fill σ r]

theorem wfPs_fill (σ : Str → Option Str) (hσ : CleanSub σ) : ∀ ps : Ps, wfPs ps = true → wfPs (fill σ ps) = true
  | [], _ => rfl
  | (p, l) :: r, h => by
    have ih := wfPs_fill σ hσ r
    simp only [wfPs, Bool.and_eq_true] at h
    obtain ⟨⟨⟨h1, h2⟩, h3⟩, h4⟩ := h
    simp only [fill_cons, wfPs, Bool.and_eq_true]
    refine ⟨⟨⟨?_, h2⟩, ?_⟩, ih h4⟩
    · cases p with
      | done t => exact h1
      | ref w =>
        simp only [Pc.fill]
        cases hw : σ w with
        | some t => exact noD_iff.mpr (hσ w t hw)
        | none => exact h1
    · cases l with
      | nil => simpa [fill] using h3
      | cons c l =>
        cases p with
        | done t => rfl
        | ref w =>
          simp only [Pc.fill]
          cases hw : σ w with
          | some t => rfl
          | none => exact h3

def Segs.fill (σ : Str → Option Str) (g : Segs) : Segs := ⟨g.lit0, C05.fill σ g.ps⟩

theorem Segs.wf_fill {σ} (hσ : CleanSub σ) {g : Segs} (h : g.wf = true) : (g.fill σ).wf = true := by
  simp only [Segs.wf, Bool.and_eq_true, Segs.fill] at h ⊢
  exact ⟨h.1, wfPs_fill σ hσ g.ps h.2⟩

theorem Segs.fill_fill (σ1 σ2) (g : Segs) : (g.fill σ1).fill σ2 = g.fill (orElse σ1 σ2) := by
  simp only [Segs.fill, C05.fill_fill]

theorem rend_noD : ∀ ps : Ps, wfPs ps = true → refsOf ps = [] → '$' ∉ rend ps
  | [], _, _ => by simp [rend]
  | (.done t, l) :: r, h, hr => by
    obtain ⟨h1, h2, h3, _, _⟩ := wfPs_cons h
    have := rend_noD r h3 (by simpa [refsOf] using hr)
    simp only [rend_cons, Pc.text, List.mem_append, not_or]
    exact ⟨pcOk_done h1, h2, this⟩
  | (.ref w, l) :: r, _, hr => by simp [refsOf] at hr

theorem rend_hasD : ∀ ps : Ps, refsOf ps ≠ [] → '$' ∈ rend ps
  | [], h => absurd rfl h
  | (.done t, l) :: r, h => by
    have := rend_hasD r (by simpa [refsOf] using h)
    simp only [rend_cons, List.mem_append]; exact Or.inr (Or.inr this)
  | (.ref w, l) :: r, _ => by simp [rend_cons, Pc.text]

/-- **(S3)** a segmented text contains `$` iff a reference is left -/
theorem render_contains (g : Segs) (h : g.wf = true) : g.render.contains '$' = !(refsOf g.ps).isEmpty := by
  simp only [Segs.wf, Bool.and_eq_true] at h
  cases hr : refsOf g.ps with
  | nil =>
    have := rend_noD g.ps h.2 hr
    have h0 := noD_iff.mp h.1
    simp [Segs.render, this, h0]
  | cons a r =>
    have := rend_hasD g.ps (by simp [hr])
    simp [Segs.render, this]

/-! ### the substitution fold -/

/-- replace the references of `rs` for which `ρ` has a text, one after the other -/
def substAll (ρ : Str → Option Str) (rs : List Str) (x : Str) : Str :=
  rs.foldl (fun x r => match ρ r with | some t => substRefFuel r t (x.length + 1) x | none => x) x

def IsRef (r : Str) : Prop := ∃ w, r = '$' :: w ∧ w ≠ [] ∧ w.all isWordChar = true

/-- the assignment the fold over `rs` realises -/
def subOf (ρ : Str → Option Str) (rs : List Str) : Str → Option Str :=
  fun w => if ('$' :: w) ∈ rs then ρ ('$' :: w) else none

theorem subOf_cons_some {ρ : Str → Option Str} {w t : Str} (rs : List Str) (h : ρ ('$' :: w) = some t) :
    subOf ρ (('$' :: w) :: rs) = orElse (single w t) (subOf ρ rs) := by
  funext x
  simp only [subOf, orElse, single, List.mem_cons, List.cons.injEq, true_and]
  by_cases hx : x = w
  · subst hx; simp [h]
  · simp [hx]

theorem subOf_cons_none {ρ : Str → Option Str} {w : Str} (rs : List Str) (h : ρ ('$' :: w) = none) :
    subOf ρ (('$' :: w) :: rs) = subOf ρ rs := by
  funext x
  simp only [subOf, List.mem_cons, List.cons.injEq, true_and]
  by_cases hx : x = w
  · subst hx; simp [h]
  · simp [hx]

theorem CleanSub.single {w t : Str} (h : '$' ∉ t) : CleanSub (single w t) := by
  intro x t' hx
  simp only [C05.single] at hx
  split at hx
  · cases hx; exact h
  · cases hx

/-- **(S2′)** the fold fills the references it runs over -/
theorem substAll_render (ρ : Str → Option Str) (hρ : ∀ r t, ρ r = some t → '$' ∉ t) :
    ∀ (rs : List Str) (g : Segs), g.wf = true → (∀ r ∈ rs, IsRef r) →
      substAll ρ rs g.render = (g.fill (subOf ρ rs)).render
  | [], g, _, _ => by
    have : subOf ρ [] = fun _ => none := by funext x; simp [subOf]
    simp [substAll, this, Segs.fill, fill_none]
  | r :: rs, g, hg, hr => by
    obtain ⟨w, rfl, hne, hw⟩ := hr r List.mem_cons_self
    have hrs : ∀ r ∈ rs, IsRef r := fun r h => hr r (List.mem_cons_of_mem _ h)
    simp only [substAll, List.foldl_cons]
    cases hq : ρ ('$' :: w) with
    | none =>
      have := substAll_render ρ hρ rs g hg hrs
      simp only [substAll] at this
      rw [this, subOf_cons_none rs hq]
    | some t =>
      have h1 := substRefFuel_render w t hne hw g hg (g.render.length + 1) (by omega)
      have hg1 : (g.fill (single w t)).wf = true := Segs.wf_fill (CleanSub.single (hρ _ _ hq)) hg
      have := substAll_render ρ hρ rs (g.fill (single w t)) hg1 hrs
      simp only [substAll] at this
      simp only [Segs.fill] at this h1 ⊢
      rw [h1, this, fill_fill, subOf_cons_some rs hq]

/-! ### `strip` -/

def nws (c : Char) : Bool := !isWs c

theorem filter_dropWhile_ws : ∀ s : Str, (s.dropWhile isWs).filter nws = s.filter nws
  | [] => rfl
  | c :: s => by
    cases h : isWs c with
    | true => simp [h, nws, filter_dropWhile_ws s]
    | false => simp [h]

theorem strip_filter (s : Str) : (strip s).filter nws = s.filter nws := by
  simp only [strip, List.filter_reverse, filter_dropWhile_ws, List.reverse_reverse]

theorem dropWhile_head {p : Char → Bool} : ∀ {s : Str}, (∀ c, s.head? = some c → p c = false) → s.dropWhile p = s
  | [], _ => rfl
  | c :: s, h => by simp [h c rfl]

theorem strip_id (s : Str) (h : ∀ c ∈ s, isWs c = false) : strip s = s := by
  have h1 : s.dropWhile isWs = s := dropWhile_head fun c hc => h c (List.mem_of_mem_head? hc)
  have h2 : s.reverse.dropWhile isWs = s.reverse :=
    dropWhile_head fun c hc => h c (List.mem_reverse.mp (List.mem_of_mem_head? hc))
  simp only [strip, h1, h2, List.reverse_reverse]

theorem strip_ref (w : Str) (hw : w.all isWordChar = true) : strip ('$' :: w) = '$' :: w := by
  apply strip_id
  intro c hc
  rcases List.mem_cons.mp hc with rfl | hc
  · exact isWs_dollar
  · exact word_not_ws c (List.all_eq_true.mp hw c hc)

theorem litsOf_fill (σ : Str → Option Str) : ∀ ps : Ps, litsOf (fill σ ps) = litsOf ps
  | [] => rfl
  | (p, l) :: r => by simp only [fill_cons, litsOf, litsOf_fill σ r]

theorem filter_rend_le (p : Char → Bool) : ∀ ps : Ps,
    ((litsOf ps).filter p).length + ((refsOf ps).flatten.filter p).length ≤ ((rend ps).filter p).length
  | [] => by simp [litsOf, refsOf, rend]
  | (.done t, l) :: r => by
    have := filter_rend_le p r
    simp only [litsOf, refsOf, rend_cons, Pc.text, List.filter_append, List.length_append] at this ⊢
    omega
  | (.ref w, l) :: r => by
    have := filter_rend_le p r
    simp only [litsOf, refsOf, rend_cons, Pc.text, List.filter_append, List.length_append, List.flatten_cons] at this ⊢
    omega

/-- a text with one reference left and a chunk that is not blank is not that reference when stripped -/
theorem strip_ne_ref (lit0 : Str) (ps : Ps) (r : Str) (hr : refsOf ps = [r])
    (hnb : ((lit0 ++ litsOf ps).any fun c => !isWs c) = true) : strip (lit0 ++ rend ps) ≠ r := by
  intro h
  have h1 := strip_filter (lit0 ++ rend ps)
  rw [h] at h1
  have h2 := filter_rend_le nws ps
  rw [hr] at h2
  simp only [List.flatten_cons, List.flatten_nil, List.append_nil] at h2
  have h3 : 1 ≤ ((lit0 ++ litsOf ps).filter nws).length := by
    obtain ⟨c, hc, hcw⟩ := List.any_eq_true.mp hnb
    exact List.length_pos_of_mem (List.mem_filter.mpr ⟨hc, hcw⟩)
  have h4 := congrArg List.length h1
  simp only [List.filter_append, List.length_append] at h3 h4
  omega

/-! ### `refersTo` -/

theorem refersTo_noD (k t : Str) (h : '$' ∉ t) : refersTo k t = false := by
  cases hr : refersTo k t with
  | false => rfl
  | true =>
    simp only [refersTo, List.any_eq_true] at hr
    obtain ⟨x, hx, hx2⟩ := hr
    split at hx2
    · rename_i r
      have : ∀ (s : Str), ('$' :: r) ∈ tails s → '$' ∈ s := by
        intro s
        induction s with
        | nil => simp [tails]
        | cons c s ih =>
          simp only [tails, List.mem_cons]
          rintro (h | h)
          · cases h; simp
          · exact Or.inr (ih h)
      exact absurd (this t hx) h
    · cases hx2

/-! ### substring test, placeholder words (as in C02ins, for the `EXPRESSION` word) -/

theorem mem_tails : ∀ {s t : Str}, t ∈ tails s ↔ ∃ a, s = a ++ t
  | [], t => by
    simp only [tails, List.mem_singleton]
    constructor
    · rintro rfl; exact ⟨[], rfl⟩
    · rintro ⟨a, h⟩
      have := congrArg List.length h
      simp at this
      exact List.eq_nil_of_length_eq_zero (by omega)
  | c :: cs, t => by
    simp only [tails, List.mem_cons, mem_tails (s := cs)]
    constructor
    · rintro (rfl | ⟨a, rfl⟩)
      · exact ⟨[], rfl⟩
      · exact ⟨c :: a, rfl⟩
    · rintro ⟨a, h⟩
      cases a with
      | nil => exact Or.inl h.symm
      | cons x a =>
        simp only [List.cons_append, List.cons.injEq] at h
        exact Or.inr ⟨a, h.2⟩

theorem isInfix_iff {p s : Str} : isInfix p s = true ↔ ∃ a b, s = a ++ p ++ b := by
  simp only [isInfix, List.any_eq_true, mem_tails, List.isPrefixOf_iff_prefix]
  constructor
  · rintro ⟨t, ⟨a, rfl⟩, ⟨b, rfl⟩⟩
    exact ⟨a, b, by simp⟩
  · rintro ⟨a, b, rfl⟩
    exact ⟨p ++ b, ⟨a, by simp⟩, ⟨b, rfl⟩⟩

theorem isInfix_append_false {p s : Str} (q : Str) (h : isInfix p s = false) : isInfix (p ++ q) s = false := by
  cases h' : isInfix (p ++ q) s with
  | false => rfl
  | true =>
    obtain ⟨a, b, rfl⟩ := isInfix_iff.mp h'
    have : isInfix p (a ++ (p ++ q) ++ b) = true := isInfix_iff.mpr ⟨a, q ++ b, by simp⟩
    rw [this] at h; cases h

theorem isInfix_eq_of_length {p s : Str} (hl : p.length = s.length) (h : isInfix p s = true) : p = s := by
  obtain ⟨a, b, rfl⟩ := isInfix_iff.mp h
  simp only [List.length_append] at hl
  have ha : a = [] := List.eq_nil_of_length_eq_zero (by omega)
  have hb : b = [] := List.eq_nil_of_length_eq_zero (by omega)
  subst ha hb
  simp

theorem natDigits_length : ∀ (k n : Nat), n < 10 ^ (k + 1) → (natDigits n).length ≤ k + 1
  | 0, n, h => by
    rw [natDigits, dif_pos (by simpa using h)]; simp
  | k + 1, n, h => by
    rw [natDigits]
    split
    · simp
    · have := natDigits_length k (n / 10) (by rw [Nat.pow_succ] at h; omega)
      simp only [List.length_append, List.length_singleton]; omega

theorem padSix_length {i : Nat} (h : i < 1000000) : (padSix i).length = 6 := by
  have := natDigits_length 5 i (by omega)
  simp only [padSix, List.length_append, List.length_replicate]
  omega

theorem digitsVal_padSix (i : Nat) : digitsVal (padSix i) = i := by
  have h0 : ∀ k : Nat, List.foldl (fun acc c => acc * 10 + (digitVal c).getD 0) 0 (List.replicate k '0') = 0 := by
    intro k
    induction k with
    | zero => rfl
    | succ k ih =>
      rw [List.replicate_succ, List.foldl_cons]
      have : (0 * 10 + (digitVal '0').getD 0) = 0 := by decide
      rw [this, ih]
  have := C04.digitsVal_natDigits i
  simp only [digitsVal] at this ⊢
  simp only [padSix, List.foldl_append, h0, this]

/-- the placeholder word of expression `i` -/
def phOf (i : Nat) : Str := kwExpr ++ padSix i

theorem kwExpr_length : kwExpr.length = 10 := by decide

theorem phOf_length {i : Nat} (h : i < 1000000) : (phOf i).length = 16 := by
  simp [phOf, kwExpr_length, padSix_length h]

theorem phOf_inj {i j : Nat} (h : phOf i = phOf j) : i = j := by
  have := List.append_cancel_left h
  rw [← digitsVal_padSix i, ← digitsVal_padSix j, this]

theorem phOf_infix {i j : Nat} (hi : i < 1000000) (hj : j < 1000000) (h : isInfix (phOf i) (phOf j) = true) : i = j :=
  phOf_inj (isInfix_eq_of_length (by rw [phOf_length hi, phOf_length hj]) h)

theorem phOf_not_infix {s : Str} (i : Nat) (h : isInfix kwExpr s = false) : isInfix (phOf i) s = false :=
  isInfix_append_false _ h

theorem isInfix_kw_phOf (i : Nat) : isInfix kwExpr (phOf i) = true :=
  isInfix_iff.mpr ⟨[], padSix i, by simp [phOf]⟩

theorem containsPh_infix {kw s : Str} (h : isInfix kw s = false) : containsPh kw s = false := by
  cases hc : containsPh kw s with
  | false => rfl
  | true =>
    simp only [containsPh, List.any_eq_true, Bool.and_eq_true] at hc
    obtain ⟨t, ht, hp, _⟩ := hc
    have : isInfix kw s = true := by
      simp only [isInfix, List.any_eq_true]; exact ⟨t, ht, hp⟩
    rw [this] at h; cases h

theorem digitVal_ascii : ∀ c, C04.IsAsciiDigit c → (digitVal c).isSome = true := by
  unfold C04.IsAsciiDigit; decide

theorem padSix_digitVal (i : Nat) : ∀ c ∈ padSix i, (digitVal c).isSome = true := by
  intro c hc
  simp only [padSix, List.mem_append, List.mem_replicate] at hc
  rcases hc with ⟨_, rfl⟩ | hc
  · decide
  · exact digitVal_ascii c (C04.natDigits_ascii i c hc)

theorem digitRun_go : ∀ (n : Nat) (ds : Str) (acc : Nat), ds.length = n → (∀ c ∈ ds, (digitVal c).isSome = true) →
    digitRun.go n ds acc = some (ds.foldl (fun a c => a * 10 + (digitVal c).getD 0) acc)
  | 0, [], acc, _, _ => rfl
  | n + 1, c :: ds, acc, hl, hd => by
    have hc := hd c List.mem_cons_self
    obtain ⟨d, hd'⟩ := Option.isSome_iff_exists.mp hc
    simp only [digitRun.go, hd', List.foldl_cons, Option.getD_some]
    exact digitRun_go n ds _ (by simpa using hl) (fun x hx => hd x (List.mem_cons_of_mem _ hx))

theorem digitRun_padSix {i : Nat} (h : i < 1000000) : digitRun 6 (padSix i) = some i := by
  have := digitRun_go 6 (padSix i) 0 (padSix_length h) (padSix_digitVal i)
  have hv := digitsVal_padSix i
  simp only [digitsVal] at hv
  rw [hv] at this
  exact this

theorem firstSixDigits_skip (c : Char) (cs : Str) (h : digitVal c = none) :
    firstSixDigits (c :: cs) = firstSixDigits cs := by
  simp [firstSixDigits, digitRun, digitRun.go, h]

theorem kwExpr_eq : kwExpr = ['E', 'X', 'P', 'R', 'E', 'S', 'S', 'I', 'O', 'N'] := by decide

theorem firstSixDigits_phOf {i : Nat} (h : i < 1000000) : firstSixDigits (phOf i) = some i := by
  have hd := digitRun_padSix h
  have hl := padSix_length h
  have e : ∀ x : Char, x ∈ ['E', 'X', 'P', 'R', 'S', 'I', 'O', 'N'] → digitVal x = none := by decide
  rw [phOf, kwExpr_eq]
  simp only [List.cons_append, List.nil_append]
  iterate 10 rw [firstSixDigits_skip _ _ (e _ (by simp))]
  cases hp : padSix i with
  | nil => rw [hp] at hl; cases hl
  | cons c cs =>
    rw [hp] at hd
    simp only [firstSixDigits, hd]

theorem containsPh_phOf {i : Nat} (h : i < 1000000) : containsPh kwExpr (phOf i) = true := by
  simp only [containsPh, List.any_eq_true, Bool.and_eq_true]
  refine ⟨phOf i, mem_tails.mpr ⟨[], rfl⟩, by simp [phOf], ?_⟩
  simp [phOf, digitRun_padSix h]

theorem insertExpression_phOf (exprs : Tbl ExprEntry) {i : Nat} (h : i < 1000000) (e : ExprEntry)
    (hg : exprs.get? i = some e) : insertExpression exprs (phOf i) = e.expression := by
  simp [insertExpression, containsPh_phOf h, firstSixDigits_phOf h, hg]

theorem insertExpression_plain (exprs : Tbl ExprEntry) {t : Str} (h : isInfix kwExpr t = false) :
    insertExpression exprs t = t := by
  simp [insertExpression, containsPh_infix h]

/-! ### (4) the substitution functions on flat data change the entries that hold the placeholder, and only those -/

/-- the new value of an entry: a string that contains the placeholder word is replaced -/
def updV (ph : Str) (v' : Val) : Val → Val
  | .leaf (.str t) => if isInfix ph t then v' else .leaf (.str t)
  | v => v

def updEs (ph : Str) (v' : Val) (es : Entries) : Entries := es.map fun d => (d.1, updV ph v' d.2)

theorem substLeafV_leaf (ph : Str) (x y : Scalar) : substLeafV ph x 1 (.leaf y) = .ok (updV ph (.leaf x) (.leaf y)) := by
  cases y <;> simp [substLeafV, updV]
  split <;> rfl

theorem substValV_leaf (ph : Str) (v : Val) (y : Scalar) : substValV ph v 1 (.leaf y) = .ok (updV ph v (.leaf y)) := by
  cases y <;> simp [substValV, updV]
  split <;> rfl

theorem substLeafEs_flat (ph : Str) (x : Scalar) : ∀ es : Entries, (∀ d ∈ es, d.2.isLeaf = true) →
    substLeafEs ph x 1 es = .ok (updEs ph (.leaf x) es)
  | [], _ => by simp [substLeafEs, updEs]
  | (k, v) :: es, h => by
    have hv := h (k, v) List.mem_cons_self
    have ih := substLeafEs_flat ph x es (fun d hd => h d (List.mem_cons_of_mem _ hd))
    cases v with
    | leaf y =>
      simp only [substLeafEs, substLeafV_leaf, ih, bind, Except.bind, pure, Except.pure, updEs, List.map_cons]
    | dict _ => cases hv
    | list _ => cases hv

theorem substValEs_flat (ph : Str) (w : Val) : ∀ es : Entries, (∀ d ∈ es, d.2.isLeaf = true) →
    substValEs ph w 1 es = .ok (updEs ph w es)
  | [], _ => by simp [substValEs, updEs]
  | (k, v) :: es, h => by
    have hv := h (k, v) List.mem_cons_self
    have ih := substValEs_flat ph w es (fun d hd => h d (List.mem_cons_of_mem _ hd))
    cases v with
    | leaf y =>
      simp only [substValEs, substValV_leaf, ih, bind, Except.bind, pure, Except.pure, updEs, List.map_cons]
    | dict _ => cases hv
    | list _ => cases hv

theorem keys_updEs (ph : Str) (v' : Val) (es : Entries) : keys (updEs ph v' es) = keys es := by
  simp [keys, updEs, List.map_map, Function.comp_def]

theorem lookup_updEs (ph : Str) (v' : Val) (k : Key) : ∀ es : Entries,
    lookup k (updEs ph v' es) = (lookup k es).map (updV ph v')
  | [] => rfl
  | (k', v) :: es => by
    have ih := lookup_updEs ph v' k es
    simp only [updEs, List.map_cons, lookup] at ih ⊢
    split
    · rfl
    · exact ih

theorem mem_updEs {ph : Str} {v' : Val} {es : Entries} {d : Key × Val} (h : d ∈ updEs ph v' es) :
    ∃ v, (d.1, v) ∈ es ∧ d.2 = updV ph v' v := by
  simp only [updEs, List.mem_map] at h
  obtain ⟨d0, h0, rfl⟩ := h
  exact ⟨d0.2, h0, rfl⟩

/-! lookups -/

theorem lookup_none_iff (k : Key) : ∀ es : Entries, lookup k es = none ↔ k ∉ keys es
  | [] => by simp [lookup, keys]
  | (k', v) :: es => by
    have ih := lookup_none_iff k es
    simp only [lookup, keys, List.map_cons, List.mem_cons, not_or] at ih ⊢
    split
    · rename_i h; simp [h]
    · rename_i h
      rw [ih]
      constructor
      · intro h2; exact ⟨fun e => h e.symm, h2⟩
      · intro h2; exact h2.2

theorem lookup_mem {k : Key} {v : Val} : ∀ {es : Entries}, lookup k es = some v → (k, v) ∈ es
  | [], h => by simp [lookup] at h
  | (k', v') :: es, h => by
    simp only [lookup] at h
    split at h
    · rename_i hk; cases h; subst hk; exact List.mem_cons_self
    · exact List.mem_cons_of_mem _ (lookup_mem h)

theorem mem_lookup {k : Key} {v : Val} : ∀ {es : Entries}, (keys es).Nodup → (k, v) ∈ es → lookup k es = some v
  | [], _, h => by cases h
  | (k', v') :: es, hn, h => by
    simp only [keys, List.map_cons, List.nodup_cons] at hn
    rcases List.mem_cons.mp h with h | h
    · cases h; simp [lookup]
    · have hk : k' ≠ k := by
        intro e; subst e
        exact hn.1 (List.mem_map.mpr ⟨(k', v), h, rfl⟩)
      simp only [lookup, hk, if_false]
      exact mem_lookup hn.2 h

theorem lookup_isSome_of_keys {k : Key} {es es' : Entries} (hk : keys es' = keys es) {v : Val}
    (h : lookup k es = some v) : ∃ v', lookup k es' = some v' := by
  cases h' : lookup k es' with
  | some v' => exact ⟨v', rfl⟩
  | none =>
    rw [lookup_none_iff, hk, ← lookup_none_iff, h] at h'
    cases h'

/-! ### the variable table of a flat dictionary -/

theorem getVar_setVar (k n : Str) (v : Val) : ∀ acc : List (Str × Val),
    getVar n (setVar k v acc) = if k = n then some v else getVar n acc
  | [] => by
    by_cases h : k = n <;> simp [setVar, getVar, h]
  | (k', v') :: r => by
    have ih := getVar_setVar k n v r
    simp only [setVar, getVar] at ih ⊢
    by_cases h1 : k' = k
    · subst h1
      by_cases h2 : k' = n <;> simp [h2]
    · have h1' : (k' == k) = false := by simpa using h1
      simp only [h1', Bool.false_eq_true, if_false, List.find?_cons]
      by_cases h2 : k' = n
      · subst h2
        have : ¬ k = k' := fun e => h1 e.symm
        simp [this]
      · have h2' : (k' == n) = false := by simpa using h2
        simp only [h2']
        exact ih

/-- the value a variable gets: a placeholder is replaced by the pending expression text -/
def varVal (exprs : Tbl ExprEntry) : Val → Val
  | .leaf (.str s) => .leaf (.str (insertExpression exprs s))
  | v => v

/-- an entry that refers to itself is no variable -/
def skipVar (exprs : Tbl ExprEntry) (n : Str) : Val → Bool
  | .leaf (.str s) => selfRef [] (.str n) (.leaf (.str (insertExpression exprs s)))
  | _ => false

theorem getVar_assignVar (exprs : Tbl ExprEntry) (k n : Str) (x : Scalar) (acc : List (Str × Val)) :
    getVar n (assignVar exprs (.str k) (.leaf x) acc) =
      if k = n ∧ skipVar exprs k (.leaf x) = false then some (varVal exprs (.leaf x)) else getVar n acc := by
  cases x with
  | str s =>
    simp only [assignVar, skipVar, varVal]
    split
    · rename_i h; simp [h]
    · rename_i h
      simp only [Bool.not_eq_true] at h
      rw [getVar_setVar]; simp [h]
  | int _ => simp only [assignVar, skipVar, varVal, getVar_setVar]; simp
  | float _ => simp only [assignVar, skipVar, varVal, getVar_setVar]; simp
  | bool _ => simp only [assignVar, skipVar, varVal, getVar_setVar]; simp
  | none => simp only [assignVar, skipVar, varVal, getVar_setVar]; simp

/-- **(V)** the variable `n` of a flat dictionary with unique names -/
theorem getVar_varsEs (exprs : Tbl ExprEntry) (n : Str) : ∀ (es : Entries) (acc : List (Str × Val)),
    (∀ d ∈ es, isStrKey d.1 = true ∧ d.2.isLeaf = true) → (keys es).Nodup →
    getVar n (varsEs exprs es acc) =
      match lookup (.str n) es with
      | none => getVar n acc
      | some v => if skipVar exprs n v = false then some (varVal exprs v) else getVar n acc
  | [], acc, _, _ => by simp [varsEs, lookup]
  | (k, v) :: es, acc, hf, hn => by
    obtain ⟨hk, hv⟩ := hf (k, v) List.mem_cons_self
    have hf' : ∀ d ∈ es, isStrKey d.1 = true ∧ d.2.isLeaf = true := fun d hd => hf d (List.mem_cons_of_mem _ hd)
    simp only [keys, List.map_cons, List.nodup_cons] at hn
    cases k with
    | int _ => cases hk
    | str ks =>
      cases v with
      | dict _ => cases hv
      | list _ => cases hv
      | leaf x =>
        have ih := getVar_varsEs exprs n es (assignVar exprs (.str ks) (.leaf x) acc) hf' hn.2
        simp only [varsEs, ih, lookup]
        by_cases hkn : ks = n
        · subst hkn
          have : lookup (.str ks) es = none := (lookup_none_iff _ es).mpr hn.1
          simp only [this, if_true, getVar_assignVar, true_and]
        · have hkn' : ¬ (Key.str ks = Key.str n) := by simpa using hkn
          simp only [hkn', if_false, getVar_assignVar, hkn, false_and]

theorem varsEs_length_pos (exprs : Tbl ExprEntry) (n : Str) (es : Entries) (v : Val)
    (h : getVar n (varsEs exprs es []) = some v) : 1 ≤ (varsEs exprs es []).length := by
  cases hv : varsEs exprs es [] with
  | nil => rw [hv] at h; simp [getVar] at h
  | cons a r => simp

/-! ### the specification `topoVal` -/

/-- the text the specification evaluates: every reference replaced by `str` of its variable's value -/
def topoStep (g : Str → Option Val) (x : Str) (r : Str) : Option Str :=
  match g (refName r) with
  | some w => (pyStrVal w).map fun t => substRefFuel r t (x.length + 1) x
  | none => none

theorem topoVal_succ (ev : Str → EvalResult) (s : SD) (fuel : Nat) (name : Str) :
    topoVal ev s (fuel + 1) name =
      match lookup (.str name) s.data with
      | none => none
      | some v =>
        match exprOf s v with
        | none => some v
        | some e =>
          if findRefs e = [strip e] then topoVal ev s fuel (refName (strip e))
          else
            match (findRefs e).foldlM (topoStep (topoVal ev s fuel)) e with
            | none => none
            | some t => match ev t with
              | .value (.leaf x) => some (.leaf x)
              | .nameError => some (.leaf (.str t))
              | _ => none := by
  rfl

theorem topoFold_mono (g1 g2 : Str → Option Val) (h : ∀ n w, g1 n = some w → g2 n = some w) :
    ∀ (rs : List Str) (x t : Str), rs.foldlM (topoStep g1) x = some t → rs.foldlM (topoStep g2) x = some t
  | [], x, t, hx => hx
  | r :: rs, x, t, hx => by
    simp only [List.foldlM_cons, bind, Option.bind] at hx ⊢
    cases h1 : topoStep g1 x r with
    | none => rw [h1] at hx; cases hx
    | some y =>
      rw [h1] at hx
      have : topoStep g2 x r = some y := by
        simp only [topoStep] at h1 ⊢
        cases hg : g1 (refName r) with
        | none => rw [hg] at h1; cases h1
        | some w => rw [hg] at h1; rw [h _ _ hg]; exact h1
      rw [this]
      exact topoFold_mono g1 g2 h rs y t hx

theorem topoVal_mono (ev : Str → EvalResult) (s : SD) : ∀ (fuel : Nat) (name : Str) (v : Val),
    topoVal ev s fuel name = some v → topoVal ev s (fuel + 1) name = some v
  | 0, _, _, h => by simp [topoVal] at h
  | fuel + 1, name, v, h => by
    rw [topoVal_succ] at h ⊢
    cases hl : lookup (.str name) s.data with
    | none => rw [hl] at h; cases h
    | some v0 =>
      rw [hl] at h
      simp only at h ⊢
      cases he : exprOf s v0 with
      | none => rw [he] at h; exact h
      | some e =>
        rw [he] at h
        simp only at h ⊢
        split
        · rename_i hp
          rw [if_pos hp] at h
          exact topoVal_mono ev s fuel _ _ h
        · rename_i hp
          rw [if_neg hp] at h
          cases hf : (findRefs e).foldlM (topoStep (topoVal ev s fuel)) e with
          | none => rw [hf] at h; cases h
          | some t =>
            rw [hf] at h
            rw [topoFold_mono _ _ (topoVal_mono ev s fuel) _ _ _ hf]
            exact h

/-- the value the specification gives to a variable -/
def Good (ev : Str → EvalResult) (s : SD) (n : Str) (tv : Val) : Prop := topoVal ev s (s.data.length + 1) n = some tv

/-- the text function of the specification -/
def topoRho (ev : Str → EvalResult) (s : SD) (r : Str) : Option Str :=
  (topoVal ev s (s.data.length + 1) (refName r)).bind pyStrVal

theorem topoFold_spec (g : Str → Option Val) : ∀ (rs : List Str) (x t : Str), rs.foldlM (topoStep g) x = some t →
    (∀ r ∈ rs, ∃ w tx, g (refName r) = some w ∧ pyStrVal w = some tx) ∧
      t = substAll (fun r => (g (refName r)).bind pyStrVal) rs x
  | [], x, t, hx => by
    simp only [List.foldlM_nil, pure, Option.some.injEq] at hx
    simp [substAll, hx]
  | r :: rs, x, t, hx => by
    simp only [List.foldlM_cons, bind, Option.bind] at hx
    cases h1 : topoStep g x r with
    | none => rw [h1] at hx; cases hx
    | some y =>
      rw [h1] at hx
      obtain ⟨ih1, ih2⟩ := topoFold_spec g rs y t hx
      simp only [topoStep] at h1
      cases hg : g (refName r) with
      | none => rw [hg] at h1; cases h1
      | some w =>
        rw [hg] at h1
        simp only at h1
        cases hp : pyStrVal w with
        | none => rw [hp] at h1; cases h1
        | some tx =>
          rw [hp] at h1
          simp only [Option.map_some, Option.some.injEq] at h1
          refine ⟨?_, ?_⟩
          · intro r' hr'
            rcases List.mem_cons.mp hr' with rfl | hr'
            · exact ⟨w, tx, hg, hp⟩
            · exact ih1 r' hr'
          · simp only [substAll, List.foldl_cons, hg, Option.bind, hp] at ih2 ⊢
            rw [h1]; exact ih2

/-- one unfolding of the specification at a good name -/
theorem Good.unfold {ev : Str → EvalResult} {s : SD} {n : Str} {tv : Val} (h : Good ev s n tv) :
    ∃ v, lookup (.str n) s.data = some v ∧
      ((exprOf s v = none ∧ tv = v) ∨
       (∃ e, exprOf s v = some e ∧
         ((findRefs e = [strip e] ∧ Good ev s (refName (strip e)) tv) ∨
          (findRefs e ≠ [strip e] ∧ (∀ r ∈ findRefs e, ∃ w tx, Good ev s (refName r) w ∧ pyStrVal w = some tx) ∧
            ∃ t, t = substAll (topoRho ev s) (findRefs e) e ∧
              ((∃ x, ev t = .value (.leaf x) ∧ tv = .leaf x) ∨ (ev t = .nameError ∧ tv = .leaf (.str t))))))) := by
  unfold Good at h
  rw [topoVal_succ] at h
  cases hl : lookup (.str n) s.data with
  | none => rw [hl] at h; cases h
  | some v0 =>
    rw [hl] at h
    simp only at h
    refine ⟨v0, rfl, ?_⟩
    cases he : exprOf s v0 with
    | none => rw [he] at h; simp only [Option.some.injEq] at h; exact Or.inl ⟨rfl, h.symm⟩
    | some e =>
      rw [he] at h
      simp only at h
      refine Or.inr ⟨e, rfl, ?_⟩
      by_cases hp : findRefs e = [strip e]
      · rw [if_pos hp] at h
        exact Or.inl ⟨hp, topoVal_mono ev s _ _ _ h⟩
      · rw [if_neg hp] at h
        refine Or.inr ⟨hp, ?_⟩
        cases hfo : (findRefs e).foldlM (topoStep (topoVal ev s s.data.length)) e with
        | none => rw [hfo] at h; cases h
        | some t =>
          rw [hfo] at h
          simp only at h
          obtain ⟨c1, c2⟩ := topoFold_spec _ _ _ _ hfo
          have hch : ∀ r ∈ findRefs e, ∃ w tx, Good ev s (refName r) w ∧ pyStrVal w = some tx := by
            intro r hr
            obtain ⟨w, tx, hw, htx⟩ := c1 r hr
            exact ⟨w, tx, topoVal_mono ev s _ _ _ hw, htx⟩
          refine ⟨hch, t, ?_, ?_⟩
          · rw [c2]
            -- the two text functions agree on the references of `e`
            have : ∀ (rs : List Str) (x : Str), (∀ r ∈ rs, r ∈ findRefs e) →
                substAll (fun r => (topoVal ev s s.data.length (refName r)).bind pyStrVal) rs x
                  = substAll (topoRho ev s) rs x := by
              intro rs
              induction rs with
              | nil => intro x _; rfl
              | cons r rs ih =>
                intro x hrs
                obtain ⟨w, tx, hw, htx⟩ := c1 r (hrs r List.mem_cons_self)
                have hw' := topoVal_mono ev s _ _ _ hw
                simp only [substAll, List.foldl_cons, topoRho, hw, hw', Option.bind, htx]
                exact ih _ (fun r' hr' => hrs r' (List.mem_cons_of_mem _ hr'))
            exact this _ _ (fun r hr => hr)
          · split at h
            · rename_i x hx; simp only [Option.some.injEq] at h; exact Or.inl ⟨x, hx, h.symm⟩
            · rename_i hx; simp only [Option.some.injEq] at h; exact Or.inr ⟨hx, h.symm⟩
            · cases h

theorem Good.unique {ev : Str → EvalResult} {s : SD} {n : Str} {a b : Val} (h1 : Good ev s n a) (h2 : Good ev s n b) :
    a = b := by
  unfold Good at h1 h2; rw [h1] at h2; exact Option.some.inj h2

/-! ### (1) `resolveRef` on the variable table of a flat dictionary -/

def afterD (x : Str) : Str := match x with | '$' :: r => r | r => r

theorem refName_eq (x : Str) : refName x = (afterD x).takeWhile (· != '[') := rfl

def idxOf (x : Str) : Option Str :=
  let idxTxt := (afterD x).dropWhile (· != '[')
  if idxTxt.length ≥ 3 && idxTxt.getLast? == some ']' then some idxTxt else (if idxTxt.isEmpty then some [] else none)

theorem resolveRef_succ (vars : List (Str × Val)) (f : Nat) (vis : List Str) (x : Str) :
    resolveRef vars (f + 1) vis x =
      match idxOf x with
      | none => .unsupported
      | some idx =>
        if vis.contains (refName x) then .none
        else match getVar (refName x) vars with
          | none => .none
          | some v0 =>
            match (resolveRef.follow vars f (vis ++ [refName x]) v0 (refName x)).1 with
            | .val v =>
              if idx.isEmpty then .val v
              else (match parseIndexing idx with
                | some path => (match indexVal v path with
                  | some y => .val y
                  | none => .val v)
                | none => .unsupported)
            | other => other := by
  rw [resolveRef.eq_def]
  simp only [idxOf, refName_eq, afterD]
  rfl

theorem follow_succ (vars : List (Str × Val)) (f : Nat) (vis : List Str) (v : Val) (last : Str) :
    resolveRef.follow vars (f + 1) vis v last =
      match v with
      | .leaf (.str s) =>
        if s.contains '$' then
          (match resolveRef vars f vis s with
           | .val v' => resolveRef.follow vars f vis v' (refName s)
           | .none => (.none, last)
           | .unsupported => (.unsupported, last))
        else (.val v, last)
      | .leaf _ => (.val v, last)
      | other => if anyStrLeafV (·.contains '$') other then (.unsupported, last) else (.val other, last) := by
  rw [resolveRef.follow.eq_def]
  rfl

theorem isDigit_dollar : isDigit '$' = false := by decide +kernel

theorem isIntLit_noD {s : Str} (h : isIntLit s = true) : '$' ∉ s := by
  obtain ⟨sign, ds, tail, rfl, hs, _, hd, ht⟩ := C04.isIntLit_iff.mp h
  simp only [List.mem_append, not_or]
  refine ⟨⟨?_, ?_⟩, ?_⟩
  · rcases hs with rfl | rfl | rfl <;> simp
  · intro hm; have := hd _ hm; rw [isDigit_dollar] at this; cases this
  · rcases ht with rfl | rfl <;> simp

theorem parseIndexingFuel_noD : ∀ (f : Nat) (s : Str) (p : List Int), parseIndexingFuel f s = some p → '$' ∉ s
  | 0, _, _, h => by simp [parseIndexingFuel] at h
  | f + 1, [], _, _ => by simp
  | f + 1, c :: r, p, h => by
    by_cases hc : c = '['
    · subst hc
      simp only [parseIndexingFuel] at h
      split at h
      · rename_i rest hdw
        split at h
        · rename_i hi
          simp only [Bool.and_eq_true] at hi
          cases hr : parseIndexingFuel f rest with
          | none => rw [hr] at h; cases h
          | some p' =>
            have ih := parseIndexingFuel_noD f rest p' hr
            have hb := isIntLit_noD hi.1
            have : r = r.takeWhile (· != ']') ++ ']' :: rest := by
              rw [← hdw, List.takeWhile_append_dropWhile]
            rw [this]
            simp only [List.mem_cons, List.mem_append, not_or]
            exact ⟨by decide, hb, by decide, ih⟩
        · cases h
      · cases h
    · exfalso
      rw [parseIndexingFuel.eq_def] at h
      split at h <;> simp_all

theorem parseIndexing_noD {s : Str} {p : List Int} (h : parseIndexing s = some p) : '$' ∉ s :=
  parseIndexingFuel_noD _ s p h

theorem indexVal_leaf (a : Scalar) : ∀ (p : List Int) (y : Val), indexVal (.leaf a) p = some y → y = .leaf a
  | [], y, h => by simp [indexVal] at h; exact h.symm
  | _ :: _, y, h => by simp [indexVal] at h

/-- values without `$` in their text -/
def dfree : Val → Bool
  | .leaf y => noD (pyStrScalar y)
  | _ => false

theorem okVal_dfree {v : Val} (h : okVal v = true) : dfree v = true := by
  cases v with
  | leaf y => simp only [okVal, okScalar, Bool.and_eq_true] at h; exact h.2
  | dict _ => cases h
  | list _ => cases h

/-- the last step of `resolveRef`: a scalar is not changed by an index path -/
theorem resolveRef_tail {idx : Str} {a : Scalar} {v : Val}
    (h : (if idx.isEmpty then Resolved.val (.leaf a)
      else (match parseIndexing idx with
        | some path => (match indexVal (.leaf a) path with
          | some y => Resolved.val y
          | none => Resolved.val (.leaf a))
        | none => Resolved.unsupported)) = .val v) :
    v = .leaf a ∧ (idx.isEmpty = false → ∃ p, parseIndexing idx = some p) := by
  split at h
  · rename_i hi; cases h; exact ⟨rfl, fun h => by rw [hi] at h; cases h⟩
  · split at h
    · rename_i path hp
      refine ⟨?_, fun _ => ⟨path, hp⟩⟩
      split at h
      · rename_i y hy; cases h; exact indexVal_leaf a path _ hy
      · cases h; rfl
    · cases h

theorem follow_dfree (vars : List (Str × Val)) (f : Nat) (vis : List Str) (v : Val) (last : Str) (hv : dfree v = true) :
    (resolveRef.follow vars (f + 1) vis v last).1 = .val v := by
  rw [follow_succ]
  cases v with
  | leaf y =>
    cases y with
    | str s =>
      have : '$' ∉ s := noD_iff.mp (by simpa [dfree, pyStrScalar] using hv)
      simp [this]
    | int _ => rfl
    | float _ => rfl
    | bool _ => rfl
    | none => rfl
  | dict _ => cases hv
  | list _ => cases hv

/-- what the proof needs to know about a variable table: `ord n v` -- `n` holds the settled value `v`;
    `pend n g` -- `n` holds the placeholder of a pending expression whose text is `g.render`;
    `G n tv` -- the specification gives `n` the value `tv` -/
structure VarsOK (vars : List (Str × Val)) (G : Str → Val → Prop) (ord : Str → Val → Prop)
    (pend : Str → Segs → Prop) : Prop where
  v1 : ∀ n v0, getVar n vars = some v0 → ord n v0 ∨ ∃ g, pend n g ∧ v0 = .leaf (.str g.render)
  v2 : ∀ n v, ord n v → getVar n vars = some v
  word : ∀ n v0, getVar n vars = some v0 → n.all isWordChar = true
  ord_ok : ∀ n v, ord n v → okVal v = true
  pend_wf : ∀ n g, pend n g → g.wf = true
  g_ord : ∀ n tv v, G n tv → ord n v → v = tv
  g_pend : ∀ n tv g, G n tv → pend n g → refsOf g.ps ≠ [] ∧ ∀ w, g = ⟨[], [(.ref w, [])]⟩ → G w tv

theorem takeWhile_append_all {p : Char → Bool} : ∀ (a b : Str), (∀ c ∈ a, p c = true) →
    (a ++ b).takeWhile p = a ++ b.takeWhile p
  | [], _, _ => rfl
  | c :: a, b, h => by
    have hc := h c List.mem_cons_self
    simp [hc, takeWhile_append_all a b (fun x hx => h x (List.mem_cons_of_mem _ hx))]

theorem afterD_of_head {c : Char} {r : Str} (h : c ≠ '$') : afterD (c :: r) = c :: r := by
  unfold afterD
  split
  · rename_i h1; simp only [List.cons.injEq] at h1; exact absurd h1.1 h
  · rfl

/-- a text that does not begin with a reference does not begin with `$` -/
theorem render_head (g : Segs) (hg : g.wf = true) (hr : refsOf g.ps ≠ [])
    (hnot : ∀ w l r, g.lit0 = [] → g.ps = (.ref w, l) :: r → False) :
    ∃ c r, g.render = c :: r ∧ c ≠ '$' := by
  obtain ⟨lit0, ps⟩ := g
  simp only [Segs.wf, Bool.and_eq_true] at hg
  simp only [Segs.render]
  cases lit0 with
  | cons c l0 =>
    refine ⟨c, l0 ++ rend ps, rfl, ?_⟩
    intro e; subst e
    exact absurd List.mem_cons_self (noD_iff.mp hg.1)
  | nil =>
    cases ps with
    | nil => exact absurd rfl hr
    | cons a r =>
      obtain ⟨p, l⟩ := a
      cases p with
      | ref w => exact absurd (hnot w l r rfl rfl) id
      | done t =>
        obtain ⟨h1, h2, _, h4, _⟩ := wfPs_cons hg.2
        have hr' : r ≠ [] := by
          intro e; subst e; exact hr rfl
        have hl : l ≠ [] := fun e => hr' (h4 e)
        cases t with
        | cons c t =>
          refine ⟨c, t ++ (l ++ rend r), rfl, ?_⟩
          intro e; subst e
          exact absurd List.mem_cons_self (pcOk_done h1)
        | nil =>
          cases l with
          | nil => exact absurd rfl hl
          | cons c l =>
            refine ⟨c, l ++ rend r, rfl, ?_⟩
            intro e; subst e
            exact absurd List.mem_cons_self h2

/-- **opacity** a pending expression text resolves to a value only if it is exactly one reference -/
theorem resolveRef_pending (vars : List (Str × Val)) (hword : ∀ n v0, getVar n vars = some v0 → n.all isWordChar = true)
    (g : Segs) (hg : g.wf = true) (hr : refsOf g.ps ≠ []) (f : Nat) (vis : List Str) (v : Val)
    (h : resolveRef vars f vis g.render = .val v) : ∃ w, g = ⟨[], [(.ref w, [])]⟩ := by
  cases f with
  | zero => rw [resolveRef.eq_1] at h; cases h
  | succ f =>
  rw [resolveRef_succ] at h
  cases hi : idxOf g.render with
  | none => rw [hi] at h; cases h
  | some idx =>
    rw [hi] at h
    simp only at h
    split at h
    · cases h
    · cases hgv : getVar (refName g.render) vars with
      | none => rw [hgv] at h; cases h
      | some v0 =>
        rw [hgv] at h
        simp only at h
        have hw := hword _ _ hgv
        cases hfo : (resolveRef.follow vars f (vis ++ [refName g.render]) v0 (refName g.render)).1 with
        | none => rw [hfo] at h; cases h
        | unsupported => rw [hfo] at h; cases h
        | val v1 =>
          rw [hfo] at h
          simp only at h
          -- either the text begins with a reference …
          by_cases hb : ∃ w l r, g.lit0 = [] ∧ g.ps = (.ref w, l) :: r
          · obtain ⟨w, l, r, h0, hps⟩ := hb
            obtain ⟨lit0, ps⟩ := g
            simp only at h0 hps
            subst h0 hps
            simp only [Segs.wf, Bool.and_eq_true] at hg
            obtain ⟨h1, h2, h3, h4, h5⟩ := wfPs_cons hg.2
            obtain ⟨_, hww⟩ := pcOk_ref h1
            cases l with
            | nil => rw [h4 rfl]; exact ⟨w, rfl⟩
            | cons c l =>
              exfalso
              have hstop := h5 w rfl
              simp only [List.cons_append, refStop, Bool.not_eq_true', isRefChar, Bool.or_eq_false_iff] at hstop
              have hc : (c != '[') = true := by simpa using hstop.1.2
              have hmem : c ∈ refName (Segs.render ⟨[], (.ref w, c :: l) :: r⟩) := by
                have : (Segs.render ⟨[], (.ref w, c :: l) :: r⟩) = '$' :: (w ++ (c :: (l ++ rend r))) := by
                  simp [Segs.render, rend_cons, Pc.text]
                rw [this, refName_eq, afterD]
                rw [takeWhile_append_all w _ (fun x hx => by
                  have := allWord_noLb hww
                  simp only [bne_iff_ne, ne_eq]
                  intro e; subst e; exact this hx)]
                simp [hc]
              have := List.all_eq_true.mp hw c hmem
              rw [hstop.1.1] at this; cases this
          · -- … or it begins with another character, and the `$` is in the name or in the index text
            exfalso
            obtain ⟨c, r, hT, hc⟩ := render_head g hg hr (fun w l r h0 hps => hb ⟨w, l, r, h0, hps⟩)
            have hD : '$' ∈ g.render := by
              simp only [Segs.render, List.mem_append]; exact Or.inr (rend_hasD g.ps hr)
            have haft : afterD g.render = g.render := by rw [hT]; exact afterD_of_head hc
            have hsplit : '$' ∈ refName g.render ∨ '$' ∈ (afterD g.render).dropWhile (· != '[') := by
              rw [refName_eq, ← List.mem_append, List.takeWhile_append_dropWhile, haft]; exact hD
            rcases hsplit with hs | hs
            · have := List.all_eq_true.mp hw _ hs
              rw [isWordChar_dollar] at this; cases this
            · have hidx : idx = (afterD g.render).dropWhile (· != '[') := by
                simp only [idxOf] at hi
                split at hi
                · exact (Option.some.inj hi).symm
                · split at hi
                  · rename_i he
                    simp only [List.isEmpty_iff] at he
                    rw [he] at hs; cases hs
                  · cases hi
              cases v1 with
              | leaf a =>
                obtain ⟨_, hp⟩ := resolveRef_tail h
                have hne : idx.isEmpty = false := by
                  cases hx : idx with
                  | nil => rw [hidx] at hx; rw [hx] at hs; cases hs
                  | cons _ _ => rfl
                obtain ⟨p, hp⟩ := hp hne
                exact absurd (hidx ▸ hs) (parseIndexing_noD hp)
              | dict es =>
                -- a dict never comes out of `follow` on a flat table; but the argument above does not need that
                split at h
                · rename_i hie
                  simp only [List.isEmpty_iff] at hie
                  rw [hidx] at hie; rw [hie] at hs; cases hs
                · split at h
                  · rename_i p hp
                    exact absurd (hidx ▸ hs) (parseIndexing_noD hp)
                  · cases h
              | list xs =>
                split at h
                · rename_i hie
                  simp only [List.isEmpty_iff] at hie
                  rw [hidx] at hie; rw [hie] at hs; cases hs
                · split at h
                  · rename_i p hp
                    exact absurd (hidx ▸ hs) (parseIndexing_noD hp)
                  · cases h

theorem refName_ref {w : Str} (hw : w.all isWordChar = true) : refName ('$' :: w) = w := by
  rw [refName_eq, afterD]
  exact takeWhile_ne_of_not_mem '[' w (allWord_noLb hw)

theorem idxOf_ref {w : Str} (hw : w.all isWordChar = true) : idxOf ('$' :: w) = some [] := by
  simp only [idxOf, afterD]
  rw [dropWhile_ne_of_not_mem '[' w (allWord_noLb hw)]
  rfl

/-- **(1a) soundness** whatever `resolveRef` answers is a scalar without `$`, and it is the value the specification
    gives to the referenced name, whenever the specification gives one -/
theorem resolveRef_sound {vars G ord pend} (H : VarsOK vars G ord pend) : ∀ (f : Nat) (vis : List Str) (x : Str) (v : Val),
    resolveRef vars f vis x = .val v → dfree v = true ∧ ∀ tv, G (refName x) tv → v = tv := by
  intro f
  induction f using Nat.strongRecOn with
  | _ f ih =>
  intro vis x v h
  cases f with
  | zero => rw [resolveRef.eq_1] at h; cases h
  | succ f =>
  rw [resolveRef_succ] at h
  cases hi : idxOf x with
  | none => rw [hi] at h; cases h
  | some idx =>
  rw [hi] at h
  simp only at h
  split at h
  · cases h
  · cases hgv : getVar (refName x) vars with
    | none => rw [hgv] at h; cases h
    | some v0 =>
    rw [hgv] at h
    simp only at h
    cases hfo : (resolveRef.follow vars f (vis ++ [refName x]) v0 (refName x)).1 with
    | none => rw [hfo] at h; cases h
    | unsupported => rw [hfo] at h; cases h
    | val v1 =>
    rw [hfo] at h
    simp only at h
    -- what `follow` returned
    have key : dfree v1 = true ∧ ∀ tv, G (refName x) tv → v1 = tv := by
      cases f with
      | zero => rw [resolveRef.follow.eq_1] at hfo; cases hfo
      | succ f2 =>
      rw [follow_succ] at hfo
      rcases H.v1 _ _ hgv with ho | ⟨g, hp, rfl⟩
      · -- a settled value
        have hok := H.ord_ok _ _ ho
        have hd := okVal_dfree hok
        have : (resolveRef.follow vars (f2 + 1) (vis ++ [refName x]) v0 (refName x)).1 = .val v0 :=
          follow_dfree vars f2 _ v0 _ hd
        rw [follow_succ] at this
        rw [this] at hfo
        cases hfo
        exact ⟨hd, fun tv hG => H.g_ord _ _ _ hG ho⟩
      · -- the text of a pending expression
        have hgwf := H.pend_wf _ _ hp
        simp only at hfo
        by_cases hc : g.render.contains '$' = true
        · rw [if_pos hc] at hfo
          cases hrr : resolveRef vars f2 (vis ++ [refName x]) g.render with
          | none => rw [hrr] at hfo; cases hfo
          | unsupported => rw [hrr] at hfo; cases hfo
          | val v' =>
            rw [hrr] at hfo
            simp only at hfo
            obtain ⟨hd', hG'⟩ := ih f2 (by omega) _ _ _ hrr
            have hrefs : refsOf g.ps ≠ [] := by
              rw [render_contains g hgwf] at hc
              intro e; rw [e] at hc; cases hc
            obtain ⟨w, hgw⟩ := resolveRef_pending vars H.word g hgwf hrefs f2 _ _ hrr
            cases f2 with
            | zero => rw [resolveRef.eq_1] at hrr; cases hrr
            | succ f3 =>
              rw [follow_dfree vars f3 _ v' _ hd'] at hfo
              cases hfo
              refine ⟨hd', fun tv hG => ?_⟩
              have hGw := (H.g_pend _ _ _ hG hp).2 w hgw
              have hww : w.all isWordChar = true := by
                subst hgw
                simp only [Segs.wf, Bool.and_eq_true] at hgwf
                exact (pcOk_ref (wfPs_cons hgwf.2).1).2
              have hren : g.render = '$' :: w := by subst hgw; simp [Segs.render, rend, Pc.text]
              apply hG'
              rw [hren, refName_ref hww]
              exact hGw
        · rw [if_neg hc] at hfo
          cases hfo
          have hnd : '$' ∉ g.render := by
            intro hm; exact hc (by simpa using hm)
          refine ⟨by simpa [dfree, pyStrScalar] using noD_iff.mpr hnd, fun tv hG => ?_⟩
          exfalso
          have hrefs := (H.g_pend _ _ _ hG hp).1
          have : '$' ∈ g.render := by
            simp only [Segs.render, List.mem_append]; exact Or.inr (rend_hasD g.ps hrefs)
          exact hnd this
    cases v1 with
    | leaf a =>
      obtain ⟨hv, _⟩ := resolveRef_tail h
      subst hv
      exact key
    | dict _ => cases key.1
    | list _ => cases key.1

/-- **(1b) progress** a reference to a settled variable resolves to its value, with any fuel from 2 on -/
theorem resolveRef_settled {vars G ord pend} (H : VarsOK vars G ord pend) (n : Str) (v : Val) (ho : ord n v) (f : Nat) :
    resolveRef vars (f + 2) [] ('$' :: n) = .val v := by
  have hgv := H.v2 _ _ ho
  have hw := H.word _ _ hgv
  have hd := okVal_dfree (H.ord_ok _ _ ho)
  rw [resolveRef_succ, idxOf_ref hw, refName_ref hw]
  simp only [List.contains_nil, Bool.false_eq_true, if_false, hgv, List.nil_append, follow_dfree vars f _ v _ hd]
  rfl

/-! ### `resolveAll` -/

def rvOf (vars : List (Str × Val)) (r : Str) : Option Val :=
  match resolveRef vars (vars.length + 1) [] r with
  | .val v => some v
  | _ => none

/-- the reference is resolved to a usable value -/
def isRes (vars : List (Str × Val)) (r : Str) : Bool :=
  match rvOf vars r with
  | some v => usable v
  | none => false

def pendRefs (exprs : Tbl ExprEntry) : List Str := (exprs.flatMap fun e => findRefs e.2.expression).eraseDups

def resEntry (vars : List (Str × Val)) (r : Str) : Option (Str × Val) :=
  match rvOf vars r with
  | some v => if usable v then some (r, v) else none
  | none => none

theorem resolveAll_mapM (vars : List (Str × Val)) : ∀ (l : List Str) (rs : List (Str × Option Val)),
    l.mapM (fun r => match resolveRef vars (vars.length + 1) [] r with
      | .unsupported => Except.error ParseErr.unsupported
      | .none => Except.ok (r, (none : Option Val))
      | .val v => Except.ok (r, some v)) = .ok rs → rs = l.map fun r => (r, rvOf vars r)
  | [], rs, h => by simp only [List.mapM_nil, pure, Except.pure, Except.ok.injEq] at h; subst h; rfl
  | r :: l, rs, h => by
    rw [List.mapM_cons] at h
    simp only [bind, Except.bind, pure, Except.pure] at h
    split at h
    · cases h
    · rename_i a ha
      split at h
      · cases h
      · rename_i b hb
        cases h
        rw [resolveAll_mapM vars l b hb]
        simp only [List.map_cons, List.cons.injEq, and_true]
        simp only [rvOf]
        split at ha
        · cases ha
        · cases ha; rename_i hr; rw [hr]
        · cases ha; rename_i v hr; rw [hr]

theorem count_res (vars : List (Str × Val)) : ∀ l : List Str,
    (l.filterMap (resEntry vars)).length + (l.filter fun r => !isRes vars r).length = l.length
  | [] => rfl
  | r :: l => by
    have ih := count_res vars l
    simp only [List.filterMap_cons, List.filter_cons, resEntry, isRes] at ih ⊢
    cases hrv : rvOf vars r with
    | none => simp only [Bool.not_false, if_true, List.length_cons]; omega
    | some v =>
      cases hu : usable v with
      | true => simp [hu]; omega
      | false => simp [hu]; omega

theorem resolveAll_ok {exprs : Tbl ExprEntry} {data : Entries} {R : List (Str × Val)} {nr : Nat}
    (h : resolveAll exprs data = .ok (R, nr)) :
    R = (pendRefs exprs).filterMap (resEntry (varsEs exprs data [])) ∧
    nr = ((pendRefs exprs).filter fun r => !isRes (varsEs exprs data []) r).length := by
  unfold resolveAll at h
  simp only [bind, Except.bind, pure, Except.pure] at h
  split at h
  · cases h
  · rename_i rs hrs
    have := resolveAll_mapM _ _ _ hrs
    simp only [Except.ok.injEq, Prod.mk.injEq] at h
    obtain ⟨h1, h2⟩ := h
    have hR : R = (pendRefs exprs).filterMap (resEntry (varsEs exprs data [])) := by
      rw [← h1, this, List.filterMap_map]
      rfl
    refine ⟨hR, ?_⟩
    have hc := count_res (varsEs exprs data []) (pendRefs exprs)
    have hl : rs.length = (pendRefs exprs).length := by rw [this, List.length_map]; rfl
    rw [← h2, h1, hl, hR]
    omega

theorem find_filterMap (vars : List (Str × Val)) (r : Str) : ∀ l : List Str,
    (l.filterMap (resEntry vars)).find? (fun p => p.1 == r) = if r ∈ l then resEntry vars r else none
  | [] => rfl
  | a :: l => by
    have ih := find_filterMap vars r l
    simp only [List.filterMap_cons]
    cases ha : resEntry vars a with
    | none =>
      simp only [ih, List.mem_cons]
      by_cases e : r = a
      · subst e; simp [ha]
      · simp [e]
    | some p =>
      have hp : p.1 = a := by
        simp only [resEntry] at ha
        split at ha
        · split at ha
          · cases ha; rfl
          · cases ha
        · cases ha
      simp only [List.find?_cons, hp, List.mem_cons]
      by_cases e : a = r
      · subst e; simp [ha]
      · have e' : ¬ r = a := fun x => e x.symm
        have e'' : (a == r) = false := by simpa using e
        simp [e', e'', ih]

theorem nodup_eraseDups : ∀ (n : Nat) (l : List Str), l.length ≤ n → l.eraseDups.Nodup
  | _, [], _ => by simp
  | 0, a :: l, h => by simp at h
  | n + 1, a :: l, h => by
    rw [List.eraseDups_cons, List.nodup_cons]
    constructor
    · intro hm
      have := List.mem_eraseDups.mp hm
      simp at this
    · apply nodup_eraseDups n
      have := List.length_filter_le (fun b => !b == a) l
      simp only [List.length_cons] at h; omega

theorem pendRefs_nodup (exprs : Tbl ExprEntry) : (pendRefs exprs).Nodup := nodup_eraseDups _ _ (Nat.le_refl _)

theorem mem_pendRefs {exprs : Tbl ExprEntry} {r : Str} :
    r ∈ pendRefs exprs ↔ ∃ e ∈ exprs, r ∈ findRefs e.2.expression := by
  simp [pendRefs, List.mem_eraseDups, List.mem_flatMap]

/-- counting: a duplicate-free list inside another one is not longer -/
theorem nodup_subset_length : ∀ (l1 l2 : List Str), l1.Nodup → (∀ x ∈ l1, x ∈ l2) → l1.length ≤ l2.length
  | [], _, _, _ => by simp
  | a :: l1, l2, hn, hs => by
    rw [List.nodup_cons] at hn
    have ha := hs a List.mem_cons_self
    have := nodup_subset_length l1 (l2.erase a) hn.2 (fun x hx => by
      have hx2 := hs x (List.mem_cons_of_mem _ hx)
      have hne : x ≠ a := fun e => hn.1 (e ▸ hx)
      exact (List.mem_erase_of_ne hne).mpr hx2)
    rw [List.length_erase_of_mem ha] at this
    have hpos : 0 < l2.length := List.length_pos_of_mem ha
    simp only [List.length_cons]; omega

theorem nodup_subset_length_lt (l1 l2 : List Str) (u : Str) (hn : l1.Nodup) (hs : ∀ x ∈ l1, x ∈ l2)
    (hu : u ∈ l2) (hu1 : u ∉ l1) : l1.length < l2.length := by
  have := nodup_subset_length l1 (l2.erase u) hn (fun x hx => by
    have hne : x ≠ u := fun e => hu1 (e ▸ hx)
    exact (List.mem_erase_of_ne hne).mpr (hs x hx))
  rw [List.length_erase_of_mem hu] at this
  have hpos : 0 < l2.length := List.length_pos_of_mem hu
  omega

/-! ### one step of `evalPass` -/

/-- the plain-reference test of `evalPass` -/
def plainOf (resolved : List (Str × Val)) (T : Str) : Option Val :=
  match findRefs T with
  | [r] => if strip T == r then (resolved.find? fun p => p.1 == r).map (·.2) else none
  | _ => none

/-- the body of the loop over the expression table -/
def passStep (ev : Str → EvalResult) (resolved : List (Str × Val)) (st : ExprSt) (e : Nat × ExprEntry) :
    Except ParseErr ExprSt := do
    let refs := findRefs e.2.expression
    if let some v := plainOf resolved e.2.expression then
      let d ← substValEs e.2.name v 1 st.data
      return { data := d, exprs := st.exprs.del e.1 }
    let expr ← refs.foldlM (fun (x : Str) r =>
      match resolved.find? (fun p => p.1 == r) with
      | some (_, v) => match pyStrVal v with
        | some t => Except.ok (substRefFuel r t (x.length + 1) x)
        | none => Except.error ParseErr.unsupported
      | none => Except.ok x) e.2.expression
    if expr.contains '$' then
      pure { st with exprs := st.exprs.set e.1 { e.2 with expression := expr } }
    else match ev expr with
      | .unsupported => Except.error .unsupported
      | .syntaxError => pure { st with exprs := st.exprs.set e.1 { e.2 with expression := expr } }
      | .nameError => do
        let d ← substLeafEs e.2.name (.str expr) 1 st.data
        pure { data := d, exprs := st.exprs.del e.1 }
      | .value (.leaf x) => do
        let d ← substLeafEs e.2.name x 1 st.data
        pure { data := d, exprs := st.exprs.del e.1 }
      | .value _ => Except.error .unsupported

theorem evalPass_eq (ev : Str → EvalResult) (resolved : List (Str × Val)) (st : ExprSt) :
    evalPass ev resolved st = st.exprs.foldlM (passStep ev resolved) st := rfl

/-- the text a resolved reference is replaced by -/
def rhoOf (resolved : List (Str × Val)) (r : Str) : Option Str :=
  match resolved.find? (fun p => p.1 == r) with
  | some (_, v) => pyStrVal v
  | none => none

theorem refFold_eq (resolved : List (Str × Val))
    (hR : ∀ r p, resolved.find? (fun p => p.1 == r) = some p → ∃ t, pyStrVal p.2 = some t) :
    ∀ (rs : List Str) (x : Str),
      rs.foldlM (fun (x : Str) r =>
        match resolved.find? (fun p => p.1 == r) with
        | some (_, v) => match pyStrVal v with
          | some t => Except.ok (substRefFuel r t (x.length + 1) x)
          | none => Except.error ParseErr.unsupported
        | none => Except.ok x) x = Except.ok (substAll (rhoOf resolved) rs x)
  | [], x => rfl
  | r :: rs, x => by
    rw [List.foldlM_cons]
    simp only [substAll, List.foldl_cons, rhoOf]
    cases hf : resolved.find? (fun p => p.1 == r) with
    | none =>
      simp only [bind, Except.bind]
      exact refFold_eq resolved hR rs x
    | some p =>
      obtain ⟨t, ht⟩ := hR r p hf
      obtain ⟨r', v⟩ := p
      simp only at ht
      simp only [ht, bind, Except.bind]
      exact refFold_eq resolved hR rs _

/-- **(2a)** the outcomes of one step on flat data -/
theorem passStep_cases (ev : Str → EvalResult) (resolved : List (Str × Val)) (c c' : ExprSt) (e : Nat × ExprEntry)
    (hflat : ∀ d ∈ c.data, d.2.isLeaf = true)
    (hR : ∀ r p, resolved.find? (fun p => p.1 == r) = some p → ∃ t, pyStrVal p.2 = some t)
    (h : passStep ev resolved c e = .ok c') :
    (∃ v, plainOf resolved e.2.expression = some v ∧
        c' = ⟨updEs e.2.name v c.data, c.exprs.del e.1⟩) ∨
    (plainOf resolved e.2.expression = none ∧
      ∃ T', T' = substAll (rhoOf resolved) (findRefs e.2.expression) e.2.expression ∧
        ((T'.contains '$' = true ∧ c' = ⟨c.data, c.exprs.set e.1 ⟨T', e.2.name⟩⟩) ∨
         (T'.contains '$' = false ∧
           ((ev T' = .syntaxError ∧ c' = ⟨c.data, c.exprs.set e.1 ⟨T', e.2.name⟩⟩) ∨
            (ev T' = .nameError ∧ c' = ⟨updEs e.2.name (.leaf (.str T')) c.data, c.exprs.del e.1⟩) ∨
            (∃ x, ev T' = .value (.leaf x) ∧ c' = ⟨updEs e.2.name (.leaf x) c.data, c.exprs.del e.1⟩))))) := by
  unfold passStep at h
  simp only [] at h
  cases hp : plainOf resolved e.2.expression with
  | some v =>
    left
    rw [hp] at h
    simp only [substValEs_flat _ _ _ hflat, bind, Except.bind, pure, Except.pure, Except.ok.injEq] at h
    exact ⟨v, rfl, h.symm⟩
  | none =>
    right
    rw [hp] at h
    refine ⟨rfl, _, rfl, ?_⟩
    simp only [refFold_eq resolved hR, bind, Except.bind] at h
    split at h
    · rename_i hc
      left
      simp only [pure, Except.pure, Except.ok.injEq] at h
      exact ⟨hc, h.symm⟩
    · rename_i hc
      right
      simp only [Bool.not_eq_true] at hc
      refine ⟨hc, ?_⟩
      split at h
      · cases h
      · rename_i hev
        simp only [pure, Except.pure, Except.ok.injEq] at h
        exact Or.inl ⟨hev, h.symm⟩
      · rename_i hev
        simp only [substLeafEs_flat _ _ _ hflat, pure, Except.pure, Except.ok.injEq] at h
        exact Or.inr (Or.inl ⟨hev, h.symm⟩)
      · rename_i x hev
        simp only [substLeafEs_flat _ _ _ hflat, pure, Except.pure, Except.ok.injEq] at h
        exact Or.inr (Or.inr ⟨x, hev, h.symm⟩)
      · cases h

/-! ### static facts of an `AcyclicFlat'` dictionary -/

theorem nodup_fst_eq {α} : ∀ {l : List (Nat × α)} {a b : Nat × α}, (l.map (·.1)).Nodup → a ∈ l → b ∈ l → a.1 = b.1 → a = b
  | [], _, _, _, ha, _, _ => by cases ha
  | x :: l, a, b, hn, ha, hb, hab => by
    simp only [List.map_cons, List.nodup_cons] at hn
    rcases List.mem_cons.mp ha with rfl | ha' <;> rcases List.mem_cons.mp hb with rfl | hb'
    · rfl
    · exact absurd (List.mem_map.mpr ⟨b, hb', hab.symm⟩) hn.1
    · exact absurd (List.mem_map.mpr ⟨a, ha', hab⟩) hn.1
    · exact nodup_fst_eq hn.2 ha' hb' hab

theorem Tbl.get?_of_mem {α} : ∀ {l : Tbl α} {a : Nat × α}, (l.map (·.1)).Nodup → a ∈ l → Tbl.get? a.1 l = some a.2
  | [], _, _, h => by cases h
  | (j, b) :: l, a, hn, h => by
    simp only [List.map_cons, List.nodup_cons] at hn
    rcases List.mem_cons.mp h with rfl | h'
    · simp [Tbl.get?]
    · have : j ≠ a.1 := fun e => hn.1 (List.mem_map.mpr ⟨a, h', e.symm⟩)
      simp only [Tbl.get?, this, if_false]
      exact Tbl.get?_of_mem hn.2 h'

section static
variable {s : SD} (A : AcyclicFlat' s)
include A

theorem st_name {e : Nat × ExprEntry} (he : e ∈ s.exprs) : e.2.name = phOf e.1 := A.base.names e he

theorem st_name_inj {e1 e2 : Nat × ExprEntry} (h1 : e1 ∈ s.exprs) (h2 : e2 ∈ s.exprs)
    (h : e1.2.name = e2.2.name) : e1 = e2 := by
  rw [st_name A h1, st_name A h2] at h
  exact nodup_fst_eq A.base.ids_nodup h1 h2 (phOf_inj h)

omit A in
theorem exprOf_some {v : Val} {ex : Str} (h : exprOf s v = some ex) :
    ∃ e0 ∈ s.exprs, v = .leaf (.str e0.2.name) ∧ ex = e0.2.expression := by
  cases v with
  | leaf y =>
    cases y with
    | str t =>
      simp only [exprOf, Option.map_eq_some_iff] at h
      obtain ⟨e0, hf, rfl⟩ := h
      have hm := List.mem_of_find?_eq_some hf
      have hn := List.find?_some hf
      simp only [beq_iff_eq] at hn
      exact ⟨e0, hm, by rw [hn], rfl⟩
    | int _ => cases h
    | float _ => cases h
    | bool _ => cases h
    | none => cases h
  | dict _ => cases h
  | list _ => cases h

theorem exprOf_of_mem {e0 : Nat × ExprEntry} (h : e0 ∈ s.exprs) :
    exprOf s (.leaf (.str e0.2.name)) = some e0.2.expression := by
  simp only [exprOf]
  cases hf : s.exprs.find? (fun e => e.2.name == e0.2.name) with
  | none =>
    have := List.find?_eq_none.mp hf e0 h
    simp at this
  | some e1 =>
    have hm := List.mem_of_find?_eq_some hf
    have hn := List.find?_some hf
    simp only [beq_iff_eq] at hn
    rw [st_name_inj A hm h hn]
    rfl

theorem st_wf {e : Nat × ExprEntry} (he : e ∈ s.exprs) :
    (toSegs e.2.expression).render = e.2.expression ∧ (toSegs e.2.expression).wf = true ∧
    refsOf (toSegs e.2.expression).ps ≠ [] ∧
    ((toSegs e.2.expression).ps.length ≤ 1 ∨
      (((toSegs e.2.expression).lit0 ++ litsOf (toSegs e.2.expression).ps).any fun c => !isWs c) = true) := by
  have := A.expr_wf e he
  simp only [wfExpr, Bool.and_eq_true, beq_iff_eq, Bool.not_eq_true', List.isEmpty_eq_false_iff, Bool.or_eq_true,
    decide_eq_true_eq] at this
  exact ⟨this.1.1.1, this.1.1.2, this.1.2, this.2⟩

theorem st_key_word {k : Key} (hk : k ∈ keys s.data) : ∃ n, k = .str n ∧ n.all isWordChar = true ∧ isPhKey n = false := by
  obtain ⟨d, hd, rfl⟩ := List.mem_map.mp hk
  have hf := (A.base.flat d hd).1
  have h1 := A.keys_words d hd
  have h2 := A.no_ph_keys d hd
  cases hd1 : d.1 with
  | int _ => rw [hd1] at hf; cases hf
  | str n =>
    rw [hd1] at h1 h2
    exact ⟨n, rfl, h1, by simpa [keyNoPh] using h2⟩

end static

theorem not_okVal_ph (i : Nat) : okVal (.leaf (.str (phOf i))) = false := by
  simp [okVal, okScalar, usable, anyStrLeafV, isInfix_kw_phOf]

theorem okVal_leaf {v : Val} (h : okVal v = true) : ∃ x, v = .leaf x ∧ okScalar x = true := by
  cases v with
  | leaf x => exact ⟨x, rfl, h⟩
  | dict _ => cases h
  | list _ => cases h

theorem okVal_usable {v : Val} (h : okVal v = true) : usable v = true := by
  obtain ⟨x, rfl, hx⟩ := okVal_leaf h
  simp only [okScalar, Bool.and_eq_true] at hx; exact hx.1

theorem okVal_str {t : Str} (h : okVal (.leaf (.str t)) = true) : isInfix kwExpr t = false ∧ '$' ∉ t := by
  simp only [okVal, okScalar, usable, anyStrLeafV, Bool.and_eq_true, Bool.not_eq_true', Bool.or_eq_false_iff,
    pyStrScalar] at h
  exact ⟨h.1.1, noD_iff.mp h.2⟩

theorem okVal_pyStr {v : Val} (h : okVal v = true) : ∃ t, pyStrVal v = some t ∧ '$' ∉ t := by
  obtain ⟨x, rfl, hx⟩ := okVal_leaf h
  simp only [okScalar, Bool.and_eq_true] at hx
  exact ⟨pyStrScalar x, rfl, noD_iff.mp hx.2⟩

/-! ### the invariant of the loop -/

/-- the texts filled in are `str` of the values the specification gives -/
def CorrectFill (ev : Str → EvalResult) (s : SD) (σ : Str → Option Str) : Prop :=
  ∀ w t, σ w = some t → ∃ tw, Good ev s w tw ∧ pyStrVal tw = some t

structure Inv (ev : Str → EvalResult) (s : SD) (st : ExprSt) : Prop where
  keys_eq : keys st.data = keys s.data
  ids_nodup : (st.exprs.map (·.1)).Nodup
  /-- a pending entry is an entry of the original table, some of its references filled -/
  ex : ∀ e ∈ st.exprs, ∃ e0 ∈ s.exprs, e0.1 = e.1 ∧ e0.2.name = e.2.name ∧
         ∃ σ, CleanSub σ ∧ e.2.expression = ((toSegs e0.2.expression).fill σ).render
  /-- a value is settled, or the placeholder of a pending entry -/
  vals : ∀ k v, lookup k st.data = some v → okVal v = true ∨ ∃ e ∈ st.exprs, v = .leaf (.str e.2.name)
  ord_keep : ∀ k v, lookup k s.data = some v → exprOf s v = none → lookup k st.data = some v
  pend_keep : ∀ e ∈ st.exprs, ∀ k, lookup k s.data = some (.leaf (.str e.2.name)) →
      lookup k st.data = some (.leaf (.str e.2.name))
  /-- a name to which the specification gives a value holds it, or is pending with correct texts filled in -/
  good : ∀ n tv, Good ev s n tv → ∀ e0 ∈ s.exprs, lookup (.str n) s.data = some (.leaf (.str e0.2.name)) →
      (lookup (.str n) st.data = some tv ∧ okVal tv = true) ∨
      (∃ σ, CleanSub σ ∧ CorrectFill ev s σ ∧
          (e0.1, (⟨((toSegs e0.2.expression).fill σ).render, e0.2.name⟩ : ExprEntry)) ∈ st.exprs ∧
          refsOf (fill σ (toSegs e0.2.expression).ps) ≠ [])

def ordS (st : ExprSt) (n : Str) (v : Val) : Prop := lookup (.str n) st.data = some v ∧ okVal v = true

def pendS (st : ExprSt) (n : Str) (g : Segs) : Prop :=
  g.wf = true ∧ ∃ e ∈ st.exprs, lookup (.str n) st.data = some (.leaf (.str e.2.name)) ∧ g.render = e.2.expression

/-- the only segmentation of the text `$w` -/
theorem segs_of_ref (g : Segs) (hg : g.wf = true) (w : Str) (hw : w.all isWordChar = true)
    (h : g.render = '$' :: w) : g = ⟨[], [(.ref w, [])]⟩ := by
  have hr : refsOf g.ps ≠ [] := by
    intro e
    have := render_contains g hg
    rw [e, h] at this
    simp at this
  by_cases hb : ∃ w' l r, g.lit0 = [] ∧ g.ps = (.ref w', l) :: r
  · obtain ⟨w', l, r, h0, hps⟩ := hb
    obtain ⟨lit0, ps⟩ := g
    simp only at h0 hps
    subst h0 hps
    simp only [Segs.wf, Bool.and_eq_true] at hg
    obtain ⟨_, _, _, h4, h5⟩ := wfPs_cons hg.2
    simp only [Segs.render, rend_cons, Pc.text, List.nil_append, List.cons_append, List.cons.injEq, true_and] at h
    cases l with
    | nil =>
      have := h4 rfl
      subst this
      simp only [rend, List.append_nil] at h
      rw [h]
    | cons c l =>
      exfalso
      have hstop := h5 w' rfl
      simp only [List.cons_append, refStop, Bool.not_eq_true', isRefChar, Bool.or_eq_false_iff] at hstop
      have : c ∈ w := by rw [← h]; simp
      have := List.all_eq_true.mp hw c this
      rw [hstop.1.1] at this; cases this
  · exfalso
    obtain ⟨c, r, hT, hc⟩ := render_head g hg hr (fun w l r h0 hps => hb ⟨w, l, r, h0, hps⟩)
    rw [h] at hT
    simp only [List.cons.injEq] at hT
    exact hc hT.1.symm

theorem Inv.flat {ev : Str → EvalResult} {s : SD} {st : ExprSt} (A : AcyclicFlat' s) (I : Inv ev s st) :
    (keys st.data).Nodup ∧ ∀ d ∈ st.data, isStrKey d.1 = true ∧ d.2.isLeaf = true := by
  have hn : (keys st.data).Nodup := by rw [I.keys_eq]; exact A.base.keys_nodup
  refine ⟨hn, fun d hd => ⟨?_, ?_⟩⟩
  · have : d.1 ∈ keys s.data := by rw [← I.keys_eq]; exact List.mem_map.mpr ⟨d, hd, rfl⟩
    obtain ⟨n, hk, _⟩ := st_key_word A this
    rw [hk]; rfl
  · have hl : lookup d.1 st.data = some d.2 := mem_lookup hn hd
    rcases I.vals _ _ hl with h | ⟨e, _, h⟩
    · obtain ⟨x, hx, _⟩ := okVal_leaf h; rw [hx]; rfl
    · rw [h]; rfl

theorem Inv.key_word {ev : Str → EvalResult} {s : SD} {st : ExprSt} (A : AcyclicFlat' s) (I : Inv ev s st) {n : Str} {v : Val}
    (h : lookup (.str n) st.data = some v) : n.all isWordChar = true ∧ isPhKey n = false := by
  have : Key.str n ∈ keys s.data := by
    rw [← I.keys_eq]; exact List.mem_map.mpr ⟨_, lookup_mem h, rfl⟩
  obtain ⟨n', hk, h1, h2⟩ := st_key_word A this
  cases hk
  exact ⟨h1, h2⟩

theorem varVal_ok (exprs : Tbl ExprEntry) {v : Val} (h : okVal v = true) : varVal exprs v = v := by
  obtain ⟨x, rfl, _⟩ := okVal_leaf h
  cases x with
  | str t => simp only [varVal]; rw [insertExpression_plain exprs (okVal_str h).1]
  | int _ => rfl
  | float _ => rfl
  | bool _ => rfl
  | none => rfl

theorem skipVar_ok (exprs : Tbl ExprEntry) {n : Str} {v : Val} (h : okVal v = true) (hn : isPhKey n = false) :
    skipVar exprs n v = false := by
  obtain ⟨x, rfl, _⟩ := okVal_leaf h
  cases x with
  | str t =>
    obtain ⟨h1, h2⟩ := okVal_str h
    simp only [skipVar, selfRef, insertExpression_plain _ h1, refersTo_noD n t h2, Bool.or_false]
    simp only [isPhKey] at hn
    rw [hn, Bool.and_false]
  | int _ => rfl
  | float _ => rfl
  | bool _ => rfl
  | none => rfl

/-- the invariant gives the variable table the properties `resolveRef` is analysed under -/
theorem Inv.varsOK {ev : Str → EvalResult} {s : SD} {st : ExprSt} (A : AcyclicFlat' s) (I : Inv ev s st) :
    VarsOK (varsEs st.exprs st.data []) (Good ev s) (ordS st) (pendS st) := by
  obtain ⟨hnd, hflat⟩ := I.flat A
  have hgv : ∀ n, getVar n (varsEs st.exprs st.data []) =
      match lookup (.str n) st.data with
      | none => none
      | some v => if skipVar st.exprs n v = false then some (varVal st.exprs v) else none := by
    intro n
    rw [getVar_varsEs st.exprs n st.data [] hflat hnd]
    cases lookup (.str n) st.data <;> rfl
  -- a pending entry seen from the data
  have hpend : ∀ n e, e ∈ st.exprs → lookup (.str n) st.data = some (.leaf (.str e.2.name)) →
      ∃ g, pendS st n g ∧ varVal st.exprs (.leaf (.str e.2.name)) = .leaf (.str g.render) := by
    intro n e he hl
    obtain ⟨e0, he0, hid, hnm, σ, hσ, hT⟩ := I.ex e he
    obtain ⟨_, hwf, _, _⟩ := st_wf A he0
    refine ⟨(toSegs e0.2.expression).fill σ, ⟨Segs.wf_fill hσ hwf, e, he, hl, hT.symm⟩, ?_⟩
    have hname : e.2.name = phOf e.1 := by rw [← hnm, st_name A he0, hid]
    have hsm : e.1 < 1000000 := by rw [← hid]; exact A.ids_small e0 he0
    simp only [varVal]
    rw [hname, insertExpression_phOf st.exprs hsm e.2 (Tbl.get?_of_mem I.ids_nodup he), hT]
  refine ⟨?_, ?_, ?_, ?_, ?_, ?_, ?_⟩
  · -- v1
    intro n v0 h
    rw [hgv] at h
    cases hl : lookup (.str n) st.data with
    | none => rw [hl] at h; cases h
    | some v =>
      rw [hl] at h
      simp only at h
      split at h
      · simp only [Option.some.injEq] at h
        rcases I.vals _ _ hl with hok | ⟨e, he, rfl⟩
        · left
          rw [varVal_ok _ hok] at h
          subst h
          exact ⟨hl, hok⟩
        · right
          obtain ⟨g, hg, hv⟩ := hpend n e he hl
          exact ⟨g, hg, by rw [← h, hv]⟩
      · cases h
  · -- v2
    intro n v ⟨hl, hok⟩
    rw [hgv, hl]
    simp only [skipVar_ok _ hok (I.key_word A hl).2, if_true, varVal_ok _ hok]
  · -- word
    intro n v0 h
    rw [hgv] at h
    cases hl : lookup (.str n) st.data with
    | none => rw [hl] at h; cases h
    | some v => exact (I.key_word A hl).1
  · intro n v h; exact h.2
  · intro n g h; exact h.1
  · -- g_ord
    intro n tv v hG ⟨hl, hok⟩
    obtain ⟨vs, hls, hcase⟩ := hG.unfold
    rcases hcase with ⟨hnone, rfl⟩ | ⟨ex, hex, _⟩
    · have := I.ord_keep _ _ hls hnone
      rw [hl] at this; exact Option.some.inj this
    · obtain ⟨e0, he0, rfl, _⟩ := exprOf_some hex
      rcases I.good n tv hG e0 he0 hls with ⟨h1, _⟩ | ⟨σ, _, _, hmem, _⟩
      · rw [hl] at h1; exact Option.some.inj h1
      · exfalso
        have := I.pend_keep _ hmem _ hls
        simp only at this
        rw [hl] at this
        cases Option.some.inj this
        rw [st_name A he0, not_okVal_ph] at hok; cases hok
  · -- g_pend
    intro n tv g hG ⟨hgwf, e, he, hl, hren⟩
    obtain ⟨vs, hls, hcase⟩ := hG.unfold
    obtain ⟨e1, he1, hid1, hnm1, _⟩ := I.ex e he
    rcases hcase with ⟨hnone, rfl⟩ | ⟨ex, hex, hplain⟩
    · exfalso
      have := I.ord_keep _ _ hls hnone
      rw [hl] at this
      cases Option.some.inj this
      rw [← hnm1, exprOf_of_mem A he1] at hnone; cases hnone
    · obtain ⟨e0, he0, rfl, rfl⟩ := exprOf_some hex
      rcases I.good n tv hG e0 he0 hls with ⟨h1, hok⟩ | ⟨σ, hσ, _, hmem, hrefs⟩
      · exfalso
        rw [hl] at h1
        cases Option.some.inj h1
        rw [← hnm1, st_name A he1, not_okVal_ph] at hok; cases hok
      · -- the pending entry of `n` is `e`
        have hl' := I.pend_keep _ hmem _ hls
        simp only at hl'
        rw [hl] at hl'
        have hnames : e.2.name = e0.2.name := by
          have := Option.some.inj hl'; simpa using this
        have hids : e.1 = e0.1 := by
          rw [← hid1]; congr 1
          exact st_name_inj A he1 he0 (hnm1.trans hnames)
        have heq : e = (e0.1, (⟨((toSegs e0.2.expression).fill σ).render, e0.2.name⟩ : ExprEntry)) :=
          nodup_fst_eq I.ids_nodup he hmem hids
        obtain ⟨hr0, hwf0, _, _⟩ := st_wf A he0
        have hwfσ := Segs.wf_fill hσ hwf0
        have hren' : g.render = ((toSegs e0.2.expression).fill σ).render := by rw [hren, heq]
        have hsame : refsOf g.ps = refsOf (fill σ (toSegs e0.2.expression).ps) := by
          rw [← findRefs_render g hgwf, hren', findRefs_render _ hwfσ]; rfl
        refine ⟨by rw [hsame]; exact hrefs, ?_⟩
        intro w hgw
        have hww : w.all isWordChar = true := by
          subst hgw
          simp only [Segs.wf, Bool.and_eq_true] at hgwf
          exact (pcOk_ref (wfPs_cons hgwf.2).1).2
        have hgr : g.render = '$' :: w := by subst hgw; simp [Segs.render, rend, Pc.text]
        have hfill := segs_of_ref _ hwfσ w hww (hren'.symm.trans hgr)
        -- the original text is `$w`, too
        have horig : toSegs e0.2.expression = ⟨[], [(.ref w, [])]⟩ := by
          generalize toSegs e0.2.expression = g0 at hfill
          obtain ⟨l0, ps0⟩ := g0
          simp only [Segs.fill, Segs.mk.injEq] at hfill
          obtain ⟨rfl, hps⟩ := hfill
          cases ps0 with
          | nil => cases hps
          | cons a r =>
            cases r with
            | cons _ _ => simp [fill] at hps
            | nil =>
              obtain ⟨p, l⟩ := a
              simp only [fill, List.map_cons, List.map_nil, List.cons.injEq, Prod.mk.injEq, and_true] at hps
              obtain ⟨hp, rfl⟩ := hps
              cases p with
              | done t => cases hp
              | ref w' =>
                simp only [Pc.fill] at hp
                split at hp
                · cases hp
                · cases hp; rfl
        have hex0 : e0.2.expression = '$' :: w := by
          rw [← hr0, horig]; simp [Segs.render, rend, Pc.text]
        have hfr : findRefs e0.2.expression = [strip e0.2.expression] := by
          rw [hex0, strip_ref w hww]
          have := findRefs_render ⟨[], [(.ref w, [])]⟩ (by rw [← horig]; exact hwf0)
          simpa [Segs.render, rend, Pc.text, refsOf] using this
        rcases hplain with ⟨_, hGw⟩ | ⟨hne, _⟩
        · rw [hex0, strip_ref w hww, refName_ref hww] at hGw
          exact hGw
        · exact absurd hfr hne

/-! ### the expression table -/

theorem Tbl.mem_del {α} {i : Nat} : ∀ {t : Tbl α} {a : Nat × α}, (t.map (·.1)).Nodup →
    (a ∈ Tbl.del i t ↔ a ∈ t ∧ a.1 ≠ i)
  | [], a, _ => by simp [Tbl.del]
  | (j, b) :: t, a, hn => by
    simp only [List.map_cons, List.nodup_cons] at hn
    simp only [Tbl.del]
    split
    · rename_i hj
      subst hj
      constructor
      · intro h
        refine ⟨List.mem_cons_of_mem _ h, fun e => hn.1 (List.mem_map.mpr ⟨a, h, e⟩)⟩
      · rintro ⟨h, hne⟩
        rcases List.mem_cons.mp h with rfl | h
        · exact absurd rfl hne
        · exact h
    · rename_i hj
      rw [List.mem_cons, Tbl.mem_del hn.2, List.mem_cons]
      constructor
      · rintro (rfl | ⟨h, hne⟩)
        · exact ⟨Or.inl rfl, hj⟩
        · exact ⟨Or.inr h, hne⟩
      · rintro ⟨rfl | h, hne⟩
        · exact Or.inl rfl
        · exact Or.inr ⟨h, hne⟩

theorem Tbl.mem_set {α} {i : Nat} {x : α} : ∀ {t : Tbl α} {a : Nat × α}, (t.map (·.1)).Nodup → i ∈ t.map (·.1) →
    (a ∈ Tbl.set i x t ↔ a = (i, x) ∨ (a ∈ t ∧ a.1 ≠ i))
  | [], a, _, hi => by cases hi
  | (j, b) :: t, a, hn, hi => by
    simp only [List.map_cons, List.nodup_cons] at hn
    simp only [Tbl.set]
    split
    · rename_i hj
      subst hj
      rw [List.mem_cons, List.mem_cons]
      constructor
      · rintro (rfl | h)
        · exact Or.inl rfl
        · exact Or.inr ⟨Or.inr h, fun e => hn.1 (List.mem_map.mpr ⟨a, h, e⟩)⟩
      · rintro (rfl | ⟨rfl | h, hne⟩)
        · exact Or.inl rfl
        · exact absurd rfl hne
        · exact Or.inr h
    · rename_i hj
      have hi' : i ∈ t.map (·.1) := by
        simp only [List.map_cons, List.mem_cons] at hi
        rcases hi with rfl | hi
        · exact absurd rfl hj
        · exact hi
      rw [List.mem_cons, Tbl.mem_set hn.2 hi', List.mem_cons]
      constructor
      · rintro (rfl | rfl | ⟨h, hne⟩)
        · exact Or.inr ⟨Or.inl rfl, hj⟩
        · exact Or.inl rfl
        · exact Or.inr ⟨Or.inr h, hne⟩
      · rintro (rfl | ⟨rfl | h, hne⟩)
        · exact Or.inr (Or.inl rfl)
        · exact Or.inl rfl
        · exact Or.inr (Or.inr ⟨h, hne⟩)

theorem Tbl.ids_del {α} {i : Nat} : ∀ {t : Tbl α}, (t.map (·.1)).Nodup → ((Tbl.del i t).map (·.1)).Nodup
  | [], _ => by simp [Tbl.del]
  | (j, b) :: t, hn => by
    simp only [List.map_cons, List.nodup_cons] at hn
    simp only [Tbl.del]
    split
    · exact hn.2
    · simp only [List.map_cons, List.nodup_cons]
      refine ⟨?_, Tbl.ids_del hn.2⟩
      intro hm
      obtain ⟨a, ha, haj⟩ := List.mem_map.mp hm
      have := (Tbl.mem_del hn.2).mp ha
      exact hn.1 (List.mem_map.mpr ⟨a, this.1, haj⟩)

theorem Tbl.ids_set {α} {i : Nat} {x : α} : ∀ {t : Tbl α}, i ∈ t.map (·.1) → (Tbl.set i x t).map (·.1) = t.map (·.1)
  | [], hi => by cases hi
  | (j, b) :: t, hi => by
    simp only [Tbl.set]
    split
    · rename_i hj; subst hj; rfl
    · rename_i hj
      have hi' : i ∈ t.map (·.1) := by
        simp only [List.map_cons, List.mem_cons] at hi
        rcases hi with rfl | hi
        · exact absurd rfl hj
        · exact hi
      simp only [List.map_cons, Tbl.ids_set hi']

/-- the placeholder stands for a name to which the specification gives a value -/
def GoodPh (ev : Str → EvalResult) (s : SD) (name : Str) : Prop :=
  ∃ n tv, Good ev s n tv ∧ lookup (.str n) s.data = some (.leaf (.str name))

section step
variable {ev : Str → EvalResult} {s : SD} {c : ExprSt} (A : AcyclicFlat' s) (I : Inv ev s c)
include A I

theorem Inv.entry_name {e : Nat × ExprEntry} (he : e ∈ c.exprs) : e.2.name = phOf e.1 ∧ e.1 < 1000000 := by
  obtain ⟨e0, he0, hid, hnm, _⟩ := I.ex e he
  exact ⟨by rw [← hnm, st_name A he0, hid], by rw [← hid]; exact A.ids_small e0 he0⟩

theorem Inv.entry_inj {e e' : Nat × ExprEntry} (he : e ∈ c.exprs) (he' : e' ∈ c.exprs)
    (h : e.2.name = e'.2.name) : e = e' := by
  rw [(I.entry_name A he).1, (I.entry_name A he').1] at h
  exact nodup_fst_eq I.ids_nodup he he' (phOf_inj h)

theorem Inv.upd_ok {e : Nat × ExprEntry} (he : e ∈ c.exprs) (v' u : Val) (hu : okVal u = true) :
    updV e.2.name v' u = u := by
  obtain ⟨x, rfl, _⟩ := okVal_leaf hu
  cases x with
  | str t =>
    simp only [updV]
    rw [(I.entry_name A he).1, phOf_not_infix _ (okVal_str hu).1]
    rfl
  | int _ => rfl
  | float _ => rfl
  | bool _ => rfl
  | none => rfl

omit A I in
theorem Inv.upd_self {e : Nat × ExprEntry} (v' : Val) : updV e.2.name v' (.leaf (.str e.2.name)) = v' := by
  simp only [updV]
  rw [isInfix_iff.mpr ⟨[], [], by simp⟩]
  rfl

theorem Inv.upd_other {e e' : Nat × ExprEntry} (he : e ∈ c.exprs) (he' : e' ∈ c.exprs) (hne : e'.1 ≠ e.1) (v' : Val) :
    updV e.2.name v' (.leaf (.str e'.2.name)) = .leaf (.str e'.2.name) := by
  obtain ⟨h1, h2⟩ := I.entry_name A he
  obtain ⟨h1', h2'⟩ := I.entry_name A he'
  simp only [updV]
  cases hi : isInfix e.2.name e'.2.name with
  | false => rfl
  | true =>
    rw [h1, h1'] at hi
    exact absurd (phOf_infix h2 h2' hi).symm hne

/-- a value that is not the placeholder of a pending entry is settled, if it was an ordinary value from the start -/
theorem Inv.ord_val {k : Key} {u : Val} (hls : lookup k s.data = some u) (hnone : exprOf s u = none) :
    lookup k c.data = some u ∧ okVal u = true := by
  have hl := I.ord_keep _ _ hls hnone
  refine ⟨hl, ?_⟩
  rcases I.vals _ _ hl with h | ⟨e', he', rfl⟩
  · exact h
  · obtain ⟨e0, he0, _, hnm, _⟩ := I.ex e' he'
    rw [← hnm, exprOf_of_mem A he0] at hnone; cases hnone

/-- **(2b)** an entry is evaluated: its placeholder is replaced by a settled value and it leaves the table -/
theorem Inv.step_del {e : Nat × ExprEntry} (he : e ∈ c.exprs) {v' : Val} (hv : okVal v' = true)
    (hgood : ∀ n tv, Good ev s n tv → lookup (.str n) s.data = some (.leaf (.str e.2.name)) → v' = tv) :
    Inv ev s ⟨updEs e.2.name v' c.data, Tbl.del e.1 c.exprs⟩ where
  keys_eq := by rw [keys_updEs]; exact I.keys_eq
  ids_nodup := Tbl.ids_del I.ids_nodup
  ex := fun e' he' => I.ex e' ((Tbl.mem_del I.ids_nodup).mp he').1
  vals := by
    intro k v hl
    simp only [lookup_updEs, Option.map_eq_some_iff] at hl
    obtain ⟨u, hu, rfl⟩ := hl
    rcases I.vals _ _ hu with hok | ⟨e', he', rfl⟩
    · left; rw [I.upd_ok A he v' u hok]; exact hok
    · by_cases hid : e'.1 = e.1
      · have : e' = e := nodup_fst_eq I.ids_nodup he' he hid
        subst this
        left; rw [Inv.upd_self]; exact hv
      · right
        rw [I.upd_other A he he' hid]
        exact ⟨e', (Tbl.mem_del I.ids_nodup).mpr ⟨he', hid⟩, rfl⟩
  ord_keep := by
    intro k u hls hnone
    obtain ⟨hl, hok⟩ := I.ord_val A hls hnone
    simp only [lookup_updEs, hl, Option.map_some, I.upd_ok A he v' u hok]
  pend_keep := by
    intro e' he' k hls
    obtain ⟨he'', hid⟩ := (Tbl.mem_del I.ids_nodup).mp he'
    have := I.pend_keep e' he'' k hls
    simp only [lookup_updEs, this, Option.map_some, I.upd_other A he he'' hid]
  good := by
    intro n tv hG e0 he0 hls
    rcases I.good n tv hG e0 he0 hls with ⟨hl, hok⟩ | ⟨σ, hσ, hc, hmem, hrefs⟩
    · left
      simp only [lookup_updEs, hl, Option.map_some, I.upd_ok A he v' tv hok]
      exact ⟨trivial, hok⟩
    · by_cases hid : e0.1 = e.1
      · left
        have heq := nodup_fst_eq I.ids_nodup hmem he hid
        have hnm : e0.2.name = e.2.name := by rw [← heq]
        have hl := I.pend_keep _ hmem _ hls
        simp only at hl
        have hvt := hgood n tv hG (hnm ▸ hls)
        subst hvt
        simp only [lookup_updEs, hl, Option.map_some, hnm, Inv.upd_self]
        exact ⟨trivial, hv⟩
      · right
        exact ⟨σ, hσ, hc, (Tbl.mem_del I.ids_nodup).mpr ⟨hmem, hid⟩, hrefs⟩

/-- **(2c)** an entry stays: some of its references are filled in -/
theorem Inv.step_set {e : Nat × ExprEntry} (he : e ∈ c.exprs) (σR : Str → Option Str) (hσR : CleanSub σR) (T' : Str)
    (hT' : ∀ g : Segs, g.wf = true → g.render = e.2.expression → T' = (g.fill σR).render)
    (hcorr : GoodPh ev s e.2.name → CorrectFill ev s σR ∧ T'.contains '$' = true) :
    Inv ev s ⟨c.data, Tbl.set e.1 ⟨T', e.2.name⟩ c.exprs⟩ := by
  have hi : e.1 ∈ c.exprs.map (·.1) := List.mem_map.mpr ⟨e, he, rfl⟩
  have hmem : ∀ a, a ∈ Tbl.set e.1 ⟨T', e.2.name⟩ c.exprs ↔ a = (e.1, ⟨T', e.2.name⟩) ∨ (a ∈ c.exprs ∧ a.1 ≠ e.1) :=
    fun a => Tbl.mem_set I.ids_nodup hi
  refine ⟨I.keys_eq, by rw [Tbl.ids_set hi]; exact I.ids_nodup, ?_, ?_, I.ord_keep, ?_, ?_⟩
  · intro a ha
    rcases (hmem a).mp ha with rfl | ⟨ha', _⟩
    · obtain ⟨e0, he0, hid, hnm, σ, hσ, hT⟩ := I.ex e he
      obtain ⟨_, hwf, _, _⟩ := st_wf A he0
      refine ⟨e0, he0, hid, hnm, orElse σ σR, hσ.orElse hσR, ?_⟩
      simp only
      rw [hT' _ (Segs.wf_fill hσ hwf) hT.symm, Segs.fill_fill]
    · exact I.ex a ha'
  · intro k v hl
    rcases I.vals k v hl with hok | ⟨e', he', rfl⟩
    · exact Or.inl hok
    · right
      by_cases hid : e'.1 = e.1
      · have : e' = e := nodup_fst_eq I.ids_nodup he' he hid
        subst this
        exact ⟨_, (hmem _).mpr (Or.inl rfl), rfl⟩
      · exact ⟨e', (hmem _).mpr (Or.inr ⟨he', hid⟩), rfl⟩
  · intro a ha k hls
    rcases (hmem a).mp ha with rfl | ⟨ha', _⟩
    · exact I.pend_keep e he k hls
    · exact I.pend_keep a ha' k hls
  · intro n tv hG e0 he0 hls
    rcases I.good n tv hG e0 he0 hls with h | ⟨σ, hσ, hc, hm, hrefs⟩
    · exact Or.inl h
    · right
      by_cases hid : e0.1 = e.1
      · have heq := nodup_fst_eq I.ids_nodup hm he hid
        have hnm : e0.2.name = e.2.name := by rw [← heq]
        have hexp : e.2.expression = ((toSegs e0.2.expression).fill σ).render := by rw [← heq]
        obtain ⟨_, hwf, _, _⟩ := st_wf A he0
        obtain ⟨hcR, hdollar⟩ := hcorr ⟨n, tv, hG, hnm ▸ hls⟩
        have hT := hT' _ (Segs.wf_fill hσ hwf) hexp.symm
        rw [Segs.fill_fill] at hT
        refine ⟨orElse σ σR, hσ.orElse hσR, ?_, ?_, ?_⟩
        · intro w t hw
          simp only [orElse] at hw
          split at hw
          · rename_i t' ht'; cases hw; exact hc w _ ht'
          · exact hcR w t hw
        · rw [← hT, hid, hnm]
          exact (hmem _).mpr (Or.inl rfl)
        · have hwf' := Segs.wf_fill (hσ.orElse hσR) hwf
          have := render_contains _ hwf'
          rw [← hT, hdollar] at this
          intro e'
          simp only [Segs.fill] at this
          rw [e'] at this
          cases this
      · exact ⟨σ, hσ, hc, (hmem _).mpr (Or.inr ⟨hm, hid⟩), hrefs⟩

end step

/-- what the loop knows about the resolved references: the value is settled and it is the specification's -/
def RSound (ev : Str → EvalResult) (s : SD) (R : List (Str × Val)) : Prop :=
  ∀ r p, R.find? (fun p => p.1 == r) = some p →
    p.1 = r ∧ okVal p.2 = true ∧ ∀ tv, Good ev s (refName r) tv → p.2 = tv

theorem RSound.pyStr {ev s R} (h : RSound ev s R) : ∀ r p, R.find? (fun p => p.1 == r) = some p → ∃ t, pyStrVal p.2 = some t := by
  intro r p hp
  obtain ⟨t, ht, _⟩ := okVal_pyStr (h r p hp).2.1
  exact ⟨t, ht⟩

theorem RSound.rho_clean {ev s R} (h : RSound ev s R) : ∀ r t, rhoOf R r = some t → '$' ∉ t := by
  intro r t hr
  simp only [rhoOf] at hr
  split at hr
  · rename_i r' v hf
    obtain ⟨t', ht', hd⟩ := okVal_pyStr (h r _ hf).2.1
    simp only at ht'
    rw [ht'] at hr; cases hr; exact hd
  · cases hr

theorem rhoOf_none {ev s R} (h : RSound ev s R) (r : Str) : rhoOf R r = none ↔ R.find? (fun p => p.1 == r) = none := by
  simp only [rhoOf]
  constructor
  · intro hr
    split at hr
    · rename_i r' v hf
      obtain ⟨t', ht', _⟩ := okVal_pyStr (h r _ hf).2.1
      simp only at ht'
      rw [ht'] at hr; cases hr
    · assumption
  · intro hf; rw [hf]

theorem refsOf_isRef : ∀ ps : Ps, wfPs ps = true → ∀ r ∈ refsOf ps, IsRef r
  | [], _, r, hr => by cases hr
  | (.done t, l) :: ps, h, r, hr => refsOf_isRef ps (wfPs_cons h).2.2.1 r (by simpa [refsOf] using hr)
  | (.ref w, l) :: ps, h, r, hr => by
    simp only [refsOf, List.mem_cons] at hr
    rcases hr with rfl | hr
    · obtain ⟨h1, h2⟩ := pcOk_ref (wfPs_cons h).1
      exact ⟨w, rfl, h1, h2⟩
    · exact refsOf_isRef ps (wfPs_cons h).2.2.1 r hr

theorem substAll_congr (ρ1 ρ2 : Str → Option Str) : ∀ (rs : List Str) (x : Str), (∀ r ∈ rs, ρ1 r = ρ2 r) →
    substAll ρ1 rs x = substAll ρ2 rs x
  | [], _, _ => rfl
  | r :: rs, x, h => by
    simp only [substAll, List.foldl_cons]
    rw [h r List.mem_cons_self]
    exact substAll_congr ρ1 ρ2 rs _ (fun r' hr' => h r' (List.mem_cons_of_mem _ hr'))

theorem fill_short (σ : Str → Option Str) : ∀ ps : Ps, ps.length ≤ 1 → refsOf (fill σ ps) ≠ [] → fill σ ps = ps
  | [], _, h => absurd rfl h
  | [(.done t, l)], _, h => by simp [fill, Pc.fill, refsOf] at h
  | [(.ref w, l)], _, h => by
    simp only [fill, List.map_cons, List.map_nil, Pc.fill] at h ⊢
    cases hw : σ w with
    | none => rfl
    | some t => rw [hw] at h; simp [refsOf] at h
  | _ :: _ :: _, hl, _ => by simp at hl

/-- the segmented form of the text the fold of `evalPass` produces -/
theorem pass_text {ev s R} (hR : RSound ev s R) (g : Segs) (hg : g.wf = true) :
    substAll (rhoOf R) (findRefs g.render) g.render = (g.fill (subOf (rhoOf R) (findRefs g.render))).render := by
  apply substAll_render _ hR.rho_clean _ g hg
  rw [findRefs_render g hg]
  simp only [Segs.wf, Bool.and_eq_true] at hg
  exact refsOf_isRef g.ps hg.2

theorem good_children {ev s} (A : AcyclicFlat' s) {n : Str} {tv : Val} (hG : Good ev s n tv) {e0 : Nat × ExprEntry}
    (he0 : e0 ∈ s.exprs) (hls : lookup (.str n) s.data = some (.leaf (.str e0.2.name))) :
    ∀ r ∈ findRefs e0.2.expression, ∃ tw, Good ev s (refName r) tw := by
  obtain ⟨vs, hls', hcase⟩ := hG.unfold
  rw [hls] at hls'
  cases Option.some.inj hls'
  rcases hcase with ⟨hnone, _⟩ | ⟨ex, hex, hcase⟩
  · rw [exprOf_of_mem A he0] at hnone; cases hnone
  · rw [exprOf_of_mem A he0] at hex
    cases Option.some.inj hex
    rcases hcase with ⟨hp, hGw⟩ | ⟨_, hch, _⟩
    · intro r hr
      rw [hp] at hr
      simp only [List.mem_singleton] at hr
      exact ⟨tv, hr ▸ hGw⟩
    · intro r hr
      obtain ⟨w, _, hw, _⟩ := hch r hr
      exact ⟨w, hw⟩

section
variable {ev : Str → EvalResult} {s : SD} {c : ExprSt} (A : AcyclicFlat' s) (I : Inv ev s c)
include A I

/-- a pending entry of a good name, seen from the original table -/
theorem Inv.good_entry {e : Nat × ExprEntry} (he : e ∈ c.exprs) {n : Str} {tv : Val} (hG : Good ev s n tv)
    (hls : lookup (.str n) s.data = some (.leaf (.str e.2.name))) :
    ∃ e0 ∈ s.exprs, e0.2.name = e.2.name ∧ ∃ σ0, CleanSub σ0 ∧ CorrectFill ev s σ0 ∧
      e.2.expression = ((toSegs e0.2.expression).fill σ0).render ∧
      refsOf (fill σ0 (toSegs e0.2.expression).ps) ≠ [] := by
  obtain ⟨e0, he0, hid, hnm, _⟩ := I.ex e he
  refine ⟨e0, he0, hnm, ?_⟩
  rcases I.good n tv hG e0 he0 (hnm ▸ hls) with ⟨hl, hok⟩ | ⟨σ, hσ, hc, hmem, hrefs⟩
  · exfalso
    have := I.pend_keep e he _ hls
    rw [hl] at this
    cases Option.some.inj this
    rw [(I.entry_name A he).1, not_okVal_ph] at hok; cases hok
  · have heq := nodup_fst_eq I.ids_nodup hmem he hid
    exact ⟨σ, hσ, hc, by rw [← heq], hrefs⟩

/-- the references the fold of one step fills are filled correctly, for a good name -/
theorem Inv.corrR {R : List (Str × Val)} (hR : RSound ev s R) {e : Nat × ExprEntry} (he : e ∈ c.exprs)
    (hgp : GoodPh ev s e.2.name) : CorrectFill ev s (subOf (rhoOf R) (findRefs e.2.expression)) := by
  obtain ⟨n, tv, hG, hls⟩ := hgp
  obtain ⟨e0, he0, hnm, σ0, hσ0, _, hT, _⟩ := I.good_entry A he hG hls
  obtain ⟨hr0, hwf0, _, _⟩ := st_wf A he0
  have hwf := Segs.wf_fill hσ0 hwf0
  intro w t hw
  simp only [subOf] at hw
  split at hw
  · rename_i hmem
    -- the reference is one of the original text
    have hmem0 : ('$' :: w) ∈ findRefs e0.2.expression := by
      rw [hT, findRefs_render _ hwf] at hmem
      simp only [Segs.fill, refsOf_fill, List.mem_filter] at hmem
      rw [← hr0, findRefs_render _ hwf0]; exact hmem.1
    obtain ⟨tw, hGw⟩ := good_children A hG he0 (hnm ▸ hls) _ hmem0
    have hisref : IsRef ('$' :: w) := by
      rw [← hr0, findRefs_render _ hwf0] at hmem0
      simp only [Segs.wf, Bool.and_eq_true] at hwf0
      exact refsOf_isRef _ hwf0.2 _ hmem0
    obtain ⟨w', hw', _, hww⟩ := hisref
    cases hw'
    rw [refName_ref hww] at hGw
    simp only [rhoOf] at hw
    split at hw
    · rename_i r' v hf
      obtain ⟨_, _, hsound⟩ := hR _ _ hf
      have : v = tw := hsound tw (by rw [refName_ref hww]; exact hGw)
      subst this
      exact ⟨v, hGw, hw⟩
    · cases hw
  · cases hw

/-- **(2d)** what one step computes for a good name is what the specification computes -/
theorem Inv.good_eval {R : List (Str × Val)} (hR : RSound ev s R) {e : Nat × ExprEntry} (he : e ∈ c.exprs)
    {n : Str} {tv : Val} (hG : Good ev s n tv) (hls : lookup (.str n) s.data = some (.leaf (.str e.2.name))) :
    (∀ v, plainOf R e.2.expression = some v → v = tv) ∧
    (plainOf R e.2.expression = none → ∀ T', T' = substAll (rhoOf R) (findRefs e.2.expression) e.2.expression →
      T'.contains '$' = false →
      (∃ x, ev T' = .value (.leaf x) ∧ tv = .leaf x) ∨ (ev T' = .nameError ∧ tv = .leaf (.str T'))) := by
  obtain ⟨e0, he0, hnm, σ0, hσ0, hc0, hT, hrefs⟩ := I.good_entry A he hG hls
  obtain ⟨hr0, hwf0, _, hshape⟩ := st_wf A he0
  have hwf := Segs.wf_fill hσ0 hwf0
  have hfr : findRefs e.2.expression = refsOf (fill σ0 (toSegs e0.2.expression).ps) := by
    rw [hT, findRefs_render _ hwf]; rfl
  have hfr0 : findRefs e0.2.expression = refsOf (toSegs e0.2.expression).ps := by
    conv => lhs; rw [← hr0]
    exact findRefs_render _ hwf0
  -- one unfolding of the specification at `n`
  obtain ⟨vs, hls', hcase⟩ := hG.unfold
  rw [hls] at hls'
  cases Option.some.inj hls'
  rw [← hnm, exprOf_of_mem A he0] at hcase
  rcases hcase with ⟨hnone, _⟩ | ⟨ex, hex, hcase⟩
  · cases hnone
  cases Option.some.inj hex
  constructor
  · -- the plain-reference branch
    intro v hp
    simp only [plainOf] at hp
    split at hp
    · rename_i r hrs
      split at hp
      · rename_i hstrip
        simp only [beq_iff_eq] at hstrip
        simp only [Option.map_eq_some_iff] at hp
        obtain ⟨p, hf, rfl⟩ := hp
        obtain ⟨_, _, hsound⟩ := hR _ _ hf
        rcases hshape with hlen | hnb
        · -- nothing was filled in: the text is the original one
          have hsame : fill σ0 (toSegs e0.2.expression).ps = (toSegs e0.2.expression).ps := fill_short σ0 _ hlen hrefs
          have hTe : e.2.expression = e0.2.expression := by
            rw [hT]; simp only [Segs.fill, hsame]; exact hr0
          rw [hTe] at hrs hstrip
          rcases hcase with ⟨_, hGw⟩ | ⟨hne, _⟩
          · rw [hstrip] at hGw
            exact hsound tv hGw
          · exact absurd (by rw [hrs, hstrip]) hne
        · exfalso
          have h1 : refsOf (fill σ0 (toSegs e0.2.expression).ps) = [r] := by rw [← hfr, hrs]
          have := strip_ne_ref (toSegs e0.2.expression).lit0 (fill σ0 (toSegs e0.2.expression).ps) r h1
            (by rw [litsOf_fill]; exact hnb)
          apply this
          rw [← hstrip, hT]; rfl
      · cases hp
    · cases hp
  · -- the evaluation branch
    intro hpn T' hT' hnd
    have hpt := pass_text hR _ hwf
    rw [← hT] at hpt
    rw [← hT', Segs.fill_fill] at hpt
    -- every reference is filled
    have hwf' := Segs.wf_fill (hσ0.orElse (show CleanSub (subOf (rhoOf R) (findRefs e.2.expression)) from
      fun w t hw => by
        simp only [subOf] at hw
        split at hw
        · exact hR.rho_clean _ _ hw
        · cases hw)) hwf0
    have hall : refsOf (fill (orElse σ0 (subOf (rhoOf R) (findRefs e.2.expression))) (toSegs e0.2.expression).ps) = [] := by
      have := render_contains _ hwf'
      rw [← hpt, hnd] at this
      simp only [Segs.fill] at this
      cases hx : refsOf (fill (orElse σ0 (subOf (rhoOf R) (findRefs e.2.expression))) (toSegs e0.2.expression).ps) with
      | nil => rfl
      | cons a b => rw [hx] at this; cases this
    have hcorr : CorrectFill ev s (orElse σ0 (subOf (rhoOf R) (findRefs e.2.expression))) := by
      have hcR := I.corrR A hR he ⟨n, tv, hG, hls⟩
      intro w t hw
      simp only [orElse] at hw
      split at hw
      · rename_i t' ht'; cases hw; exact hc0 w _ ht'
      · exact hcR w t hw
    have hfilled : ∀ w, ('$' :: w) ∈ refsOf (toSegs e0.2.expression).ps →
        ∃ t, orElse σ0 (subOf (rhoOf R) (findRefs e.2.expression)) w = some t := by
      intro w hw
      rw [refsOf_fill] at hall
      have := List.filter_eq_nil_iff.mp hall _ hw
      simp only [List.drop_succ_cons, List.drop_zero, Option.isNone_iff_eq_none] at this
      cases hx : orElse σ0 (subOf (rhoOf R) (findRefs e.2.expression)) w with
      | none => exact absurd hx this
      | some t => exact ⟨t, rfl⟩
    rcases hcase with ⟨hplain, _⟩ | ⟨hne, hch, t, ht, hres⟩
    · -- a plain reference in the specification: then the step took the plain branch
      exfalso
      have hone : refsOf (toSegs e0.2.expression).ps = [strip e0.2.expression] := by rw [← hfr0, hplain]
      -- nothing was filled before
      have hsame : fill σ0 (toSegs e0.2.expression).ps = (toSegs e0.2.expression).ps := by
        have h1 : refsOf (fill σ0 (toSegs e0.2.expression).ps) = [strip e0.2.expression] := by
          rw [refsOf_fill, hone] at hrefs ⊢
          simp only [List.filter_cons, List.filter_nil] at hrefs ⊢
          split
          · rfl
          · rename_i hx; rw [if_neg hx] at hrefs; exact absurd rfl hrefs
        have h2 : ∀ w, ('$' :: w) ∈ refsOf (toSegs e0.2.expression).ps → σ0 w = none := by
          intro w hw
          have : ('$' :: w) ∈ refsOf (fill σ0 (toSegs e0.2.expression).ps) := by
            rw [h1, ← hone]; exact hw
          rw [refsOf_fill, List.mem_filter] at this
          simpa using this.2
        rw [fill_congr σ0 (fun _ => none) _ h2, fill_none]
      have hTe : e.2.expression = e0.2.expression := by
        rw [hT]; simp only [Segs.fill, hsame]; exact hr0
      rw [hTe] at hpn hfilled
      simp only [plainOf, hplain, beq_self_eq_true, if_true, Option.map_eq_none_iff] at hpn
      -- the reference is not resolved, so it is still there
      have hisref : IsRef (strip e0.2.expression) := by
        simp only [Segs.wf, Bool.and_eq_true] at hwf0
        exact refsOf_isRef _ hwf0.2 _ (by rw [hone]; exact List.mem_singleton.mpr rfl)
      obtain ⟨w, hw, _, _⟩ := hisref
      obtain ⟨t, ht⟩ := hfilled w (by rw [hone, hw]; exact List.mem_singleton.mpr rfl)
      have hσw : σ0 w = none := by
        have : ('$' :: w) ∈ refsOf (fill σ0 (toSegs e0.2.expression).ps) := by
          rw [hsame, hone, hw]; exact List.mem_singleton.mpr rfl
        rw [refsOf_fill, List.mem_filter] at this
        simpa using this.2
      simp only [orElse, hσw, subOf] at ht
      split at ht
      · rw [← hw, (rhoOf_none hR _).mpr hpn] at ht; cases ht
      · cases ht
    · -- the texts agree
      have htext : t = T' := by
        rw [ht, hpt]
        have hcongr : ∀ r ∈ findRefs e0.2.expression,
            topoRho ev s r = (fun (r : Str) => orElse σ0 (subOf (rhoOf R) (findRefs e.2.expression)) (r.drop 1)) r := by
          intro r hr
          rw [hfr0] at hr
          have hisref : IsRef r := by
            simp only [Segs.wf, Bool.and_eq_true] at hwf0
            exact refsOf_isRef _ hwf0.2 _ hr
          obtain ⟨w, rfl, _, hww⟩ := hisref
          obtain ⟨tx, htx⟩ := hfilled w hr
          obtain ⟨tw, hGw, hpy⟩ := hcorr w tx htx
          simp only [List.drop_succ_cons, List.drop_zero, htx, topoRho, refName_ref hww]
          unfold Good at hGw
          rw [hGw]; exact hpy
        rw [substAll_congr _ _ _ _ hcongr]
        have hclean : ∀ r t, (fun (r : Str) => orElse σ0 (subOf (rhoOf R) (findRefs e.2.expression)) (r.drop 1)) r = some t → '$' ∉ t := by
          intro r t hrt
          exact (hσ0.orElse (fun w t hw => by
            simp only [subOf] at hw
            split at hw
            · exact hR.rho_clean _ _ hw
            · cases hw)) _ _ hrt
        have hsr := substAll_render _ hclean (findRefs e0.2.expression) (toSegs e0.2.expression) hwf0 (by
          rw [hfr0]
          simp only [Segs.wf, Bool.and_eq_true] at hwf0
          exact refsOf_isRef _ hwf0.2)
        rw [hr0] at hsr
        rw [hsr]
        simp only [Segs.fill]
        congr 2
        apply fill_congr
        intro w hw
        simp only [subOf, hfr0, hw, if_true, List.drop_succ_cons, List.drop_zero]
      rw [htext] at hres
      exact hres

end

/-- the references left after a step: those that are not resolved -/
theorem refs_after {ev s R} (hR : RSound ev s R) (g : Segs) (hg : g.wf = true) :
    findRefs (substAll (rhoOf R) (findRefs g.render) g.render) =
      (findRefs g.render).filter fun r => (R.find? fun p => p.1 == r).isNone := by
  have hclean : CleanSub (subOf (rhoOf R) (findRefs g.render)) := by
    intro w t hw
    simp only [subOf] at hw
    split at hw
    · exact hR.rho_clean _ _ hw
    · cases hw
  rw [pass_text hR g hg, findRefs_render _ (Segs.wf_fill hclean hg), findRefs_render g hg]
  simp only [Segs.fill, refsOf_fill]
  apply List.filter_congr
  intro r hr
  have hisref : IsRef r := by
    simp only [Segs.wf, Bool.and_eq_true] at hg
    exact refsOf_isRef _ hg.2 _ hr
  obtain ⟨w, rfl, _, _⟩ := hisref
  simp only [List.drop_succ_cons, List.drop_zero, subOf, hr, if_true]
  cases hx : rhoOf R ('$' :: w) with
  | none => rw [(rhoOf_none hR _).mp hx]; rfl
  | some t =>
    cases hf : R.find? (fun p => p.1 == '$' :: w) with
    | none => rw [(rhoOf_none hR _).mpr hf] at hx; cases hx
    | some p => rfl

/-- **(2)** one step of the pass keeps the invariant; the other entries are not touched; an entry that stays has
    lost its resolved references; the entry of a good name all of whose references are resolved leaves the table -/
theorem passStep_inv {ev : Str → EvalResult} {s : SD} (A : AcyclicFlat' s) (E : EvOK ev) {c c' : ExprSt}
    (I : Inv ev s c) {R : List (Str × Val)} (hR : RSound ev s R) {e : Nat × ExprEntry} (he : e ∈ c.exprs)
    (h : passStep ev R c e = .ok c') :
    Inv ev s c' ∧
    (∀ a ∈ c.exprs, a.1 ≠ e.1 → a ∈ c'.exprs) ∧
    (∀ a ∈ c'.exprs, (a ∈ c.exprs ∧ a.1 ≠ e.1) ∨
      (a.1 = e.1 ∧ a.2.name = e.2.name ∧
        findRefs a.2.expression = (findRefs e.2.expression).filter fun r => (R.find? fun p => p.1 == r).isNone)) ∧
    (GoodPh ev s e.2.name → (∀ r ∈ findRefs e.2.expression, (R.find? fun p => p.1 == r).isSome = true) →
      ∀ a ∈ c'.exprs, a.1 ≠ e.1) := by
  have hi : e.1 ∈ c.exprs.map (·.1) := List.mem_map.mpr ⟨e, he, rfl⟩
  -- the segmented form of the entry's text
  obtain ⟨e0, he0, _, _, σ, hσ, hT⟩ := I.ex e he
  obtain ⟨_, hwf0, _, _⟩ := st_wf A he0
  have hwf := Segs.wf_fill hσ hwf0
  have hdel : ∀ v', c' = ⟨updEs e.2.name v' c.data, Tbl.del e.1 c.exprs⟩ →
      (∀ a ∈ c.exprs, a.1 ≠ e.1 → a ∈ c'.exprs) ∧
      (∀ a ∈ c'.exprs, (a ∈ c.exprs ∧ a.1 ≠ e.1) ∨
        (a.1 = e.1 ∧ a.2.name = e.2.name ∧
          findRefs a.2.expression = (findRefs e.2.expression).filter fun r => (R.find? fun p => p.1 == r).isNone)) ∧
      (∀ a ∈ c'.exprs, a.1 ≠ e.1) := by
    intro v' hc
    subst hc
    refine ⟨fun a ha hne => (Tbl.mem_del I.ids_nodup).mpr ⟨ha, hne⟩,
      fun a ha => Or.inl ((Tbl.mem_del I.ids_nodup).mp ha), fun a ha => ((Tbl.mem_del I.ids_nodup).mp ha).2⟩
  have hset : ∀ T', T' = substAll (rhoOf R) (findRefs e.2.expression) e.2.expression →
      c' = ⟨c.data, Tbl.set e.1 ⟨T', e.2.name⟩ c.exprs⟩ →
      (∀ a ∈ c.exprs, a.1 ≠ e.1 → a ∈ c'.exprs) ∧
      (∀ a ∈ c'.exprs, (a ∈ c.exprs ∧ a.1 ≠ e.1) ∨
        (a.1 = e.1 ∧ a.2.name = e.2.name ∧
          findRefs a.2.expression = (findRefs e.2.expression).filter fun r => (R.find? fun p => p.1 == r).isNone)) := by
    intro T' hT' hc
    subst hc
    refine ⟨fun a ha hne => (Tbl.mem_set I.ids_nodup hi).mpr (Or.inr ⟨ha, hne⟩), fun a ha => ?_⟩
    rcases (Tbl.mem_set I.ids_nodup hi).mp ha with rfl | h2
    · right
      refine ⟨rfl, rfl, ?_⟩
      simp only
      rw [hT', hT]
      exact refs_after hR _ hwf
    · exact Or.inl h2
  have hsetInv : ∀ T', T' = substAll (rhoOf R) (findRefs e.2.expression) e.2.expression →
      (GoodPh ev s e.2.name → T'.contains '$' = true) →
      Inv ev s ⟨c.data, Tbl.set e.1 ⟨T', e.2.name⟩ c.exprs⟩ := by
    intro T' hT' hgd
    apply I.step_set A he (subOf (rhoOf R) (findRefs e.2.expression)) _ T'
    · intro g hg hgr
      rw [hT', ← hgr]
      exact pass_text hR g hg
    · intro hgp
      exact ⟨I.corrR A hR he hgp, hgd hgp⟩
    · intro w t hw
      simp only [subOf] at hw
      split at hw
      · exact hR.rho_clean _ _ hw
      · cases hw
  have hflat := (I.flat A).2
  rcases passStep_cases ev R c c' e (fun d hd => (hflat d hd).2) hR.pyStr h with
    ⟨v, hp, hc⟩ | ⟨hpn, T', hT', hrest⟩
  · -- a plain reference
    have hfind : ∃ r p, R.find? (fun p => p.1 == r) = some p ∧ p.2 = v := by
      simp only [plainOf] at hp
      split at hp
      · rename_i r _
        split at hp
        · simp only [Option.map_eq_some_iff] at hp
          obtain ⟨p, hf, hpv⟩ := hp
          exact ⟨r, p, hf, hpv⟩
        · cases hp
      · cases hp
    obtain ⟨r, p, hf, rfl⟩ := hfind
    have hok := (hR r p hf).2.1
    obtain ⟨h1, h2, h3⟩ := hdel _ hc
    refine ⟨?_, h1, h2, fun _ _ => h3⟩
    rw [hc]
    exact I.step_del A he hok (fun n tv hG hls => (I.good_eval A hR he hG hls).1 _ hp)
  · rcases hrest with ⟨hd, hc⟩ | ⟨hnd, hrest⟩
    · -- references are left
      obtain ⟨h1, h2⟩ := hset T' hT' hc
      refine ⟨?_, h1, h2, ?_⟩
      · rw [hc]; exact hsetInv T' hT' (fun _ => hd)
      · -- not all references were resolved
        intro _ hall
        exfalso
        have := refs_after hR _ hwf
        rw [← hT, ← hT'] at this
        have hnil : findRefs T' = [] := by
          rw [this, List.filter_eq_nil_iff]
          intro r hr
          have := hall r hr
          cases hx : R.find? (fun p => p.1 == r) with
          | none => rw [hx] at this; cases this
          | some _ => simp
        have hclean : CleanSub (subOf (rhoOf R) (findRefs e.2.expression)) := by
          intro w t hw
          simp only [subOf] at hw
          split at hw
          · exact hR.rho_clean _ _ hw
          · cases hw
        have hpt := pass_text hR _ hwf
        rw [← hT, ← hT'] at hpt
        have hwf' := Segs.wf_fill hclean hwf
        have hc2 := render_contains _ hwf'
        rw [← hpt, hd, ← findRefs_render _ hwf', ← hpt, hnil] at hc2
        cases hc2
    · rcases hrest with ⟨hev, hc⟩ | ⟨hev, hc⟩ | ⟨x, hev, hc⟩
      · -- a syntax error: the entry stays (it is not the entry of a good name)
        have hnotgood : ¬ GoodPh ev s e.2.name := by
          rintro ⟨n, tv, hG, hls⟩
          rcases (I.good_eval A hR he hG hls).2 hpn T' hT' hnd with ⟨x, hx, _⟩ | ⟨hx, _⟩
          · rw [hev] at hx; cases hx
          · rw [hev] at hx; cases hx
        obtain ⟨h1, h2⟩ := hset T' hT' hc
        refine ⟨?_, h1, h2, fun hgp => absurd hgp hnotgood⟩
        rw [hc]; exact hsetInv T' hT' (fun hgp => absurd hgp hnotgood)
      · -- a name error: the text is the value
        have hok : okVal (.leaf (.str T')) = true := by
          have h1 := E.name_ok T' hev
          have h2 : '$' ∉ T' := fun hm => by
            have : T'.contains '$' = true := by simpa using hm
            rw [hnd] at this; cases this
          simp [okVal, okScalar, usable, anyStrLeafV, h1, h2, noD, pyStrScalar]
        obtain ⟨h1, h2, h3⟩ := hdel _ hc
        refine ⟨?_, h1, h2, fun _ _ => h3⟩
        rw [hc]
        apply I.step_del A he hok
        intro n tv hG hls
        rcases (I.good_eval A hR he hG hls).2 hpn T' hT' hnd with ⟨x, hx, _⟩ | ⟨_, htv⟩
        · rw [hev] at hx; cases hx
        · exact htv.symm
      · -- a scalar value
        have hok : okVal (.leaf x) = true := E.value_ok T' x hev
        obtain ⟨h1, h2, h3⟩ := hdel _ hc
        refine ⟨?_, h1, h2, fun _ _ => h3⟩
        rw [hc]
        apply I.step_del A he hok
        intro n tv hG hls
        rcases (I.good_eval A hR he hG hls).2 hpn T' hT' hnd with ⟨x', hx, htv⟩ | ⟨hx, _⟩
        · rw [hev] at hx; cases hx; exact htv.symm
        · rw [hev] at hx; cases hx

/-- the reference has no usable resolution in `R` -/
def unresIn (R : List (Str × Val)) (r : Str) : Bool := (R.find? fun p => p.1 == r).isNone

/-- an entry after the pass comes from an entry before the pass, its resolved references filled in -/
def FromEntry (R : List (Str × Val)) (st : ExprSt) (a : Nat × ExprEntry) : Prop :=
  ∃ b ∈ st.exprs, b.1 = a.1 ∧ b.2.name = a.2.name ∧
    findRefs a.2.expression = (findRefs b.2.expression).filter (unresIn R)

/-- the entry of a good name all of whose references are resolved -/
def Ready (ev : Str → EvalResult) (s : SD) (R : List (Str × Val)) (b : Nat × ExprEntry) : Prop :=
  GoodPh ev s b.2.name ∧ ∀ r ∈ findRefs b.2.expression, (R.find? fun p => p.1 == r).isSome = true

theorem pass_fold {ev : Str → EvalResult} {s : SD} (A : AcyclicFlat' s) (E : EvOK ev) {R : List (Str × Val)}
    (hR : RSound ev s R) (st : ExprSt) (hst : (st.exprs.map (·.1)).Nodup) :
    ∀ (L : List (Nat × ExprEntry)) (c c' : ExprSt), Inv ev s c → (∀ e ∈ L, e ∈ st.exprs) → (L.map (·.1)).Nodup →
      (∀ a ∈ c.exprs, a ∈ L ∨ (a.1 ∉ L.map (·.1) ∧ FromEntry R st a)) →
      (∀ e ∈ L, e ∈ c.exprs) →
      (∀ b ∈ st.exprs, b.1 ∉ L.map (·.1) → Ready ev s R b → ∀ a ∈ c.exprs, a.1 ≠ b.1) →
      L.foldlM (passStep ev R) c = .ok c' →
      Inv ev s c' ∧ (∀ a ∈ c'.exprs, FromEntry R st a) ∧
        (∀ b ∈ st.exprs, Ready ev s R b → ∀ a ∈ c'.exprs, a.1 ≠ b.1)
  | [], c, c', I, _, _, F1, _, F3, h => by
    simp only [List.foldlM_nil, pure, Except.pure, Except.ok.injEq] at h
    subst h
    refine ⟨I, fun a ha => ?_, fun b hb hrd => F3 b hb (by simp) hrd⟩
    rcases F1 a ha with h | h
    · cases h
    · exact h.2
  | e :: L, c, c', I, F0, hn, F1, F2, F3, h => by
    rw [List.foldlM_cons] at h
    simp only [bind, Except.bind] at h
    cases hs : passStep ev R c e with
    | error x => rw [hs] at h; cases h
    | ok c1 =>
      rw [hs] at h
      simp only at h
      have he : e ∈ c.exprs := F2 e List.mem_cons_self
      simp only [List.map_cons, List.nodup_cons] at hn
      obtain ⟨I1, s1, s2, s3⟩ := passStep_inv A E I hR he hs
      apply pass_fold A E hR st hst L c1 c' I1 (fun e' he' => F0 e' (List.mem_cons_of_mem _ he')) hn.2 ?_ ?_ ?_ h
      · -- F1
        intro a ha
        rcases s2 a ha with ⟨hac, hne⟩ | ⟨hid, hnm, hrefs⟩
        · rcases F1 a hac with hL | ⟨hnotin, hfrom⟩
          · rcases List.mem_cons.mp hL with rfl | hL'
            · exact absurd rfl hne
            · exact Or.inl hL'
          · right
            refine ⟨fun hm => hnotin ?_, hfrom⟩
            simp only [List.map_cons, List.mem_cons]; exact Or.inr hm
        · right
          refine ⟨by rw [hid]; exact hn.1, e, F0 e List.mem_cons_self, hid.symm, hnm.symm, hrefs⟩
      · -- F2
        intro e' he'
        have hne : e'.1 ≠ e.1 := fun heq => hn.1 (List.mem_map.mpr ⟨e', he', heq⟩)
        exact s1 e' (F2 e' (List.mem_cons_of_mem _ he')) hne
      · -- F3
        intro b hb hnotin hrd a ha
        by_cases hbe : b.1 = e.1
        · have : b = e := nodup_fst_eq hst hb (F0 e List.mem_cons_self) hbe
          subst this
          exact s3 hrd.1 hrd.2 a ha
        · have hnotin' : b.1 ∉ (e :: L).map (·.1) := by
            simp only [List.map_cons, List.mem_cons, not_or]
            exact ⟨hbe, hnotin⟩
          rcases s2 a ha with ⟨hac, _⟩ | ⟨hid, _, _⟩
          · exact F3 b hb hnotin' hrd a hac
          · rw [hid]; exact fun heq => hbe heq.symm

/-- **(2′)** one pass -/
theorem evalPass_inv {ev : Str → EvalResult} {s : SD} (A : AcyclicFlat' s) (E : EvOK ev) {R : List (Str × Val)}
    (hR : RSound ev s R) {st st1 : ExprSt} (I : Inv ev s st) (h : evalPass ev R st = .ok st1) :
    Inv ev s st1 ∧ (∀ a ∈ st1.exprs, FromEntry R st a) ∧
      (∀ b ∈ st.exprs, Ready ev s R b → ∀ a ∈ st1.exprs, a.1 ≠ b.1) := by
  rw [evalPass_eq] at h
  refine pass_fold A E hR st I.ids_nodup st.exprs st st1 I (fun e he => he) I.ids_nodup
    (fun a ha => Or.inl ha) (fun e he => he) ?_ h
  intro b hb hnotin
  exact absurd (List.mem_map.mpr ⟨b, hb, rfl⟩) hnotin

/-! ### (3) progress -/

theorem nodup_subset_length' {α} [DecidableEq α] : ∀ (l1 l2 : List α), l1.Nodup → (∀ x ∈ l1, x ∈ l2) → l1.length ≤ l2.length
  | [], _, _, _ => by simp
  | a :: l1, l2, hn, hs => by
    rw [List.nodup_cons] at hn
    have ha := hs a List.mem_cons_self
    have := nodup_subset_length' l1 (l2.erase a) hn.2 (fun x hx => by
      have hx2 := hs x (List.mem_cons_of_mem _ hx)
      have hne : x ≠ a := fun e => hn.1 (e ▸ hx)
      exact (List.mem_erase_of_ne hne).mpr hx2)
    rw [List.length_erase_of_mem ha] at this
    have hpos : 0 < l2.length := List.length_pos_of_mem ha
    simp only [List.length_cons]; omega

theorem nodup_subset_length_lt' {α} [DecidableEq α] (l1 l2 : List α) (u : α) (hn : l1.Nodup) (hs : ∀ x ∈ l1, x ∈ l2)
    (hu : u ∈ l2) (hu1 : u ∉ l1) : l1.length < l2.length := by
  have := nodup_subset_length' l1 (l2.erase u) hn (fun x hx => by
    have hne : x ≠ u := fun e => hu1 (e ▸ hx)
    exact (List.mem_erase_of_ne hne).mpr (hs x hx))
  rw [List.length_erase_of_mem hu] at this
  have hpos : 0 < l2.length := List.length_pos_of_mem hu
  omega

theorem exists_min (P : Nat → Prop) (h : ∃ k, P k) : ∃ k, P k ∧ ∀ j, j < k → ¬ P j := by
  obtain ⟨k, hk⟩ := h
  induction k using Nat.strongRecOn with
  | _ k ih =>
    by_cases hex : ∃ j, j < k ∧ P j
    · obtain ⟨j, hj, hpj⟩ := hex
      exact ih j hj hpj
    · exact ⟨k, hk, fun j hj hpj => hex ⟨j, hj, hpj⟩⟩

section
variable {ev : Str → EvalResult} {s : SD} {st : ExprSt} (A : AcyclicFlat' s) (I : Inv ev s st)
include A I

/-- what `resolveAll` returns, under the invariant -/
theorem Inv.resolved {R : List (Str × Val)} {nr : Nat} (h : resolveAll st.exprs st.data = .ok (R, nr)) :
    RSound ev s R ∧
    (∀ r ∈ pendRefs st.exprs, unresIn R r = !isRes (varsEs st.exprs st.data []) r) ∧
    nr = ((pendRefs st.exprs).filter fun r => !isRes (varsEs st.exprs st.data []) r).length := by
  obtain ⟨hR, hnr⟩ := resolveAll_ok h
  have hV := I.varsOK A
  refine ⟨?_, ?_, hnr⟩
  · intro r p hp
    rw [hR, find_filterMap] at hp
    split at hp
    · simp only [resEntry] at hp
      split at hp
      · rename_i v hrv
        split at hp
        · rename_i hu
          cases hp
          simp only [rvOf] at hrv
          split at hrv
          · rename_i v' hres
            cases hrv
            obtain ⟨hd, hsound⟩ := resolveRef_sound hV _ _ _ _ hres
            refine ⟨rfl, ?_, hsound⟩
            cases v with
            | leaf x => simp only [okVal, okScalar, hu, Bool.true_and]; exact hd
            | dict _ => cases hd
            | list _ => cases hd
          · cases hrv
        · cases hp
      · cases hp
    · cases hp
  · intro r hr
    simp only [unresIn, hR, find_filterMap, hr, if_true, resEntry, isRes]
    cases rvOf (varsEs st.exprs st.data []) r with
    | none => rfl
    | some v => cases hu : usable v <;> simp [hu]

/-- a reference to a settled name is resolved -/
theorem Inv.settled_res {w : Str} {tw : Val} (ho : ordS st w tw) : isRes (varsEs st.exprs st.data []) ('$' :: w) = true := by
  have hV := I.varsOK A
  have hgv := hV.v2 _ _ ho
  have hpos := varsEs_length_pos st.exprs w st.data tw hgv
  obtain ⟨f, hf⟩ : ∃ f, (varsEs st.exprs st.data []).length + 1 = f + 2 := ⟨(varsEs st.exprs st.data []).length - 1, by omega⟩
  have := resolveRef_settled hV w tw ho f
  simp only [isRes, rvOf, hf, this]
  exact okVal_usable ho.2

/-- **(3a)** the references of a pending entry of least rank among the entries of good names are settled -/
theorem Inv.min_settled (rank : Str → Nat) (hrank : rankOk rank s = true) {a : Nat × ExprEntry} (ha : a ∈ st.exprs)
    {n : Str} {tv : Val} (hG : Good ev s n tv) (hls : lookup (.str n) s.data = some (.leaf (.str a.2.name)))
    (hmin : ∀ a' ∈ st.exprs, ∀ n' tv', Good ev s n' tv' → lookup (.str n') s.data = some (.leaf (.str a'.2.name)) →
      ¬ rank n' < rank n) :
    findRefs a.2.expression ≠ [] ∧
    ∀ r ∈ findRefs a.2.expression, ∃ w tw, r = '$' :: w ∧ ordS st w tw := by
  obtain ⟨e0, he0, hnm, σ0, hσ0, _, hT, hrefs⟩ := I.good_entry A ha hG hls
  obtain ⟨hr0, hwf0, _, _⟩ := st_wf A he0
  have hwf := Segs.wf_fill hσ0 hwf0
  have hfr : findRefs a.2.expression = refsOf (fill σ0 (toSegs e0.2.expression).ps) := by
    rw [hT, findRefs_render _ hwf]; rfl
  refine ⟨by rw [hfr]; exact hrefs, ?_⟩
  intro r hr
  have hr0' : r ∈ findRefs e0.2.expression := by
    rw [hfr, refsOf_fill, List.mem_filter] at hr
    rw [← hr0, findRefs_render _ hwf0]; exact hr.1
  have hisref : IsRef r := by
    rw [← hr0, findRefs_render _ hwf0] at hr0'
    simp only [Segs.wf, Bool.and_eq_true] at hwf0
    exact refsOf_isRef _ hwf0.2 _ hr0'
  obtain ⟨w, rfl, _, hww⟩ := hisref
  obtain ⟨tw, hGw⟩ := good_children A hG he0 (hnm ▸ hls) _ hr0'
  rw [refName_ref hww] at hGw
  -- the rank of `w` is below the rank of `n`
  have hlt : rank w < rank n := by
    have hmem := lookup_mem (hnm ▸ hls)
    simp only [rankOk, List.all_eq_true] at hrank
    have := hrank _ hmem
    simp only [exprOf_of_mem A he0, List.all_eq_true, decide_eq_true_eq] at this
    have := this _ hr0'
    rwa [refName_ref hww] at this
  refine ⟨w, tw, rfl, ?_⟩
  obtain ⟨vw, hlw, hcase⟩ := hGw.unfold
  rcases hcase with ⟨hnone, rfl⟩ | ⟨ex, hex, _⟩
  · exact I.ord_val A hlw hnone
  · obtain ⟨ew, hew, rfl, _⟩ := exprOf_some hex
    rcases I.good w tw hGw ew hew hlw with hset | ⟨σ, _, _, hmem, _⟩
    · exact hset
    · exact absurd hlt (hmin _ hmem w tw hGw hlw)

end

/-- no entry of a good name is pending -/
def NoGP (ev : Str → EvalResult) (s : SD) (st : ExprSt) : Prop := ∀ a ∈ st.exprs, ¬ GoodPh ev s a.2.name

/-- an entry of a good name of least rank -/
theorem exists_min_good {ev : Str → EvalResult} {s : SD} {st : ExprSt} (rank : Str → Nat) (h : ¬ NoGP ev s st) :
    ∃ a ∈ st.exprs, ∃ n tv, Good ev s n tv ∧ lookup (.str n) s.data = some (.leaf (.str a.2.name)) ∧
      ∀ a' ∈ st.exprs, ∀ n' tv', Good ev s n' tv' → lookup (.str n') s.data = some (.leaf (.str a'.2.name)) →
        ¬ rank n' < rank n := by
  have hex : ∃ k, ∃ a ∈ st.exprs, ∃ n tv, Good ev s n tv ∧ lookup (.str n) s.data = some (.leaf (.str a.2.name)) ∧
      rank n = k := by
    apply Classical.byContradiction
    intro hne
    apply h
    intro a ha ⟨n, tv, hG, hl⟩
    exact hne ⟨rank n, a, ha, n, tv, hG, hl, rfl⟩
  obtain ⟨k, ⟨a, ha, n, tv, hG, hl, hk⟩, hmin⟩ := exists_min _ hex
  refine ⟨a, ha, n, tv, hG, hl, ?_⟩
  intro a' ha' n' tv' hG' hl' hlt
  exact hmin (rank n') (hk ▸ hlt) ⟨a', ha', n', tv', hG', hl', rfl⟩

section
variable {ev : Str → EvalResult} {s : SD} (A : AcyclicFlat' s)
include A

/-- **(3b)** while the entry of a good name is pending, the number of unresolved references decreases -/
theorem progress_notRes (rank : Str → Nat) (hrank : rankOk rank s = true) {st st1 : ExprSt}
    (I : Inv ev s st) (I1 : Inv ev s st1) {R R1 : List (Str × Val)} {nr nr1 : Nat}
    (hres : resolveAll st.exprs st.data = .ok (R, nr)) (hres1 : resolveAll st1.exprs st1.data = .ok (R1, nr1))
    (hfrom : ∀ a ∈ st1.exprs, FromEntry R st a) (hgp : ¬ NoGP ev s st1) : nr1 < nr := by
  obtain ⟨_, hun, hnr⟩ := I.resolved A hres
  obtain ⟨_, _, hnr1⟩ := I1.resolved A hres1
  obtain ⟨g, hg, n, tv, hG, hl, hmin⟩ := exists_min_good rank hgp
  obtain ⟨hne, hsettled⟩ := I1.min_settled A rank hrank hg hG hl hmin
  -- a reference of `g`
  obtain ⟨u, hu⟩ : ∃ u, u ∈ findRefs g.2.expression := by
    cases hx : findRefs g.2.expression with
    | nil => exact absurd hx hne
    | cons u _ => exact ⟨u, List.mem_cons_self⟩
  obtain ⟨w, tw, rfl, ho⟩ := hsettled u hu
  have hres_u : isRes (varsEs st1.exprs st1.data []) ('$' :: w) = true := I1.settled_res A ho
  -- membership before the pass
  have hback : ∀ a ∈ st1.exprs, ∀ x ∈ findRefs a.2.expression,
      x ∈ (pendRefs st.exprs).filter fun r => !isRes (varsEs st.exprs st.data []) r := by
    intro a ha x hx
    obtain ⟨b, hb, _, _, hrefs⟩ := hfrom a ha
    rw [hrefs, List.mem_filter] at hx
    have hp : x ∈ pendRefs st.exprs := mem_pendRefs.mpr ⟨b, hb, hx.1⟩
    rw [List.mem_filter]
    exact ⟨hp, by rw [← hun x hp]; exact hx.2⟩
  rw [hnr, hnr1]
  apply nodup_subset_length_lt' _ _ ('$' :: w)
  · exact (pendRefs_nodup _).filter _
  · intro x hx
    rw [List.mem_filter] at hx
    obtain ⟨a, ha, hxa⟩ := mem_pendRefs.mp hx.1
    exact hback a ha x hxa
  · exact hback g hg _ hu
  · intro hm
    rw [List.mem_filter, hres_u] at hm
    cases hm.2

/-- **(3c)** while the entry of a good name is pending, a pass shortens the table -/
theorem progress_length (rank : Str → Nat) (hrank : rankOk rank s = true) {st st1 : ExprSt}
    (I : Inv ev s st) (I1 : Inv ev s st1) {R : List (Str × Val)} {nr : Nat}
    (hres : resolveAll st.exprs st.data = .ok (R, nr))
    (hfrom : ∀ a ∈ st1.exprs, FromEntry R st a)
    (hready : ∀ b ∈ st.exprs, Ready ev s R b → ∀ a ∈ st1.exprs, a.1 ≠ b.1)
    (hgp : ¬ NoGP ev s st1) : st1.exprs.length < st.exprs.length := by
  obtain ⟨_, hun, _⟩ := I.resolved A hres
  have hgp0 : ¬ NoGP ev s st := by
    intro h0
    apply hgp
    intro a ha hgood
    obtain ⟨b, hb, _, hnm, _⟩ := hfrom a ha
    exact h0 b hb (hnm ▸ hgood)
  obtain ⟨m, hm, n, tv, hG, hl, hmin⟩ := exists_min_good rank hgp0
  obtain ⟨_, hsettled⟩ := I.min_settled A rank hrank hm hG hl hmin
  have hrd : Ready ev s R m := by
    refine ⟨⟨n, tv, hG, hl⟩, ?_⟩
    intro r hr
    obtain ⟨w, tw, rfl, ho⟩ := hsettled r hr
    have hp : ('$' :: w) ∈ pendRefs st.exprs := mem_pendRefs.mpr ⟨m, hm, hr⟩
    have h1 := hun _ hp
    rw [I.settled_res A ho] at h1
    simp only [unresIn, Bool.not_true] at h1
    cases hx : R.find? (fun p => p.1 == '$' :: w) with
    | none => rw [hx] at h1; cases h1
    | some _ => rfl
  have hgone := hready m hm hrd
  have := nodup_subset_length_lt' (st1.exprs.map (·.1)) (st.exprs.map (·.1)) m.1 I1.ids_nodup
    (fun x hx => by
      obtain ⟨a, ha, rfl⟩ := List.mem_map.mp hx
      obtain ⟨b, hb, hid, _, _⟩ := hfrom a ha
      exact List.mem_map.mpr ⟨b, hb, hid⟩)
    (List.mem_map.mpr ⟨m, hm, rfl⟩)
    (fun hx => by
      obtain ⟨a, ha, hid⟩ := List.mem_map.mp hx
      exact hgone a ha hid)
  simpa using this

/-- **(3)** the loop keeps the invariant and ends with no entry of a good name pending, if it has one pass of fuel
    for every entry -/
theorem loop_inv (E : EvOK ev) (rank : Str → Nat) (hrank : rankOk rank s = true) :
    ∀ (f : Nat) (st st' : ExprSt) (R : List (Str × Val)) (nr : Nat), Inv ev s st →
      resolveAll st.exprs st.data = .ok (R, nr) → evalExpressions.loop ev f st R nr = .ok st' →
      Inv ev s st' ∧ ((NoGP ev s st ∨ st.exprs.length < f) → NoGP ev s st')
  | 0, st, st', R, nr, I, _, h => by
    rw [evalExpressions.loop.eq_1] at h
    cases h
    refine ⟨I, fun hc => ?_⟩
    rcases hc with h | h
    · exact h
    · cases h
  | f + 1, st, st', R, nr, I, hres, h => by
    rw [evalExpressions.loop.eq_2] at h
    simp only [bind, Except.bind] at h
    cases hp : evalPass ev R st with
    | error x => rw [hp] at h; cases h
    | ok st1 =>
      rw [hp] at h
      simp only at h
      cases hres1 : resolveAll st1.exprs st1.data with
      | error x => rw [hres1] at h; cases h
      | ok p =>
        obtain ⟨R1, nr1⟩ := p
        rw [hres1] at h
        simp only at h
        obtain ⟨hRs, _, _⟩ := I.resolved A hres
        obtain ⟨I1, hfrom, hready⟩ := evalPass_inv A E hRs I hp
        have hkeep : NoGP ev s st → NoGP ev s st1 := by
          intro h0 a ha hgood
          obtain ⟨b, hb, _, hnm, _⟩ := hfrom a ha
          exact h0 b hb (hnm ▸ hgood)
        split at h
        · rename_i hlt
          obtain ⟨I', himp⟩ := loop_inv E rank hrank f st1 st' R1 nr1 I1 hres1 h
          refine ⟨I', fun hc => himp ?_⟩
          rcases hc with h0 | hlen
          · exact Or.inl (hkeep h0)
          · by_cases hg1 : NoGP ev s st1
            · exact Or.inl hg1
            · right
              have := progress_length A rank hrank I I1 hres hfrom hready hg1
              omega
        · rename_i hnlt
          simp only [pure, Except.pure, Except.ok.injEq] at h
          subst h
          refine ⟨I1, fun _ => ?_⟩
          apply Classical.byContradiction
          intro hg1
          exact hnlt (progress_notRes A rank hrank I I1 hres hres1 hfrom hg1)

end

/-- the invariant holds when the loop is entered -/
theorem Inv.init {ev : Str → EvalResult} {s : SD} (A : AcyclicFlat' s) : Inv ev s ⟨s.data, s.exprs⟩ where
  keys_eq := rfl
  ids_nodup := A.base.ids_nodup
  ex := by
    intro e he
    obtain ⟨hr, _, _, _⟩ := st_wf A he
    refine ⟨e, he, rfl, rfl, fun _ => none, (fun _ _ h => by cases h), ?_⟩
    simp only [Segs.fill, fill_none]
    exact hr.symm
  vals := by
    intro k v hl
    have hmem := lookup_mem hl
    cases hex : exprOf s v with
    | none =>
      left
      have hu := A.base.plain_usable _ hmem hex
      have hleaf := (A.base.flat _ hmem).2
      cases v with
      | leaf x =>
        have ht : noD (pyStrScalar x) = true := by
          have := A.vals_text _ hmem
          simpa [valText, hex] using this
        simp only [okVal, okScalar, Bool.and_eq_true]
        exact ⟨hu, ht⟩
      | dict _ => cases hleaf
      | list _ => cases hleaf
    | some ex =>
      right
      obtain ⟨e0, he0, rfl, _⟩ := exprOf_some hex
      exact ⟨e0, he0, rfl⟩
  ord_keep := fun _ _ h _ => h
  pend_keep := fun _ _ _ h => h
  good := by
    intro n tv _ e0 he0 _
    right
    obtain ⟨hr, _, hrefs, _⟩ := st_wf A he0
    refine ⟨fun _ => none, (fun _ _ h => by cases h), (fun _ _ h => by cases h), ?_, ?_⟩
    · simp only [Segs.fill, fill_none]
      have : (toSegs e0.2.expression).render = e0.2.expression := hr
      have h2 : ({ lit0 := (toSegs e0.2.expression).lit0, ps := (toSegs e0.2.expression).ps } : Segs).render
          = e0.2.expression := hr
      rw [h2]
      exact he0
    · rw [fill_none]; exact hrefs

theorem updV_leaf (ph : Str) {v v' : Val} (h : v.isLeaf = true) (h' : v'.isLeaf = true) : (updV ph v' v).isLeaf = true := by
  cases v with
  | leaf y =>
    cases y with
    | str t => simp only [updV]; split <;> assumption
    | int _ => exact h
    | float _ => exact h
    | bool _ => exact h
    | none => exact h
  | dict _ => cases h
  | list _ => cases h

/-- what is left at the end is written back as text: settled values are not touched -/
theorem final_fold {ev : Str → EvalResult} {s : SD} (A : AcyclicFlat' s) {st : ExprSt} (I : Inv ev s st) :
    ∀ (L : List (Nat × ExprEntry)) (d d' : Entries), (∀ e ∈ L, e ∈ st.exprs) → (∀ x ∈ d, x.2.isLeaf = true) →
      L.foldlM (fun d e => substLeafEs e.2.name (.str e.2.expression) 1 d) d = .ok d' →
      keys d' = keys d ∧ ∀ k tv, lookup k d = some tv → okVal tv = true → lookup k d' = some tv
  | [], d, d', _, _, h => by
    simp only [List.foldlM_nil, pure, Except.pure, Except.ok.injEq] at h
    subst h
    exact ⟨rfl, fun _ _ h _ => h⟩
  | e :: L, d, d', hL, hflat, h => by
    rw [List.foldlM_cons] at h
    simp only [substLeafEs_flat _ _ _ hflat, bind, Except.bind] at h
    have he := hL e List.mem_cons_self
    have hflat' : ∀ x ∈ updEs e.2.name (.leaf (.str e.2.expression)) d, x.2.isLeaf = true := by
      intro x hx
      obtain ⟨v, hv, hx2⟩ := mem_updEs hx
      have := hflat _ hv
      rw [hx2]
      exact updV_leaf _ this rfl
    obtain ⟨ih1, ih2⟩ := final_fold A I L _ d' (fun e' he' => hL e' (List.mem_cons_of_mem _ he')) hflat' h
    refine ⟨by rw [ih1, keys_updEs], ?_⟩
    intro k tv hl hok
    apply ih2 k tv _ hok
    rw [lookup_updEs, hl, Option.map_some, I.upd_ok A he _ tv hok]

/-- **(f)** completeness on acyclic reference graphs, with the hypotheses the model needs -/
theorem C05_complete_acyclic' (ev : Str → EvalResult) (s s' : SD) (E : EvOK ev) (A : AcyclicFlat' s)
    (h : evalExpressions ev s = .ok s') :
    s'.exprs = [] ∧ keys s'.data = keys s.data ∧
    ∀ name v, topoVal ev s (s.data.length + 1) name = some v → lookup (.str name) s'.data = some v := by
  refine ⟨evalExpressions_exprs_nil ev s s' h, ?_⟩
  obtain ⟨rank, hrank⟩ := A.base.acyclic
  rw [evalExpressions.eq_1] at h
  simp only [bind, Except.bind] at h
  cases hres : resolveAll s.exprs s.data with
  | error x => rw [hres] at h; cases h
  | ok p =>
    obtain ⟨R, nr⟩ := p
    rw [hres] at h
    simp only at h
    cases hloop : evalExpressions.loop ev (s.exprs.length + 2) ⟨s.data, s.exprs⟩ R nr with
    | error x => rw [hloop] at h; cases h
    | ok st =>
      rw [hloop] at h
      simp only at h
      cases hfin : st.exprs.foldlM (fun d e => substLeafEs e.2.name (.str e.2.expression) 1 d) st.data with
      | error x => rw [hfin] at h; cases h
      | ok d =>
        rw [hfin] at h
        simp only [pure, Except.pure, Except.ok.injEq] at h
        subst h
        have I0 : Inv ev s ⟨s.data, s.exprs⟩ := Inv.init A
        obtain ⟨I, hno⟩ := loop_inv A E rank hrank _ _ st R nr I0 hres hloop
        have hnoGP : NoGP ev s st := hno (Or.inr (by simp only; omega))
        obtain ⟨hk, hkeep⟩ := final_fold A I st.exprs st.data d (fun e he => he)
          (fun x hx => ((I.flat A).2 x hx).2) hfin
        refine ⟨by simp only; rw [hk, I.keys_eq], ?_⟩
        intro name v hv
        have hG : Good ev s name v := hv
        simp only
        obtain ⟨vs, hls, hcase⟩ := hG.unfold
        rcases hcase with ⟨hnone, rfl⟩ | ⟨ex, hex, _⟩
        · obtain ⟨hl, hok⟩ := I.ord_val A hls hnone
          exact hkeep _ _ hl hok
        · obtain ⟨e0, he0, rfl, _⟩ := exprOf_some hex
          rcases I.good name v hG e0 he0 hls with ⟨hl, hok⟩ | ⟨σ, _, _, hmem, _⟩
          · exact hkeep _ _ hl hok
          · exact absurd ⟨name, v, hG, hls⟩ (hnoGP _ hmem)

/-! ## the integer evaluator satisfies `EvOK` -/

theorem evalInt_cases (t : Str) : (∃ z, evalInt t = .value (.leaf (.int z))) ∨ evalInt t = .unsupported := by
  unfold evalInt
  split
  · exact Or.inr rfl
  · exact Or.inr rfl
  · split
    · rename_i v _; exact Or.inl ⟨v, rfl⟩
    · exact Or.inr rfl

theorem natDigits_noD (n : Nat) : '$' ∉ natDigits n := by
  intro h
  have := C04.natDigits_ascii n _ h
  revert this
  unfold C04.IsAsciiDigit
  decide

theorem intRepr_noD (z : Int) : '$' ∉ intRepr z := by
  cases z with
  | ofNat n => exact natDigits_noD n
  | negSucc n =>
    simp only [intRepr, List.mem_cons, not_or]
    exact ⟨by decide, natDigits_noD _⟩

theorem evOK_evalInt : EvOK evalInt where
  value_ok := by
    intro t x h
    rcases evalInt_cases t with ⟨z, hz⟩ | hu
    · rw [hz] at h
      cases h
      simp only [okScalar, usable, anyStrLeafV, pyStrScalar, Bool.not_false, Bool.true_and]
      exact noD_iff.mpr (intRepr_noD z)
    · rw [hu] at h; cases h
  name_ok := by
    intro t h
    rcases evalInt_cases t with ⟨z, hz⟩ | hu
    · rw [hz] at h; cases h
    · rw [hu] at h; cases h

/-- **(f)** for the integer evaluator -/
theorem C05_complete_acyclic_evalInt (s s' : SD) (A : AcyclicFlat' s) (h : evalExpressions evalInt s = .ok s') :
    s'.exprs = [] ∧ keys s'.data = keys s.data ∧
    ∀ name v, topoVal evalInt s (s.data.length + 1) name = some v → lookup (.str name) s'.data = some v :=
  C05_complete_acyclic' evalInt s s' evOK_evalInt A h

/-- the example of C05.lean satisfies the corrected hypotheses -/
theorem exSD_acyclicFlat' : AcyclicFlat' exSD :=
  AcyclicFlat'.of_checks exSD_acyclicFlat (by decide +kernel)

/-! ## the statement of C05.lean is false as it stands: counterexamples, one for every added hypothesis -/

/-- the model's answer differs from the specification at some name -/
def refutes (ev : Str → EvalResult) (s : SD) : Bool :=
  match evalExpressions ev s with
  | .ok s' => s.data.any fun d =>
      match d.1 with
      | .str n => (match topoVal ev s (s.data.length + 1) n with
        | some v => !(lookup (.str n) s'.data == some v)
        | none => false)
      | .int _ => false
  | .error _ => false

theorem not_statement_of_refutes (ev : Str → EvalResult) (s : SD) (hA : AcyclicFlat s) (hr : refutes ev s = true) :
    ¬ C05_complete_acyclic_statement := by
  intro hst
  unfold refutes at hr
  split at hr
  · rename_i s' hs'
    obtain ⟨_, _, h3⟩ := hst ev s s' hA hs'
    simp only [List.any_eq_true] at hr
    obtain ⟨d, _, hd2⟩ := hr
    split at hd2
    · rename_i n _
      split at hd2
      · rename_i v hv
        have := h3 n v hv
        simp [this] at hd2
      · cases hd2
    · cases hd2
  · cases hr

def mkSD (d : List (String × Val)) (ex : List (Nat × String)) : SD :=
  { data := d.map fun (k, v) => (.str k.toList, v), exprs := ex.map fun (i, e) => (i, ⟨e.toList, phOf i⟩) }

def vP (i : Nat) : Val := .leaf (.str (phOf i))
def vI (z : Int) : Val := .leaf (.int z)
def vS (x : String) : Val := .leaf (.str x.toList)

def rankOf (order : List String) (n : Str) : Nat := (order.map String.toList).idxOf n

/-- ids 100000 and 1000000: the placeholder of the first is a part of the placeholder of the second -/
def ce1 : SD := mkSD [("z", vI 1), ("y", vI 2), ("a", vP 100000), ("b", vP 1000000)] [(100000, "$z"), (1000000, "$y")]

theorem ce1_facts : AcyclicFlat ce1 ∧ newHyps ce1 = [false, true, true, true, true] ∧ refutes evalInt ce1 = true :=
  ⟨⟨by decide +kernel, by decide +kernel, by decide +kernel, by decide +kernel, by decide +kernel, by decide +kernel,
    by decide +kernel, ⟨rankOf ["z", "y", "a", "b"], by decide +kernel⟩⟩, by decide +kernel, by decide +kernel⟩

theorem C05_complete_acyclic_statement_false_without_ids_small : ¬ C05_complete_acyclic_statement :=
  not_statement_of_refutes _ _ ce1_facts.1 ce1_facts.2.2

open Lean in
/-- `AcyclicFlat` of a concrete dictionary, by evaluation; the argument is the rank function -/
macro "acyclicFlat_by" r:term : term =>
  `(⟨by decide +kernel, by decide +kernel, by decide +kernel, by decide +kernel, by decide +kernel, by decide +kernel,
     by decide +kernel, ⟨$r, by decide +kernel⟩⟩)

/-- a name that is a comment placeholder and holds its own name is no variable -/
def ce2 : SD := mkSD [("LINECOMMENT000000", vS "LINECOMMENT000000"), ("x", vP 0)] [(0, "$LINECOMMENT000000")]

theorem ce2_facts : AcyclicFlat ce2 ∧ newHyps ce2 = [true, true, false, true, true] ∧ refutes evalInt ce2 = true :=
  ⟨acyclicFlat_by (rankOf ["LINECOMMENT000000", "x"]), by decide +kernel, by decide +kernel⟩

theorem C05_complete_acyclic_statement_false_without_no_ph_keys : ¬ C05_complete_acyclic_statement :=
  not_statement_of_refutes _ _ ce2_facts.1 ce2_facts.2.2

/-- a pending expression without `$`: a reference to it takes its *text* -/
def ce3 : SD := mkSD [("a", vP 0), ("x", vP 1)] [(0, "1 + 1"), (1, "$a * 2")]

theorem ce3_facts : AcyclicFlat ce3 ∧ newHyps ce3 = [true, true, true, true, false] ∧ refutes evalInt ce3 = true :=
  ⟨acyclicFlat_by (rankOf ["a", "x"]), by decide +kernel, by decide +kernel⟩

theorem C05_complete_acyclic_statement_false_without_a_reference : ¬ C05_complete_acyclic_statement :=
  not_statement_of_refutes _ _ ce3_facts.1 ce3_facts.2.2

/-- a name that is not a word: the text `$a + 1` of a pending expression is looked up as the name `a + 1` -/
def ce4 : SD := mkSD [("a", vI 1), ("a + 1", vI 7), ("b", vP 0), ("c", vP 1)] [(0, "$a + 1"), (1, "$b * 2")]

theorem ce4_facts : AcyclicFlat ce4 ∧ newHyps ce4 = [true, false, true, true, true] ∧ refutes evalInt ce4 = true :=
  ⟨acyclicFlat_by (rankOf ["a", "a + 1", "b", "c"]), by decide +kernel, by decide +kernel⟩

theorem C05_complete_acyclic_statement_false_without_keys_words : ¬ C05_complete_acyclic_statement :=
  not_statement_of_refutes _ _ ce4_facts.1 ce4_facts.2.2

/-- adjacent references: `$a$b` with `b` resolved first becomes `$a2` -/
def ce5 : SD := mkSD [("c", vI 1), ("a", vP 0), ("b", vI 2), ("x", vP 1)] [(0, "$c + 0"), (1, "$a$b")]

theorem ce5_facts : AcyclicFlat ce5 ∧ newHyps ce5 = [true, true, true, true, false] ∧ refutes evalInt ce5 = true :=
  ⟨acyclicFlat_by (rankOf ["c", "b", "a", "x"]), by decide +kernel, by decide +kernel⟩

theorem C05_complete_acyclic_statement_false_without_separated_references : ¬ C05_complete_acyclic_statement :=
  not_statement_of_refutes _ _ ce5_facts.1 ce5_facts.2.2

/-- a `$` that begins no reference: `$$a` becomes `$1`, a new unresolved reference, and the loop stops early -/
def ce6 : SD := mkSD [("a", vI 1), ("x", vP 0), ("b", vP 1), ("y", vP 2)] [(0, "$$a"), (1, "$a + 1"), (2, "$b + 1")]

theorem ce6_facts : AcyclicFlat ce6 ∧ newHyps ce6 = [true, true, true, true, false] ∧ refutes evalInt ce6 = true :=
  ⟨acyclicFlat_by (rankOf ["a", "x", "b", "y"]), by decide +kernel, by decide +kernel⟩

theorem C05_complete_acyclic_statement_false_without_dollar_in_references : ¬ C05_complete_acyclic_statement :=
  not_statement_of_refutes _ _ ce6_facts.1 ce6_facts.2.2

/-- a float whose lexeme carries `$` (`usable` looks at strings only): the same effect -/
def ce7 : SD := mkSD [("a", .leaf (.float "$q".toList)), ("x", vP 0), ("c", vI 1), ("b", vP 1), ("y", vP 2)]
  [(0, "$a + 1"), (1, "$c + 1"), (2, "$b + 1")]

theorem ce7_facts : AcyclicFlat ce7 ∧ newHyps ce7 = [true, true, true, false, true] ∧ refutes evalInt ce7 = true :=
  ⟨acyclicFlat_by (rankOf ["a", "c", "x", "b", "y"]), by decide +kernel, by decide +kernel⟩

theorem C05_complete_acyclic_statement_false_without_vals_text : ¬ C05_complete_acyclic_statement :=
  not_statement_of_refutes _ _ ce7_facts.1 ce7_facts.2.2

/-- blank chunks: `"$a $b"` with `a = ''` becomes ` $b`, which the loop then takes for a plain reference -/
def ev8 (t : Str) : EvalResult :=
  if t = "1+0".toList then .value (.leaf (.str "hello".toList)) else if t = " hello".toList then .nameError else evalInt t

def ce8 : SD := mkSD [("a", vS ""), ("c", vI 1), ("b", vP 0), ("x", vP 1)] [(0, "$c+0"), (1, "$a $b")]

theorem evOK_ev8 : EvOK ev8 where
  value_ok := by
    intro t x h
    unfold ev8 at h
    split at h
    · cases h; decide +kernel
    · split at h
      · cases h
      · exact evOK_evalInt.value_ok t x h
  name_ok := by
    intro t h
    unfold ev8 at h
    split at h
    · cases h
    · split at h
      · rename_i ht; subst ht; decide +kernel
      · exact evOK_evalInt.name_ok t h

theorem ce8_facts : AcyclicFlat ce8 ∧ newHyps ce8 = [true, true, true, true, false] ∧ refutes ev8 ce8 = true :=
  ⟨acyclicFlat_by (rankOf ["a", "c", "b", "x"]), by decide +kernel, by decide +kernel⟩

theorem C05_complete_acyclic_statement_false_without_nonblank_chunk : ¬ C05_complete_acyclic_statement :=
  not_statement_of_refutes _ _ ce8_facts.1 ce8_facts.2.2

/-- an evaluator that answers a placeholder word: the value is overwritten by a later substitution -/
def ev9 (t : Str) : EvalResult :=
  if t = "7 + 0".toList then .value (.leaf (.str (phOf 1))) else evalInt t

def ce9 : SD := mkSD [("z", vI 7), ("a", vP 0), ("b", vP 1)] [(0, "$z + 0"), (1, "$z + 1")]

theorem ce9_facts : AcyclicFlat' ce9 ∧ ¬ EvOK ev9 ∧ refutes ev9 ce9 = true := by
  refine ⟨AcyclicFlat'.of_checks (acyclicFlat_by (rankOf ["z", "a", "b"])) (by decide +kernel), ?_, by decide +kernel⟩
  intro h
  have := h.value_ok "7 + 0".toList (.str (phOf 1)) (if_pos rfl)
  revert this
  decide +kernel

theorem C05_complete_acyclic_statement_false_without_ev_value_ok : ¬ C05_complete_acyclic_statement :=
  not_statement_of_refutes _ _ ce9_facts.1.base ce9_facts.2.2

/-- an evaluator that answers a string with `$`: the reference to it is never resolved -/
def ev10 (t : Str) : EvalResult :=
  if t = "7 + 0".toList then .value (.leaf (.str "$q".toList))
  else if t = "$q + 1".toList then .value (.leaf (.int 5)) else evalInt t

def ce10 : SD := mkSD [("z", vI 7), ("a", vP 0), ("b", vP 1)] [(0, "$z + 0"), (1, "$a + 1")]

theorem ce10_facts : AcyclicFlat' ce10 ∧ ¬ EvOK ev10 ∧ refutes ev10 ce10 = true := by
  refine ⟨AcyclicFlat'.of_checks (acyclicFlat_by (rankOf ["z", "a", "b"])) (by decide +kernel), ?_, by decide +kernel⟩
  intro h
  have := h.value_ok "7 + 0".toList (.str "$q".toList) (if_pos rfl)
  revert this
  decide +kernel

theorem C05_complete_acyclic_statement_false_without_ev_value_ok_dollar : ¬ C05_complete_acyclic_statement :=
  not_statement_of_refutes _ _ ce10_facts.1.base ce10_facts.2.2

/-- a `NameError` on a text with a placeholder word: the text is the value, and is overwritten -/
def ev11 (t : Str) : EvalResult :=
  if t = "EXPRESSION000001 + 7".toList then .nameError else evalInt t

def ce11 : SD := mkSD [("z", vI 7), ("a", vP 0), ("b", vP 1)] [(0, "EXPRESSION000001 + $z"), (1, "$z + 1")]

theorem ce11_facts : AcyclicFlat' ce11 ∧ ¬ EvOK ev11 ∧ refutes ev11 ce11 = true := by
  refine ⟨AcyclicFlat'.of_checks (acyclicFlat_by (rankOf ["z", "a", "b"])) (by decide +kernel), ?_, by decide +kernel⟩
  intro h
  have := h.name_ok "EXPRESSION000001 + 7".toList (if_pos rfl)
  revert this
  decide +kernel

theorem C05_complete_acyclic_statement_false_without_ev_name_ok : ¬ C05_complete_acyclic_statement :=
  not_statement_of_refutes _ _ ce11_facts.1.base ce11_facts.2.2

end DictIO.C05
