/-
  C09 -- the regular expressions of the library functions this property's model was written against, pinned against the
  table regenerated from the sources on every run (Generated/Regex.lean, harness/extract_regex.py).  A changed pattern
  breaks the `rfl` below: the hand-written recogniser of the model is then no longer justified, and the check searches
  for a failing input.  GENERATED ONCE by tools/mkrepins.py; committed.
-/
import DictIO.Generated.Regex

namespace DictIO.C09.Re
open DictIO.Gen

theorem re_parser_JsonParser__extract_includes :
    regexesOf "parser.py" "JsonParser._extract_includes" = ["search:^\\s*#\\s*include"] := rfl

theorem re_parser_JsonParser__extract_expression :
    regexesOf "parser.py" "JsonParser._extract_expression" = ["findall:search_pattern=[\\$\\w[\\w\\[\\]]* | ^\\s*(\\$\\w[\\w\\[\\]]*){1}\\s*$]", "search:search_pattern=[\\$\\w[\\w\\[\\]]* | ^\\s*(\\$\\w[\\w\\[\\]]*){1}\\s*$]"] := rfl

theorem re_parser_JsonParser__replace_and_register_expression :
    regexesOf "parser.py" "JsonParser._replace_and_register_expression" = ["compile:{re.escape(expression)}", "sub:_pattern=[{re.escape(expression)}]"] := rfl

theorem re_formatter_JsonFormatter_insert_includes :
    regexesOf "formatter.py" "JsonFormatter.insert_includes" = ["sub:search_pattern=[\"INCLUDE{key:06d}\"\\s*:\\s*\"INCLUDE{key:06d}\"]"] := rfl

theorem re_dict__value_contains_circular_reference :
    regexesOf "dict.py" "_value_contains_circular_reference" = ["fullmatch:(BLOCKCOMMENT|INCLUDE|LINECOMMENT)\\d{6}", "search:\\${re.escape(key)}(?!\\w)"] := rfl

theorem re_dict__insert_expression :
    regexesOf "dict.py" "_insert_expression" = ["search:EXPRESSION\\d{6}", "search:\\d{6}"] := rfl

end DictIO.C09.Re
