/-
  C15 -- Ordering sorts keys at every dict level and changes nothing else.
  Model: `orderV`/`orderD` (`utils/dict.py:order_keys`), `SD.order` (`SDict.order_keys`).
  Property theorems only; helper lemmas live in `Lemmas/`.
-/
import DictIO.Lemmas.Order
import DictIO.Lemmas.Assoc

namespace DictIO.C15
open DictIO

/-! #### specification vocabulary -/

mutual
  /-- "same key → value association at every level": dicts are compared as maps, recursively;
      lists (and the dicts inside lists) must be *identical*, order included -/
  def SameAssoc : Val → Val → Prop
    | .leaf x, w => w = .leaf x
    | .list xs, w => w = .list xs
    | .dict es, .dict fs => (keys fs).Perm (keys es) ∧ SameAssocEs es fs
    | .dict _, _ => False
  /-- every entry on the left has an entry with the same key and an associated value on the right -/
  def SameAssocEs : Entries → Entries → Prop
    | [], _ => True
    | (k, v) :: es, fs => (∃ w, lookup k fs = some w ∧ SameAssoc v w) ∧ SameAssocEs es fs
end

mutual
  /-- keys ascending, ints before strs, at every dict level reachable through dict nesting -/
  def SortedV : Val → Prop
    | .dict es => SortedK es ∧ SortedEs es
    | _ => True
  def SortedEs : Entries → Prop
    | [] => True
    | (_, v) :: es => SortedV v ∧ SortedEs es
end

/-! #### helper facts about `orderEs` (one dict level) -/

theorem keys_orderEs : ∀ es : Entries, keys (orderEs es) = keys es
  | [] => rfl
  | (k, v) :: es => by simp [orderEs, keys_orderEs es]

theorem lookup_orderEs (k : Key) : ∀ es : Entries, lookup k (orderEs es) = (lookup k es).map orderV
  | [] => rfl
  | (k', v) :: es => by
    by_cases h : k' = k <;> simp [orderEs, lookup, h, lookup_orderEs k es]

theorem sortedEs_of_forall {es : Entries} (h : ∀ e ∈ es, SortedV e.2) : SortedEs es := by
  induction es with
  | nil => trivial
  | cons e es ih =>
    obtain ⟨k, v⟩ := e
    exact ⟨h (k, v) List.mem_cons_self, ih fun e he => h e (List.mem_cons_of_mem _ he)⟩

theorem forall_of_sortedEs : ∀ {es : Entries}, SortedEs es → ∀ e ∈ es, SortedV e.2
  | [], _, e, he => by simp at he
  | (k, v) :: es, h, e, he => by
    rcases List.mem_cons.mp he with rfl | hm
    · exact h.1
    · exact forall_of_sortedEs h.2 e hm

/-! #### the property -/

/-- (1) the ordered dict has the same key → value association, at this level … -/
theorem order_lookup (es : Entries) (hn : (keys es).Nodup) (k : Key) :
    lookup k (orderD es) = (lookup k es).map orderV := by
  unfold orderD
  rw [lookup_perm (sortBy_perm (orderEs es)).symm (by rw [keys_orderEs]; exact hn) k, lookup_orderEs]

/-- … and the key set is the same (nothing added, nothing lost, nothing duplicated) -/
theorem order_keys_perm (es : Entries) : (keys (orderD es)).Perm (keys es) := by
  unfold orderD
  have := (sortBy_perm (le := Key.le) (orderEs es)).map (·.1)
  rw [show List.map (·.1) (orderEs es) = keys es from keys_orderEs es] at this
  exact this

mutual
  /-- (1') … and at every level below: ordering preserves the association recursively -/
  theorem order_sameAssoc : ∀ v : Val, NodupKeysV v → SameAssoc v (orderV v)
    | .leaf x, _ => by simp [orderV, SameAssoc]
    | .list xs, _ => by simp [orderV, SameAssoc]
    | .dict es, h => by
      simp only [orderV, SameAssoc]
      exact ⟨order_keys_perm es, order_sameAssocEs es es h.1 h.2 (fun _ h => h)⟩
  theorem order_sameAssocEs : ∀ (sub es : Entries), (keys es).Nodup → NodupKeysEs sub →
      (∀ e, e ∈ sub → e ∈ es) → SameAssocEs sub (sortByKey (orderEs es))
    | [], _, _, _, _ => trivial
    | (k, v) :: sub, es, hn, h, hsub => by
      refine ⟨⟨orderV v, ?_, order_sameAssoc v h.1⟩, order_sameAssocEs sub es hn h.2 fun e he => hsub e (List.mem_cons_of_mem _ he)⟩
      have := order_lookup es hn k
      unfold orderD at this
      rw [this, lookup_of_mem_nodup hn (hsub (k, v) List.mem_cons_self)]; rfl
end

mutual
  /-- (2) after ordering, keys ascend (ints before strs, strs by code point) at every dict level -/
  theorem order_sorted : ∀ v : Val, SortedV (orderV v)
    | .leaf _ => by simp [orderV, SortedV]
    | .list _ => by simp [orderV, SortedV]
    | .dict es => by
      simp only [orderV, SortedV]
      refine ⟨sortBy_sorted Key.totalLe _, sortedEs_of_forall ?_⟩
      intro e he
      have he' := (sortBy_perm (orderEs es)).mem_iff.mp he
      exact forall_of_sortedEs (orderEs_sorted es) e he'
  theorem orderEs_sorted : ∀ es : Entries, SortedEs (orderEs es)
    | [] => trivial
    | (_, v) :: es => ⟨order_sorted v, orderEs_sorted es⟩
end

/-- (3) lists, and the dicts inside lists, keep their order: a list is returned unchanged -/
theorem order_lists_untouched (xs : List Val) : orderV (.list xs) = .list xs := rfl

mutual
  /-- (4) idempotence -/
  theorem order_idem : ∀ v : Val, NodupKeysV v → orderV (orderV v) = orderV v
    | .leaf _, _ => rfl
    | .list _, _ => rfl
    | .dict es, h => by
      simp only [orderV]
      have hfix : orderEs (sortByKey (orderEs es)) = sortByKey (orderEs es) :=
        orderEs_fix _ (fun e he => by
          have he' := (sortBy_perm (orderEs es)).mem_iff.mp he
          exact orderEs_idem_mem es h.2 e he')
      rw [hfix]
      congr 1
      apply sortBy_of_sorted Key.totalLe _ (sortBy_sorted Key.totalLe _)
      have := order_keys_perm es
      unfold orderD at this
      exact this.nodup_iff.mpr h.1
  theorem orderEs_idem_mem : ∀ es : Entries, NodupKeysEs es → ∀ e ∈ orderEs es, orderV e.2 = e.2
    | [], _, e, he => by simp [orderEs] at he
    | (k, v) :: es, h, e, he => by
      simp only [orderEs] at he
      rcases List.mem_cons.mp he with rfl | hm
      · exact order_idem v h.1
      · exact orderEs_idem_mem es h.2 e hm
  theorem orderEs_fix : ∀ l : Entries, (∀ e ∈ l, orderV e.2 = e.2) → orderEs l = l
    | [], _ => rfl
    | (k, v) :: es, h => by
      simp only [orderEs]
      rw [h (k, v) List.mem_cons_self, orderEs_fix es fun e he => h e (List.mem_cons_of_mem _ he)]
end

/-- (5) `SDict.order_keys` orders the data and leaves every side table with the same entries, ids ascending -/
theorem order_tables (s : SD) :
    s.order.data = orderD s.data ∧
    (s.order.lineC.Perm s.lineC ∧ SortedBy (fun a b : Nat => decide (a ≤ b)) s.order.lineC) ∧
    (s.order.blockC.Perm s.blockC ∧ SortedBy (fun a b : Nat => decide (a ≤ b)) s.order.blockC) ∧
    (s.order.exprs.Perm s.exprs ∧ SortedBy (fun a b : Nat => decide (a ≤ b)) s.order.exprs) ∧
    (s.order.incl.Perm s.incl ∧ SortedBy (fun a b : Nat => decide (a ≤ b)) s.order.incl) :=
  ⟨rfl, ⟨sortBy_perm _, sortBy_sorted Nat.totalLe _⟩, ⟨sortBy_perm _, sortBy_sorted Nat.totalLe _⟩,
    ⟨sortBy_perm _, sortBy_sorted Nat.totalLe _⟩, ⟨sortBy_perm _, sortBy_sorted Nat.totalLe _⟩⟩

/-! #### non-vacuity -/

example : NodupKeysV (.dict [(.str "b".toList, .leaf (.int 1)), (.int 3, .dict [(.str "z".toList, .leaf .none), (.str "a".toList, .leaf (.bool true))])]) := by
  simp [NodupKeysV, NodupKeysEs, keys]

example : orderV (.dict [(.str "b".toList, .leaf (.int 1)), (.int 3, .dict [(.str "z".toList, .leaf .none), (.str "a".toList, .leaf (.bool true))])])
    = .dict [(.int 3, .dict [(.str "a".toList, .leaf (.bool true)), (.str "z".toList, .leaf .none)]), (.str "b".toList, .leaf (.int 1))] := by
  decide

end DictIO.C15
