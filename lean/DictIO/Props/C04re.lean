/-
  C04 -- the regular expressions of the library functions this property's model was written against, pinned against the
  table regenerated from the sources on every run (Generated/Regex.lean, harness/extract_regex.py).  A changed pattern
  breaks the `rfl` below: the hand-written recogniser of the model is then no longer justified, and the check searches
  for a failing input.  GENERATED ONCE by tools/mkrepins.py; committed.
-/
import DictIO.Generated.Regex

namespace DictIO.C04.Re
open DictIO.Gen

theorem re_parser_Parser_parse_value :
    regexesOf "parser.py" "Parser.parse_value" = ["search:^[+-]?\\d+$", "search:^[+-]?(\\d+(\\.\\d*)?|\\.\\d+)$", "search:^[+-]?(\\d+(\\.\\d*)?|\\.\\d+)([eE][-+]?\\d+)?$", "search:^(true)$", "search:^(false)$", "search:^(on)$", "search:^(off)$", "search:^(none)$", "search:^(null)$"] := rfl

theorem re_parser_Parser_remove_quotes_from_string :
    regexesOf "parser.py" "Parser.remove_quotes_from_string" = ["compile:[\\'\\\"]", "compile:(^['\\\"]{1}|['\\\"]{1}$)", "sub:search_pattern=[[\\'\\\"] | (^['\\\"]{1}|['\\\"]{1}$)]"] := rfl

theorem re_formatter_Formatter_format_string :
    regexesOf "formatter.py" "Formatter.format_string" = ["search:[$]", "search:^\\$\\w[\\w\\[\\]]*$", "search:[\\\"']", "search:[\\s:/\\\\;,{}()<>\\[\\]]|^#(include|$)"] := rfl

theorem re_formatter_NativeFormatter_format_string_with_nested_string :
    regexesOf "formatter.py" "NativeFormatter.format_string_with_nested_string" = ["search:\"", "search:'"] := rfl

theorem re_formatter_FoamFormatter_format_string_with_nested_string :
    regexesOf "formatter.py" "FoamFormatter.format_string_with_nested_string" = ["search:\"", "sub:\"", "search:'"] := rfl

end DictIO.C04.Re
