/-
  C06 (fold) -- the general (nested) case of include merging: `C06_eq_fold_statement` of Props/C06.lean decided.

  VERDICT: `C06_eq_fold_statement` is FALSE in the model (`C06_eq_fold_statement_false`).  Three independent reasons,
  each with a concrete file system evaluated in the kernel:
    * `fsKinds`     a key that is a dict in the including file, a NON-dict in the file it includes and a dict again in
                    the file that one includes: the reader merges bottom-up (`b` into `a`, the result into `main`), the
                    non-dict in the middle shields the outer dict from the inner one; the left fold over the preorder
                    merges the two dicts.  First-wins merge is not associative across a change of kind
                    (`mergeD_assoc_needs_kinds`).  This is behaviour of the library (replayed on the code).
    * `fsSelf`      a self-reference placeholder `k $k` in an include: `_recursive_merge` recognises it with the
                    expression table of the receiving dict (`temp`); the statement folds with the table of the including
                    file only.  An artefact of the statement.
    * `fsComments`  the same comment text inside a dict-valued key of two files (flat graph already): `_clean`, run by
                    `SDict.merge` at every dict level, deletes the second placeholder entry; the bare fold keeps it, and
                    `lookup k` compares whole sub-dicts.  An artefact of the statement.

  CORRECTED THEOREM (`C06_eq_fold_kind_consistent`, general form `C06_eq_fold_inv`, end-to-end `C06_eq_fold_checked`):
  under the decidable hypothesis `kindConsistent parent incs` (unique keys; no self-reference placeholder among the
  ordinary top-level entries; every key path is a dict in all files or a non-dict in all files) the data of the result
  equals the fold of the statement up to placeholder entries — `stripEs r.data = stripEs (fold)`, as ordered dicts —
  and, if moreover no file has a placeholder below its top level (`nestedPhFree`), the conclusion of the statement
  holds verbatim.  For every fuel and chain, cycles and diamonds included; the closure is shown to succeed with the same
  counter whenever the merge does, without any hypothesis.

  Layout: 1 vocabulary (`stripV/stripEs`, `confV/confEs`), 2 `strip` lemmas, 3 `_clean` changes placeholder entries only
  (`clean_strip`), 4 `_recursive_merge` commutes with `strip` (`strip_mergeD`, `merge_strip`), 5 merge algebra
  (`entries_ext`, `confEs_mergeD`, `mergeD_assoc`, `merge_foldl`), 6 self-reference decidably (`safeEntry`,
  `selfRef_of_safe`), 7 the invariant `Inv` and `Inv.merge`, 8 the induction (`step_ok`, `fold_ok`, `recOK`),
  9 the theorems, 10 witnesses and non-vacuity.
-/
import DictIO.Props.C06
import DictIO.Props.C07

namespace DictIO.C06fold
open DictIO DictIO.C07 DictIO.C06

/-! ## 1. vocabulary -/

/-- the plain first-wins merge: `_recursive_merge(target, other)` on builtin dicts (no self-reference exception) -/
local notation "M" => mergeD false []

mutual
  /-- the data without its comment/include placeholder entries, at every dict level (lists are opaque, as for `_clean`) -/
  def stripV : Val → Val
    | .dict es => .dict (stripEs es)
    | .leaf x => .leaf x
    | .list xs => .list xs
  def stripEs : Entries → Entries
    | [] => []
    | (k, v) :: es => if isPhKey k then stripEs es else (k, stripV v) :: stripEs es
end

mutual
  /-- `confV v s`: the value `v` has the kind the schema `s` prescribes — a dict where `s` is a dict (and then every key
      of it is in the schema, recursively), a non-dict where `s` is a non-dict -/
  def confV : Val → Val → Bool
    | .dict d, .dict σ => confEs d σ
    | .dict _, _ => false
    | .leaf _, .dict _ => false
    | .list _, .dict _ => false
    | _, _ => true
  def confEs : Entries → Entries → Bool
    | [], _ => true
    | (k, v) :: d, σ => (match lookup k σ with | some s => confV v s | none => false) && confEs d σ
end

/-! ## 2. `strip` -/

theorem stripEs_nil : stripEs [] = [] := by simp [stripEs]

theorem stripEs_cons_ph {k : Key} (h : isPhKey k = true) (v : Val) (es : Entries) :
    stripEs ((k, v) :: es) = stripEs es := by simp [stripEs, h]

theorem stripEs_cons {k : Key} (h : isPhKey k = false) (v : Val) (es : Entries) :
    stripEs ((k, v) :: es) = (k, stripV v) :: stripEs es := by simp [stripEs, h]

theorem stripV_dict (es : Entries) : stripV (.dict es) = .dict (stripEs es) := by simp [stripV]

theorem stripV_nondict {v : Val} (h : v.isDict = false) : stripV v = v := by
  cases v with
  | dict es => simp [Val.isDict] at h
  | leaf x => simp [stripV]
  | list xs => simp [stripV]

theorem stripV_isDict (v : Val) : (stripV v).isDict = v.isDict := by
  cases v <;> simp [stripV, Val.isDict]

theorem stripEs_append : ∀ a b : Entries, stripEs (a ++ b) = stripEs a ++ stripEs b
  | [], b => by simp [stripEs_nil]
  | (k, v) :: a, b => by
    cases h : isPhKey k with
    | true => rw [List.cons_append, stripEs_cons_ph h, stripEs_cons_ph h, stripEs_append a b]
    | false => rw [List.cons_append, stripEs_cons h, stripEs_cons h, stripEs_append a b]; rfl

theorem lookup_stripEs {k : Key} (hk : isPhKey k = false) : ∀ es : Entries,
    lookup k (stripEs es) = (lookup k es).map stripV
  | [] => by simp [stripEs_nil, lookup]
  | (k0, v0) :: es => by
    cases h : isPhKey k0 with
    | true =>
      have : ¬ k0 = k := fun e => by rw [e, hk] at h; cases h
      rw [stripEs_cons_ph h, lookup_stripEs hk es]; simp [lookup, this]
    | false =>
      rw [stripEs_cons h]
      by_cases e : k0 = k
      · simp [lookup, e]
      · simp [lookup, e, lookup_stripEs hk es]

theorem keys_stripEs : ∀ es : Entries, keys (stripEs es) = (keys es).filter fun k => !isPhKey k
  | [] => by simp [stripEs_nil, keys]
  | (k0, v0) :: es => by
    have ih := keys_stripEs es
    simp only [keys] at ih
    cases h : isPhKey k0 with
    | true => rw [stripEs_cons_ph h]; simp [keys, h, ih]
    | false => rw [stripEs_cons h]; simp [keys, h, ih]

theorem mem_stripEs {k : Key} {v : Val} (hk : isPhKey k = false) : ∀ {es : Entries}, (k, v) ∈ es → (k, stripV v) ∈ stripEs es
  | [], h => by simp at h
  | (k0, v0) :: es, h => by
    rcases List.mem_cons.mp h with heq | hm
    · cases heq; rw [stripEs_cons hk]; exact List.mem_cons_self
    · cases h0 : isPhKey k0 with
      | true => rw [stripEs_cons_ph h0]; exact mem_stripEs hk hm
      | false => rw [stripEs_cons h0]; exact List.mem_cons_of_mem _ (mem_stripEs hk hm)

theorem stripEs_setKey_ph {k : Key} (hk : isPhKey k = true) (v : Val) : ∀ es : Entries,
    stripEs (setKey k v es) = stripEs es
  | [] => by simp [setKey, stripEs, hk]
  | (k0, v0) :: es => by
    by_cases e : k0 = k
    · subst e; simp only [setKey, if_true]; rw [stripEs_cons_ph hk, stripEs_cons_ph hk]
    · simp only [setKey, e, if_false]
      cases h0 : isPhKey k0 with
      | true => rw [stripEs_cons_ph h0, stripEs_cons_ph h0, stripEs_setKey_ph hk v es]
      | false => rw [stripEs_cons h0, stripEs_cons h0, stripEs_setKey_ph hk v es]

theorem stripEs_setKey {k : Key} (hk : isPhKey k = false) (v : Val) : ∀ es : Entries,
    stripEs (setKey k v es) = setKey k (stripV v) (stripEs es)
  | [] => by simp [setKey, stripEs, hk]
  | (k0, v0) :: es => by
    by_cases e : k0 = k
    · subst e; simp only [setKey, if_true]; rw [stripEs_cons hk, stripEs_cons hk]; simp [setKey]
    · simp only [setKey, e, if_false]
      cases h0 : isPhKey k0 with
      | true => rw [stripEs_cons_ph h0, stripEs_cons_ph h0, stripEs_setKey hk v es]
      | false => rw [stripEs_cons h0, stripEs_cons h0, stripEs_setKey hk v es]; simp [setKey, e]

theorem stripEs_delKey_ph {k : Key} (hk : isPhKey k = true) : ∀ es : Entries, stripEs (delKey k es) = stripEs es
  | [] => by simp [delKey]
  | (k0, v0) :: es => by
    by_cases e : k0 = k
    · subst e; simp only [delKey, if_true]; rw [stripEs_cons_ph hk]
    · simp only [delKey, e, if_false]
      cases h0 : isPhKey k0 with
      | true => rw [stripEs_cons_ph h0, stripEs_cons_ph h0, stripEs_delKey_ph hk es]
      | false => rw [stripEs_cons h0, stripEs_cons h0, stripEs_delKey_ph hk es]

mutual
  theorem nodupV_strip : ∀ v : Val, NodupKeysV v → NodupKeysV (stripV v)
    | .leaf _, h => by simpa [stripV] using h
    | .list _, h => by simpa [stripV] using h
    | .dict es, h => by
      rw [stripV_dict]
      refine ⟨?_, nodupEs_strip es h.2⟩
      rw [keys_stripEs]
      exact h.1.filter _
  theorem nodupEs_strip : ∀ es : Entries, NodupKeysEs es → NodupKeysEs (stripEs es)
    | [], _ => by simp [stripEs_nil, NodupKeysEs]
    | (k, v) :: es, h => by
      cases h0 : isPhKey k with
      | true => rw [stripEs_cons_ph h0]; exact nodupEs_strip es h.2
      | false => rw [stripEs_cons h0]; exact ⟨nodupV_strip v h.1, nodupEs_strip es h.2⟩
end

/-! ## 3. `_clean` only touches placeholder entries: the stripped data is unchanged -/

/-- the body of the loop of `_clean` over the entries of a level -/
def cleanF (fuel : Nat) (acc : SD × Entries) (e : Key × Val) : SD × Entries :=
  match e.2 with
  | .dict sub => ((cleanRec fuel acc.1 sub).1, setKey e.1 (.dict (cleanRec fuel acc.1 sub).2) acc.2)
  | _ => acc

theorem cleanRec_succ (fuel : Nat) (s : SD) (lvl : Entries) :
    cleanRec (fuel + 1) s lvl = (cleanLevel s lvl).2.foldl (cleanF fuel) ((cleanLevel s lvl).1, (cleanLevel s lvl).2) := rfl

theorem cleanLevel_exprs (s : SD) (lvl : Entries) : (cleanLevel s lvl).1.exprs = s.exprs := rfl

theorem cleanRec_strip : ∀ (fuel : Nat) (s : SD) (lvl : Entries), NodupKeysV (.dict lvl) →
    NodupKeysV (.dict (cleanRec fuel s lvl).2) ∧ stripEs (cleanRec fuel s lvl).2 = stripEs lvl ∧
      (cleanRec fuel s lvl).1.exprs = s.exprs
  | 0, _, _, hn => ⟨hn, rfl, rfl⟩
  | fuel + 1, s, lvl, hn => by
    rw [cleanRec_succ]
    have hl : NodupKeysV (.dict (cleanLevel s lvl).2) ∧ stripEs (cleanLevel s lvl).2 = stripEs lvl := by
      refine cleanLevel_inv (fun d => NodupKeysV (.dict d) ∧ stripEs d = stripEs lvl) ?_ s lvl ⟨hn, rfl⟩
      intro k d hk ⟨h1, h2⟩
      exact ⟨nodupV_delKey h1, by rw [stripEs_delKey_ph hk, h2]⟩
    generalize (cleanLevel s lvl).2 = lvl1 at hl
    have hex := cleanLevel_exprs s lvl
    generalize (cleanLevel s lvl).1 = s1 at hex
    obtain ⟨hn1, hs1⟩ := hl
    suffices H : ∀ (l : Entries) (acc : SD × Entries), (∀ e ∈ l, e ∈ lvl1) →
        NodupKeysV (.dict acc.2) ∧ stripEs acc.2 = stripEs lvl1 ∧ acc.1.exprs = s.exprs →
        NodupKeysV (.dict (l.foldl (cleanF fuel) acc).2) ∧ stripEs (l.foldl (cleanF fuel) acc).2 = stripEs lvl1 ∧
          (l.foldl (cleanF fuel) acc).1.exprs = s.exprs by
      have := H lvl1 (s1, lvl1) (fun _ h => h) ⟨hn1, rfl, hex⟩
      exact ⟨this.1, this.2.1.trans hs1, this.2.2⟩
    intro l
    induction l with
    | nil => intro acc _ h; exact h
    | cons e l ih =>
      intro acc hsub hacc
      rw [List.foldl_cons]
      apply ih _ (fun e' he' => hsub e' (List.mem_cons_of_mem _ he'))
      obtain ⟨k, v⟩ := e
      have hmem : (k, v) ∈ lvl1 := hsub _ List.mem_cons_self
      cases v with
      | leaf x => exact hacc
      | list xs => exact hacc
      | dict sub =>
        have hsubn : NodupKeysV (.dict sub) := nodupKeysEs_iff.mp hn1.2 _ hmem
        obtain ⟨r1, r2, r3⟩ := cleanRec_strip fuel acc.1 sub hsubn
        obtain ⟨a1, a2, a3⟩ := hacc
        refine ⟨nodupV_setKey a1 r1, ?_, r3.trans a3⟩
        show stripEs (setKey k (.dict (cleanRec fuel acc.1 sub).2) acc.2) = stripEs lvl1
        cases hk : isPhKey k with
        | true => rw [stripEs_setKey_ph hk, a2]
        | false =>
          rw [stripEs_setKey hk, stripV_dict, r2, a2]
          apply setKey_lookup_self
          rw [lookup_stripEs hk, lookup_of_mem_nodup hn1.1 hmem]
          simp [stripV_dict]

theorem clean_data_eq (s : SD) : s.clean.data = (cleanRec (depthV (.dict s.data) + 1) s s.data).2 := rfl
theorem clean_exprs_eq (s : SD) : s.clean.exprs = (cleanRec (depthV (.dict s.data) + 1) s s.data).1.exprs := rfl

/-- **`_clean` and the data.** with unique keys at every dict level, `_clean` keeps them unique, leaves the expression
    table alone, and changes nothing but placeholder entries -/
theorem clean_strip (s : SD) (hn : NodupKeysV (.dict s.data)) :
    NodupKeysV (.dict s.clean.data) ∧ stripEs s.clean.data = stripEs s.data ∧ s.clean.exprs = s.exprs := by
  rw [clean_data_eq, clean_exprs_eq]
  exact cleanRec_strip _ s s.data hn

/-! ## 4. `_recursive_merge` on the stripped data is the plain first-wins merge -/

/-- no top-level entry under an ordinary key is a self-reference placeholder (`k $k`) for the expression table `ex` -/
def NoSelf (ex : Tbl ExprEntry) (d : Entries) : Prop := ∀ e ∈ d, isPhKey e.1 = false → selfRef ex e.1 e.2 = false

theorem noSelf_mstep {top : Bool} {ex : Tbl ExprEntry} {t : Entries} {k : Key} {v : Val} (ht : NoSelf ex t)
    (hv : isPhKey k = false → selfRef ex k v = false) : NoSelf ex (mstep top ex t k v) := by
  intro e he
  have hcases : e ∈ t ∨ e = (k, v) ∨ (e.1 = k ∧ e.2.isDict = true) := by
    unfold mstep at he
    split at he
    · rcases mem_setKey he with h | h
      · exact Or.inr (Or.inr (by rw [h]; exact ⟨rfl, rfl⟩))
      · exact Or.inl h
    · split at he
      · rcases mem_setKey he with h | h
        · exact Or.inr (Or.inl h)
        · exact Or.inl h
      · exact Or.inl he
    · rcases List.mem_append.mp he with h | h
      · exact Or.inl h
      · exact Or.inr (Or.inl (by simpa using h))
  rcases hcases with h | h | ⟨_, h⟩
  · exact ht e h
  · rw [h]; exact hv
  · intro _
    cases hv2 : e.2 with
    | dict es => exact selfRef_dict ex e.1 es
    | leaf x => rw [hv2] at h; simp [Val.isDict] at h
    | list xs => rw [hv2] at h; simp [Val.isDict] at h

/-- **the merge commutes with stripping.** `_recursive_merge` (at the top level of an `SDict` as well, as long as no
    self-reference placeholder is met) acts on the ordinary entries as the plain first-wins merge of the stripped data -/
theorem strip_mergeD (ex : Tbl ExprEntry) : ∀ (top : Bool) (t o : Entries),
    (top = true → NoSelf ex t ∧ NoSelf ex o) → stripEs (mergeD top ex t o) = M (stripEs t) (stripEs o) := by
  apply mergeD_induct ex (motive := fun top t o =>
    (top = true → NoSelf ex t ∧ NoSelf ex o) → stripEs (mergeD top ex t o) = M (stripEs t) (stripEs o))
  · intro top t _; rw [mergeD_nil, stripEs_nil, mergeD_nil]
  · intro top t k v o ih1 ih2 h
    have ho : top = true → NoSelf ex o := fun ht e he => (h ht).2 e (List.mem_cons_of_mem _ he)
    have hv : top = true → isPhKey k = false → selfRef ex k v = false := fun ht => (h ht).2 (k, v) List.mem_cons_self
    rw [mergeD_cons, ih2 (fun ht => ⟨noSelf_mstep (h ht).1 (hv ht), ho ht⟩)]
    cases hk : isPhKey k with
    | true =>
      rw [stripEs_cons_ph hk]
      congr 1
      unfold mstep
      split
      · exact stripEs_setKey_ph hk _ _
      · split
        · exact stripEs_setKey_ph hk _ _
        · rfl
      · rw [stripEs_append, stripEs_cons_ph hk, stripEs_nil, List.append_nil]
    | false =>
      rw [stripEs_cons hk, mergeD_cons]
      congr 1
      have hl := lookup_stripEs hk t
      cases hlt : lookup k t with
      | none =>
        rw [hlt] at hl
        rw [mstep_none top ex v hlt, mstep_none false [] _ hl, stripEs_append, stripEs_cons hk, stripEs_nil]
      | some tv =>
        rw [hlt, Option.map_some] at hl
        by_cases hnd : tv.isDict = false ∨ v.isDict = false
        · have hnd' : (stripV tv).isDict = false ∨ (stripV v).isDict = false := by simpa [stripV_isDict] using hnd
          rw [mstep_some top ex hlt hnd, mstep_some false [] hl hnd']
          have : (top && selfRef ex k tv) = false := by
            cases top with
            | false => rfl
            | true => simp [(h rfl).1 (k, tv) (lookup_some_mem hlt) hk]
          simp [this]
        · cases tv with
          | dict td =>
            cases v with
            | dict od =>
              rw [stripV_dict] at hl
              rw [mstep_dict_dict top ex od hlt, stripV_dict, mstep_dict_dict false [] _ hl, stripEs_setKey hk, stripV_dict,
                ih1 td od hlt rfl (fun hc => by cases hc)]
            | leaf x => simp [Val.isDict] at hnd
            | list xs => simp [Val.isDict] at hnd
          | leaf x => simp [Val.isDict] at hnd
          | list xs => simp [Val.isDict] at hnd

/-- the data and the expression table of `t.merge(a)` -/
theorem merge_strip (t a : SD) (hn : NodupKeysV (.dict t.data)) (ha : NodupKeysEs a.data)
    (hs : NoSelf t.exprs t.data ∧ NoSelf t.exprs a.data) :
    NodupKeysV (.dict (t.merge (.sd a)).data) ∧
      stripEs (t.merge (.sd a)).data = M (stripEs t.data) (stripEs a.data) ∧
      (t.merge (.sd a)).exprs = Tbl.merge t.exprs a.exprs := by
  have hnm : NodupKeysV (.dict (mergeD true t.exprs t.data a.data)) := nodupV_mergeD t.exprs true t.data a.data hn ha
  have := clean_strip (({ t with data := mergeD true t.exprs t.data a.data }).postMerge (.sd a)) hnm
  refine ⟨this.1, ?_, this.2.2⟩
  exact this.2.1.trans (strip_mergeD t.exprs true t.data a.data fun _ => hs)

/-! ## 5. the algebra of the plain first-wins merge -/

/-- two dicts with the same key order and the same value under every key are equal -/
theorem entries_ext : ∀ {a b : Entries}, (keys a).Nodup → keys a = keys b → (∀ k, lookup k a = lookup k b) → a = b
  | [], [], _, _, _ => rfl
  | [], _ :: _, _, h, _ => by simp [keys] at h
  | _ :: _, [], _, h, _ => by simp [keys] at h
  | (k, v) :: a, (k', v') :: b, hn, hk, hl => by
    simp only [keys, List.map_cons, List.cons.injEq] at hk
    obtain ⟨rfl, hk⟩ := hk
    have hn' : k ∉ keys a ∧ (keys a).Nodup := List.nodup_cons.mp hn
    have hv : v = v' := by simpa [lookup] using hl k
    subst hv
    congr 1
    apply entries_ext hn'.2 hk
    intro k2
    by_cases e : k = k2
    · subst e
      have hb' : k ∉ keys b := by
        have h := hn'.1
        simp only [keys] at h ⊢
        rw [← hk]; exact h
      rw [lookup_eq_none_iff.mpr hn'.1, lookup_eq_none_iff.mpr hb']
    · simpa [lookup, e] using hl k2

theorem hasKey_mergeD (top : Bool) (ex : Tbl ExprEntry) (a b : Entries) (hb : (keys b).Nodup) (k : Key) :
    hasKey k (mergeD top ex a b) = (hasKey k a || hasKey k b) := by
  rw [Bool.eq_iff_iff]
  simp only [Bool.or_eq_true, hasKey_iff_mem, merge_keys top ex b a hb, List.mem_append, List.mem_filter,
    Bool.not_eq_true', hasKey_false_iff]
  constructor
  · rintro (h | h)
    · exact Or.inl h
    · exact Or.inr h.1
  · rintro (h | h)
    · exact Or.inl h
    · by_cases ha : k ∈ keys a
      · exact Or.inl ha
      · exact Or.inr ⟨h, ha⟩

theorem mergeD_nil_left {c : Entries} (hc : (keys c).Nodup) : M [] c = c := by
  apply entries_ext (nodup_keys_mergeD false [] c [] List.nodup_nil)
  · rw [merge_keys false [] c [] hc]; simp [keys, hasKey, lookup]
  · intro k
    rw [merge_lookup_mergeVal false [] k c [] hc]; rfl

/-! #### schemas -/

theorem confEs_iff : ∀ {d σ : Entries}, confEs d σ = true ↔ ∀ e ∈ d, ∃ s, lookup e.1 σ = some s ∧ confV e.2 s = true
  | [], σ => by simp [confEs]
  | (k, v) :: d, σ => by
    simp only [confEs, Bool.and_eq_true, confEs_iff (d := d) (σ := σ), List.forall_mem_cons]
    constructor
    · rintro ⟨h1, h2⟩
      refine ⟨?_, h2⟩
      cases hl : lookup k σ with
      | none => rw [hl] at h1; cases h1
      | some s => rw [hl] at h1; exact ⟨s, rfl, h1⟩
    · rintro ⟨⟨s, h1, h1'⟩, h2⟩
      exact ⟨by rw [h1]; exact h1', h2⟩

theorem confV_dict_right {v : Val} {σ : Entries} (h : confV v (.dict σ) = true) : ∃ d, v = .dict d ∧ confEs d σ = true := by
  cases v with
  | dict d => exact ⟨d, rfl, by simpa [confV] using h⟩
  | leaf x => simp [confV] at h
  | list xs => simp [confV] at h

theorem confV_nondict_right {v s : Val} (hs : s.isDict = false) (h : confV v s = true) : v.isDict = false := by
  cases v with
  | dict d => cases s <;> simp [confV, Val.isDict] at h hs
  | leaf x => rfl
  | list xs => rfl

theorem confV_dict_dict (d σ : Entries) : confV (.dict d) (.dict σ) = confEs d σ := by simp [confV]

theorem confEs_append {a b σ : Entries} (ha : confEs a σ = true) (hb : confEs b σ = true) : confEs (a ++ b) σ = true := by
  rw [confEs_iff] at ha hb ⊢
  intro e he
  rcases List.mem_append.mp he with h | h
  · exact ha e h
  · exact hb e h

theorem confEs_setKey {k : Key} {v s : Val} {a σ : Entries} (ha : confEs a σ = true) (hs : lookup k σ = some s)
    (hv : confV v s = true) : confEs (setKey k v a) σ = true := by
  rw [confEs_iff] at ha ⊢
  intro e he
  rcases mem_setKey he with rfl | h
  · exact ⟨s, hs, hv⟩
  · exact ha e h

/-- **schemas are closed under the merge** -/
theorem confEs_mergeD : ∀ (top : Bool) (t o : Entries), top = false → ∀ σ, confEs t σ = true → confEs o σ = true →
    confEs (mergeD top [] t o) σ = true := by
  apply mergeD_induct [] (motive := fun top t o => top = false → ∀ σ, confEs t σ = true → confEs o σ = true →
    confEs (mergeD top [] t o) σ = true)
  · intro top t _ σ ht _; rw [mergeD_nil]; exact ht
  · intro top t k v o ih1 ih2 htop σ ht ho
    subst htop
    rw [mergeD_cons]
    have ho' := confEs_iff.mp ho
    obtain ⟨s, hs, hvs⟩ := ho' (k, v) List.mem_cons_self
    refine ih2 rfl σ ?_ (confEs_iff.mpr fun e he => ho' e (List.mem_cons_of_mem _ he))
    cases hlt : lookup k t with
    | none =>
      rw [mstep_none false [] v hlt]
      exact confEs_append ht (confEs_iff.mpr fun e he => by simp at he; subst he; exact ⟨s, hs, hvs⟩)
    | some tv =>
      by_cases hnd : tv.isDict = false ∨ v.isDict = false
      · rw [mstep_some false [] hlt hnd]; exact ht
      · cases tv with
        | dict td =>
          cases v with
          | dict od =>
            rw [mstep_dict_dict false [] od hlt]
            obtain ⟨s', hs', htd⟩ := confEs_iff.mp ht (k, .dict td) (lookup_some_mem hlt)
            rw [hs] at hs'; cases hs'
            cases s with
            | dict σ' =>
              rw [confV_dict_dict] at hvs htd
              exact confEs_setKey ht hs (by rw [confV_dict_dict]; exact ih1 td od hlt rfl rfl σ' htd hvs)
            | leaf x => simp [confV] at hvs
            | list xs => simp [confV] at hvs
          | leaf x => simp [Val.isDict] at hnd
          | list xs => simp [Val.isDict] at hnd
        | leaf x => simp [Val.isDict] at hnd
        | list xs => simp [Val.isDict] at hnd

/-- well-formed for the schema `σ`: unique keys at every level, kinds as in `σ` -/
def Ok (σ : Entries) (d : Entries) : Prop := NodupKeysV (.dict d) ∧ confEs d σ = true

theorem Ok.merge {σ a b : Entries} (ha : Ok σ a) (hb : Ok σ b) : Ok σ (M a b) :=
  ⟨nodupV_mergeD [] false a b ha.1 hb.1.2, confEs_mergeD false a b rfl σ ha.2 hb.2⟩

theorem Ok.nil (σ : Entries) : Ok σ [] := ⟨nodupV_nil, by simp [confEs]⟩

theorem Ok.sub {σ a : Entries} (ha : Ok σ a) {k : Key} {ad σ' : Entries} (h : lookup k a = some (.dict ad))
    (hs : lookup k σ = some (.dict σ')) : Ok σ' ad := by
  refine ⟨nodupKeysEs_iff.mp ha.1.2 _ (lookup_some_mem h), ?_⟩
  obtain ⟨s, h1, h2⟩ := confEs_iff.mp ha.2 _ (lookup_some_mem h)
  rw [hs] at h1; cases h1
  simpa [confV] using h2

/-! #### associativity -/

/-- the statement for one third operand -/
def AssocAt (c : Entries) : Prop := ∀ σ a b, Ok σ a → Ok σ b → Ok σ c → M (M a b) c = M a (M b c)

theorem assoc_core (c : Entries) (hsub : ∀ e ∈ c, ∀ cd, e.2 = .dict cd → AssocAt cd) : AssocAt c := by
  intro σ a b ha hb hc
  have hbc := hb.merge hc
  have hab := ha.merge hb
  apply entries_ext (nodup_keys_mergeD false [] c _ hab.1.1)
  · rw [merge_keys false [] c _ hc.1.1, merge_keys false [] b a hb.1.1, merge_keys false [] _ a hbc.1.1,
      merge_keys false [] c b hc.1.1, List.filter_append, List.filter_filter, List.append_assoc]
    congr 2
    apply List.filter_congr
    intro k _
    rw [hasKey_mergeD false [] a b hb.1.1, Bool.not_or]
  · intro k
    rw [merge_lookup_mergeVal false [] k c _ hc.1.1, merge_lookup_mergeVal false [] k b a hb.1.1,
      merge_lookup_mergeVal false [] k _ a hbc.1.1, merge_lookup_mergeVal false [] k c b hc.1.1]
    cases hz : lookup k c with
    | none => rw [mergeVal_none_right, mergeVal_none_right]
    | some cv =>
      cases hy : lookup k b with
      | none => rw [mergeVal_none_right]; rfl
      | some bv =>
        cases hx : lookup k a with
        | none => rfl
        | some av =>
          obtain ⟨s, hs, hcs⟩ := confEs_iff.mp hc.2 _ (lookup_some_mem hz)
          obtain ⟨s2, hs2, hbs⟩ := confEs_iff.mp hb.2 _ (lookup_some_mem hy)
          obtain ⟨s3, hs3, has⟩ := confEs_iff.mp ha.2 _ (lookup_some_mem hx)
          dsimp only at hs hs2 hs3 hcs hbs has
          rw [hs] at hs2 hs3; cases hs2; cases hs3
          cases hsd : s.isDict with
          | false =>
            have h1 := confV_nondict_right hsd hcs
            have h2 := confV_nondict_right hsd hbs
            have h3 := confV_nondict_right hsd has
            rw [mergeVal_some_some false [] k (Or.inl h3), mergeVal_some_some false [] k (Or.inl h2)]
            simp only [Bool.false_and, Bool.false_eq_true, if_false]
            rw [mergeVal_some_some false [] k (Or.inl h3), mergeVal_some_some false [] k (Or.inl h3)]
            simp
          | true =>
            cases s with
            | dict σ' =>
              obtain ⟨cd, rfl, _⟩ := confV_dict_right hcs
              obtain ⟨bd, rfl, _⟩ := confV_dict_right hbs
              obtain ⟨ad, rfl, _⟩ := confV_dict_right has
              simp only [mergeVal_dict_dict]
              rw [hsub _ (lookup_some_mem hz) cd rfl σ' ad bd (ha.sub hx hs) (hb.sub hy hs) (hc.sub hz hs)]
            | leaf x => simp [Val.isDict] at hsd
            | list xs => simp [Val.isDict] at hsd

mutual
  theorem assocV : ∀ v : Val, ∀ cd, v = .dict cd → AssocAt cd
    | .leaf _, _, h => by cases h
    | .list _, _, h => by cases h
    | .dict es, cd, h => by
      cases h
      exact assoc_core es fun e he cd h => assocEs es e he cd h
  theorem assocEs : ∀ es : Entries, ∀ e ∈ es, ∀ cd, e.2 = .dict cd → AssocAt cd
    | [], e, he, _, _ => by simp at he
    | (k, v) :: es, e, he, cd, h => by
      rcases List.mem_cons.mp he with rfl | hm
      · exact assocV v cd h
      · exact assocEs es e hm cd h
end

/-- **associativity of the first-wins merge** (as an equation of ordered dicts) for dicts with unique keys that are
    kind-consistent — they conform to one schema: every key path leads to a dict in all of them or to a non-dict in
    all of them -/
theorem mergeD_assoc {σ a b c : Entries} (ha : Ok σ a) (hb : Ok σ b) (hc : Ok σ c) : M (M a b) c = M a (M b c) :=
  assocV (.dict c) c rfl σ a b ha hb hc

/-- kind-consistency is needed: `{k: {x: 1}}`, `{k: 5}`, `{k: {y: 2}}` — merged left to right the two dicts under `k`
    meet, merged right to left the non-dict in the middle shields the first from the third -/
theorem mergeD_assoc_needs_kinds :
    ¬ ∀ a b c : Entries, NodupKeysV (.dict a) → NodupKeysV (.dict b) → NodupKeysV (.dict c) → M (M a b) c = M a (M b c) := by
  intro h
  have := h [(.int 0, .dict [(.int 1, .leaf (.int 1))])] [(.int 0, .leaf (.int 5))] [(.int 0, .dict [(.int 2, .leaf (.int 2))])]
    (by simp [NodupKeysV, NodupKeysEs, keys]) (by simp [NodupKeysV, NodupKeysEs, keys]) (by simp [NodupKeysV, NodupKeysEs, keys])
  revert this
  decide +kernel

/-- … also on lookups of a top-level key -/
theorem mergeD_assoc_lookup_needs_kinds :
    ¬ ∀ (a b c : Entries) (k : Key), NodupKeysV (.dict a) → NodupKeysV (.dict b) → NodupKeysV (.dict c) →
      lookup k (M (M a b) c) = lookup k (M a (M b c)) := by
  intro h
  have := h [(.int 0, .dict [(.int 1, .leaf (.int 1))])] [(.int 0, .leaf (.int 5))] [(.int 0, .dict [(.int 2, .leaf (.int 2))])]
    (.int 0)
    (by simp [NodupKeysV, NodupKeysEs, keys]) (by simp [NodupKeysV, NodupKeysEs, keys]) (by simp [NodupKeysV, NodupKeysEs, keys])
  revert this
  decide +kernel

/-! #### folds -/

theorem Ok.foldl {σ : Entries} : ∀ (L : List Entries) (y : Entries), Ok σ y → (∀ z ∈ L, Ok σ z) → Ok σ (L.foldl (mergeD false []) y)
  | [], _, hy, _ => hy
  | z :: L, _, hy, hL =>
    Ok.foldl L _ (hy.merge (hL z List.mem_cons_self)) fun z' hz' => hL z' (List.mem_cons_of_mem _ hz')

/-- merging a left fold in is continuing the fold -/
theorem merge_foldl {σ : Entries} {x : Entries} (hx : Ok σ x) : ∀ (L : List Entries) (y : Entries), Ok σ y → (∀ z ∈ L, Ok σ z) →
    M x (L.foldl (mergeD false []) y) = L.foldl (mergeD false []) (M x y)
  | [], _, _, _ => rfl
  | z :: L, _, hy, hL => by
    have hz := hL z List.mem_cons_self
    rw [List.foldl_cons, List.foldl_cons, merge_foldl hx L _ (hy.merge hz) fun z' hz' => hL z' (List.mem_cons_of_mem _ hz'),
      mergeD_assoc hx hy hz]

/-! ## 6. self-reference placeholders, decidably -/

/-- the test of `_value_contains_circular_reference` on the text the value stands for -/
def selfRefTxt (ks t : Str) : Bool :=
  (t == ks && (isExactPh kwBlock ks || isExactPh kwIncl ks || isExactPh kwLine ks)) || refersTo ks t

theorem selfRef_str (ex : Tbl ExprEntry) (ks vs : Str) :
    selfRef ex (.str ks) (.leaf (.str vs)) = selfRefTxt ks (insertExpression ex vs) := rfl

/-- a pool of expressions: `(id, text)` pairs -/
abbrev Pool := List (Nat × Str)

/-- an entry that is no self-reference placeholder whichever expressions of the pool its `EXPRESSION%06d` stands for -/
def safeEntry (pool : Pool) (k : Key) (v : Val) : Bool :=
  match k, v with
  | .str ks, .leaf (.str vs) =>
    !selfRefTxt ks vs && pool.all fun p => !(firstSixDigits vs == some p.1) || !selfRefTxt ks p.2
  | _, _ => true

def safeEs (pool : Pool) (d : Entries) : Bool := d.all fun e => safeEntry pool e.1 e.2

/-- every expression of the table is in the pool -/
def TblIn (pool : Pool) (ex : Tbl ExprEntry) : Prop := ∀ p ∈ ex, (p.1, p.2.expression) ∈ pool

theorem tbl_get_mem {α} {i : Nat} {a : α} : ∀ {t : Tbl α}, Tbl.get? i t = some a → (i, a) ∈ t
  | [], h => by simp [Tbl.get?] at h
  | (j, b) :: t, h => by
    by_cases e : j = i
    · simp [Tbl.get?, e] at h; simp [e, h]
    · simp [Tbl.get?, e] at h; exact List.mem_cons_of_mem _ (tbl_get_mem h)

theorem insertExpression_cases (ex : Tbl ExprEntry) (s : Str) :
    insertExpression ex s = s ∨ ∃ i e, firstSixDigits s = some i ∧ (i, e) ∈ ex ∧ insertExpression ex s = e.expression := by
  unfold insertExpression
  split
  · split
    · rename_i i hi
      split
      · rename_i e he
        exact Or.inr ⟨i, e, hi, tbl_get_mem he, rfl⟩
      · exact Or.inl rfl
    · exact Or.inl rfl
  · exact Or.inl rfl

theorem selfRef_of_safe {pool : Pool} {ex : Tbl ExprEntry} (hex : TblIn pool ex) {k : Key} {v : Val}
    (h : safeEntry pool k v = true) : selfRef ex k v = false := by
  cases k with
  | int z => rfl
  | str ks =>
    cases v with
    | dict es => rfl
    | list xs => rfl
    | leaf x =>
      cases x with
      | str vs =>
        rw [selfRef_str]
        simp only [safeEntry, Bool.and_eq_true, Bool.not_eq_true', List.all_eq_true, Bool.or_eq_true] at h
        rcases insertExpression_cases ex vs with h1 | ⟨i, e, hi, hm, h1⟩
        · rw [h1]; exact h.1
        · rw [h1]
          rcases h.2 (i, e.expression) (hex (i, e) hm) with h2 | h2
          · simp [hi] at h2
          · exact h2
      | int z => rfl
      | float l => rfl
      | bool b => rfl
      | none => rfl

theorem safeEntry_nonstring (pool : Pool) (k : Key) {v : Val} (h : ∀ s, v ≠ .leaf (.str s)) : safeEntry pool k v = true := by
  unfold safeEntry
  split
  · rename_i ks vs; exact absurd rfl (h vs)
  · rfl

theorem safeEs_iff {pool : Pool} {d : Entries} : safeEs pool d = true ↔ ∀ e ∈ d, safeEntry pool e.1 e.2 = true := by
  simp [safeEs, List.all_eq_true]

/-- the ordinary entries of `d` are safe, so no entry of `d` is a self-reference placeholder for a table from the pool -/
theorem noSelf_of_safe {pool : Pool} {ex : Tbl ExprEntry} (hex : TblIn pool ex) {d : Entries}
    (h : safeEs pool (stripEs d) = true) : NoSelf ex d := by
  intro e he hk
  obtain ⟨k, v⟩ := e
  by_cases hv : ∃ s, v = .leaf (.str s)
  · obtain ⟨s, rfl⟩ := hv
    have := mem_stripEs hk he
    rw [stripV_nondict rfl] at this
    exact selfRef_of_safe hex (safeEs_iff.mp h _ this)
  · exact selfRef_nonstring ex k fun s e => hv ⟨s, e⟩

theorem mem_mergeD (top : Bool) (ex : Tbl ExprEntry) : ∀ (b a : Entries) (e : Key × Val), e ∈ mergeD top ex a b →
    e ∈ a ∨ e ∈ b ∨ e.2.isDict = true
  | [], a, e, h => by rw [mergeD_nil] at h; exact Or.inl h
  | (k, v) :: b, a, e, h => by
    rw [mergeD_cons] at h
    rcases mem_mergeD top ex b _ e h with h | h | h
    · unfold mstep at h
      split at h
      · rcases mem_setKey h with h | h
        · exact Or.inr (Or.inr (by rw [h]; rfl))
        · exact Or.inl h
      · split at h
        · rcases mem_setKey h with h | h
          · exact Or.inr (Or.inl (by rw [h]; exact List.mem_cons_self))
          · exact Or.inl h
        · exact Or.inl h
      · rcases List.mem_append.mp h with h | h
        · exact Or.inl h
        · exact Or.inr (Or.inl (by simp at h; rw [h]; exact List.mem_cons_self))
    · exact Or.inr (Or.inl (List.mem_cons_of_mem _ h))
    · exact Or.inr (Or.inr h)

theorem safeEs_mergeD {pool : Pool} {a b : Entries} (ha : safeEs pool a = true) (hb : safeEs pool b = true) :
    safeEs pool (M a b) = true := by
  rw [safeEs_iff] at ha hb ⊢
  intro e he
  rcases mem_mergeD false [] b a e he with h | h | h
  · exact ha e h
  · exact hb e h
  · apply safeEntry_nonstring
    intro s hs; rw [hs] at h; simp [Val.isDict] at h

theorem mem_tbl_merge {α} : ∀ (o t : Tbl α) (p : Nat × α), p ∈ Tbl.merge t o → p ∈ t ∨ p ∈ o
  | [], _, _, h => Or.inl h
  | e :: o, t, p, h => by
    rw [tbl_merge_cons] at h
    rcases mem_tbl_merge o _ p h with h | h
    · split at h
      · exact Or.inl h
      · rcases List.mem_append.mp h with h | h
        · exact Or.inl h
        · exact Or.inr (by simp at h; rw [h]; exact List.mem_cons_self)
    · exact Or.inr (List.mem_cons_of_mem _ h)

theorem TblIn.merge {pool : Pool} {t o : Tbl ExprEntry} (ht : TblIn pool t) (ho : TblIn pool o) : TblIn pool (Tbl.merge t o) := by
  intro p hp
  rcases mem_tbl_merge o t p hp with h | h
  · exact ht p h
  · exact ho p h

/-! #### no placeholder keys below the top level (comments / include directives inside nested dicts) -/

/-- the values of the top-level entries contain no placeholder key -/
def ValsNoPh (d : Entries) : Prop := ∀ e ∈ d, NoPhV e.2

mutual
  theorem stripV_noPh : ∀ v : Val, NoPhV v → stripV v = v
    | .leaf _, _ => by simp [stripV]
    | .list _, _ => by simp [stripV]
    | .dict es, h => by rw [stripV_dict, stripEs_noPh es h]
  theorem stripEs_noPh : ∀ es : Entries, NoPhEs es → stripEs es = es
    | [], _ => stripEs_nil
    | (k, v) :: es, h => by rw [stripEs_cons h.1, stripV_noPh v h.2.1, stripEs_noPh es h.2.2]
end

theorem valsNoPh_mergeD (top : Bool) (ex : Tbl ExprEntry) : ∀ (b a : Entries), ValsNoPh a → ValsNoPh b →
    ValsNoPh (mergeD top ex a b)
  | [], a, ha, _ => by rw [mergeD_nil]; exact ha
  | (k, v) :: b, a, ha, hb => by
    rw [mergeD_cons]
    refine valsNoPh_mergeD top ex b _ ?_ fun e he => hb e (List.mem_cons_of_mem _ he)
    have hv : NoPhV v := hb (k, v) List.mem_cons_self
    intro e he
    unfold mstep at he
    split at he
    · rename_i td od hl
      rcases mem_setKey he with h | h
      · rw [h]
        exact noPhEs_mergeD ex false td od (ha _ (lookup_some_mem hl)) hv
      · exact ha e h
    · split at he
      · rcases mem_setKey he with h | h
        · rw [h]; exact hv
        · exact ha e h
      · exact ha e he
    · rcases List.mem_append.mp he with h | h
      · exact ha e h
      · simp at h; rw [h]; exact hv

theorem valsNoPh_cleanRec : ∀ (fuel : Nat) (s : SD) (lvl : Entries), NodupKeysV (.dict lvl) → ValsNoPh lvl →
    ValsNoPh (cleanRec fuel s lvl).2
  | 0, _, _, _, h => h
  | fuel + 1, s, lvl, hn, hv => by
    rw [cleanRec_succ]
    have hsub := (cleanLevel_spec s lvl).1
    have hv1 : ValsNoPh (cleanLevel s lvl).2 := fun e he => hv e (hsub.subset he)
    have hn1 : NodupKeysV (.dict (cleanLevel s lvl).2) :=
      cleanLevel_inv (fun d => NodupKeysV (.dict d)) (fun k d _ h => nodupV_delKey h) s lvl hn
    generalize (cleanLevel s lvl).2 = lvl1 at hv1 hn1
    generalize (cleanLevel s lvl).1 = s1
    suffices H : ∀ (l : Entries) (acc : SD × Entries), (∀ e ∈ l, e ∈ lvl1) → ValsNoPh acc.2 →
        ValsNoPh (l.foldl (cleanF fuel) acc).2 from H lvl1 (s1, lvl1) (fun _ h => h) hv1
    intro l
    induction l with
    | nil => intro acc _ h; exact h
    | cons e l ih =>
      intro acc hsub hacc
      rw [List.foldl_cons]
      apply ih _ (fun e' he' => hsub e' (List.mem_cons_of_mem _ he'))
      obtain ⟨k, v⟩ := e
      have hmem : (k, v) ∈ lvl1 := hsub _ List.mem_cons_self
      cases v with
      | leaf x => exact hacc
      | list xs => exact hacc
      | dict sub =>
        have hsubn : NodupKeysV (.dict sub) := nodupKeysEs_iff.mp hn1.2 _ hmem
        have hsubp : NoPhEs sub := hv1 _ hmem
        show ValsNoPh (setKey k (.dict (cleanRec fuel acc.1 sub).2) acc.2)
        rw [cleanRec_id fuel acc.1 sub hsubn hsubp]
        intro e he
        rcases mem_setKey he with h | h
        · rw [h]; exact hsubp
        · exact hacc e h

theorem valsNoPh_merge (t a : SD) (hn : NodupKeysV (.dict t.data)) (ha : NodupKeysEs a.data)
    (h1 : ValsNoPh t.data) (h2 : ValsNoPh a.data) : ValsNoPh (t.merge (.sd a)).data := by
  have hnm : NodupKeysV (.dict (mergeD true t.exprs t.data a.data)) := nodupV_mergeD t.exprs true t.data a.data hn ha
  have := valsNoPh_cleanRec (depthV (.dict (mergeD true t.exprs t.data a.data)) + 1)
    (({ t with data := mergeD true t.exprs t.data a.data }).postMerge (.sd a)) _ hnm
    (valsNoPh_mergeD true t.exprs a.data t.data h1 h2)
  exact this

/-! ## 7. the invariant of the dicts that take part in the include merge -/

/-- the stripped data of an `SDict` -/
abbrev S (x : SD) : Entries := stripEs x.data

/-- what the proof carries for every dict: unique keys at every level, expressions from the pool, no self-reference
    placeholder among the ordinary top-level entries, kinds as in the schema; and, when the switch `Q` is on, no
    placeholder key below the top level -/
structure Inv (pool : Pool) (σ : Entries) (Q : Prop) (x : SD) : Prop where
  nodup : NodupKeysV (.dict x.data)
  tbl : TblIn pool x.exprs
  safe : safeEs pool (S x) = true
  conf : confEs (S x) σ = true
  vals : Q → ValsNoPh x.data

theorem Inv.ok {pool : Pool} {σ : Entries} {Q : Prop} {x : SD} (h : Inv pool σ Q x) : Ok σ (S x) :=
  ⟨nodupV_strip (.dict x.data) h.nodup, h.conf⟩

theorem Inv.empty (pool : Pool) (σ : Entries) (Q : Prop) : Inv pool σ Q ({} : SD) :=
  ⟨nodupV_nil, fun _ h => (by cases h), rfl, rfl, fun _ _ h => (by cases h)⟩

/-- **`SDict.merge` under the invariant**: on the stripped data it is the plain first-wins merge, and the invariant holds
    for the result -/
theorem Inv.merge {pool : Pool} {σ : Entries} {Q : Prop} {t a : SD} (ht : Inv pool σ Q t) (ha : Inv pool σ Q a) :
    Inv pool σ Q (t.merge (.sd a)) ∧ S (t.merge (.sd a)) = M (S t) (S a) := by
  obtain ⟨h1, h2, h3⟩ := merge_strip t a ht.nodup ha.nodup.2 ⟨noSelf_of_safe ht.tbl ht.safe, noSelf_of_safe ht.tbl ha.safe⟩
  refine ⟨⟨h1, ?_, ?_, ?_, fun q => valsNoPh_merge t a ht.nodup ha.nodup.2 (ht.vals q) (ha.vals q)⟩, h2⟩
  · rw [h3]; exact ht.tbl.merge ha.tbl
  · show safeEs pool (stripEs _) = true
    rw [h2]; exact safeEs_mergeD ht.safe ha.safe
  · show confEs (stripEs _) σ = true
    rw [h2]; exact (ht.ok.merge ha.ok).2

/-! ## 8. the include recursion against the depth-first closure -/

/-- the body of the loop of `closure` for one include entry (the recursive call a parameter, as in `inclStep`) -/
def closStep (fs : FS) (comments : Bool)
    (recur : List Comps → SD → Comps → Counter → Except ParseErr (List SD × Counter))
    (ancestors : List Comps) (dir : Comps) (acc : List SD × Counter) (e : Nat × InclEntry) :
    Except ParseErr (List SD × Counter) :=
  let spelled := spellJoin dir e.2.file
  let target := resolveSpelled spelled
  if ancestors.contains target then pure acc
  else match fs.get target with
    | none => pure acc
    | some _ => do
      let (included, c) ← parseFile fs comments acc.2 spelled
      let (sub, c) ← recur (ancestors ++ [target]) included spelled.dropLast c
      pure (acc.1 ++ included :: sub, c)

theorem closure_zero (fs : FS) (comments : Bool) (ancestors : List Comps) (parent : SD) (dir : Comps) (c : Counter) :
    closure fs comments 0 ancestors parent dir c = .ok ([], c) := rfl

theorem closure_succ (fs : FS) (comments : Bool) (fuel : Nat) (ancestors : List Comps) (parent : SD) (dir : Comps) (c : Counter) :
    closure fs comments (fuel + 1) ancestors parent dir c =
      parent.incl.foldlM (closStep fs comments (closure fs comments fuel) ancestors dir) ([], c) := rfl

/-- a file without include directives has an empty closure -/
theorem closure_no_incl (fs : FS) (comments : Bool) (fuel : Nat) (ancestors : List Comps) (parent : SD) (dir : Comps) (c : Counter)
    (h : parent.incl = []) : closure fs comments fuel ancestors parent dir c = .ok ([], c) := by
  cases fuel with
  | zero => rfl
  | succ fuel => rw [closure_succ, h]; rfl

theorem closStep_cut (fs : FS) (comments : Bool) (recur) (ancestors : List Comps) (dir : Comps) (acc : List SD × Counter)
    (e : Nat × InclEntry)
    (h : ancestors.contains (resolveSpelled (spellJoin dir e.2.file)) = true ∨
         fs.get (resolveSpelled (spellJoin dir e.2.file)) = none) :
    closStep fs comments recur ancestors dir acc e = .ok acc := by
  rcases h with h | h
  · simp only [closStep, h, if_true]; rfl
  · simp only [closStep, h]
    split <;> rfl

theorem closStep_live (fs : FS) (comments : Bool) (recur) (ancestors : List Comps) (dir : Comps) (acc : List SD × Counter)
    (e : Nat × InclEntry) {b : FileBody}
    (h1 : ancestors.contains (resolveSpelled (spellJoin dir e.2.file)) = false)
    (h2 : fs.get (resolveSpelled (spellJoin dir e.2.file)) = some b) :
    closStep fs comments recur ancestors dir acc e =
      (parseFile fs comments acc.2 (spellJoin dir e.2.file)).bind fun r =>
        (recur (ancestors ++ [resolveSpelled (spellJoin dir e.2.file)]) r.1 (spellJoin dir e.2.file).dropLast r.2).bind
          fun n => pure (acc.1 ++ r.1 :: n.1, n.2) := by
  simp only [closStep, h1, h2]
  rfl

/-- what the induction proves for one amount of fuel: whenever the include merge succeeds, so does the closure, with the
    same counter, and — for dicts under the invariant — the stripped result is the left fold of the plain first-wins
    merge over the file followed by its closure -/
def RecOK (fs : FS) (comments : Bool) (fuel : Nat) : Prop :=
  ∀ (ancestors : List Comps) (parent : SD) (dir : Comps) (c : Counter) (r : SD) (c' : Counter),
    mergeIncludesRec fs comments fuel ancestors parent dir c = .ok (r, c') →
    ∃ incs, closure fs comments fuel ancestors parent dir c = .ok (incs, c') ∧
      ∀ (pool : Pool) (σ : Entries) (Q : Prop), Inv pool σ Q parent → (∀ i ∈ incs, Inv pool σ Q i) →
        Inv pool σ Q r ∧ S r = (incs.map S).foldl (mergeD false []) (S parent)

theorem step_ok (fs : FS) (comments : Bool) (fuel : Nat) (hrec : RecOK fs comments fuel) (ancestors : List Comps) (dir : Comps)
    (temp : SD) (c : Counter) (e : Nat × InclEntry) (temp' : SD) (c' : Counter)
    (h : inclStep fs comments (mergeIncludesRec fs comments fuel) ancestors dir (temp, c) e = .ok (temp', c')) :
    ∃ new : List SD,
      (∀ accL, closStep fs comments (closure fs comments fuel) ancestors dir (accL, c) e = .ok (accL ++ new, c')) ∧
      ∀ (pool : Pool) (σ : Entries) (Q : Prop), Inv pool σ Q temp → (∀ i ∈ new, Inv pool σ Q i) →
        Inv pool σ Q temp' ∧ S temp' = (new.map S).foldl (mergeD false []) (S temp) := by
  have hcut : (ancestors.contains (resolveSpelled (spellJoin dir e.2.file)) = true ∨
         fs.get (resolveSpelled (spellJoin dir e.2.file)) = none) →
      ∃ new : List SD,
      (∀ accL, closStep fs comments (closure fs comments fuel) ancestors dir (accL, c) e = .ok (accL ++ new, c')) ∧
      ∀ (pool : Pool) (σ : Entries) (Q : Prop), Inv pool σ Q temp → (∀ i ∈ new, Inv pool σ Q i) →
        Inv pool σ Q temp' ∧ S temp' = (new.map S).foldl (mergeD false []) (S temp) := by
    intro hc
    rw [C06_cut_edge fs comments _ ancestors dir (temp, c) e hc] at h
    simp only [pure, Except.pure, Except.ok.injEq, Prod.mk.injEq] at h
    obtain ⟨rfl, rfl⟩ := h
    exact ⟨[], fun accL => by rw [closStep_cut _ _ _ _ _ _ _ hc, List.append_nil], fun pool σ Q ht _ => ⟨ht, rfl⟩⟩
  cases h1 : ancestors.contains (resolveSpelled (spellJoin dir e.2.file)) with
  | true => exact hcut (Or.inl h1)
  | false =>
    cases h2 : fs.get (resolveSpelled (spellJoin dir e.2.file)) with
    | none => exact hcut (Or.inr h2)
    | some b =>
      clear hcut
      rw [inclStep_live _ _ _ _ _ _ _ h1 h2] at h
      cases hp : parseFile fs comments c (spellJoin dir e.2.file) with
      | error x => rw [hp] at h; cases h
      | ok r1 =>
        rw [hp] at h
        simp only [Except.bind] at h
        cases hi : r1.1.incl.isEmpty with
        | true =>
          simp only [hi, if_true, pure, Except.pure, Except.ok.injEq, Prod.mk.injEq] at h
          obtain ⟨rfl, rfl⟩ := h
          refine ⟨[r1.1], fun accL => ?_, fun pool σ Q ht hn => ?_⟩
          · rw [closStep_live _ _ _ _ _ _ _ h1 h2, hp]
            simp only [Except.bind]
            rw [closure_no_incl _ _ _ _ _ _ _ (List.isEmpty_iff.mp hi)]
            rfl
          · exact Inv.merge ht (hn _ List.mem_cons_self)
        | false =>
          simp only [hi, Bool.false_eq_true, if_false] at h
          cases hm : mergeIncludesRec fs comments fuel (ancestors ++ [resolveSpelled (spellJoin dir e.2.file)]) r1.1
              (spellJoin dir e.2.file).dropLast r1.2 with
          | error x => rw [hm] at h; cases h
          | ok n =>
            rw [hm] at h
            simp only [pure, Except.pure, Except.ok.injEq, Prod.mk.injEq] at h
            obtain ⟨rfl, rfl⟩ := h
            obtain ⟨sub, hsub, hprop⟩ := hrec _ _ _ _ n.1 n.2 hm
            refine ⟨r1.1 :: sub, fun accL => ?_, fun pool σ Q ht hn => ?_⟩
            · rw [closStep_live _ _ _ _ _ _ _ h1 h2, hp]
              simp only [Except.bind]
              rw [hsub]
              rfl
            · have hr1 : Inv pool σ Q r1.1 := hn _ List.mem_cons_self
              have hsubI : ∀ i ∈ sub, Inv pool σ Q i := fun i hi => hn i (List.mem_cons_of_mem _ hi)
              obtain ⟨hnI, hnS⟩ := hprop pool σ Q hr1 hsubI
              obtain ⟨ht1, hs1⟩ := Inv.merge ht hnI
              obtain ⟨ht2, hs2⟩ := Inv.merge ht1 hnI
              refine ⟨ht2, ?_⟩
              rw [hs2, hs1, merge_idem [] (S temp) (S n.1) hnI.ok.1, hnS,
                merge_foldl ht.ok _ _ hr1.ok (fun z hz => by
                  obtain ⟨i, hi, rfl⟩ := List.mem_map.mp hz
                  exact (hsubI i hi).ok)]
              rfl

theorem fold_ok (fs : FS) (comments : Bool) (fuel : Nat) (hrec : RecOK fs comments fuel) (ancestors : List Comps) (dir : Comps) :
    ∀ (l : List (Nat × InclEntry)) (temp : SD) (c : Counter) (temp' : SD) (c' : Counter),
    l.foldlM (inclStep fs comments (mergeIncludesRec fs comments fuel) ancestors dir) (temp, c) = .ok (temp', c') →
    ∃ new : List SD,
      (∀ accL, l.foldlM (closStep fs comments (closure fs comments fuel) ancestors dir) (accL, c) = .ok (accL ++ new, c')) ∧
      ∀ (pool : Pool) (σ : Entries) (Q : Prop), Inv pool σ Q temp → (∀ i ∈ new, Inv pool σ Q i) →
        Inv pool σ Q temp' ∧ S temp' = (new.map S).foldl (mergeD false []) (S temp)
  | [], temp, c, temp', c', h => by
    simp only [List.foldlM_nil, pure, Except.pure, Except.ok.injEq, Prod.mk.injEq] at h
    obtain ⟨rfl, rfl⟩ := h
    exact ⟨[], fun accL => by rw [List.append_nil]; rfl, fun _ _ _ ht _ => ⟨ht, rfl⟩⟩
  | e :: l, temp, c, temp', c', h => by
    rw [List.foldlM_cons] at h
    cases hs : inclStep fs comments (mergeIncludesRec fs comments fuel) ancestors dir (temp, c) e with
    | error x => rw [hs] at h; cases h
    | ok r1 =>
      rw [hs] at h
      obtain ⟨new1, hc1, hp1⟩ := step_ok fs comments fuel hrec ancestors dir temp c e r1.1 r1.2 hs
      obtain ⟨new2, hc2, hp2⟩ := fold_ok fs comments fuel hrec ancestors dir l r1.1 r1.2 temp' c' h
      refine ⟨new1 ++ new2, fun accL => ?_, fun pool σ Q ht hn => ?_⟩
      · rw [List.foldlM_cons, hc1 accL]
        show l.foldlM _ (accL ++ new1, r1.2) = _
        rw [hc2, List.append_assoc]
      · obtain ⟨h1, h1'⟩ := hp1 pool σ Q ht fun i hi => hn i (List.mem_append_left _ hi)
        obtain ⟨h2, h2'⟩ := hp2 pool σ Q h1 fun i hi => hn i (List.mem_append_right _ hi)
        refine ⟨h2, ?_⟩
        rw [h2', h1', List.map_append, List.foldl_append]

/-- **the induction on the fuel** -/
theorem recOK (fs : FS) (comments : Bool) : ∀ fuel, RecOK fs comments fuel
  | 0 => by
    intro ancestors parent dir c r c' h
    rw [mergeIncludesRec_zero] at h
    simp only [Except.ok.injEq, Prod.mk.injEq] at h
    obtain ⟨rfl, rfl⟩ := h
    exact ⟨[], closure_zero .., fun _ _ _ hp _ => ⟨hp, rfl⟩⟩
  | fuel + 1 => by
    intro ancestors parent dir c r c' h
    rw [mergeIncludesRec_succ] at h
    cases hf : parent.incl.foldlM (inclStep fs comments (mergeIncludesRec fs comments fuel) ancestors dir) (({} : SD), c) with
    | error x => rw [hf] at h; cases h
    | ok t =>
      rw [hf] at h
      simp only [Except.map, Except.ok.injEq, Prod.mk.injEq] at h
      obtain ⟨rfl, rfl⟩ := h
      obtain ⟨new, hc, hp⟩ := fold_ok fs comments fuel (recOK fs comments fuel) ancestors dir parent.incl {} c t.1 t.2 hf
      refine ⟨new, ?_, fun pool σ Q hpar hn => ?_⟩
      · rw [closure_succ, hc []]; rfl
      · obtain ⟨ht, hts⟩ := hp pool σ Q (Inv.empty pool σ Q) hn
        obtain ⟨hr, hrs⟩ := Inv.merge hpar ht
        refine ⟨hr, ?_⟩
        have hS0 : S ({} : SD) = [] := stripEs_nil
        rw [hrs, hts, hS0, merge_foldl hpar.ok _ _ (Ok.nil σ) (fun z hz => by
          obtain ⟨i, hi, rfl⟩ := List.mem_map.mp hz
          exact (hn i hi).ok), mergeD_nil]

/-! ## 9. the fold of the statement -/

/-- the right-hand side of `C06_eq_fold_statement`: the left fold of `_recursive_merge` (outermost call on an `SDict`
    with the expression table `ex`) over the closure -/
def foldData (ex : Tbl ExprEntry) (d : Entries) (incs : List SD) : Entries :=
  incs.foldl (fun d i => mergeD true ex d i.data) d

theorem foldData_strip {pool : Pool} {ex : Tbl ExprEntry} (hex : TblIn pool ex) : ∀ (incs : List SD) (d : Entries),
    safeEs pool (stripEs d) = true → (∀ i ∈ incs, safeEs pool (S i) = true) →
    stripEs (foldData ex d incs) = (incs.map S).foldl (mergeD false []) (stripEs d)
  | [], _, _, _ => rfl
  | i :: incs, d, hd, hi => by
    have h1 := hi i List.mem_cons_self
    have hstep : stripEs (mergeD true ex d i.data) = M (stripEs d) (S i) :=
      strip_mergeD ex true d i.data fun _ => ⟨noSelf_of_safe hex hd, noSelf_of_safe hex h1⟩
    show stripEs (foldData ex (mergeD true ex d i.data) incs) = _
    rw [foldData_strip hex incs _ (by rw [hstep]; exact safeEs_mergeD hd h1) fun j hj => hi j (List.mem_cons_of_mem _ hj),
      hstep]
    rfl

theorem foldData_valsNoPh (ex : Tbl ExprEntry) : ∀ (incs : List SD) (d : Entries), ValsNoPh d → (∀ i ∈ incs, ValsNoPh i.data) →
    ValsNoPh (foldData ex d incs)
  | [], _, hd, _ => hd
  | i :: incs, d, hd, hi =>
    foldData_valsNoPh ex incs _ (valsNoPh_mergeD true ex i.data d hd (hi i List.mem_cons_self))
      fun j hj => hi j (List.mem_cons_of_mem _ hj)

/-- **C06 (fold), general form.** for any fuel and chain: when the include merge succeeds the closure does, with the same
    counter; and if the including file and the files of its closure satisfy the invariant for *some* pool of expressions
    and *some* schema, the data of the result and the fold over the closure agree up to placeholder entries, key order
    included -/
theorem C06_eq_fold_inv (fs : FS) (comments : Bool) (fuel : Nat) (ancestors : List Comps) (parent : SD) (dir : Comps) (c : Counter)
    (r : SD) (c' : Counter) (h : mergeIncludesRec fs comments fuel ancestors parent dir c = .ok (r, c')) :
    ∃ incs, closure fs comments fuel ancestors parent dir c = .ok (incs, c') ∧
      ∀ (pool : Pool) (σ : Entries) (Q : Prop), Inv pool σ Q parent → (∀ i ∈ incs, Inv pool σ Q i) →
        stripEs r.data = stripEs (foldData parent.exprs parent.data incs) ∧
        (Q → ∀ k, isPhKey k = false → lookup k r.data = lookup k (foldData parent.exprs parent.data incs)) := by
  obtain ⟨incs, hc, hp⟩ := recOK fs comments fuel ancestors parent dir c r c' h
  refine ⟨incs, hc, fun pool σ Q hpar hi => ?_⟩
  obtain ⟨hr, hrs⟩ := hp pool σ Q hpar hi
  have hstrip : stripEs r.data = stripEs (foldData parent.exprs parent.data incs) := by
    rw [foldData_strip hpar.tbl incs parent.data hpar.safe fun i h => (hi i h).safe]
    exact hrs
  refine ⟨hstrip, fun q k hk => ?_⟩
  have h1 := lookup_stripEs hk r.data
  have h2 := lookup_stripEs hk (foldData parent.exprs parent.data incs)
  rw [hstrip, h2] at h1
  have hv1 := hr.vals q
  have hv2 := foldData_valsNoPh parent.exprs incs parent.data (hpar.vals q) fun i h => (hi i h).vals q
  cases hl1 : lookup k r.data with
  | none =>
    rw [hl1] at h1
    cases hl2 : lookup k (foldData parent.exprs parent.data incs) with
    | none => rfl
    | some w => rw [hl2] at h1; cases h1
  | some v =>
    rw [hl1] at h1
    cases hl2 : lookup k (foldData parent.exprs parent.data incs) with
    | none => rw [hl2] at h1; cases h1
    | some w =>
      rw [hl2] at h1
      simp only [Option.map_some, Option.some.injEq] at h1
      rw [stripV_noPh v (hv1 _ (lookup_some_mem hl1)), stripV_noPh w (hv2 _ (lookup_some_mem hl2))] at h1
      rw [h1]

/-! #### the hypotheses, decidably -/

mutual
  def nodupB : Val → Bool
    | .leaf _ => true
    | .dict es => decide (keys es).Nodup && nodupBEs es
    | .list xs => nodupBXs xs
  def nodupBEs : Entries → Bool
    | [] => true
    | (_, v) :: es => nodupB v && nodupBEs es
  def nodupBXs : List Val → Bool
    | [] => true
    | v :: xs => nodupB v && nodupBXs xs
end

mutual
  theorem nodupB_sound : ∀ v : Val, nodupB v = true → NodupKeysV v
    | .leaf _, _ => trivial
    | .dict es, h => by
      simp only [nodupB, Bool.and_eq_true, decide_eq_true_eq] at h
      exact ⟨h.1, nodupBEs_sound es h.2⟩
    | .list xs, h => by
      simp only [nodupB] at h
      exact nodupBXs_sound xs h
  theorem nodupBEs_sound : ∀ es : Entries, nodupBEs es = true → NodupKeysEs es
    | [], _ => trivial
    | (_, v) :: es, h => by
      simp only [nodupBEs, Bool.and_eq_true] at h
      exact ⟨nodupB_sound v h.1, nodupBEs_sound es h.2⟩
  theorem nodupBXs_sound : ∀ xs : List Val, nodupBXs xs = true → NodupKeysXs xs
    | [], _ => trivial
    | v :: xs, h => by
      simp only [nodupBXs, Bool.and_eq_true] at h
      exact ⟨nodupB_sound v h.1, nodupBXs_sound xs h.2⟩
end

mutual
  def noPhB : Val → Bool
    | .dict es => noPhBEs es
    | _ => true
  def noPhBEs : Entries → Bool
    | [] => true
    | (k, v) :: es => !isPhKey k && noPhB v && noPhBEs es
end

mutual
  theorem noPhB_sound : ∀ v : Val, noPhB v = true → NoPhV v
    | .leaf _, _ => trivial
    | .list _, _ => trivial
    | .dict es, h => by
      simp only [noPhB] at h
      exact noPhBEs_sound es h
  theorem noPhBEs_sound : ∀ es : Entries, noPhBEs es = true → NoPhEs es
    | [], _ => trivial
    | (k, v) :: es, h => by
      simp only [noPhBEs, Bool.and_eq_true, Bool.not_eq_true'] at h
      exact ⟨h.1.1, noPhB_sound v h.1.2, noPhBEs_sound es h.2⟩
end

/-- all expressions of the files, with their ids -/
def poolOf (files : List SD) : Pool := files.flatMap fun f => f.exprs.map fun p => (p.1, p.2.expression)

/-- the schema the files define together: their merge -/
def schemaOf (files : List SD) : Entries := (files.map S).foldl (mergeD false []) []

/-- **kind-consistent** (decidable): in the including file and in every file of its closure
    * keys are unique in every dict (true of every Python dict; the association-list model allows repetitions),
    * no ordinary top-level entry is a self-reference placeholder `k $k` — neither as it stands nor with the text of
      any expression of these files that carries the id of the entry's `EXPRESSION%06d`,
    * every key path (placeholder entries aside) leads to a dict in all the files that have it, or to a non-dict in all
      of them: the files conform to the schema `schemaOf` -/
def kindConsistent (parent : SD) (incs : List SD) : Bool :=
  (parent :: incs).all fun f =>
    nodupB (.dict f.data) && safeEs (poolOf (parent :: incs)) (S f) && confEs (S f) (schemaOf (parent :: incs))

/-- no comment / include placeholder below the top level of any file (decidable) -/
def nestedPhFree (parent : SD) (incs : List SD) : Bool :=
  (parent :: incs).all fun f => f.data.all fun e => noPhB e.2

theorem inv_of_kindConsistent {parent : SD} {incs : List SD} (h : kindConsistent parent incs = true) :
    ∀ f ∈ parent :: incs, Inv (poolOf (parent :: incs)) (schemaOf (parent :: incs)) (nestedPhFree parent incs = true) f := by
  intro f hf
  have := List.all_eq_true.mp h f hf
  simp only [Bool.and_eq_true] at this
  refine ⟨nodupB_sound _ this.1.1, ?_, this.1.2, this.2, fun q e he => ?_⟩
  · intro p hp
    exact List.mem_flatMap.mpr ⟨f, hf, List.mem_map.mpr ⟨p, hp, rfl⟩⟩
  · exact noPhB_sound _ (List.all_eq_true.mp (List.all_eq_true.mp q f hf) e he)

/-- **C06 (fold, corrected).** `C06_eq_fold_statement` with its missing hypotheses.  When the include merge of a file
    succeeds, the depth-first closure is computed with the same counter, and if the file and its closure are
    kind-consistent then
    * the data of the result equals the first-wins fold of `_recursive_merge` over the file followed by the preorder of
      its closure, *up to placeholder entries* (`stripEs`: comment/include entries removed at every dict level) — as
      ordered dicts, key order included;
    * hence under every ordinary key the two values agree up to placeholder entries inside them;
    * and when no file has a placeholder below its top level, the conclusion of `C06_eq_fold_statement` holds as stated. -/
theorem C06_eq_fold_kind_consistent (fs : FS) (comments : Bool) (parent : SD) (dir : Comps) (c : Counter) (r : SD) (c' : Counter)
    (h : mergeIncludesRec fs comments (fs.length + 1) [] parent dir c = .ok (r, c')) :
    ∃ incs, closure fs comments (fs.length + 1) [] parent dir c = .ok (incs, c') ∧
      (kindConsistent parent incs = true →
        stripEs r.data = stripEs (incs.foldl (fun d i => mergeD true parent.exprs d i.data) parent.data) ∧
        (∀ k, isPhKey k = false →
          (lookup k r.data).map stripV =
            (lookup k (incs.foldl (fun d i => mergeD true parent.exprs d i.data) parent.data)).map stripV) ∧
        (nestedPhFree parent incs = true → ∀ k, isPhKey k = false →
          lookup k r.data = lookup k (incs.foldl (fun d i => mergeD true parent.exprs d i.data) parent.data))) := by
  obtain ⟨incs, hc, hp⟩ := C06_eq_fold_inv fs comments _ [] parent dir c r c' h
  refine ⟨incs, hc, fun hk => ?_⟩
  have hinv := inv_of_kindConsistent hk
  obtain ⟨h1, h2⟩ := hp _ _ _ (hinv parent List.mem_cons_self) fun i hi => hinv i (List.mem_cons_of_mem _ hi)
  refine ⟨h1, fun k hk' => ?_, h2⟩
  rw [← lookup_stripEs hk', ← lookup_stripEs hk']
  exact congrArg (lookup k) h1

/-- a value that is not a dict is the same on both sides, placeholders or not -/
theorem C06_eq_fold_nondict (fs : FS) (comments : Bool) (parent : SD) (dir : Comps) (c : Counter) (r : SD) (c' : Counter)
    (h : mergeIncludesRec fs comments (fs.length + 1) [] parent dir c = .ok (r, c')) :
    ∃ incs, closure fs comments (fs.length + 1) [] parent dir c = .ok (incs, c') ∧
      (kindConsistent parent incs = true → ∀ k v, isPhKey k = false → v.isDict = false →
        (lookup k r.data = some v ↔
          lookup k (incs.foldl (fun d i => mergeD true parent.exprs d i.data) parent.data) = some v)) := by
  obtain ⟨incs, hc, hp⟩ := C06_eq_fold_kind_consistent fs comments parent dir c r c' h
  refine ⟨incs, hc, fun hk k v hk' hv => ?_⟩
  have := (hp hk).2.1 k hk'
  have key : ∀ x y : Option Val, x.map stripV = y.map stripV → x = some v → y = some v := by
    intro x y hxy hx
    subst hx
    cases y with
    | none => simp at hxy
    | some w =>
      simp only [Option.map_some, Option.some.injEq] at hxy
      have hw : w.isDict = false := by rw [← stripV_isDict, ← hxy, stripV_isDict]; exact hv
      rw [stripV_nondict hv, stripV_nondict hw] at hxy
      rw [hxy]
  exact ⟨key _ _ this, key _ _ this.symm⟩

/-! ## 10. `C06_eq_fold_statement` is false in the model; each added hypothesis is needed; non-vacuity -/

/-- the statement at one input, as a computation: if the include merge succeeds, does the closure succeed and do the two
    sides agree under the key `k` ? -/
def stmtCheck (fs : FS) (comments : Bool) (parent : SD) (dir : Comps) (c : Counter) (k : Key) : Bool :=
  match mergeIncludesRec fs comments (fs.length + 1) [] parent dir c with
  | .error _ => true
  | .ok (r, _) =>
    match closure fs comments (fs.length + 1) [] parent dir c with
    | .error _ => false
    | .ok (incs, _) => decide (lookup k r.data = lookup k (foldData parent.exprs parent.data incs))

theorem stmtCheck_of_statement (h : C06_eq_fold_statement) (fs : FS) (comments : Bool) (parent : SD) (dir : Comps) (c : Counter)
    (k : Key) (hk : isPhKey k = false) : stmtCheck fs comments parent dir c k = true := by
  unfold stmtCheck
  cases hm : mergeIncludesRec fs comments (fs.length + 1) [] parent dir c with
  | error x => rfl
  | ok rc =>
    obtain ⟨incs, hc, hl⟩ := h fs comments parent dir c rc.1 rc.2 hm
    simp only [hc]
    exact decide_eq_true (hl k hk)

/-- the same for a file of the file system: parse it (fresh counter), then merge its includes -/
def stmtCheckFile (fs : FS) (comments : Bool) (root : Comps) (k : Key) : Bool :=
  match parseFile fs comments none root with
  | .error _ => true
  | .ok (p, c) => stmtCheck fs comments p root.dropLast c k

theorem stmtCheckFile_of_statement (h : C06_eq_fold_statement) (fs : FS) (comments : Bool) (root : Comps)
    (k : Key) (hk : isPhKey k = false) : stmtCheckFile fs comments root k = true := by
  unfold stmtCheckFile
  split
  · rfl
  · exact stmtCheck_of_statement h _ _ _ _ _ k hk

section Witnesses

private def sk (s : String) : Key := .str s.toList
private def iv (z : Int) : Val := .leaf (.int z)
private def sv (s : String) : Val := .leaf (.str s.toList)
private def pth (l : List String) : Comps := l.map String.toList

/-- **the witness: a key that is a dict, a non-dict, a dict along a chain of nested includes.**
    `/d/main.json = {"#include": "a.json", "k": {"x": 1}}`, `/d/a.json = {"k": 5, "#include": "b.json"}`,
    `/d/b.json = {"k": {"y": 2}}`.
    The reader merges `b` into `a` first (`k` stays `5`), then the result into `main`: `k = {x: 1}`.
    The fold `main ← a ← b` keeps `{x: 1}` against `5` and then merges `{y: 2}` into it: `k = {x: 1, y: 2}`.
    (Native files `main: "#include 'a'\nk { x 1; }\n"`, `a: "#include 'b'\nk 5;\n"`, `b: "k { y 2; }\n"` behave alike.) -/
def fsKinds : FS :=
  [ (pth ["d", "main.json"], .json [(sk "#include", sv "a.json"), (sk "k", .dict [(sk "x", iv 1)])]),
    (pth ["d", "a.json"], .json [(sk "k", iv 5), (sk "#include", sv "b.json")]),
    (pth ["d", "b.json"], .json [(sk "k", .dict [(sk "y", iv 2)])]) ]

theorem fsKinds_fails : stmtCheckFile fsKinds false (pth ["d", "main.json"]) (sk "k") = false := by decide +kernel

/-- **`C06_eq_fold_statement` is false in the model.** -/
theorem C06_eq_fold_statement_false : ¬ C06_eq_fold_statement := by
  intro h
  have h1 := stmtCheckFile_of_statement h fsKinds false (pth ["d", "main.json"]) (sk "k") (by decide +kernel)
  rw [fsKinds_fails] at h1
  cases h1

/-- **the self-reference hypothesis is needed** (two flat includes, no dict at all):
    `/d/main.json = {"#include": "a.json", "#include 2": "b.json", "q": 0}`, `/d/a.json = {"k": "$k"}`, `/d/b.json = {"k": 1}`.
    The reader's `temp` carries `a`'s expression table, sees that `k` is the placeholder `$k` and fills it from `b`:
    `k = 1`.  The fold of the statement tests with the including file's table only, does not recognise the
    placeholder, and keeps `k = EXPRESSION000002`. -/
def fsSelf : FS :=
  [ (pth ["d", "main.json"], .json [(sk "#include", sv "a.json"), (sk "#include 2", sv "b.json"), (sk "q", iv 0)]),
    (pth ["d", "a.json"], .json [(sk "k", sv "$k")]),
    (pth ["d", "b.json"], .json [(sk "k", iv 1)]) ]

theorem fsSelf_fails : stmtCheckFile fsSelf false (pth ["d", "main.json"]) (sk "k") = false := by decide +kernel

/-- **placeholders below the top level: equality only up to `stripEs`** (one flat include, comments read):
    `main = "#include 'a'\nk { // c\n x 1; }\n"`, `a = "k { // c\n y 2; }\n"`.  Both dicts under `k` bring a line comment
    with the same text; `_clean` (run by `SDict.merge` at every level) deletes the second placeholder entry, the bare
    fold of `_recursive_merge` keeps both. -/
def fsComments : FS :=
  [ (pth ["d", "main"], .native "#include 'a'\nk { // c\n x 1; }\n".toList),
    (pth ["d", "a"], .native "k { // c\n y 2; }\n".toList) ]

theorem fsComments_fails : stmtCheckFile fsComments true (pth ["d", "main"]) (sk "k") = false := by decide +kernel

/-! #### non-vacuity -/

/-- the decidable hypotheses for a file of the file system -/
def checkGood (fs : FS) (comments : Bool) (root : Comps) : Bool :=
  match parseFile fs comments none root with
  | .error _ => false
  | .ok (p, c) =>
    match closure fs comments (fs.length + 1) [] p root.dropLast c with
    | .error _ => false
    | .ok (incs, _) => kindConsistent p incs && nestedPhFree p incs

/-- **C06 (fold) for a checked file system.** if `checkGood` evaluates to `true` for a file, the conclusion of
    `C06_eq_fold_statement` holds for reading it -/
theorem C06_eq_fold_checked (fs : FS) (comments : Bool) (root : Comps) (hg : checkGood fs comments root = true)
    (p : SD) (c : Counter) (hp : parseFile fs comments none root = .ok (p, c)) (r : SD) (c' : Counter)
    (h : mergeIncludesRec fs comments (fs.length + 1) [] p root.dropLast c = .ok (r, c')) :
    ∃ incs, closure fs comments (fs.length + 1) [] p root.dropLast c = .ok (incs, c') ∧
      ∀ k, isPhKey k = false →
        lookup k r.data = lookup k (incs.foldl (fun d i => mergeD true p.exprs d i.data) p.data) := by
  obtain ⟨incs, hc, hk⟩ := C06_eq_fold_kind_consistent fs comments p root.dropLast c r c' h
  refine ⟨incs, hc, ?_⟩
  simp only [checkGood, hp, hc, Bool.and_eq_true] at hg
  exact (hk hg.1).2.2 hg.2

/-- the example of `C06.lean` (nested include, cycle, missing file, `..`; `a.json` reached twice) satisfies the hypotheses -/
theorem exFs_good : checkGood exFs true ["d".toList, "main.json".toList] = true := by decide +kernel

/-- a graph with dict-valued keys: `main → a, sub/b`; `a → main` (cycle), `a → c`; `sub/b → ../c` (diamond), `sub/b →` a
    missing file; `k` is a dict in all four files, with sub-keys that overlap -/
def exFs2 : FS :=
  [ (pth ["d", "main.json"], .json
      [(sk "#include", sv "a.json"), (sk "#include 2", sv "sub/b.json"), (sk "x", iv 1), (sk "k", .dict [(sk "p", iv 1)])]),
    (pth ["d", "a.json"], .json
      [(sk "x", iv 2), (sk "y", iv 3), (sk "k", .dict [(sk "p", iv 7), (sk "q", iv 2)]),
       (sk "#include", sv "main.json"), (sk "#include 2", sv "c.json")]),
    (pth ["d", "sub", "b.json"], .json
      [(sk "y", iv 4), (sk "z", iv 5), (sk "k", .dict [(sk "r", iv 3), (sk "n", .dict [(sk "u", iv 1)])]),
       (sk "#include", sv "../c.json"), (sk "#include 2", sv "nothere.json")]),
    (pth ["d", "c.json"], .json
      [(sk "w", sv "$x + 1"), (sk "k", .dict [(sk "q", iv 9), (sk "s", iv 4), (sk "n", .dict [(sk "v", iv 2)])])]) ]

theorem exFs2_good : checkGood exFs2 true (pth ["d", "main.json"]) = true := by decide +kernel

/-- … and the merged dict under `k`: first wins, sub-dicts merged, keys in order of first appearance (the chain starts
    empty, so the edge `a → main` re-enters `main` once and reaches `sub/b` before `a`'s second include `c`) -/
example :
    (match parseFile exFs2 true none (pth ["d", "main.json"]) with
     | .ok (p, c) => (match mergeIncludesRec exFs2 true (exFs2.length + 1) [] p (pth ["d"]) c with
       | .ok (r, _) => lookup (sk "k") r.data
       | .error _ => none)
     | .error _ => none) =
    some (.dict [(sk "p", iv 1), (sk "q", iv 2), (sk "r", iv 3), (sk "n", .dict [(sk "u", iv 1), (sk "v", iv 2)]), (sk "s", iv 4)]) := by
  decide +kernel

/-- the three failing inputs violate the hypotheses, each its own -/
example : checkGood fsKinds false (pth ["d", "main.json"]) = false := by decide +kernel
example : checkGood fsSelf false (pth ["d", "main.json"]) = false := by decide +kernel
example : checkGood fsComments true (pth ["d", "main"]) = false := by decide +kernel

end Witnesses

end DictIO.C06fold
