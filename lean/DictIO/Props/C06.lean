import DictIO.Model.Reader
import DictIO.Props.C07

namespace DictIO.C06
open DictIO

/-! ## the step of the include loop -/

/-- the body of the `for` loop of `_merge_includes_recursive` for one include entry `e` of a file whose directory (as
    spelled) is `dir`; `ancestors` is the chain of resolved paths of the files being merged; `recur` is the recursive call -/
def inclStep (fs : FS) (comments : Bool)
    (recur : List Comps → SD → Comps → Counter → Except ParseErr (SD × Counter))
    (ancestors : List Comps) (dir : Comps) (acc : SD × Counter) (e : Nat × InclEntry) : Except ParseErr (SD × Counter) := do
  let (temp, c) := acc
  let spelled := spellJoin dir e.2.file
  let target := resolveSpelled spelled
  if ancestors.contains target then pure (temp, c)
  else match fs.get target with
    | none => pure (temp, c)
    | some _ => do
      let (included, c) ← parseFile fs comments c spelled
      if included.incl.isEmpty then pure (temp.merge (.sd included), c)
      else do
        let (nested, c) ← recur (ancestors ++ [target]) included spelled.dropLast c
        pure ((temp.merge (.sd nested)).merge (.sd nested), c)

theorem mergeIncludesRec_zero (fs : FS) (comments : Bool) (ancestors : List Comps) (parent : SD) (dir : Comps) (c : Counter) :
    mergeIncludesRec fs comments 0 ancestors parent dir c = .ok (parent, c) := rfl

theorem mergeIncludesRec_succ (fs : FS) (comments : Bool) (fuel : Nat) (ancestors : List Comps) (parent : SD) (dir : Comps)
    (c : Counter) :
    mergeIncludesRec fs comments (fuel + 1) ancestors parent dir c =
      (parent.incl.foldlM (inclStep fs comments (mergeIncludesRec fs comments fuel) ancestors dir) (({} : SD), c)).map
        (fun r => (parent.merge (.sd r.1), r.2)) := by
  rfl

/-! ## a. a cut edge contributes nothing and does not stop the loop -/

/-- an include whose resolved target is on the chain of ancestors (a cycle) is skipped: the accumulator — the merged
    includes so far and the counter — goes on unchanged to the next include -/
theorem C06_cut_edge_cycle (fs : FS) (comments : Bool) (recur) (ancestors : List Comps) (dir : Comps) (acc : SD × Counter)
    (e : Nat × InclEntry) (h : ancestors.contains (resolveSpelled (spellJoin dir e.2.file)) = true) :
    inclStep fs comments recur ancestors dir acc e = pure acc := by
  simp only [inclStep, h, if_true]

/-- an include whose target is not in the file system is skipped in the same way -/
theorem C06_cut_edge_missing (fs : FS) (comments : Bool) (recur) (ancestors : List Comps) (dir : Comps) (acc : SD × Counter)
    (e : Nat × InclEntry) (h : fs.get (resolveSpelled (spellJoin dir e.2.file)) = none) :
    inclStep fs comments recur ancestors dir acc e = pure acc := by
  simp only [inclStep, h]
  split <;> rfl

/-- **C06 (cut edge).** both cases -/
theorem C06_cut_edge (fs : FS) (comments : Bool) (recur) (ancestors : List Comps) (dir : Comps) (acc : SD × Counter)
    (e : Nat × InclEntry)
    (h : ancestors.contains (resolveSpelled (spellJoin dir e.2.file)) = true ∨
         fs.get (resolveSpelled (spellJoin dir e.2.file)) = none) :
    inclStep fs comments recur ancestors dir acc e = pure acc :=
  h.elim (C06_cut_edge_cycle fs comments recur ancestors dir acc e) (C06_cut_edge_missing fs comments recur ancestors dir acc e)

/-- the loop over a list of includes with a cut edge in it is the loop over the list without it -/
theorem C06_cut_edge_fold (fs : FS) (comments : Bool) (recur) (ancestors : List Comps) (dir : Comps) (acc : SD × Counter)
    (pre post : List (Nat × InclEntry)) (e : Nat × InclEntry)
    (h : ancestors.contains (resolveSpelled (spellJoin dir e.2.file)) = true ∨
         fs.get (resolveSpelled (spellJoin dir e.2.file)) = none) :
    (pre ++ e :: post).foldlM (inclStep fs comments recur ancestors dir) acc =
      (pre ++ post).foldlM (inclStep fs comments recur ancestors dir) acc := by
  simp only [List.foldlM_append, List.foldlM_cons]
  congr 1
  funext acc'
  rw [C06_cut_edge fs comments recur ancestors dir acc' e h]
  rfl

/-- a file all of whose includes are cut edges comes back merged with the empty dict -/
theorem C06_all_cut (fs : FS) (comments : Bool) (fuel : Nat) (ancestors : List Comps) (parent : SD) (dir : Comps) (c : Counter)
    (h : ∀ e ∈ parent.incl, ancestors.contains (resolveSpelled (spellJoin dir e.2.file)) = true ∨
         fs.get (resolveSpelled (spellJoin dir e.2.file)) = none) :
    mergeIncludesRec fs comments (fuel + 1) ancestors parent dir c = .ok (parent.merge (.sd {}), c) := by
  rw [mergeIncludesRec_succ]
  have : ∀ (l : List (Nat × InclEntry)) (acc : SD × Counter), (∀ e ∈ l, ancestors.contains (resolveSpelled (spellJoin dir e.2.file)) = true ∨
         fs.get (resolveSpelled (spellJoin dir e.2.file)) = none) →
      l.foldlM (inclStep fs comments (mergeIncludesRec fs comments fuel) ancestors dir) acc = .ok acc := by
    intro l
    induction l with
    | nil => intro acc _; rfl
    | cons e l ih =>
      intro acc hl
      rw [List.foldlM_cons, C06_cut_edge _ _ _ _ _ _ _ (hl e List.mem_cons_self)]
      exact ih acc fun e' he' => hl e' (List.mem_cons_of_mem _ he')
  rw [this _ _ h]; rfl
